//go:build verifinst

package main

// L1 stream `life-wait`: the stop-token protocol of stream.go (wait / listenEnd / Close / Open / Rebalance)
// under DETERMINISTIC micro-schedules (DESIGN.md §7 C11/C12, finding F16).
//
// The real stream runs under the L1 fakes, built from an INSTRUMENTED COPY of /repo's working tree (harness/inject, DESIGN.md §9:
// six `verifPoint` calls inserted by syntactic position + the hook variable `stream.VerifPoint`; this file is compiled only into that
// build, tag `verifinst`). The hook
// parks every wait() goroutine at `wait.start`, `wait.token`, `wait.before-stop`, every stream-end delivery at
// `end.start`, `end.before-send`, and Close at `close.before-send`; the event-handler callbacks AfterStreamStop /
// AfterStreamStart are two more (optional) parking places of the control thread. An op releases exactly one parked
// goroutine (or starts one control procedure) and then waits - by polling conditions with a deadline, never by
// sleeping - until that goroutine is parked again or has returned. The Lean driver (Driver/WaitRace.lean) runs the
// same ops through the micro-step model Model/WaitRace.lean.
//
// A goroutine that arrives at `wait.before-stop` while stopCh is ALREADY closed would panic the process
// (`close of closed channel`): the harness reports `res=double-close` and keeps that goroutine parked for ever
// instead of letting the process die. The thorough tier additionally runs ONE child process that really panics.

import (
	"bytes"
	"errors"
	"fmt"
	"os"
	"os/exec"
	"runtime"
	"sort"
	"strconv"
	"strings"
	"sync"
	"time"

	"github.com/Trendyol/go-dcp/config"
	"github.com/Trendyol/go-dcp/couchbase"
	"github.com/Trendyol/go-dcp/models"
	"github.com/Trendyol/go-dcp/stream"
	"github.com/Trendyol/go-dcp/tracing"
	"github.com/couchbase/gocbcore/v10"
)

func init() {
	props["life-wait"] = runWaitRace
	props["life-wait-child"] = runWaitRaceChild
	stream.VerifPoint = wrHook
}

var wrEnvs sync.Map // stream.Stream -> *wrEnv

const wrDeadline = 2 * time.Second

type wrWait struct {
	k     int
	gid   uint64
	point string // start | select | token | stop | stuck | done
	rel   chan struct{}
}

type wrEnd struct {
	j     int
	vb    uint16
	point string // new | start | send | done
	rel   chan struct{}
}

type wrLate struct {
	o  couchbase.Observer
	vb uint16
}

type wrEnv struct {
	mu   sync.Mutex
	buf  *obuf
	cl   *wrClient
	disc *fakeDisc
	eh   *fakeEH
	cfg  *config.Dcp
	st   stream.Stream
	stop chan struct{}

	waits   []*wrWait
	ends    []*wrEnd
	pending []*wrEnd // created by the running Close, not yet numbered
	byGid   map[uint64]*wrEnd
	lateQ   []wrLate

	mainPoint string // "" (idle) | run | asp | send | ass
	mainRel   chan struct{}
	mainDone  bool
	mainFail  string
	timerRun  bool // the running control procedure is rebalance() on the timer goroutine (done = callback ARE)
	holdCS    bool // park Close inside closeAllStreams (all CloseStream calls answered, nothing returned yet)
	holdASP   bool
	holdASS   bool
	assignedN int
	csArrived int
	csRel     chan struct{}
	late      bool

	evs        []string
	assSeen    int // AfterStreamStart callbacks: each is followed by one `go s.wait()`
	opened     bool
	dcpStarted bool
	window     bool // rebalance timer armed, not fired
	running    []uint16
	closeTok   int
	endTok     int
	dead       bool
	child      bool // child-process mode: no double-close protection
}

// ---- goroutine ids (to tell which parked goroutine arrived at a point, and whether it has returned)
func wrGid() uint64 {
	var b [64]byte
	n := runtime.Stack(b[:], false)
	f := strings.Fields(string(b[:n]))
	if len(f) < 2 {
		return 0
	}
	id, _ := strconv.ParseUint(f[1], 10, 64)
	return id
}

func wrGoroutineAlive(gid uint64) bool {
	buf := make([]byte, 1<<20)
	for {
		n := runtime.Stack(buf, true)
		if n < len(buf) {
			buf = buf[:n]
			break
		}
		buf = make([]byte, 2*len(buf))
	}
	return bytes.Contains(buf, []byte(fmt.Sprintf("goroutine %d [", gid)))
}

// ---- the hook: called by the real code at its schedule points
func wrHook(s stream.Stream, name string) {
	v, ok := wrEnvs.Load(s)
	if !ok {
		return
	}
	e := v.(*wrEnv)
	gid := wrGid()
	e.mu.Lock()
	var ch chan struct{}
	switch name {
	case "wait.start":
		w := &wrWait{k: len(e.waits), gid: gid, point: "start", rel: make(chan struct{})}
		e.waits = append(e.waits, w)
		ch = w.rel
	case "wait.token", "wait.before-stop":
		var w *wrWait
		for _, x := range e.waits {
			if x.gid == gid {
				w = x
			}
		}
		if w == nil { // cannot happen: every wait() passes wait.start first
			e.mu.Unlock()
			return
		}
		w.rel = make(chan struct{})
		ch = w.rel
		if name == "wait.token" {
			w.point = "token"
			// it has received: one token less (which channel cannot be seen from outside when both held one;
			// the ops that could lead there are refused)
			if e.endTok > 0 && e.closeTok == 0 {
				e.endTok--
			} else if e.closeTok > 0 {
				e.closeTok--
			}
		} else {
			closed := false
			select {
			case <-e.stop:
				closed = true
			default:
			}
			if closed && !e.child {
				w.point = "stuck" // would be `close of closed channel`: parked for ever
				ch = make(chan struct{})
			} else {
				w.point = "stop"
			}
		}
	case "end.start", "end.before-send":
		d := e.byGid[gid]
		if d == nil {
			e.mu.Unlock()
			return
		}
		d.rel = make(chan struct{})
		ch = d.rel
		if name == "end.start" {
			d.point = "start"
		} else {
			d.point = "send"
		}
	case "close.before-send":
		e.mainPoint = "send"
		e.mainRel = make(chan struct{})
		ch = e.mainRel
	default:
		e.mu.Unlock()
		return
	}
	e.mu.Unlock()
	<-ch
}

// event-handler callbacks: trace + the two optional parking places of the control thread
func (e *wrEnv) onCallback(cb string) {
	e.mu.Lock()
	e.evs = append(e.evs, cb)
	var ch chan struct{}
	switch cb {
	case "ARS":
		e.window = true
	case "BRE":
		e.window = false
	case "ASP":
		if e.holdASP {
			e.mainPoint = "asp"
			e.mainRel = make(chan struct{})
			ch = e.mainRel
		}
	case "ASS":
		e.assSeen++
		if e.holdASS {
			e.mainPoint = "ass"
			e.mainRel = make(chan struct{})
			ch = e.mainRel
		}
	case "ARE":
		if e.timerRun {
			e.mainDone = true
		}
	}
	e.mu.Unlock()
	if ch != nil {
		<-ch
	}
}

// ---- the client fake: CloseStream answers at once; the STREAM_END(closed) of a still running stream is a
// separate, asynchronous delivery (as with a real node: gocbcore runs CloseStream's callback on the response)
type wrClient struct {
	*fakeClient
	env *wrEnv
}

func (c *wrClient) CloseStream(vbID uint16) error {
	e := c.env
	o := c.observer(vbID)
	e.mu.Lock()
	idx := -1
	for i, vb := range e.running {
		if vb == vbID {
			idx = i
		}
	}
	if idx >= 0 && o != nil { // still open at the server: a STREAM_END(closed) follows
		e.running = append(e.running[:idx], e.running[idx+1:]...)
		if e.late {
			e.lateQ = append(e.lateQ, wrLate{o, vbID})
			e.mu.Unlock()
		} else {
			e.mu.Unlock()
			d := e.startDelivery(o, vbID, gocbcore.ErrDCPStreamClosed)
			e.mu.Lock()
			e.pending = append(e.pending, d)
			e.mu.Unlock()
		}
	} else {
		e.mu.Unlock()
	}
	// optional parking place of the control thread: every CloseStream call of this Close has been answered
	e.mu.Lock()
	if !e.holdCS {
		e.mu.Unlock()
		return nil
	}
	if e.csRel == nil {
		e.csRel = make(chan struct{})
	}
	ch := e.csRel
	e.csArrived++
	if e.csArrived >= e.assignedN {
		e.mainPoint = "cs"
		e.mainRel = ch
	}
	e.mu.Unlock()
	<-ch
	return nil
}

// run observer.End on its own goroutine; returns when it is parked at end.start or has returned (dropped at the gate)
func (e *wrEnv) startDelivery(o couchbase.Observer, vb uint16, err error) *wrEnd {
	d := &wrEnd{j: -1, vb: vb, point: "new"}
	ready := make(chan struct{})
	go func() {
		gid := wrGid()
		e.mu.Lock()
		e.byGid[gid] = d
		e.mu.Unlock()
		close(ready)
		defer func() {
			r := recover()
			e.mu.Lock()
			d.point = "done"
			delete(e.byGid, gid)
			if r != nil {
				e.mainFail = "failstop:" + classifyPanic(r)
			}
			e.mu.Unlock()
		}()
		o.End(models.DcpStreamEnd{VbID: vb}, err)
	}()
	<-ready
	e.waitUntil(func() bool { return d.point == "start" || d.point == "done" })
	return d
}

// ---- polling with a deadline (no sleeps as synchronisation: conditions only)
func (e *wrEnv) waitUntil(cond func() bool) bool {
	deadline := time.Now().Add(wrDeadline)
	for i := 0; ; i++ {
		e.mu.Lock()
		ok := cond()
		e.mu.Unlock()
		if ok {
			return true
		}
		if time.Now().After(deadline) {
			return false
		}
		if i < 50 {
			runtime.Gosched()
		} else {
			time.Sleep(100 * time.Microsecond)
		}
	}
}

func newWrEnv(child bool) *wrEnv {
	buf := &obuf{}
	e := &wrEnv{buf: buf, disc: &fakeDisc{buf: buf}, eh: &fakeEH{}, stop: make(chan struct{}, 1), byGid: map[uint64]*wrEnd{}, child: child}
	e.cl = &wrClient{fakeClient: newFakeClient(buf, 1024), env: e}
	for vb := 0; vb < 16; vb++ {
		e.cl.high[uint16(vb)] = 1 << 40
	}
	cfg := baseConfig()
	cfg.Dcp.Group.Membership.RebalanceDelay = time.Hour // the timer is fired by the harness (fireTimer)
	e.cfg = cfg
	e.eh.hook = e.onCallback
	co := &fakeConsumer{buf: buf, quiet: true}
	e.st = stream.NewStream(e.cl, newFakeMeta(buf), cfg, &couchbase.Version{Major: 7, Minor: 6}, &couchbase.BucketInfo{BucketType: "membase"},
		e.disc, co, map[uint32]string{}, e.stop, e.eh, tracing.NewTracerComponent())
	wrEnvs.Store(e.st, e)
	return e
}

func (e *wrEnv) dispose() {
	wrEnvs.Delete(e.st)
}

// ---- control procedures
func (e *wrEnv) mainBusy() bool { return e.mainPoint != "" }

// start f on its own goroutine as the control thread and wait until it parks or returns
func (e *wrEnv) runMain(f func(), onTimer bool) string {
	e.mu.Lock()
	e.mainPoint = "run"
	e.mainDone = false
	e.timerRun = onTimer
	e.mu.Unlock()
	go func() {
		defer func() {
			if r := recover(); r != nil {
				e.mu.Lock()
				e.mainFail = "failstop:" + classifyPanic(r)
				e.mainDone = true
				e.mu.Unlock()
			}
		}()
		f()
		if !onTimer {
			e.mu.Lock()
			e.mainDone = true
			e.mu.Unlock()
		}
	}()
	return e.settleMain()
}

func (e *wrEnv) settleMain() string {
	ok := e.waitUntil(func() bool {
		return e.mainDone || e.mainPoint == "cs" || e.mainPoint == "asp" || e.mainPoint == "send" || e.mainPoint == "ass"
	})
	if !ok {
		return "hang"
	}
	// the wait() goroutine of a finished Open must have reached its first schedule point
	if !e.waitUntil(func() bool {
		want := e.assSeen
		if e.mainPoint == "ass" {
			want--
		}
		return len(e.waits) >= want
	}) {
		return "hang"
	}
	e.mu.Lock()
	if e.mainDone {
		e.mainPoint = ""
	}
	// number the deliveries this Close produced (all parked at end.start), in vBucket order
	p := e.pending
	e.pending = nil
	var lq []wrLate
	if e.mainPoint != "cs" { // (at `cs` the observers' gate is still open: the late ENDs come after CloseEnd)
		lq = e.lateQ
		e.lateQ = nil
	}
	e.mu.Unlock()
	sort.Slice(p, func(i, j int) bool { return p[i].vb < p[j].vb })
	e.mu.Lock()
	for _, d := range p {
		d.j = len(e.ends)
		e.ends = append(e.ends, d)
	}
	e.mu.Unlock()
	// late mode: the STREAM_ENDs arrive only now, after CloseEnd has shut the observers' gate
	sort.Slice(lq, func(i, j int) bool { return lq[i].vb < lq[j].vb })
	for _, l := range lq {
		d := e.startDelivery(l.o, l.vb, gocbcore.ErrDCPStreamClosed)
		e.mu.Lock()
		d.j = len(e.ends)
		e.ends = append(e.ends, d)
		e.mu.Unlock()
	}
	return ""
}

// the wait goroutine that sits in the select right now (at most one: see releaseWait)
func (e *wrEnv) selecting() *wrWait {
	e.mu.Lock()
	defer e.mu.Unlock()
	for _, x := range e.waits {
		if x.point == "select" {
			return x
		}
	}
	return nil
}

// after a completed send: the goroutine that was in the select receives at once and parks at wait.token
func (e *wrEnv) awaitReceive(w *wrWait) string {
	if w == nil {
		return ""
	}
	if !e.waitUntil(func() bool { return w.point != "select" }) {
		return "hang"
	}
	return ""
}

var wrFinalErr = errors.New("stream ended for good")

func (e *wrEnv) exec(line string) (res string) {
	t := strings.Fields(line)
	switch t[0] {
	case "wr-hold":
		k, _ := strconv.Atoi(t[1])
		e.mu.Lock()
		e.holdCS = k&1 != 0
		e.holdASS = k&2 != 0
		e.holdASP = k&4 != 0
		e.mu.Unlock()
		return ""
	case "wr-open":
		n, _ := strconv.Atoi(t[1])
		if e.opened || e.mainBusy() || n < 1 {
			return "skipped"
		}
		e.opened = true
		e.disc.set(0, n-1)
		e.setRunning(n)
		return e.runMain(func() { e.st.Open() }, false)
	case "wr-notify":
		if !e.opened || e.dcpStarted || e.mainBusy() {
			return "skipped"
		}
		e.mu.Lock()
		e.late = len(t) > 1 && t[1] == "late"
		e.mu.Unlock()
		return e.runMain(func() { e.st.Rebalance() }, false)
	case "wr-fire-timer":
		n, _ := strconv.Atoi(t[1])
		if !e.window || e.mainBusy() || n < 1 {
			return "skipped"
		}
		e.disc.set(0, n-1)
		e.setRunning(n)
		return e.runMain(func() {
			// the pending timer is re-armed with a zero delay through Rebalance()'s own debounce branch
			// (balancing && rebalanceTimer != nil: Stop() reports true, Reset(delay)); nothing else happens in that branch
			e.cfg.Dcp.Group.Membership.RebalanceDelay = time.Nanosecond
			e.st.Rebalance()
			e.cfg.Dcp.Group.Membership.RebalanceDelay = time.Hour
		}, true)
	case "wr-shutdown", "wr-dcp-stop":
		if !e.opened || e.dcpStarted || e.mainBusy() {
			return "skipped"
		}
		cancel := t[0] == "wr-shutdown"
		if !cancel && !e.stopClosed() {
			return "skipped"
		}
		e.dcpStarted = true
		e.mu.Lock()
		e.late = len(t) > 1 && t[1] == "late"
		e.mu.Unlock()
		return e.runMain(func() { e.st.Close(cancel) }, false)
	case "wr-release":
		if len(t) < 2 {
			return "bad-op"
		}
		switch t[1] {
		case "main":
			return e.releaseMain()
		case "wait":
			k, _ := strconv.Atoi(t[2])
			return e.releaseWait(k)
		case "end":
			j, _ := strconv.Atoi(t[2])
			return e.releaseEnd(j)
		}
		return "bad-op"
	case "wr-end":
		return e.serverEnd(t[1] == "counted")
	case "wr-obs":
		return ""
	}
	return "bad-op"
}

func (e *wrEnv) setRunning(n int) {
	e.mu.Lock()
	e.assignedN = n
	e.running = nil
	for vb := 0; vb < n; vb++ {
		e.running = append(e.running, uint16(vb))
	}
	e.mu.Unlock()
}

func (e *wrEnv) stopClosed() bool {
	select {
	case <-e.stop:
		return true
	default:
		return false
	}
}

func (e *wrEnv) releaseMain() string {
	e.mu.Lock()
	pt := e.mainPoint
	if pt != "cs" && pt != "asp" && pt != "send" && pt != "ass" {
		e.mu.Unlock()
		return "skipped"
	}
	if pt == "cs" {
		e.csRel = nil
		e.csArrived = 0
	}
	if pt == "send" && e.closeTok > 0 {
		e.mu.Unlock()
		return "would-block"
	}
	e.mainPoint = "run"
	ch := e.mainRel
	var sw *wrWait
	if pt == "send" {
		e.closeTok++
		for _, x := range e.waits {
			if x.point == "select" {
				sw = x
			}
		}
	}
	e.mu.Unlock()
	close(ch)
	if r := e.settleMain(); r != "" {
		return r
	}
	return e.awaitReceive(sw)
}

func (e *wrEnv) releaseWait(k int) string {
	e.mu.Lock()
	if k < 0 || k >= len(e.waits) {
		e.mu.Unlock()
		return "skipped"
	}
	w := e.waits[k]
	switch w.point {
	case "start":
		for _, x := range e.waits {
			if x.point == "select" {
				e.mu.Unlock()
				return "skipped" // two goroutines in one select: who receives is not decidable from outside
			}
		}
		if e.closeTok+e.endTok >= 2 {
			e.mu.Unlock()
			return "skipped" // both channels ready: which case the select takes is not decidable from outside
		}
		w.point = "select"
		ch := w.rel
		expect := e.closeTok+e.endTok > 0
		e.mu.Unlock()
		close(ch)
		if expect {
			return e.awaitReceive(w)
		}
		return ""
	case "token":
		w.point = "run"
		ch := w.rel
		gid := w.gid
		e.mu.Unlock()
		close(ch)
		// it either arrives at wait.before-stop or returns
		n := 0
		ok := e.waitUntil(func() bool {
			if w.point == "stop" || w.point == "stuck" {
				return true
			}
			n++
			if n%8 == 0 {
				e.mu.Unlock()
				alive := wrGoroutineAlive(gid)
				e.mu.Lock()
				if !alive && w.point == "run" {
					w.point = "done"
				}
			}
			return w.point == "done"
		})
		if !ok {
			return "hang"
		}
		if w.point == "stuck" {
			return "double-close"
		}
		return ""
	case "stop":
		if e.stopClosed() && !e.child {
			// another goroutine closed stopCh meanwhile: releasing this one would panic the process
			w.point = "stuck"
			e.mu.Unlock()
			return "double-close"
		}
		w.point = "run"
		ch := w.rel
		e.mu.Unlock()
		close(ch)
		if !e.waitUntil(func() bool { return e.stopClosed() }) {
			return "hang"
		}
		e.mu.Lock()
		w.point = "done"
		e.mu.Unlock()
		return ""
	}
	e.mu.Unlock()
	return "skipped"
}

func (e *wrEnv) releaseEnd(j int) string {
	e.mu.Lock()
	if j < 0 || j >= len(e.ends) {
		e.mu.Unlock()
		return "skipped"
	}
	d := e.ends[j]
	switch d.point {
	case "start":
		d.point = "run"
		ch := d.rel
		e.mu.Unlock()
		close(ch)
		if !e.waitUntil(func() bool { return d.point == "send" || d.point == "done" }) {
			return "hang"
		}
		return ""
	case "send":
		if e.endTok > 0 {
			e.mu.Unlock()
			return "would-block"
		}
		d.point = "run"
		e.endTok++
		ch := d.rel
		var sw *wrWait
		for _, x := range e.waits {
			if x.point == "select" {
				sw = x
			}
		}
		e.mu.Unlock()
		close(ch)
		if !e.waitUntil(func() bool { return d.point == "done" }) {
			return "hang"
		}
		return e.awaitReceive(sw)
	}
	e.mu.Unlock()
	return "skipped"
}

// the server ends one running stream: for good (counted) or with a transient cause (re-requested at once)
func (e *wrEnv) serverEnd(counted bool) string {
	e.mu.Lock()
	if len(e.running) == 0 || (!counted && (e.mainBusy() || !e.st.IsOpen())) {
		e.mu.Unlock()
		return "skipped"
	}
	vb := e.running[0]
	if counted {
		e.running = e.running[1:]
	}
	e.mu.Unlock()
	o := e.cl.observer(vb)
	if o == nil {
		return "skipped"
	}
	if counted {
		d := e.startDelivery(o, vb, wrFinalErr)
		e.mu.Lock()
		d.j = len(e.ends)
		e.ends = append(e.ends, d)
		e.mu.Unlock()
		return ""
	}
	// transient: runs through at once; listenEnd spawns reopenStream, which re-requests the vBucket
	before := e.countOpenReq()
	d := e.startDelivery(o, vb, gocbcore.ErrDCPStreamTooSlow)
	e.mu.Lock()
	d.j = len(e.ends)
	e.ends = append(e.ends, d)
	pt := d.point
	ch := d.rel
	if pt == "start" {
		d.point = "run"
	}
	e.mu.Unlock()
	if pt == "start" {
		close(ch)
	}
	if !e.waitUntil(func() bool { return d.point == "done" }) {
		return "hang"
	}
	if !e.waitUntil(func() bool { return e.countOpenReq() > before }) {
		return "hang"
	}
	return ""
}

func (e *wrEnv) countOpenReq() int {
	n := 0
	for _, s := range e.bufPeek() {
		if strings.HasPrefix(s, "openreq ") {
			n++
		}
	}
	return n
}

func (e *wrEnv) bufPeek() []string {
	e.buf.mu.Lock()
	defer e.buf.mu.Unlock()
	return append([]string{}, e.buf.l...)
}

// canonical snapshot of what can be observed from outside
func (e *wrEnv) snapshot(res string) string {
	_, active := e.st.GetMetric()
	e.mu.Lock()
	defer e.mu.Unlock()
	if e.mainFail != "" && res == "" {
		res = e.mainFail
	}
	ev := "-"
	if len(e.evs) > 0 {
		ev = strings.Join(e.evs, ",")
	}
	e.evs = nil
	mp := e.mainPoint
	if mp == "" {
		mp = "idle"
	}
	var ws, es []string
	for _, w := range e.waits {
		if w.point != "done" {
			ws = append(ws, fmt.Sprintf("%d:%s", w.k, w.point))
		}
	}
	for _, d := range e.ends {
		if d.point == "start" || d.point == "send" {
			es = append(es, fmt.Sprintf("%d:%s", d.j, d.point))
		}
	}
	lst := func(l []string) string {
		if len(l) == 0 {
			return "-"
		}
		return strings.Join(l, ",")
	}
	s := fmt.Sprintf("ev=%s stop=%d open=%d active=%d main=%s waits=%s ends=%s", ev, b2i(e.stopClosed()), b2i(e.st.IsOpen()), active, mp, lst(ws), lst(es))
	if res != "" {
		s += " res=" + res
	}
	if os.Getenv("VERIF_WR_DEBUG") != "" {
		s += fmt.Sprintf(" dbg=c%d,e%d", e.closeTok, e.endTok)
	}
	return s
}

// ---- adaptive generation: the next op is drawn from what is parked right now
type wrGen struct {
	r       *Rng
	prompt  bool // keep the schedule inside Prompt / EndsDrained / StopThenClose
	nOpen   int
	budget  int
	reopen  bool // allow stream ends while Open is parked before `go s.wait()` (liveness gap, see Props/WaitRace)
	tags    map[string]bool
	queue   []string
}

func (g *wrGen) next(e *wrEnv) string {
	if len(g.queue) > 0 {
		op := g.queue[0]
		g.queue = g.queue[1:]
		return op
	}
	e.mu.Lock()
	var wStart, wTok, wStop, wSel []int
	for _, w := range e.waits {
		switch w.point {
		case "start":
			wStart = append(wStart, w.k)
		case "token":
			wTok = append(wTok, w.k)
		case "stop":
			wStop = append(wStop, w.k)
		case "select":
			wSel = append(wSel, w.k)
		}
	}
	var eStart, eSend []int
	for _, d := range e.ends {
		switch d.point {
		case "start":
			eStart = append(eStart, d.j)
		case "send":
			eSend = append(eSend, d.j)
		}
	}
	mp := e.mainPoint
	window := e.window
	nrun := len(e.running)
	opened, dcp := e.opened, e.dcpStarted
	e.mu.Unlock()
	stopped := e.stopClosed()
	r := g.r
	pickI := func(l []int) int { return l[r.Intn(len(l))] }
	if !opened {
		g.nOpen = 1 + r.Intn(3)
		if g.prompt || r.Chance(70) {
			return fmt.Sprintf("wr-open %d", g.nOpen)
		}
	}
	if g.prompt {
		// Prompt: a wait goroutine that can move moves first
		switch {
		case len(wStop) > 0:
			return fmt.Sprintf("wr-release wait %d", wStop[0])
		case len(wTok) > 0:
			return fmt.Sprintf("wr-release wait %d", wTok[0])
		case len(wStart) > 0 && len(wSel) == 0:
			return fmt.Sprintf("wr-release wait %d", wStart[0])
		}
		// EndsDrained: deliveries finish before the control thread goes on
		if len(eSend) > 0 {
			return fmt.Sprintf("wr-release end %d", eSend[0])
		}
		if len(eStart) > 0 && (mp == "cs" || mp == "" || mp == "ass") {
			return fmt.Sprintf("wr-release end %d", pickI(eStart))
		}
		if mp == "cs" || mp == "asp" || mp == "send" || mp == "ass" {
			return "wr-release main"
		}
		if stopped && !dcp {
			// StopThenClose
			g.tags["stop-then-close"] = true
			if r.Bool() {
				return "wr-dcp-stop late"
			}
			g.queue = []string{"wr-dcp-stop now", "wr-hold 0"}
			return "wr-hold 1"
		}
		if dcp {
			return "wr-obs"
		}
		x := r.Intn(100)
		switch {
		case window && x < 55:
			g.nOpen = 1 + r.Intn(3)
			if g.reopen && r.Chance(50) {
				g.tags["ends-during-reopen"] = true
				g.queue = []string{fmt.Sprintf("wr-fire-timer %d", g.nOpen)}
				for k := 0; k < g.nOpen; k++ {
					g.queue = append(g.queue, "wr-end counted")
				}
				g.queue = append(g.queue, "wr-hold 0")
				return "wr-hold 2"
			}
			return fmt.Sprintf("wr-fire-timer %d", g.nOpen)
		case window && x < 70:
			g.tags["debounce"] = true
			return "wr-notify now"
		case window:
			if x < 80 {
				g.tags["F4-shutdown-in-window"] = true
				return "wr-shutdown now"
			}
			return "wr-obs"
		case x < 30:
			// with `now` the STREAM_ENDs race the Close: hold Close at AfterStreamStop so that they can drain first
			if r.Chance(60) {
				g.tags["rebalance-ends-first"] = true
				g.queue = []string{"wr-notify now", "wr-hold 0"}
				return "wr-hold 1"
			}
			g.tags["rebalance-close-token"] = true
			return "wr-notify late"
		case x < 70 && nrun > 0:
			c := "counted"
			if r.Chance(20) {
				c = "transient"
			}
			g.tags["end."+c] = true
			return "wr-end " + c
		case x < 78:
			g.tags["shutdown"] = true
			if r.Bool() {
				return "wr-shutdown late"
			}
			g.queue = []string{"wr-shutdown now", "wr-hold 0"}
			return "wr-hold 1"
		default:
			return "wr-obs"
		}
	}
	// free schedules: anything that is parked may move, any control procedure may start
	var c []string
	for _, k := range wStart {
		c = append(c, fmt.Sprintf("wr-release wait %d", k))
	}
	for _, k := range append(wTok, wStop...) {
		c = append(c, fmt.Sprintf("wr-release wait %d", k), fmt.Sprintf("wr-release wait %d", k))
	}
	for _, j := range append(eStart, eSend...) {
		c = append(c, fmt.Sprintf("wr-release end %d", j), fmt.Sprintf("wr-release end %d", j))
	}
	if mp != "" {
		c = append(c, "wr-release main", "wr-release main", "wr-release main")
	} else {
		if window {
			g.nOpen = 1 + r.Intn(2)
			c = append(c, fmt.Sprintf("wr-fire-timer %d", g.nOpen), fmt.Sprintf("wr-fire-timer %d", g.nOpen), fmt.Sprintf("wr-fire-timer %d", g.nOpen), "wr-notify now")
		} else if !dcp {
			c = append(c, "wr-notify now", "wr-notify now", "wr-notify late")
		}
		if nrun > 0 {
			c = append(c, "wr-end counted", "wr-end counted", "wr-end transient")
		}
		if stopped && !dcp {
			c = append(c, "wr-dcp-stop now", "wr-dcp-stop now", "wr-dcp-stop late")
		}
		if !dcp && !window && r.Chance(15) {
			c = append(c, "wr-shutdown now")
		}
		if r.Chance(10) {
			c = append(c, fmt.Sprintf("wr-hold %d", []int{0, 1, 4, 5, 0}[r.Intn(5)]))
		}
	}
	if len(c) == 0 {
		return "wr-obs"
	}
	return c[r.Intn(len(c))]
}

func runWrCase(ops []string, g *wrGen, child bool) (outOps []string, reals []string) {
	e := newWrEnv(child)
	defer e.dispose()
	dead := false
	step := func(op string) {
		outOps = append(outOps, op)
		if dead {
			reals = append(reals, "-")
			return
		}
		res := e.exec(op)
		snap := e.snapshot(res)
		reals = append(reals, snap)
		if strings.Contains(snap, "res=hang") || strings.Contains(snap, "res=failstop") || strings.Contains(snap, "res=double-close") {
			dead = true
		}
	}
	if g == nil {
		for _, op := range ops {
			step(op)
		}
		return
	}
	if g.prompt {
		step("wr-hold 0") // (marks the cases generated under the scheduler restrictions)
	}
	for i := 0; i < g.budget || len(g.queue) > 0; i++ {
		step(g.next(e))
		if dead {
			break
		}
	}
	step("wr-obs")
	return
}

func runWaitRace(c *Ctx) {
	type wcase struct {
		ops, reals []string
		tags       []string
	}
	var cases []wcase
	if replayFile != "" {
		var cur []string
		flush := func() {
			if cur != nil {
				ops, reals := runWrCase(cur, nil, false)
				cases = append(cases, wcase{ops, reals, []string{"replay"}})
			}
			cur = nil
		}
		for _, l := range readOpLines(replayFile) {
			if l == "reset" {
				flush()
				cur = []string{}
				continue
			}
			if cur == nil {
				cur = []string{}
			}
			cur = append(cur, l)
		}
		flush()
	} else {
		n := c.N(300, 3000)
		reopen := os.Getenv("VERIF_WR_REOPEN_ENDS") == "1"
		gens := make([]*wrGen, n)
		for i := range gens {
			g := &wrGen{r: NewRng(c.R.U64()), budget: 14 + c.R.Intn(30), tags: map[string]bool{}}
			g.prompt = c.R.Chance(65)
			g.reopen = reopen && g.prompt && c.R.Chance(30)
			gens[i] = g
		}
		cases = make([]wcase, n)
		sem := make(chan struct{}, 8)
		var wg sync.WaitGroup
		for i := range gens {
			wg.Add(1)
			sem <- struct{}{}
			go func(i int) {
				defer wg.Done()
				defer func() { <-sem }()
				g := gens[i]
				ops, reals := runWrCase(nil, g, false)
				if g.prompt {
					g.tags["schedule.prompt"] = true
				} else {
					g.tags["schedule.free"] = true
				}
				for _, r := range reals {
					for _, k := range []string{"double-close", "would-block", "hang", "failstop", "skipped"} {
						if strings.Contains(r, "res="+k) {
							g.tags["res."+k] = true
						}
					}
				}
				var tags []string
				for t := range g.tags {
					tags = append(tags, t)
				}
				sort.Strings(tags)
				cases[i] = wcase{ops, reals, tags}
			}(i)
		}
		wg.Wait()
		if c.Thorough() {
			// ONE child process in which the second close(stopCh) really happens
			cases = append(cases, wcase{[]string{"wr-child-double-close"}, []string{wrChildRun()}, []string{"child-panic"}})
		}
	}
	for _, wc := range cases {
		c.E.Line("reset", "ok")
		for i, op := range wc.ops {
			c.E.Line(op, wc.reals[i])
		}
		c.E.EndCase(len(wc.ops) > 8, wc.tags...)
	}
}

// ---- the real panic, in a child process: spurious stop after a rebalance, then dcp.close() lets the new
// session's wait() goroutine close stopCh a second time
var wrDoubleCloseOps = []string{"wr-open 1", "wr-release wait 0", "wr-notify late", "wr-release main", "wr-fire-timer 1",
	"wr-release wait 0", "wr-release wait 0", "wr-release wait 1", "wr-dcp-stop late", "wr-release main", "wr-release wait 1", "wr-release wait 1"}

func runWaitRaceChild(c *Ctx) {
	runWrCase(wrDoubleCloseOps, nil, true)
	time.Sleep(3 * time.Second) // the panic happens on the wait() goroutine
	c.E.Line("wr-child", "survived")
	c.E.EndCase(false)
}

func wrChildRun() string {
	dir, err := os.MkdirTemp(".", "wrchild")
	if err != nil {
		return "child err"
	}
	defer os.RemoveAll(dir)
	cmd := exec.Command(os.Args[0], "-seed", "1", "-tier", "quick", "-out", dir+"/o", "-stats", dir+"/s", "life-wait-child")
	var stderr bytes.Buffer
	cmd.Stderr = &stderr
	done := make(chan error, 1)
	go func() { done <- cmd.Run() }()
	select {
	case err = <-done:
	case <-time.After(20 * time.Second):
		_ = cmd.Process.Kill()
		return "child timeout"
	}
	code := 0
	if ee, ok := err.(*exec.ExitError); ok {
		code = ee.ExitCode()
	}
	p := "none"
	if strings.Contains(stderr.String(), "close of closed channel") {
		p = "close-of-closed-channel"
	}
	return fmt.Sprintf("child exit=%d panic=%s", code, p)
}
