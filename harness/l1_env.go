package main

// L1: the real stream / checkpoint / observer code under fakes (DESIGN.md §3.2).

import (
	"errors"
	"fmt"
	"os"
	"reflect"
	"sort"
	"strings"
	"sync"
	"time"
	"unsafe"

	"github.com/Trendyol/go-dcp/config"
	"github.com/Trendyol/go-dcp/couchbase"
	"github.com/Trendyol/go-dcp/models"
	"github.com/Trendyol/go-dcp/stream"
	"github.com/Trendyol/go-dcp/wrapper"
	"github.com/couchbase/gocbcore/v10"
)

// ---- observation buffer: fakes append, the op interpreter drains
type obuf struct {
	mu sync.Mutex
	l  []string
}

func (b *obuf) add(s string) {
	b.mu.Lock()
	b.l = append(b.l, s)
	b.mu.Unlock()
}
func (b *obuf) drain() []string {
	b.mu.Lock()
	defer b.mu.Unlock()
	l := b.l
	b.l = nil
	return l
}

func joinObs(l []string) string {
	if len(l) == 0 {
		return "-"
	}
	return strings.Join(l, " ; ")
}

func fmtOff(o *models.Offset) string {
	if o == nil {
		return "(nil)"
	}
	if o.SnapshotMarker == nil {
		return fmt.Sprintf("(%d,%d,nil,nil,%d)", uint64(o.VbUUID), o.SeqNo, o.LatestSeqNo)
	}
	return fmt.Sprintf("(%d,%d,%d,%d,%d)", uint64(o.VbUUID), o.SeqNo, o.StartSeqNo, o.EndSeqNo, o.LatestSeqNo)
}

func fmtDoc(d *models.CheckpointDocument) string {
	return fmt.Sprintf("(%d,%d,%d,%d)", d.Checkpoint.VbUUID, d.Checkpoint.SeqNo, d.Checkpoint.Snapshot.StartSeqNo, d.Checkpoint.Snapshot.EndSeqNo)
}

// zero-state ConfigSnapshot whose BucketUUID() returns "" (the only use of unsafe; touches gocbcore, not go-dcp)
func newSnap() *gocbcore.ConfigSnapshot {
	s := &gocbcore.ConfigSnapshot{}
	f := reflect.ValueOf(s).Elem().Field(0)
	reflect.NewAt(f.Type(), unsafe.Pointer(f.UnsafeAddr())).Elem().Set(reflect.New(f.Type().Elem()))
	return s
}

// ---- fake couchbase.Client
type fakeClient struct {
	mu       sync.Mutex
	buf      *obuf
	obs      map[uint16]couchbase.Observer
	high     map[uint16]uint64
	flog     map[uint16]uint64
	nvb      int
	snap     *gocbcore.ConfigSnapshot
	failOpen map[uint16]int // remaining injected OpenStream failures per vb
	seqErr   error
	flogErr  map[uint16]error
	pingErr  func() error
	closeEnd bool // CloseStream answers with End(ErrDCPStreamClosed) like the server
	openHook func(vb uint16)
	holdOpen map[uint16]chan struct{} // OpenStream of these vBuckets returns only after release (request logged at entry)
	ended    map[uint16]bool          // streams the server no longer has (a final End was pushed): CloseStream sends no End for them
}

func newFakeClient(buf *obuf, nvb int) *fakeClient {
	return &fakeClient{buf: buf, obs: map[uint16]couchbase.Observer{}, high: map[uint16]uint64{}, flog: map[uint16]uint64{},
		nvb: nvb, snap: newSnap(), failOpen: map[uint16]int{}, flogErr: map[uint16]error{}, closeEnd: true, ended: map[uint16]bool{}}
}

func (c *fakeClient) Ping() (*models.PingResult, error) {
	if c.pingErr != nil {
		if err := c.pingErr(); err != nil {
			return nil, err
		}
	}
	return &models.PingResult{}, nil
}
func (c *fakeClient) GetAgent() *gocbcore.Agent     { return nil }
func (c *fakeClient) GetMetaAgent() *gocbcore.Agent { return nil }
func (c *fakeClient) Connect() error                { return nil }
func (c *fakeClient) Close()                        {}
func (c *fakeClient) DcpConnect(bool, bool) error   { return nil }
func (c *fakeClient) DcpClose()                     {}
func (c *fakeClient) GetVBucketSeqNos(bool) (*wrapper.ConcurrentSwissMap[uint16, uint64], error) {
	c.mu.Lock()
	defer c.mu.Unlock()
	if c.seqErr != nil {
		return nil, c.seqErr
	}
	m := wrapper.CreateConcurrentSwissMap[uint16, uint64](1024)
	for vb, h := range c.high {
		m.Store(vb, h)
	}
	return m, nil
}
func (c *fakeClient) GetNumVBuckets() int { return c.nvb }
func (c *fakeClient) GetFailOverLogs(vbID uint16) ([]gocbcore.FailoverEntry, error) {
	c.mu.Lock()
	defer c.mu.Unlock()
	if err := c.flogErr[vbID]; err != nil {
		return nil, err
	}
	return []gocbcore.FailoverEntry{{VbUUID: gocbcore.VbUUID(c.flog[vbID]), SeqNo: 0}}, nil
}

func (c *fakeClient) OpenStream(vbID uint16, _ map[uint32]string, off *models.Offset, o couchbase.Observer) error {
	c.mu.Lock()
	if c.failOpen[vbID] > 0 {
		c.failOpen[vbID]--
		c.mu.Unlock()
		c.buf.add(fmt.Sprintf("openfail %d", vbID))
		return errors.New("injected open failure")
	}
	c.obs[vbID] = o
	delete(c.ended, vbID)
	u := c.flog[vbID]
	hook := c.openHook
	c.mu.Unlock()
	c.buf.add(fmt.Sprintf("openreq %d %s", vbID, fmtOff(off)))
	c.mu.Lock()
	hold := c.holdOpen[vbID]
	c.mu.Unlock()
	if hold != nil {
		<-hold
	}
	o.SetVbUUID(gocbcore.VbUUID(u))
	if hook != nil {
		hook(vbID)
	}
	return nil
}
func (c *fakeClient) CloseStream(vbID uint16) error {
	c.mu.Lock()
	o := c.obs[vbID]
	ce := c.closeEnd
	c.mu.Unlock()
	c.buf.add(fmt.Sprintf("closereq %d", vbID))
	c.mu.Lock()
	gone := c.ended[vbID]
	c.mu.Unlock()
	if gone {
		return errors.New("no such stream") // as the server answers (KEY_ENOENT); go-dcp only logs it
	}
	if o != nil && ce {
		o.End(models.DcpStreamEnd{VbID: vbID}, gocbcore.ErrDCPStreamClosed)
	}
	return nil
}
func (c *fakeClient) GetCollectionIDs(string, []string) (map[uint32]string, error) {
	return map[uint32]string{}, nil
}
func (c *fakeClient) GetAgentConfigSnapshot() (*gocbcore.ConfigSnapshot, error) { return c.snap, nil }
func (c *fakeClient) GetDcpAgentConfigSnapshot() (*gocbcore.ConfigSnapshot, error) {
	return c.snap, nil
}
func (c *fakeClient) GetAgentQueues() []*models.AgentQueue { return nil }

// markEnded: the harness pushed an End for this vBucket (the server-side stream is gone unless it is re-requested)
func (c *fakeClient) markEnded(vb uint16) {
	c.mu.Lock()
	c.ended[vb] = true
	c.mu.Unlock()
}

func (c *fakeClient) releaseHolds() {
	c.mu.Lock()
	defer c.mu.Unlock()
	for vb, ch := range c.holdOpen {
		close(ch)
		delete(c.holdOpen, vb)
	}
}

func (c *fakeClient) observer(vb uint16) couchbase.Observer {
	c.mu.Lock()
	defer c.mu.Unlock()
	return c.obs[vb]
}

// ---- fake metadata.Metadata: in-memory, one document per vBucket, dirty-only writes
type storeVerdict struct {
	kind    string // ok | fail | partial
	written map[uint16]bool
}

type fakeMeta struct {
	mu      sync.Mutex
	buf     *obuf
	store   map[uint16]models.CheckpointDocument
	next    storeVerdict      // verdict for unpaused saves
	pause   bool              // micro-step mode: Save blocks until a verdict is sent
	atStore chan string       // signals entry (with the rendered arguments)
	verdict chan storeVerdict // harness → Save
	loadErr error
	calls   int
}

func newFakeMeta(buf *obuf) *fakeMeta {
	return &fakeMeta{buf: buf, store: map[uint16]models.CheckpointDocument{}, next: storeVerdict{kind: "ok"},
		atStore: make(chan string, 4), verdict: make(chan storeVerdict, 4)}
}

func renderDocs(state map[uint16]*models.CheckpointDocument, only func(uint16) bool) string {
	var ks []int
	for vb := range state {
		if only == nil || only(vb) {
			ks = append(ks, int(vb))
		}
	}
	sort.Ints(ks)
	var sb []string
	for _, vb := range ks {
		sb = append(sb, fmt.Sprintf("%d%s", vb, fmtDoc(state[uint16(vb)])))
	}
	return "[" + strings.Join(sb, " ") + "]"
}

func renderVbs(m map[uint16]bool) string {
	var ks []int
	for vb, d := range m {
		if d {
			ks = append(ks, int(vb))
		}
	}
	sort.Ints(ks)
	var sb []string
	for _, k := range ks {
		sb = append(sb, fmt.Sprint(k))
	}
	return "[" + strings.Join(sb, ",") + "]"
}

func (m *fakeMeta) Save(state map[uint16]*models.CheckpointDocument, dirty map[uint16]bool, _ string) error {
	call := fmt.Sprintf("savecall %s dirty=%s", renderDocs(state, nil), renderVbs(dirty))
	m.mu.Lock()
	m.calls++
	paused := m.pause
	m.pause = false // one-shot: set by `sv K dump`
	v := m.next
	m.mu.Unlock()
	if paused {
		m.atStore <- call
		v = <-m.verdict
	} else {
		m.buf.add(call)
	}
	m.mu.Lock()
	defer m.mu.Unlock()
	w := map[uint16]*models.CheckpointDocument{}
	for vb, d := range state {
		if !dirty[vb] {
			continue
		}
		if v.kind == "fail" || (v.kind == "partial" && !v.written[vb]) {
			continue
		}
		w[vb] = d
		m.store[vb] = models.CheckpointDocument{Checkpoint: &models.CheckpointDocumentCheckpoint{
			VbUUID: d.Checkpoint.VbUUID, SeqNo: d.Checkpoint.SeqNo,
			Snapshot: &models.CheckpointDocumentSnapshot{StartSeqNo: d.Checkpoint.Snapshot.StartSeqNo, EndSeqNo: d.Checkpoint.Snapshot.EndSeqNo}},
			BucketUUID: d.BucketUUID}
	}
	m.buf.add("written " + renderDocs(w, nil))
	if v.kind != "ok" {
		m.buf.add("saveerr")
		return errors.New("injected store failure")
	}
	return nil
}

func (m *fakeMeta) Load(vbIds []uint16, bucketUUID string) (*wrapper.ConcurrentSwissMap[uint16, *models.CheckpointDocument], bool, error) {
	m.mu.Lock()
	defer m.mu.Unlock()
	if m.loadErr != nil {
		return nil, false, m.loadErr
	}
	st := wrapper.CreateConcurrentSwissMap[uint16, *models.CheckpointDocument](1024)
	exist := false
	for _, vb := range vbIds {
		if d, ok := m.store[vb]; ok {
			dd := d
			cp := *d.Checkpoint
			sn := *d.Checkpoint.Snapshot
			cp.Snapshot = &sn
			dd.Checkpoint = &cp
			st.Store(vb, &dd)
			exist = true
		} else {
			st.Store(vb, models.NewEmptyCheckpointDocument(bucketUUID))
		}
	}
	return st, exist, nil
}
func (m *fakeMeta) Clear([]uint16) error { return nil }

// ---- consumer
type fakeConsumer struct {
	mu    sync.Mutex
	buf   *obuf
	ctxs  []*models.ListenerContext
	sess  []int
	cur   int
	hook  func(i int, ctx *models.ListenerContext) // called inside ConsumeEvent (after recording)
	quiet bool
}

func hexOf(b []byte) string { return fmt.Sprintf("%x", b) }

// payload token = the remaining wire fields of the event, re-encoded from what the consumer received
func payloadMu(rev uint64, flags, exp uint32, dt uint8, val []byte) string {
	return fmt.Sprintf("r%d.f%d.e%d.d%d.v%s", rev, flags, exp, dt, hexOf(val))
}
func payloadDe(rev uint64, dt uint8, val []byte) string {
	return fmt.Sprintf("r%d.d%d.v%s", rev, dt, hexOf(val))
}
func payloadEx(rev uint64) string { return fmt.Sprintf("r%d", rev) }

func (c *fakeConsumer) ConsumeEvent(ctx *models.ListenerContext) {
	c.mu.Lock()
	i := len(c.ctxs)
	c.ctxs = append(c.ctxs, ctx)
	c.sess = append(c.sess, c.cur)
	hook := c.hook
	c.mu.Unlock()
	var s string
	switch e := ctx.Event.(type) {
	case models.DcpMutation:
		s = fmt.Sprintf("deliver %d %d mu %d %d %s %d %s coll=%s t=%d off=%s", i, e.VbID, e.SeqNo, e.Cas, hexOf(e.Key), e.CollectionID,
			payloadMu(e.RevNo, e.Flags, e.Expiry, e.Datatype, e.Value), e.CollectionName, e.EventTime.Unix(), fmtOff(e.Offset))
	case models.DcpDeletion:
		s = fmt.Sprintf("deliver %d %d de %d %d %s %d %s coll=%s t=%d off=%s", i, e.VbID, e.SeqNo, e.Cas, hexOf(e.Key), e.CollectionID,
			payloadDe(e.RevNo, e.Datatype, e.Value), e.CollectionName, e.EventTime.Unix(), fmtOff(e.Offset))
	case models.DcpExpiration:
		s = fmt.Sprintf("deliver %d %d ex %d %d %s %d %s coll=%s t=%d off=%s", i, e.VbID, e.SeqNo, e.Cas, hexOf(e.Key), e.CollectionID,
			payloadEx(e.RevNo), e.CollectionName, e.EventTime.Unix(), fmtOff(e.Offset))
	default:
		s = fmt.Sprintf("deliver %d ? %T", i, ctx.Event)
	}
	if !c.quiet {
		c.buf.add(s)
	}
	if hook != nil {
		hook(i, ctx)
	}
}
func (c *fakeConsumer) TrackOffset(vb uint16, o *models.Offset) {
	if !c.quiet {
		c.buf.add(fmt.Sprintf("track %d %s", vb, fmtOff(o)))
	}
}

// ---- discovery, event handler
type fakeDisc struct {
	mu  sync.Mutex
	vbs []uint16
	buf *obuf
}

func (d *fakeDisc) Get() []uint16 {
	d.mu.Lock()
	defer d.mu.Unlock()
	return append([]uint16{}, d.vbs...)
}
func (d *fakeDisc) Close() {}
func (d *fakeDisc) GetMetric() *stream.VBucketDiscoveryMetric {
	d.mu.Lock()
	defer d.mu.Unlock()
	return &stream.VBucketDiscoveryMetric{Type: "static", TotalMembers: 1, MemberNumber: 1, VBucketCount: len(d.vbs),
		VBucketRangeStart: d.vbs[0], VBucketRangeEnd: d.vbs[len(d.vbs)-1]}
}
func (d *fakeDisc) set(lo, hi int) {
	d.mu.Lock()
	d.vbs = nil
	for v := lo; v <= hi; v++ {
		d.vbs = append(d.vbs, uint16(v))
	}
	d.mu.Unlock()
}

type fakeEH struct {
	mu   sync.Mutex
	log  []string
	hook func(string)
	st   stream.Stream // set by the session / life-cycle environments: lets AfterRebalanceStart see the closed session's wait() finish
}

// streamFlag reads an unexported bool field of the real stream object (read-only, for scheduling the harness; no hook in /repo)
func streamFlag(st stream.Stream, name string) (val, ok bool) {
	defer func() {
		if recover() != nil {
			val, ok = false, false
		}
	}()
	v := reflect.ValueOf(st)
	if v.Kind() != reflect.Ptr || v.IsNil() {
		return false, false
	}
	f := v.Elem().FieldByName(name)
	if !f.IsValid() || f.Kind() != reflect.Bool {
		return false, false
	}
	return *(*bool)(unsafe.Pointer(f.UnsafeAddr())), true
}

func (e *fakeEH) rec(s string) {
	e.mu.Lock()
	e.log = append(e.log, s)
	h := e.hook
	e.mu.Unlock()
	if h != nil {
		h(s)
	}
}
func (e *fakeEH) BeforeRebalanceStart() { e.rec("BRS") }

// AfterRebalanceStart runs after Close() has handed its token to the wait() goroutine of the closed session and before the
// re-open is armed: the harness waits here (at most 25 ms) until that goroutine has taken the token - it sets
// streamFinishedWithCloseCh and then reads `balancing`, which stays true until the re-open has completed. This makes the
// WaitPrompt assumption of the life-cycle model true in the harness whatever the CPU load is; without it the starved goroutine
// wakes after the re-open, closes stopCh, and a later wait() closes it again: `close of closed channel` kills the process
// (finding F16; the micro-schedules that do this on purpose are the stream life-wait). A session whose streams had all ended
// (streamFinishedWithEndEventCh) sends no token: nothing to wait for.
func (e *fakeEH) AfterRebalanceStart() {
	e.rec("ARS")
	if e.st == nil {
		return
	}
	for dl := time.Now().Add(25 * time.Millisecond); time.Now().Before(dl); {
		c, ok1 := streamFlag(e.st, "streamFinishedWithCloseCh")
		d, ok2 := streamFlag(e.st, "streamFinishedWithEndEventCh")
		if !ok1 || !ok2 || c || d {
			return
		}
		time.Sleep(100 * time.Microsecond)
	}
}
func (e *fakeEH) BeforeRebalanceEnd() { e.rec("BRE") }
func (e *fakeEH) AfterRebalanceEnd()  { e.rec("ARE") }
func (e *fakeEH) BeforeStreamStart()  { e.rec("BSS") }
func (e *fakeEH) AfterStreamStart()   { e.rec("ASS") }
func (e *fakeEH) BeforeStreamStop()   { e.rec("BSP") }

// AfterStreamStop is the last callback before Close tests `streamFinishedWithEndEventCh`: yielding here lets the
// wait() goroutine consume its token first (the WaitPrompt assumption of the life-cycle model; without it the
// stale-token races of finding F16 make a later wait() close stopCh twice and kill the harness under CPU load)
func (e *fakeEH) AfterStreamStop() {
	e.rec("ASP")
	time.Sleep(2 * time.Millisecond)
}
func (e *fakeEH) take() []string {
	e.mu.Lock()
	defer e.mu.Unlock()
	l := e.log
	e.log = nil
	return l
}

// ---- Stream proxy with pause points inside checkpoint.Save (GetOffsets / UnmarkDirtyOffsets)
type proxyStream struct {
	stream.Stream
	mu          sync.Mutex
	pauseNext   bool
	pauseUnmark bool
	atBegin     chan beginSig // the flag value read + this saver's release channel
	atUnmark    chan struct{}
	goUnmark    chan struct{}
}

type beginSig struct {
	flag bool
	rel  chan struct{}
}

func newProxy(s stream.Stream) *proxyStream {
	return &proxyStream{Stream: s, atBegin: make(chan beginSig, 4),
		atUnmark: make(chan struct{}, 4), goUnmark: make(chan struct{}, 4)}
}

func (p *proxyStream) GetOffsets() (*wrapper.ConcurrentSwissMap[uint16, *models.Offset], *wrapper.ConcurrentSwissMap[uint16, bool], bool) {
	a, b, c := p.Stream.GetOffsets() // the real read happens here
	p.mu.Lock()
	pause := p.pauseNext
	p.pauseNext = false
	p.mu.Unlock()
	if pause {
		rel := make(chan struct{}, 1)
		p.atBegin <- beginSig{flag: c, rel: rel}
		if c {
			<-rel
		}
	}
	return a, b, c
}

func (p *proxyStream) UnmarkDirtyOffsets() {
	p.mu.Lock()
	pause := p.pauseUnmark
	p.pauseUnmark = false // one-shot: set by `sv K store ok`
	p.mu.Unlock()
	if pause {
		p.atUnmark <- struct{}{}
		<-p.goUnmark
	}
	p.Stream.UnmarkDirtyOffsets()
}

func waitCh[T any](ch chan T, what string) (T, error) {
	select {
	case v := <-ch:
		return v, nil
	case <-time.After(2 * time.Second):
		var z T
		if os.Getenv("VERIF_DEBUG") != "" {
			panic("timeout waiting for " + what)
		}
		return z, fmt.Errorf("timeout waiting for %s", what)
	}
}

func baseConfig() *config.Dcp {
	cfg := &config.Dcp{}
	cfg.Dcp.Group.Name = "g"
	cfg.Dcp.Group.Membership.Type = "static"
	cfg.Metadata.Type = "couchbase"
	cfg.ApplyDefaults()
	cfg.RollbackMitigation.Disabled = true
	cfg.Checkpoint.Type = "manual"
	return cfg
}
