// Stream c10pause (property C10, layer L2): "an instance that stops
// heart-beating is dropped" – and what the dropped instance does when it comes
// back.  N REAL couchbase.NewCBMembership instances share one simulated bucket
// (boot code, connection attribution and registration gate of l2_membership.go).
// N-1 of them live in this process; member Z (position Z in join order) runs in
// a CHILD PROCESS (this binary re-executed with VERIF_CHILD=c10pause) that
// connects to the parent's simulated node, so that a fail-stop of Z (the
// library panics in its monitor goroutine) is observable as the exit status of
// a process and the panic message on its stderr.
//
//	mb-pause N Z P HB TOL        (P, HB, TOL in ms)
//
// 1. the N members join one after the other and converge to i+1/N;
// 2. PAUSE: for P ms the simulated node serves none of the requests that arrive
//    on Z's KV connections (the request hook, which runs on the connection's
//    reader goroutine, blocks: a stalled network path / a stopped process; the
//    requests are neither lost nor answered with an error, they are served in
//    order when the pause ends and every one of them is held for less than the
//    5 s operation time-out).  Z's heartbeat and monitor goroutines sit in their
//    pending KV operation meanwhile.  When P >= HB+TOL (the isAlive threshold)
//    the pause is additionally extended until the survivors have renumbered to
//    k/(N-1) (bounded, 3.5 s in total);
// 3. RESUME: the hook lets Z's traffic through again.  Observed:
//      survivors: GetInfo() of every member of this process at quiescence
//      Z:         exit-fail:not-in-cluster  (process died, non-zero status, stderr
//                 carries the library's own panic "cant find self in cluster")
//                 | alive k/n (GetInfo() inside the child) | exit-fail:other-panic | exit:<code>
//      owners:    over 1024 vBuckets, how many have more than one / no owner when
//                 every LIVE process takes chunk k-1 of helpers.ChunkSlice(vbs, n)
//
// Expected of the unchanged code: P < TOL => nobody is dropped, Z keeps its
// number legitimately; P >= HB+TOL => the survivors hold 1..N-1 of N-1 and Z
// fail-stops within a few monitor rounds (index entries are created only by
// register(), so a dropped instance can never reappear under its id; the
// fail-stop is what keeps the numbering collision-free).  Pauses between TOL
// and HB+TOL+margin are not generated (either outcome is legitimate there).
package main

import (
	"bufio"
	"bytes"
	"fmt"
	"io"
	"os"
	"os/exec"
	"strings"
	"sync"
	"sync/atomic"
	"time"

	"github.com/Trendyol/go-dcp/config"
	"github.com/Trendyol/go-dcp/couchbase"
	"github.com/Trendyol/go-dcp/helpers"
	"github.com/Trendyol/go-dcp/logger"
	"github.com/Trendyol/go-dcp/membership"
	"github.com/asaskevich/EventBus"
	"github.com/couchbase/gocbcore/v10/memd"
	"github.com/sirupsen/logrus"

	"verifharness/sim"
)

func init() {
	props["c10pause"] = runC10Pause
	if os.Getenv("VERIF_CHILD") == "c10pause" {
		cbpChildMain()
		os.Exit(0)
	}
}

const (
	cbpMaxHold   = 3500 * time.Millisecond // < the 5 s operation time-out of the membership code
	cbpNumVb     = 1024
	cbpExitWait  = 2500 * time.Millisecond // how long a dropped Z is given to fail-stop (50 monitor rounds)
	cbpAliveWait = 1200 * time.Millisecond // > HB+TOL+8 rounds: a Z that was not dropped is watched this long
)

var cbpRetries atomic.Int64

// ---------------------------------------------------------------- child process (member Z)

// the membership part of newCbScenario's configuration, for a process that has
// only the node's address
func cbpChildCfg(addr, bucket, group string) *config.Dcp {
	cfg := &config.Dcp{Hosts: []string{addr}, BucketName: bucket}
	cfg.Dcp.Group.Name = group
	cfg.Metadata.Type = "couchbase"
	cfg.Dcp.Group.Membership.Type = "static"
	cfg.ConnectionTimeout = 10 * time.Second
	cfg.Dcp.ConnectionTimeout = 10 * time.Second
	cfg.Logging.Level = "panic"
	cfg.ApplyDefaults()
	cfg.RollbackMitigation.Disabled = true
	cfg.API.Disabled = true
	cfg.HealthCheck.Disabled = true
	cfg.Dcp.Group.Membership.Type = "couchbase"
	cfg.Dcp.Group.Membership.RebalanceDelay = 30 * time.Millisecond
	cfg.Dcp.Group.Membership.Config = map[string]string{
		"heartbeatInterval":          cbHeartbeat.String(),
		"monitorInterval":            cbMonitor.String(),
		"heartbeatToleranceDuration": cbTolerance.String(),
		"timeout":                    "5s",
	}
	// a shorter operation time-out for this process (stream c10cb, op mb-cb-slowread)
	if t := os.Getenv("VERIF_C10P_TIMEOUT"); t != "" {
		cfg.Dcp.Group.Membership.Config["timeout"] = t
	}
	return cfg
}

// line protocol on stdin/stdout: connected | register -> registered | ev k/n
// (every membershipChanged event) | info -> info k/n | quit -> bye.
// A panic of the library in one of its goroutines ends this process with the
// Go runtime's status 2 and the panic text on stderr: that IS the observation.
func cbpChildMain() {
	l := logrus.New()
	l.SetLevel(logrus.PanicLevel)
	logger.Log = &logger.Loggers{Logrus: l}
	time.AfterFunc(90*time.Second, func() { os.Exit(4) }) // never outlive a lost parent
	var outMu sync.Mutex
	say := func(s string) {
		outMu.Lock()
		fmt.Fprintln(os.Stdout, s)
		outMu.Unlock()
	}
	fatal := func(s string) {
		say("fatal " + s)
		os.Exit(3)
	}
	cfg := cbpChildCfg(os.Getenv("VERIF_C10P_ADDR"), os.Getenv("VERIF_C10P_BUCKET"), os.Getenv("VERIF_C10P_GROUP"))
	client := couchbase.NewClient(cfg)
	if err := client.Connect(); err != nil {
		fatal("connect-error")
	}
	bus := EventBus.New()
	if err := bus.SubscribeAsync(helpers.MembershipChangedBusEventName, func(m *membership.Model) {
		say(fmt.Sprintf("ev %d/%d", m.MemberNumber, m.TotalMembers))
	}, true); err != nil {
		fatal("subscribe-error")
	}
	say("connected")
	var m membership.Membership
	in := bufio.NewScanner(os.Stdin)
	for in.Scan() {
		switch strings.TrimSpace(in.Text()) {
		case "register":
			func() {
				defer func() {
					if r := recover(); r != nil {
						fatal("join-panic")
					}
				}()
				m = couchbase.NewCBMembership(cfg, client, bus)
			}()
			say("registered")
		case "info":
			if m == nil {
				say("info none")
			} else {
				say("info " + cbInfo(m))
			}
		case "quit":
			if m != nil {
				m.Close()
			}
			say("bye")
			os.Exit(0) // the sockets go with the process; no round can meet a closed agent
		}
	}
	os.Exit(0) // parent gone
}

// parent side of the child
type cbpChild struct {
	cmd    *exec.Cmd
	stdin  io.WriteCloser
	stderr bytes.Buffer
	lines  chan string
	done   chan struct{}
	mu     sync.Mutex
	evs    []string
	lastEv time.Time
	exited time.Time
	err    error
}

func cbpStartChild(addr, bucket, group string, extraEnv ...string) (*cbpChild, error) {
	ch := &cbpChild{lines: make(chan string, 64), done: make(chan struct{})}
	ch.cmd = exec.Command(os.Args[0])
	ch.cmd.Env = append(os.Environ(), "VERIF_CHILD=c10pause", "VERIF_C10P_ADDR="+addr, "VERIF_C10P_BUCKET="+bucket, "VERIF_C10P_GROUP="+group)
	ch.cmd.Env = append(ch.cmd.Env, extraEnv...)
	ch.cmd.Stderr = &ch.stderr
	var err error
	if ch.stdin, err = ch.cmd.StdinPipe(); err != nil {
		return nil, err
	}
	so, err := ch.cmd.StdoutPipe()
	if err != nil {
		return nil, err
	}
	if err := ch.cmd.Start(); err != nil {
		return nil, err
	}
	go func() {
		sc := bufio.NewScanner(so)
		for sc.Scan() {
			ln := sc.Text()
			if strings.HasPrefix(ln, "ev ") {
				ch.mu.Lock()
				ch.evs = append(ch.evs, ln[3:])
				ch.lastEv = time.Now()
				ch.mu.Unlock()
				continue
			}
			select {
			case ch.lines <- ln:
			default:
			}
		}
		e := ch.cmd.Wait()
		ch.mu.Lock()
		ch.err = e
		ch.exited = time.Now()
		ch.mu.Unlock()
		close(ch.done)
	}()
	return ch, nil
}

func (ch *cbpChild) send(s string) { _, _ = io.WriteString(ch.stdin, s+"\n") }

// waits for a line with the given prefix; "" on time-out / exit
func (ch *cbpChild) expect(prefix string, d time.Duration) string {
	t := time.After(d)
	for {
		select {
		case ln := <-ch.lines:
			if strings.HasPrefix(ln, prefix) {
				return ln
			}
			if strings.HasPrefix(ln, "fatal ") {
				return ""
			}
		case <-ch.done:
			return ""
		case <-t:
			return ""
		}
	}
}

func (ch *cbpChild) hasExited() bool {
	select {
	case <-ch.done:
		return true
	default:
		return false
	}
}

func (ch *cbpChild) waitExit(d time.Duration) bool {
	select {
	case <-ch.done:
		return true
	case <-time.After(d):
		return false
	}
}

func (ch *cbpChild) latest() string {
	ch.mu.Lock()
	defer ch.mu.Unlock()
	if len(ch.evs) == 0 {
		return ""
	}
	return ch.evs[len(ch.evs)-1]
}

// exit class of a child that has ended
func (ch *cbpChild) exitClass() string {
	ch.mu.Lock()
	err := ch.err
	ch.mu.Unlock()
	se := ch.stderr.String()
	code := 0
	if err != nil {
		code = -1
		if ee, ok := err.(*exec.ExitError); ok {
			code = ee.ExitCode()
		}
	}
	switch {
	case code != 0 && strings.Contains(se, "panic: cant find self in cluster"):
		return "exit-fail:not-in-cluster"
	case code != 0 && strings.Contains(se, "panic:"):
		return "exit-fail:other-panic"
	default:
		return fmt.Sprintf("exit:%d", code)
	}
}

func (ch *cbpChild) kill() {
	if !ch.hasExited() {
		_ = ch.cmd.Process.Kill()
		<-ch.done
	}
}

// ---------------------------------------------------------------- one scenario

// number of vBuckets (of cbpNumVb) with more than one / without an owner when
// every info "k/n" takes chunk k-1 of the real helpers.ChunkSlice(vbs, n)
func cbpOwners(infos []string) string {
	vbs := make([]uint16, cbpNumVb)
	for i := range vbs {
		vbs[i] = uint16(i)
	}
	count := make([]int, cbpNumVb)
	for _, s := range infos {
		var k, n int
		if _, err := fmt.Sscanf(s, "%d/%d", &k, &n); err != nil || n < 1 || n > cbpNumVb || k < 1 || k > n {
			return "owners: bad-info"
		}
		for _, vb := range helpers.ChunkSlice(vbs, n)[k-1] {
			count[vb]++
		}
	}
	multi, none := 0, 0
	for _, c := range count {
		if c > 1 {
			multi++
		} else if c == 0 {
			none++
		}
	}
	return fmt.Sprintf("owners: multi=%d none=%d", multi, none)
}

func cbpLatest(in *cbInst) string {
	evs := in.rec.snapshot()
	if len(evs) == 0 {
		return ""
	}
	return mbFmt(evs[len(evs)-1:])
}

// cbpRun: the observation, tags for the histogram, and whether the outcome is
// unsettled (a set-up step timed out or the machine stalled: run again)
func cbpRun(group string, n, z int, pause time.Duration) (obs string, tags []string, unsettled bool) {
	if n < 2 || z < 0 || z >= n {
		return "bad-scenario", nil, false
	}
	sc, err := newCbScenario(group)
	if err != nil {
		return "sim-error", nil, true
	}
	defer sc.close()
	// the pause: requests on Z's connections wait in the hook while the gate is held
	var pauseGate sync.RWMutex
	var paused atomic.Bool
	var heldReqs atomic.Int64
	base := sc.hook
	sc.node.OnRequest(func(r sim.Request) sim.Action {
		if !r.HTTP && r.Opcode != memd.CmdHello {
			sc.mu.Lock()
			o, ok := sc.connOwner[r.Conn]
			sc.mu.Unlock()
			if ok && o == z {
				if paused.Load() {
					heldReqs.Add(1)
				}
				pauseGate.RLock()
				//nolint:staticcheck // empty critical section: only waits for the end of the pause
				pauseGate.RUnlock()
			}
		}
		return base(r)
	})
	var child *cbpChild
	defer func() {
		if child != nil {
			child.kill()
		}
	}()
	// 1. joins in order; member z in the child process
	for i := 0; i < n; i++ {
		if i != z {
			if e := sc.join(); e != "" {
				return "setup-failed " + e, nil, true
			}
			continue
		}
		sc.mu.Lock()
		sc.joining = i
		sc.mu.Unlock()
		child, err = cbpStartChild(sc.node.HTTPAddr(), sc.cfg.BucketName, group)
		ok := err == nil && child.expect("connected", 20*time.Second) != ""
		sc.mu.Lock()
		sc.joining = -1
		sc.mu.Unlock()
		if !ok {
			return "setup-failed child-connect", nil, true
		}
		// placeholder in join order (state 2: nothing of it lives in this process)
		sc.insts = append(sc.insts, &cbInst{idx: i, bus: EventBus.New(), rec: &mbEvents{}, last: time.Now(), state: 2})
		sc.gate.Lock()
		child.send("register")
		ok = child.expect("registered", 15*time.Second) != ""
		sc.gate.Unlock()
		if !ok {
			return "setup-failed child-register", nil, true
		}
	}
	survivors := func() []*cbInst {
		var s []*cbInst
		for i, in := range sc.insts {
			if i != z {
				s = append(s, in)
			}
		}
		return s
	}()
	numbering := func(total int) bool { // the survivors hold 1..(n-1) resp. their slots of n
		k := 0
		for i, in := range sc.insts {
			if i == z {
				if total == n {
					k++
				}
				continue
			}
			k++
			if cbpLatest(in) != fmt.Sprintf("%d/%d", k, total) {
				return false
			}
		}
		return true
	}
	waitFor := func(d time.Duration, f func() bool) bool {
		dl := time.Now().Add(d)
		for !f() {
			if time.Now().After(dl) {
				return false
			}
			time.Sleep(10 * time.Millisecond)
		}
		return true
	}
	if !waitFor(10*time.Second, func() bool { return numbering(n) && child.latest() == fmt.Sprintf("%d/%d", z+1, n) }) {
		return "setup-failed no-convergence " + sc.infos() + " z=" + child.latest(), nil, true
	}
	time.Sleep(4 * cbMonitor)
	if child.hasExited() {
		return "setup-failed child-died " + child.exitClass(), nil, true
	}
	// 2. pause
	expectDrop := pause >= cbHeartbeat+cbTolerance
	paused.Store(true)
	pauseGate.Lock()
	t0 := time.Now()
	time.Sleep(pause)
	renumbered := true
	if expectDrop {
		renumbered = waitFor(cbpMaxHold-pause, func() bool { return numbering(n - 1) })
	}
	held := heldReqs.Load()
	paused.Store(false)
	pauseGate.Unlock()
	tRel := time.Now()
	hold := tRel.Sub(t0)
	if held == 0 {
		return "setup-failed pause-ineffective", nil, true
	}
	if !expectDrop && hold > pause+cbTolerance/4 {
		return "setup-failed pause-overrun", nil, true // the machine stalled: the pause was not the short one asked for
	}
	if !renumbered {
		// "an instance that stops heart-beating is dropped" did not happen in 3.5 s
		return "survivors-did-not-drop " + sc.infos(), []string{"not-dropped"}, false
	}
	// 3. resume: does Z fail-stop?
	if expectDrop {
		child.waitExit(cbpExitWait)
	} else {
		child.waitExit(cbpAliveWait)
	}
	// survivors' quiescence: no event for 6 rounds, at least 8 rounds after the release
	lastEv := func() time.Time {
		var t time.Time
		for _, in := range survivors {
			in.mu.Lock()
			if in.last.After(t) {
				t = in.last
			}
			in.mu.Unlock()
		}
		return t
	}
	if !waitFor(10*time.Second, func() bool {
		now := time.Now()
		return now.Sub(tRel) >= 8*cbMonitor && now.Sub(lastEv()) >= 6*cbMonitor
	}) {
		return "no-quiescence", nil, true
	}
	var sInfos, live []string
	for _, in := range survivors {
		in.bus.WaitAsync()
		s := cbInfo(in.m)
		sInfos = append(sInfos, s)
		live = append(live, s)
	}
	zs := ""
	if child.hasExited() {
		zs = child.exitClass()
		child.mu.Lock()
		rounds := int(child.exited.Sub(tRel) / cbMonitor)
		child.mu.Unlock()
		switch {
		case rounds <= 2:
			tags = append(tags, "failstop-within-2-rounds")
		case rounds <= 6:
			tags = append(tags, "failstop-within-6-rounds")
		default:
			tags = append(tags, "failstop-later")
		}
	} else {
		child.send("info")
		ln := child.expect("info ", 4*time.Second)
		if ln == "" {
			if child.waitExit(500 * time.Millisecond) {
				zs = child.exitClass()
			} else {
				return "setup-failed child-mute", nil, true
			}
		} else {
			zi := strings.TrimPrefix(ln, "info ")
			zs = "alive " + zi
			live = append(live, zi)
			tags = append(tags, "z-alive")
		}
	}
	if strings.Contains(strings.Join(sInfos, " ")+zs, "blocked") {
		unsettled = true
	}
	if !child.hasExited() {
		child.send("quit")
		child.waitExit(2 * time.Second)
	}
	if expectDrop {
		tags = append(tags, "pause>=hb+tol")
	} else {
		tags = append(tags, "pause<tol")
	}
	obs = fmt.Sprintf("survivors: %s | Z: %s | %s", strings.Join(sInfos, " "), zs, cbpOwners(live))
	return obs, tags, unsettled
}

// ---------------------------------------------------------------- stream

type cbpCase struct {
	n, z    int
	pauseMs int
}

func (c cbpCase) op() string {
	return fmt.Sprintf("mb-pause %d %d %d %d %d", c.n, c.z, c.pauseMs, cbHeartbeat.Milliseconds(), cbTolerance.Milliseconds())
}

func cbpReplayOps(path string) (cases []cbpCase) {
	b, err := os.ReadFile(path)
	if err != nil {
		panic(err)
	}
	for _, ln := range strings.Split(string(b), "\n") {
		f := strings.Fields(strings.SplitN(ln, "\t", 2)[0])
		if len(f) == 6 && f[0] == "mb-pause" {
			var c cbpCase
			if _, e := fmt.Sscanf(strings.Join(f[1:4], " "), "%d %d %d", &c.n, &c.z, &c.pauseMs); e == nil && c.n >= 2 && c.n <= 6 &&
				c.pauseMs >= 0 && c.pauseMs <= 3000 {
				cases = append(cases, c)
			}
		}
	}
	return
}

func runC10Pause(c *Ctx) {
	tol := int(cbTolerance.Milliseconds())
	thr := int((cbHeartbeat + cbTolerance).Milliseconds())
	// pauses well below the tolerance (nobody may be dropped) and from the isAlive
	// threshold + 3 monitor rounds of margin upwards (Z must be dropped)
	short := []int{tol / 5, 2 * tol / 5, tol / 2}
	long := []int{thr + 150, thr + 300, 2 * tol, 3 * tol}
	cases := []cbpCase{
		{3, 2, long[0]}, // the youngest is dropped: survivors keep 1/2 2/2 by number, change total
		{3, 0, long[1]}, // the oldest is dropped: every survivor's number changes
		{2, 1, short[2]},
	}
	if c.Thorough() {
		for n := 2; n <= 4; n++ {
			for z := 0; z < n; z++ {
				cases = append(cases, cbpCase{n, z, long[c.R.Intn(len(long))]})
			}
		}
		cases = append(cases, cbpCase{5, 2, long[0]}, cbpCase{5, 4, long[2]}, cbpCase{5, 0, short[1]}, cbpCase{4, 1, short[0]},
			cbpCase{3, 1, short[2]}, cbpCase{2, 0, short[2]})
	}
	for i := 0; i < c.N(1, 6); i++ {
		n := c.R.Range(2, c.N(4, 5))
		cs := cbpCase{n: n, z: c.R.Intn(n)}
		if c.R.Chance(70) {
			cs.pauseMs = long[c.R.Intn(len(long))]
		} else {
			cs.pauseMs = short[c.R.Intn(len(short))]
		}
		cases = append(cases, cs)
	}
	if replayFile != "" {
		cases = cbpReplayOps(replayFile)
	}
	type result struct {
		obs  string
		tags []string
	}
	res := make([]result, len(cases))
	sem := make(chan struct{}, c.N(4, 6))
	var wg sync.WaitGroup
	for i := range cases {
		wg.Add(1)
		go func(i int) {
			defer wg.Done()
			sem <- struct{}{}
			defer func() { <-sem }()
			cs := cases[i]
			o, t, u := cbpRun(fmt.Sprintf("p%d", i), cs.n, cs.z, time.Duration(cs.pauseMs)*time.Millisecond)
			// real time: a set-up step that timed out is not an outcome (up to 2 more attempts)
			for a := 0; a < 2 && u; a++ {
				cbpRetries.Add(1)
				o, t, u = cbpRun(fmt.Sprintf("p%dr%d", i, a), cs.n, cs.z, time.Duration(cs.pauseMs)*time.Millisecond)
			}
			res[i] = result{o, t}
		}(i)
	}
	wg.Wait()
	for i, cs := range cases {
		c.E.Line(cs.op(), res[i].obs)
		tags := append([]string{fmt.Sprintf("n=%d", cs.n)}, res[i].tags...)
		switch {
		case cs.z == 0:
			tags = append(tags, "z-oldest")
		case cs.z == cs.n-1:
			tags = append(tags, "z-youngest")
		default:
			tags = append(tags, "z-middle")
		}
		c.E.EndCase(true, tags...)
	}
	c.Extra["scenario_retries"] = cbpRetries.Load()
	c.Extra["intervals"] = fmt.Sprintf("heartbeat=%v monitor=%v tolerance=%v", cbHeartbeat, cbMonitor, cbTolerance)
}
