package main

// Stream "c07gate" (property C07, layer L1): the REAL observer built by
// couchbase.NewObserver with rollback mitigation enabled (interval 10 ms, so the
// wait loop of waitRollbackMitigation polls every 2 ms) and a recording listener.
//
// One op line = one whole script (handlers of the Lean driver are stateless):
//
//	gate-script a:mk:0:100 a:mu:5 p:3 a:mu:2 p:5 c
//
//	a:KIND:…   an event arrives; the observer callback runs in its OWN goroutine
//	           (it spins in waitRollbackMitigation while its seqno is not covered)
//	           mk:S:E marker (gated by S) | mu:Q de:Q ex:Q documents | sa:Q seqno advanced |
//	           sy:Q collection creation | os OSO snapshot (not gated)
//	p:M        SetPersistSeqNo(M)
//	c          Close()
//
// Observation: one token per step — arrive: d (listener saw it), w (still inside the
// callback after the settle time), k (returned without delivery, stream closed),
// x (panic: event outside its snapshot), o (returned without delivery otherwise);
// p / c: r[ID+letter.…] = the calls that returned because of this step, by arrival number.
//
// Timing: a call whose gate is open returns within microseconds; "waiting" is decided
// after a settle time.  Every step first collects calls that returned spontaneously
// (= the previous settle time was too short); such a run is discarded and repeated
// with a doubled settle time (DESIGN.md §5, time-dependent scenarios).
//
// Several calls may only wait at the same time when their order of release cannot
// matter (the real waiters wake up in arbitrary order): the generator keeps at most
// one snapshot-changing event (marker, seqno advanced) among the waiting calls and
// only lets documents wait that lie inside the current snapshot and inside that of
// the waiting snapshot-changing event.

import (
	"bufio"
	"fmt"
	"os"
	"sort"
	"strconv"
	"strings"
	"sync"
	"time"

	"github.com/Trendyol/go-dcp/config"
	"github.com/Trendyol/go-dcp/couchbase"
	"github.com/Trendyol/go-dcp/models"
	"github.com/Trendyol/go-dcp/tracing"
	"github.com/couchbase/gocbcore/v10"
)

func init() { props["c07gate"] = runC07Gate }

type gateStep struct {
	op   byte   // 'a', 'p', 'c'
	kind string // arrive: mk mu de ex sa sy os
	a, b uint64 // arrive: seq (marker: start, end); persist: value
}

func (s gateStep) String() string {
	switch s.op {
	case 'p':
		return fmt.Sprintf("p:%d", s.a)
	case 'u':
		return fmt.Sprintf("u:%d", s.a)
	case 'c':
		return "c"
	}
	switch s.kind {
	case "mk":
		return fmt.Sprintf("a:mk:%d:%d", s.a, s.b)
	case "os":
		return "a:os"
	}
	return fmt.Sprintf("a:%s:%d", s.kind, s.a)
}

func gateParse(op string) ([]gateStep, bool) {
	f := strings.Fields(op)
	if len(f) < 1 || f[0] != "gate-script" {
		return nil, false
	}
	var out []gateStep
	for _, t := range f[1:] {
		p := strings.Split(t, ":")
		num := func(s string) (uint64, bool) {
			v, err := strconv.ParseUint(s, 10, 64)
			return v, err == nil
		}
		switch {
		case len(p) == 1 && p[0] == "c":
			out = append(out, gateStep{op: 'c'})
		case len(p) == 2 && p[0] == "p":
			v, ok := num(p[1])
			if !ok {
				return nil, false
			}
			out = append(out, gateStep{op: 'p', a: v})
		case len(p) == 2 && p[0] == "u": // SetVbUUID(U): the open-stream callback of a re-opened stream (possibly on a new branch)
			v, ok := num(p[1])
			if !ok {
				return nil, false
			}
			out = append(out, gateStep{op: 'u', a: v})
		case len(p) == 2 && p[0] == "a" && p[1] == "os":
			out = append(out, gateStep{op: 'a', kind: "os"})
		case len(p) == 4 && p[0] == "a" && p[1] == "mk":
			a, ok1 := num(p[2])
			b, ok2 := num(p[3])
			if !ok1 || !ok2 {
				return nil, false
			}
			out = append(out, gateStep{op: 'a', kind: "mk", a: a, b: b})
		case len(p) == 3 && p[0] == "a" && (p[1] == "mu" || p[1] == "de" || p[1] == "ex" || p[1] == "sa" || p[1] == "sy"):
			a, ok := num(p[2])
			if !ok {
				return nil, false
			}
			out = append(out, gateStep{op: 'a', kind: p[1], a: a})
		default:
			return nil, false
		}
	}
	return out, true
}

type gateRun struct {
	mu       sync.Mutex
	seen     map[uint16]bool // listener calls by StreamID = arrival number
	finished []gateDone      // calls that returned and were not collected yet
}

type gateDone struct {
	id     int
	letter string
}

func (g *gateRun) listen(a models.ListenerArgs) {
	var id uint16
	switch e := a.Event.(type) {
	case models.DcpSnapshotMarker:
		id = e.StreamID
	case models.DcpMutation:
		id = e.StreamID
	case models.DcpDeletion:
		id = e.StreamID
	case models.DcpExpiration:
		id = e.StreamID
	case models.DcpSeqNoAdvanced:
		id = e.StreamID
	case models.DcpCollectionCreation:
		id = e.StreamID
	case models.DcpOSOSnapshot:
		id = e.StreamID
	default:
		id = 0xffff
	}
	g.mu.Lock()
	g.seen[id] = true
	g.mu.Unlock()
}

// call runs one observer callback to completion in the calling goroutine.
func (g *gateRun) call(obs couchbase.Observer, id int, s gateStep, closedAtEnd func() bool) {
	letter := "o"
	func() {
		defer func() {
			if r := recover(); r != nil {
				letter = "x"
			}
		}()
		sid := uint16(id)
		switch s.kind {
		case "mk":
			obs.SnapshotMarker(models.DcpSnapshotMarker{StartSeqNo: s.a, EndSeqNo: s.b, StreamID: sid})
		case "mu":
			obs.Mutation(gocbcore.DcpMutation{SeqNo: s.a, StreamID: sid, Key: []byte("k")})
		case "de":
			obs.Deletion(gocbcore.DcpDeletion{SeqNo: s.a, StreamID: sid, Key: []byte("k")})
		case "ex":
			obs.Expiration(gocbcore.DcpExpiration{SeqNo: s.a, StreamID: sid, Key: []byte("k")})
		case "sa":
			obs.SeqNoAdvanced(gocbcore.DcpSeqNoAdvanced{SeqNo: s.a, StreamID: sid})
		case "sy":
			obs.CreateCollection(gocbcore.DcpCollectionCreation{SeqNo: s.a, StreamID: sid})
		case "os":
			obs.OSOSnapshot(models.DcpOSOSnapshot{StreamID: sid})
		}
	}()
	g.mu.Lock()
	if letter != "x" {
		if g.seen[uint16(id)] {
			letter = "d"
		} else if closedAtEnd() {
			letter = "k"
		}
	}
	g.finished = append(g.finished, gateDone{id, letter})
	g.mu.Unlock()
}

func (g *gateRun) take() []gateDone {
	g.mu.Lock()
	x := g.finished
	g.finished = nil
	g.mu.Unlock()
	sort.Slice(x, func(i, j int) bool { return x[i].id < x[j].id })
	return x
}

// gateExec runs one script against a fresh real observer; late = a call returned
// outside the step that caused it (the settle time was too short for this run).
func gateExec(steps []gateStep, settle time.Duration) (string, bool) {
	cfg := &config.Dcp{}
	cfg.RollbackMitigation.Disabled = false
	cfg.RollbackMitigation.Interval = 10 * time.Millisecond
	g := &gateRun{seen: map[uint16]bool{}}
	obs := couchbase.NewObserver(cfg, 0, 0, g.listen, func(models.DcpStreamEndContext) {}, map[uint32]string{}, tracing.NewTracerComponent())
	var cmu sync.Mutex
	closed := false
	isClosed := func() bool { cmu.Lock(); defer cmu.Unlock(); return closed }
	var wg sync.WaitGroup
	var out []string
	late := false
	id := 0
	inflight := 0
	rel := func(d []gateDone) string {
		var p []string
		for _, x := range d {
			p = append(p, fmt.Sprintf("%d%s", x.id, x.letter))
		}
		return "r[" + strings.Join(p, ".") + "]"
	}
	for _, s := range steps {
		if sp := g.take(); len(sp) > 0 {
			late = true
			inflight -= len(sp)
		}
		switch s.op {
		case 'a':
			my := id
			id++
			wg.Add(1)
			inflight++
			go func() { defer wg.Done(); g.call(obs, my, s, isClosed) }()
			// an open gate lets the call return within microseconds
			deadline := time.Now().Add(settle)
			var got []gateDone
			for time.Now().Before(deadline) {
				if got = g.take(); len(got) > 0 {
					break
				}
				time.Sleep(100 * time.Microsecond)
			}
			switch {
			case len(got) == 0:
				out = append(out, "w")
			case len(got) == 1 && got[0].id == my:
				inflight--
				out = append(out, got[0].letter)
			default: // somebody else returned: spontaneous
				inflight -= len(got)
				late = true
				out = append(out, "?")
			}
		case 'p', 'c', 'u':
			if s.op == 'p' {
				obs.SetPersistSeqNo(gocbcore.SeqNo(s.a))
			} else if s.op == 'u' {
				obs.SetVbUUID(gocbcore.VbUUID(s.a))
			} else {
				cmu.Lock()
				closed = true
				cmu.Unlock()
				obs.Close()
			}
			if inflight > 0 {
				time.Sleep(settle)
			}
			got := g.take()
			inflight -= len(got)
			out = append(out, rel(got))
		}
	}
	if inflight > 0 {
		// a call that returns now, without any step, was released late by an earlier step
		time.Sleep(settle / 2)
		if sp := g.take(); len(sp) > 0 {
			late = true
		}
	}
	// wind down: release everything that still waits (not part of the observation)
	obs.Close()
	obs.SetPersistSeqNo(gocbcore.SeqNo(^uint64(0))) // in case Close no longer releases the waiting calls
	wg.Wait()
	return strings.Join(out, " "), late
}

// gateRunOp executes an op line (generated or replayed) with the retry discipline.
var gateReruns struct {
	mu             sync.Mutex
	late, disagree int
}

func gateRunOp(op string) string {
	steps, ok := gateParse(op)
	if !ok {
		return "bad-op"
	}
	// a time-dependent scenario: only an outcome that two runs agree on counts, and a run in which
	// a call returned outside the step that released it is discarded (settle time doubled)
	settle := 30 * time.Millisecond
	seen := map[string]int{}
	res := ""
	for try := 0; try < 8; try++ {
		var late bool
		res, late = gateExec(steps, settle)
		if late {
			gateReruns.mu.Lock()
			gateReruns.late++
			gateReruns.mu.Unlock()
			settle *= 2
			continue
		}
		seen[res]++
		if seen[res] == 2 {
			return res
		}
		if len(seen) > 1 {
			gateReruns.mu.Lock()
			gateReruns.disagree++
			gateReruns.mu.Unlock()
			settle = settle * 3 / 2
		}
	}
	return res
}

// ---- generator -------------------------------------------------------------

// gateGen keeps a tiny simulation of the gate (threshold, closed, snapshot, waiting
// calls) ONLY to keep concurrent waiters order-insensitive; expected outcomes are
// never derived from it.
type gateGenState struct {
	persist  uint64
	closed   bool
	snapS    uint64
	snapE    uint64
	hasSnap  bool
	waiting  []gateStep
	profiles map[string]bool
}

func (st *gateGenState) open(seq uint64) bool { return st.closed || seq <= st.persist }

func (st *gateGenState) snapChangerWaiting() *gateStep {
	for i := range st.waiting {
		if st.waiting[i].kind == "mk" || st.waiting[i].kind == "sa" {
			return &st.waiting[i]
		}
	}
	return nil
}

func gateInRange(q, a, b uint64) bool { return a <= q && q <= b }

// admissible: may this arriving event be issued now without creating an order-sensitive batch?
func (st *gateGenState) admissible(s gateStep) bool {
	if s.kind == "os" {
		return true
	}
	isDoc := s.kind == "mu" || s.kind == "de" || s.kind == "ex" || s.kind == "sy"
	if st.open(s.a) {
		// runs at once: no races with waiters as long as it does not change the snapshot under waiting documents
		if !isDoc {
			ns, ne := s.a, s.b
			if s.kind == "sa" {
				ne = s.a
			}
			for _, w := range st.waiting {
				if w.kind != "mk" && w.kind != "sa" && !gateInRange(w.a, ns, ne) {
					return false
				}
			}
			if st.snapChangerWaiting() != nil {
				return false
			}
		}
		return true
	}
	// will wait
	if isDoc {
		if !st.hasSnap || !gateInRange(s.a, st.snapS, st.snapE) {
			return false
		}
		if c := st.snapChangerWaiting(); c != nil {
			ce := c.b
			if c.kind == "sa" {
				ce = c.a
			}
			if !gateInRange(s.a, c.a, ce) {
				return false
			}
		}
		return true
	}
	if st.snapChangerWaiting() != nil {
		return false
	}
	ns, ne := s.a, s.b
	if s.kind == "sa" {
		ne = s.a
	}
	for _, w := range st.waiting {
		if !gateInRange(w.a, ns, ne) {
			return false
		}
	}
	return true
}

func (st *gateGenState) apply(s gateStep) {
	release := func() {
		var keep []gateStep
		for _, w := range st.waiting {
			if st.open(w.a) {
				st.process(w)
			} else {
				keep = append(keep, w)
			}
		}
		st.waiting = keep
	}
	switch s.op {
	case 'a':
		if s.kind == "os" {
			return
		}
		if st.open(s.a) {
			st.process(s)
		} else {
			st.waiting = append(st.waiting, s)
		}
	case 'p':
		if s.a != 0 && s.a > st.persist {
			st.persist = s.a
		}
		release()
	case 'u':
		release() // the threshold is untouched: nothing is released, nothing starts to wait
	case 'c':
		st.closed = true
		release()
	}
}

func (st *gateGenState) process(s gateStep) {
	switch s.kind {
	case "mk":
		st.snapS, st.snapE, st.hasSnap = s.a, s.b, true
	case "sa":
		st.snapS, st.snapE, st.hasSnap = s.a, s.a, true
	}
}

func gateGen(r *Rng) ([]gateStep, []string) {
	st := &gateGenState{}
	var steps []gateStep
	tags := map[string]bool{}
	emit := func(s gateStep) {
		steps = append(steps, s)
		st.apply(s)
	}
	hi := uint64(r.Range(6, 40))
	base := uint64(0)
	if r.Chance(15) {
		hi = 1<<63 + uint64(r.Intn(1000)) // large seqnos
		base = hi - 30
		tags["big-seqnos"] = true
	} else if r.Chance(30) {
		base = hi / 2
	}
	seq := func() uint64 { return base + uint64(r.Intn(int(hi-base)+1)) }
	// most scripts open with a wide marker whose start is already covered (0 <= 0 passes the fresh gate)
	if r.Chance(85) {
		emit(gateStep{op: 'a', kind: "mk", a: 0, b: hi})
		tags["marker-start-0"] = true
	}
	n := r.Range(4, 14)
	for i := 0; i < n; i++ {
		c := r.Intn(100)
		switch {
		case c < 50: // an arrival
			var s gateStep
			for try := 0; try < 6; try++ {
				k := r.Pick("mu", "mu", "mu", "de", "ex", "sy", "sa", "mk", "mk", "os")
				s = gateStep{op: 'a', kind: k, a: seq()}
				if k == "mk" {
					// markers whose END is far above the threshold but whose START is covered, and the reverse
					s.b = s.a + uint64(r.Intn(20))
					if r.Chance(40) && st.persist > 0 {
						s.a = st.persist - uint64(r.Intn(int(gateMin64(st.persist, 3))+1))
						s.b = hi
					}
				}
				if r.Chance(10) && k != "mk" {
					s.a = st.persist // boundary: seq == threshold
				}
				if r.Chance(10) && k != "mk" {
					s.a = st.persist + 1 // boundary: one above
				}
				if st.admissible(s) {
					break
				}
				s = gateStep{}
			}
			if s.op == 0 {
				// rare on purpose: a document outside every snapshot (panic in IsInSnapshotMarker), only with no waiters around
				if len(st.waiting) == 0 && r.Chance(30) {
					q := seq()
					if st.open(q) && (!st.hasSnap || !gateInRange(q, st.snapS, st.snapE)) {
						emit(gateStep{op: 'a', kind: "mu", a: q})
						tags["doc-outside-snapshot"] = true
					}
				}
				continue
			}
			if s.kind != "os" && !st.open(s.a) {
				tags["arrive-waits"] = true
				if len(st.waiting) >= 1 {
					tags["several-waiting"] = true
				}
			} else {
				tags["arrive-passes"] = true
			}
			if s.kind == "mk" && st.open(s.a) && !st.open(s.b) && !st.closed {
				tags["marker-start-covered-end-not"] = true
			}
			if s.kind == "mk" && !st.open(s.a) {
				tags["marker-waits"] = true
			}
			emit(s)
		case c < 88: // a threshold report
			var v uint64
			switch r.Intn(10) {
			case 0:
				v = 0 // ignored
				tags["persist-zero"] = true
			case 1:
				if st.persist > 0 {
					v = uint64(r.Intn(int(gateMin64(st.persist, 1<<30)))) + 0 // a decrease (or zero)
					tags["persist-decrease"] = true
				}
			case 2, 3:
				// exactly the smallest waiting seqno, or one below it
				if len(st.waiting) > 0 {
					m := st.waiting[0].a
					for _, w := range st.waiting {
						if w.a < m {
							m = w.a
						}
					}
					v = m
					if r.Bool() && m > 0 {
						v = m - 1
						tags["persist-one-below-waiter"] = true
					} else {
						tags["persist-exactly-waiter"] = true
					}
				} else {
					v = seq()
				}
			default:
				v = seq()
			}
			// keep the release batch order-insensitive: at most the admissible combinations wait, so any subset is fine
			before := len(st.waiting)
			emit(gateStep{op: 'p', a: v})
			if len(st.waiting) < before {
				tags["persist-releases"] = true
				if before-len(st.waiting) > 1 {
					tags["persist-releases-several"] = true
				}
			} else if before > 0 {
				tags["persist-keeps-all-waiting"] = true
			}
		case c < 94 && !st.closed:
			if len(st.waiting) > 0 {
				tags["close-while-waiting"] = true
			} else {
				tags["close-idle"] = true
			}
			emit(gateStep{op: 'c'})
		case c >= 94 && c < 98:
			// the stream was re-opened (possibly on another history branch): SetVbUUID must leave the persisted threshold alone -
			// covered events that arrive afterwards are still delivered, nothing that waits is released
			emit(gateStep{op: 'u', a: uint64(1 + r.Intn(5))})
			tags["vbuuid-set"] = true
			if st.persist > 0 {
				tags["vbuuid-set-with-threshold"] = true
			}
		}
	}
	if len(st.waiting) > 0 && r.Chance(60) {
		if r.Bool() {
			emit(gateStep{op: 'c'})
			tags["close-while-waiting"] = true
		} else {
			emit(gateStep{op: 'p', a: hi})
			tags["persist-releases"] = true
		}
	}
	if st.closed {
		tags["closed"] = true
	}
	var tl []string
	for t := range tags {
		tl = append(tl, t)
	}
	sort.Strings(tl)
	return steps, tl
}

func gateMin64(a, b uint64) uint64 {
	if a < b {
		return a
	}
	return b
}

func gateOp(steps []gateStep) string {
	p := []string{"gate-script"}
	for _, s := range steps {
		p = append(p, s.String())
	}
	return strings.Join(p, " ")
}

func runC07Gate(c *Ctx) {
	e := c.E
	if replayFile != "" {
		f, err := os.Open(replayFile)
		if err != nil {
			panic(err)
		}
		defer f.Close()
		sc := bufio.NewScanner(f)
		sc.Buffer(make([]byte, 1<<20), 1<<24)
		for sc.Scan() {
			op := strings.SplitN(sc.Text(), "\t", 2)[0]
			if strings.TrimSpace(op) == "" {
				continue
			}
			e.Line(op, gateRunOp(op))
			e.EndCase(true, "replay")
		}
		return
	}
	rng := &Rng{s: rbMix(c.Seed ^ 0xC07A)}
	type job struct {
		op   string
		tags []string
		res  string
	}
	var jobs []*job
	// directed cases first (constant across seeds)
	for _, op := range []string{
		"gate-script a:mk:0:10 a:mu:5 p:4 p:5",
		"gate-script a:mk:0:10 a:mu:5 p:5 a:mu:5 a:mu:6",
		"gate-script a:mk:0:10 p:3 a:mk:3:900 a:mu:3 a:mu:4 p:0 p:2 c",
		"gate-script a:mk:0:10 p:3 a:mk:4:4 p:3 p:4",
		"gate-script a:mk:5:9 c",
		"gate-script a:mk:5:9 p:5 a:mu:7 p:6 p:7",
		"gate-script a:sa:7 p:6 p:7 a:sa:8 c a:sa:9",
		"gate-script a:mk:0:50 a:mu:9 a:de:4 a:ex:20 a:sy:7 p:8 p:3 p:9 p:50",
		"gate-script a:mk:0:50 a:mu:9 a:de:4 a:ex:20 c a:mu:3 p:99",
		"gate-script a:os c a:os",
		"gate-script p:7 a:mu:3",
		"gate-script a:mk:0:18446744073709551615 a:mu:18446744073709551615 p:18446744073709551614 p:18446744073709551615",
	} {
		jobs = append(jobs, &job{op: op, tags: []string{"directed"}})
	}
	n := c.N(1500, 25000)
	for i := 0; i < n; i++ {
		steps, tags := gateGen(rng)
		jobs = append(jobs, &job{op: gateOp(steps), tags: tags})
	}
	// the scripts are independent: run them in parallel (each has its own observer)
	par := 24
	sem := make(chan struct{}, par)
	var wg sync.WaitGroup
	for _, j := range jobs {
		wg.Add(1)
		sem <- struct{}{}
		go func(j *job) {
			defer wg.Done()
			defer func() { <-sem }()
			j.res = gateRunOp(j.op)
		}(j)
	}
	wg.Wait()
	for _, j := range jobs {
		e.Line(j.op, j.res)
		nontrivial := strings.Contains(j.res, "w") && (strings.Contains(j.res, "d]") || strings.Contains(j.res, "d.") || strings.Contains(j.res, "k"))
		e.EndCase(nontrivial, j.tags...)
	}
	c.Extra["parallel_scripts"] = par
	c.Extra["late_reruns"] = gateReruns.late
	c.Extra["disagreeing_runs"] = gateReruns.disagree
}
