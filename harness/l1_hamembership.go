// Stream c10ha (property C10, layer L1+): the leader-assigned (kubernetesHa) membership END TO END.
//
// Several INSTANCES in one process, each built from the real constructors:
//
//	servicediscovery.NewServiceDiscovery(cfg, bus)  + StartHeartbeat() + StartMonitor()      (dcp.go l.132-134)
//	stream.NewLeaderElection(cfg, sd, bus)          (the handler: OnBecomeLeader / OnResignLeader / OnBecomeFollower)
//	servicediscovery.NewServer(port, identity, sd).Listen()                                  (net/rpc over TCP)
//	kubernetes.NewLeaderElector(k8sClient, cfg, identity, handler, bus).Run(ctx)             (client-go leader election)
//	kubernetes.NewHaMembership(cfg, bus)                                                     (GetInfo)
//
// leaderElection.Start() itself cannot be called (kubernetes.NewClient() needs an in-cluster configuration): its
// six lines (leader_election.go l.76-96: identity, NewServer, Listen, NewLeaderElector, Run) are re-stated in
// haStartInstance, the private field myIdentity that Start() fills is set through reflect.  k8sClient implements
// kubernetes.Client: CoordinationV1() is an in-memory Lease store shared by all instances of a scenario (Get /
// Create / Update with resourceVersion conflicts; client-go's fake clientset does not compile offline - it needs
// github.com/evanphx/json-patch), AddLabel / RemoveLabel are recorded.  The REAL client-go elector runs on it
// (lease 1 s / renew deadline 800 ms / retry 100 ms; LeaseDurationSeconds is an integer, so sub-second leases
// would be "expired" at once).  The store decides WHO may take the lease next (a designated successor: attempts
// of others get a Conflict, as if they had lost the race), so the election outcome is part of the script.
//
// Addresses.  rpc_server.go listens on ":port" (all interfaces) and Handler.Register dials BACK to
// <follower IP>:<the leader's own port>, the follower dials <leader IP>:<cfg port>: every instance needs the SAME
// port and its own IP, and no two wildcard listeners on one port can live in one network namespace.  So a scenario
// runs in a child process with its own network namespace; inside it every real Server.Listen() is called on an OS
// thread that has unshared its own private namespace, and the harness owns one forwarding listener per instance
// on 127.0.0.(10+i):port in the child's root namespace (where every dial of go-dcp lands).  The forwarder reads the
// caller's identity name out of the first request (net/rpc + gob: the name is in the clear), so it can cut the
// connections between two instances, refuse new ones (partition) and kill an instance silently.
//
// Time.  The loops of service_discovery.go sleep a hard-coded 5 s (after each body: a body that fails lengthens the
// period).  Instance i starts at off_i*100 ms, so its heartbeat body runs at 5k+off_i and its monitor body at
// 5k+1.6+off_i (RebalanceDelay = 1.6 s).  Every 5 s period: heartbeat bodies in [0,1.4] + their duration (followers at
// phase 0, the instances that lead at some time at 0.8 and 1.4 - or leader 0, followers 0.7 when a restarted leader has
// to listen before the followers' bodies run), monitor bodies in [1.6,3.0], checkpoint at 4.0, scripted events at 4.2
// (kill, connection loss, partition, lease-API outage, resign, release of a held election), restarts at the instance's
// own phase in the next heartbeat window.  When the lease holder is killed the step takes two periods: the followers'
// heartbeat bodies find it dead first (ping fails, 3 x 1 s reconnect refused, RemoveLeader - as with the default
// timings, where the lease outlives a heartbeat period), then the election is released.  Electing DURING the heartbeat
// window crashes the unchanged code now and then (Ping retry / ReassignLeader overlapping RemoveLeader -> Close():
// nil dereference), so the generator never does it.  The op line lists, besides the environment events the harness
// executes, the election callbacks and loop bodies that follow from them, in their nominal order: that list is the
// schedule the Lean model runs (`+` = period boundary without checkpoint, `?` = checkpoint).  A scheduler-lag probe
// discards (and re-runs, up to three times) a scenario during which the process was starved for > 200 ms.
package main

import (
	"bufio"
	"bytes"
	"context"
	"errors"
	"flag"
	"fmt"
	"io"
	"net"
	"os"
	"os/exec"
	"reflect"
	"regexp"
	"runtime"
	"sort"
	"strconv"
	"strings"
	"sync"
	"sync/atomic"
	"syscall"
	"time"
	"unsafe"

	"github.com/Trendyol/go-dcp/config"
	"github.com/Trendyol/go-dcp/helpers"
	"github.com/Trendyol/go-dcp/kubernetes"
	"github.com/Trendyol/go-dcp/leaderelector"
	"github.com/Trendyol/go-dcp/logger"
	"github.com/Trendyol/go-dcp/membership"
	"github.com/Trendyol/go-dcp/models"
	"github.com/Trendyol/go-dcp/servicediscovery"
	"github.com/Trendyol/go-dcp/stream"
	"github.com/asaskevich/EventBus"
	"github.com/sirupsen/logrus"
	coordv1 "k8s.io/api/coordination/v1"
	apierrors "k8s.io/apimachinery/pkg/api/errors"
	metav1 "k8s.io/apimachinery/pkg/apis/meta/v1"
	"k8s.io/apimachinery/pkg/runtime/schema"
	cv1 "k8s.io/client-go/kubernetes/typed/coordination/v1"
	"k8s.io/client-go/rest"
	"k8s.io/klog/v2"
)

func init() {
	props["c10ha"] = runC10Ha
	if os.Getenv("VERIF_CHILD") == "c10ha" {
		haChildMain()
		os.Exit(0)
	}
}

const (
	haPort       = 8081 // config default of leaderElection.rpc.port
	haPeriod     = 5000 * time.Millisecond
	haRebDelay   = 1600 * time.Millisecond
	haCheckAt    = 4000 * time.Millisecond
	haEventAt    = 4200 * time.Millisecond
	haLagLimit   = 200 * time.Millisecond
	haMaxRetries = 3
)

// ------------------------------------------------------------------------------------------------ script

// compact script: header + steps; compiled into the token list of the op line
type haScript struct {
	n   int
	jt  []int64
	off []int // start offset of instance i in 100 ms
	ld  int   // delay of AddLabel("role","leader") in 100 ms (the promotion callback runs after it)
	l0  int   // the instance that is let to acquire the lease first
	// steps[0] is the initial start (no events); events of step k >= 1 happen at the end of period k
	steps [][]string
}

func (s *haScript) String() string {
	sb := []string{s.header()}
	for k := 1; k < len(s.steps); k++ {
		if len(s.steps[k]) == 0 {
			sb = append(sb, "-")
		} else {
			sb = append(sb, strings.Join(s.steps[k], ","))
		}
	}
	return strings.Join(sb, " / ")
}

func (s *haScript) header() string {
	var j, o []string
	for i := 0; i < s.n; i++ {
		j = append(j, fmt.Sprint(s.jt[i]))
		o = append(o, fmt.Sprint(s.off[i]))
	}
	return fmt.Sprintf("n=%d;jt=%s;off=%s;ld=%d;L=%d", s.n, strings.Join(j, ","), strings.Join(o, ","), s.ld, s.l0)
}

func haParseHeader(h string) (*haScript, error) {
	s := &haScript{}
	for _, kv := range strings.Split(h, ";") {
		p := strings.SplitN(kv, "=", 2)
		if len(p) != 2 {
			return nil, fmt.Errorf("bad header field %q", kv)
		}
		switch p[0] {
		case "n":
			s.n, _ = strconv.Atoi(p[1])
		case "jt":
			for _, x := range strings.Split(p[1], ",") {
				v, err := strconv.ParseInt(x, 10, 64)
				if err != nil {
					return nil, err
				}
				s.jt = append(s.jt, v)
			}
		case "off":
			for _, x := range strings.Split(p[1], ",") {
				v, err := strconv.Atoi(x)
				if err != nil {
					return nil, err
				}
				s.off = append(s.off, v)
			}
		case "ld":
			s.ld, _ = strconv.Atoi(p[1])
		case "L":
			s.l0, _ = strconv.Atoi(p[1])
		default:
			return nil, fmt.Errorf("unknown header field %q", p[0])
		}
	}
	if s.n < 1 || s.n > 5 || len(s.jt) != s.n || len(s.off) != s.n || s.l0 < 0 || s.l0 >= s.n {
		return nil, fmt.Errorf("bad header %q", h)
	}
	for _, o := range s.off {
		if o < 0 || o > 16 {
			return nil, fmt.Errorf("offset out of range in %q", h)
		}
	}
	return s, nil
}

// "n=..;jt=..;off=..;ld=.. / k2 / - / r2:35,c1" -> script
func haParseScript(txt string) (*haScript, error) {
	parts := strings.Split(txt, "/")
	s, err := haParseHeader(strings.TrimSpace(parts[0]))
	if err != nil {
		return nil, err
	}
	s.steps = [][]string{nil}
	for _, p := range parts[1:] {
		p = strings.TrimSpace(p)
		if p == "-" || p == "" {
			s.steps = append(s.steps, nil)
			continue
		}
		s.steps = append(s.steps, strings.Split(p, ","))
	}
	return s, nil
}

// election / phase tracker used by the compiler (who is alive, who leads, what each elector has reported, and by how
// much the heartbeat loop of an instance lags behind its start phase: a body that fails its leader ping and then its
// 3 x 1 s reconnect lasts 2.2 s, and the loop sleeps 5 s AFTER the body)
type haTrack struct {
	alive    []bool
	jt       []int64
	el       []int // 0 watching, 1 leading, 2 stopped
	amLeader []bool
	leaderOf []int // whom leaderService points to (-1: nil)
	reported []string
	started  []int // step in which the process started
	drift    []int // ms
	holder   string // "" none, else "<idx>:<jt>"
	holderI  int
	drifted  bool
	clash    bool // two bodies that do not commute are closer than the margins allow: the generator drops the script
}

func (t *haTrack) ident(i int) string { return fmt.Sprintf("%d:%d", i, t.jt[i]) }

// compile: the token list = the schedule the model runs = what the harness executes (environment tokens)
// plus what the real code is expected to do in consequence (callbacks, loop bodies), in nominal time order.
//
//	events of a step:  k<i> kill | r<i>:<jt> restart (new process, at its offset in the next heartbeat window; r<i> = same join time)
//	                   c<i> connections i<->leader lost | b<i> partition i<->leader (no connection, old or new) | u<i> partition healed
//	                   d<i> lease API fails for i (renew deadline passes) | a<i> lease API back
//	                   g resign (the leader's context is cancelled, ReleaseOnCancel)
//	                   n<i> designated successor | h hold the election (nobody may acquire in this step)
//
// A step is one 5 s period: events at 4.2 s of the previous period, heartbeat window, monitor window, checkpoint.
// When the lease holder is killed the step takes two periods: in the first one the followers' heartbeat bodies find
// the leader dead and drop it (with the default timings the lease outlives a heartbeat period, too), the election is
// released between the two (`+` = period boundary without checkpoint).  After such a step the heartbeat loops lag
// 2.2 s behind the monitor loops, so every later step with events takes two periods as well.
func haCompile(s *haScript) ([]string, error) {
	toks, _, err := haCompileX(s)
	return toks, err
}

func haCompileX(s *haScript) ([]string, bool, error) {
	n := s.n
	t := &haTrack{alive: make([]bool, n), jt: append([]int64(nil), s.jt...), el: make([]int, n), amLeader: make([]bool, n),
		leaderOf: make([]int, n), reported: make([]string, n), started: make([]int, n), drift: make([]int, n), holderI: -1}
	for i := range t.leaderOf {
		t.leaderOf[i] = -1
	}
	var toks []string
	emit := func(f string, a ...any) { toks = append(toks, fmt.Sprintf(f, a...)) }
	phase := func(i int) int { return s.off[i]*100 + t.drift[i] }
	apart := func(a, b, min int) {
		d := phase(a) - phase(b)
		if d < 0 {
			d = -d
		}
		if d < min {
			t.clash = true
		}
	}
	blockedWith := map[int]int{}
	observe := func(i int) {
		if !t.alive[i] || t.el[i] == 2 || t.reported[i] == t.holder || t.holder == "" {
			return
		}
		emit("obs:%d", i)
		t.reported[i] = t.holder
		if t.holderI != i {
			t.amLeader[i] = false
			t.leaderOf[i] = -1
			if t.alive[t.holderI] {
				t.leaderOf[i] = t.holderI
			}
		}
	}
	lead := func(x int) { emit("ld:%d", x); t.amLeader[x] = true; t.leaderOf[x] = -1 }
	elect := func(x int) {
		emit("acq:%d", x)
		t.holder, t.holderI = t.ident(x), x
		t.el[x] = 1
		t.reported[x] = t.holder
		if s.ld == 0 {
			lead(x)
		}
		for i := 0; i < n; i++ {
			if i != x {
				observe(i)
			}
		}
		if s.ld > 0 {
			lead(x)
		}
	}
	successor := func(want int) int {
		if want >= 0 {
			return want
		}
		for i := 0; i < n; i++ {
			if t.alive[i] && t.el[i] == 0 {
				return i
			}
		}
		return -1
	}
	holderLeads := func() bool { return t.holderI >= 0 && t.alive[t.holderI] && t.el[t.holderI] == 1 }
	// heartbeat window of step k: bodies (or process starts) in phase order, then the monitor bodies
	window := func(k int, restarts map[int]int64, same map[int]bool) error {
		order := make([]int, n)
		for i := range order {
			order[i] = i
		}
		sort.SliceStable(order, func(a, b int) bool { return phase(order[a]) < phase(order[b]) })
		for _, i := range order {
			if jt, ok := restarts[i]; ok {
				if k == 0 {
					emit("st:%d", i)
				} else {
					if t.alive[i] {
						return fmt.Errorf("restart of a live instance %d", i)
					}
					emit("rs:%d:%d", i, jt)
				}
				t.alive[i], t.jt[i], t.el[i], t.amLeader[i], t.reported[i] = true, jt, 0, false, ""
				t.leaderOf[i], t.started[i], t.drift[i] = -1, k, 0
				if k == 0 {
					continue
				}
				for f := 0; f < n; f++ { // followers that still point to this address re-register at their heartbeat
					if f != i && t.alive[f] && t.leaderOf[f] == i && phase(f) < phase(i)+400 {
						t.clash = true
					}
				}
				if t.holder == t.ident(i) && same[i] {
					// same identity string as the holder: client-go takes the new process for the leader (renews at once)
					t.el[i] = 1
					t.reported[i] = t.holder
					emit("acq:%d", i)
					lead(i)
					continue
				}
				if t.holderI >= 0 && t.holderI != i && t.alive[t.holderI] && t.reported[i] != t.holder {
					apart(i, t.holderI, 600) // it registers at the holder: not while the holder pings the old entry
				}
				observe(i)
				continue
			}
			if k > 0 && t.alive[i] && t.started[i] < k {
				emit("hb:%d", i)
				if l := t.leaderOf[i]; l >= 0 && !t.alive[l] {
					// ping fails, the reconnect is refused three times (2.2 s); the leader service is kept (commit 39ec43d)
					t.drift[i] += 2200
					t.drifted = true
				} else if b, ok := blockedWith[i]; ok && l == b {
					// partitioned from its leader: ping fails, the reconnect is accepted, Register fails (0.4 s), every period
					t.drift[i] += 400
				}
			}
		}
		for _, i := range order {
			// a process runs its first monitor body 5 s + RebalanceDelay after its start
			if t.alive[i] && t.amLeader[i] && t.started[i] < k {
				emit("mon:%d", i)
			}
		}
		return nil
	}
	for k := 0; k < len(s.steps); k++ {
		if k == 0 {
			all := map[int]int64{}
			for i := 0; i < n; i++ {
				all[i] = s.jt[i]
			}
			if err := window(0, all, nil); err != nil {
				return nil, false, err
			}
			// nobody may take the lease before every instance runs; then the designated first leader acquires it and
			// everybody else reports it
			elect(s.l0)
			emit("?")
			if err := window(1, nil, nil); err != nil { // k = 1 only marks "not the start period"
				return nil, false, err
			}
			emit("?")
			continue
		}
		restarts := map[int]int64{}
		same := map[int]bool{}
		want, hold, events := -1, false, false
		for _, ev := range s.steps[k] {
			events = true
			if ev == "g" {
				if !holderLeads() {
					return nil, false, fmt.Errorf("resign without a leading holder")
				}
				l := t.holderI
				emit("rsg:%d", l)
				emit("rel:%d", l)
				t.el[l], t.amLeader[l] = 2, false
				t.holder, t.holderI = "", -1
				continue
			}
			if ev == "h" {
				hold = true
				continue
			}
			if len(ev) < 2 {
				return nil, false, fmt.Errorf("bad event %q", ev)
			}
			arg := ev[1:]
			jt := int64(-1)
			if ev[0] == 'r' {
				p := strings.SplitN(arg, ":", 2)
				arg = p[0]
				if len(p) == 2 {
					jt, _ = strconv.ParseInt(p[1], 10, 64)
				}
			}
			i, err := strconv.Atoi(arg)
			if err != nil || i < 0 || i >= n {
				return nil, false, fmt.Errorf("bad event %q", ev)
			}
			switch ev[0] {
			case 'k':
				if !t.alive[i] {
					return nil, false, fmt.Errorf("kill of a dead instance in %q", ev)
				}
				emit("k:%d", i)
				t.alive[i] = false
			case 'r':
				if jt < 0 {
					jt = t.jt[i]
					same[i] = true
				}
				restarts[i] = jt
			case 'c', 'b':
				if !holderLeads() || t.holderI == i {
					return nil, false, fmt.Errorf("%q needs a leader other than the instance", ev)
				}
				if ev[0] == 'c' {
					apart(i, t.holderI, 600)
					emit("cut:%d:%d", i, t.holderI)
				} else {
					emit("blk:%d:%d", i, t.holderI)
					blockedWith[i] = t.holderI
				}
			case 'u':
				b, ok := blockedWith[i]
				if !ok {
					return nil, false, fmt.Errorf("%q without a partition", ev)
				}
				emit("ubl:%d:%d", i, b)
				delete(blockedWith, i)
				// its next heartbeat body registers again: before the leader's monitor body
				if t.alive[b] && phase(i)+750 > phase(b)+int(haRebDelay/time.Millisecond) {
					t.clash = true
				}
			case 'd':
				emit("dn:%d", i)
				if t.holderI == i && t.alive[i] && t.el[i] == 1 {
					emit("lose:%d", i)
					t.el[i], t.amLeader[i] = 2, false
				}
			case 'a':
				emit("up:%d", i)
			case 'n':
				want = i
			default:
				return nil, false, fmt.Errorf("bad event %q", ev)
			}
		}
		// elections
		slow := false
		if !holderLeads() && !hold {
			switch {
			case t.holderI >= 0 && !t.alive[t.holderI] && same[t.holderI]:
				// the dead leader comes back under the SAME identity string before anybody else is let to acquire
			case t.holderI >= 0 && !t.alive[t.holderI] && t.el[t.holderI] == 1:
				slow = true // killed while leading: heartbeat bodies first, election between the two periods
				t.el[t.holderI] = 2
			default:
				// the lease was lost or released by a living process, or an election held back earlier is released now
				if x := successor(want); x >= 0 && t.alive[x] && t.el[x] == 0 {
					elect(x)
				}
			}
		}
		if err := window(k, restarts, same); err != nil {
			return nil, false, err
		}
		if slow {
			emit("+")
			if x := successor(want); x >= 0 && t.alive[x] && t.el[x] == 0 {
				elect(x)
			}
			if err := window(k, nil, nil); err != nil {
				return nil, false, err
			}
		} else if t.drifted && events {
			emit("+")
			if err := window(k, nil, nil); err != nil {
				return nil, false, err
			}
		}
		emit("?")
	}
	return toks, t.clash, nil
}

func haOpLine(s *haScript) (string, error) {
	toks, err := haCompile(s)
	if err != nil {
		return "", err
	}
	return "ha-run " + s.header() + " " + strings.Join(toks, " "), nil
}

// ------------------------------------------------------------------------------------------------ child: network

// an OS thread living in its own network namespace (loopback up); every socket created by a function run on it
// belongs to that namespace for good
type haNs struct{ ch chan func() }

func haLoopbackUp() error {
	fd, err := syscall.Socket(syscall.AF_INET, syscall.SOCK_DGRAM, 0)
	if err != nil {
		return err
	}
	defer syscall.Close(fd)
	var ifr [40]byte
	copy(ifr[:], "lo")
	if _, _, e := syscall.Syscall(syscall.SYS_IOCTL, uintptr(fd), syscall.SIOCGIFFLAGS, uintptr(unsafe.Pointer(&ifr))); e != 0 {
		return e
	}
	ifr[16] |= 1 // IFF_UP
	if _, _, e := syscall.Syscall(syscall.SYS_IOCTL, uintptr(fd), syscall.SIOCSIFFLAGS, uintptr(unsafe.Pointer(&ifr))); e != 0 {
		return e
	}
	return nil
}

func newHaNs() (*haNs, error) {
	n := &haNs{ch: make(chan func())}
	ready := make(chan error, 1)
	go func() {
		runtime.LockOSThread() // never unlocked: the thread must not be reused by the scheduler
		if err := syscall.Unshare(syscall.CLONE_NEWNET); err != nil {
			ready <- err
			return
		}
		if err := haLoopbackUp(); err != nil {
			ready <- err
			return
		}
		ready <- nil
		for f := range n.ch {
			f()
		}
	}()
	if err := <-ready; err != nil {
		return nil, err
	}
	return n, nil
}

func (n *haNs) do(f func()) {
	done := make(chan struct{})
	n.ch <- func() { defer close(done); f() }
	<-done
}

var haNameRe = regexp.MustCompile(`ha-pod-(\d)`)

type haConn struct {
	origin, dest int // origin -1 = not identified yet
	a, b         net.Conn
	accepted     time.Time
}

type haProxy struct {
	mu      sync.Mutex
	sc      *haScenario
	ln      []net.Listener
	conns   map[*haConn]bool
	cutAt   map[[2]int]time.Time
	blocked map[[2]int]bool
}

func haPair(a, b int) [2]int {
	if a > b {
		a, b = b, a
	}
	return [2]int{a, b}
}

func haIP(i int) string { return fmt.Sprintf("127.0.0.%d", 10+i) }

func (p *haProxy) listen(i int) error {
	ln, err := net.Listen("tcp4", fmt.Sprintf("%s:%d", haIP(i), haPort))
	if err != nil {
		return err
	}
	p.mu.Lock()
	p.ln[i] = ln
	p.mu.Unlock()
	go func() {
		for {
			c, err := ln.Accept()
			if err != nil {
				return
			}
			hc := &haConn{origin: -1, dest: i, a: c, accepted: time.Now()}
			p.mu.Lock()
			p.conns[hc] = true
			p.mu.Unlock()
			go p.serve(hc)
		}
	}()
	return nil
}

func (p *haProxy) drop(hc *haConn) {
	p.mu.Lock()
	delete(p.conns, hc)
	p.mu.Unlock()
	hc.a.Close()
	if hc.b != nil {
		hc.b.Close()
	}
}

func (p *haProxy) serve(hc *haConn) {
	// the dialling side speaks first (net/rpc request): find out who it is
	var buf []byte
	tmp := make([]byte, 4096)
	for hc.origin < 0 {
		n, err := hc.a.Read(tmp)
		if n > 0 {
			buf = append(buf, tmp[:n]...)
			if m := haNameRe.FindSubmatch(buf); m != nil {
				hc.origin = int(m[1][0] - '0')
			}
		}
		if err != nil || len(buf) > 1<<16 {
			p.drop(hc)
			return
		}
	}
	p.mu.Lock()
	inst := p.sc.cur[hc.dest]
	ok := inst != nil && !inst.dead.Load() && hc.origin < len(p.sc.cur) && !p.blocked[haPair(hc.origin, hc.dest)] &&
		!p.cutAt[haPair(hc.origin, hc.dest)].After(hc.accepted)
	if ok {
		if o := p.sc.cur[hc.origin]; o == nil || o.dead.Load() {
			ok = false
		}
	}
	p.mu.Unlock()
	if !ok {
		p.drop(hc)
		return
	}
	var b net.Conn
	var err error
	inst.ns.do(func() { b, err = net.DialTimeout("tcp4", fmt.Sprintf("127.0.0.1:%d", haPort), 2*time.Second) })
	if err != nil {
		p.drop(hc)
		return
	}
	p.mu.Lock()
	hc.b = b
	_, still := p.conns[hc]
	p.mu.Unlock()
	if !still {
		b.Close()
		return
	}
	if _, err := b.Write(buf); err != nil {
		p.drop(hc)
		return
	}
	go func() { io.Copy(hc.a, b); p.drop(hc) }()
	io.Copy(b, hc.a)
	p.drop(hc)
}

// every connection between a and b is lost
func (p *haProxy) cut(a, b int) {
	p.mu.Lock()
	p.cutAt[haPair(a, b)] = time.Now()
	var victims []*haConn
	for hc := range p.conns {
		if hc.origin >= 0 && haPair(hc.origin, hc.dest) == haPair(a, b) {
			victims = append(victims, hc)
		}
	}
	p.mu.Unlock()
	for _, hc := range victims {
		p.drop(hc)
	}
}

func (p *haProxy) kill(i int) {
	p.mu.Lock()
	if p.ln[i] != nil {
		p.ln[i].Close()
		p.ln[i] = nil
	}
	var victims []*haConn
	for hc := range p.conns {
		if hc.origin == i || hc.dest == i {
			victims = append(victims, hc)
		}
	}
	p.mu.Unlock()
	for _, hc := range victims {
		p.drop(hc)
	}
}

// ------------------------------------------------------------------------------------------------ child: lease store

type haStore struct {
	mu     sync.Mutex
	lease  *coordv1.Lease
	rv     int
	permit int // the only instance that may take the lease over (-1: nobody)
}

var haLeaseGR = schema.GroupResource{Group: "coordination.k8s.io", Resource: "leases"}

func haHolderIdx(l *coordv1.Lease) int {
	if l == nil || l.Spec.HolderIdentity == nil || *l.Spec.HolderIdentity == "" {
		return -1
	}
	if m := haNameRe.FindStringSubmatch(*l.Spec.HolderIdentity); m != nil {
		return int(m[1][0] - '0')
	}
	return -2
}

func haHolderStr(l *coordv1.Lease) string {
	if l == nil || l.Spec.HolderIdentity == nil {
		return ""
	}
	return *l.Spec.HolderIdentity
}

type haLeases struct {
	cv1.LeaseInterface // every method the lease lock does not use panics on the nil interface
	st                 *haStore
	inst               *haInst
}

func (l *haLeases) down() error {
	if l.inst.dead.Load() || l.inst.apiDown.Load() {
		return errors.New("the server is currently unable to handle the request")
	}
	return nil
}

func (l *haLeases) Get(_ context.Context, name string, _ metav1.GetOptions) (*coordv1.Lease, error) {
	if err := l.down(); err != nil {
		return nil, err
	}
	l.st.mu.Lock()
	defer l.st.mu.Unlock()
	if l.st.lease == nil {
		return nil, apierrors.NewNotFound(haLeaseGR, name)
	}
	return l.st.lease.DeepCopy(), nil
}

// may the caller change the holder to `to`?
func (l *haLeases) takeover(to string, name string) error {
	if to == "" {
		return nil
	}
	if l.st.permit != l.inst.idx {
		return apierrors.NewConflict(haLeaseGR, name, errors.New("the object has been modified (another candidate was faster)"))
	}
	l.st.permit = -1
	return nil
}

func (l *haLeases) Create(_ context.Context, lease *coordv1.Lease, _ metav1.CreateOptions) (*coordv1.Lease, error) {
	if err := l.down(); err != nil {
		return nil, err
	}
	l.st.mu.Lock()
	defer l.st.mu.Unlock()
	if l.st.lease != nil {
		return nil, apierrors.NewAlreadyExists(haLeaseGR, lease.Name)
	}
	if err := l.takeover(haHolderStr(lease), lease.Name); err != nil {
		return nil, err
	}
	l.st.rv++
	c := lease.DeepCopy()
	c.ResourceVersion = fmt.Sprint(l.st.rv)
	l.st.lease = c
	return c.DeepCopy(), nil
}

func (l *haLeases) Update(_ context.Context, lease *coordv1.Lease, _ metav1.UpdateOptions) (*coordv1.Lease, error) {
	if err := l.down(); err != nil {
		return nil, err
	}
	l.st.mu.Lock()
	defer l.st.mu.Unlock()
	if l.st.lease == nil {
		return nil, apierrors.NewNotFound(haLeaseGR, lease.Name)
	}
	if lease.ResourceVersion != l.st.lease.ResourceVersion {
		return nil, apierrors.NewConflict(haLeaseGR, lease.Name, errors.New("the object has been modified"))
	}
	if haHolderStr(lease) != haHolderStr(l.st.lease) {
		if err := l.takeover(haHolderStr(lease), lease.Name); err != nil {
			return nil, err
		}
	}
	l.st.rv++
	c := lease.DeepCopy()
	c.ResourceVersion = fmt.Sprint(l.st.rv)
	l.st.lease = c
	return c.DeepCopy(), nil
}

type haCoord struct {
	st   *haStore
	inst *haInst
}

func (c *haCoord) RESTClient() rest.Interface { return nil }
func (c *haCoord) Leases(string) cv1.LeaseInterface {
	return &haLeases{st: c.st, inst: c.inst}
}

// kubernetes.Client of one instance
type haK8s struct {
	mu         sync.Mutex
	inst       *haInst
	st         *haStore
	labels     map[string]string
	labelDelay time.Duration
}

// the first promotion of a scenario (all instances are starting) is labelled slowly; later ones within 300 ms, so that
// the promotion callback is over before the next heartbeat window opens
var haPromotions atomic.Int32

func (k *haK8s) CoordinationV1() cv1.CoordinationV1Interface { return &haCoord{st: k.st, inst: k.inst} }
func (k *haK8s) AddLabel(key string, value string) {
	if key == "role" && value == "leader" && k.labelDelay > 0 {
		d := k.labelDelay // the PATCH of the pod takes a while: the promotion callback runs after it
		if haPromotions.Add(1) > 1 && d > 300*time.Millisecond {
			d = 300 * time.Millisecond
		}
		time.Sleep(d)
	}
	k.mu.Lock()
	k.labels[key] = value
	k.mu.Unlock()
}
func (k *haK8s) RemoveLabel(key string) {
	k.mu.Lock()
	delete(k.labels, key)
	k.mu.Unlock()
}
func (k *haK8s) GetIdentity() *models.Identity { return k.inst.id }
func (k *haK8s) label(key string) string {
	k.mu.Lock()
	defer k.mu.Unlock()
	return k.labels[key]
}

// ------------------------------------------------------------------------------------------------ child: instances

type haInst struct {
	idx     int
	id      *models.Identity
	bus     EventBus.Bus
	sd      servicediscovery.ServiceDiscovery
	srv     servicediscovery.Server
	ham     membership.Membership
	elector leaderelector.LeaderElector
	k8s     *haK8s
	cancel  context.CancelFunc
	ns      *haNs
	dead    atomic.Bool
	apiDown atomic.Bool
	evs     *mbEvents
}

type haScenario struct {
	hdr     *haScript
	cur     []*haInst
	proxy   *haProxy
	store   *haStore
	t0      time.Time
	nsPool  []*haNs       // private network namespaces, made before the clock starts (one per process start of the script)
	slowest time.Duration // longest process start (it has to be short against the margins of the time grid)
}

func haSetPrivate(obj any, field string, val any) bool {
	v := reflect.ValueOf(obj)
	if v.Kind() != reflect.Ptr || v.Elem().Kind() != reflect.Struct {
		return false
	}
	f := v.Elem().FieldByName(field)
	if !f.IsValid() || !reflect.TypeOf(val).AssignableTo(f.Type()) {
		return false
	}
	reflect.NewAt(f.Type(), unsafe.Pointer(f.UnsafeAddr())).Elem().Set(reflect.ValueOf(val))
	return true
}

// dcp.go l.131-137 + leader_election.go Start() l.76-96 re-stated (kubernetes.NewClient() replaced by haK8s)
func (sc *haScenario) startInstance(i int, jt int64) error {
	inst := &haInst{idx: i, evs: &mbEvents{}}
	inst.id = &models.Identity{IP: haIP(i), Name: fmt.Sprintf("ha-pod-%d", i), ClusterJoinTime: jt}
	cfg := &config.Dcp{}
	cfg.Dcp.Group.Membership.RebalanceDelay = haRebDelay
	cfg.LeaderElection.Enabled = true
	cfg.LeaderElection.Type = stream.KubernetesLeaderElectionType
	cfg.LeaderElection.RPC.Port = haPort
	cfg.LeaderElection.Config = map[string]string{
		"leaseLockName": "ha-lock", "leaseLockNamespace": "default",
		"leaseDuration": "1s", "renewDeadline": "800ms", "retryPeriod": "100ms",
	}
	inst.bus = EventBus.New()
	_ = inst.bus.SubscribeAsync(helpers.MembershipChangedBusEventName, inst.evs.add, true)
	inst.ham = kubernetes.NewHaMembership(cfg, inst.bus)
	inst.sd = servicediscovery.NewServiceDiscovery(cfg, inst.bus)
	inst.sd.StartHeartbeat()
	inst.sd.StartMonitor()
	le := stream.NewLeaderElection(cfg, inst.sd, inst.bus)
	handler, ok := le.(leaderelector.Handler)
	if !ok {
		return errors.New("no-handler")
	}
	if !haSetPrivate(le, "myIdentity", inst.id) { // kubernetesClient.GetIdentity() in Start()
		return errors.New("no-identity-field")
	}
	var ns *haNs
	if len(sc.nsPool) > 0 {
		ns, sc.nsPool = sc.nsPool[0], sc.nsPool[1:]
	} else {
		var err error
		if ns, err = newHaNs(); err != nil {
			return err
		}
	}
	inst.ns = ns
	inst.srv = servicediscovery.NewServer(haPort, inst.id, inst.sd)
	var perr any
	ns.do(func() {
		defer func() { perr = recover() }()
		inst.srv.Listen()
	})
	if perr != nil {
		return fmt.Errorf("listen: %v", perr)
	}
	inst.k8s = &haK8s{inst: inst, st: sc.store, labels: map[string]string{}, labelDelay: time.Duration(sc.hdr.ld) * 100 * time.Millisecond}
	sc.proxy.mu.Lock()
	sc.cur[i] = inst
	sc.proxy.mu.Unlock()
	if err := sc.proxy.listen(i); err != nil {
		return err
	}
	inst.elector = kubernetes.NewLeaderElector(inst.k8s, cfg, inst.id, handler, inst.bus)
	ctx, cancel := context.WithCancel(context.Background())
	inst.cancel = cancel
	inst.elector.Run(ctx)
	return nil
}

// silent death: nothing of this process is heard again
func (sc *haScenario) killInstance(i int) {
	inst := sc.cur[i]
	if inst == nil || inst.dead.Load() {
		return
	}
	inst.dead.Store(true)
	sc.proxy.kill(i)
	func() {
		defer func() { recover() }()
		inst.srv.Shutdown()
	}()
	// the goroutines of the dead process cannot be stopped: make them inert
	inst.sd.StopHeartbeat()
	inst.sd.StopMonitor()
	inst.sd.DontBeLeader()
	inst.sd.RemoveAll()
	inst.sd.RemoveLeader()
}

func haWatch(f func()) bool {
	done := make(chan struct{})
	go func() { defer close(done); f() }()
	select {
	case <-done:
		return true
	case <-time.After(8 * time.Second):
		return false
	}
}

func (sc *haScenario) nameIdx(name string) string {
	if m := haNameRe.FindStringSubmatch(name); m != nil && name == "ha-pod-"+m[1] {
		return m[1]
	}
	return "<" + strings.ReplaceAll(name, " ", "_") + ">"
}

// canonical observation of one checkpoint, sorted by instance index
func (sc *haScenario) checkpoint() (string, bool) {
	var sb []string
	for i, inst := range sc.cur {
		if inst == nil || inst.dead.Load() {
			sb = append(sb, fmt.Sprintf("%d=x", i))
			continue
		}
		role := "-"
		switch inst.k8s.label("role") {
		case "leader":
			role = "L"
		case "follower":
			role = "F"
		}
		info := "?"
		var names []string
		ok := haWatch(func() {
			inst.bus.WaitAsync()
			if evs := inst.evs.snapshot(); len(evs) > 0 {
				g := inst.ham.GetInfo()
				info = fmt.Sprintf("%d/%d", g.MemberNumber, g.TotalMembers)
				if last := evs[len(evs)-1]; last != *g {
					info += fmt.Sprintf("!%d/%d", last.MemberNumber, last.TotalMembers)
				}
			}
			// the pod label `member` written by leader_elector.go's own bus listener has to say the same
			want := strings.ReplaceAll(strings.SplitN(info, "!", 2)[0], "/", "_")
			if info == "?" {
				want = ""
			}
			if ml := inst.k8s.label("member"); ml != want {
				info += "~" + ml
			}
			names = inst.sd.GetAll()
		})
		if !ok {
			return "hang", false
		}
		var ids []string
		for _, n := range names {
			ids = append(ids, sc.nameIdx(n))
		}
		sort.Strings(ids)
		svc := "-"
		if len(ids) > 0 {
			svc = strings.Join(ids, ".")
		}
		sb = append(sb, fmt.Sprintf("%d=%s,%s,%s", i, role, info, svc))
	}
	return strings.Join(sb, " "), true
}

type haLag struct {
	max  atomic.Int64
	stop atomic.Bool
}

func (l *haLag) run() {
	for !l.stop.Load() {
		t := time.Now()
		time.Sleep(10 * time.Millisecond)
		if d := int64(time.Since(t) - 10*time.Millisecond); d > l.max.Load() {
			l.max.Store(d)
		}
	}
}

// executes the environment tokens of an op line on the time grid; returns the observation
func haRunTokens(hdr *haScript, toks []string) string {
	sc := &haScenario{hdr: hdr, cur: make([]*haInst, hdr.n), store: &haStore{permit: -1}}
	sc.proxy = &haProxy{sc: sc, ln: make([]net.Listener, hdr.n), conns: map[*haConn]bool{}, cutAt: map[[2]int]time.Time{}, blocked: map[[2]int]bool{}}
	for _, t := range toks {
		if strings.HasPrefix(t, "st:") || strings.HasPrefix(t, "rs:") {
			ns, err := newHaNs()
			if err != nil {
				return "netns-failed " + strings.ReplaceAll(err.Error(), "\t", " ")
			}
			sc.nsPool = append(sc.nsPool, ns)
		}
	}
	lag := &haLag{}
	go lag.run()
	sc.t0 = time.Now().Add(50 * time.Millisecond)
	at := func(d time.Duration) { time.Sleep(time.Until(sc.t0.Add(d))) }
	arg := func(t string, k int) int {
		p := strings.Split(t, ":")
		if k >= len(p) {
			return -1
		}
		v, err := strconv.Atoi(p[k])
		if err != nil {
			return -1
		}
		return v
	}
	seg := 0
	var obs []string
	inWindow := false
	base := func() time.Duration { return time.Duration(seg) * haPeriod } // start of the heartbeat window of the segment
	for _, t := range toks {
		kind := strings.SplitN(t, ":", 2)[0]
		switch kind {
		case "?":
			at(base() + haCheckAt)
			o, ok := sc.checkpoint()
			if !ok {
				return "hang"
			}
			obs = append(obs, o)
			seg++
			inWindow = false
			continue
		case "st", "rs":
			i := arg(t, 1)
			if i < 0 || i >= hdr.n {
				return "bad-token " + t
			}
			jt := hdr.jt[i]
			if kind == "rs" {
				p := strings.Split(t, ":")
				if len(p) != 3 {
					return "bad-token " + t
				}
				jt, _ = strconv.ParseInt(p[2], 10, 64)
			}
			inWindow = true
			at(base() + time.Duration(hdr.off[i])*100*time.Millisecond)
			began := time.Now()
			if err := sc.startInstance(i, jt); err != nil {
				return "start-failed " + strings.ReplaceAll(err.Error(), "\t", " ")
			}
			if d := time.Since(began); d > sc.slowest {
				sc.slowest = d
			}
			continue
		case "hb", "hbf", "hbp", "hbr", "mon":
			inWindow = true
			continue
		case "obs", "ld", "lose", "rel":
			continue // what the real code does in consequence
		case "w":
			time.Sleep(time.Duration(arg(t, 1)) * time.Millisecond) // replays only: let the real code run on for a while
			continue
		case "+":
			seg++ // the step goes on for another period, no checkpoint
			inWindow = false
			continue
		case "acq":
			// the designated candidate may take the lease from now on
			if !inWindow && seg >= 1 {
				at(time.Duration(seg-1)*haPeriod + haEventAt)
			}
			sc.store.mu.Lock()
			sc.store.permit = arg(t, 1)
			sc.store.mu.Unlock()
			continue
		}
		// environment events of the event slot
		if inWindow {
			return "bad-token-position " + t
		}
		if seg >= 1 {
			at(time.Duration(seg-1)*haPeriod + haEventAt)
		}
		a, b := arg(t, 1), arg(t, 2)
		if a < 0 || a >= hdr.n || sc.cur[a] == nil {
			return "bad-token " + t
		}
		switch kind {
		case "k":
			sc.killInstance(a)
		case "cut":
			sc.proxy.cut(a, b)
		case "blk":
			sc.proxy.mu.Lock()
			sc.proxy.blocked[haPair(a, b)] = true
			sc.proxy.mu.Unlock()
			sc.proxy.cut(a, b)
		case "ubl":
			sc.proxy.mu.Lock()
			delete(sc.proxy.blocked, haPair(a, b))
			sc.proxy.mu.Unlock()
		case "dn":
			sc.cur[a].apiDown.Store(true)
		case "up":
			sc.cur[a].apiDown.Store(false)
		case "rsg":
			sc.cur[a].cancel()
		default:
			return "bad-token " + t
		}
	}
	lag.stop.Store(true)
	m := time.Duration(lag.max.Load())
	if sc.slowest > m {
		m = sc.slowest
	}
	if m > haLagLimit {
		return fmt.Sprintf("disturbed %dms", m.Milliseconds())
	}
	return strings.Join(obs, " | ") + fmt.Sprintf("\nlag=%d", m.Milliseconds())
}

func haSplitOp(op string) (*haScript, []string, error) {
	f := strings.Fields(op)
	if len(f) < 3 || f[0] != "ha-run" {
		return nil, nil, fmt.Errorf("not an ha-run line")
	}
	hdr, err := haParseHeader(f[1])
	if err != nil {
		return nil, nil, err
	}
	return hdr, f[2:], nil
}

func haChildMain() {
	l := logrus.New()
	l.SetLevel(logrus.PanicLevel)
	l.SetOutput(io.Discard)
	logger.Log = &logger.Loggers{Logrus: l}
	fs := flag.NewFlagSet("klog", flag.ContinueOnError)
	klog.InitFlags(fs)
	_ = fs.Set("logtostderr", "false")
	_ = fs.Set("alsologtostderr", "false")
	_ = fs.Set("stderrthreshold", "FATAL")
	klog.SetOutput(io.Discard)
	out := bufio.NewWriter(os.Stdout)
	defer out.Flush()
	hdr, toks, err := haSplitOp(os.Getenv("VERIF_HA_OP"))
	if err != nil {
		fmt.Fprintln(out, "bad-op")
		return
	}
	if err := haLoopbackUp(); err != nil {
		fmt.Fprintln(out, "netns-failed "+err.Error())
		return
	}
	fmt.Fprintln(out, haRunTokens(hdr, toks))
}

// ------------------------------------------------------------------------------------------------ parent

func haDuration(toks []string) time.Duration {
	n := 0
	for _, t := range toks {
		if t == "?" || t == "+" {
			n++
		}
	}
	return time.Duration(n-1)*haPeriod + haCheckAt
}

// one scenario = one child process in a fresh network namespace
var haMaxLag atomic.Int64 // ms, over the scenarios that counted

func haRunChild(op string) string {
	_, toks, err := haSplitOp(op)
	if err != nil {
		return "bad-op"
	}
	for attempt := 0; ; attempt++ {
		cmd := exec.Command(os.Args[0])
		cmd.Env = append(os.Environ(), "VERIF_CHILD=c10ha", "VERIF_HA_OP="+op)
		cmd.SysProcAttr = &syscall.SysProcAttr{Cloneflags: syscall.CLONE_NEWNET}
		var so, se bytes.Buffer
		cmd.Stdout, cmd.Stderr = &so, &se
		if err := cmd.Start(); err != nil {
			return "child-failed " + strings.ReplaceAll(err.Error(), "\t", " ")
		}
		done := make(chan error, 1)
		go func() { done <- cmd.Wait() }()
		var res string
		select {
		case err := <-done:
			res = strings.TrimSpace(so.String())
			if p := strings.SplitN(res, "\nlag=", 2); len(p) == 2 {
				res = p[0]
				if v, e := strconv.ParseInt(strings.TrimSpace(p[1]), 10, 64); e == nil && v > haMaxLag.Load() {
					haMaxLag.Store(v)
				}
			}
			if err != nil || res == "" {
				// the real code panicked in one of its own goroutines: the process is gone
				res = "panic"
				if os.Getenv("VERIF_HA_DEBUG") != "" {
					fmt.Fprintln(os.Stderr, se.String())
				}
			}
		case <-time.After(haDuration(toks) + 40*time.Second):
			cmd.Process.Kill()
			<-done
			res = "hang"
			if attempt+1 < haMaxRetries {
				if os.Getenv("VERIF_HA_DEBUG") != "" {
					fmt.Fprintf(os.Stderr, "c10ha attempt %d: child timed out | %s\n", attempt, strings.Fields(op)[1])
				}
				continue // only a hang that persists counts
			}
		}
		if os.Getenv("VERIF_HA_DEBUG") != "" {
			fmt.Fprintf(os.Stderr, "c10ha attempt %d: %.60s | %s\n", attempt, res, strings.Fields(op)[1])
		}
		if strings.HasPrefix(res, "disturbed") && attempt+1 < haMaxRetries {
			continue
		}
		return res
	}
}

func haReplay(path string) (ops []string) {
	b, err := os.ReadFile(path)
	if err != nil {
		panic(err)
	}
	for _, ln := range strings.Split(string(b), "\n") {
		ln = strings.TrimSpace(strings.SplitN(ln, "\t", 2)[0])
		switch {
		case strings.HasPrefix(ln, "ha-run "):
			ops = append(ops, ln)
		case strings.HasPrefix(ln, "ha-script "):
			s, err := haParseScript(strings.TrimPrefix(ln, "ha-script "))
			if err != nil {
				panic(err)
			}
			op, err := haOpLine(s)
			if err != nil {
				panic(err)
			}
			ops = append(ops, op)
		}
	}
	return
}

func haJts(c *Ctx, n int, ties bool) []int64 {
	var jts []int64
	used := map[int64]bool{}
	for i := 0; i < n; i++ {
		var jt int64
		for {
			jt = int64(c.R.Intn(60)) + 1
			if c.R.Chance(10) {
				jt = 1700000000000000000 + int64(c.R.Intn(1000))
			}
			if ties && i > 0 && c.R.Chance(50) {
				jt = jts[c.R.Intn(i)]
				break
			}
			if !used[jt] {
				break
			}
		}
		used[jt] = true
		jts = append(jts, jt)
	}
	return jts
}

// offsets (heartbeat phases, 100 ms): the instances that lead at some time get their own phase, everybody else shares one.
// layout A: followers 0, leaders 8, 14 (a restarted follower registers BEFORE the leader's heartbeat body);
// layout B: first leader 0, followers 7, second leader 14 (the followers' heartbeat bodies run AFTER a restarted leader
// listens again and before its monitor body)
func haOffsets(n int, leaders []int, layoutB bool) []int {
	off := make([]int, n)
	seen := map[int]bool{}
	k := 0
	for _, l := range leaders {
		if l >= 0 && l < n && !seen[l] && k < 2 {
			seen[l] = true
			if layoutB {
				off[l] = 14 * k
			} else {
				off[l] = 8 + 6*k
			}
			k++
		}
	}
	if layoutB {
		for i := range off {
			if !seen[i] {
				off[i] = 7
			}
		}
	}
	return off
}

func runC10Ha(c *Ctx) {
	var ops []string
	tags := map[string][]string{}
	add := func(s *haScript, tg ...string) {
		op, err := haOpLine(s)
		if err != nil {
			panic(fmt.Sprintf("c10ha generator: %v in %s", err, s))
		}
		ops = append(ops, op)
		tags[op] = append(tg, fmt.Sprintf("instances=%d", s.n), fmt.Sprintf("steps=%d", len(s.steps)-1))
	}
	layoutB := false
	mk := func(n int, ties bool, leaders []int, ld int, steps ...string) *haScript {
		s := &haScript{n: n, jt: haJts(c, n, ties), off: haOffsets(n, leaders, layoutB), ld: ld, l0: leaders[0], steps: [][]string{nil}}
		for _, st := range steps {
			if st == "-" {
				s.steps = append(s.steps, nil)
			} else {
				s.steps = append(s.steps, strings.Split(st, ","))
			}
		}
		return s
	}
	newJt := func() string { return fmt.Sprint(100 + c.R.Intn(50)) }
	// every group size, quiet
	for n := 1; n <= 5; n++ {
		add(mk(n, n >= 3 && n%2 == 1, []int{c.R.Intn(n)}, 6, "-"), "quiet")
	}
	add(mk(3, false, []int{0}, 0, "-"), "quiet", "no-label-delay")
	// a follower dies; later another one
	add(mk(3, false, []int{0}, 6, "k2"), "kill-follower")
	add(mk(5, true, []int{1}, 6, "k3", "k0,k4"), "kill-follower", "ties")
	// the leader dies, designated successor; then the successor dies
	// (the followers' next heartbeat bodies find it dead and drop it - as with the default timings, where the lease
	// outlives a heartbeat period - then the election is released)
	add(mk(2, false, []int{0, 1}, 6, "k0"), "kill-leader")
	add(mk(4, false, []int{2, 0}, 6, "k2,n0", "k3"), "kill-leader")
	add(mk(5, true, []int{0, 3, 1}, 6, "k0,n3", "k3,n1"), "kill-leader", "ties", "two-hand-overs")
	add(mk(3, false, []int{1, 2}, 0, "k1,n2"), "kill-leader", "no-label-delay")
	// a follower dies and comes back under the same name (new join time) before the leader's next heartbeat round
	add(mk(3, false, []int{0}, 6, "k1,r1:"+newJt()), "restart-follower")
	add(mk(4, false, []int{3}, 6, "k0,k2,r2:"+newJt(), "r0:"+newJt()), "restart-follower")
	add(mk(2, false, []int{1}, 6, "k0", "r0:"+newJt()), "restart-follower", "late-restart")
	// connections between a follower and the leader are lost: the follower re-registers at its next heartbeat
	add(mk(2, false, []int{0}, 6, "c1"), "cut")
	add(mk(4, false, []int{1}, 6, "c3", "c0,c2"), "cut")
	// a follower is cut off from the leader for one or two periods (every connection lost, no new one possible): the leader
	// drops it, its own heartbeat bodies keep trying (finding F17, fixed by 39ec43d); numbered again one period after the heal
	add(mk(3, false, []int{0}, 6, "b2", "u2"), "partition")
	add(mk(4, true, []int{1}, 6, "b0", "-", "u0", "-"), "partition", "two-periods", "ties")
	add(mk(4, false, []int{2}, 6, "b1,b3", "u1", "u3"), "partition")
	add(mk(3, false, []int{0}, 0, "b1,k2", "u1"), "partition", "kill-follower")
	// the leader restarts under the SAME identity (same join time) within the lease: followers re-register after a failed ping
	layoutB = true
	add(mk(3, false, []int{0}, 6, "k0,r0", "-"), "restart-leader-same-identity")
	add(mk(2, false, []int{1}, 6, "k1,r1", "-"), "restart-leader-same-identity")
	// the leader dies and restarts (new join time) while the election is held back: followers re-register at the new,
	// not leading process; then another instance is elected and the restarted one has to drop them again
	add(mk(3, false, []int{0, 1}, 6, "k0,r0:"+newJt()+",h", "n1"), "bounce")
	add(mk(4, true, []int{0, 2}, 6, "k0,r0:"+newJt()+",h", "n2", "-"), "bounce", "ties")
	// the restarted old leader is elected again: the followers that registered before its promotion stay
	add(mk(3, false, []int{0}, 6, "k0,r0:"+newJt()+",h", "n0"), "bounce", "re-elected")
	layoutB = false
	// random mixes
	for k := 0; k < c.N(8, 90); k++ {
		n := 2 + c.R.Intn(4)
		leaders := []int{c.R.Intn(n)}
		alive := make([]bool, n)
		for i := range alive {
			alive[i] = true
		}
		cur := leaders[0]
		var steps []string
		var tg []string
		nsteps := 1 + c.R.Intn(c.N(3, 4))
		for st := 0; st < nsteps; st++ {
			var live, dead []int
			for i := 0; i < n; i++ {
				if alive[i] && i != cur {
					live = append(live, i)
				} else if !alive[i] {
					dead = append(dead, i)
				}
			}
			switch r := c.R.Intn(7); {
			case r == 6 && len(live) > 0: // transient partition of a follower, one or two periods
				v := live[c.R.Intn(len(live))]
				steps = append(steps, fmt.Sprintf("b%d", v))
				if c.R.Chance(40) {
					steps = append(steps, "-")
					st++
				}
				steps = append(steps, fmt.Sprintf("u%d", v))
				st++
				tg = append(tg, "partition")
			case r == 0:
				steps = append(steps, "-")
			case r == 1 && len(live) > 0: // kill a follower
				v := live[c.R.Intn(len(live))]
				alive[v] = false
				steps = append(steps, fmt.Sprintf("k%d", v))
				tg = append(tg, "kill-follower")
			case r == 2 && len(live) > 0 && len(leaders) < 3: // kill the leader
				nx := live[c.R.Intn(len(live))]
				alive[cur] = false
				steps = append(steps, fmt.Sprintf("k%d,n%d", cur, nx))
				st++ // takes two periods
				leaders = append(leaders, nx)
				cur = nx
				tg = append(tg, "kill-leader")
			case r == 3 && len(dead) > 0: // a dead instance comes back
				v := dead[c.R.Intn(len(dead))]
				alive[v] = true
				steps = append(steps, fmt.Sprintf("r%d:%s", v, newJt()))
				tg = append(tg, "late-restart")
			case r == 4 && len(live) > 0: // kill + restart in one step
				v := live[c.R.Intn(len(live))]
				steps = append(steps, fmt.Sprintf("k%d,r%d:%s", v, v, newJt()))
				tg = append(tg, "restart-follower")
			case r == 5 && len(live) > 0:
				v := live[c.R.Intn(len(live))]
				steps = append(steps, fmt.Sprintf("c%d", v))
				tg = append(tg, "cut")
			default:
				steps = append(steps, "-")
			}
		}
		s := mk(n, c.R.Chance(30), leaders, []int{6, 6, 0}[c.R.Intn(3)], steps...)
		// a restarted / cut instance must not share the heartbeat phase of the leader it registers with
		if haPhaseClash(s) {
			k--
			continue
		}
		add(s, append(tg, "random")...)
	}
	if replayFile != "" {
		ops = haReplay(replayFile)
	}
	res := make([]string, len(ops))
	sem := make(chan struct{}, 48)
	var wg sync.WaitGroup
	for i := range ops {
		wg.Add(1)
		go func(i int) {
			defer wg.Done()
			sem <- struct{}{}
			res[i] = haRunChild(ops[i])
			<-sem
		}(i)
	}
	wg.Wait()
	skipped := 0
	for i, op := range ops {
		if strings.HasPrefix(res[i], "disturbed") {
			skipped++ // the machine starved the scenario three times: no observation is better than a wrong one
			continue
		}
		c.E.Line(op, res[i])
		n := 0
		if h, _, err := haSplitOp(op); err == nil {
			n = h.n
		}
		c.E.EndCase(n >= 2, tags[op]...)
	}
	c.Extra["scenarios_skipped_starved"] = skipped
	c.Extra["max_scheduler_lag_ms"] = haMaxLag.Load()
	c.Extra["period_s"] = 5
}

// does the script put two bodies that do not commute closer together than the margins allow?
func haPhaseClash(s *haScript) bool {
	_, clash, err := haCompileX(s)
	return err != nil || clash
}
