package main

// C16 through the real HTTP API: `api.NewAPI` (api/api.go) over the real stream of the L1 session harness, listening on a
// free loopback port; the session ops `api-offsets`, `api-metrics`, `api-status`, `api-rebalance LO HI`, `api-info M T`,
// `api-info-bad`, `ping-fail 0|1` go through real HTTP requests against it.
//
// Life time: one API object per stream object (as in dcp.Start: both are created once per process). It is created at the
// first api-* op after a stream object came into being and torn down (UnregisterMetricCollectors + Shutdown) when the
// stream object is replaced (`open`, `crash`) or the case ends. `api.NewAPI` registers on prometheus.DefaultRegisterer and
// the fiber middleware MustRegisters its http_* collectors there (a second NewAPI on the same registerer panics), so every
// API object gets a fresh registry installed as prometheus.DefaultRegisterer / DefaultGatherer while it is built; these two
// exported variables of the prometheus client are the only thing swapped, go-dcp is untouched.

import (
	"bytes"
	"encoding/json"
	"errors"
	"fmt"
	"io"
	"net"
	"net/http"
	"os"
	"sort"
	"strconv"
	"strings"
	"sync"
	"time"

	"github.com/Trendyol/go-dcp/api"
	"github.com/Trendyol/go-dcp/couchbase"
	"github.com/Trendyol/go-dcp/helpers"
	"github.com/Trendyol/go-dcp/membership"
	"github.com/Trendyol/go-dcp/metric"
	"github.com/Trendyol/go-dcp/models"
	"github.com/Trendyol/go-dcp/stream"
	"github.com/Trendyol/go-dcp/stream/offset"
	"github.com/asaskevich/EventBus"
	"github.com/couchbase/gocbcore/v10"
	"github.com/prometheus/client_golang/prometheus"
	dto "github.com/prometheus/client_model/go"
	"github.com/prometheus/common/expfmt"
)

const apiMetricPath = "/metrics"

type apiEnv struct {
	a    api.API
	st   stream.Stream // the stream object this API serves
	base string
	nBad int
}

// what the session env needs from a vBucket discovery: the fake of l1_env.go, or the real one (group mode)
type sessDisc interface {
	stream.VBucketDiscovery
	set(lo, hi int)
}

// the REAL stream.NewVBucketDiscovery: its range follows from the membership info, not from the op's LO HI
type realDisc struct{ stream.VBucketDiscovery }

func (realDisc) set(int, int) {}

// the bus the API publishes on (one per case), with a recorder; in group mode (`cfg … grp=M/T nvb=N`) the real vBucket
// discovery over the real dynamic membership listens on it
type apiBus struct {
	bus  EventBus.Bus
	mu   sync.Mutex
	pubs []string // MembershipChanged events seen on the bus
	nvb  int      // > 0: group mode
}

func (e *sessEnv) busUp() *apiBus {
	if e.ab == nil {
		ab := &apiBus{bus: EventBus.New()}
		if err := ab.bus.Subscribe(helpers.MembershipChangedBusEventName, func(m *membership.Model) {
			ab.mu.Lock()
			ab.pubs = append(ab.pubs, fmt.Sprintf("%d/%d", m.MemberNumber, m.TotalMembers))
			ab.mu.Unlock()
		}); err != nil {
			panic(err)
		}
		e.ab = ab
	}
	return e.ab
}

// first and last vBucket of member M of T over nvb vBuckets, by the real helpers.ChunkSlice
func chunkRange(nvb, t, m int) (int, int) {
	vbs := make([]uint16, nvb)
	for i := range vbs {
		vbs[i] = uint16(i)
	}
	c := helpers.ChunkSlice[uint16](vbs, t)[m-1]
	return int(c[0]), int(c[len(c)-1])
}

// `cfg … grp=M/T nvb=N` (stream sess-api): the session runs over the REAL stream.NewVBucketDiscovery with the dynamic
// membership; the initial info is put on the bus before any Open (GetInfo blocks until the first info has arrived)
func (e *sessEnv) apiCfg(kv map[string]string) string {
	g, ok := kv["grp"]
	if !ok {
		return "ok"
	}
	p := strings.SplitN(g, "/", 2)
	nvb, err0 := strconv.Atoi(kv["nvb"])
	if len(p) != 2 || err0 != nil {
		return "bad-op"
	}
	m, err1 := strconv.Atoi(p[0])
	t, err2 := strconv.Atoi(p[1])
	if err1 != nil || err2 != nil || m < 1 || m > t || t > nvb {
		return "bad-op"
	}
	ab := e.busUp()
	ab.nvb = nvb
	e.cl.nvb = nvb
	e.cfg.Dcp.Group.Membership.Type = membership.DynamicMembershipType
	e.disc = realDisc{stream.NewVBucketDiscovery(e.cl, e.cfg, nvb, ab.bus)}
	ab.bus.Publish(helpers.MembershipChangedBusEventName, &membership.Model{MemberNumber: m, TotalMembers: t})
	ab.bus.WaitAsync() // the membership listens asynchronously
	ab.mu.Lock()
	ab.pubs = nil
	ab.mu.Unlock()
	e.lo, e.hi = chunkRange(nvb, t, m)
	return "ok"
}

var apiHTTP = &http.Client{Timeout: 5 * time.Second, Transport: &http.Transport{DisableKeepAlives: true}}

func freePort() (int, error) {
	l, err := net.Listen("tcp4", "127.0.0.1:0")
	if err != nil {
		return 0, err
	}
	p := l.Addr().(*net.TCPAddr).Port
	l.Close()
	return p, nil
}

// build the real API for the current stream object and wait until it accepts connections
func newAPIEnv(e *sessEnv) (*apiEnv, error) {
	var lastErr error
	for attempt := 0; attempt < 5; attempt++ {
		port, err := freePort()
		if err != nil {
			lastErr = err
			continue
		}
		cfg := *e.cfg // the API only reads Port, Debug, HealthCheck.Disabled, Metric.Path, Dcp.Group.Name
		cfg.API.Port = port
		cfg.Debug = true // routes /states/offset
		cfg.HealthCheck.Disabled = false
		cfg.Metric.Path = apiMetricPath
		ae := &apiEnv{st: e.st, base: fmt.Sprintf("http://127.0.0.1:%d", port)}
		ab := e.busUp()
		reg := prometheus.NewRegistry()
		oldR, oldG := prometheus.DefaultRegisterer, prometheus.DefaultGatherer
		prometheus.DefaultRegisterer, prometheus.DefaultGatherer = reg, reg
		ae.a = api.NewAPI(&cfg, e.cl, e.st, nil, []prometheus.Collector{metric.NewMetricCollector(e.cl, e.st, e.disc)}, ab.bus)
		prometheus.DefaultRegisterer, prometheus.DefaultGatherer = oldR, oldG
		stopped := make(chan struct{})
		go func() {
			defer close(stopped)
			ae.a.Listen() // blocks until Shutdown (returns at once when the port cannot be bound)
		}()
		up := false
		for i := 0; i < 2000 && !up; i++ {
			select {
			case <-stopped:
				i = 1 << 30
				continue
			default:
			}
			c, err := net.DialTimeout("tcp4", fmt.Sprintf("127.0.0.1:%d", port), 200*time.Millisecond)
			if err == nil {
				c.Close()
				up = true
			} else {
				time.Sleep(200 * time.Microsecond)
			}
		}
		if up {
			time.Sleep(200 * time.Microsecond)
			select {
			case <-stopped: // somebody else owns that port
				up = false
			default:
			}
		}
		if up {
			return ae, nil
		}
		ae.a.UnregisterMetricCollectors()
		lastErr = errors.New("api did not start listening")
	}
	return nil, lastErr
}

func (e *sessEnv) apiDown() {
	ae := e.api
	e.api = nil
	if ae == nil {
		return
	}
	ae.a.UnregisterMetricCollectors()
	// fiber's Shutdown waits for connections that are still being closed (polling every 100 ms): not on the op path
	go func() {
		defer func() { recover() }()
		ae.a.Shutdown()
	}()
}

// the API object of the current stream object
func (e *sessEnv) apiUp() (*apiEnv, error) {
	if e.api != nil && e.api.st != e.st {
		e.apiDown()
	}
	if e.api == nil {
		ae, err := newAPIEnv(e)
		if err != nil {
			return nil, err
		}
		e.api = ae
	}
	return e.api, nil
}

func (ae *apiEnv) do(method, path, ctype string, body []byte) (int, string, string, error) {
	req, err := http.NewRequest(method, ae.base+path, bytes.NewReader(body))
	if err != nil {
		return 0, "", "", err
	}
	req.Close = true
	if ctype != "" {
		req.Header.Set("Content-Type", ctype)
	}
	resp, err := apiHTTP.Do(req)
	if err != nil {
		return 0, "", "", err
	}
	defer resp.Body.Close()
	b, err := io.ReadAll(resp.Body)
	if err != nil {
		return 0, "", "", err
	}
	return resp.StatusCode, resp.Header.Get("Content-Type"), string(b), nil
}

// JSON shape of models.Offset (embedded *SnapshotMarker flattens; absent when nil)
type apiOffsetJSON struct {
	StartSeqNo  *uint64
	EndSeqNo    *uint64
	VbUUID      uint64
	SeqNo       uint64
	LatestSeqNo uint64
}

func (e *sessEnv) apiOffsets(ae *apiEnv) string {
	code, ctype, body, err := ae.do("GET", "/states/offset", "", nil)
	if err != nil {
		return "api-err transport"
	}
	if code == 200 && body == "offset could not get, stream is not open" {
		return "api-closed"
	}
	if code != 200 || !strings.HasPrefix(ctype, "application/json") {
		return fmt.Sprintf("api-err %d", code)
	}
	var raw map[string]json.RawMessage
	if err := json.Unmarshal([]byte(body), &raw); err != nil {
		return "api-err 200 unparsable"
	}
	type ent struct {
		vb int
		s  string
	}
	var ents []ent
	for k, v := range raw {
		vb, err := strconv.Atoi(k)
		if err != nil {
			return "api-err 200 unparsable"
		}
		if string(v) == "null" {
			ents = append(ents, ent{vb, fmtOff(nil)})
			continue
		}
		var o apiOffsetJSON
		dec := json.NewDecoder(bytes.NewReader(v))
		dec.DisallowUnknownFields()
		if err := dec.Decode(&o); err != nil {
			return "api-err 200 unparsable"
		}
		off := &models.Offset{VbUUID: gocbcore.VbUUID(o.VbUUID), SeqNo: o.SeqNo, LatestSeqNo: o.LatestSeqNo}
		if o.StartSeqNo != nil || o.EndSeqNo != nil {
			off.SnapshotMarker = &models.SnapshotMarker{}
			if o.StartSeqNo != nil {
				off.StartSeqNo = *o.StartSeqNo
			}
			if o.EndSeqNo != nil {
				off.EndSeqNo = *o.EndSeqNo
			}
		}
		ents = append(ents, ent{vb, fmtOff(off)})
	}
	sort.Slice(ents, func(i, j int) bool { return ents[i].vb < ents[j].vb })
	var sb []string
	for _, x := range ents {
		sb = append(sb, fmt.Sprintf("%d%s", x.vb, x.s))
	}
	return fmt.Sprintf("api-pos [%s]", strings.Join(sb, " "))
}

func (e *sessEnv) apiMetrics(ae *apiEnv) string {
	code, _, body, err := ae.do("GET", apiMetricPath, "", nil)
	if err != nil {
		return "api-err transport"
	}
	if code != 200 {
		return fmt.Sprintf("api-err %d", code)
	}
	var p expfmt.TextParser
	byName, err := p.TextToMetricFamilies(strings.NewReader(body))
	if err != nil {
		return "api-err 200 unparsable"
	}
	var names []string
	for n := range byName {
		// families of the fiber middleware and of the Go / process collectors are not go-dcp's
		if strings.HasPrefix(n, "http_") || strings.HasPrefix(n, "go_") || strings.HasPrefix(n, "process_") || strings.HasPrefix(n, "promhttp_") {
			continue
		}
		names = append(names, n)
	}
	sort.Strings(names)
	fams := make([]*dto.MetricFamily, 0, len(names))
	for _, n := range names {
		fams = append(fams, byName[n])
	}
	out := renderFams(fams)
	if e.ab != nil && e.ab.nvb > 0 {
		out += grpSuffix(out, fams)
	}
	return out
}

// group mode: the private-registry `scrape` of l1_session.go with the group gauges appended
func (e *sessEnv) scrapeGrp() string {
	reg := prometheus.NewRegistry()
	if err := reg.Register(metric.NewMetricCollector(e.cl, e.st, e.disc)); err != nil {
		return "scrape register-error"
	}
	fams, err := reg.Gather()
	if err != nil {
		return "scrape gather-error"
	}
	out := renderFams(fams)
	return out + grpSuffix(out, fams)
}

// ` grp=<memberNumber>/<totalMembers> range=<start>-<end> vbcount=<n> active=<activeStreams> reb=<rebalanceCount>` as exposed
func grpSuffix(rendered string, fams []*dto.MetricFamily) string {
	if !strings.HasPrefix(rendered, "scrape [") {
		return "" // closed: the collector emitted nothing
	}
	v := map[string]string{}
	for _, f := range fams {
		for _, m := range f.GetMetric() {
			if len(m.GetLabel()) > 0 {
				continue
			}
			x := m.GetGauge().GetValue()
			if m.GetCounter() != nil {
				x = m.GetCounter().GetValue()
			}
			v[f.GetName()] = strconv.FormatFloat(x, 'f', -1, 64)
		}
	}
	g := func(n string) string {
		if s, ok := v[n]; ok {
			return s
		}
		return "?"
	}
	return fmt.Sprintf(" grp=%s/%s range=%s-%s vbcount=%s active=%s reb=%s", g("cbgo_member_number_current"), g("cbgo_total_members_current"),
		g("cbgo_vbucket_range_start_current"), g("cbgo_vbucket_range_end_current"), g("cbgo_vbucket_count_current"),
		g("cbgo_active_stream_current"), g("cbgo_rebalance_current"))
}

func (e *sessEnv) apiStatus(ae *apiEnv) string {
	code, _, body, err := ae.do("GET", "/status", "", nil)
	if err != nil {
		return "err transport"
	}
	if code == 200 && body == "OK" {
		return "OK"
	}
	return fmt.Sprintf("err %d", code)
}

// `rebalance LO HI` triggered through GET /rebalance instead of a direct stream.Rebalance() (ae == nil: the direct call,
// used in group mode where the range comes from the real discovery and not from LO HI)
func (e *sessEnv) apiRebalance(ae *apiEnv, lo, hi int) string {
	oldLo, oldHi := e.lo, e.hi
	e.lo, e.hi = lo, hi
	e.disc.set(lo, hi)
	done := make(chan struct{}, 1)
	e.eh.mu.Lock()
	e.eh.hook = func(s string) {
		if s == "ARS" && e.ab != nil && e.ab.nvb > 0 {
			// dynamic membership re-opens without delay (time.AfterFunc(0, …)): yield after Close(false) so that the wait()
			// goroutine of the closed session takes its token while `balancing` is still set – the WaitPrompt assumption
			// of the life-cycle model, as fakeEH.AfterStreamStop does for the delayed re-open (keeps finding F16 out)
			time.Sleep(2 * time.Millisecond)
		}
		if s == "ARE" {
			select {
			case done <- struct{}{}:
			default:
			}
		}
	}
	e.eh.mu.Unlock()
	unhook := func() {
		e.eh.mu.Lock()
		e.eh.hook = nil
		e.eh.mu.Unlock()
	}
	e.cl.mu.Lock()
	oldObs := e.cl.obs
	e.cl.obs = map[uint16]couchbase.Observer{}
	e.cl.mu.Unlock()
	e.cfg.Dcp.Group.Membership.RebalanceDelay = time.Millisecond
	code, body, err := 200, "OK", error(nil)
	if ae != nil {
		code, _, body, err = ae.do("GET", "/rebalance", "", nil)
	} else {
		e.st.Rebalance()
	}
	if err != nil || code != 200 || body == "rebalance skipped, stream is not open" {
		// nothing was triggered: the assignment stays what it was
		unhook()
		e.lo, e.hi = oldLo, oldHi
		e.disc.set(oldLo, oldHi)
		e.cl.mu.Lock()
		e.cl.obs = oldObs
		e.cl.mu.Unlock()
		switch {
		case err != nil:
			return "api-err transport"
		case code != 200:
			return fmt.Sprintf("api-err %d", code)
		}
		if l := e.buf.drain(); len(l) > 0 {
			return "api-skipped ; " + joinObs(l)
		}
		return "api-skipped"
	}
	if body != "OK" {
		unhook()
		return "api-err 200 body"
	}
	if _, err := waitCh(done, "rebalance to finish"); err != nil {
		unhook()
		return "timeout:" + err.Error()
	}
	unhook()
	if e.ab != nil && e.ab.nvb > 0 {
		// group mode: the range in effect is what the real discovery recorded at the Open just done
		dm := e.disc.GetMetric()
		e.lo, e.hi = int(dm.VBucketRangeStart), int(dm.VBucketRangeEnd)
	}
	var vbs []uint16
	for v := e.lo; v <= e.hi; v++ {
		vbs = append(vbs, uint16(v))
	}
	e.hc = stream.NewCheckpoint(e.proxy, vbs, e.cl, e.md, e.cfg, offset.NewOffsetLatestSeqNoInit(e.cfg))
	return e.drainSorted("closereq", "openreq")
}

func (e *sessEnv) apiInfo(ae *apiEnv, ctype string, body []byte) string {
	ab := e.busUp()
	ab.mu.Lock()
	before := len(ab.pubs)
	ab.mu.Unlock()
	code, _, rb, err := ae.do("PUT", "/membership/info", ctype, body)
	if err != nil {
		return "err transport"
	}
	ab.bus.WaitAsync() // group mode: the dynamic membership takes the event in its own goroutine
	ab.mu.Lock()
	pubs := append([]string{}, ab.pubs[before:]...)
	ab.mu.Unlock()
	if ab.nvb > 0 && len(pubs) > 0 {
		// the next Open / rebalance will take the range of the newest info: the harness-owned checkpoint follows it
		var m, t int
		if n, _ := fmt.Sscanf(pubs[len(pubs)-1], "%d/%d", &m, &t); n == 2 && m >= 1 && m <= t && t <= ab.nvb {
			e.lo, e.hi = chunkRange(ab.nvb, t, m)
		}
	}
	if code != 200 {
		if len(pubs) > 0 {
			return fmt.Sprintf("%d published %s", code, strings.Join(pubs, ","))
		}
		return strconv.Itoa(code)
	}
	if rb != "OK" {
		return "err 200 body"
	}
	switch len(pubs) {
	case 0:
		return "deduped"
	case 1:
		return "published " + pubs[0]
	}
	return "published " + strings.Join(pubs, ",")
}

// executes an api op; ok=false: not an api op
func (e *sessEnv) execAPI(t []string) (string, bool) {
	switch t[0] {
	case "ping-fail":
		if len(t) != 2 {
			return "bad-op", true
		}
		e.cl.mu.Lock()
		if t[1] == "1" {
			e.cl.pingErr = func() error { return errors.New("injected ping failure") }
		} else {
			e.cl.pingErr = nil
		}
		e.cl.mu.Unlock()
		return "ok", true
	case "hold-next":
		return e.holdNext(), true
	case "release":
		return e.release(), true
	case "mu", "de", "ex":
		if h := e.hold; h != nil && h.state == holdArmed && !h.running {
			return e.deliverHeld(h, strings.Join(t, " ")), true
		}
		return "", false
	case "scrape":
		if e.ab != nil && e.ab.nvb > 0 && len(t) == 1 {
			return e.scrapeGrp(), true
		}
		return "", false
	case "rebalance":
		if e.ab != nil && e.ab.nvb > 0 && len(t) == 3 && e.st != nil {
			lo, err1 := strconv.Atoi(t[1])
			hi, err2 := strconv.Atoi(t[2])
			if err1 == nil && err2 == nil {
				return e.apiRebalance(nil, lo, hi), true
			}
		}
		return "", false
	case "api-offsets", "api-metrics", "api-status", "api-rebalance", "api-info", "api-info-bad":
	default:
		return "", false
	}
	if e.st == nil {
		return "bad:no stream object", true
	}
	ae, err := e.apiUp()
	if err != nil {
		return "api-unavailable:" + strings.ReplaceAll(err.Error(), "\t", " "), true
	}
	switch t[0] {
	case "api-offsets":
		return e.apiOffsets(ae), true
	case "api-metrics":
		return e.apiMetrics(ae), true
	case "api-status":
		return e.apiStatus(ae), true
	case "api-rebalance":
		if len(t) != 3 {
			return "bad-op", true
		}
		lo, err1 := strconv.Atoi(t[1])
		hi, err2 := strconv.Atoi(t[2])
		if err1 != nil || err2 != nil || lo > hi || lo < 0 {
			return "bad-op", true
		}
		return e.apiRebalance(ae, lo, hi), true
	case "api-info":
		if len(t) != 3 {
			return "bad-op", true
		}
		m, err1 := strconv.Atoi(t[1])
		n, err2 := strconv.Atoi(t[2])
		if err1 != nil || err2 != nil {
			return "bad-op", true
		}
		b, _ := json.Marshal(models.SetInfoRequest{MemberNumber: m, TotalMembers: n})
		return e.apiInfo(ae, "application/json", b), true
	case "api-info-bad":
		// three malformed requests in turn: truncated JSON, a string where a number belongs, no content type
		ae.nBad++
		switch ae.nBad % 3 {
		case 1:
			return e.apiInfo(ae, "application/json", []byte(`{"memberNumber":`)), true
		case 2:
			return e.apiInfo(ae, "application/json", []byte(`{"memberNumber":"x","totalMembers":2}`)), true
		}
		return e.apiInfo(ae, "", []byte(`{"memberNumber":1,"totalMembers":2}`)), true
	}
	return "bad-op", true
}

// the canonical text of the `scrape` op (l1_session.go scrape(), same rendering) from metric families
func renderFams(fams []*dto.MetricFamily) string {
	rows := map[int]map[string]float64{}
	var total float64
	seen := false
	for _, f := range fams {
		name := f.GetName()
		for _, m := range f.GetMetric() {
			val := m.GetGauge().GetValue()
			if m.GetCounter() != nil {
				val = m.GetCounter().GetValue()
			}
			vb := -1
			for _, l := range m.GetLabel() {
				if l.GetName() == "vbId" {
					vb, _ = strconv.Atoi(l.GetValue())
				}
			}
			if name == "cbgo_total_lag_current" {
				total = val
				seen = true
			}
			if vb >= 0 {
				if rows[vb] == nil {
					rows[vb] = map[string]float64{}
				}
				rows[vb][name] = val
			}
		}
	}
	if !seen && len(rows) == 0 {
		return "scrape closed"
	}
	f := func(x float64) string {
		if x < 9007199254740992 {
			return strconv.FormatUint(uint64(x), 10)
		}
		return "big"
	}
	var ks []int
	for vb := range rows {
		ks = append(ks, vb)
	}
	sort.Ints(ks)
	var sb []string
	for _, vb := range ks {
		r := rows[vb]
		sb = append(sb, fmt.Sprintf("%d:%s,%s,%s,%s,%s,%s,%s,%s", vb, f(r["cbgo_seq_no_current"]), f(r["cbgo_start_seq_no_current"]),
			f(r["cbgo_end_seq_no_current"]), f(r["cbgo_lag_current"]), f(r["cbgo_mutation_total"]), f(r["cbgo_deletion_total"]),
			f(r["cbgo_expiration_total"]), f(r["cbgo_persist_seq_no_current"])))
	}
	return fmt.Sprintf("scrape [%s] total=%s", strings.Join(sb, " "), f(total))
}

// replay of one op with a hang cap: the HTTP server's goroutines defeat the runtime's "all goroutines are asleep"
// detection, so a replay (e.g. a shrink candidate) that blocks would otherwise sit until the stream time-out. A blocked
// replay ends the process like that detection did.
func replayGuarded(e *sessEnv, line string) string {
	ch := make(chan string, 1)
	go func() { ch <- e.exec(line) }()
	select {
	case r := <-ch:
		return r
	case <-time.After(8 * time.Second):
		fmt.Fprintln(os.Stderr, "replay: op does not return: "+line)
		os.Exit(3)
		return "hang"
	}
}

// ---- one consumer call kept in flight (`hold-next` … delivery … `release`)
//
// `hold-next` arms the fake consumer: the NEXT ConsumeEvent call records its context and prints its `deliver` line at
// entry as always, but returns only at `release`. The delivery op that runs into it is executed on its own goroutine (as
// gocbcore's dispatcher goroutine would be stuck in the listener) and answers with the observation at entry. Everything
// else goes on meanwhile: stream.Close does not wait for listener calls in flight, so a whole rebalance can complete
// before the call returns. When a consumer call returns is not part of the model state.
const (
	holdArmed = 1
	holdInFlight = 2
)

type heldCall struct {
	state   int
	running bool          // the delivery op is being executed (re-entrance guard)
	entered chan struct{} // ConsumeEvent was entered
	rel     chan struct{} // closed by `release`
	done    chan string   // the delivery op's goroutine returned from the observer callback
}

func (e *sessEnv) holdNext() string {
	if e.hold != nil {
		return "bad:already holding"
	}
	h := &heldCall{state: holdArmed, entered: make(chan struct{}, 1), rel: make(chan struct{})}
	e.co.mu.Lock()
	e.co.hook = func(int, *models.ListenerContext) {
		e.co.mu.Lock()
		e.co.hook = nil // one call only
		e.co.mu.Unlock()
		h.entered <- struct{}{}
		<-h.rel
	}
	e.co.mu.Unlock()
	e.hold = h
	return "ok"
}

func (e *sessEnv) deliverHeld(h *heldCall, line string) string {
	h.running = true
	done := make(chan string, 1)
	go func() { done <- e.exec(line) }()
	select {
	case <-h.entered:
		h.state, h.done, h.running = holdInFlight, done, false
		return joinObs(e.buf.drain())
	case r := <-done:
		h.running = false // the event did not reach the consumer (absorbed / dropped): still armed
		return r
	case <-time.After(2 * time.Second):
		return "hang"
	}
}

func (e *sessEnv) release() string {
	h := e.hold
	if h == nil {
		return "bad:nothing held"
	}
	e.hold = nil
	if h.state == holdArmed {
		e.co.mu.Lock()
		e.co.hook = nil
		e.co.mu.Unlock()
		return "disarmed"
	}
	close(h.rel)
	select {
	case r := <-h.done:
		if r != "-" {
			return "released ; " + r // whatever the return of the call caused
		}
		return "released"
	case <-time.After(2 * time.Second):
		return "hang"
	}
}

func (e *sessEnv) releaseHeld() {
	if e.hold != nil {
		e.release()
		e.buf.drain()
	}
}
