// Stream c10cb, op mb-cb-slowread (properties C10 and C20, layer L2): the KV node
// answers the read of another LIVE member's instance document late, or never.
//
//	mb-cb-slowread N A K HOW          HOW = late:<percent of A's membership timeout> | silent
//
// N real couchbase.NewCBMembership instances on one simulated bucket converge to i+1/N.
// Members A and K run in CHILD PROCESSES (the child of l2_membership_pause.go) – a
// fail-stop of either (the library panics in a goroutine of monitor()) is an exit status;
// A's membership `timeout` is 800 ms.  From then on the node delays (late) or never
// answers (silent) every GET of K's instance document that arrives on a connection of A
// (request hook: opcode GET, key = K's document, connection owner = A); the index
// document, A's own document, everybody else's reads and K's heart-beats are served
// promptly.  K is alive and heart-beating throughout.
//
// Expected of the unchanged code:
//
//	late    the answer arrives inside the round's deadline and is simply used: after
//	        three such rounds every numbering and the index are what they were;
//	silent  the Get fails at the round's deadline with a time-out error and monitor()
//	        panics: A fail-stops (exit status 2, the time-out error on stderr), the index
//	        is untouched AT THAT MOMENT (K and A listed); the others drop A afterwards,
//	        because A no longer heart-beats.  K is never dropped.
//
// A read that is given a share of the budget and whose expiry is taken for "document
// gone" (seeded change C20-e2) rewrites the index without K and announces a smaller
// group: FAIL C10.live-member-dropped-on-slow-read C20.invented-not-found.
package main

import (
	"fmt"
	"os"
	"os/exec"
	"sort"
	"strings"
	"sync"
	"sync/atomic"
	"time"

	"github.com/asaskevich/EventBus"
	"github.com/couchbase/gocbcore/v10/memd"

	"verifharness/sim"
)

const cbsTimeout = 800 * time.Millisecond // A's membership timeout (the deadline of one monitor round)

var cbsRetries atomic.Int64

type cbsCase struct {
	n, a, k int
	how     string // late:<pct> | silent
}

func (c cbsCase) op() string { return fmt.Sprintf("mb-cb-slowread %d %d %d %s", c.n, c.a, c.k, c.how) }

func (c cbsCase) late() (pct int, ok bool) {
	if _, e := fmt.Sscanf(c.how, "late:%d", &pct); e == nil && pct >= 1 && pct <= 70 {
		return pct, true
	}
	return 0, false
}

func (c cbsCase) valid() bool {
	if c.n < 2 || c.n > 6 || c.a < 0 || c.a >= c.n || c.k < 0 || c.k >= c.n || c.a == c.k {
		return false
	}
	_, l := c.late()
	return l || c.how == "silent"
}

func cbsExitClass(ch *cbpChild) string {
	ch.mu.Lock()
	err := ch.err
	ch.mu.Unlock()
	se := ch.stderr.String()
	code := 0
	if err != nil {
		code = -1
		if ee, ok := err.(*exec.ExitError); ok {
			code = ee.ExitCode()
		}
	}
	switch {
	case code != 0 && strings.Contains(se, "panic: cant find self in cluster"):
		return "exit-fail:not-in-cluster"
	case code != 0 && strings.Contains(se, "panic:") && (strings.Contains(se, "timeout") || strings.Contains(se, "deadline exceeded")):
		return "exit-fail:read-timeout"
	case code != 0 && strings.Contains(se, "panic:"):
		return "exit-fail:other-panic"
	default:
		return fmt.Sprintf("exit:%d", code)
	}
}

func cbsRun(group string, cs cbsCase) (obs string, tags []string, unsettled bool) {
	if !cs.valid() {
		return "bad-scenario", nil, false
	}
	sc, err := newCbScenario(group)
	if err != nil {
		return "sim-error", nil, true
	}
	defer sc.close()
	var armed atomic.Bool
	var slowReads atomic.Int64
	var kKey atomic.Value
	kKey.Store("")
	delay := time.Duration(0)
	if pct, ok := cs.late(); ok {
		delay = cbsTimeout * time.Duration(pct) / 100
	}
	base := sc.hook
	sc.node.OnRequest(func(r sim.Request) sim.Action {
		act := base(r)
		if r.HTTP || r.Opcode != memd.CmdGet || !armed.Load() || act.Kind != sim.KindDefault || string(r.Key) != kKey.Load().(string) {
			return act
		}
		sc.mu.Lock()
		o, ok := sc.connOwner[r.Conn]
		sc.mu.Unlock()
		if !ok || o != cs.a {
			return act
		}
		slowReads.Add(1)
		if delay > 0 {
			return sim.Delay(delay)
		}
		return sim.Silent()
	})
	children := map[int]*cbpChild{}
	defer func() {
		for _, ch := range children {
			ch.kill()
		}
	}()
	for i := 0; i < cs.n; i++ {
		if i != cs.a && i != cs.k {
			if e := sc.join(); e != "" {
				return "setup-failed " + e, nil, true
			}
			continue
		}
		var env []string
		if i == cs.a {
			env = []string{"VERIF_C10P_TIMEOUT=" + cbsTimeout.String()}
		}
		sc.mu.Lock()
		sc.joining = i
		sc.mu.Unlock()
		ch, e := cbpStartChild(sc.node.HTTPAddr(), sc.cfg.BucketName, group, env...)
		if e == nil {
			children[i] = ch
		}
		ok := e == nil && ch.expect("connected", 20*time.Second) != ""
		sc.mu.Lock()
		sc.joining = -1
		sc.mu.Unlock()
		if !ok {
			return "setup-failed child-connect", nil, true
		}
		sc.insts = append(sc.insts, &cbInst{idx: i, bus: EventBus.New(), rec: &mbEvents{}, last: time.Now(), state: 2})
		sc.gate.Lock()
		ch.send("register")
		ok = ch.expect("registered", 15*time.Second) != ""
		sc.gate.Unlock()
		if !ok {
			return "setup-failed child-register", nil, true
		}
	}
	waitFor := func(d time.Duration, f func() bool) bool {
		dl := time.Now().Add(d)
		for !f() {
			if time.Now().After(dl) {
				return false
			}
			time.Sleep(10 * time.Millisecond)
		}
		return true
	}
	latest := func(i int) string {
		if ch, ok := children[i]; ok {
			return ch.latest()
		}
		return cbpLatest(sc.insts[i])
	}
	if !waitFor(10*time.Second, func() bool {
		for i := 0; i < cs.n; i++ {
			if latest(i) != fmt.Sprintf("%d/%d", i+1, cs.n) {
				return false
			}
		}
		return true
	}) {
		return "setup-failed no-convergence " + sc.infos(), nil, true
	}
	time.Sleep(4 * cbMonitor)
	for _, ch := range children {
		if ch.hasExited() {
			return "setup-failed child-died", nil, true
		}
	}
	keys := make([]string, cs.n)
	for i := range keys {
		if keys[i] = sc.instKey(i); keys[i] == "" {
			return "setup-failed no-key", nil, true
		}
	}
	kKey.Store(keys[cs.k])
	idxState := func() string {
		idx := cbjIndex(sc)
		in := func(key string) string {
			if _, ok := idx[key]; ok {
				return "in"
			}
			return "out"
		}
		return fmt.Sprintf("n=%d K=%s A=%s", len(idx), in(keys[cs.k]), in(keys[cs.a]))
	}
	lastEv := func() time.Time {
		t := sc.lastEvent()
		for _, ch := range children {
			ch.mu.Lock()
			if ch.lastEv.After(t) {
				t = ch.lastEv
			}
			ch.mu.Unlock()
		}
		return t
	}
	a := children[cs.a]
	// the slow reads
	armed.Store(true)
	atExit := ""
	if delay > 0 {
		// three rounds of A with a late answer each (fewer when A stops reading K's document: it ended, or K left the index)
		anyExit := func() bool {
			for _, ch := range children {
				if ch.hasExited() {
					return true
				}
			}
			return false
		}
		waitFor(3*(delay+4*cbMonitor)+2*time.Second, func() bool {
			return slowReads.Load() >= 3 || anyExit() || !strings.Contains(idxState(), "K=in")
		})
		if slowReads.Load() == 0 {
			return "setup-failed no-slow-read", nil, true
		}
		time.Sleep(delay + 3*cbMonitor)
		armed.Store(false)
	} else {
		// the round's deadline passes with the read unanswered
		if a.waitExit(cbsTimeout + 2500*time.Millisecond) {
			atExit = idxState()
		}
		if slowReads.Load() == 0 {
			return "setup-failed no-slow-read", nil, true
		}
	}
	tEnd := time.Now()
	tmin := 8 * cbMonitor
	if a.hasExited() {
		tmin = 2*cbHeartbeat + cbTolerance + 8*cbMonitor // the others notice that A no longer heart-beats
	}
	if !waitFor(10*time.Second, func() bool {
		now := time.Now()
		return now.Sub(tEnd) >= tmin && now.Sub(lastEv()) >= 6*cbMonitor
	}) {
		return "no-quiescence", nil, true
	}
	var infos, live []string
	for i := 0; i < cs.n; i++ {
		ch, isChild := children[i]
		if !isChild {
			sc.insts[i].bus.WaitAsync()
			s := cbInfo(sc.insts[i].m)
			infos = append(infos, s)
			live = append(live, s)
			continue
		}
		if !ch.hasExited() {
			ch.send("info")
			if ln := ch.expect("info ", 4*time.Second); ln != "" {
				s := strings.TrimPrefix(ln, "info ")
				infos = append(infos, s)
				live = append(live, s)
				continue
			}
			if !ch.waitExit(500 * time.Millisecond) {
				return "setup-failed child-mute", nil, true
			}
		}
		infos = append(infos, cbsExitClass(ch))
	}
	if strings.Contains(strings.Join(infos, " "), "blocked") {
		unsettled = true
	}
	if a.hasExited() {
		tags = append(tags, "a-failstop")
	} else {
		tags = append(tags, "a-alive")
	}
	if os.Getenv("VERIF_C10S_DEBUG") != "" && a.hasExited() {
		fmt.Fprintln(os.Stderr, "A stderr:", a.stderr.String()[:min(len(a.stderr.String()), 600)])
	}
	for _, ch := range children {
		if !ch.hasExited() {
			ch.send("quit")
		}
	}
	for _, ch := range children {
		ch.waitExit(2 * time.Second)
	}
	obs = fmt.Sprintf("members: %s | index: %s | %s", strings.Join(infos, " "), idxState(), cbpOwners(live))
	if atExit != "" {
		obs += " | at-exit: " + atExit
	}
	tags = append(tags, fmt.Sprintf("reads-slowed>=%d", min(int(slowReads.Load()), 3)))
	return obs, tags, unsettled
}

func cbsCases(c *Ctx) []cbsCase {
	cases := []cbsCase{
		{2, 0, 1, "late:40"}, // the shape of the demonstration: two members, the older one reads the younger one's document late
		{2, 1, 0, "silent"},
		{3, 0, 2, "silent"},
	}
	if c.Thorough() {
		cases = append(cases, cbsCase{3, 2, 0, "late:30"}, cbsCase{3, 1, 2, "late:60"}, cbsCase{4, 3, 1, "late:50"}, cbsCase{4, 0, 3, "silent"},
			cbsCase{2, 0, 1, "silent"}, cbsCase{2, 1, 0, "late:35"}, cbsCase{5, 2, 4, "silent"}, cbsCase{5, 4, 0, "late:45"})
	}
	for i := 0; i < c.N(1, 6); i++ {
		cs := cbsCase{n: c.R.Range(2, c.N(3, 5))}
		cs.a = c.R.Intn(cs.n)
		cs.k = (cs.a + 1 + c.R.Intn(cs.n-1)) % cs.n
		if c.R.Chance(60) {
			cs.how = fmt.Sprintf("late:%d", 30+5*c.R.Intn(7))
		} else {
			cs.how = "silent"
		}
		cases = append(cases, cs)
	}
	return cases
}

func cbsReplayOps(path string) (cases []cbsCase) {
	b, err := os.ReadFile(path)
	if err != nil {
		panic(err)
	}
	for _, ln := range strings.Split(string(b), "\n") {
		f := strings.Fields(strings.SplitN(ln, "\t", 2)[0])
		if len(f) != 5 || f[0] != "mb-cb-slowread" {
			continue
		}
		c := cbsCase{how: f[4]}
		if _, e := fmt.Sscanf(strings.Join(f[1:4], " "), "%d %d %d", &c.n, &c.a, &c.k); e == nil && c.valid() {
			cases = append(cases, c)
		}
	}
	return
}

type cbsResult struct {
	obs  string
	tags []string
}

func cbsRunAll(cases []cbsCase, sem chan struct{}, wg *sync.WaitGroup) []cbsResult {
	res := make([]cbsResult, len(cases))
	for i := range cases {
		wg.Add(1)
		go func(i int) {
			defer wg.Done()
			sem <- struct{}{}
			defer func() { <-sem }()
			o, t, u := cbsRun(fmt.Sprintf("s%d", i), cases[i])
			for a := 0; a < 2 && u; a++ {
				cbsRetries.Add(1)
				o, t, u = cbsRun(fmt.Sprintf("s%dr%d", i, a), cases[i])
			}
			res[i] = cbsResult{o, t}
		}(i)
	}
	return res
}

func cbsEmit(c *Ctx, cases []cbsCase, res []cbsResult) {
	for i, cs := range cases {
		c.E.Line(cs.op(), res[i].obs)
		tags := []string{"slowread", "slowread-" + strings.SplitN(cs.how, ":", 2)[0]}
		for _, t := range res[i].tags {
			tags = append(tags, "slowread-"+t)
		}
		sort.Strings(tags)
		c.E.EndCase(true, tags...)
	}
	c.Extra["slowread_retries"] = cbsRetries.Load()
	c.Extra["slowread_timeout"] = cbsTimeout.String()
}
