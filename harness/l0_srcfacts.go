// Stream srcfacts (layer L0, DESIGN.md §3.4): a go/parser + go/ast fact pass over
// $VERIF_REPO (default /repo), re-read on every run.  One line per fact:
//
//	src-fact <tags>.<name>   =>   <canonical value> | unknown
//
// <tags> = the properties the fact supports, joined by '+' (e.g. C12+C15.reopen.retries);
// bin/vcheck selects a property's lines with op_filter `^src-fact [C0-9+]*C12[+.]`.
//
// The Lean driver (lean/GoDcp/Driver/SrcFacts.lean, command `src-fact`) answers with
// the value the models use.  A construct this pass does not recognise yields
// `unknown`, which the Lean side echoes (a harmless rewrite never alarms); a
// recognised construct with another value is a divergence.
//
// Canonical rendering ("skeleton") of a function body: statements in source order,
// no white space, and
//
//	receiver            dropped            s.offsets.Store(..)      -> offsets.Store(..)
//	parameters          $0, $1, ..         by position
//	closure parameters  %0, %1, ..         (%%0 .. one closure deeper)
//	type-switch binding v
//	locals              the call that produced the value: <callee>#<result index>,
//	                    e.g. metadata.Load#1; locals produced otherwise: _
//	logger calls, declarations and assignments of locals that mention neither the
//	receiver nor a parameter are left out
//
// so renaming a local, a parameter or the receiver, or moving a statement the
// skeleton leaves out, does not change a value.
package main

import (
	"bufio"
	"go/ast"
	"go/parser"
	"go/token"
	"os"
	"path/filepath"
	"sort"
	"strconv"
	"strings"
)

func init() { props["srcfacts"] = runSrcFacts }

const sfUnknown = "unknown"

// ---------------------------------------------------------------- files

type sfFile struct {
	f    *ast.File
	pkgs map[string]bool // import names visible in the file
}

type sfRepo struct {
	root  string
	fset  *token.FileSet
	files map[string]*sfFile
}

func sfOpen() *sfRepo {
	root := os.Getenv("VERIF_REPO")
	if root == "" {
		root = "/repo"
	}
	return &sfRepo{root: root, fset: token.NewFileSet(), files: map[string]*sfFile{}}
}

func (r *sfRepo) file(rel string) *sfFile {
	if f, ok := r.files[rel]; ok {
		return f
	}
	af, err := parser.ParseFile(r.fset, filepath.Join(r.root, rel), nil, 0)
	if err != nil {
		r.files[rel] = nil
		return nil
	}
	sf := &sfFile{f: af, pkgs: map[string]bool{}}
	for _, im := range af.Imports {
		p, _ := strconv.Unquote(im.Path.Value)
		name := filepath.Base(p)
		if len(name) > 1 && name[0] == 'v' && strings.Trim(name[1:], "0123456789") == "" {
			name = filepath.Base(filepath.Dir(p)) // .../gocbcore/v10
		}
		name = strings.TrimPrefix(name, "go-")
		if im.Name != nil {
			name = im.Name.Name
		}
		sf.pkgs[name] = true
	}
	r.files[rel] = sf
	return sf
}

// fn finds `func (x *recv) name` (recv == "" : a plain function).
func (f *sfFile) fn(recv, name string) *ast.FuncDecl {
	if f == nil {
		return nil
	}
	var hit *ast.FuncDecl
	for _, d := range f.f.Decls {
		fd, ok := d.(*ast.FuncDecl)
		if !ok || fd.Name.Name != name || fd.Body == nil {
			continue
		}
		if recv == "" {
			if fd.Recv != nil {
				continue
			}
		} else {
			if fd.Recv == nil || len(fd.Recv.List) != 1 {
				continue
			}
			t := fd.Recv.List[0].Type
			if st, ok := t.(*ast.StarExpr); ok {
				t = st.X
			}
			if id, ok := t.(*ast.Ident); !ok || id.Name != recv {
				continue
			}
		}
		if hit != nil {
			return nil // ambiguous
		}
		hit = fd
	}
	return hit
}

// ---------------------------------------------------------------- canonical renderer

type sfEnv struct {
	file    *sfFile
	recv    string
	params  map[string]string
	locals  map[string]string
	depth   int  // closure depth
	loops   int  // for statements with a loop variable met so far
	touched bool // the expression rendered last mentioned the receiver, a parameter or a closure parameter
	blank   bool // the expression rendered last contained a local without a canonical name (`_`)
	bad     bool // a node outside the recognised subset was met
}

func sfNewEnv(file *sfFile, fd *ast.FuncDecl) *sfEnv {
	e := &sfEnv{file: file, params: map[string]string{}, locals: map[string]string{}}
	if fd.Recv != nil && len(fd.Recv.List) == 1 && len(fd.Recv.List[0].Names) == 1 {
		e.recv = fd.Recv.List[0].Names[0].Name
	}
	i := 0
	for _, fl := range fd.Type.Params.List {
		if len(fl.Names) == 0 {
			i++
			continue
		}
		for _, n := range fl.Names {
			e.params[n.Name] = "$" + strconv.Itoa(i)
			i++
		}
	}
	if fd.Type.Results != nil {
		for _, fl := range fd.Type.Results.List {
			for _, n := range fl.Names {
				e.locals[n.Name] = "_"
			}
		}
	}
	return e
}

func (e *sfEnv) ident(id *ast.Ident) string {
	n := id.Name
	if c, ok := e.locals[n]; ok {
		if strings.HasPrefix(c, "%") {
			e.touched = true
		}
		if c == "_" {
			e.blank = true
		}
		return c
	}
	if c, ok := e.params[n]; ok {
		e.touched = true
		return c
	}
	if n == e.recv && n != "" {
		e.touched = true
		return "s"
	}
	return n // package name, builtin, package-level identifier
}

func (e *sfEnv) exprs(xs []ast.Expr) string {
	out := make([]string, len(xs))
	for i, x := range xs {
		out[i] = e.expr(x)
	}
	return strings.Join(out, ",")
}

func (e *sfEnv) isLogger(x ast.Expr) bool {
	c, ok := x.(*ast.CallExpr)
	if !ok {
		return false
	}
	// schedule points of the verification hook (stream/zz_verif_points*.go): no-ops in a normal build
	if id, isID := c.Fun.(*ast.Ident); isID && id.Name == "verifPoint" && e.locals["verifPoint"] == "" && e.params["verifPoint"] == "" {
		return true
	}
	s1, ok := c.Fun.(*ast.SelectorExpr)
	if !ok {
		return false
	}
	s2, ok := s1.X.(*ast.SelectorExpr)
	if !ok {
		return false
	}
	id, ok := s2.X.(*ast.Ident)
	return ok && id.Name == "logger" && s2.Sel.Name == "Log" && e.locals["logger"] == "" && e.params["logger"] == ""
}

func (e *sfEnv) expr(x ast.Expr) string {
	switch v := x.(type) {
	case nil:
		return ""
	case *ast.Ident:
		return e.ident(v)
	case *ast.BasicLit:
		return v.Value
	case *ast.ParenExpr:
		return "(" + e.expr(v.X) + ")"
	case *ast.SelectorExpr:
		if id, ok := v.X.(*ast.Ident); ok && id.Name == e.recv && e.recv != "" && e.locals[id.Name] == "" {
			e.touched = true
			return v.Sel.Name
		}
		return e.expr(v.X) + "." + v.Sel.Name
	case *ast.CallExpr:
		return e.expr(v.Fun) + "(" + e.exprs(v.Args) + ")"
	case *ast.FuncLit:
		return e.funcLit(v)
	case *ast.UnaryExpr:
		return v.Op.String() + e.expr(v.X)
	case *ast.StarExpr:
		return "*" + e.expr(v.X)
	case *ast.BinaryExpr:
		return e.expr(v.X) + v.Op.String() + e.expr(v.Y)
	case *ast.IndexExpr:
		return e.expr(v.X) + "[" + e.expr(v.Index) + "]"
	case *ast.IndexListExpr:
		return e.expr(v.X) + "[" + e.exprs(v.Indices) + "]"
	case *ast.SliceExpr:
		return e.expr(v.X) + "[" + e.expr(v.Low) + ":" + e.expr(v.High) + "]"
	case *ast.TypeAssertExpr:
		return e.expr(v.X) + ".(" + e.expr(v.Type) + ")"
	case *ast.KeyValueExpr:
		k := ""
		if id, ok := v.Key.(*ast.Ident); ok {
			k = id.Name // struct field name (or a map key that is a plain identifier)
		} else {
			k = e.expr(v.Key)
		}
		return k + ":" + e.expr(v.Value)
	case *ast.CompositeLit:
		return e.expr(v.Type) + "{" + e.exprs(v.Elts) + "}"
	case *ast.ArrayType:
		return "[" + e.expr(v.Len) + "]" + e.expr(v.Elt)
	case *ast.MapType:
		return "map[" + e.expr(v.Key) + "]" + e.expr(v.Value)
	case *ast.ChanType:
		return "chan " + e.expr(v.Value)
	case *ast.StructType:
		if v.Fields == nil || len(v.Fields.List) == 0 {
			return "struct{}"
		}
	case *ast.InterfaceType:
		if v.Methods == nil || len(v.Methods.List) == 0 {
			return "interface{}"
		}
	}
	e.bad = true
	return "?"
}

func (e *sfEnv) funcLit(v *ast.FuncLit) string {
	saved := map[string]string{}
	for k, c := range e.locals {
		saved[k] = c
	}
	e.depth++
	i := 0
	for _, fl := range v.Type.Params.List {
		if len(fl.Names) == 0 {
			i++
			continue
		}
		for _, n := range fl.Names {
			e.locals[n.Name] = strings.Repeat("%", e.depth) + strconv.Itoa(i)
			i++
		}
	}
	body := e.block(v.Body.List)
	e.depth--
	e.locals = saved
	return "func{" + body + "}"
}

// locals named after a literal, an expression or a loop position keep that name when assigned
// again (the assignment itself is shown); locals named after a call take the name of the last call
func sfKeepsName(canon string) bool {
	return strings.HasPrefix(canon, "lit(") || strings.HasPrefix(canon, "(") || strings.HasPrefix(canon, "loop")
}

func sfIsLiteral(x ast.Expr) bool {
	switch v := x.(type) {
	case *ast.BasicLit:
		return true
	case *ast.Ident:
		return v.Name == "true" || v.Name == "false" || v.Name == "nil"
	case *ast.UnaryExpr:
		_, ok := v.X.(*ast.BasicLit)
		return ok && (v.Op == token.SUB || v.Op == token.ADD)
	}
	return false
}

// canonOf names the value of one right-hand side: `callee#i` for a call, `lit(v)` for a
// literal, the expression itself (in parentheses) when it is short and fully named, else `_`.
func (e *sfEnv) canonOf(r ast.Expr) func(i int) string {
	switch v := r.(type) {
	case *ast.CallExpr:
		callee := e.expr(v.Fun)
		return func(i int) string { return callee + "#" + strconv.Itoa(i) }
	case *ast.TypeAssertExpr:
		t := e.expr(v.Type)
		return func(i int) string { return "assert(" + t + ")#" + strconv.Itoa(i) }
	case *ast.UnaryExpr:
		if v.Op == token.ARROW {
			return func(i int) string { return "recv#" + strconv.Itoa(i) }
		}
	}
	if sfIsLiteral(r) {
		s := e.expr(r)
		return func(int) string { return "lit(" + s + ")" }
	}
	saveT, saveB := e.touched, e.blank
	e.blank = false
	s := e.expr(r)
	blank := e.blank
	e.touched, e.blank = saveT, saveB
	if blank || len(s) > 120 || strings.Contains(s, "?") {
		return func(int) string { return "_" }
	}
	return func(int) string { return "(" + s + ")" }
}

// define gives the locals on the left of `:=` / `=` their canonical names.
func (e *sfEnv) define(lhs []ast.Expr, rhs []ast.Expr, isDefine bool) {
	for i, l := range lhs {
		id, ok := l.(*ast.Ident)
		if !ok || id.Name == "_" {
			continue
		}
		old, isLocal := e.locals[id.Name]
		if !isDefine && !isLocal {
			continue
		}
		if _, isParam := e.params[id.Name]; isParam && !isLocal && !isDefine {
			continue
		}
		if !isDefine && sfKeepsName(old) {
			continue // a flag / counter / accumulator keeps the name of its initial value
		}
		switch {
		case len(rhs) == 1:
			e.locals[id.Name] = e.canonOf(rhs[0])(i)
		case len(rhs) == len(lhs):
			e.locals[id.Name] = e.canonOf(rhs[i])(0)
		default:
			e.locals[id.Name] = "_"
		}
	}
}

func (e *sfEnv) block(list []ast.Stmt) string {
	var out []string
	for _, s := range list {
		if t := e.stmt(s); t != "" {
			out = append(out, t)
		}
	}
	return strings.Join(out, ";")
}

// mentions renders x and reports whether it mentioned the receiver or a parameter.
func (e *sfEnv) mentions(x ast.Expr) (string, bool) {
	save := e.touched
	e.touched = false
	s := e.expr(x)
	t := e.touched
	e.touched = save || t
	return s, t
}

func (e *sfEnv) isLocalTarget(x ast.Expr) bool {
	switch v := x.(type) {
	case *ast.Ident:
		if v.Name == "_" {
			return true
		}
		_, ok := e.locals[v.Name]
		return ok
	case *ast.IndexExpr:
		return e.isLocalTarget(v.X)
	case *ast.SelectorExpr:
		if id, ok := v.X.(*ast.Ident); ok && id.Name == e.recv && e.locals[id.Name] == "" {
			return false
		}
		return e.isLocalTarget(v.X)
	case *ast.StarExpr:
		return e.isLocalTarget(v.X)
	}
	return false
}

func (e *sfEnv) stmt(s ast.Stmt) string {
	switch v := s.(type) {
	case nil:
		return ""
	case *ast.EmptyStmt:
		return ""
	case *ast.ExprStmt:
		if e.isLogger(v.X) {
			return ""
		}
		return e.expr(v.X)
	case *ast.DeclStmt:
		gd, ok := v.Decl.(*ast.GenDecl)
		if !ok || (gd.Tok != token.VAR && gd.Tok != token.CONST) {
			e.bad = true
			return "?"
		}
		for _, sp := range gd.Specs {
			vs, ok := sp.(*ast.ValueSpec)
			if !ok {
				e.bad = true
				return "?"
			}
			for i, n := range vs.Names {
				e.locals[n.Name] = "_"
				if len(vs.Values) == len(vs.Names) {
					e.locals[n.Name] = e.canonOf(vs.Values[i])(0)
				}
			}
		}
		return ""
	case *ast.AssignStmt:
		isDef := v.Tok == token.DEFINE
		rhs := make([]string, len(v.Rhs))
		any := false
		for i, r := range v.Rhs {
			var t bool
			rhs[i], t = e.mentions(r)
			any = any || t
		}
		// plain = every target is a bare local identifier (its canonical name stands for the value)
		plain, allLocal := true, true
		for _, l := range v.Lhs {
			id, isID := l.(*ast.Ident)
			if !isID {
				plain = false
			} else if !isDef && sfKeepsName(e.locals[id.Name]) {
				plain = false // assignment to a flag / counter / accumulator is shown
				any = true
			}
			if !isDef && !e.isLocalTarget(l) {
				allLocal = false
			}
		}
		var lhs []string
		if !(allLocal && plain) {
			for _, l := range v.Lhs {
				var t bool
				var ls string
				ls, t = e.mentions(l)
				lhs = append(lhs, ls)
				any = any || t
			}
		}
		if isDef || v.Tok == token.ASSIGN {
			e.define(v.Lhs, v.Rhs, isDef)
		}
		if allLocal && !any {
			return ""
		}
		if allLocal && plain {
			return strings.Join(rhs, ",")
		}
		return strings.Join(lhs, ",") + v.Tok.String() + strings.Join(rhs, ",")
	case *ast.IncDecStmt:
		if id, ok := v.X.(*ast.Ident); ok && sfKeepsName(e.locals[id.Name]) {
			return e.locals[id.Name] + v.Tok.String()
		}
		if e.isLocalTarget(v.X) {
			return ""
		}
		return e.expr(v.X) + v.Tok.String()
	case *ast.SendStmt:
		c, t1 := e.mentions(v.Chan)
		val, t2 := e.mentions(v.Value)
		if !t1 && !t2 && e.isLocalTarget(v.Chan) {
			return ""
		}
		return c + "<-" + val
	case *ast.GoStmt:
		return "go " + e.expr(v.Call)
	case *ast.DeferStmt:
		c, t := e.mentions(v.Call)
		if !t {
			return ""
		}
		return "defer " + c
	case *ast.ReturnStmt:
		if len(v.Results) == 0 {
			return "return"
		}
		return "return " + e.exprs(v.Results)
	case *ast.BranchStmt:
		if v.Label != nil || (v.Tok != token.BREAK && v.Tok != token.CONTINUE) {
			e.bad = true
			return "?"
		}
		return v.Tok.String()
	case *ast.BlockStmt:
		return e.block(v.List)
	case *ast.IfStmt:
		init := e.stmt(v.Init)
		cond, t := e.mentions(v.Cond)
		body := e.block(v.Body.List)
		els := ""
		hasElse := v.Else != nil
		if hasElse {
			els = e.stmt(v.Else)
			if _, isIf := v.Else.(*ast.IfStmt); !isIf {
				els = "{" + els + "}"
			}
		}
		_ = t
		if body == "" && (els == "" || els == "{}") && init == "" {
			return "" // no rendered effect in either branch
		}
		out := "if("
		if init != "" {
			out += init + ";"
		}
		out += cond + "){" + body + "}"
		if hasElse {
			out += "else" + els
		}
		return out
	case *ast.ForStmt:
		init := ""
		if as, ok := v.Init.(*ast.AssignStmt); ok && as.Tok == token.DEFINE && len(as.Lhs) == 1 && len(as.Rhs) == 1 {
			if id, ok := as.Lhs[0].(*ast.Ident); ok {
				// the loop variable is named by its position, not by its initial value
				init = e.expr(as.Rhs[0])
				name := "loop" + strconv.Itoa(e.loops)
				e.loops++
				e.locals[id.Name] = name
				init = name + ":=" + init
			}
		}
		if init == "" {
			init = e.stmt(v.Init)
		}
		cond := e.expr(v.Cond)
		post := e.stmt(v.Post)
		body := e.block(v.Body.List)
		if init == "" && post == "" {
			return "for(" + cond + "){" + body + "}"
		}
		return "for(" + init + ";" + cond + ";" + post + "){" + body + "}"
	case *ast.RangeStmt:
		x := e.expr(v.X)
		if v.Tok == token.DEFINE {
			for i, kv := range []ast.Expr{v.Key, v.Value} {
				if id, ok := kv.(*ast.Ident); ok && id.Name != "_" {
					e.locals[id.Name] = "range(" + x + ")#" + strconv.Itoa(i)
				}
			}
		}
		return "range(" + x + "){" + e.block(v.Body.List) + "}"
	case *ast.SwitchStmt:
		out := "switch("
		if v.Init != nil {
			out += e.stmt(v.Init) + ";"
		}
		out += e.expr(v.Tag) + "){"
		for _, c := range v.Body.List {
			cc := c.(*ast.CaseClause)
			if cc.List == nil {
				out += "default:{" + e.block(cc.Body) + "}"
			} else {
				out += "case " + e.exprs(cc.List) + ":{" + e.block(cc.Body) + "}"
			}
		}
		return out + "}"
	case *ast.SelectStmt:
		out := "select{"
		for _, c := range v.Body.List {
			cc := c.(*ast.CommClause)
			if cc.Comm == nil {
				out += "default:{" + e.block(cc.Body) + "}"
				continue
			}
			comm := ""
			switch cm := cc.Comm.(type) {
			case *ast.ExprStmt:
				comm = e.expr(cm.X)
			case *ast.AssignStmt:
				comm = e.exprs(cm.Rhs)
				e.define(cm.Lhs, cm.Rhs, cm.Tok == token.DEFINE)
			case *ast.SendStmt:
				comm = e.expr(cm.Chan) + "<-" + e.expr(cm.Value)
			}
			out += "case " + comm + ":{" + e.block(cc.Body) + "}"
		}
		return out + "}"
	}
	e.bad = true
	return "?"
}

func (e *sfEnv) result(s string) string {
	if e.bad || s == "" || strings.ContainsAny(s, "\t\n") {
		return sfUnknown
	}
	return s
}

// skeleton of a whole function
func sfSkeleton(file *sfFile, fd *ast.FuncDecl) string {
	if fd == nil {
		return sfUnknown
	}
	e := sfNewEnv(file, fd)
	return e.result(e.block(fd.Body.List))
}

// skeleton of the top-level statements [from, to) of a function (the ones before are
// walked so that locals get their names); to < 0 = to the end
func sfSkeletonRange(file *sfFile, fd *ast.FuncDecl, from, to int) string {
	if fd == nil || from < 0 || from > len(fd.Body.List) {
		return sfUnknown
	}
	if to < 0 || to > len(fd.Body.List) {
		to = len(fd.Body.List)
	}
	e := sfNewEnv(file, fd)
	e.block(fd.Body.List[:from])
	e.bad = false
	return e.result(e.block(fd.Body.List[from:to]))
}

// ---------------------------------------------------------------- small AST helpers

// recvCall matches `<recv>.<path...>(args)`, e.g. path = ["stream","Open"].
func sfIsRecvCall(x ast.Node, recv string, path ...string) *ast.CallExpr {
	var c *ast.CallExpr
	switch v := x.(type) {
	case *ast.CallExpr:
		c = v
	case *ast.ExprStmt:
		c, _ = v.X.(*ast.CallExpr)
	}
	if c == nil {
		return nil
	}
	cur := c.Fun
	for i := len(path) - 1; i >= 0; i-- {
		se, ok := cur.(*ast.SelectorExpr)
		if !ok || se.Sel.Name != path[i] {
			return nil
		}
		cur = se.X
	}
	if id, ok := cur.(*ast.Ident); ok && id.Name == recv {
		return c
	}
	return nil
}

func sfRecvName(fd *ast.FuncDecl) string {
	if fd != nil && fd.Recv != nil && len(fd.Recv.List) == 1 && len(fd.Recv.List[0].Names) == 1 {
		return fd.Recv.List[0].Names[0].Name
	}
	return ""
}

func sfContains(n ast.Node, pred func(ast.Node) bool) bool {
	found := false
	ast.Inspect(n, func(x ast.Node) bool {
		if x != nil && pred(x) {
			found = true
		}
		return !found
	})
	return found
}

func sfFlatten(x ast.Expr, op token.Token) []ast.Expr {
	if b, ok := x.(*ast.BinaryExpr); ok && b.Op == op {
		return append(sfFlatten(b.X, op), sfFlatten(b.Y, op)...)
	}
	return []ast.Expr{x}
}

func sfUnparen(x ast.Expr) ast.Expr {
	for {
		p, ok := x.(*ast.ParenExpr)
		if !ok {
			return x
		}
		x = p.X
	}
}

// ---------------------------------------------------------------- the facts

type sfFact struct {
	name string
	get  func() string
}

func sfFacts(r *sfRepo) []sfFact {
	var facts []sfFact
	add := func(name string, get func() string) { facts = append(facts, sfFact{name, get}) }
	whole := func(name, rel, recv, fn string) {
		add(name, func() string { f := r.file(rel); return sfSkeleton(f, f.fn(recv, fn)) })
	}

	// ===== 1. stream/stream.go: listen, waitAndForward, setOffset
	const st = "stream/stream.go"
	docKinds := map[string]bool{"DcpMutation": true, "DcpDeletion": true, "DcpExpiration": true}
	listenKinds := []string{"DcpMutation", "DcpDeletion", "DcpExpiration", "DcpSeqNoAdvanced", "DcpCollectionCreation",
		"DcpCollectionDeletion", "DcpCollectionFlush", "DcpScopeCreation", "DcpScopeDeletion", "DcpCollectionModification"}
	// the type switch of listen: case type name -> rendered body; "" key = default
	listenCases := func() (map[string]string, bool) {
		f := r.file(st)
		fd := f.fn("stream", "listen")
		if fd == nil || len(fd.Body.List) != 1 {
			return nil, false
		}
		ts, ok := fd.Body.List[0].(*ast.TypeSwitchStmt)
		if !ok || ts.Init != nil {
			return nil, false
		}
		as, ok := ts.Assign.(*ast.AssignStmt)
		if !ok || len(as.Lhs) != 1 || len(as.Rhs) != 1 {
			return nil, false
		}
		bind, ok := as.Lhs[0].(*ast.Ident)
		if !ok {
			return nil, false
		}
		out := map[string]string{}
		for _, c := range ts.Body.List {
			cc := c.(*ast.CaseClause)
			e := sfNewEnv(f, fd)
			e.locals[bind.Name] = "v"
			body := e.block(cc.Body)
			if e.bad {
				return nil, false
			}
			if cc.List == nil {
				out[""] = body
				continue
			}
			for _, t := range cc.List {
				se, ok := t.(*ast.SelectorExpr)
				if !ok {
					return nil, false
				}
				if id, ok := se.X.(*ast.Ident); !ok || id.Name != "models" {
					return nil, false
				}
				if _, dup := out[se.Sel.Name]; dup {
					return nil, false
				}
				out[se.Sel.Name] = body
			}
		}
		return out, true
	}
	add("C01+C03+C05.listen.cases", func() string {
		m, ok := listenCases()
		if !ok {
			return sfUnknown
		}
		var ks []string
		for k := range m {
			if k != "" {
				ks = append(ks, k)
			}
		}
		sort.Strings(ks)
		d, has := m[""]
		switch {
		case !has:
			ks = append(ks, "default:none")
		case d == "":
			ks = append(ks, "default:empty")
		default:
			ks = append(ks, "default:"+d)
		}
		return strings.Join(ks, " ")
	})
	for _, k := range listenKinds {
		k := k
		tags := "C01+C05+C06"
		if docKinds[k] {
			tags = "C01+C03"
		}
		add(tags+".listen."+k, func() string {
			m, ok := listenCases()
			if !ok {
				return sfUnknown
			}
			b, has := m[k]
			if !has {
				return "absent"
			}
			if b == "" {
				return "empty"
			}
			return b
		})
	}
	add("C01+C14.forward.metadata-branch", func() string {
		f := r.file(st)
		return sfSkeletonRange(f, f.fn("stream", "waitAndForward"), 0, 1)
	})
	add("C03.forward.tail", func() string {
		f := r.file(st)
		fd := f.fn("stream", "waitAndForward")
		if fd == nil {
			return sfUnknown
		}
		// everything after the first statement, with the ListenerContext literal left out
		e := sfNewEnv(f, fd)
		var out []string
		for _, s := range fd.Body.List[1:] {
			if as, ok := s.(*ast.AssignStmt); ok && len(as.Rhs) == 1 && sfContains(as.Rhs[0], func(n ast.Node) bool {
				cl, ok := n.(*ast.CompositeLit)
				return ok && strings.HasSuffix(e.expr(cl.Type), "ListenerContext")
			}) {
				for _, l := range as.Lhs {
					if id, ok := l.(*ast.Ident); ok {
						e.locals[id.Name] = "ctx"
					}
				}
				continue
			}
			if t := e.stmt(s); t != "" {
				out = append(out, t)
			}
		}
		return e.result(strings.Join(out, ";"))
	})
	// a field of the &models.ListenerContext{..} literal in waitAndForward
	ctxField := func(field string) (ast.Expr, *sfEnv) {
		f := r.file(st)
		fd := f.fn("stream", "waitAndForward")
		if fd == nil {
			return nil, nil
		}
		e := sfNewEnv(f, fd)
		var hit ast.Expr
		n := 0
		ast.Inspect(fd.Body, func(x ast.Node) bool {
			cl, ok := x.(*ast.CompositeLit)
			if !ok {
				return true
			}
			se, ok := cl.Type.(*ast.SelectorExpr)
			if !ok || se.Sel.Name != "ListenerContext" {
				return true
			}
			n++
			for _, el := range cl.Elts {
				if kv, ok := el.(*ast.KeyValueExpr); ok {
					if id, ok := kv.Key.(*ast.Ident); ok && id.Name == field {
						hit = kv.Value
					}
				}
			}
			return true
		})
		if n != 1 {
			return nil, nil
		}
		return hit, e
	}
	add("C01+C04+C05.forward.ack", func() string {
		x, e := ctxField("Ack")
		fl, ok := x.(*ast.FuncLit)
		if !ok || len(fl.Type.Params.List) != 0 {
			return sfUnknown
		}
		return e.result(e.block(fl.Body.List))
	})
	add("C05.forward.commit", func() string {
		x, e := ctxField("Commit")
		if x == nil {
			return sfUnknown
		}
		return e.result(e.expr(x))
	})
	// setOffset: `if <range test> { if cur, ok := offsets.Load(vb); <guard> { return } ; <order...> } else {..}`
	setOffsetParts := func() (rangeTest, guard, order, mark string) {
		rangeTest, guard, order, mark = sfUnknown, sfUnknown, sfUnknown, sfUnknown
		f := r.file(st)
		fd := f.fn("stream", "setOffset")
		if fd == nil || len(fd.Body.List) != 1 {
			return
		}
		outer, ok := fd.Body.List[0].(*ast.IfStmt)
		if !ok || outer.Init != nil {
			return
		}
		e := sfNewEnv(f, fd)
		rangeTest = e.result(e.expr(outer.Cond))
		if len(outer.Body.List) < 2 {
			return
		}
		g, ok := outer.Body.List[0].(*ast.IfStmt)
		if ok && g.Init != nil && g.Else == nil {
			// name the two results of the Load call by role
			if as, ok := g.Init.(*ast.AssignStmt); ok && as.Tok == token.DEFINE && len(as.Lhs) == 2 && len(as.Rhs) == 1 {
				e2 := sfNewEnv(f, fd)
				init := e2.expr(as.Rhs[0])
				if a, ok := as.Lhs[0].(*ast.Ident); ok {
					e2.locals[a.Name] = "cur"
				}
				if b, ok := as.Lhs[1].(*ast.Ident); ok {
					e2.locals[b.Name] = "ok"
				}
				guard = e2.result(init + ":" + e2.expr(g.Cond) + "=>" + e2.block(g.Body.List))
			}
		}
		e3 := sfNewEnv(f, fd)
		var toks []string
		for _, s := range outer.Body.List[1:] {
			// the StoreIf closure is reported on its own
			if c := sfIsRecvCall(s, e3.recv, "dirtyOffsets", "StoreIf"); c != nil && len(c.Args) == 2 {
				if fl, ok := c.Args[1].(*ast.FuncLit); ok {
					toks = append(toks, "dirtyOffsets.StoreIf("+e3.expr(c.Args[0])+",func)")
					e4 := sfNewEnv(f, fd)
					mark = e4.result(strings.TrimSuffix(strings.TrimPrefix(e4.funcLit(fl), "func{"), "}"))
					continue
				}
			}
			if t := e3.stmt(s); t != "" {
				toks = append(toks, t)
			}
		}
		order = e3.result(strings.Join(toks, ";"))
		return
	}
	add("C04.setoffset.range-test", func() string { a, _, _, _ := setOffsetParts(); return a })
	add("C04.setoffset.regression-guard", func() string { _, b, _, _ := setOffsetParts(); return b })
	add("C04+C05.setoffset.order", func() string { _, _, c, _ := setOffsetParts(); return c })
	add("C05.setoffset.dirty-mark", func() string { _, _, _, d := setOffsetParts(); return d })

	// ===== 2. listenEnd, reopenStream
	// the if statement of listenEnd whose then-branch starts the reopen goroutine
	reopenIf := func() (*ast.IfStmt, *sfFile, *ast.FuncDecl) {
		f := r.file(st)
		fd := f.fn("stream", "listenEnd")
		if fd == nil {
			return nil, nil, nil
		}
		recv := sfRecvName(fd)
		var hit *ast.IfStmt
		n := 0
		for _, s := range fd.Body.List {
			is, ok := s.(*ast.IfStmt)
			if !ok {
				continue
			}
			if sfContains(is.Body, func(x ast.Node) bool {
				g, ok := x.(*ast.GoStmt)
				return ok && sfIsRecvCall(g.Call, recv, "reopenStream") != nil
			}) {
				hit = is
				n++
			}
		}
		if n != 1 || hit.Init != nil {
			return nil, nil, nil
		}
		return hit, f, fd
	}
	// splits the condition into (other conjuncts, names of the errors.Is(<param>.Err, gocbcore.ErrX) alternatives)
	reopenCond := func() (others []string, errs []string, ok bool) {
		is, f, fd := reopenIf()
		if is == nil {
			return nil, nil, false
		}
		e := sfNewEnv(f, fd)
		var errSubject string
		seen := 0
		for _, c := range sfFlatten(is.Cond, token.LAND) {
			alts := sfFlatten(sfUnparen(c), token.LOR)
			isChain := true
			var names []string
			for _, a := range alts {
				call, ok := sfUnparen(a).(*ast.CallExpr)
				if !ok || len(call.Args) != 2 || e.expr(call.Fun) != "errors.Is" {
					isChain = false
					break
				}
				se, ok := call.Args[1].(*ast.SelectorExpr)
				if !ok {
					isChain = false
					break
				}
				if id, ok := se.X.(*ast.Ident); !ok || id.Name != "gocbcore" {
					isChain = false
					break
				}
				subj := e.expr(call.Args[0])
				if errSubject != "" && subj != errSubject {
					isChain = false
					break
				}
				errSubject = subj
				names = append(names, se.Sel.Name)
			}
			if isChain {
				seen++
				errs = append(errs, names...)
				others = append(others, "transient("+errSubject+")")
				continue
			}
			// a conjunct that is neither the chain nor a plain test of receiver fields / the parameter: not recognised
			if sfContains(c, func(x ast.Node) bool { _, isCall := x.(*ast.CallExpr); return isCall }) {
				return nil, nil, false
			}
			others = append(others, e.expr(c))
		}
		if seen != 1 || e.bad {
			return nil, nil, false
		}
		sort.Strings(errs)
		return others, errs, true
	}
	add("C12.transient-set", func() string {
		_, errs, ok := reopenCond()
		if !ok {
			return sfUnknown
		}
		return strings.Join(errs, " ")
	})
	add("C12+C13.listenend.reopen-guard", func() string {
		others, _, ok := reopenCond()
		if !ok {
			return sfUnknown
		}
		return strings.Join(others, "&&")
	})
	add("C12+C13.listenend.branches", func() string {
		is, f, fd := reopenIf()
		if is == nil || is.Else == nil {
			return sfUnknown
		}
		e := sfNewEnv(f, fd)
		return e.result("then{" + e.block(is.Body.List) + "}else{" + e.stmt(is.Else) + "}")
	})
	// reopenStream: `n := LIT; for { err := openStream(vb); if err == nil {..break}..; n--; if n == 0 {..panic(err)}; time.Sleep(D) }`
	reopen := func() (count, sleep, loop string) {
		count, sleep, loop = sfUnknown, sfUnknown, sfUnknown
		f := r.file(st)
		fd := f.fn("stream", "reopenStream")
		if fd == nil {
			return
		}
		recv := sfRecvName(fd)
		var forStmt *ast.ForStmt
		var counter string
		var lit string
		for _, s := range fd.Body.List {
			switch v := s.(type) {
			case *ast.AssignStmt:
				if v.Tok == token.DEFINE && len(v.Lhs) == 1 && len(v.Rhs) == 1 {
					if bl, ok := v.Rhs[0].(*ast.BasicLit); ok && bl.Kind == token.INT {
						if id, ok := v.Lhs[0].(*ast.Ident); ok {
							if counter != "" {
								return
							}
							counter, lit = id.Name, bl.Value
						}
					}
				}
			case *ast.ForStmt:
				if forStmt != nil {
					return
				}
				forStmt = v
			case *ast.ExprStmt:
				e := sfNewEnv(f, fd)
				if !e.isLogger(v.X) {
					return
				}
			default:
				return
			}
		}
		if forStmt == nil || counter == "" || forStmt.Init != nil || forStmt.Cond != nil || forStmt.Post != nil {
			return
		}
		e := sfNewEnv(f, fd)
		var toks []string
		errName := ""
		for _, s := range forStmt.Body.List {
			switch v := s.(type) {
			case *ast.AssignStmt:
				if len(v.Lhs) == 1 && len(v.Rhs) == 1 && sfIsRecvCall(v.Rhs[0], recv, "openStream") != nil {
					if id, ok := v.Lhs[0].(*ast.Ident); ok {
						errName = id.Name
						toks = append(toks, "try:"+e.expr(v.Rhs[0]))
						continue
					}
				}
				return
			case *ast.IfStmt:
				if v.Init != nil {
					return
				}
				b, ok := v.Cond.(*ast.BinaryExpr)
				if !ok || b.Op != token.EQL {
					return
				}
				x, _ := b.X.(*ast.Ident)
				hasBreak := sfContains(v.Body, func(n ast.Node) bool { br, ok := n.(*ast.BranchStmt); return ok && br.Tok == token.BREAK })
				hasPanic := sfContains(v.Body, func(n ast.Node) bool {
					c, ok := n.(*ast.CallExpr)
					if !ok {
						return false
					}
					id, ok := c.Fun.(*ast.Ident)
					return ok && id.Name == "panic"
				})
				switch {
				case x != nil && x.Name == errName && e.expr(b.Y) == "nil" && hasBreak && !hasPanic:
					if v.Else != nil && sfContains(v.Else, func(n ast.Node) bool {
						switch n.(type) {
						case *ast.BranchStmt, *ast.ReturnStmt, *ast.GoStmt:
							return true
						}
						return false
					}) {
						return
					}
					toks = append(toks, "ok=>break")
				case x != nil && x.Name == counter && e.expr(b.Y) == "0" && hasPanic && !hasBreak && v.Else == nil:
					toks = append(toks, "n==0=>panic")
				default:
					return
				}
			case *ast.IncDecStmt:
				id, ok := v.X.(*ast.Ident)
				if !ok || id.Name != counter {
					return
				}
				toks = append(toks, "n"+v.Tok.String())
			case *ast.ExprStmt:
				if e.isLogger(v.X) {
					continue
				}
				c, ok := v.X.(*ast.CallExpr)
				if !ok || len(c.Args) != 1 || e.expr(c.Fun) != "time.Sleep" {
					return
				}
				if sleep != sfUnknown {
					sleep = sfUnknown
					return
				}
				sleep = e.result(e.expr(c.Args[0]))
				toks = append(toks, "sleep")
			default:
				return
			}
		}
		count = lit
		loop = strings.Join(toks, ";")
		return
	}
	add("C12+C15.reopen.retries", func() string { a, _, _ := reopen(); return a })
	add("C12+C15.reopen.sleep", func() string { _, b, _ := reopen(); return b })
	add("C12+C15.reopen.loop", func() string { _, _, c := reopen(); return c })

	// ===== 3. life cycle of the stream
	whole("C11+C13.close-order", st, "stream", "Close")
	whole("C02+C11.open-order", st, "stream", "Open")
	whole("C11.Rebalance-order", st, "stream", "Rebalance")
	whole("C11.rebalance-order", st, "stream", "rebalance")
	whole("C11+C12+C13.wait-order", st, "stream", "wait")
	whole("C07.dispatch-persist", st, "stream", "dispatchPersistSeqNo")
	whole("C12+C15.openstream-by-vb", st, "stream", "openStream")
	whole("C05.unmark-dirty", st, "stream", "UnmarkDirtyOffsets")

	// ===== 4. stream/checkpoint.go
	const cp = "stream/checkpoint.go"
	whole("C05.save-order", cp, "checkpoint", "Save")
	// Load: head | `if <latest-reset cond> {..return..}` | rest
	loadSplit := func() (int, *sfFile, *ast.FuncDecl) {
		f := r.file(cp)
		fd := f.fn("checkpoint", "Load")
		if fd == nil {
			return -1, nil, nil
		}
		idx, n := -1, 0
		for i, s := range fd.Body.List {
			is, ok := s.(*ast.IfStmt)
			if !ok {
				continue
			}
			if sfContains(is.Cond, func(x ast.Node) bool {
				se, ok := x.(*ast.SelectorExpr)
				return ok && se.Sel.Name == "AutoReset"
			}) {
				idx = i
				n++
			}
		}
		if n != 1 {
			return -1, nil, nil
		}
		return idx, f, fd
	}
	add("C02+C15.load.head", func() string {
		i, f, fd := loadSplit()
		if i < 0 {
			return sfUnknown
		}
		return sfSkeletonRange(f, fd, 0, i)
	})
	add("C02.load.latest-reset-cond", func() string {
		i, f, fd := loadSplit()
		if i < 0 {
			return sfUnknown
		}
		e := sfNewEnv(f, fd)
		e.block(fd.Body.List[:i])
		e.bad = false
		return e.result(e.expr(fd.Body.List[i].(*ast.IfStmt).Cond))
	})
	add("C02+C05.load.latest-branch", func() string {
		i, f, fd := loadSplit()
		if i < 0 {
			return sfUnknown
		}
		is := fd.Body.List[i].(*ast.IfStmt)
		if is.Else != nil || is.Init != nil {
			return sfUnknown
		}
		e := sfNewEnv(f, fd)
		e.block(fd.Body.List[:i])
		e.bad = false
		return e.result(e.block(is.Body.List))
	})
	add("C02+C15.load.stored-branch", func() string {
		i, f, fd := loadSplit()
		if i < 0 {
			return sfUnknown
		}
		return sfSkeletonRange(f, fd, i+1, -1)
	})
	whole("C13.schedule-loop", cp, "checkpoint", "StartSchedule")
	whole("C13.schedule-stop", cp, "checkpoint", "StopSchedule")

	// ===== 5. couchbase/observer.go
	const ob = "couchbase/observer.go"
	whole("C07.observer.check-persist", ob, "observer", "checkPersistSeqNo")
	whole("C07.observer.wait-gate", ob, "observer", "waitRollbackMitigation")
	whole("C08.observer.need-catchup", ob, "observer", "needCatchup")
	whole("C08.observer.set-catchup", ob, "observer", "SetCatchup")
	whole("C07+C08.observer.can-forward", ob, "observer", "canForward")
	whole("C07.observer.set-persist", ob, "observer", "SetPersistSeqNo")
	whole("C03.observer.skip-window", ob, "observer", "isBeforeSkipWindow")
	whole("C06+C15.observer.in-snapshot", ob, "observer", "IsInSnapshotMarker")
	whole("C12+C13.observer.end", ob, "observer", "End")
	whole("C11+C13.observer.close", ob, "observer", "Close")
	whole("C12+C13.observer.close-end", ob, "observer", "CloseEnd")
	add("C03+C13.observer.send-closed-test", func() string {
		f := r.file(ob)
		return sfSkeletonRange(f, f.fn("observer", "sendOrSkip"), 0, 1)
	})
	callbacks := []struct{ name, tags string }{
		{"SnapshotMarker", "C06+C07+C08"}, {"Mutation", "C03+C06+C07+C08"}, {"Deletion", "C03+C06+C07+C08"},
		{"Expiration", "C03+C06+C07+C08"}, {"SeqNoAdvanced", "C06+C07+C08"}, {"CreateCollection", "C06+C07+C08"},
		{"DeleteCollection", "C06+C07+C08"}, {"FlushCollection", "C06+C07+C08"}, {"CreateScope", "C06+C07+C08"},
		{"DeleteScope", "C06+C07+C08"}, {"ModifyCollection", "C06+C07+C08"}, {"OSOSnapshot", "C03"},
	}
	for _, cb := range callbacks {
		cb := cb
		// the gate: first statement `if !canForward(<seq>, <isControl>) { return }`
		add("C07+C08.observer.gate."+cb.name, func() string {
			f := r.file(ob)
			fd := f.fn("observer", cb.name)
			if fd == nil || len(fd.Body.List) == 0 {
				return sfUnknown
			}
			recv := sfRecvName(fd)
			n := 0
			ast.Inspect(fd.Body, func(x ast.Node) bool {
				if c, ok := x.(*ast.CallExpr); ok && sfIsRecvCall(c, recv, "canForward") != nil {
					n++
				}
				return true
			})
			if n == 0 {
				return "none"
			}
			is, ok := fd.Body.List[0].(*ast.IfStmt)
			if n != 1 || !ok || is.Init != nil || is.Else != nil {
				return sfUnknown
			}
			u, ok := is.Cond.(*ast.UnaryExpr)
			if !ok || u.Op != token.NOT {
				return sfUnknown
			}
			c := sfIsRecvCall(u.X, recv, "canForward")
			if c == nil || len(c.Args) != 2 || len(is.Body.List) != 1 {
				return sfUnknown
			}
			if rs, ok := is.Body.List[0].(*ast.ReturnStmt); !ok || len(rs.Results) != 0 {
				return sfUnknown
			}
			e := sfNewEnv(f, fd)
			return e.result(e.expr(c.Args[0]) + "," + e.expr(c.Args[1]))
		})
		whole(cb.tags+".observer.cb."+cb.name, ob, "observer", cb.name)
	}

	// ===== 6. couchbase/client.go
	const cl = "couchbase/client.go"
	// the single `<recv>.dcpAgent.OpenStream(` call of a function
	agentOpen := func(fn string) (*ast.CallExpr, *sfEnv) {
		f := r.file(cl)
		fd := f.fn("client", fn)
		if fd == nil {
			return nil, nil
		}
		recv := sfRecvName(fd)
		var hit *ast.CallExpr
		n := 0
		ast.Inspect(fd.Body, func(x ast.Node) bool {
			if c := sfIsRecvCall(x, recv, "dcpAgent", "OpenStream"); c != nil {
				if _, isStmt := x.(*ast.ExprStmt); !isStmt {
					hit = c
					n++
				}
			}
			return true
		})
		if n != 1 || len(hit.Args) != 10 {
			return nil, nil
		}
		e := sfNewEnv(f, fd)
		// walk the statements before the call so that locals have their names
		for _, s := range fd.Body.List {
			if s.End() < hit.Pos() {
				e.stmt(s)
			}
		}
		e.bad = false
		return hit, e
	}
	for _, p := range []struct{ fact, fn string }{
		{"C02+C08.openstream.first", "OpenStream"}, {"C08.openstream.rollback", "openStreamWithRollback"}} {
		p := p
		add(p.fact+"-args", func() string {
			c, e := agentOpen(p.fn)
			if c == nil {
				return sfUnknown
			}
			return e.result(e.exprs(c.Args[:8]))
		})
		add(p.fact+"-callback", func() string {
			c, e := agentOpen(p.fn)
			if c == nil {
				return sfUnknown
			}
			fl, ok := c.Args[9].(*ast.FuncLit)
			if !ok {
				return sfUnknown
			}
			return e.result(e.funcLit(fl))
		})
	}
	add("C08.openstream.rollback-dispatch", func() string {
		f := r.file(cl)
		fd := f.fn("client", "OpenStream")
		if fd == nil {
			return sfUnknown
		}
		recv := sfRecvName(fd)
		// the if statement `if x, ok := err.(gocbcore.DCPRollbackError); ok { return s.openStreamWithRollback(..) }`
		var hit *ast.IfStmt
		n := 0
		ast.Inspect(fd.Body, func(x ast.Node) bool {
			is, ok := x.(*ast.IfStmt)
			if !ok || is.Init == nil {
				return true
			}
			as, ok := is.Init.(*ast.AssignStmt)
			if !ok || len(as.Rhs) != 1 {
				return true
			}
			if _, ok := as.Rhs[0].(*ast.TypeAssertExpr); ok {
				hit = is
				n++
			}
			return true
		})
		if n != 1 || len(hit.Body.List) == 0 {
			return sfUnknown
		}
		e := sfNewEnv(f, fd)
		for _, s := range fd.Body.List {
			if s.End() < hit.Pos() {
				e.stmt(s)
			}
		}
		e.bad = false
		as := hit.Init.(*ast.AssignStmt)
		ta := as.Rhs[0].(*ast.TypeAssertExpr)
		okID, isID := hit.Cond.(*ast.Ident)
		if len(as.Lhs) != 2 || !isID {
			return sfUnknown
		}
		if l1, ok := as.Lhs[1].(*ast.Ident); !ok || l1.Name != okID.Name {
			return sfUnknown
		}
		subject := e.expr(ta.X)
		e.stmt(hit.Init)
		if l0, ok := as.Lhs[0].(*ast.Ident); ok {
			e.locals[l0.Name] = "rb"
		}
		out := "rb,ok:=" + subject + ".(" + e.expr(ta.Type) + ");ok=>"
		rs, ok := hit.Body.List[len(hit.Body.List)-1].(*ast.ReturnStmt)
		if !ok || len(rs.Results) != 1 || sfIsRecvCall(rs.Results[0], recv, "openStreamWithRollback") == nil {
			return sfUnknown
		}
		c := rs.Results[0].(*ast.CallExpr)
		if len(c.Args) != 6 {
			return sfUnknown
		}
		return e.result(out + "openStreamWithRollback(" + e.exprs(c.Args[:5]) + ")")
	})
	add("C08.failover-scan", func() string {
		f := r.file(cl)
		fd := f.fn("client", "openStreamWithRollback")
		if fd == nil {
			return sfUnknown
		}
		var loop *ast.ForStmt
		n := 0
		for _, s := range fd.Body.List {
			if fs, ok := s.(*ast.ForStmt); ok {
				loop = fs
				n++
			}
		}
		if n != 1 || loop.Init == nil || loop.Cond == nil || loop.Post == nil {
			return sfUnknown
		}
		e := sfNewEnv(f, fd)
		for _, s := range fd.Body.List {
			if s.End() < loop.Pos() {
				e.stmt(s)
			}
		}
		e.bad = false
		// for i := len(L)-1; i >= 0; i-- | for i := 0; i < len(L); i++
		as, ok := loop.Init.(*ast.AssignStmt)
		if !ok || len(as.Lhs) != 1 || len(as.Rhs) != 1 {
			return sfUnknown
		}
		iv, ok := as.Lhs[0].(*ast.Ident)
		if !ok {
			return sfUnknown
		}
		e.locals[iv.Name] = "i"
		start := e.expr(as.Rhs[0])
		cond := e.expr(loop.Cond)
		post, ok := loop.Post.(*ast.IncDecStmt)
		if !ok {
			return sfUnknown
		}
		dir := ""
		switch {
		case strings.HasPrefix(start, "len(") && strings.HasSuffix(start, ")-1") && cond == "i>=0" && post.Tok == token.DEC:
			dir = "last-to-first(" + start[4:len(start)-3] + ")"
		case start == "0" && strings.HasPrefix(cond, "i<len(") && post.Tok == token.INC:
			dir = "first-to-last(" + cond[6:len(cond)-1] + ")"
		default:
			return sfUnknown
		}
		// body: `e := L[i]; if <cmp> { target = e.VbUUID }`
		var toks []string
		for _, s := range loop.Body.List {
			switch v := s.(type) {
			case *ast.AssignStmt:
				if v.Tok == token.DEFINE && len(v.Lhs) == 1 && len(v.Rhs) == 1 {
					if ix, ok := v.Rhs[0].(*ast.IndexExpr); ok && e.expr(ix.Index) == "i" {
						if id, ok := v.Lhs[0].(*ast.Ident); ok {
							e.locals[id.Name] = "e"
							continue
						}
					}
				}
				return sfUnknown
			case *ast.IfStmt:
				if v.Init != nil || v.Else != nil || len(v.Body.List) != 1 {
					return sfUnknown
				}
				a, ok := v.Body.List[0].(*ast.AssignStmt)
				if !ok || a.Tok != token.ASSIGN || len(a.Lhs) != 1 || len(a.Rhs) != 1 {
					return sfUnknown
				}
				if _, ok := a.Lhs[0].(*ast.Ident); !ok {
					return sfUnknown
				}
				toks = append(toks, "if("+e.expr(v.Cond)+"){target="+e.expr(a.Rhs[0])+"}")
			default:
				return sfUnknown
			}
		}
		return e.result(dir + ":" + strings.Join(toks, ";"))
	})

	// ===== 7. couchbase/healthcheck.go, rollback_mitigation.go
	const hc = "couchbase/healthcheck.go"
	// resolves a local of performHealthCheck declared `const x = LIT` / `x := EXPR` / `var x = EXPR`
	health := func() (maxRetries, interval, loop string) {
		maxRetries, interval, loop = sfUnknown, sfUnknown, sfUnknown
		f := r.file(hc)
		fd := f.fn("healthCheck", "performHealthCheck")
		if fd == nil {
			return
		}
		defs := map[string]ast.Expr{}
		var loopStmt *ast.ForStmt
		for _, s := range fd.Body.List {
			switch v := s.(type) {
			case *ast.DeclStmt:
				gd, ok := v.Decl.(*ast.GenDecl)
				if !ok {
					return
				}
				for _, sp := range gd.Specs {
					vs, ok := sp.(*ast.ValueSpec)
					if !ok || len(vs.Names) != len(vs.Values) {
						return
					}
					for i, n := range vs.Names {
						defs[n.Name] = vs.Values[i]
					}
				}
			case *ast.AssignStmt:
				if v.Tok == token.DEFINE && len(v.Lhs) == len(v.Rhs) {
					for i, l := range v.Lhs {
						if id, ok := l.(*ast.Ident); ok {
							defs[id.Name] = v.Rhs[i]
						}
					}
				}
			case *ast.ForStmt:
				if loopStmt != nil {
					return
				}
				loopStmt = v
			}
		}
		if loopStmt == nil || loopStmt.Cond == nil {
			return
		}
		e := sfNewEnv(f, fd)
		// loop bound: `attempt <= X`
		b, ok := loopStmt.Cond.(*ast.BinaryExpr)
		if !ok || b.Op != token.LEQ {
			return
		}
		init, ok := loopStmt.Init.(*ast.AssignStmt)
		if !ok || len(init.Lhs) != 1 || len(init.Rhs) != 1 || e.expr(init.Rhs[0]) != "1" {
			return
		}
		av, ok := init.Lhs[0].(*ast.Ident)
		if !ok {
			return
		}
		if x, ok := b.X.(*ast.Ident); !ok || x.Name != av.Name {
			return
		}
		bound := b.Y
		boundName := ""
		if id, ok := bound.(*ast.Ident); ok {
			if d, ok := defs[id.Name]; ok {
				boundName = id.Name
				bound = d
			}
		}
		if bl, ok := bound.(*ast.BasicLit); ok && bl.Kind == token.INT {
			maxRetries = bl.Value
		} else {
			return
		}
		// the retry wait: `time.After(X)` inside the loop
		var after ast.Expr
		n := 0
		ast.Inspect(loopStmt.Body, func(x ast.Node) bool {
			if c, ok := x.(*ast.CallExpr); ok && len(c.Args) == 1 && e.expr(c.Fun) == "time.After" {
				after = c.Args[0]
				n++
			}
			return true
		})
		intervalName := ""
		if n == 1 {
			if id, ok := after.(*ast.Ident); ok {
				if d, ok := defs[id.Name]; ok {
					intervalName = id.Name
					after = d
				}
			}
			interval = e.result(e.expr(after))
		}
		// loop shape with the two constants and the loop variable named by role
		e2 := sfNewEnv(f, fd)
		e2.locals[av.Name] = "attempt"
		if boundName != "" {
			e2.locals[boundName] = "MAX"
		}
		if intervalName != "" {
			e2.locals[intervalName] = "INTERVAL"
		}
		cond := e2.expr(loopStmt.Cond)
		post := ""
		if p, ok := loopStmt.Post.(*ast.IncDecStmt); ok {
			post = e2.expr(p.X) + p.Tok.String()
		}
		body := e2.block(loopStmt.Body.List)
		if boundName == "" {
			cond = strings.Replace(cond, maxRetries, "MAX", 1)
		}
		loop = e2.result("for(attempt:=1;" + cond + ";" + post + "){" + body + "}")
		return
	}
	add("C19.health.max-retries", func() string { a, _, _ := health(); return a })
	add("C19.health.retry-interval", func() string { _, b, _ := health(); return b })
	add("C19.health.round-loop", func() string { _, _, c := health(); return c })
	whole("C19.health.start", hc, "healthCheck", "Start")
	whole("C19.health.stop", hc, "healthCheck", "Stop")
	whole("C19.health.run", hc, "healthCheck", "run")
	whole("C07.min-seqno", "couchbase/rollback_mitigation.go", "rollbackMitigation", "getMinSeqNo")

	// ===== 8. constants, keys, versions
	// package-level string constants of helpers/constants.go, folded
	strConst := func(name string) string {
		f := r.file("helpers/constants.go")
		if f == nil {
			return sfUnknown
		}
		defs := map[string]ast.Expr{}
		for _, d := range f.f.Decls {
			gd, ok := d.(*ast.GenDecl)
			if !ok || gd.Tok != token.CONST {
				continue
			}
			for _, sp := range gd.Specs {
				vs := sp.(*ast.ValueSpec)
				if len(vs.Names) != len(vs.Values) {
					continue
				}
				for i, n := range vs.Names {
					defs[n.Name] = vs.Values[i]
				}
			}
		}
		var fold func(x ast.Expr, depth int) (string, bool)
		fold = func(x ast.Expr, depth int) (string, bool) {
			if depth > 8 {
				return "", false
			}
			switch v := x.(type) {
			case *ast.BasicLit:
				if v.Kind != token.STRING {
					return "", false
				}
				s, err := strconv.Unquote(v.Value)
				return s, err == nil
			case *ast.Ident:
				d, ok := defs[v.Name]
				if !ok {
					return "", false
				}
				return fold(d, depth+1)
			case *ast.ParenExpr:
				return fold(v.X, depth+1)
			case *ast.BinaryExpr:
				if v.Op != token.ADD {
					return "", false
				}
				a, ok1 := fold(v.X, depth+1)
				b, ok2 := fold(v.Y, depth+1)
				return a + b, ok1 && ok2
			}
			return "", false
		}
		d, ok := defs[name]
		if !ok {
			return sfUnknown
		}
		s, ok := fold(d, 0)
		if !ok || strings.ContainsAny(s, "\t\n ") || s == "" {
			return sfUnknown
		}
		return s
	}
	add("C14.const.Name", func() string { return strConst("Name") })
	add("C14.const.Prefix", func() string { return strConst("Prefix") })
	add("C14.const.TxnPrefix", func() string { return strConst("TxnPrefix") })
	add("C10+C11.const.MembershipChangedBusEventName", func() string { return strConst("MembershipChangedBusEventName") })
	whole("C14.checkpoint-id", "couchbase/metadata.go", "", "getCheckpointID")
	// key fields of the cbMembership literal in NewCBMembership
	mbKey := func(field string) string {
		f := r.file("couchbase/membership.go")
		fd := f.fn("", "NewCBMembership")
		if fd == nil {
			return sfUnknown
		}
		e := sfNewEnv(f, fd)
		var hit ast.Expr
		n := 0
		ast.Inspect(fd.Body, func(x ast.Node) bool {
			cl, ok := x.(*ast.CompositeLit)
			if !ok {
				return true
			}
			if id, ok := cl.Type.(*ast.Ident); !ok || id.Name != "cbMembership" {
				return true
			}
			for _, el := range cl.Elts {
				if kv, ok := el.(*ast.KeyValueExpr); ok {
					if id, ok := kv.Key.(*ast.Ident); ok && id.Name == field {
						hit = kv.Value
						n++
					}
				}
			}
			return true
		})
		if n != 1 {
			return sfUnknown
		}
		return e.result(e.expr(hit))
	}
	add("C14.instance-key", func() string { return mbKey("id") })
	add("C14.index-key", func() string { return mbKey("instanceAll") })
	add("C14.instance-type", func() string {
		f := r.file("couchbase/membership.go")
		if f == nil {
			return sfUnknown
		}
		for _, d := range f.f.Decls {
			gd, ok := d.(*ast.GenDecl)
			if !ok || gd.Tok != token.CONST {
				continue
			}
			for _, sp := range gd.Specs {
				vs := sp.(*ast.ValueSpec)
				for i, n := range vs.Names {
					if n.Name == "_type" && i < len(vs.Values) {
						if bl, ok := vs.Values[i].(*ast.BasicLit); ok && bl.Kind == token.STRING {
							s, err := strconv.Unquote(bl.Value)
							if err == nil && s != "" && !strings.ContainsAny(s, " \t\n") {
								return s
							}
						}
					}
				}
			}
		}
		return sfUnknown
	})
	whole("C10.membership-comparator", "couchbase/membership.go", "cbMembership", "monitor")
	for _, v := range []string{"SrvVer550", "SrvVer650", "SrvVer720"} {
		v := v
		add("C18.version."+v, func() string {
			f := r.file("couchbase/version.go")
			if f == nil {
				return sfUnknown
			}
			for _, d := range f.f.Decls {
				gd, ok := d.(*ast.GenDecl)
				if !ok || gd.Tok != token.VAR {
					continue
				}
				for _, sp := range gd.Specs {
					vs := sp.(*ast.ValueSpec)
					for i, n := range vs.Names {
						if n.Name != v || i >= len(vs.Values) {
							continue
						}
						x := vs.Values[i]
						if u, ok := x.(*ast.UnaryExpr); ok && u.Op == token.AND {
							x = u.X
						}
						cl, ok := x.(*ast.CompositeLit)
						if !ok || len(cl.Elts) != 4 {
							return sfUnknown
						}
						if id, ok := cl.Type.(*ast.Ident); !ok || id.Name != "Version" {
							return sfUnknown
						}
						fields := map[string]int{"Major": 0, "Minor": 1, "Patch": 2, "Build": 3}
						out := make([]string, 4)
						for j, el := range cl.Elts {
							k := j
							if kv, ok := el.(*ast.KeyValueExpr); ok {
								id, ok := kv.Key.(*ast.Ident)
								if !ok {
									return sfUnknown
								}
								p, ok := fields[id.Name]
								if !ok {
									return sfUnknown
								}
								k, el = p, kv.Value
							}
							bl, ok := el.(*ast.BasicLit)
							if !ok || bl.Kind != token.INT || out[k] != "" {
								return sfUnknown
							}
							out[k] = bl.Value
						}
						return strings.Join(out, ".")
					}
				}
			}
			return sfUnknown
		})
	}

	// ===== 9. dcp.go
	whole("C13.dcp-close-order", "dcp.go", "dcp", "close")
	add("C11+C13.dcp-start-tail", func() string {
		f := r.file("dcp.go")
		fd := f.fn("dcp", "Start")
		if fd == nil {
			return sfUnknown
		}
		recv := sfRecvName(fd)
		idx, n := -1, 0
		for i, s := range fd.Body.List {
			if sfIsRecvCall(s, recv, "stream", "Open") != nil {
				idx = i
				n++
			}
		}
		if n != 1 {
			return sfUnknown
		}
		return sfSkeletonRange(f, fd, idx, -1)
	})
	whole("C11.dcp-membership-listener", "dcp.go", "dcp", "membershipChangedListener")
	whole("C13.dcp-Close", "dcp.go", "dcp", "Close")
	whole("C05.dcp-Commit", "dcp.go", "dcp", "Commit")
	return facts
}

// sfCutSort cuts the `sort.…(…)` call out of a skeleton (the comparator fact is that part of monitor)
func sfCutSort(s string) string {
	i := strings.Index(s, "sort.")
	if i < 0 {
		return sfUnknown
	}
	depth, j := 0, i
	for ; j < len(s); j++ {
		switch s[j] {
		case '(', '{':
			depth++
		case ')', '}':
			depth--
			if depth == 0 {
				return s[i : j+1]
			}
		}
	}
	return sfUnknown
}

func runSrcFacts(c *Ctx) {
	r := sfOpen()
	only := map[string]bool{}
	if replayFile != "" {
		if fh, err := os.Open(replayFile); err == nil {
			sc := bufio.NewScanner(fh)
			sc.Buffer(make([]byte, 1<<20), 1<<24)
			for sc.Scan() {
				f := strings.Fields(strings.SplitN(sc.Text(), "\t", 2)[0])
				if len(f) == 2 && f[0] == "src-fact" {
					only[f[1]] = true
				}
			}
			fh.Close()
		}
	}
	n, unknown := 0, 0
	for _, f := range sfFacts(r) {
		if len(only) > 0 && !only[f.name] {
			continue
		}
		val := func() (v string) {
			defer func() {
				if recover() != nil {
					v = sfUnknown // a shape the pass did not foresee
				}
			}()
			return f.get()
		}()
		if f.name == "C10.membership-comparator" && val != sfUnknown {
			val = sfCutSort(val)
		}
		if val == "" || strings.ContainsAny(val, "\t\n") {
			val = sfUnknown
		}
		c.E.Line("src-fact "+f.name, val)
		tag := "fact:recognised"
		if val == sfUnknown {
			tag = "fact:unknown"
			unknown++
		}
		n++
		c.E.EndCase(true, tag, "file:"+sfFileOf(f.name))
	}
	c.Extra["facts"] = n
	c.Extra["unknown"] = unknown
	c.Extra["repo"] = r.root
}

// sfFileOf: a coarse histogram key (which part of the tree a fact came from)
func sfFileOf(name string) string {
	i := strings.Index(name, ".")
	rest := name[i+1:]
	switch {
	case strings.HasPrefix(rest, "observer."):
		return "couchbase/observer.go"
	case strings.HasPrefix(rest, "openstream.") || rest == "failover-scan":
		return "couchbase/client.go"
	case strings.HasPrefix(rest, "health."):
		return "couchbase/healthcheck.go"
	case strings.HasPrefix(rest, "dcp-"):
		return "dcp.go"
	case strings.HasPrefix(rest, "load.") || strings.HasPrefix(rest, "save-") || strings.HasPrefix(rest, "schedule-"):
		return "stream/checkpoint.go"
	case strings.HasPrefix(rest, "const.") || strings.HasPrefix(rest, "version.") || strings.HasSuffix(rest, "-key") ||
		rest == "checkpoint-id" || rest == "instance-type" || rest == "min-seqno" || rest == "membership-comparator":
		return "other"
	}
	return "stream/stream.go"
}
