package main

// Stream "c07e2e" (property C07, layer L2): the WHOLE library with rollback mitigation enabled.
// A real dcp.NewDcp(cfg, listener) + Start() (in-process, as stream life-dcp) runs against a simulated
// cluster of 1-3 KV nodes, 4-8 vBuckets, 1-2 replicas (harness/sim).  Nothing is faked between the
// OBSERVE_SEQNO answers of the nodes and the listener: couchbase.NewRollbackMitigation(s.client, …,
// s.dispatchPersistSeqNo) is created and started by stream.Open(), the dispatches reach
// stream.dispatchPersistSeqNo → s.observers.Load(vbID) → observer.SetPersistSeqNo, the events pushed by
// the nodes wait in observer.waitRollbackMitigation, stream.Close() stops the mitigation and closes the
// observers.  (Streams c07rm / c07gate tie the two halves separately; this stream ties the glue.)
//
// One op line = one case (the handlers of the Lean driver are stateless):
//
//	e2e-script SPEC STEP…
//	  SPEC  KV:NVB:REP:MEM:BUCKET:IV:CK:ROWS   (see lean/GoDcp/Driver/RmE2E.lean)
//	  start | push:V:MS:ME:Q.Q… | persist:NODE:V:UUID:SEQ | wait | reb:M:T | close
//	observation: one token per step  d<V:Q.Q,…>;h<N>;t<V:P,…>[;p<V.V…>]  |  hang  |  -
//	  d  mutations the listener has received so far, per vBucket, sorted
//	  h  mutations pushed in the open session that the listener has not seen
//	  t  non-zero observer thresholds of the open session (Stream.GetObservers / GetPersistSeqNo, read-only)
//	  p  vBuckets for which an OBSERVE_SEQNO request reached any node during the poll window of the step
//
// Timing discipline.  A `persist`, `wait`, `start`, `reb` step ends when every listed copy of every assigned
// vBucket was asked three more times (two complete poll rounds with the new answer; a request is only sent
// after the previous answer of that copy was processed on the same connection, so the dispatch of the first
// round is over by then); with nothing to poll (closed, ephemeral) the step waits three intervals.  Whether a
// pushed event will still be delivered is NOT decided by a sleep: the harness reads the REAL thresholds and
// waits (at most 1.5 s) until the listener has received exactly the events those thresholds let pass, in queue
// order per connection; it reports what it saw in either case.  Every wait has a deadline (`hang`).
// stream.Close closes the observers one after the other while gocbcore's queue goroutines run: a queued event whose own gate
// is open can still reach the listener during a `close` / `reb` step (rare, seen under CPU load).  The Lean handler takes the
// mutations that are new in the token of such a step as the scheduler's choice (`late`) and accepts them only if they pass
// their own vBucket's gate.
// OBSERVE_SEQNO answers are (0,0) while stream.Open has not stored the observers yet (BeforeStreamStop …
// AfterStreamStart): a report that arrives earlier is dropped by dispatchPersistSeqNo and never repeated
// (finding F10, outside C07).  `dynamic` membership uses the two answer delays of stream life-dcp (F9b).

import (
	"bufio"
	"fmt"
	"os"
	"sort"
	"strconv"
	"strings"
	"sync"
	"time"

	dcp "github.com/Trendyol/go-dcp"
	"github.com/Trendyol/go-dcp/helpers"
	"github.com/Trendyol/go-dcp/membership"
	"github.com/Trendyol/go-dcp/models"
	"github.com/Trendyol/go-dcp/stream"
	"github.com/asaskevich/EventBus"
	"github.com/couchbase/gocbcore/v10/memd"

	"verifharness/sim"
)

func init() { props["c07e2e"] = runC07E2E }

type e2eSpec struct {
	kv, nvb, rep int
	dyn          bool
	m0, t0       int
	eph          bool
	iv           int
	auto         bool
	rows         [][]int // -1 = unlisted
}

type e2eStep struct {
	kind    string // start push persist wait reb close
	v, a, b int    // push: vb, ms, me; persist: node=a, vb=v; reb: m=a, t=b
	u, q    uint64 // persist
	qs      []uint64
}

func (sp *e2eSpec) String() string {
	mem := "s"
	if sp.dyn {
		mem = fmt.Sprintf("d%d.%d", sp.m0, sp.t0)
	}
	b, ck := "m", "m"
	if sp.eph {
		b = "e"
	}
	if sp.auto {
		ck = "a"
	}
	var rows []string
	for _, r := range sp.rows {
		var p []string
		for _, n := range r {
			if n < 0 {
				p = append(p, "u")
			} else {
				p = append(p, strconv.Itoa(n))
			}
		}
		rows = append(rows, strings.Join(p, "."))
	}
	return fmt.Sprintf("%d:%d:%d:%s:%s:%d:%s:%s", sp.kv, sp.nvb, sp.rep, mem, b, sp.iv, ck, strings.Join(rows, "/"))
}

func (s e2eStep) String() string {
	switch s.kind {
	case "push":
		var p []string
		for _, q := range s.qs {
			p = append(p, strconv.FormatUint(q, 10))
		}
		l := "-"
		if len(p) > 0 {
			l = strings.Join(p, ".")
		}
		return fmt.Sprintf("push:%d:%d:%d:%s", s.v, s.a, s.b, l)
	case "persist":
		return fmt.Sprintf("persist:%d:%d:%d:%d", s.a, s.v, s.u, s.q)
	case "reb":
		return fmt.Sprintf("reb:%d:%d", s.a, s.b)
	}
	return s.kind
}

func e2eOp(sp *e2eSpec, steps []e2eStep) string {
	p := []string{"e2e-script", sp.String()}
	for _, s := range steps {
		p = append(p, s.String())
	}
	return strings.Join(p, " ")
}

func e2eParse(op string) (*e2eSpec, []e2eStep, bool) {
	f := strings.Fields(op)
	if len(f) < 2 || f[0] != "e2e-script" {
		return nil, nil, false
	}
	sf := strings.Split(f[1], ":")
	if len(sf) != 8 {
		return nil, nil, false
	}
	sp := &e2eSpec{m0: 1, t0: 1}
	var err error
	atoi := func(s string) int {
		v, e := strconv.Atoi(s)
		if e != nil || v < 0 {
			err = fmt.Errorf("bad number")
		}
		return v
	}
	sp.kv, sp.nvb, sp.rep, sp.iv = atoi(sf[0]), atoi(sf[1]), atoi(sf[2]), atoi(sf[5])
	switch {
	case sf[3] == "s":
	case strings.HasPrefix(sf[3], "d"):
		mt := strings.Split(sf[3][1:], ".")
		if len(mt) != 2 {
			return nil, nil, false
		}
		sp.dyn, sp.m0, sp.t0 = true, atoi(mt[0]), atoi(mt[1])
	default:
		return nil, nil, false
	}
	if (sf[4] != "m" && sf[4] != "e") || (sf[6] != "a" && sf[6] != "m") {
		return nil, nil, false
	}
	sp.eph, sp.auto = sf[4] == "e", sf[6] == "a"
	for _, r := range strings.Split(sf[7], "/") {
		var row []int
		for _, x := range strings.Split(r, ".") {
			if x == "u" {
				row = append(row, -1)
			} else {
				row = append(row, atoi(x))
			}
		}
		sp.rows = append(sp.rows, row)
	}
	if err != nil || sp.kv < 1 || sp.kv > 4 || sp.nvb < 1 || sp.nvb > 64 || sp.rep > 3 || len(sp.rows) != sp.nvb ||
		sp.iv < 5 || sp.iv > 200 || sp.m0 < 1 || sp.m0 > sp.t0 || sp.t0 > sp.nvb {
		return nil, nil, false
	}
	for _, row := range sp.rows {
		if len(row) != sp.rep+1 || row[0] < 0 {
			return nil, nil, false
		}
		seen := map[int]bool{}
		for _, n := range row {
			if n >= sp.kv || (n >= 0 && seen[n]) {
				return nil, nil, false
			}
			seen[n] = true
		}
	}
	var steps []e2eStep
	for _, t := range f[2:] {
		p := strings.Split(t, ":")
		st := e2eStep{kind: p[0]}
		switch {
		case (p[0] == "start" || p[0] == "wait" || p[0] == "close") && len(p) == 1:
		case p[0] == "push" && len(p) == 5:
			st.v, st.a, st.b = atoi(p[1]), atoi(p[2]), atoi(p[3])
			if p[4] != "-" {
				for _, x := range strings.Split(p[4], ".") {
					q, e := strconv.ParseUint(x, 10, 64)
					// an event outside its snapshot makes the observer panic on a gocbcore goroutine
					if e != nil || q < uint64(st.a) || q > uint64(st.b) {
						return nil, nil, false
					}
					st.qs = append(st.qs, q)
				}
			}
		case p[0] == "persist" && len(p) == 5:
			st.a, st.v = atoi(p[1]), atoi(p[2])
			var e1, e2 error
			st.u, e1 = strconv.ParseUint(p[3], 10, 64)
			st.q, e2 = strconv.ParseUint(p[4], 10, 64)
			if e1 != nil || e2 != nil || st.a >= sp.kv || st.v >= sp.nvb {
				return nil, nil, false
			}
		case p[0] == "reb" && len(p) == 3:
			st.a, st.b = atoi(p[1]), atoi(p[2])
			if !sp.dyn || st.a < 1 || st.a > st.b || st.b > sp.nvb {
				return nil, nil, false
			}
		default:
			return nil, nil, false
		}
		if err != nil {
			return nil, nil, false
		}
		steps = append(steps, st)
	}
	return sp, steps, true
}

// ---- one case = one cluster + one dcp

type e2ePush struct {
	vb   int
	gate uint64 // the seqno canForward is called with (marker: its START seqno)
	doc  bool
}

type e2eEnv struct {
	sp       *e2eSpec
	node     *sim.Node
	d        dcp.Dcp
	bus      EventBus.Bus
	eh       *fakeEH
	interval time.Duration
	done     chan struct{}

	mu         sync.Mutex
	attached   bool
	asked      map[[2]int]int // (node, vb): OBSERVE_SEQNO requests answered with the copy's real answer
	polled     map[int]int    // vb: all OBSERVE_SEQNO requests
	got        map[int][]uint64
	gotSet     map[[2]uint64]bool
	queue      map[int][]e2ePush // per node: what was pushed in the open session, in order
	lo, hi     int
	open       bool
	returned   bool
	crash      string
	pollDead   bool
	memM, memT int
}

func (e *e2eEnv) listen(ctx *models.ListenerContext) {
	ctx.Ack()
	if m, ok := ctx.Event.(models.DcpMutation); ok {
		e.mu.Lock()
		e.got[int(m.VbID)] = append(e.got[int(m.VbID)], m.SeqNo)
		e.gotSet[[2]uint64{uint64(m.VbID), m.SeqNo}] = true
		e.mu.Unlock()
	}
}

var e2eZeroAnswer = func(vb uint16) []byte {
	out := make([]byte, 27)
	out[1], out[2] = byte(vb>>8), byte(vb)
	return out
}

func (e *e2eEnv) onRequest(r sim.Request) sim.Action {
	if r.HTTP {
		return sim.Default()
	}
	switch r.Opcode {
	case memd.CmdObserveSeqNo:
		e.mu.Lock()
		e.polled[int(r.Vb)]++
		att := e.attached
		if att {
			e.asked[[2]int{r.Node, int(r.Vb)}]++
		}
		e.mu.Unlock()
		if !att {
			// the copies have "nothing to report" while no observer could receive it (F10 is outside C07)
			return sim.Action{Kind: sim.KindStatus, Code: memd.StatusSuccess, Value: e2eZeroAnswer(r.Vb)}
		}
	case memd.CmdGetAllVBSeqnos:
		if e.sp.dyn && !ldNoDelay {
			return sim.Delay(ldDynLoadDelay) // see l2_life.go onRequest (F9b)
		}
	case memd.CmdDcpCloseStream:
		if e.sp.dyn && !ldNoDelay {
			return sim.Delay(ldDynLoadDelay / 2)
		}
	}
	return sim.Default()
}

func (e *e2eEnv) rangeOf(m, t int) (int, int) {
	vbs := make([]int, e.sp.nvb)
	for i := range vbs {
		vbs[i] = i
	}
	c := helpers.ChunkSlice[int](vbs, t)[m-1]
	return c[0], c[len(c)-1]
}

func (e *e2eEnv) stream() stream.Stream {
	if e.d == nil {
		return nil
	}
	v, ok := ldPrivate(e.d, "stream")
	if !ok || v.IsNil() {
		return nil
	}
	s, _ := v.Interface().(stream.Stream)
	return s
}

// the REAL thresholds of the open session's observers (nil: no observers)
func (e *e2eEnv) thresholds() (thr map[int]uint64) {
	defer func() {
		if recover() != nil {
			thr = nil
		}
	}()
	s := e.stream()
	if s == nil {
		return nil
	}
	obs := s.GetObservers()
	if obs == nil {
		return nil
	}
	thr = map[int]uint64{}
	for vb := 0; vb < e.sp.nvb; vb++ {
		if o, ok := obs.Load(uint16(vb)); ok {
			thr[vb] = uint64(o.GetPersistSeqNo())
		}
	}
	return thr
}

func (e *e2eEnv) gating() bool {
	return e.d != nil && !e.d.GetConfig().RollbackMitigation.Disabled
}

// settle waits until the listener has received exactly what the real thresholds let pass (per connection in
// queue order: the callback of a held event holds the queue goroutine of its connection), at most `limit`.
func (e *e2eEnv) settle(limit time.Duration) {
	deadline := time.Now().Add(limit)
	for {
		e.mu.Lock()
		open := e.open
		e.mu.Unlock()
		if !open {
			return
		}
		thr := e.thresholds()
		gate := e.gating()
		e.mu.Lock()
		same, over := true, false
		for _, q := range e.queue {
			blocked := false
			for _, p := range q {
				if !blocked && gate {
					t, has := thr[p.vb]
					if thr == nil || !has || p.gate > t {
						blocked = true
					}
				}
				if !p.doc {
					continue
				}
				have := e.gotSet[[2]uint64{uint64(p.vb), p.gate}]
				if have && blocked {
					over = true
				}
				if have == blocked {
					same = false
				}
			}
		}
		e.mu.Unlock()
		if same || over || time.Now().After(deadline) {
			return
		}
		time.Sleep(400 * time.Microsecond)
	}
}

// listed copies of the assigned vBuckets with their request counters
func (e *e2eEnv) marks() map[[2]int]int {
	e.mu.Lock()
	defer e.mu.Unlock()
	m := map[[2]int]int{}
	if !e.open {
		return m
	}
	for vb := e.lo; vb <= e.hi; vb++ {
		for _, nd := range e.sp.rows[vb] {
			if nd >= 0 {
				m[[2]int{nd, vb}] = e.asked[[2]int{nd, vb}]
			}
		}
	}
	return m
}

// rounds: every listed copy of every assigned vBucket asked three more times; nothing to poll: three intervals
func (e *e2eEnv) rounds(m map[[2]int]int) {
	if len(m) == 0 || !e.gating() || e.pollDead {
		time.Sleep(3 * e.interval)
		return
	}
	deadline := time.Now().Add(time.Second)
	for {
		e.mu.Lock()
		ok := true
		for k, c := range m {
			if e.asked[k] < c+3 {
				ok = false
				break
			}
		}
		e.mu.Unlock()
		if ok {
			return
		}
		if time.Now().After(deadline) {
			e.pollDead = true // polling does not happen: later steps do not wait a second each
			return
		}
		time.Sleep(500 * time.Microsecond)
	}
}

func (e *e2eEnv) pollMark() map[int]int {
	e.mu.Lock()
	defer e.mu.Unlock()
	m := map[int]int{}
	for k, v := range e.polled {
		m[k] = v
	}
	return m
}

func (e *e2eEnv) token(pm map[int]int) string {
	thr := e.thresholds()
	e.mu.Lock()
	defer e.mu.Unlock()
	var d, t, p []string
	for vb := 0; vb < e.sp.nvb; vb++ {
		if l := e.got[vb]; len(l) > 0 {
			s := append([]uint64(nil), l...)
			sort.Slice(s, func(i, j int) bool { return s[i] < s[j] })
			var x []string
			for _, q := range s {
				x = append(x, strconv.FormatUint(q, 10))
			}
			d = append(d, fmt.Sprintf("%d:%s", vb, strings.Join(x, ".")))
		}
		if e.open && thr != nil && thr[vb] != 0 {
			t = append(t, fmt.Sprintf("%d:%d", vb, thr[vb]))
		}
		if pm != nil && e.polled[vb] > pm[vb] {
			p = append(p, strconv.Itoa(vb))
		}
	}
	held := 0
	if e.open {
		for _, q := range e.queue {
			for _, x := range q {
				if x.doc && !e.gotSet[[2]uint64{uint64(x.vb), x.gate}] {
					held++
				}
			}
		}
	}
	dash := func(l []string, sep string) string {
		if len(l) == 0 {
			return "-"
		}
		return strings.Join(l, sep)
	}
	out := fmt.Sprintf("d%s;h%d;t%s", dash(d, ","), held, dash(t, ","))
	if pm != nil {
		out += ";p" + dash(p, ".")
	}
	return out
}

func (e *e2eEnv) ehCount(tok string) int {
	e.eh.mu.Lock()
	defer e.eh.mu.Unlock()
	n := 0
	for _, s := range e.eh.log {
		if s == tok {
			n++
		}
	}
	return n
}

func (e *e2eEnv) isReturned() bool {
	e.mu.Lock()
	defer e.mu.Unlock()
	return e.returned
}

func (e *e2eEnv) newSession(m, t int) {
	lo, hi := e.rangeOf(m, t)
	e.mu.Lock()
	e.lo, e.hi, e.open = lo, hi, true
	e.queue = map[int][]e2ePush{}
	e.mu.Unlock()
}

func (e *e2eEnv) start() string {
	sp := e.sp
	cfg := e.node.Config("c07e2e", "couchbase")
	cfg.RollbackMitigation.Disabled = false
	cfg.RollbackMitigation.Interval = e.interval
	cfg.RollbackMitigation.ConfigWatchInterval = 20 * time.Millisecond
	if sp.dyn {
		cfg.Dcp.Group.Membership.Type = membership.DynamicMembershipType
	} else {
		cfg.Dcp.Group.Membership.Type = membership.StaticMembershipType
		cfg.Dcp.Group.Membership.MemberNumber = 1
		cfg.Dcp.Group.Membership.TotalMembers = 1
	}
	if sp.auto {
		cfg.Checkpoint.Type = "auto"
		cfg.Checkpoint.Interval = time.Hour
	} else {
		cfg.Checkpoint.Type = "manual"
	}
	type res struct {
		d   dcp.Dcp
		err error
	}
	ch := make(chan res, 1)
	go func() {
		d, err := dcp.NewDcp(cfg, e.listen)
		ch <- res{d, err}
	}()
	select {
	case r := <-ch:
		if r.err != nil {
			return "boot-failed"
		}
		e.d = r.d
	case <-time.After(10 * time.Second):
		return "hang"
	}
	e.eh.hook = func(s string) {
		switch s {
		case "ASS":
			e.mu.Lock()
			e.attached = true
			e.mu.Unlock()
		case "BSP":
			e.mu.Lock()
			e.attached = false
			e.mu.Unlock()
		}
	}
	e.d.SetEventHandler(e.eh)
	if sp.dyn {
		bv, ok := ldPrivate(e.d, "bus")
		if !ok {
			return "no-bus"
		}
		e.bus, ok = bv.Interface().(EventBus.Bus)
		if !ok || e.bus == nil {
			return "no-bus"
		}
	}
	e.memM, e.memT = sp.m0, sp.t0
	e.newSession(sp.m0, sp.t0)
	go func() {
		defer func() {
			r := recover()
			e.mu.Lock()
			if r != nil {
				e.crash = classifyPanic(r)
			}
			e.returned = true
			e.mu.Unlock()
			close(e.done)
		}()
		e.d.Start()
	}()
	if sp.dyn {
		for i := 0; i < 20000 && !e.bus.HasCallback(helpers.MembershipChangedBusEventName) && !e.isReturned(); i++ {
			time.Sleep(500 * time.Microsecond)
		}
		e.bus.Publish(helpers.MembershipChangedBusEventName, &membership.Model{MemberNumber: sp.m0, TotalMembers: sp.t0})
	}
	select {
	case <-e.d.WaitUntilReady():
	case <-e.done:
		return "stopped"
	case <-time.After(10 * time.Second):
		return "hang"
	}
	return ""
}

func (e *e2eEnv) rebalance(m, t int) string {
	before := e.ehCount("ARE")
	e.memM, e.memT = m, t
	e.bus.Publish(helpers.MembershipChangedBusEventName, &membership.Model{MemberNumber: m, TotalMembers: t})
	deadline := time.Now().Add(5 * time.Second)
	for e.ehCount("ARE") == before {
		if time.Now().After(deadline) || e.isReturned() {
			return "hang"
		}
		time.Sleep(300 * time.Microsecond)
	}
	e.newSession(m, t)
	return ""
}

func (e *e2eEnv) exec(st e2eStep) string {
	switch st.kind {
	case "start":
		if e.d != nil {
			return e.token(e.pollMark())
		}
		pm := e.pollMark()
		if r := e.start(); r != "" {
			return r
		}
		e.rounds(e.marks())
		e.settle(1500 * time.Millisecond)
		return e.token(pm)
	case "push":
		e.mu.Lock()
		open := e.open && st.v >= e.lo && st.v <= e.hi && st.v < e.sp.nvb
		e.mu.Unlock()
		if open && e.d != nil {
			nd := e.sp.rows[st.v][0]
			if e.node.PushSnapshot(uint16(st.v), uint64(st.a), uint64(st.b), 1) == nil {
				e.mu.Lock()
				e.queue[nd] = append(e.queue[nd], e2ePush{vb: st.v, gate: uint64(st.a)})
				e.mu.Unlock()
				for _, q := range st.qs {
					if e.node.PushMutation(uint16(st.v), q, 1, 0, 0, 1700000000000000000, 0, []byte("k"+strconv.FormatUint(q, 10)), []byte("v"), 0) != nil {
						break
					}
					e.mu.Lock()
					e.queue[nd] = append(e.queue[nd], e2ePush{vb: st.v, gate: q, doc: true})
					e.mu.Unlock()
				}
			}
		}
		e.settle(1500 * time.Millisecond)
		return e.token(nil)
	case "persist", "wait":
		pm := e.pollMark()
		if st.kind == "persist" {
			e.node.SetPersist(st.a, uint16(st.v), st.u, st.q)
		}
		m := e.marks()
		e.rounds(m)
		e.settle(1500 * time.Millisecond)
		return e.token(pm)
	case "reb":
		e.mu.Lock()
		open := e.open
		e.mu.Unlock()
		if !open || e.d == nil {
			pm := e.pollMark()
			time.Sleep(3 * e.interval)
			return e.token(pm)
		}
		if r := e.rebalance(st.a, st.b); r != "" {
			return r
		}
		// the closed session's mitigation was stopped before the reopen: from here on only the new range is polled
		pm := e.pollMark()
		e.rounds(e.marks())
		e.settle(1500 * time.Millisecond)
		return e.token(pm)
	case "close":
		if e.d != nil && !e.isReturned() {
			e.d.Close()
			select {
			case <-e.done:
			case <-time.After(5 * time.Second):
				return "hang"
			}
		}
		e.mu.Lock()
		e.open = false
		e.queue = map[int][]e2ePush{}
		e.mu.Unlock()
		pm := e.pollMark()
		time.Sleep(3 * e.interval)
		return e.token(pm)
	}
	return "bad-op"
}

func e2eRunCase(op string) (out string) {
	sp, steps, ok := e2eParse(op)
	if !ok {
		return "bad-op"
	}
	e := &e2eEnv{sp: sp, eh: &fakeEH{}, interval: time.Duration(sp.iv) * time.Millisecond, done: make(chan struct{}),
		asked: map[[2]int]int{}, polled: map[int]int{}, got: map[int][]uint64{}, gotSet: map[[2]uint64]bool{}, queue: map[int][]e2ePush{}}
	bt := "membase"
	if sp.eph {
		bt = "ephemeral"
	}
	e.node = sim.New(sim.Options{NumVb: sp.nvb, Replicas: sp.rep, KVNodes: sp.kv, BucketType: bt})
	for vb, row := range sp.rows {
		e.node.SetReplicaMap(uint16(vb), row)
		for _, nd := range row {
			if nd >= 0 {
				e.node.SetPersist(nd, uint16(vb), 0, 0)
			}
		}
	}
	if err := e.node.Start(); err != nil {
		return "boot-failed"
	}
	e.node.OnRequest(e.onRequest)
	toks := make([]string, 0, len(steps))
	dead := false
	defer func() {
		// tear down whatever state the case is in
		clean := true
		func() {
			defer func() { _ = recover() }()
			if e.d != nil && !e.isReturned() {
				if dead {
					clean = false
					return
				}
				e.d.Close()
				select {
				case <-e.done:
				case <-time.After(5 * time.Second):
					clean = false
				}
			}
		}()
		if clean {
			e.node.Close()
		}
	}()
	for _, st := range steps {
		if dead {
			toks = append(toks, "-")
			continue
		}
		var r string
		func() {
			defer func() {
				if p := recover(); p != nil {
					r = "harness-panic"
				}
			}()
			r = e.exec(st)
		}()
		if !strings.HasPrefix(r, "d") {
			dead = true
		}
		toks = append(toks, r)
	}
	return strings.Join(toks, " ")
}

// ---- generator

type e2eGen struct {
	r                     *Rng
	sp                    *e2eSpec
	steps                 []e2eStep
	tags                  map[string]bool
	next                  []uint64 // per vb: smallest seqno not pushed yet (unique over the whole case)
	lo, hi                int
	open, started, closed bool
	truth                 map[[2]int][2]uint64 // (vb, idx)
	parked                map[int][]uint64     // per vb: seqnos pushed in the open session (candidates for a covering persist)
}

func (g *e2eGen) listed(vb int) []int {
	var l []int
	for i, n := range g.sp.rows[vb] {
		if n >= 0 {
			l = append(l, i)
		}
	}
	return l
}

func (g *e2eGen) rangeOf(m, t int) (int, int) {
	vbs := make([]int, g.sp.nvb)
	for i := range vbs {
		vbs[i] = i
	}
	c := helpers.ChunkSlice[int](vbs, t)[m-1]
	return c[0], c[len(c)-1]
}

func (g *e2eGen) pickVb() int {
	if g.open && g.r.Chance(85) {
		return g.r.Range(g.lo, g.hi)
	}
	return g.r.Intn(g.sp.nvb)
}

func (g *e2eGen) persist(vb, idx int, u, q uint64) {
	nd := g.sp.rows[vb][idx]
	g.steps = append(g.steps, e2eStep{kind: "persist", a: nd, v: vb, u: u, q: q})
	g.truth[[2]int{vb, idx}] = [2]uint64{u, q}
}

func (g *e2eGen) step() {
	r := g.r
	x := r.Intn(100)
	switch {
	case x < 34: // push
		vb := g.pickVb()
		n := r.Range(0, 3)
		if r.Chance(85) && n == 0 {
			n = 1
		}
		first := g.next[vb] + uint64(r.Intn(2))
		ms := first
		if r.Chance(30) && first > g.next[vb] {
			ms = g.next[vb]
		}
		var qs []uint64
		q := first
		for i := 0; i < n; i++ {
			qs = append(qs, q)
			q += uint64(r.Range(1, 2))
		}
		me := q - 1
		if n == 0 {
			me = ms + uint64(r.Intn(2))
			g.tags["marker-only"] = true
		} else if r.Chance(25) {
			me += uint64(r.Intn(3))
		}
		g.next[vb] = me + 1
		g.steps = append(g.steps, e2eStep{kind: "push", v: vb, a: int(ms), b: int(me), qs: qs})
		if g.open && vb >= g.lo && vb <= g.hi {
			g.parked[vb] = append(g.parked[vb], qs...)
			g.tags["push"] = true
		} else {
			g.tags["push.no-stream"] = true
		}
	case x < 52: // one copy moves
		vb := g.pickVb()
		l := g.listed(vb)
		idx := l[r.Intn(len(l))]
		cur := g.truth[[2]int{vb, idx}]
		u, q := uint64(5), cur[1]+uint64(r.Range(0, 4))
		switch c := r.Intn(100); {
		case c < 12:
			u = 6 // failover on that copy: the copies disagree
			g.tags["uuid-change"] = true
		case c < 20:
			q = uint64(r.Intn(4)) // goes back
		case c < 26:
			u, q = cur[0], cur[1] // the same answer again
			g.tags["repeat"] = true
		}
		g.persist(vb, idx, u, q)
	case x < 78: // all listed copies of a vBucket reach a common value, one copy per step
		vb := g.pickVb()
		var target uint64
		if p := g.parked[vb]; len(p) > 0 && r.Chance(85) {
			target = p[r.Intn(len(p))]
			if r.Chance(20) && target > 0 {
				target-- // exactly one below a waiting seqno
				g.tags["one-below"] = true
			}
		} else {
			target = g.next[vb] + uint64(r.Intn(3))
		}
		l := g.listed(vb)
		for _, j := range rmPerm(r, l) {
			q := target
			if r.Chance(35) {
				q += uint64(r.Intn(3))
			}
			g.persist(vb, j, 5, q)
		}
		g.tags["cover"] = true
	case x < 84:
		g.steps = append(g.steps, e2eStep{kind: "wait"})
	case x < 90: // a copy that is not listed / a node that holds no copy changes
		vb := g.pickVb()
		nd := r.Intn(g.sp.kv)
		g.steps = append(g.steps, e2eStep{kind: "persist", a: nd, v: vb, u: 5, q: uint64(r.Range(1, 20))})
		for i, n := range g.sp.rows[vb] {
			if n == nd {
				g.truth[[2]int{vb, i}] = [2]uint64{5, g.steps[len(g.steps)-1].q}
			}
		}
	default:
		if g.sp.dyn && g.open {
			t := r.Range(1, 3)
			if t > g.sp.nvb {
				t = g.sp.nvb
			}
			m := r.Range(1, t)
			g.steps = append(g.steps, e2eStep{kind: "reb", a: m, b: t})
			lo, hi := g.rangeOf(m, t)
			if lo != g.lo || hi != g.hi {
				g.tags["rebalance.other-range"] = true
			} else {
				g.tags["rebalance.same-range"] = true
			}
			g.lo, g.hi = lo, hi
			g.parked = map[int][]uint64{}
		} else {
			g.steps = append(g.steps, e2eStep{kind: "wait"})
		}
	}
}

func e2eGenCase(r *Rng) (string, []string) {
	sp := &e2eSpec{kv: r.Range(1, 3), nvb: r.Range(4, 8), rep: r.Range(1, 2), m0: 1, t0: 1, iv: r.Range(15, 25), auto: r.Chance(40)}
	sp.eph = r.Chance(8)
	if r.Chance(45) {
		sp.dyn = true
		sp.t0 = r.Range(1, 3)
		sp.m0 = r.Range(1, sp.t0)
	}
	for vb := 0; vb < sp.nvb; vb++ {
		nodes := rmPerm(r, []int{0, 1, 2}[:sp.kv])
		row := []int{nodes[0]}
		k := 1
		for i := 1; i <= sp.rep; i++ {
			if k < len(nodes) && !r.Chance(20) {
				row = append(row, nodes[k])
				k++
			} else {
				row = append(row, -1)
			}
		}
		sp.rows = append(sp.rows, row)
	}
	g := &e2eGen{r: r, sp: sp, tags: map[string]bool{}, next: make([]uint64, sp.nvb), truth: map[[2]int][2]uint64{}, parked: map[int][]uint64{}}
	for i := range g.next {
		g.next[i] = 1
	}
	if r.Chance(25) { // the copies have persisted something before the client starts
		for i := r.Range(1, 3); i > 0; i-- {
			vb := r.Intn(sp.nvb)
			l := g.listed(vb)
			g.persist(vb, l[r.Intn(len(l))], 5, uint64(r.Range(1, 6)))
		}
		g.tags["persisted-before-start"] = true
	}
	g.steps = append(g.steps, e2eStep{kind: "start"})
	g.lo, g.hi = g.rangeOf(sp.m0, sp.t0)
	g.open, g.started = true, true
	for i := r.Range(7, 13); i > 0; i-- {
		g.step()
	}
	g.steps = append(g.steps, e2eStep{kind: "wait"})
	if r.Chance(70) {
		g.steps = append(g.steps, e2eStep{kind: "close"})
		g.open, g.closed = false, true
		g.parked = map[int][]uint64{}
		g.tags["close"] = true
		for i := r.Range(1, 2); i > 0; i-- {
			// nothing may be delivered or polled after Close(), whatever the copies persist
			vb := r.Intn(sp.nvb)
			l := g.listed(vb)
			g.persist(vb, l[r.Intn(len(l))], 5, uint64(r.Range(10, 30)))
		}
	}
	tags := []string{fmt.Sprintf("kvnodes-%d", sp.kv), fmt.Sprintf("replicas-%d", sp.rep)}
	if sp.dyn {
		tags = append(tags, "membership.dynamic")
	} else {
		tags = append(tags, "membership.static")
	}
	if sp.eph {
		tags = append(tags, "ephemeral")
	}
	for _, row := range sp.rows {
		for _, n := range row {
			if n < 0 {
				g.tags["unlisted-copies"] = true
			}
		}
	}
	for t := range g.tags {
		tags = append(tags, t)
	}
	sort.Strings(tags)
	return e2eOp(sp, g.steps), tags
}

// constant across seeds
var e2eDirected = []string{
	// a held event of vBucket 0 holds the covered events of vBucket 1 on the same connection (node 0); vBucket 2 streams from node 1
	"e2e-script 2:4:1:s:m:20:m:0.1/0.1/1.0/1.0 start push:0:1:3:1.2.3 push:1:1:2:1.2 push:2:1:2:1.2 persist:0:1:5:2 persist:1:1:5:2 persist:1:2:5:1 persist:0:2:5:1 persist:0:0:5:3 persist:1:0:5:2 persist:1:0:5:9 wait close persist:0:1:5:9",
	// the neighbours of a vBucket persist, the vBucket itself does not
	"e2e-script 3:6:2:s:m:15:a:0.1.2/1.2.0/2.0.1/0.1.u/1.u.2/2.0.1 start push:1:1:4:2.4 push:3:1:1:1 persist:0:0:5:9 persist:1:0:5:9 persist:2:0:5:9 persist:0:2:5:9 persist:1:2:5:9 persist:2:2:5:9 wait persist:1:1:5:4 persist:2:1:5:4 persist:0:1:5:3 persist:0:1:6:4 persist:0:1:5:4 close",
	// rebalance away from vBuckets with parked events; their copies persist afterwards; then back
	"e2e-script 2:6:1:d1.2:m:20:m:0.1/1.0/0.1/1.0/0.1/1.0 start push:0:1:2:1.2 push:1:1:1:1 push:4:1:1:1 reb:2:2 persist:0:0:5:5 persist:1:0:5:5 persist:0:1:5:5 persist:1:1:5:5 push:3:1:2:1.2 push:0:3:3:3 persist:1:3:5:1 persist:0:3:5:1 reb:1:2 push:0:4:5:4.5 persist:0:0:5:4 wait close persist:1:0:5:9",
	// the same range again: a new session starts with threshold 0 and learns what the copies answer now
	"e2e-script 1:4:1:d1.1:m:25:a:0.u/0.u/0.u/0.u persist:0:2:5:3 start push:2:1:4:2.4 push:3:1:1:1 reb:1:1 push:2:5:6:5.6 persist:0:2:5:5 persist:0:3:5:1 wait close",
	// (found under CPU load) vBucket 1 is covered (threshold 13) but queued behind the held mutation 1 of vBucket 0: when Close
	// closes the observer of vBucket 0 first and the queue goroutine runs before vBucket 1's observer is closed, 1:1 is delivered
	"e2e-script 1:6:1:s:m:16:m:0.u/0.u/0.u/0.u/0.u/0.u start push:0:1:7:1.3.5 push:1:1:3:1.2 persist:0:3:5:2 push:4:1:4:1.3.4 persist:0:1:5:0 persist:0:5:5:2 persist:0:5:5:1 persist:0:1:5:13 push:0:9:9:9 persist:0:2:5:0 persist:0:5:5:12 push:1:5:7:5.7 wait close persist:0:0:5:24 persist:0:3:5:12",
	// ephemeral bucket: the mitigation is switched off, everything is delivered at once
	"e2e-script 2:4:1:s:e:20:m:0.1/1.0/0.1/1.0 start push:0:1:3:1.2.3 push:1:2:2:2 persist:0:0:5:1 wait close persist:1:1:5:9",
}

func e2eReadReplay(path string) []string {
	f, err := os.Open(path)
	if err != nil {
		panic(err)
	}
	defer f.Close()
	var ops []string
	sc := bufio.NewScanner(f)
	sc.Buffer(make([]byte, 1<<20), 1<<24)
	for sc.Scan() {
		op := strings.TrimSpace(strings.SplitN(sc.Text(), "\t", 2)[0])
		if op != "" && !strings.HasPrefix(op, "#") {
			ops = append(ops, op)
		}
	}
	return ops
}

func runC07E2E(c *Ctx) {
	var ops []string
	var tags [][]string
	if replayFile != "" {
		for _, op := range e2eReadReplay(replayFile) {
			ops = append(ops, op)
			tags = append(tags, []string{"replay"})
		}
	} else {
		for _, op := range e2eDirected {
			ops = append(ops, op)
			tags = append(tags, []string{"directed"})
		}
		rng := &Rng{s: rbMix(c.Seed ^ 0xC07E2E)}
		for i := c.N(400, 3000); i > 0; i-- {
			op, t := e2eGenCase(rng)
			ops = append(ops, op)
			tags = append(tags, t)
		}
	}
	res := make([]string, len(ops))
	par := 12
	sem := make(chan struct{}, par)
	var wg sync.WaitGroup
	t0 := time.Now()
	var maxCase time.Duration
	var mu sync.Mutex
	for i := range ops {
		wg.Add(1)
		sem <- struct{}{}
		go func(i int) {
			defer wg.Done()
			defer func() { <-sem }()
			t1 := time.Now()
			res[i] = e2eRunCase(ops[i])
			mu.Lock()
			if d := time.Since(t1); d > maxCase {
				maxCase = d
			}
			mu.Unlock()
		}(i)
	}
	wg.Wait()
	c.Extra["wall_ms"] = time.Since(t0).Milliseconds()
	c.Extra["max_case_ms"] = maxCase.Milliseconds()
	c.Extra["parallel_cases"] = par
	for i, op := range ops {
		c.E.Line(op, res[i])
		t := tags[i]
		delivered, held := false, false
		for _, tok := range strings.Fields(res[i]) {
			if strings.HasPrefix(tok, "d") && !strings.HasPrefix(tok, "d-") {
				delivered = true
			}
			if strings.Contains(tok, ";h") && !strings.Contains(tok, ";h0;") {
				held = true
			}
		}
		// stream.Close closes the observers one after the other: a queued, covered event may get through while it does
		steps := strings.Fields(op)
		rtoks := strings.Fields(res[i])
		for k := 1; k < len(rtoks) && k+2 < len(steps); k++ {
			st := steps[k+2]
			if (st == "close" || strings.HasPrefix(st, "reb:")) && strings.HasPrefix(rtoks[k], "d") && strings.HasPrefix(rtoks[k-1], "d") &&
				strings.SplitN(rtoks[k], ";", 2)[0] != strings.SplitN(rtoks[k-1], ";", 2)[0] {
				t = append(append([]string{}, t...), "delivered-while-closing")
				break
			}
		}
		if delivered {
			t = append(append([]string{}, t...), "delivered")
		}
		if held {
			t = append(append([]string{}, t...), "held")
		}
		c.E.EndCase(delivered && held, t...)
	}
}
