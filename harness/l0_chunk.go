package main

import (
	"fmt"
	"strings"
	"sync"
	"time"

	"github.com/Trendyol/go-dcp/config"
	"github.com/Trendyol/go-dcp/helpers"
	"github.com/Trendyol/go-dcp/membership"
	"github.com/Trendyol/go-dcp/stream"
	"github.com/asaskevich/EventBus"
)

func init() { props["c09"] = runC09 }

func realChunk(n, t int) (res string) {
	defer func() {
		if r := recover(); r != nil {
			res = "panic"
		}
	}()
	vbs := make([]uint16, n)
	for i := range vbs {
		vbs[i] = uint16(i)
	}
	chunks := helpers.ChunkSlice[uint16](vbs, t)
	var sb []string
	for _, c := range chunks {
		if len(c) == 0 {
			sb = append(sb, "empty")
			continue
		}
		// a chunk is reported as [first, last+1); contiguity of the ids inside is checked here
		for k := 1; k < len(c); k++ {
			if c[k] != c[k-1]+1 {
				sb = append(sb, "noncontig")
			}
		}
		sb = append(sb, fmt.Sprintf("%d:%d", c[0], int(c[len(c)-1])+1))
	}
	return strings.Join(sb, " ")
}

// real vBucketDiscovery.Get() with static membership
func realMember(n, t, m int) (res string) {
	defer func() {
		if r := recover(); r != nil {
			res = "panic"
		}
	}()
	cfg := &config.Dcp{}
	cfg.Dcp.Group.Membership.Type = "static"
	cfg.Dcp.Group.Membership.MemberNumber = m
	cfg.Dcp.Group.Membership.TotalMembers = t
	d := stream.NewVBucketDiscovery(nil, cfg, n, nil)
	vbs := d.Get()
	for k := 1; k < len(vbs); k++ {
		if vbs[k] != vbs[k-1]+1 {
			return "noncontig"
		}
	}
	mt := d.GetMetric()
	if mt.VBucketRangeStart != vbs[0] || mt.VBucketRangeEnd != vbs[len(vbs)-1] || mt.TotalMembers != t || mt.MemberNumber != m {
		return "metric-mismatch"
	}
	return fmt.Sprintf("%d %d", vbs[0], vbs[len(vbs)-1])
}

// one long-lived VBucketDiscovery (dynamic membership fed through the bus, as the API / HA variants do)
// asked again after every membership change: the range must be a function of (N, T, m) only
func realMemberSeq(n int, steps [][2]int) (res string) {
	defer func() {
		if r := recover(); r != nil {
			res = "panic"
		}
	}()
	bus := EventBus.New()
	cfg := &config.Dcp{}
	cfg.Dcp.Group.Membership.Type = "dynamic"
	d := stream.NewVBucketDiscovery(nil, cfg, n, bus)
	var out []string
	for _, st := range steps {
		bus.Publish(helpers.MembershipChangedBusEventName, &membership.Model{MemberNumber: st[1], TotalMembers: st[0]})
		bus.WaitAsync()
		vbs := d.Get()
		ok := true
		for k := 1; k < len(vbs); k++ {
			if vbs[k] != vbs[k-1]+1 {
				ok = false
			}
		}
		if !ok || len(vbs) == 0 {
			out = append(out, "bad")
			continue
		}
		out = append(out, fmt.Sprintf("%d-%d", vbs[0], vbs[len(vbs)-1]))
	}
	return strings.Join(out, " ")
}

// realMemberFirst: a discovery with dynamic membership whose first Get() is already waiting for the first membership
// information when TWO informations arrive back to back (start-up of a group that is still forming). Whatever Get() returns
// must be the range of ONE consistent (member, total) pair - the first one, which is what the waiting channel delivers -
// and the discovery metric must show that same pair next to that range.
func realMemberFirst(n int, a, b [2]int) string {
	// the only way to know that Get() is already waiting is to give it time: when the answer shows the second pair (Get() started
	// late and found the membership already informed - legal, but not the scenario) the case is repeated with a longer wait
	wait := 100 * time.Millisecond
	for try := 0; ; try++ {
		res := realMemberFirstOnce(n, a, b, wait)
		if try == 3 || a == b || !strings.Contains(res, fmt.Sprintf(" %d/%d ", b[1], b[0])) {
			return res
		}
		wait *= 3
	}
}

func realMemberFirstOnce(n int, a, b [2]int, wait time.Duration) (res string) {
	defer func() {
		if r := recover(); r != nil {
			res = "panic"
		}
	}()
	bus := EventBus.New()
	cfg := &config.Dcp{}
	cfg.Dcp.Group.Membership.Type = "dynamic"
	d := stream.NewVBucketDiscovery(nil, cfg, n, bus)
	type ret struct {
		vbs []uint16
		pan bool
	}
	ch := make(chan ret, 1)
	go func() {
		defer func() {
			if r := recover(); r != nil {
				ch <- ret{pan: true}
			}
		}()
		ch <- ret{vbs: d.Get()}
	}()
	time.Sleep(wait) // Get() is blocked in GetInfo by now
	bus.Publish(helpers.MembershipChangedBusEventName, &membership.Model{MemberNumber: a[1], TotalMembers: a[0]})
	bus.Publish(helpers.MembershipChangedBusEventName, &membership.Model{MemberNumber: b[1], TotalMembers: b[0]})
	bus.WaitAsync()
	select {
	case r := <-ch:
		if r.pan {
			return "panic"
		}
		vbs := r.vbs
		if len(vbs) == 0 {
			return "bad"
		}
		for k := 1; k < len(vbs); k++ {
			if vbs[k] != vbs[k-1]+1 {
				return "bad"
			}
		}
		m := d.GetMetric()
		return fmt.Sprintf("%d-%d %d/%d %d-%d", vbs[0], vbs[len(vbs)-1], m.MemberNumber, m.TotalMembers, m.VBucketRangeStart, m.VBucketRangeEnd)
	case <-time.After(3 * time.Second):
		return "hang"
	}
}

func runC09(c *Ctx) {
	e := c.E
	one := func(n, t int) {
		e.Line(fmt.Sprintf("chunk %d %d", n, t), realChunk(n, t))
		e.EndCase(t > 1 && t < n, "chunk")
	}
	mem := func(n, t, m int) {
		e.Line(fmt.Sprintf("member %d %d %d", n, t, m), realMember(n, t, m))
		e.EndCase(t > 1, "member")
	}
	// exhaustive N ≤ limit, all T; all members for a sub-range
	limit := c.N(160, 1024)
	for n := 1; n <= limit; n++ {
		for t := 1; t <= n; t++ {
			one(n, t)
		}
	}
	mlimit := c.N(48, 128)
	for n := 1; n <= mlimit; n++ {
		for t := 1; t <= n; t++ {
			for m := 1; m <= t; m++ {
				mem(n, t, m)
			}
		}
	}
	for _, n := range []int{64, 128, 256, 512, 1024} {
		for t := 1; t <= n; t++ {
			one(n, t)
			// first, last and a random member of every group size
			mem(n, t, 1)
			mem(n, t, t)
			mem(n, t, 1+c.R.Intn(t))
		}
	}
	// membership histories on one discovery instance: grow, shrink, repeat (statefulness would show here)
	for i := 0; i < c.N(400, 4000); i++ {
		n := []int{8, 64, 128, 1024, 1 + c.R.Intn(1024)}[c.R.Intn(5)]
		k := 2 + c.R.Intn(5)
		var steps [][2]int
		var sb []string
		t := 1 + c.R.Intn(minI(n, 16))
		for j := 0; j < k; j++ {
			switch c.R.Intn(4) {
			case 0:
				if t > 1 {
					t -= 1 + c.R.Intn(t-1)
				}
			case 1:
				t = minI(n, t+1+c.R.Intn(4))
			case 2:
				t = 1 + c.R.Intn(minI(n, 64))
			}
			m := 1 + c.R.Intn(t)
			steps = append(steps, [2]int{t, m})
			sb = append(sb, fmt.Sprintf("%d:%d", t, m))
		}
		e.Line(fmt.Sprintf("member-seq %d %s", n, strings.Join(sb, ",")), realMemberSeq(n, steps))
		e.EndCase(true, "member-seq")
	}
	// two membership informations arriving while the first Get() is waiting (run concurrently: each waits 20 ms)
	{
		type fc struct {
			n    int
			a, b [2]int
			res  string
		}
		var fcs []*fc
		for i := 0; i < c.N(60, 600); i++ {
			n := []int{64, 128, 1024, 1 + c.R.Intn(1024)}[c.R.Intn(4)]
			t1 := 1 + c.R.Intn(minI(n, 12))
			t2 := 1 + c.R.Intn(minI(n, 12))
			fcs = append(fcs, &fc{n: n, a: [2]int{t1, 1 + c.R.Intn(t1)}, b: [2]int{t2, 1 + c.R.Intn(t2)}})
		}
		var wg sync.WaitGroup
		for _, f := range fcs {
			wg.Add(1)
			go func(f *fc) { defer wg.Done(); f.res = realMemberFirst(f.n, f.a, f.b) }(f)
		}
		wg.Wait()
		for _, f := range fcs {
			e.Line(fmt.Sprintf("member-first %d %d:%d,%d:%d", f.n, f.a[0], f.a[1], f.b[0], f.b[1]), f.res)
			e.EndCase(f.a != f.b, "member-first")
		}
	}
	c.Extra["exhaustive_chunk_upto_N"] = limit
	c.Extra["exhaustive_member_upto_N"] = mlimit
	// random beyond (up to the uint16 id space)
	for i := 0; i < c.N(300, 3000); i++ {
		n := 1025 + c.R.Intn(65536-1025)
		t := 1 + c.R.Intn(n)
		if c.R.Chance(50) {
			t = 1 + c.R.Intn(64)
		}
		one(n, t)
		mem(n, t, 1+c.R.Intn(t))
	}
}

func minI(a, b int) int {
	if a < b {
		return a
	}
	return b
}
