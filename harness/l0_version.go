package main

// Stream c18: couchbase.Version ordering, the version parser and the three
// version gates (DESIGN.md §7 C18).
//
//   ver-intsize                          strconv.IntSize (the model assumes 64)
//   ver-cmp  a(4) b(4)                   real a.Higher/Equal/Lower(b) and b.…(a)      -> `HEL HEL`
//   ver-tri  a(4) b(4) c(4)              the six ordered pairs of a triple           -> ab ba ac ca bc cb
//   ver-gate K a(4) b(4)                 gate decisions for a and b (K=1: Magma)     -> `XCS XCS`
//         X, C: the exported expressions newDcp evaluates; S: taken from the REAL
//         stream.NewStream (is streamEndNotSupportedData allocated?), falling back
//         to v.Lower(SrvVer550) if that field can no longer be found by reflection
//   ver-parse =<enc>                     the unexported nodeVersionFromString, driven through the exported
//         couchbase.NewHTTPClient(cfg, client).GetVersion() against a local HTTP
//         server answering GET /pools with {"implementationVersion": <string>}
//   ver-render F M m p b =<enc edition>  the same for a string rendered from numbers (forms: 1 `M`, 2 `M.m`,
//         3 `M.m.p`, 4 `M.m.p-b`, 0 `M.m.p-b-edition`)
//   ver-gates-src                        go/parser over $VERIF_REPO/dcp.go and stream/stream.go: truth tables
//         of the three gate conditions over a fixed sample grid (see verGatesSrc)
//
// Text is sent as `=<enc>`: bytes 0x21..0x7e except '%' literally, others %XX.

import (
	"encoding/json"
	"fmt"
	"go/ast"
	"go/parser"
	"go/token"
	"math"
	"net/http"
	"net/http/httptest"
	"os"
	"path/filepath"
	"reflect"
	"strconv"
	"strings"
	"sync"

	"github.com/Trendyol/go-dcp/config"
	"github.com/Trendyol/go-dcp/couchbase"
	"github.com/Trendyol/go-dcp/models"
	"github.com/Trendyol/go-dcp/stream"
)

func init() { props["c18"] = runC18 }

// ---------------------------------------------------------------- text encoding

func verEnc(s string) string {
	var sb strings.Builder
	sb.WriteByte('=')
	for i := 0; i < len(s); i++ {
		c := s[i]
		if c >= 0x21 && c <= 0x7e && c != '%' {
			sb.WriteByte(c)
		} else {
			fmt.Fprintf(&sb, "%%%02X", c)
		}
	}
	return sb.String()
}

func verDec(t string) (string, bool) {
	if !strings.HasPrefix(t, "=") {
		return "", false
	}
	t = t[1:]
	var sb strings.Builder
	for i := 0; i < len(t); i++ {
		if t[i] == '%' {
			if i+2 >= len(t) {
				return "", false
			}
			n, err := strconv.ParseUint(t[i+1:i+3], 16, 8)
			if err != nil {
				return "", false
			}
			sb.WriteByte(byte(n))
			i += 2
		} else {
			sb.WriteByte(t[i])
		}
	}
	return sb.String(), true
}

// ---------------------------------------------------------------- the comparison methods

type verV = couchbase.Version

func verBit(b bool) string {
	if b {
		return "1"
	}
	return "0"
}

// real Higher/Equal/Lower of the ordered pair (a, b)
func verTri(a, b *verV) (res string) {
	defer func() {
		if r := recover(); r != nil {
			res = "panic"
		}
	}()
	return verBit(a.Higher(b)) + verBit(a.Equal(b)) + verBit(a.Lower(b))
}

func verStr(v *verV) string { return fmt.Sprintf("%d %d %d %d", v.Major, v.Minor, v.Patch, v.Build) }

// which component decides the comparison (histogram only)
func verLevel(a, b *verV) string {
	switch {
	case a.Major != b.Major:
		return "decided-by-major"
	case a.Minor != b.Minor:
		return "decided-by-minor"
	case a.Patch != b.Patch:
		return "decided-by-patch"
	case a.Build != b.Build:
		return "decided-by-build"
	}
	return "identical"
}

// ---------------------------------------------------------------- the gates

var verSerialViaNewStream = true

// the decision NewStream really takes: is streamEndNotSupportedData allocated?
func verSerialReal(v *verV) (serial bool, ok bool) {
	defer func() {
		if r := recover(); r != nil {
			ok = false
		}
	}()
	cfg := &config.Dcp{}
	st := stream.NewStream(nil, nil, cfg, v, &couchbase.BucketInfo{}, nil, nil, nil, nil, nil, nil)
	rv := reflect.ValueOf(st)
	for rv.Kind() == reflect.Interface || rv.Kind() == reflect.Ptr {
		rv = rv.Elem()
	}
	f := rv.FieldByName("streamEndNotSupportedData")
	if !f.IsValid() || f.Kind() != reflect.Ptr {
		return false, false
	}
	return !f.IsNil(), true
}

func verGates(v *verV, magma bool) (res string) {
	defer func() {
		if r := recover(); r != nil {
			res = "panic"
		}
	}()
	bi := &couchbase.BucketInfo{StorageBackend: "couchstore"}
	if magma {
		bi.StorageBackend = "magma"
	}
	// dcp.go newDcp, the same exported expressions
	exp := v.Higher(couchbase.SrvVer650) || v.Equal(couchbase.SrvVer650)
	cs := bi.IsMagma() && (v.Higher(couchbase.SrvVer720) || v.Equal(couchbase.SrvVer720))
	serial := v.Lower(couchbase.SrvVer550)
	if verSerialViaNewStream {
		if s, ok := verSerialReal(v); ok {
			serial = s
		} else {
			verSerialViaNewStream = false
		}
	}
	return verBit(exp) + verBit(cs) + verBit(serial)
}

// ---------------------------------------------------------------- the parser through GetVersion()

type verFakeClient struct {
	couchbase.Client // nil: only Ping is used by couchbase.httpClient.Connect
	mgmt             string
}

func (f *verFakeClient) Ping() (*models.PingResult, error) {
	return &models.PingResult{MgmtEndpoint: f.mgmt}, nil
}

type verPools struct {
	mu   sync.Mutex
	body []byte
	srv  *httptest.Server
	hc   couchbase.HTTPClient
	hits int
}

func newVerPools() *verPools {
	p := &verPools{}
	p.srv = httptest.NewServer(http.HandlerFunc(func(w http.ResponseWriter, r *http.Request) {
		if r.URL.Path != "/pools" {
			http.NotFound(w, r)
			return
		}
		p.mu.Lock()
		b := p.body
		p.hits++
		p.mu.Unlock()
		w.Header().Set("Content-Type", "application/json")
		_, _ = w.Write(b)
	}))
	cfg := &config.Dcp{Username: "u", Password: "p", BucketName: "b"}
	p.hc = couchbase.NewHTTPClient(cfg, &verFakeClient{mgmt: p.srv.URL})
	if err := p.hc.Connect(); err != nil {
		panic(err)
	}
	return p
}

// absent: answer `{}` (no implementationVersion member) instead of an empty string
func (p *verPools) parse(s string, absent bool) (res string) {
	defer func() {
		if r := recover(); r != nil {
			res = "panic"
		}
	}()
	var body []byte
	if absent {
		body = []byte(`{"isEnterprise": true}`)
	} else {
		js, err := json.Marshal(s)
		if err != nil {
			panic(err)
		}
		body = []byte(`{"isEnterprise": true, "implementationVersion": ` + string(js) + `, "uuid": "x"}`)
	}
	p.mu.Lock()
	p.body = body
	p.mu.Unlock()
	v, err := p.hc.GetVersion()
	if err != nil {
		switch err.Error() {
		case "must provide at least a major version":
			return "err empty"
		case "major version is not a valid integer":
			return "err major"
		case "minor version is not a valid integer":
			return "err minor"
		case "patch version is not a valid integer":
			return "err patch"
		}
		m := err.Error()
		if len(m) > 60 {
			m = m[:60]
		}
		return "err other:" + strings.Map(func(r rune) rune {
			if r < 0x21 || r > 0x7e {
				return '_'
			}
			return r
		}, m)
	}
	if v == nil {
		return "nil"
	}
	return "ok " + verStr(v)
}

func verRenderText(form int, M, m, p, b, ed string) string {
	switch form {
	case 1:
		return M
	case 2:
		return M + "." + m
	case 3:
		return M + "." + m + "." + p
	case 4:
		return M + "." + m + "." + p + "-" + b
	}
	return M + "." + m + "." + p + "-" + b + "-" + ed
}

// ---------------------------------------------------------------- gate conditions from the sources

// Sample grid shared with lean/GoDcp/Driver/Version.lean `samplePoints`.
func verSamplePoints() []*verV {
	var out []*verV
	for M := 4; M <= 8; M++ {
		for m := 1; m <= 6; m++ {
			for p := -1; p <= 1; p++ {
				for b := -1; b <= 1; b++ {
					out = append(out, &verV{Major: M, Minor: m, Patch: p, Build: b})
				}
			}
		}
	}
	return out
}

func verRLE(bs []bool) string {
	if len(bs) == 0 {
		return ""
	}
	var parts []string
	cur, n := bs[0], 1
	for _, b := range bs[1:] {
		if b == cur {
			n++
			continue
		}
		parts = append(parts, fmt.Sprintf("%sx%d", verBit(cur), n))
		cur, n = b, 1
	}
	parts = append(parts, fmt.Sprintf("%sx%d", verBit(cur), n))
	return strings.Join(parts, ",")
}

type verEval struct {
	consts map[string]*verV // package-level `Name = &Version{…}` of couchbase/version.go
	v      *verV
	magma  bool
}

func verIntLit(x ast.Expr) (int, bool) {
	switch e := x.(type) {
	case *ast.BasicLit:
		if e.Kind == token.INT {
			n, err := strconv.ParseInt(e.Value, 0, 64)
			return int(n), err == nil
		}
	case *ast.UnaryExpr:
		if e.Op == token.SUB {
			n, ok := verIntLit(e.X)
			return -n, ok
		}
	case *ast.ParenExpr:
		return verIntLit(e.X)
	}
	return 0, false
}

// &Version{a,b,c,d} / &couchbase.Version{Major: a, …}
func verLit(x ast.Expr) (*verV, bool) {
	if u, ok := x.(*ast.UnaryExpr); ok && u.Op == token.AND {
		x = u.X
	}
	cl, ok := x.(*ast.CompositeLit)
	if !ok {
		return nil, false
	}
	switch t := cl.Type.(type) {
	case *ast.Ident:
		if t.Name != "Version" {
			return nil, false
		}
	case *ast.SelectorExpr:
		if t.Sel.Name != "Version" {
			return nil, false
		}
	default:
		return nil, false
	}
	v := &verV{}
	fields := []*int{&v.Major, &v.Minor, &v.Patch, &v.Build}
	names := map[string]int{"Major": 0, "Minor": 1, "Patch": 2, "Build": 3}
	for i, el := range cl.Elts {
		if kv, ok := el.(*ast.KeyValueExpr); ok {
			k, ok := kv.Key.(*ast.Ident)
			if !ok {
				return nil, false
			}
			idx, ok := names[k.Name]
			if !ok {
				return nil, false
			}
			n, ok := verIntLit(kv.Value)
			if !ok {
				return nil, false
			}
			*fields[idx] = n
			continue
		}
		if i >= 4 || len(cl.Elts) != 4 {
			return nil, false
		}
		n, ok := verIntLit(el)
		if !ok {
			return nil, false
		}
		*fields[i] = n
	}
	return v, true
}

func (e *verEval) constant(x ast.Expr) (*verV, bool) {
	switch c := x.(type) {
	case *ast.SelectorExpr: // couchbase.SrvVer650
		if _, ok := c.X.(*ast.Ident); ok {
			v, ok := e.consts[c.Sel.Name]
			return v, ok
		}
		return nil, false
	case *ast.ParenExpr:
		return e.constant(c.X)
	}
	return verLit(x)
}

// the version under test: a plain identifier (`version`)
func verIsVar(x ast.Expr) bool {
	id, ok := x.(*ast.Ident)
	return ok && id.Name != "true" && id.Name != "false" && id.Name != "nil"
}

func verCall(a *verV, name string, b *verV) (bool, bool) {
	switch name {
	case "Higher":
		return a.Higher(b), true
	case "Equal":
		return a.Equal(b), true
	case "Lower":
		return a.Lower(b), true
	}
	return false, false
}

// Boolean combinations of version.Higher/Equal/Lower(<constant>) and x.IsMagma()
func (e *verEval) eval(x ast.Expr) (bool, bool) {
	switch n := x.(type) {
	case *ast.ParenExpr:
		return e.eval(n.X)
	case *ast.Ident:
		if n.Name == "true" {
			return true, true
		}
		if n.Name == "false" {
			return false, true
		}
	case *ast.UnaryExpr:
		if n.Op == token.NOT {
			b, ok := e.eval(n.X)
			return !b, ok
		}
	case *ast.BinaryExpr:
		l, ok1 := e.eval(n.X)
		r, ok2 := e.eval(n.Y)
		if !ok1 || !ok2 {
			return false, false
		}
		switch n.Op {
		case token.LOR:
			return l || r, true
		case token.LAND:
			return l && r, true
		case token.EQL:
			return l == r, true
		case token.NEQ:
			return l != r, true
		}
	case *ast.CallExpr:
		sel, ok := n.Fun.(*ast.SelectorExpr)
		if !ok {
			return false, false
		}
		if sel.Sel.Name == "IsMagma" && len(n.Args) == 0 && verIsVar(sel.X) {
			return e.magma, true
		}
		if len(n.Args) != 1 {
			return false, false
		}
		if verIsVar(sel.X) {
			if c, ok := e.constant(n.Args[0]); ok {
				return verCall(e.v, sel.Sel.Name, c)
			}
			return false, false
		}
		if c, ok := e.constant(sel.X); ok && verIsVar(n.Args[0]) {
			return verCall(c, sel.Sel.Name, e.v)
		}
	}
	return false, false
}

func verIsBoolLit(x ast.Expr, want string) bool {
	id, ok := x.(*ast.Ident)
	return ok && id.Name == want
}

// condition under which `name` becomes true in file f: either the single
// `if cond { name = true }` or the single `name = <expr>` / `name := <expr>`
func verAssignCond(f *ast.File, name string) ast.Expr {
	var conds []ast.Expr
	bad := false
	inIf := map[*ast.AssignStmt]bool{}
	isName := func(x ast.Expr) bool {
		id, ok := x.(*ast.Ident)
		return ok && id.Name == name
	}
	ast.Inspect(f, func(n ast.Node) bool {
		switch s := n.(type) {
		case *ast.IfStmt:
			if s.Init == nil && s.Else == nil && len(s.Body.List) == 1 {
				if as, ok := s.Body.List[0].(*ast.AssignStmt); ok && as.Tok == token.ASSIGN &&
					len(as.Lhs) == 1 && len(as.Rhs) == 1 && isName(as.Lhs[0]) && verIsBoolLit(as.Rhs[0], "true") {
					conds = append(conds, s.Cond)
					inIf[as] = true
				}
			}
		case *ast.AssignStmt:
			if inIf[s] {
				return true
			}
			for i, l := range s.Lhs {
				if !isName(l) {
					continue
				}
				if len(s.Lhs) != len(s.Rhs) || (s.Tok != token.ASSIGN && s.Tok != token.DEFINE) ||
					verIsBoolLit(s.Rhs[i], "true") {
					bad = true
				} else if !verIsBoolLit(s.Rhs[i], "false") { // `name = false` / `name := false` is the default
					conds = append(conds, s.Rhs[i])
				}
			}
		case *ast.ValueSpec:
			for i, id := range s.Names {
				if id.Name == name && len(s.Values) == len(s.Names) && !verIsBoolLit(s.Values[i], "false") {
					conds = append(conds, s.Values[i])
				}
			}
		}
		return true
	})
	if bad || len(conds) != 1 {
		return nil
	}
	return conds[0]
}

// the `if cond { stream.streamEndNotSupportedData = … }` of func NewStream
func verSerialCond(f *ast.File) ast.Expr {
	var conds []ast.Expr
	for _, d := range f.Decls {
		fd, ok := d.(*ast.FuncDecl)
		if !ok || fd.Name.Name != "NewStream" || fd.Recv != nil || fd.Body == nil {
			continue
		}
		ast.Inspect(fd.Body, func(n ast.Node) bool {
			s, ok := n.(*ast.IfStmt)
			if !ok || s.Init != nil || s.Else != nil {
				return true
			}
			for _, st := range s.Body.List {
				if as, ok := st.(*ast.AssignStmt); ok {
					for _, l := range as.Lhs {
						if sel, ok := l.(*ast.SelectorExpr); ok && sel.Sel.Name == "streamEndNotSupportedData" {
							conds = append(conds, s.Cond)
						}
					}
				}
			}
			return true
		})
	}
	if len(conds) != 1 {
		return nil
	}
	return conds[0]
}

func verConsts(f *ast.File) map[string]*verV {
	out := map[string]*verV{}
	for _, d := range f.Decls {
		gd, ok := d.(*ast.GenDecl)
		if !ok || gd.Tok != token.VAR {
			continue
		}
		for _, sp := range gd.Specs {
			vs, ok := sp.(*ast.ValueSpec)
			if !ok || len(vs.Names) != len(vs.Values) {
				continue
			}
			for i, id := range vs.Names {
				if v, ok := verLit(vs.Values[i]); ok {
					out[id.Name] = v
				}
			}
		}
	}
	return out
}

// truth table of cond over the sample grid; "" if some atom is outside the language
func verTable(consts map[string]*verV, cond ast.Expr, magmas []bool) (string, bool) {
	if cond == nil {
		return "", false
	}
	var bits []bool
	for _, mg := range magmas {
		for _, v := range verSamplePoints() {
			e := &verEval{consts: consts, v: v, magma: mg}
			b, ok := func() (b bool, ok bool) {
				defer func() {
					if r := recover(); r != nil {
						ok = false
					}
				}()
				return e.eval(cond)
			}()
			if !ok {
				return "", false
			}
			bits = append(bits, b)
		}
	}
	return verRLE(bits), true
}

// verGatesSrc re-reads the gate conditions from the sources of the repo under
// test.  A condition that is found and lies in the little language is
// evaluated (real comparison methods, constants as written in version.go) on
// the sample grid and reported as run-length-encoded truth table; semantically
// equal rewrites give the same table.  Anything else is `unknown`, which the
// model side accepts (a refactoring must not alarm; the behavioural lines
// remain).  A Magma-dependent expiry/serial condition is reported as such.
func verGatesSrc(repo string, tag func(string)) string {
	fset := token.NewFileSet()
	parse := func(rel string) *ast.File {
		f, err := parser.ParseFile(fset, filepath.Join(repo, rel), nil, 0)
		if err != nil {
			return nil
		}
		return f
	}
	consts := map[string]*verV{}
	if f := parse("couchbase/version.go"); f != nil {
		consts = verConsts(f)
	}
	dcpF, strF := parse("dcp.go"), parse("stream/stream.go")
	field := func(name string, cond ast.Expr, magmaDep bool) string {
		if cond == nil {
			tag("src-" + name + "-not-found")
			return name + "=unknown"
		}
		if magmaDep {
			t, ok := verTable(consts, cond, []bool{false, true})
			if !ok {
				tag("src-" + name + "-unrecognised")
				return name + "=unknown"
			}
			tag("src-" + name + "-evaluated")
			return name + "=" + t
		}
		t0, ok0 := verTable(consts, cond, []bool{false})
		t1, ok1 := verTable(consts, cond, []bool{true})
		if !ok0 || !ok1 {
			tag("src-" + name + "-unrecognised")
			return name + "=unknown"
		}
		tag("src-" + name + "-evaluated")
		if t0 != t1 {
			return name + "=magma-dependent"
		}
		return name + "=" + t0
	}
	var ce, cc, cs ast.Expr
	if dcpF != nil {
		ce, cc = verAssignCond(dcpF, "useExpiryOpcode"), verAssignCond(dcpF, "useChangeStreams")
	}
	if strF != nil {
		cs = verSerialCond(strF)
	}
	return field("expiry", ce, false) + " " + field("changeStreams", cc, true) + " " + field("serialClose", cs, false)
}

// ---------------------------------------------------------------- generators

var verGateConsts = []*verV{couchbase.SrvVer550, couchbase.SrvVer650, couchbase.SrvVer720}

func verComp(r *Rng) int {
	switch k := r.Intn(100); {
	case k < 35:
		return r.Intn(10)
	case k < 50:
		return r.Range(-3, 3)
	case k < 65:
		return []int{5, 6, 7, 2, 0}[r.Intn(5)] + r.Range(-1, 1)
	case k < 75:
		return r.Intn(100000)
	case k < 88:
		big := []int{math.MaxInt64, math.MinInt64, math.MaxInt64 - 1, math.MinInt64 + 1, 1 << 31, -(1 << 31),
			1<<31 - 1, 1 << 32, 1 << 62, -(1 << 62), 1<<53 + 1, -1}
		return big[r.Intn(len(big))]
	}
	return int(int64(r.U64()))
}

func verRand(r *Rng) *verV {
	return &verV{Major: verComp(r), Minor: verComp(r), Patch: verComp(r), Build: verComp(r)}
}

// a version related to a: equal prefix of random length, then a changed component
func verNear(r *Rng, a *verV) *verV {
	b := *a
	if r.Chance(8) {
		return &b
	}
	lvl := r.Intn(4)
	f := []*int{&b.Major, &b.Minor, &b.Patch, &b.Build}
	for i := lvl; i < 4; i++ {
		if i == lvl || r.Chance(60) {
			switch r.Intn(4) {
			case 0:
				*f[i] = verComp(r)
			case 1:
				*f[i]++ // wraps at MaxInt64 like any Go int
			case 2:
				*f[i]--
			default:
				*f[i] = -*f[i]
			}
		}
	}
	return &b
}

func verGridAround(c *verV, d int) []*verV {
	var out []*verV
	for a := -d; a <= d; a++ {
		for b := -d; b <= d; b++ {
			for e := -d; e <= d; e++ {
				for f := -d; f <= d; f++ {
					out = append(out, &verV{Major: c.Major + a, Minor: c.Minor + b, Patch: c.Patch + e, Build: c.Build + f})
				}
			}
		}
	}
	return out
}

// natural numbers as decimal text (may exceed int64 on purpose)
func verNat(r *Rng) (string, string) {
	switch k := r.Intn(100); {
	case k < 45:
		return strconv.Itoa(r.Intn(10)), "n-small"
	case k < 65:
		return strconv.Itoa(r.Intn(100000)), "n-medium"
	case k < 75:
		return strconv.FormatUint(r.U64()>>1, 10), "n-int63"
	case k < 85:
		return r.Pick("9223372036854775807", "9223372036854775806", "999999999999999999", "1000000000000000000",
			"2147483647", "2147483648", "4294967296"), "n-boundary-fits"
	case k < 93:
		return r.Pick("9223372036854775808", "9223372036854775809", "18446744073709551615", "18446744073709551616",
			"18446744073709551620", "99999999999999999999", "100000000000000000000000000"), "n-overflow"
	}
	n := 19 + r.Intn(8)
	var sb strings.Builder
	sb.WriteByte(byte('1' + r.Intn(9)))
	for i := 1; i < n; i++ {
		sb.WriteByte(byte('0' + r.Intn(10)))
	}
	return sb.String(), "n-long-random"
}

func verTypicalNat(r *Rng, hi int) string { return strconv.Itoa(r.Intn(hi)) }

var verEditions = []string{"enterprise", "community", "", "ee-beta", "enter.prise", "x.y-z.w", " ", "7", "-", "--", ".",
	"%41", "é", "enterprise edition", "1234", "-5", "\t"}

// one component for the malformed-string grammar
func verPiece(r *Rng) string {
	switch k := r.Intn(100); {
	case k < 30:
		return strconv.Itoa(r.Intn(12))
	case k < 38:
		return strconv.Itoa(r.Intn(100000))
	case k < 44:
		return ""
	case k < 50:
		return r.Pick("+", "-") + strconv.Itoa(r.Intn(20))
	case k < 54:
		return r.Pick("+", "-", "+-1", "-+1", "++1", "--1", "+ 1", "-0", "+0", "-00")
	case k < 60:
		return r.Pick(" 7", "7 ", " ", "7 2", "\t7", "7\n", " 7")
	case k < 66:
		return r.Pick("1_0", "_1", "1_", "0x10", "0X1F", "0b1", "0o7", "1e3", "1.5e1", "1E2", "0x", "٣", "１", "७", "²")
	case k < 72:
		return r.Pick("a", "abc", "v7", "7a", "a7", "enterprise", "NaN", "inf", "nil", "null", "x", "7,2", "7;2", "\x00", "7\x00")
	case k < 80:
		return r.Pick("9223372036854775807", "9223372036854775808", "-9223372036854775808", "-9223372036854775809",
			"+9223372036854775807", "+9223372036854775808", "18446744073709551615", "18446744073709551616",
			"-18446744073709551615", "-18446744073709551616", "99999999999999999999", "-99999999999999999999")
	case k < 86:
		// long, leading zeros: takes the slow path of Atoi but is a small number
		return strings.Repeat("0", 15+r.Intn(12)) + strconv.Itoa(r.Intn(1000))
	case k < 92:
		// overflow first, junk later (ParseUint reports the range error before it sees the junk) and the reverse
		return r.Pick("99999999999999999999x", "x99999999999999999999", "-99999999999999999999x", "99999999999999999999 ",
			"9999999999999999999x", "184467440737095516150", "18446744073709551615x", "1844674407370955161x5")
	}
	n := 1 + r.Intn(26)
	var sb strings.Builder
	for i := 0; i < n; i++ {
		sb.WriteByte(byte('0' + r.Intn(10)))
	}
	return sb.String()
}

func verMalformed(r *Rng) string {
	switch k := r.Intn(100); {
	case k < 55:
		// dotted skeleton with odd pieces and odd separators
		n := 1 + r.Intn(5)
		var sb strings.Builder
		for i := 0; i < n; i++ {
			if i > 0 {
				sb.WriteString(r.Pick(".", ".", ".", ".", ".", "..", "-", ",", " . ", ""))
			}
			if r.Chance(70) {
				sb.WriteString(strconv.Itoa(r.Intn(10)))
			} else {
				sb.WriteString(verPiece(r))
			}
		}
		if r.Chance(60) {
			sb.WriteString(r.Pick("-", "-", "-", "--", "", " -", "- ", "_"))
			sb.WriteString(verPiece(r))
			if r.Chance(60) {
				sb.WriteString(r.Pick("-", "-", "--", ".", ""))
				sb.WriteString(verEditions[r.Intn(len(verEditions))])
			}
		}
		return sb.String()
	case k < 75:
		// well-formed skeleton, exactly one odd piece
		parts := []string{strconv.Itoa(r.Intn(9)), strconv.Itoa(r.Intn(9)), strconv.Itoa(r.Intn(9)), strconv.Itoa(r.Intn(9999))}
		parts[r.Intn(4)] = verPiece(r)
		s := parts[0] + "." + parts[1] + "." + parts[2] + "-" + parts[3]
		if r.Chance(70) {
			s += "-" + verEditions[r.Intn(len(verEditions))]
		}
		return s
	case k < 85:
		return r.Pick("", ".", "..", "...", "-", "--", ".-", "-.", "7.", ".7", "7..2", "7.2.", "7.2.0-", "7.2.0--", "7.2.0-5-", "7.2.-5",
			"7.2.0-5325-enterprise", "7.2.0-5325-enterprise-extra", "7.2.0.5325", "7-2-0", "7.2-5", "7.2.0 -5", "7.2.0- 5",
			"v7.2.0", "7.2.0\n", " 7.2.0", "7.2.0 ", "７.2.0", "7。2。0", "6.5.0", "6.5.0-0000", "5.5.0-0", "07.02.00-0005")
	}
	// random text over a small alphabet
	alpha := "0123456789.-+ _exa"
	n := r.Intn(14)
	var sb strings.Builder
	for i := 0; i < n; i++ {
		sb.WriteByte(alpha[r.Intn(len(alpha))])
	}
	return sb.String()
}

// ---------------------------------------------------------------- the stream

type verRun struct {
	c     *Ctx
	pools *verPools
	repo  string
}

func (x *verRun) cmp(a, b *verV, tag string) {
	x.c.E.Line("ver-cmp "+verStr(a)+" "+verStr(b), verTri(a, b)+" "+verTri(b, a))
	x.c.E.EndCase(*a != *b, "cmp", tag, verLevel(a, b))
}

func (x *verRun) tri(a, b, c *verV, tag string) {
	x.c.E.Line("ver-tri "+verStr(a)+" "+verStr(b)+" "+verStr(c),
		strings.Join([]string{verTri(a, b), verTri(b, a), verTri(a, c), verTri(c, a), verTri(b, c), verTri(c, b)}, " "))
	distinct := 0
	if *a != *b {
		distinct++
	}
	if *a != *c {
		distinct++
	}
	if *b != *c {
		distinct++
	}
	x.c.E.EndCase(distinct >= 2, "tri", tag, fmt.Sprintf("tri-distinct-pairs-%d", distinct))
}

func (x *verRun) gate(magma bool, a, b *verV, tag string) {
	ga, gb := verGates(a, magma), verGates(b, magma)
	x.c.E.Line("ver-gate "+verBit(magma)+" "+verStr(a)+" "+verStr(b), ga+" "+gb)
	x.c.E.EndCase(true, "gate", tag, "gates-"+ga)
}

func verKind(obs string) string {
	f := strings.Fields(obs)
	if len(f) >= 2 && f[0] == "err" {
		return "parse-err-" + strings.SplitN(f[1], ":", 2)[0]
	}
	if len(f) >= 1 {
		return "parse-" + f[0]
	}
	return "parse-?"
}

func (x *verRun) parse(s string, absent bool, tag string) {
	obs := x.pools.parse(s, absent)
	x.c.E.Line("ver-parse "+verEnc(s), obs)
	x.c.E.EndCase(true, "parse", tag, verKind(obs))
}

func (x *verRun) render(form int, M, m, p, b, ed string, tags ...string) {
	text := verRenderText(form, M, m, p, b, ed)
	obs := x.pools.parse(text, false)
	x.c.E.Line(fmt.Sprintf("ver-render %d %s %s %s %s %s", form, M, m, p, b, verEnc(ed)), verEnc(text)+" "+obs)
	x.c.E.EndCase(true, append([]string{"render", fmt.Sprintf("render-form-%d", form), verKind(obs)}, tags...)...)
}

func (x *verRun) gatesSrc() {
	x.c.E.Line("ver-gates-src", verGatesSrc(x.repo, x.c.E.Tag))
	x.c.E.EndCase(true, "gates-src")
}

func (x *verRun) intSize() {
	x.c.E.Line("ver-intsize", strconv.Itoa(strconv.IntSize))
	x.c.E.EndCase(true, "intsize")
}

func verParseV(f []string) (*verV, bool) {
	if len(f) != 4 {
		return nil, false
	}
	var n [4]int
	for i, s := range f {
		v, err := strconv.ParseInt(s, 10, 64)
		if err != nil {
			return nil, false
		}
		n[i] = int(v)
	}
	return &verV{Major: n[0], Minor: n[1], Patch: n[2], Build: n[3]}, true
}

// replay: execute the given op lines against the real code
func (x *verRun) replay(path string) {
	data, err := os.ReadFile(path)
	if err != nil {
		panic(err)
	}
	for _, line := range strings.Split(string(data), "\n") {
		line = strings.SplitN(line, "\t", 2)[0]
		f := strings.Fields(line)
		if len(f) == 0 {
			continue
		}
		bad := func() { x.c.E.Line(line, "bad-op"); x.c.E.EndCase(false, "replay-bad-op") }
		switch f[0] {
		case "ver-intsize":
			x.intSize()
		case "ver-gates-src":
			x.gatesSrc()
		case "ver-cmp":
			if len(f) != 9 {
				bad()
				continue
			}
			a, ok1 := verParseV(f[1:5])
			b, ok2 := verParseV(f[5:9])
			if !ok1 || !ok2 {
				bad()
				continue
			}
			x.cmp(a, b, "replay")
		case "ver-tri":
			if len(f) != 13 {
				bad()
				continue
			}
			a, ok1 := verParseV(f[1:5])
			b, ok2 := verParseV(f[5:9])
			c, ok3 := verParseV(f[9:13])
			if !ok1 || !ok2 || !ok3 {
				bad()
				continue
			}
			x.tri(a, b, c, "replay")
		case "ver-gate":
			if len(f) != 10 || (f[1] != "0" && f[1] != "1") {
				bad()
				continue
			}
			a, ok1 := verParseV(f[2:6])
			b, ok2 := verParseV(f[6:10])
			if !ok1 || !ok2 {
				bad()
				continue
			}
			x.gate(f[1] == "1", a, b, "replay")
		case "ver-parse":
			if len(f) != 2 {
				bad()
				continue
			}
			s, ok := verDec(f[1])
			if !ok {
				bad()
				continue
			}
			x.parse(s, false, "replay")
		case "ver-render":
			if len(f) != 7 {
				bad()
				continue
			}
			form, err := strconv.Atoi(f[1])
			ed, ok := verDec(f[6])
			if err != nil || !ok {
				bad()
				continue
			}
			x.render(form, f[2], f[3], f[4], f[5], ed, "replay")
		default:
			bad()
		}
	}
}

func runC18(c *Ctx) {
	repo := os.Getenv("VERIF_REPO")
	if repo == "" {
		repo = "/repo"
	}
	x := &verRun{c: c, pools: newVerPools(), repo: repo}
	defer x.pools.srv.Close()
	if replayFile != "" {
		x.replay(replayFile)
		return
	}
	r := c.R

	x.intSize()
	x.gatesSrc()

	// ---- dense grid ±2 in every component around each gate constant
	var grids [][]*verV
	for _, g := range verGateConsts {
		grids = append(grids, verGridAround(g, 2))
	}
	for gi, g := range verGateConsts {
		for _, v := range grids[gi] {
			x.cmp(v, g, "grid-vs-gate")
			for _, magma := range []bool{false, true} {
				// against the gate constant and against the next version in each component (monotone step)
				x.gate(magma, v, g, "grid-vs-gate")
				step := *v
				switch r.Intn(4) {
				case 0:
					step.Major++
				case 1:
					step.Minor++
				case 2:
					step.Patch++
				default:
					step.Build++
				}
				x.gate(magma, v, &step, "grid-step")
			}
		}
	}
	// every gate constant against every other, and the cross product of a thinner grid (±1)
	for _, a := range verGateConsts {
		for _, b := range verGateConsts {
			x.cmp(a, b, "gate-vs-gate")
			x.gate(true, a, b, "gate-vs-gate")
		}
	}
	if c.Thorough() {
		for gi := range verGateConsts {
			g1 := verGridAround(verGateConsts[gi], 1)
			for _, a := range g1 {
				for _, b := range g1 {
					x.cmp(a, b, "grid1-cross")
				}
			}
		}
	}
	// random pairs / triples inside the grids
	all := append(append(append([]*verV{}, grids[0]...), grids[1]...), grids[2]...)
	for i := 0; i < c.N(20000, 150000); i++ {
		a, b := all[r.Intn(len(all))], all[r.Intn(len(all))]
		if r.Chance(50) { // same grid: shares many components
			g := grids[r.Intn(3)]
			a, b = g[r.Intn(len(g))], g[r.Intn(len(g))]
		}
		x.cmp(a, b, "grid-pair")
		x.gate(r.Bool(), a, b, "grid-pair")
	}
	for i := 0; i < c.N(20000, 150000); i++ {
		g := all
		if r.Chance(60) {
			g = grids[r.Intn(3)]
		}
		x.tri(g[r.Intn(len(g))], g[r.Intn(len(g))], g[r.Intn(len(g))], "grid-triple")
	}

	// ---- random pairs and triples: negatives, large values, shared prefixes
	for i := 0; i < c.N(40000, 300000); i++ {
		a := verRand(r)
		b := verRand(r)
		tag := "random-independent"
		if r.Chance(70) {
			b = verNear(r, a)
			tag = "random-near"
		}
		x.cmp(a, b, tag)
		if i%4 == 0 {
			x.gate(r.Bool(), a, b, tag)
		}
	}
	for i := 0; i < c.N(40000, 300000); i++ {
		a := verRand(r)
		b, cc := verNear(r, a), verNear(r, a)
		tag := "random-near"
		switch r.Intn(4) {
		case 0:
			cc = verNear(r, b) // a chain
			tag = "random-chain"
		case 1:
			b, cc = verRand(r), verRand(r)
			tag = "random-independent"
		}
		x.tri(a, b, cc, tag)
	}

	// ---- parser: well-formed strings (all five forms)
	// every gate constant and its neighbourhood, as the server would print it
	for _, g := range verGateConsts {
		for _, v := range verGridAround(g, 1) {
			if v.Major < 0 || v.Minor < 0 || v.Patch < 0 || v.Build < 0 {
				continue
			}
			x.render(r.Intn(5), strconv.Itoa(v.Major), strconv.Itoa(v.Minor), strconv.Itoa(v.Patch), strconv.Itoa(v.Build),
				verEditions[r.Intn(2)], "render-near-gate")
		}
	}
	for i := 0; i < c.N(15000, 100000); i++ {
		form := r.Intn(5)
		ed := verEditions[r.Intn(len(verEditions))]
		if r.Chance(60) {
			// typical server strings
			x.render(form, verTypicalNat(r, 9), verTypicalNat(r, 10), verTypicalNat(r, 10), verTypicalNat(r, 10000), ed, "render-typical")
			continue
		}
		M, t1 := verNat(r)
		m, t2 := verNat(r)
		p, t3 := verNat(r)
		b, t4 := verNat(r)
		tags := []string{"render-wide"}
		for _, t := range []string{t1, t2, t3, t4} {
			if t == "n-overflow" || t == "n-long-random" {
				tags = append(tags, "render-has-overflowing-component")
				break
			}
		}
		x.render(form, M, m, p, b, ed, tags...)
	}

	// ---- parser: malformed / odd strings
	x.parse("", true, "absent-member")
	x.parse("", false, "fixed")
	for i := 0; i < c.N(30000, 200000); i++ {
		x.parse(verMalformed(r), false, "grammar")
	}
	c.Extra["grid"] = "±2 in each of the 4 components around 5.5.0-0, 6.5.0-0, 7.2.0-0 (625 versions each)"
	c.Extra["http_requests_served"] = x.pools.hits
	c.Extra["serial_gate_observed_via"] = map[bool]string{true: "stream.NewStream (reflect: streamEndNotSupportedData != nil)",
		false: "exported expression v.Lower(SrvVer550) (field not found in NewStream's result)"}[verSerialViaNewStream]
	c.Extra["repo"] = repo
}
