package main

// L1 life-cycle stream: the real stream.Open / Rebalance / rebalance / Close / listenEnd under fakes,
// scheduled on a real-time grid (DESIGN.md §7 C11–C13). One case = one stream object driven by a
// pre-generated op list; cases run concurrently, their lines are emitted in case order.

import (
	"errors"
	"fmt"
	"os"
	"sort"
	"strconv"
	"strings"
	"sync"
	"time"

	"github.com/Trendyol/go-dcp/couchbase"
	"github.com/Trendyol/go-dcp/models"
	"github.com/Trendyol/go-dcp/stream"
	"github.com/Trendyol/go-dcp/tracing"
	"github.com/couchbase/gocbcore/v10"
)

func init() {
	props["life-reb"] = func(c *Ctx) { runLife(c, "reb") }
	props["life-end"] = func(c *Ctx) { runLife(c, "end") }
	props["life-shut"] = func(c *Ctx) { runLife(c, "shut") }
	props["life-trail"] = runLifeTrail
}

const lifeGrid = 200  // ms between op times
const lifeDelay = 250 // rebalance delay: deadlines fall 50 ms off the grid
const lifeOff = 20    // ops execute at grid + lifeOff

type lifeEnv struct {
	buf          *obuf
	cl           *fakeClient
	meta         *fakeMeta
	co           *fakeConsumer
	disc         *fakeDisc
	eh           *fakeEH
	st           stream.Stream
	stop         chan struct{}
	auto         bool
	dyn          bool
	next         map[uint16]uint64
	start        time.Time
	now          int // model time in ms
	stopped      bool
	pendingMarks []string
	mu           sync.Mutex
}

func newLifeEnv(delay int, dyn, auto bool) *lifeEnv {
	buf := &obuf{}
	e := &lifeEnv{buf: buf, cl: newFakeClient(buf, 1024), meta: newFakeMeta(buf), co: &fakeConsumer{buf: buf, quiet: true},
		disc: &fakeDisc{buf: buf}, eh: &fakeEH{}, stop: make(chan struct{}, 1), auto: auto, dyn: dyn, next: map[uint16]uint64{}}
	cfg := baseConfig()
	cfg.Dcp.Group.Membership.RebalanceDelay = time.Duration(delay) * time.Millisecond
	if dyn {
		cfg.Dcp.Group.Membership.Type = "dynamic"
	}
	if auto {
		cfg.Checkpoint.Type = "auto"
		cfg.Checkpoint.Interval = time.Hour
	}
	e.eh.hook = func(s string) { buf.add(s) }
	e.co.hook = func(i int, ctx *models.ListenerContext) {
		ctx.Ack()
		if m, ok := ctx.Event.(models.DcpMutation); ok {
			buf.add(fmt.Sprintf("deliver %d %d", m.VbID, m.SeqNo))
		}
	}
	for vb := 0; vb < 1024; vb++ {
		e.cl.high[uint16(vb)] = 1 << 40
	}
	e.st = stream.NewStream(e.cl, e.meta, cfg, &couchbase.Version{Major: 7, Minor: 6}, &couchbase.BucketInfo{BucketType: "membase"},
		e.disc, e.co, map[uint32]string{}, e.stop, e.eh, tracing.NewTracerComponent())
	e.eh.st = e.st
	return e
}

// canonical rendering of what was logged: runs of openreq / closereq are sorted by vb (they come from goroutines),
// savecall lines are dropped, `written [..]` becomes one `written VB SEQ` per document
func (e *lifeEnv) render() string {
	raw := e.buf.drain()
	var out []string
	var run []string
	runKind := ""
	flush := func() {
		sort.Slice(run, func(i, j int) bool {
			a, _ := strconv.Atoi(strings.Fields(run[i])[1])
			b, _ := strconv.Atoi(strings.Fields(run[j])[1])
			return a < b
		})
		out = append(out, run...)
		run, runKind = nil, ""
	}
	for _, s := range raw {
		f := strings.Fields(s)
		switch f[0] {
		case "openreq":
			// openreq VB (uuid,seq,ss,se,latest) -> openreq VB SEQ
			tup := strings.Split(strings.Trim(f[2], "()"), ",")
			s = fmt.Sprintf("openreq %s %s", f[1], tup[1])
			if runKind != "openreq" {
				flush()
				runKind = "openreq"
			}
			run = append(run, s)
			// remember where the server continues
			vb, _ := strconv.Atoi(f[1])
			q, _ := strconv.ParseUint(tup[1], 10, 64)
			e.mu.Lock()
			if cur, ok := e.next[uint16(vb)]; !ok || q+1 > cur || true {
				_ = cur
			}
			e.mu.Unlock()
		case "closereq":
			if runKind != "closereq" {
				flush()
				runKind = "closereq"
			}
			run = append(run, s)
		case "savecall", "saveerr":
			// not part of the life-cycle observables
		case "written":
			flush()
			body := strings.TrimSuffix(strings.TrimPrefix(strings.TrimPrefix(s, "written "), "["), "]")
			for _, d := range strings.Fields(body) {
				i := strings.Index(d, "(")
				tup := strings.Split(strings.Trim(d[i:], "()"), ",")
				out = append(out, fmt.Sprintf("written %s %s", d[:i], tup[1]))
			}
		default:
			flush()
			out = append(out, s)
		}
	}
	flush()
	// stopCh closed?
	if !e.stopped {
		select {
		case <-e.stop:
			e.stopped = true
			out = append(out, "stop")
		default:
		}
	}
	return joinObs(out)
}

func (e *lifeEnv) sleepUntilModel(t int) {
	d := time.Until(e.start.Add(time.Duration(t+lifeOff) * time.Millisecond))
	if d > 0 {
		time.Sleep(d)
	}
}

// the five re-openable causes, bare and WRAPPED (gocbcore and callers in between may add context with %w: a cause is a cause
// whatever it is wrapped in - the code tests with errors.Is)
var transientErrs = []error{gocbcore.ErrSocketClosed, gocbcore.ErrDCPBackfillFailed, gocbcore.ErrDCPStreamStateChanged,
	gocbcore.ErrDCPStreamTooSlow, gocbcore.ErrDCPStreamDisconnected,
	fmt.Errorf("stream end: %w", gocbcore.ErrSocketClosed), fmt.Errorf("stream end: %w", gocbcore.ErrDCPBackfillFailed),
	fmt.Errorf("stream end: %w", gocbcore.ErrDCPStreamStateChanged), fmt.Errorf("vb: %w", fmt.Errorf("stream end: %w", gocbcore.ErrDCPStreamTooSlow)),
	fmt.Errorf("stream end: %w", gocbcore.ErrDCPStreamDisconnected)}
var finalErrs = []error{errors.New("some other end"), gocbcore.ErrDCPStreamFilterEmpty, gocbcore.ErrShutdown}

func (e *lifeEnv) rebalanceCall() (returned bool) { return e.rebalanceCallT(40 * time.Millisecond) }

func (e *lifeEnv) rebalanceCallT(limit time.Duration) (returned bool) {
	done := make(chan struct{})
	go func() {
		defer func() {
			if r := recover(); r != nil {
				e.buf.add("failstop:" + classifyPanic(r))
			}
			close(done)
		}()
		e.st.Rebalance()
	}()
	select {
	case <-done:
		return true
	case <-time.After(limit):
		return false
	}
}

func classifyPanic(r any) string {
	msg := fmt.Sprint(r)
	switch {
	case strings.Contains(msg, "nil pointer") || strings.Contains(msg, "invalid memory address"):
		return "nil-observers"
	case strings.Contains(msg, "not found on offset map"):
		return "reopen-gave-up"
	}
	return "other:" + strings.ReplaceAll(msg, "\n", " ")
}

func (e *lifeEnv) exec(line string, salt int) (res string) {
	t := strings.Fields(line)
	defer func() {
		if r := recover(); r != nil {
			e.buf.add("failstop:" + classifyPanic(r))
			res = e.render()
		}
		e.resetNextFromLog(res)
	}()
	switch t[0] {
	case "lf-end", "lf-ev", "lf-query", "lf-save":
	default:
		// a held re-request is answered before anything else happens to the stream (its overlap with a
		// rebalance is finding F9a, not part of these histories)
		e.cl.releaseHolds()
		time.Sleep(2 * time.Millisecond)
	}
	switch t[0] {
	case "lf-member":
		lo, _ := strconv.Atoi(t[1])
		hi, _ := strconv.Atoi(t[2])
		e.disc.set(lo, hi)
		return "-"
	case "lf-store":
		vb := uint16(u64(t[1]))
		q := u64(t[2])
		e.meta.store[vb] = models.CheckpointDocument{Checkpoint: &models.CheckpointDocumentCheckpoint{VbUUID: 1, SeqNo: q,
			Snapshot: &models.CheckpointDocumentSnapshot{StartSeqNo: q, EndSeqNo: q}}}
		return "-"
	case "lf-open":
		e.st.Open()
		return e.render()
	case "lf-open-end":
		// the stream of VB ends (cause) right after its own request was accepted, while the requests of the
		// other assigned vBuckets are still in flight
		vb := uint16(u64(t[1]))
		var err error
		switch t[2] {
		case "transient":
			err = transientErrs[salt%len(transientErrs)]
		case "closed":
			err = gocbcore.ErrDCPStreamClosed
		case "final":
			err = finalErrs[salt%len(finalErrs)]
		}
		ended := make(chan struct{})
		var once sync.Once
		e.cl.mu.Lock()
		if e.cl.holdOpen == nil {
			e.cl.holdOpen = map[uint16]chan struct{}{}
		}
		e.disc.mu.Lock()
		for _, v := range e.disc.vbs {
			if v != vb {
				e.cl.holdOpen[v] = make(chan struct{})
			}
		}
		e.disc.mu.Unlock()
		e.cl.openHook = func(v uint16) {
			if v == vb {
				once.Do(func() {
					go func() {
						if o := e.cl.observer(vb); o != nil {
							e.cl.markEnded(vb)
							o.End(models.DcpStreamEnd{VbID: vb}, err)
						}
						time.Sleep(5 * time.Millisecond)
						close(ended)
						e.cl.releaseHolds()
					}()
				})
			}
		}
		e.cl.mu.Unlock()
		go func() {
			select {
			case <-ended:
			case <-time.After(2 * time.Second):
				e.cl.releaseHolds()
			}
		}()
		e.st.Open()
		e.cl.mu.Lock()
		e.cl.openHook = nil
		e.cl.mu.Unlock()
		time.Sleep(15 * time.Millisecond) // wait() / reopenStream run in their own goroutines
		return e.render()
	case "lf-notify", "lf-notify-api":
		if t[0] == "lf-notify-api" && !e.st.IsOpen() {
			return "skipped"
		}
		before := len(e.bufPeek())
		ret := e.rebalanceCall()
		if !ret {
			e.buf.add("queued")
		} else if len(e.bufPeek()) == before {
			e.buf.add("absorbed")
		}
		e.settle()
		return e.render()
	case "lf-notify-close":
		k, _ := strconv.Atoi(t[1])
		fired := false
		var marks []string
		e.eh.mu.Lock()
		e.eh.hook = func(s string) {
			if s == "BSP" && !fired {
				fired = true
				e.buf.add(s)
				for i := 0; i < k; i++ {
					// one after the other, as the transactional bus subscription delivers them
					before := len(e.bufPeek())
					if e.rebalanceCallT(10 * time.Millisecond) {
						if len(e.bufPeek()) == before {
							marks = append(marks, "absorbed")
						} else {
							marks = append(marks, "ran")
						}
					} else {
						marks = append(marks, "queued")
					}
				}
				// keep the timer armed after Close well behind any timer armed by these notifications
				time.Sleep(30 * time.Millisecond)
				return
			}
			e.buf.add(s)
			if s == "ASP" && fired && marks != nil {
				for _, m := range marks {
					e.buf.add(m)
				}
				marks = nil
			}
		}
		e.eh.mu.Unlock()
		before := len(e.bufPeek())
		ret := e.rebalanceCallT(time.Duration(20*k+120) * time.Millisecond)
		e.eh.mu.Lock()
		e.eh.hook = func(s string) { e.buf.add(s) }
		e.eh.mu.Unlock()
		if !ret {
			e.buf.add("queued")
		} else if len(e.bufPeek()) == before {
			e.buf.add("absorbed")
		}
		e.settle()
		return e.render()
	case "lf-tick":
		d, _ := strconv.Atoi(t[1])
		e.now += d
		e.sleepUntilModel(e.now)
		e.quiesce()
		return e.render()
	case "lf-end":
		vb := uint16(u64(t[1]))
		o := e.cl.observer(vb)
		if o == nil {
			return "-"
		}
		var err error
		switch t[2] {
		case "transient-held":
			// the re-request of this vBucket stays in flight (the node answers late): hold the fake's OpenStream
			err = transientErrs[salt%len(transientErrs)]
			e.cl.mu.Lock()
			if e.cl.holdOpen == nil {
				e.cl.holdOpen = map[uint16]chan struct{}{}
			}
			e.cl.holdOpen[vb] = make(chan struct{})
			e.cl.mu.Unlock()
		case "transient":
			err = transientErrs[salt%len(transientErrs)]
		case "transient-nested":
			// the re-requested stream ends again (re-openable) before the first re-open has returned: the fake ends it from inside
			// the OpenStream call of the re-request, once
			err = transientErrs[salt%len(transientErrs)]
			err2 := transientErrs[(salt+1)%len(transientErrs)]
			var once sync.Once
			e.cl.mu.Lock()
			e.cl.openHook = func(v uint16) {
				if v != vb {
					return
				}
				once.Do(func() {
					if o2 := e.cl.observer(vb); o2 != nil {
						e.cl.markEnded(vb)
						o2.End(models.DcpStreamEnd{VbID: vb}, err2)
					}
				})
			}
			e.cl.mu.Unlock()
			defer func() {
				e.cl.mu.Lock()
				e.cl.openHook = nil
				e.cl.mu.Unlock()
			}()
		case "closed":
			err = gocbcore.ErrDCPStreamClosed
		case "final":
			err = finalErrs[salt%len(finalErrs)]
		}
		e.cl.markEnded(vb) // a transient end is re-requested: OpenStream clears the mark again
		o.End(models.DcpStreamEnd{VbID: vb}, err)
		time.Sleep(15 * time.Millisecond) // reopenStream / wait() run in their own goroutines
		return e.render()
	case "lf-ev":
		vb := uint16(u64(t[1]))
		o := e.cl.observer(vb)
		e.mu.Lock()
		q, ok := e.next[vb]
		if ok {
			e.next[vb] = q + 1
		}
		e.mu.Unlock()
		if o == nil || !ok {
			return "-"
		}
		o.SnapshotMarker(models.DcpSnapshotMarker{VbID: vb, StartSeqNo: q, EndSeqNo: q})
		o.Mutation(gocbcore.DcpMutation{VbID: vb, SeqNo: q, Key: []byte("k"), Cas: 1700000000000000000})
		return e.render()
	case "lf-save":
		e.st.Save()
		return e.render()
	case "lf-shutdown":
		if e.auto {
			e.st.Save()
		}
		e.st.Close(t[1] == "1")
		time.Sleep(10 * time.Millisecond)
		return e.render()
	case "lf-query":
		m, active := e.st.GetMetric()
		r := e.render() // picks up a stop
		st := 0
		if e.stopped {
			st = 1
		}
		op := 0
		if e.st.IsOpen() {
			op = 1
		}
		s := fmt.Sprintf("open=%d active=%d reb=%d stop=%d", op, active, m.Rebalance, st)
		if r != "-" {
			return r + " ; " + s
		}
		return s
	}
	return "bad-op"
}

// with dynamic membership the reopen timer is AfterFunc(0): give its goroutine time to finish
func (e *lifeEnv) settle() {
	if e.dyn {
		time.Sleep(10 * time.Millisecond)
	}
	e.quiesce()
}

// wait while a close / reopen bracket is in progress (last callback is an opening one), at most 400 ms;
// this keeps the op's observation complete without adding latency when nothing is going on
func (e *lifeEnv) quiesce() {
	stableSeen := 0
	for i := 0; i < 200; i++ {
		e.eh.mu.Lock()
		last := ""
		if n := len(e.eh.log); n > 0 {
			last = e.eh.log[n-1]
		}
		e.eh.mu.Unlock()
		switch last {
		case "BRS", "BSP", "BRE", "BSS":
			stableSeen = 0
		case "ASP":
			// inside a rebalance ASP is followed by ARS at once; at shutdown it is final
			stableSeen++
		default:
			stableSeen++
		}
		if stableSeen >= 3 {
			return
		}
		time.Sleep(2 * time.Millisecond)
	}
}

func (e *lifeEnv) bufPeek() []string {
	e.buf.mu.Lock()
	defer e.buf.mu.Unlock()
	return append([]string{}, e.buf.l...)
}

// after an open, the server continues each vBucket after the requested position
func (e *lifeEnv) resetNext() {
	e.mu.Lock()
	defer e.mu.Unlock()
	e.next = map[uint16]uint64{}
	for _, s := range e.bufPeek() {
		f := strings.Fields(s)
		if f[0] == "openreq" {
			tup := strings.Split(strings.Trim(f[2], "()"), ",")
			vb, _ := strconv.Atoi(f[1])
			q, _ := strconv.ParseUint(tup[1], 10, 64)
			e.next[uint16(vb)] = q + 1
		}
	}
}

func (e *lifeEnv) resetNextFromLog(rendered string) {
	if !strings.Contains(rendered, "BSS") {
		return
	}
	e.mu.Lock()
	defer e.mu.Unlock()
	parts := strings.Split(rendered, " ; ")
	// the last BSS…ASS block defines the session
	last := -1
	for i, p := range parts {
		if p == "BSS" {
			last = i
		}
	}
	e.next = map[uint16]uint64{}
	for _, p := range parts[last+1:] {
		f := strings.Fields(p)
		if len(f) == 3 && f[0] == "openreq" {
			vb, _ := strconv.Atoi(f[1])
			q, _ := strconv.ParseUint(f[2], 10, 64)
			e.next[uint16(vb)] = q + 1
		} else if p == "ASS" {
			break
		}
	}
}

// ---- generation (offline: the model is deterministic in the op list)

type lifeCase struct {
	reset string
	ops   []string
	tags  []string
}

func genLife(r *Rng, kind string) lifeCase {
	var lc lifeCase
	dyn := r.Chance(15)
	auto := r.Chance(40)
	lc.reset = fmt.Sprintf("lf-reset %d %d %d", lifeDelay, b2i(dyn), b2i(auto))
	tag := map[string]bool{}
	lo := []int{0, 0, 10, 500}[r.Intn(4)]
	n := 1 + r.Intn(4)
	hi := lo + n - 1
	add := func(s string) { lc.ops = append(lc.ops, s) }
	add(fmt.Sprintf("lf-member %d %d", lo, hi))
	for vb := lo; vb <= hi; vb++ {
		if r.Chance(40) {
			add(fmt.Sprintf("lf-store %d %d", vb, 1+r.Intn(50)))
		}
	}
	openEnded := -1
	if kind == "end" && n > 1 && r.Chance(35) {
		openEnded = lo + r.Intn(n)
		oc := r.Pick("final", "clean", "closed")
		add(fmt.Sprintf("lf-open-end %d %s", openEnded, oc))
		tag["open-end."+oc] = true
		if oc == "transient" {
			openEnded = -1
		}
	} else {
		add("lf-open")
	}
	cycles := 0 // completed rebalance cycles (first-ever one has a nil timer)
	chain := 0
	inWindow := false
	windowTicks := 0
	closed := false
	noShutdown := false // a re-armed Rebalance timer may still be pending: a shutdown would let it fire into the closed stream
	ended := map[int]bool{}
	if openEnded >= 0 {
		ended[openEnded] = true
	}
	curLo, curHi := lo, hi
	steps := 4 + r.Intn(8)
	for i := 0; i < steps && !closed; i++ {
		x := r.Intn(100)
		switch {
		case kind == "reb" && x < 45 || kind != "reb" && x < 20:
			// a notification (burst member)
			if r.Chance(35) {
				nlo := []int{0, 0, 10, 500}[r.Intn(4)]
				nn := 1 + r.Intn(4)
				add(fmt.Sprintf("lf-member %d %d", nlo, nlo+nn-1))
				curLo, curHi = nlo, nlo+nn-1
				tag["member-change"] = true
			}
			switch {
			case !inWindow && r.Chance(30) && chain < 1:
				k := 1 + r.Intn(2)
				if cycles == 0 {
					k = 1 // each queued call adds a full cycle whose timers drift towards the sampling grid
				}
				add(fmt.Sprintf("lf-notify-close %d", k))
				if cycles == 0 {
					tag["F5-first-timer-nil"] = true
				} else {
					chain++
					noShutdown = true
					tag["reassigned"] = true
				}
			case r.Chance(15):
				add("lf-notify-api")
				tag["api"] = true
			default:
				add("lf-notify")
			}
			if inWindow {
				tag["debounce"] = true
			}
			if dyn {
				// dynamic membership reopens through AfterFunc(0): whether a following notification still finds `balancing` set (and then
				// re-arms the timer with s.Rebalance, "reassigned") is decided within microseconds the generator cannot see; a shutdown
				// after that would let the timer fire into the closed stream and kill the in-process harness (false alarm 12)
				noShutdown = true
			}
			inWindow = true
			windowTicks = 0
		case x < 70:
			d := lifeGrid * (1 + r.Intn(2))
			add(fmt.Sprintf("lf-tick %d", d))
			if inWindow {
				windowTicks += d
				if windowTicks > lifeDelay*(1+chain)+lifeGrid {
					inWindow = false
					cycles++
					chain = 0
					ended = map[int]bool{} // a new session: every assigned vBucket streams again
				}
			}
		case x < 80:
			vb := curLo + r.Intn(curHi-curLo+1)
			if r.Chance(15) {
				vb = r.Intn(1024)
			}
			add(fmt.Sprintf("lf-ev %d", vb))
			tag["ev"] = true
		case x < 84:
			add("lf-save")
		case x < 94 && (kind == "end" || r.Chance(30)):
			vb := curLo + r.Intn(curHi-curLo+1)
			c := r.Pick("transient", "transient-held", "closed", "final", "clean")
			if c == "transient" && r.Chance(35) {
				c = "transient-nested"
			}
			if ended[vb] {
				break // the server ends a stream for good at most once per session
			}
			if !strings.HasPrefix(c, "transient") && !inWindow {
				ended[vb] = true
			}
			add(fmt.Sprintf("lf-end %d %s", vb, c))
			tag["end."+c] = true
		case (kind == "shut" && x < 97 || x >= 98) && !noShutdown:
			// shutdown outside the rebalance window is clean; inside it is finding F4
			if inWindow {
				tag["F4-close-in-window"] = true
			}
			add(fmt.Sprintf("lf-shutdown %d", b2i(r.Bool())))
			tag["shutdown"] = true
			closed = true
		default:
			add("lf-query")
		}
	}
	// let everything settle, then look
	add(fmt.Sprintf("lf-tick %d", 3*lifeGrid))
	add(fmt.Sprintf("lf-tick %d", 3*lifeGrid))
	add("lf-query")
	if kind == "end" && !closed {
		// end every assigned stream for good: the client must stop exactly at the last one - also when one
		// vBucket is in the middle of being re-requested (transient end, re-request still in flight)
		held := -1
		if r.Chance(50) && curHi > curLo {
			held = curLo + r.Intn(curHi-curLo+1)
			if ended[held] {
				held = -1
			} else {
				add(fmt.Sprintf("lf-end %d transient-held", held))
				tag["end.held-during-final"] = true
			}
		}
		for vb := curLo; vb <= curHi; vb++ {
			if vb == held || ended[vb] {
				continue
			}
			add(fmt.Sprintf("lf-end %d %s", vb, r.Pick("final", "clean", "closed")))
		}
		add("lf-query")
		if held >= 0 {
			add(fmt.Sprintf("lf-end %d %s", held, r.Pick("final", "clean")))
			add("lf-query")
		}
		tag["all-ended"] = true
	}
	for t := range tag {
		lc.tags = append(lc.tags, t)
	}
	sort.Strings(lc.tags)
	return lc
}

func b2i(b bool) int {
	if b {
		return 1
	}
	return 0
}

func runLifeCase(lc lifeCase, salt int) []string {
	f := strings.Fields(lc.reset)
	delay, _ := strconv.Atoi(f[1])
	e := newLifeEnv(delay, f[2] == "1", f[3] == "1")
	e.start = time.Now()
	if flushEachLine {
		fmt.Fprintf(os.Stderr, "life-case-stream %p %s | %s\n", e.st, lc.reset, strings.Join(lc.ops, " ; "))
	}
	defer e.cl.releaseHolds()
	reals := []string{"ok"}
	dead := false
	stopped := false
	for i, op := range lc.ops {
		if dead {
			reals = append(reals, "-") // the process is gone after a fail-stop
			continue
		}
		if stopped && !strings.HasPrefix(op, "lf-shutdown") && op != "lf-query" {
			reals = append(reals, "-") // once stopCh is closed dcp.Start only runs close()
			continue
		}
		r := e.exec(op, salt+i)
		if strings.Contains(r, "failstop") {
			dead = true
		}
		if strings.Contains(r, "stop") && e.stopped {
			stopped = true
		}
		reals = append(reals, r)
	}
	return reals
}

func runLife(c *Ctx, kind string) {
	var cases []lifeCase
	if replayFile != "" {
		cases = loadLifeReplay()
	} else {
		n := c.N(120, 1500)
		for i := 0; i < n; i++ {
			cases = append(cases, genLife(c.R, kind))
		}
	}
	results := make([][]string, len(cases))
	sem := make(chan struct{}, 24)
	var wg sync.WaitGroup
	for i := range cases {
		wg.Add(1)
		sem <- struct{}{}
		go func(i int) {
			defer wg.Done()
			defer func() { <-sem }()
			if flushEachLine { // VERIF_FLUSH=1: journal of started / finished cases on stderr (a crash in a timer goroutine kills all of them)
				fmt.Fprintf(os.Stderr, "life-case-start %d %s | %s\n", i, cases[i].reset, strings.Join(cases[i].ops, " ; "))
			}
			results[i] = runLifeCase(cases[i], i)
			if flushEachLine {
				fmt.Fprintf(os.Stderr, "life-case-end %d\n", i)
			}
		}(i)
	}
	wg.Wait()
	for i, lc := range cases {
		c.E.Line("reset", "ok")
		c.E.Line(lc.reset, results[i][0])
		for j, op := range lc.ops {
			c.E.Line(op, results[i][j+1])
		}
		c.E.EndCase(len(lc.ops) > 6, lc.tags...)
	}
}

func loadLifeReplay() []lifeCase {
	lines := readOpLines(replayFile)
	var cases []lifeCase
	var cur *lifeCase
	for _, l := range lines {
		if l == "reset" {
			continue
		}
		if strings.HasPrefix(l, "lf-reset") {
			cases = append(cases, lifeCase{reset: l, tags: []string{"replay"}})
			cur = &cases[len(cases)-1]
			continue
		}
		if cur != nil {
			cur.ops = append(cur.ops, l)
		}
	}
	return cases
}

// ---- F6 scenario: no checkpoint write may happen after Close() has returned, even when an
// acknowledgement arrives late and the periodic schedule was running (checkpoint.type = auto)
func trailScenario(intervalMs, nvb int, saveBefore bool, lateAcks int) string {
	buf := &obuf{}
	cl := newFakeClient(buf, 1024)
	meta := newFakeMeta(buf)
	co := &fakeConsumer{buf: buf, quiet: true}
	disc := &fakeDisc{buf: buf}
	disc.set(0, nvb-1)
	cfg := baseConfig()
	cfg.Checkpoint.Type = "auto"
	cfg.Checkpoint.Interval = time.Duration(intervalMs) * time.Millisecond
	for vb := 0; vb < nvb; vb++ {
		cl.high[uint16(vb)] = 1 << 40
	}
	stop := make(chan struct{}, 1)
	st := stream.NewStream(cl, meta, cfg, &couchbase.Version{Major: 7, Minor: 6}, &couchbase.BucketInfo{BucketType: "membase"},
		disc, co, map[uint32]string{}, stop, &fakeEH{}, tracing.NewTracerComponent())
	st.Open()
	for vb := 0; vb < nvb; vb++ {
		o := cl.observer(uint16(vb))
		o.SnapshotMarker(models.DcpSnapshotMarker{VbID: uint16(vb), StartSeqNo: 1, EndSeqNo: 9})
		for q := 1; q <= 1+lateAcks; q++ {
			o.Mutation(gocbcore.DcpMutation{VbID: uint16(vb), SeqNo: uint64(q), Key: []byte("k"), Cas: 1700000000000000000})
		}
	}
	// acknowledge the first event of every vBucket, let the schedule run at least once
	co.mu.Lock()
	ctxs := append([]*models.ListenerContext{}, co.ctxs...)
	co.mu.Unlock()
	per := 1 + lateAcks
	for vb := 0; vb < nvb; vb++ {
		ctxs[vb*per].Ack()
	}
	time.Sleep(time.Duration(intervalMs+intervalMs/2) * time.Millisecond)
	// dcp.close(): final save (auto), then stream.Close
	if saveBefore {
		st.Save()
	}
	st.Close(true)
	meta.mu.Lock()
	before := meta.calls
	meta.mu.Unlock()
	// late acknowledgements after Close() returned
	for vb := 0; vb < nvb; vb++ {
		for k := 1; k <= lateAcks; k++ {
			ctxs[vb*per+k].Ack()
		}
	}
	time.Sleep(time.Duration(3*intervalMs+30) * time.Millisecond)
	meta.mu.Lock()
	after := meta.calls
	meta.mu.Unlock()
	return fmt.Sprintf("writes-after-close=%d", after-before)
}

func runLifeTrail(c *Ctx) {
	type sc struct {
		iv, nvb int
		sb      bool
		late    int
	}
	var scs []sc
	if replayFile != "" {
		for _, l := range readOpLines(replayFile) {
			f := strings.Fields(l)
			if len(f) == 5 && f[0] == "lf-trail" {
				iv, _ := strconv.Atoi(f[1])
				n, _ := strconv.Atoi(f[2])
				la, _ := strconv.Atoi(f[4])
				scs = append(scs, sc{iv, n, f[3] == "1", la})
			}
		}
	} else {
		for i := 0; i < c.N(16, 120); i++ {
			scs = append(scs, sc{40 + 10*c.R.Intn(5), 1 + c.R.Intn(3), c.R.Bool(), 1 + c.R.Intn(2)})
		}
	}
	res := make([]string, len(scs))
	var wg sync.WaitGroup
	for i := range scs {
		wg.Add(1)
		go func(i int) {
			defer wg.Done()
			res[i] = trailScenario(scs[i].iv, scs[i].nvb, scs[i].sb, scs[i].late)
		}(i)
	}
	wg.Wait()
	for i, s := range scs {
		c.E.Line(fmt.Sprintf("lf-trail %d %d %d %d", s.iv, s.nvb, b2i(s.sb), s.late), res[i])
		c.E.EndCase(true, "trail")
	}
}
