package main

// Stream "c17": configuration defaulting, derived settings, size units, ${VAR}
// substitution.  Every case is first rendered as an op line and then EXECUTED
// FROM that line (cfgExec), so the op is by construction the complete input of
// the real code and replay is the same code path.
//
//   cfg-defaults env=<hexT>:<hexM> logger=0|1 path=value …   real: "<dump1> | <dump2>" / "panic" / "<dump1> | panic"
//   cfg-meta|cfg-member|cfg-elector|cfg-file path=value …   real: "key=value …" / "s:<hex>" / "panic"
//   cfg-start path=value …                                   real: "<dump> ;meta <kv> ;member <kv> ;elector <kv>" / "panic" (dcp.NewDcp on a dead port)
//   cfg-size h<hex> <class>                                  real: "<int>" / "panic"
//   cfg-envsubst env=<hexname>:<hexval>,… <line> <line> …   real: "<hex> <hex> …" (values of the q/p lines, file order) / "err"
//
// value tokens: i:<int> s:<hex> b:0|1 d:<ns> l:<hex>,<hex>, m:<hexk>=<hexv>,… t:<unixnano>
// (typed zero values are never written: in Go they ARE "unset"; `any` fields may hold i:0 / s:).

import (
	"bufio"
	"encoding/hex"
	"fmt"
	"io"
	"os"
	"reflect"
	"sort"
	"strconv"
	"strings"
	"time"

	dcp "github.com/Trendyol/go-dcp"
	"github.com/Trendyol/go-dcp/config"
	"github.com/Trendyol/go-dcp/helpers"
	"github.com/Trendyol/go-dcp/logger"
	"github.com/Trendyol/go-dcp/models"
	"github.com/couchbase/gocbcore/v10"
	"github.com/sirupsen/logrus"
)

func init() { props["c17"] = runC17 }

const (
	cfgEnvTotal  = "GO_DCP__DCP_GROUP_MEMBERSHIP_TOTALMEMBERS"
	cfgEnvMember = "GO_DCP__DCP_GROUP_MEMBERSHIP_MEMBERNUMBER"
)

func hx(s string) string { return hex.EncodeToString([]byte(s)) }
func unhx(s string) string {
	b, err := hex.DecodeString(s)
	if err != nil {
		panic("bad hex in op: " + s)
	}
	return string(b)
}

// ---------------------------------------------------------------- reflection over config structs

type cfgLeaf struct {
	path string
	v    reflect.Value
}

var (
	durType  = reflect.TypeOf(time.Duration(0))
	timePtrT = reflect.TypeOf((*time.Time)(nil))
)

// leaves enumerates the leaf fields of a struct (yaml tag names joined by '.')
func cfgLeaves(v reflect.Value, prefix string, out *[]cfgLeaf) {
	t := v.Type()
	for i := 0; i < t.NumField(); i++ {
		f := t.Field(i)
		name := strings.Split(f.Tag.Get("yaml"), ",")[0]
		if name == "" {
			name = f.Name
		}
		p := name
		if prefix != "" {
			p = prefix + "." + name
		}
		fv := v.Field(i)
		if fv.Kind() == reflect.Struct {
			cfgLeaves(fv, p, out)
			continue
		}
		*out = append(*out, cfgLeaf{p, fv})
	}
}

// token renders a leaf value; ok=false when the field is unset (zero / nil)
func cfgToken(v reflect.Value) (string, bool) {
	switch {
	case v.Type() == durType:
		if v.Int() == 0 {
			return "", false
		}
		return "d:" + strconv.FormatInt(v.Int(), 10), true
	case v.Type() == timePtrT:
		if v.IsNil() {
			return "", false
		}
		return "t:" + strconv.FormatInt(v.Interface().(*time.Time).UnixNano(), 10), true
	}
	switch v.Kind() {
	case reflect.String:
		if v.String() == "" {
			return "", false
		}
		return "s:" + hx(v.String()), true
	case reflect.Int, reflect.Int64, reflect.Int32:
		if v.Int() == 0 {
			return "", false
		}
		return "i:" + strconv.FormatInt(v.Int(), 10), true
	case reflect.Uint, reflect.Uint32, reflect.Uint64:
		if v.Uint() == 0 {
			return "", false
		}
		return "i:" + strconv.FormatUint(v.Uint(), 10), true
	case reflect.Bool:
		if !v.Bool() {
			return "", false
		}
		return "b:1", true
	case reflect.Interface:
		if v.IsNil() {
			return "", false
		}
		switch x := v.Interface().(type) {
		case int:
			return "i:" + strconv.Itoa(x), true
		case uint:
			return "i:" + strconv.FormatUint(uint64(x), 10), true
		case string:
			return "s:" + hx(x), true
		default:
			return fmt.Sprintf("?:%T", x), true
		}
	case reflect.Slice:
		if v.IsNil() {
			return "", false
		}
		var sb strings.Builder
		sb.WriteString("l:")
		for i := 0; i < v.Len(); i++ {
			sb.WriteString(hx(v.Index(i).String()) + ",")
		}
		return sb.String(), true
	case reflect.Map:
		if v.IsNil() {
			return "", false
		}
		m := map[string]string{}
		for _, k := range v.MapKeys() {
			m[k.String()] = v.MapIndex(k).String()
		}
		return cfgMapToken(m), true
	}
	return "?kind:" + v.Kind().String(), true
}

// cfgMapToken: entries hex(k)=hex(v), sorted as strings, each followed by ','
func cfgMapToken(m map[string]string) string {
	es := []string{}
	for k, v := range m {
		es = append(es, hx(k)+"="+hx(v))
	}
	sort.Strings(es)
	var sb strings.Builder
	sb.WriteString("m:")
	for _, e := range es {
		sb.WriteString(e + ",")
	}
	return sb.String()
}

// cfgSetToken assigns a token to a leaf
func cfgSetToken(v reflect.Value, tok string) {
	tag, body, _ := strings.Cut(tok, ":")
	switch tag {
	case "i":
		if v.Kind() == reflect.Interface {
			n, err := strconv.Atoi(body)
			if err != nil {
				panic("bad int token " + tok)
			}
			v.Set(reflect.ValueOf(n))
			return
		}
		if v.Kind() == reflect.Uint || v.Kind() == reflect.Uint32 {
			n, _ := strconv.ParseUint(body, 10, 64)
			v.SetUint(n)
			return
		}
		n, err := strconv.ParseInt(body, 10, 64)
		if err != nil {
			panic("bad int token " + tok)
		}
		v.SetInt(n)
	case "d":
		n, err := strconv.ParseInt(body, 10, 64)
		if err != nil {
			panic("bad dur token " + tok)
		}
		v.SetInt(n)
	case "s":
		if v.Kind() == reflect.Interface {
			v.Set(reflect.ValueOf(unhx(body)))
			return
		}
		v.SetString(unhx(body))
	case "b":
		v.SetBool(body == "1")
	case "l":
		l := []string{}
		if body != "" {
			parts := strings.Split(body, ",")
			for _, e := range parts[:len(parts)-1] { // every element is followed by ','
				l = append(l, unhx(e))
			}
		}
		v.Set(reflect.ValueOf(l))
	case "m":
		m := map[string]string{}
		for _, e := range strings.Split(body, ",") {
			if e == "" {
				continue
			}
			k, val, _ := strings.Cut(e, "=")
			m[unhx(k)] = unhx(val)
		}
		v.Set(reflect.ValueOf(m))
	case "t":
		n, _ := strconv.ParseInt(body, 10, 64)
		tm := time.Unix(0, n)
		v.Set(reflect.ValueOf(&tm))
	default:
		panic("bad token " + tok)
	}
}

func cfgDump(x any) string {
	var ls []cfgLeaf
	cfgLeaves(reflect.ValueOf(x).Elem(), "", &ls)
	var out []string
	for _, l := range ls {
		if tok, ok := cfgToken(l.v); ok {
			out = append(out, l.path+"="+tok)
		}
	}
	sort.Strings(out)
	return strings.Join(out, " ")
}

// cfgBuild builds a config.Dcp from `path=token` words
func cfgBuild(words []string) *config.Dcp {
	c := &config.Dcp{}
	var ls []cfgLeaf
	cfgLeaves(reflect.ValueOf(c).Elem(), "", &ls)
	idx := map[string]reflect.Value{}
	for _, l := range ls {
		idx[l.path] = l.v
	}
	for _, w := range words {
		p, tok, ok := strings.Cut(w, "=")
		if !ok {
			panic("bad word " + w)
		}
		v, ok := idx[p]
		if !ok {
			panic("unknown option path " + p)
		}
		cfgSetToken(v, tok)
	}
	return c
}

// ---------------------------------------------------------------- executing ops on the real code

func cfgExec(op string) string {
	w := strings.Fields(op)
	switch w[0] {
	case "cfg-defaults":
		return cfgExecDefaults(w[1:])
	case "cfg-meta", "cfg-member", "cfg-elector", "cfg-file":
		return cfgExecDerived(w[0], w[1:])
	case "cfg-size":
		return cfgExecSize(unhx(strings.TrimPrefix(w[1], "h")))
	case "cfg-envsubst":
		return cfgExecEnvSubst(w[1:])
	case "cfg-start":
		return cfgExecStart(w[1:])
	}
	panic("unknown op " + op)
}

func setenvOrUnset(k, v string) {
	if v == "" {
		os.Unsetenv(k)
	} else {
		os.Setenv(k, v)
	}
}

func cfgExecDefaults(w []string) (res string) {
	envs := strings.SplitN(strings.TrimPrefix(w[0], "env="), ":", 2)
	loggerSet := w[1] == "logger=1"
	c := cfgBuild(w[2:])
	saved := logger.Log
	setenvOrUnset(cfgEnvTotal, unhx(envs[0]))
	setenvOrUnset(cfgEnvMember, unhx(envs[1]))
	defer func() {
		os.Unsetenv(cfgEnvTotal)
		os.Unsetenv(cfgEnvMember)
		logger.Log = saved
		gocbcore.SetLogger(nil)
	}()
	if !loggerSet {
		logger.Log = nil
		// InitDefaultLogger's logrus instance captures os.Stderr when it is created and
		// reports an unknown level there before panicking: keep the run quiet
		if dn, err := os.OpenFile(os.DevNull, os.O_WRONLY, 0); err == nil {
			savedErr := os.Stderr
			os.Stderr = dn
			defer func() { os.Stderr = savedErr; dn.Close() }()
		}
	}
	apply := func() (out string) {
		defer func() {
			if r := recover(); r != nil {
				out = "panic"
			}
		}()
		c.ApplyDefaults()
		return cfgDump(c)
	}
	d1 := apply()
	if d1 == "panic" {
		return "panic"
	}
	if logger.Log == nil {
		return "logger-still-nil"
	}
	// second application on the same struct: in the real process a logger exists by now
	d2 := apply()
	return d1 + " | " + d2
}

// cfg-start: the public constructor dcp.NewDcp on a configuration struct whose hosts point at a dead port: newDcp runs
// ApplyDefaults, prints the configuration and fails in client.Connect. What the caller's struct (and the maps it shares with
// every copy) holds afterwards must be exactly what ApplyDefaults alone leaves - start-up never alters an explicitly set value.
// Observation = dump of the struct + the four derived views.
func cfgExecStart(w []string) (res string) {
	defer func() {
		if r := recover(); r != nil {
			res = "panic"
			if os.Getenv("VERIF_DEBUG") != "" {
				res = fmt.Sprintf("panic %v", r)
			}
		}
	}()
	c := cfgBuild(w)
	saved := logger.Log
	l := logrus.New()
	l.SetOutput(io.Discard)
	logger.Log = &logger.Loggers{Logrus: l}
	defer func() { logger.Log = saved; gocbcore.SetLogger(nil) }()
	d, err := dcp.NewDcp(c, func(*models.ListenerContext) {})
	if err == nil {
		d.Close()
		return "started"
	}
	view := func(f func() any) (out string) {
		defer func() {
			if r := recover(); r != nil {
				out = "panic"
			}
		}()
		return cfgDump(f())
	}
	return cfgDump(c) + " ;meta " + view(func() any { return c.GetCouchbaseMetadata() }) +
		" ;member " + view(func() any { return c.GetCouchbaseMembership() }) +
		" ;elector " + view(func() any { return c.GetKubernetesLeaderElector() })
}

func cfgExecDerived(kind string, w []string) (res string) {
	defer func() {
		if r := recover(); r != nil {
			res = "panic"
		}
	}()
	c := cfgBuild(w)
	switch kind {
	case "cfg-meta":
		return cfgDump(c.GetCouchbaseMetadata())
	case "cfg-member":
		return cfgDump(c.GetCouchbaseMembership())
	case "cfg-elector":
		return cfgDump(c.GetKubernetesLeaderElector())
	default:
		return "s:" + hx(c.GetFileMetadata())
	}
}

func cfgExecSize(s string) (res string) {
	defer func() {
		if r := recover(); r != nil {
			res = "panic"
		}
	}()
	return strconv.Itoa(helpers.ResolveUnionIntOrStringValue(s))
}

// ---- ${VAR}: file layout

type cfgLine struct {
	kind   string // q = `prefix"tmpl"`, p = `prefix tmpl` (plain scalar), r = raw
	prefix string
	segs   []cfgSeg
}
type cfgSeg struct {
	isVar bool
	text  string // literal text or variable name
}

func (l cfgLine) render() string {
	var sb strings.Builder
	sb.WriteString(l.prefix)
	if l.kind == "q" {
		sb.WriteByte('"')
	}
	for _, s := range l.segs {
		if s.isVar {
			sb.WriteString("${" + s.text + "}")
		} else {
			sb.WriteString(s.text)
		}
	}
	if l.kind == "q" {
		sb.WriteByte('"')
	}
	return sb.String()
}

func (l cfgLine) token() string {
	if l.kind == "r" && len(l.segs) == 0 {
		return "r:" + hx(l.prefix)
	}
	var segs []string
	for _, s := range l.segs {
		if s.isVar {
			segs = append(segs, "v"+hx(s.text))
		} else {
			segs = append(segs, "l"+hx(s.text))
		}
	}
	return l.kind + ":" + hx(l.prefix) + ":" + strings.Join(segs, ";")
}

func cfgParseLine(tok string) cfgLine {
	parts := strings.Split(tok, ":")
	l := cfgLine{kind: parts[0], prefix: unhx(parts[1])}
	if len(parts) > 2 && parts[2] != "" {
		for _, s := range strings.Split(parts[2], ";") {
			l.segs = append(l.segs, cfgSeg{isVar: s[0] == 'v', text: unhx(s[1:])})
		}
	}
	return l
}

// cfgValueOrder: the string leaves of a loaded config in the order in which the
// harness lays them out in the file (see cfgSlots): returns accessor by slot id
type cfgSlot struct {
	chain []string // parent keys
	key   string   // leaf key, "-" = list item
	get   func(c *config.Dcp, i int) string
}

var cfgSlots = []cfgSlot{
	{nil, "username", func(c *config.Dcp, _ int) string { return c.Username }},
	{nil, "password", func(c *config.Dcp, _ int) string { return c.Password }},
	{nil, "bucketName", func(c *config.Dcp, _ int) string { return c.BucketName }},
	{nil, "scopeName", func(c *config.Dcp, _ int) string { return c.ScopeName }},
	{nil, "rootCAPath", func(c *config.Dcp, _ int) string { return c.RootCAPath }},
	{[]string{"hosts"}, "-", func(c *config.Dcp, i int) string { return c.Hosts[i] }},
	{[]string{"collectionNames"}, "-", func(c *config.Dcp, i int) string { return c.CollectionNames[i] }},
	{[]string{"metric"}, "path", func(c *config.Dcp, _ int) string { return c.Metric.Path }},
	{[]string{"logging"}, "level", func(c *config.Dcp, _ int) string { return c.Logging.Level }},
	{[]string{"checkpoint"}, "type", func(c *config.Dcp, _ int) string { return c.Checkpoint.Type }},
	{[]string{"checkpoint"}, "autoReset", func(c *config.Dcp, _ int) string { return c.Checkpoint.AutoReset }},
	{[]string{"metadata"}, "type", func(c *config.Dcp, _ int) string { return c.Metadata.Type }},
	{[]string{"metadata", "config"}, "bucket", func(c *config.Dcp, _ int) string { return c.Metadata.Config["bucket"] }},
	{[]string{"metadata", "config"}, "fileName", func(c *config.Dcp, _ int) string { return c.Metadata.Config["fileName"] }},
	{[]string{"leaderElection"}, "type", func(c *config.Dcp, _ int) string { return c.LeaderElection.Type }},
	{[]string{"leaderElection", "config"}, "leaseLockName", func(c *config.Dcp, _ int) string { return c.LeaderElection.Config["leaseLockName"] }},
	{[]string{"dcp"}, "mode", func(c *config.Dcp, _ int) string { return string(c.Dcp.Mode) }},
	{[]string{"dcp", "group"}, "name", func(c *config.Dcp, _ int) string { return c.Dcp.Group.Name }},
	{[]string{"dcp", "group", "membership"}, "type", func(c *config.Dcp, _ int) string { return c.Dcp.Group.Membership.Type }},
	{[]string{"dcp", "group", "membership", "config"}, "heartbeatInterval", func(c *config.Dcp, _ int) string {
		return c.Dcp.Group.Membership.Config["heartbeatInterval"]
	}},
}

// value lines carry their slot in the prefix; the accessor is recovered from the
// parent chain that the raw lines before it opened.
func cfgExecEnvSubst(w []string) (res string) {
	defer func() {
		if r := recover(); r != nil {
			res = "panic"
		}
	}()
	envTok := strings.TrimPrefix(w[0], "env=")
	var names []string
	if envTok != "" {
		for _, e := range strings.Split(envTok, ",") {
			k, v, _ := strings.Cut(e, ":")
			names = append(names, unhx(k))
			os.Setenv(unhx(k), unhx(v))
		}
	}
	defer func() {
		for _, n := range names {
			os.Unsetenv(n)
		}
	}()
	var lines []cfgLine
	var text strings.Builder
	for _, t := range w[1:] {
		l := cfgParseLine(t)
		lines = append(lines, l)
		text.WriteString(l.render() + "\n")
	}
	f, err := os.CreateTemp(".", "c17-envsubst-*.yaml")
	if err != nil {
		panic(err)
	}
	path := f.Name()
	defer os.Remove(path)
	f.WriteString(text.String())
	f.Close()
	c, err := dcp.VerifNewDcpConfig(path)
	if err != nil {
		return "err"
	}
	// walk the lines again, tracking the open parent chain by indentation
	var chain []string
	listIdx := 0
	var out []string
	for _, l := range lines {
		trim := strings.TrimLeft(l.prefix, " ")
		depth := (len(l.prefix) - len(trim)) / 2
		if l.kind == "r" {
			if strings.HasPrefix(trim, "#") || trim == "" {
				continue
			}
			chain = append(chain[:depth:depth], strings.TrimSuffix(trim, ":"))
			listIdx = 0
			continue
		}
		key := strings.TrimSuffix(strings.TrimSpace(trim), ":")
		par := chain[:depth]
		var slot *cfgSlot
		for i := range cfgSlots {
			s := &cfgSlots[i]
			if s.key == key && strings.Join(s.chain, ".") == strings.Join(par, ".") {
				slot = s
			}
		}
		if slot == nil {
			panic("no slot for line " + l.render())
		}
		out = append(out, hx(slot.get(&c, listIdx)))
		if key == "-" {
			listIdx++
		}
	}
	return strings.Join(out, " ")
}

// ---------------------------------------------------------------- generators

var cfgStrPool = []string{"a", "x1", "couchbase", "file", "static", "auto", "manual", "latest", "kubernetes", "finite",
	"infinite", "_default", "my bucket", "päth/ü", "10mb", "0", " ", "a=b", "k:v", "-", "INFO", "1m"}

var cfgLevels = []string{"panic", "fatal", "error", "warn", "warning", "info", "debug", "trace", "INFO", "Debug", "wArN"}

func (c *Ctx) cfgStr() string {
	r := c.R
	if r.Chance(70) {
		return cfgStrPool[r.Intn(len(cfgStrPool))]
	}
	n := r.Range(1, 8)
	if r.Chance(8) {
		n = []int{127, 128, 129, 200, 255, 256, 300}[r.Intn(7)] // long values: a set option is kept whatever its length
	}
	b := make([]byte, n)
	for i := range b {
		b[i] = byte(r.Range(33, 126))
	}
	return string(b)
}

func (c *Ctx) cfgInt() int64 {
	r := c.R
	switch r.Intn(6) {
	case 0:
		return int64(r.Range(1, 9))
	case 1:
		return -int64(r.Range(1, 1000))
	case 2:
		return int64(r.U64()>>1) | 1
	case 3:
		return -int64(r.U64()>>1) - 1
	default:
		return int64(r.Range(1, 100000))
	}
}

// a random token for a leaf of the given type; never a typed zero
func (c *Ctx) cfgRandToken(path string, v reflect.Value) string {
	r := c.R
	switch {
	case v.Type() == durType:
		if r.Chance(60) {
			return "d:" + strconv.FormatInt(int64(r.Range(1, 600))*int64(time.Second), 10)
		}
		return "d:" + strconv.FormatInt(c.cfgInt(), 10)
	case v.Type() == timePtrT:
		return "t:" + strconv.FormatInt(int64(r.Range(0, 2000000000))*1000000000+int64(r.Intn(1000)), 10)
	}
	switch v.Kind() {
	case reflect.String:
		if path == "logging.level" && r.Chance(85) {
			return "s:" + hx(cfgLevels[r.Intn(len(cfgLevels))])
		}
		return "s:" + hx(c.cfgStr())
	case reflect.Int:
		return "i:" + strconv.FormatInt(c.cfgInt(), 10)
	case reflect.Bool:
		return "b:1"
	case reflect.Interface:
		switch r.Intn(5) {
		case 0:
			return "i:0" // non-nil interface holding 0: NOT unset
		case 1:
			return "s:" // non-nil interface holding ""
		case 2:
			return "s:" + hx(r.Pick("1mb", "10 kb", "2gb", "512", "1,5mb"))
		default:
			return "i:" + strconv.FormatInt(c.cfgInt(), 10)
		}
	case reflect.Slice:
		n := r.Intn(4) // 0 = empty but non-nil
		s := "l:"
		for i := 0; i < n; i++ {
			s += hx(c.cfgStr()) + ","
		}
		return s
	case reflect.Map:
		n := r.Intn(4)
		m := map[string]string{}
		for i := 0; i < n; i++ {
			m[c.cfgStr()] = c.cfgStr()
		}
		return cfgMapToken(m)
	}
	panic("no generator for " + path)
}

func (c *Ctx) cfgEnvVal() string {
	r := c.R
	switch r.Intn(10) {
	case 0:
		return r.Pick("abc", "1.5", " 3", "3 ", "1_0", "0x5", "+", "-", "9223372036854775808", "١")
	case 1:
		return r.Pick("0", "-1", "+7", "007", "9223372036854775807", "-9223372036854775808")
	default:
		return strconv.Itoa(r.Range(1, 64))
	}
}

func cfgOne(c *Ctx, op string, nontrivial bool, tags ...string) string {
	real := cfgExec(op)
	c.E.Line(op, real)
	if real == "panic" || strings.HasSuffix(real, "| panic") {
		tags = append(tags, tags[0]+".panic")
	}
	c.E.EndCase(nontrivial, tags...)
	return real
}

func (c *Ctx) cfgDefaultsCases() {
	r := c.R
	var ls []cfgLeaf
	cfgLeaves(reflect.ValueOf(&config.Dcp{}).Elem(), "", &ls)
	c.Extra["config_leaf_fields"] = len(ls)
	mk := func(env string, lg int, words []string) string {
		sort.Strings(words)
		return strings.TrimSpace(fmt.Sprintf("cfg-defaults env=%s logger=%d %s", env, lg, strings.Join(words, " ")))
	}
	// empty config, all logger/env shapes
	for lg := 0; lg <= 1; lg++ {
		cfgOne(c, mk(":", lg, nil), false, "defaults", "defaults.empty")
		cfgOne(c, mk(hx("5")+":"+hx("3"), lg, nil), true, "defaults", "defaults.env")
	}
	// every option alone (exhaustive over the leaf fields), a few values each
	for _, l := range ls {
		for k := 0; k < c.N(3, 12); k++ {
			cfgOne(c, mk(":", k%2, []string{l.path + "=" + c.cfgRandToken(l.path, l.v)}), true, "defaults", "defaults.single")
		}
	}
	// everything set
	for k := 0; k < c.N(20, 200); k++ {
		var words []string
		for _, l := range ls {
			words = append(words, l.path+"="+c.cfgRandToken(l.path, l.v))
		}
		cfgOne(c, mk(":", k%2, words), true, "defaults", "defaults.full")
	}
	// random subsets, random env
	for k := 0; k < c.N(10000, 150000); k++ {
		dens := []int{8, 25, 50, 75, 92}[r.Intn(5)]
		var words []string
		for _, l := range ls {
			if r.Chance(dens) {
				words = append(words, l.path+"="+c.cfgRandToken(l.path, l.v))
			}
		}
		env := ":"
		tags := []string{"defaults", "defaults.subset"}
		if r.Chance(40) {
			t, m := "", ""
			if r.Chance(70) {
				t = c.cfgEnvVal()
			}
			if r.Chance(70) {
				m = c.cfgEnvVal()
			}
			env = hx(t) + ":" + hx(m)
			tags = append(tags, "defaults.env")
		}
		cfgOne(c, mk(env, r.Intn(2), words), true, tags...)
	}
}

// start-up through the public constructor (dead port, 120 ms connection time-out): random subsets of the options that do not
// reach the file system, with the three override maps filled from their documented keys
func (c *Ctx) cfgStartCases() {
	r := c.R
	var ls []cfgLeaf
	cfgLeaves(reflect.ValueOf(&config.Dcp{}).Elem(), "", &ls)
	skip := map[string]bool{"hosts": true, "connectionTimeout": true, "dcp.connectionTimeout": true, "secureConnection": true, "rootCAPath": true,
		"logging.level": true, "metadata.config": true, "dcp.group.membership.config": true, "leaderElection.config": true}
	mapKeys := map[string][]string{
		"metadata.config": {"hosts", "username", "password", "bucket", "scope", "collection", "maxQueueSize", "connectionBufferSize"},
		"dcp.group.membership.config": {"expirySeconds", "heartbeatInterval", "heartbeatToleranceDuration", "monitorInterval", "timeout"},
		"leaderElection.config":       {"leaseLockName", "leaseLockNamespace", "leaseDuration", "renewDeadline", "retryPeriod"},
	}
	vals := []string{"x", "secret", "10.0.0.7:8091", "5", "20s", "1mb", "meta", ""}
	// the metadata connection time-out defaults to one minute and the larger of the two is used: always overridden here
	for k := 0; k < c.N(24, 120); k++ {
		words := []string{"hosts=l:" + hx("couchbase://127.0.0.1:1") + ",", "connectionTimeout=d:120000000", "dcp.connectionTimeout=d:120000000"}
		dens := []int{10, 40, 80}[r.Intn(3)]
		for _, l := range ls {
			// size options (`any`) with unparsable strings make client.Connect panic before anything else happens: not start-up's subject
			if skip[l.path] || l.v.Kind() == reflect.Interface || !r.Chance(dens) {
				continue
			}
			words = append(words, l.path+"="+c.cfgRandToken(l.path, l.v))
		}
		tags := []string{"start"}
		for mp, keys := range mapKeys {
			if mp != "metadata.config" && !r.Chance(70) {
				continue
			}
			m := map[string]string{}
			for _, key := range keys {
				if r.Chance(45) {
					switch key {
					case "maxQueueSize", "expirySeconds":
						m[key] = r.Pick("5", "2048", "100000")
					case "connectionBufferSize":
						m[key] = r.Pick("1mb", "5", "20971520", "2 kb")
					case "heartbeatInterval", "heartbeatToleranceDuration", "monitorInterval", "timeout", "leaseDuration", "renewDeadline", "retryPeriod":
						m[key] = r.Pick("20s", "5s", "1m", "750ms")
					default:
						m[key] = vals[r.Intn(len(vals))]
					}
				}
			}
			if _, ok := m["password"]; ok {
				tags = append(tags, "start.meta-password")
			}
			if mp == "metadata.config" {
				m["connectionTimeout"] = "120ms"
			}
			words = append(words, mp+"="+cfgMapToken(m))
		}
		sort.Strings(words)
		cfgOne(c, "cfg-start "+strings.Join(words, " "), true, tags...)
	}
}

func (c *Ctx) cfgDurStr() string {
	r := c.R
	switch r.Intn(12) {
	case 0:
		return r.Pick("", "5", "abc", "1 s", "1S", "1d", ".s", "1.5.s", "s", "-", "+", "1h 30m", "9223372036854775808ns", "3000000h", "1e3s", "1_0s")
	case 1:
		return r.Pick("0", "+0", "-0", "1.5s", "0.25h", "2.5m", "1.5ms", ".5s", "5.s", "-1.5h", "1µs", "1us", "1μs",
			"9223372036854775807ns", "-9223372036854775808ns", "2562047h47m16.854775807s", "2562047h47m16.854775808s", "-2562047h47m16.854775808s")
	}
	n := r.Range(1, 3)
	s := r.Pick("", "", "", "-", "+")
	for i := 0; i < n; i++ {
		s += strconv.Itoa(r.Range(0, 5000)) + r.Pick("ns", "us", "ms", "s", "m", "h")
	}
	return s
}

func (c *Ctx) cfgDerivedCases() {
	r := c.R
	mapTok := cfgMapToken
	unknown := func(m map[string]string) {
		for r.Chance(30) {
			m[r.Pick("Hosts", "host", "user", "ttl", "leaseLockname", "", "timeout ", "x")] = c.cfgStr()
		}
	}
	boolStr := func() string {
		return r.Pick("1", "t", "T", "TRUE", "true", "True", "0", "f", "F", "FALSE", "false", "False", "yes", "tRUE", "", "01")
	}
	for k := 0; k < c.N(4000, 50000); k++ {
		// --- GetCouchbaseMetadata
		var words []string
		if r.Chance(70) {
			words = append(words, "hosts="+c.cfgRandToken("hosts", reflect.ValueOf([]string{})))
		}
		for _, p := range []string{"username", "password", "bucketName", "rootCAPath"} {
			if r.Chance(60) {
				words = append(words, p+"=s:"+hx(c.cfgStr()))
			}
		}
		if r.Chance(40) {
			words = append(words, "secureConnection=b:1")
		}
		m := map[string]string{}
		for _, key := range []string{"hosts", "username", "password", "bucket", "scope", "collection", "rootCAPath"} {
			if r.Chance(35) {
				m[key] = c.cfgStr()
				if key == "hosts" {
					m[key] = r.Pick("h1:8091,h2:8091", "h1", "", ",", "a,,b", "a, b")
				}
			}
		}
		if r.Chance(35) {
			m["maxQueueSize"] = c.cfgSizeStr(true)
		}
		if r.Chance(35) {
			m["connectionBufferSize"] = c.cfgSizeStr(true)
		}
		if r.Chance(35) {
			m["connectionTimeout"] = c.cfgDurStr()
		}
		if r.Chance(35) {
			m["secureConnection"] = boolStr()
		}
		unknown(m)
		if len(m) > 0 || r.Chance(50) {
			words = append(words, "metadata.config="+mapTok(m))
		}
		sort.Strings(words)
		cfgOne(c, strings.TrimSpace("cfg-meta "+strings.Join(words, " ")), len(m) > 0, "derived", "derived.meta")

		// --- GetFileMetadata on the same kind of map
		fm := map[string]string{}
		if r.Chance(75) {
			fm["fileName"] = r.Pick("", "checkpoint.json", "a b", "/x/y.json", c.cfgStr())
		}
		unknown(fm)
		fw := ""
		if len(fm) > 0 || r.Chance(50) {
			fw = " metadata.config=" + mapTok(fm)
		}
		cfgOne(c, "cfg-file"+fw, len(fm) > 0, "derived", "derived.file")

		// --- GetCouchbaseMembership
		mm := map[string]string{}
		if r.Chance(40) {
			mm["expirySeconds"] = r.Pick("0", "1", "120", "4294967295", "4294967296", "-1", "+5", "05", "", "1_0", "12s", strconv.Itoa(r.Intn(100000)))
		}
		for _, key := range []string{"heartbeatInterval", "heartbeatToleranceDuration", "monitorInterval", "timeout"} {
			if r.Chance(40) {
				mm[key] = c.cfgDurStr()
			}
		}
		unknown(mm)
		mw := ""
		if len(mm) > 0 || r.Chance(50) {
			mw = " dcp.group.membership.config=" + mapTok(mm)
		}
		cfgOne(c, "cfg-member"+mw, len(mm) > 0, "derived", "derived.member")

		// --- GetKubernetesLeaderElector
		em := map[string]string{}
		if r.Chance(85) {
			em["leaseLockName"] = c.cfgStr()
		}
		if r.Chance(85) {
			em["leaseLockNamespace"] = r.Pick("", "default", c.cfgStr())
		}
		for _, key := range []string{"leaseDuration", "renewDeadline", "retryPeriod"} {
			if r.Chance(40) {
				em[key] = c.cfgDurStr()
			}
		}
		unknown(em)
		ew := ""
		if len(em) > 0 || r.Chance(50) {
			ew = " leaderElection.config=" + mapTok(em)
		}
		cfgOne(c, "cfg-elector"+ew, len(em) > 0, "derived", "derived.elector")
	}
}

// ---- size strings

var cfgUnits = [][]string{nil, {"kb", "KB", "Kb", "kB"}, {"mb", "MB", "Mb", "mB"}, {"gb", "GB", "Gb", "gB"}}

func cfgDigits(r *Rng, n int) string {
	b := make([]byte, n)
	for i := range b {
		b[i] = byte('0' + r.Intn(10))
	}
	return string(b)
}

// well-formed: [blanks][sign]I[sep F][blanks]unit with mant·1024^k < 2^53 (float caveat);
// returns string and class
func (c *Ctx) cfgWellFormed() (string, string) {
	r := c.R
	k := r.Range(1, 3)
	budget := []int{0, 12, 9, 6}[k] // decimal digits of the mantissa: 10^12·2^10 < 2^53, 10^9·2^20 < 2^53, 10^6·2^30 < 2^53
	ni := r.Range(0, budget)
	if r.Chance(50) {
		ni = r.Range(0, 3)
	}
	I := cfgDigits(r, ni)
	sep, F := "x", ""
	if ni == 0 || r.Chance(50) {
		sep = r.Pick("d", "c")
		nf := r.Range(0, budget-ni)
		if ni == 0 && nf == 0 {
			nf = 1
		}
		F = cfgDigits(r, nf)
	}
	sign := r.Pick("-", "-", "-", "p", "n")
	lead := strings.Repeat(" ", []int{0, 0, 0, 1, 2}[r.Intn(5)])
	if r.Chance(5) {
		lead = "\t"
	}
	mid := strings.Repeat(" ", []int{0, 0, 1, 1, 2, 5}[r.Intn(6)])
	if r.Chance(5) {
		mid = " \t"
	}
	s := lead + map[string]string{"-": "", "p": "+", "n": "-"}[sign] + I + map[string]string{"x": "", "d": ".", "c": ","}[sep] + F + mid + cfgUnits[k][r.Intn(4)]
	return s, fmt.Sprintf("wf:%s:%s:%s:%s:%d", sign, I, sep, F, k)
}

func (c *Ctx) cfgPlainInt() (string, string) {
	r := c.R
	sign := r.Pick("-", "-", "p", "n")
	var ds string
	switch r.Intn(5) {
	case 0:
		ds = r.Pick("0", "00", "9223372036854775807", "007")
	case 1:
		ds = strconv.FormatUint(r.U64()>>1, 10)
	default:
		ds = strconv.Itoa(r.Intn(1 << uint(r.Range(1, 40))))
	}
	return map[string]string{"-": "", "p": "+", "n": "-"}[sign] + ds, "int:" + sign + ":" + ds
}

var cfgMalformed = []string{"", "k", "b", "5", "kb", "5b", "10B", "0B", "1.5B", "10 b", "10 ", " 10", "1.5  mb ", "1kb ", "1.5.5kb", "1,5,5kb", "1 5kb",
	".kb", ",kb", "-kb", "+kb", "1ekb", "1e+kb", "e5kb", "1e2", "9223372036854775808", "-9223372036854775809", "10tb", "10pb", "10k", "10m", "10kib",
	"10 KiB", "two mb", "1/2mb", "1mbs", "mb1", "1 m b", "1k b", "١kb", "1kb\n", "1\nkb", "--1kb", "+-1kb", "1.kb.", "1..5kb", "1.5kbkb"}

// exponent forms and values outside the float-safe set are only compared when exactly representable
var cfgExtra = []string{"1e3kb", "1E+2Kb", "25e-1kb", "1e0mb", "0e5gb", "-0kb", "-0.5kb", "0.0kb", "000.5mb", "5.kb", ".5kb", "1.5 MB", "10 kb", "1,5mb",
	"8191gb", "0.000001gb", "1e-400kb", "0.9999999kb", "1023.999mb"}

func (c *Ctx) cfgSizeStr(allowBad bool) string {
	r := c.R
	switch r.Intn(10) {
	case 0:
		if allowBad {
			return cfgMalformed[r.Intn(len(cfgMalformed))]
		}
		fallthrough
	case 1, 2:
		s, _ := c.cfgPlainInt()
		return s
	case 3:
		return cfgExtra[r.Intn(len(cfgExtra))]
	}
	s, _ := c.cfgWellFormed()
	return s
}

func (c *Ctx) cfgSizeCases() {
	r := c.R
	for _, s := range cfgMalformed {
		cfgOne(c, "cfg-size h"+hx(s)+" mal", true, "size", "size.malformed")
	}
	for _, s := range cfgExtra {
		cfgOne(c, "cfg-size h"+hx(s)+" mal", true, "size", "size.extra")
	}
	// exhaustive small grid: I in 0..20, F in {none, "", 0, 5, 25, 75, 125}, all unit spellings
	for i := 0; i <= 20; i++ {
		for _, f := range []string{"x", "", "0", "5", "25", "75", "125"} {
			for k := 1; k <= 3; k++ {
				for _, u := range cfgUnits[k] {
					sep, F, txt := "d", f, "."+f
					if f == "x" {
						sep, F, txt = "x", "", ""
					}
					s := strconv.Itoa(i) + txt + u
					cfgOne(c, fmt.Sprintf("cfg-size h%s wf:-:%d:%s:%s:%d", hx(s), i, sep, F, k), true, "size", "size.grid")
				}
			}
		}
	}
	for k := 0; k < c.N(15000, 200000); k++ {
		switch r.Intn(10) {
		case 0, 1:
			s, cl := c.cfgPlainInt()
			cfgOne(c, "cfg-size h"+hx(s)+" "+cl, true, "size", "size.int")
		case 2:
			// mutate a well-formed string into a (probably) malformed one
			s, _ := c.cfgWellFormed()
			b := []byte(s)
			switch r.Intn(4) {
			case 0:
				if len(b) > 0 {
					b = append(b[:r.Intn(len(b))], b[min(len(b), r.Intn(len(b))+1):]...)
				}
			case 1:
				b = append(b, byte(r.Pick(" ", "s", "b", ".")[0]))
			case 2:
				if len(b) > 0 {
					b[r.Intn(len(b))] = byte(r.Pick(".", " ", "e", "-", "k", "9", ",")[0])
				}
			case 3:
				b = b[:len(b)-1]
			}
			ms := string(b)
			if cfgFloatSafe(ms) {
				cfgOne(c, "cfg-size h"+hx(ms)+" mal", true, "size", "size.mutated")
			}
		default:
			s, cl := c.cfgWellFormed()
			cfgOne(c, "cfg-size h"+hx(s)+" "+cl, true, "size", "size.wf")
		}
	}
}

// cfgFloatSafe: the stated input set for exact agreement between float64 code and
// rational model: no ParseFloat special forms, at most 15 mantissa digits,
// no exponent marker (mutations could otherwise leave the set).
func cfgFloatSafe(s string) bool {
	digits := 0
	for _, ch := range s {
		switch {
		case ch >= '0' && ch <= '9':
			digits++
		case strings.ContainsRune("_xXiInNeEpP", ch):
			return false
		}
	}
	return digits <= 6
}

// ---- ${VAR} layouts

var cfgVarNames = []string{"VF_A", "VF_B", "VF_C", "VF_LONG_NAME_1", "vf_lower", "VF_UNSET", "VF_UNSET2"}

func (c *Ctx) cfgEnvSubstCase(mode string) {
	r := c.R
	// environment: which names exist (a name that exists may hold "")
	env := map[string]string{}
	valAlpha := "abcdefghijklmnopqrstuvwxyzABCDEFGHIJKLMNOPQRSTUVWXYZ0123456789 -_./:#@!%^&*()[]<>?=+,;'~|{}"
	plainAlpha := "abcdefghijklmnopqrstuvwxyzABCDEFGHIJKLMNOPQRSTUVWXYZ0123456789-_./"
	randFrom := func(alpha string, lo, hi int) string {
		n := r.Range(lo, hi)
		b := make([]byte, n)
		for i := range b {
			b[i] = alpha[r.Intn(len(alpha))]
		}
		return string(b)
	}
	names := append([]string{}, cfgVarNames[:5]...)
	if mode == "weird" {
		names = append(names, "A B", "x{y", "a:b", "VF_A${VF_B", "é")
	}
	for _, n := range names {
		if r.Chance(75) {
			switch {
			case mode == "chain" && r.Chance(50):
				env[n] = r.Pick("${VF_A}", "${VF_B}", "$", "${", "a${VF_C}b", "${VF_UNSET}", "$VF_A", "}", "${}", "$${VF_A}")
			case r.Chance(10):
				env[n] = ""
			case r.Chance(10):
				env[n] = r.Pick("päth", "ü", "日本")
			default:
				env[n] = randFrom(valAlpha, 1, 10)
			}
		}
	}
	pickName := func() string {
		if mode == "weird" && r.Chance(40) {
			return names[5+r.Intn(len(names)-5)]
		}
		return cfgVarNames[r.Intn(len(cfgVarNames))]
	}
	tmpl := func(plain bool) []cfgSeg {
		var segs []cfgSeg
		n := r.Range(1, 5)
		for i := 0; i < n; i++ {
			if r.Chance(55) {
				segs = append(segs, cfgSeg{true, pickName()})
			} else if plain {
				segs = append(segs, cfgSeg{false, randFrom(plainAlpha, 1, 6)})
			} else {
				lit := randFrom(valAlpha, 0, 8)
				if mode == "weird" && r.Chance(30) {
					lit = r.Pick("$", "${", "$$", "${}", "}", "{", "$}", "${VF_A")
				}
				segs = append(segs, cfgSeg{false, lit})
			}
		}
		return segs
	}
	var lines []cfgLine
	var chain []string
	open := func(ch []string) {
		i := 0
		for i < len(chain) && i < len(ch) && chain[i] == ch[i] {
			i++
		}
		for ; i < len(ch); i++ {
			lines = append(lines, cfgLine{kind: "r", prefix: strings.Repeat("  ", i) + ch[i] + ":"})
		}
		chain = ch
	}
	if r.Chance(30) {
		lines = append(lines, cfgLine{kind: "r", prefix: "# generated ", segs: []cfgSeg{{true, "VF_A"}, {false, " and "}, {true, "VF_UNSET"}}})
	}
	nvals := 0
	for _, s := range cfgSlots {
		if !r.Chance(35) {
			continue
		}
		open(s.chain)
		ind := strings.Repeat("  ", len(s.chain))
		reps := 1
		if s.key == "-" {
			reps = r.Range(1, 3)
		}
		for i := 0; i < reps; i++ {
			kind := "q"
			// plain scalars only with a safe alphabet and only when every referenced variable
			// holds a plain-safe value (else YAML syntax, not substitution, would be under test)
			if mode == "plain" {
				kind = "p"
			}
			pre := ind + s.key + ": "
			if s.key == "-" {
				pre = ind + "- "
			}
			l := cfgLine{kind: kind, prefix: pre, segs: tmpl(kind == "p")}
			if kind == "p" {
				// must start with a letter so that YAML reads a plain string scalar
				l.segs = append([]cfgSeg{{false, "v"}}, l.segs...)
			}
			lines = append(lines, l)
			nvals++
		}
	}
	if nvals == 0 {
		lines = append(lines, cfgLine{kind: "q", prefix: "username: ", segs: tmpl(false)})
	}
	if mode == "plain" {
		for n, v := range env {
			ok := true
			for _, ch := range v {
				if !strings.ContainsRune(plainAlpha, ch) {
					ok = false
				}
			}
			if !ok {
				env[n] = randFrom(plainAlpha, 0, 8)
			}
		}
	}
	var envToks []string
	var ns []string
	for n := range env {
		ns = append(ns, n)
	}
	sort.Strings(ns)
	for _, n := range ns {
		envToks = append(envToks, hx(n)+":"+hx(env[n]))
	}
	op := "cfg-envsubst env=" + strings.Join(envToks, ",")
	for _, l := range lines {
		op += " " + l.token()
	}
	real := cfgOne(c, op, len(env) > 0, "envsubst", "envsubst."+mode)
	if real == "err" {
		c.E.Tag("envsubst.err")
	}
}

func (c *Ctx) cfgEnvSubstCases() {
	for k := 0; k < c.N(6000, 80000); k++ {
		mode := []string{"quoted", "quoted", "quoted", "plain", "chain", "weird"}[c.R.Intn(6)]
		c.cfgEnvSubstCase(mode)
	}
}

func runC17(c *Ctx) {
	if replayFile != "" {
		f, err := os.Open(replayFile)
		if err != nil {
			panic(err)
		}
		defer f.Close()
		sc := bufio.NewScanner(f)
		sc.Buffer(make([]byte, 1<<20), 1<<24)
		for sc.Scan() {
			op := strings.TrimSpace(strings.SplitN(sc.Text(), "\t", 2)[0])
			if op == "" {
				continue
			}
			cfgOne(c, op, true, "replay")
		}
		return
	}
	c.cfgDefaultsCases()
	c.cfgStartCases()
	c.cfgDerivedCases()
	c.cfgSizeCases()
	c.cfgEnvSubstCases()
}
