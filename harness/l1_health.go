package main

// Stream "c19": the real couchbase.NewHealthCheck under a scripted Ping fake.
//
// Every op is executed in its own CHILD process (this binary re-executed with
// VERIF_CHILD=c19 and VERIF_CHILD_OP=<op>): the library panics inside its own
// goroutine after five failed pings, which kills the process; in a child that
// is an observation (exit status + "panic:" + the scripted error on stderr)
// instead of the end of the harness. The child is entered from init(), before
// main() parses flags, so main.go needs no hook. All children run concurrently
// (the retry interval is hard-coded to 1 s in the library; a round costs up to
// 4 s of real time).
//
// Timing rules (all margins >= 10x on an idle machine):
//   - the ticker interval of a scenario is chosen so that exactly one round can
//     start inside the observation window (interval > duration of everything
//     observed + 1 s), except for hc-rounds, which uses a 20 ms interval and
//     classifies every ping by the gap to the previous ping's return:
//     >= 800 ms = after a retry wait (R, the library waits >= 1 s), else after a tick (T);
//   - Stop() "returned promptly" = within 500 ms (the failure mode is ~900 ms);
//   - "late" pings are counted for 1.3 s after Stop() returned.

import (
	"bufio"
	"bytes"
	"errors"
	"fmt"
	"os"
	"os/exec"
	"strings"
	"sync"
	"time"

	"github.com/Trendyol/go-dcp/config"
	"github.com/Trendyol/go-dcp/couchbase"
	"github.com/Trendyol/go-dcp/logger"
	"github.com/Trendyol/go-dcp/models"
	"github.com/sirupsen/logrus"
)

func init() {
	props["c19"] = runC19
	if os.Getenv("VERIF_CHILD") == "c19" {
		hcChildMain(os.Getenv("VERIF_CHILD_OP"))
		os.Exit(0)
	}
}

const (
	hcGrace     = 1300 * time.Millisecond
	hcStopBound = 500 * time.Millisecond
	hcRetryGap  = 800 * time.Millisecond
	hcErrText   = "verif: scripted ping failure"
)

// ---------------------------------------------------------------- fake client

// hcClient implements couchbase.Client; only Ping is real. The embedded nil
// interface makes every other method panic: the health checker may only Ping.
type hcClient struct {
	couchbase.Client
	mu          sync.Mutex
	enter       []time.Time
	ret         []time.Time
	inFlight    int
	maxInFlight int
	// onPing decides the result of call n (1-based); it may block.
	onPing func(n int, gap time.Duration) error
}

func (c *hcClient) Ping() (*models.PingResult, error) {
	now := time.Now()
	c.mu.Lock()
	n := len(c.enter) + 1
	gap := time.Duration(0)
	if k := len(c.ret); k > 0 && k == len(c.enter) {
		gap = now.Sub(c.ret[k-1])
	}
	c.enter = append(c.enter, now)
	c.inFlight++
	if c.inFlight > c.maxInFlight {
		c.maxInFlight = c.inFlight
	}
	c.mu.Unlock()
	err := c.onPing(n, gap)
	c.mu.Lock()
	c.ret = append(c.ret, time.Now())
	c.inFlight--
	c.mu.Unlock()
	if err != nil {
		return nil, err
	}
	return &models.PingResult{}, nil
}

func (c *hcClient) count() int {
	c.mu.Lock()
	defer c.mu.Unlock()
	return len(c.enter)
}

func (c *hcClient) concurrent() int {
	c.mu.Lock()
	defer c.mu.Unlock()
	return c.maxInFlight
}

func hcNew(interval time.Duration, cl *hcClient) couchbase.HealthCheck {
	return couchbase.NewHealthCheck(&config.HealthCheck{Interval: interval, Timeout: time.Minute}, cl)
}

// timedStop calls Stop() and classifies how long it took.
func hcTimedStop(h couchbase.HealthCheck) string {
	done := make(chan struct{})
	t0 := time.Now()
	go func() { h.Stop(); close(done) }()
	select {
	case <-done:
		if time.Since(t0) <= hcStopBound {
			return "stopped"
		}
		return "slow"
	case <-time.After(4 * time.Second):
		return "hung"
	}
}

func hcLate(cl *hcClient, at int, wait time.Duration) string {
	time.Sleep(wait)
	return fmt.Sprintf("late=%d", cl.count()-at)
}

func hcWait(ch <-chan struct{}, d time.Duration) bool {
	select {
	case <-ch:
		return true
	case <-time.After(d):
		return false
	}
}

func hcPattern(s string) []bool {
	var p []bool
	for _, c := range s {
		p = append(p, c == 'S')
	}
	return p
}

// ---------------------------------------------------------------- child side

var hcOut = bufio.NewWriter(os.Stdout)

// sofar publishes what the observation would be if the process died now.
func hcSofar(s string) { fmt.Fprintf(hcOut, "sofar %s\n", s); hcOut.Flush() }
func hcFinal(s string) { fmt.Fprintf(hcOut, "obs %s\n", s); hcOut.Flush() }

func hcChildMain(op string) {
	l := logrus.New()
	l.SetLevel(logrus.PanicLevel)
	logger.Log = &logger.Loggers{Logrus: l}
	f := strings.Fields(op)
	if len(f) == 0 {
		hcFinal("bad-op")
		return
	}
	switch f[0] {
	case "hc-round":
		slow := time.Duration(0)
		if len(f) > 2 && strings.HasPrefix(f[2], "slow=") {
			var ms int
			fmt.Sscan(f[2][5:], &ms)
			slow = time.Duration(ms) * time.Millisecond
		}
		hcChildRound(f[1], slow)
	case "hc-rounds":
		hcChildRounds(strings.Split(f[1], ","))
	case "hc-stop":
		switch f[1] {
		case "before-tick":
			hcChildStopBeforeTick()
		case "during-retry":
			var k int
			fmt.Sscan(f[2], &k)
			hcChildStopDuringRetry(k)
		case "during-ping":
			var k int
			fmt.Sscan(f[2], &k)
			hcChildStopDuringPing(k, f[3] == "S", len(f) > 4 && f[4] == "slow")
		}
	case "hc-double-start":
		hcChildDoubleStart()
	case "hc-double-stop":
		hcChildDoubleStop(f[1] == "conc")
	case "hc-stop-then-start":
		hcChildStopThenStart()
	default:
		hcFinal("bad-op")
	}
}

// one isolated round with the given result pattern
// slow > 0: healthCheck.timeout = slow and every failing ping takes exactly that long (a ping failing by its deadline on a
// silent server); the outcome of a round must not depend on it
func hcChildRound(ps string, slow time.Duration) {
	p := hcPattern(ps)
	s := len(p) // index of first success
	for i, b := range p {
		if b {
			s = i
			break
		}
	}
	interval := 50 * time.Millisecond
	if s < len(p) {
		interval = time.Duration(s)*(time.Second+slow) + 2500*time.Millisecond
	}
	done := make(chan struct{})
	var once sync.Once
	cl := &hcClient{}
	cl.onPing = func(n int, _ time.Duration) error {
		hcSofar(fmt.Sprintf("pings=%d", n))
		if n <= len(p) && !p[n-1] {
			time.Sleep(slow)
			return errors.New(hcErrText)
		}
		once.Do(func() { close(done) })
		return nil
	}
	h := hcNew(interval, cl)
	if slow > 0 {
		h = couchbase.NewHealthCheck(&config.HealthCheck{Interval: interval, Timeout: slow}, cl)
	}
	h.Start()
	if !hcWait(done, interval+time.Duration(len(p))*(time.Second+slow)+3*time.Second) {
		hcFinal(fmt.Sprintf("pings=%d timeout", cl.count()))
		return
	}
	// a round that did not end with the success would ping again after the 1 s retry wait
	time.Sleep(hcGrace)
	n := cl.count()
	h.Stop()
	hcFinal(fmt.Sprintf("pings=%d ok", n))
}

// several rounds back to back (20 ms ticker); observation = T/R label per ping
func hcChildRounds(rounds []string) {
	var flat []bool
	for _, r := range rounds {
		flat = append(flat, hcPattern(r)...)
	}
	done := make(chan struct{})
	var once sync.Once
	var mu sync.Mutex
	labels := ""
	cl := &hcClient{}
	cl.onPing = func(n int, gap time.Duration) error {
		if n > len(flat) {
			return nil // after the script: not observed
		}
		mu.Lock()
		if n > 1 && gap >= hcRetryGap {
			labels += "R"
		} else {
			labels += "T"
		}
		hcSofar(labels)
		mu.Unlock()
		if !flat[n-1] {
			return errors.New(hcErrText)
		}
		if n == len(flat) {
			once.Do(func() { close(done) })
		}
		return nil
	}
	h := hcNew(20*time.Millisecond, cl)
	h.Start()
	if !hcWait(done, time.Duration(len(flat))*time.Second+5*time.Second) {
		mu.Lock()
		hcFinal(labels + " timeout")
		mu.Unlock()
		return
	}
	h.Stop()
	mu.Lock()
	hcFinal(labels + " ok")
	mu.Unlock()
}

func hcChildStopBeforeTick() {
	cl := &hcClient{onPing: func(int, time.Duration) error { return nil }}
	h := hcNew(1500*time.Millisecond, cl)
	h.Start()
	time.Sleep(100 * time.Millisecond)
	st := hcTimedStop(h)
	n := cl.count()
	hcFinal(fmt.Sprintf("%s pings=%d %s", st, n, hcLate(cl, n, 1500*time.Millisecond+hcGrace)))
}

// Stop() 100 ms into the 1 s retry wait that follows failed attempt k
func hcChildStopDuringRetry(k int) {
	reached := make(chan struct{})
	cl := &hcClient{}
	cl.onPing = func(n int, _ time.Duration) error {
		hcSofar(fmt.Sprintf("pings=%d", n))
		if n == k {
			close(reached)
		}
		return errors.New(hcErrText)
	}
	h := hcNew(time.Duration(k)*time.Second+1500*time.Millisecond, cl)
	h.Start()
	if !hcWait(reached, time.Duration(2*k)*time.Second+5*time.Second) {
		hcFinal(fmt.Sprintf("timeout pings=%d", cl.count()))
		return
	}
	time.Sleep(100 * time.Millisecond)
	st := hcTimedStop(h)
	n := cl.count()
	hcFinal(fmt.Sprintf("%s pings=%d %s", st, n, hcLate(cl, n, hcGrace)))
}

// Stop() while Ping() number k is blocked; the ping is then released with the given result
func hcChildStopDuringPing(k int, success bool, slow bool) {
	reached := make(chan struct{})
	release := make(chan struct{})
	cl := &hcClient{}
	cl.onPing = func(n int, _ time.Duration) error {
		if n == k {
			close(reached)
			<-release
			if success {
				return nil
			}
		}
		return errors.New(hcErrText)
	}
	h := hcNew(time.Duration(k)*time.Second+1500*time.Millisecond, cl)
	h.Start()
	if !hcWait(reached, time.Duration(2*k)*time.Second+5*time.Second) {
		hcFinal(fmt.Sprintf("timeout pings=%d", cl.count()))
		return
	}
	time.Sleep(50 * time.Millisecond)
	if slow {
		// the failing ping takes longer than the 1 s retry interval (e.g. it runs into its own timeout)
		time.Sleep(1100 * time.Millisecond)
	}
	stopped := make(chan struct{})
	go func() { h.Stop(); close(stopped) }()
	blocked := "blocked"
	if hcWait(stopped, 400*time.Millisecond) {
		blocked = "not-blocked"
	}
	hcSofar(fmt.Sprintf("%s pings=%d", blocked, cl.count()))
	t0 := time.Now()
	close(release)
	st := "hung"
	if hcWait(stopped, 4*time.Second) {
		st = "stopped"
		if time.Since(t0) > hcStopBound {
			st = "slow"
		}
	}
	n := cl.count()
	hcFinal(fmt.Sprintf("%s %s pings=%d %s", blocked, st, n, hcLate(cl, n, hcGrace)))
}

func hcChildDoubleStart() {
	reached := make(chan struct{})
	release := make(chan struct{})
	var once sync.Once
	cl := &hcClient{}
	cl.onPing = func(n int, _ time.Duration) error {
		once.Do(func() { close(reached) })
		<-release
		return nil
	}
	h := hcNew(300*time.Millisecond, cl)
	h.Start()
	h.Start()
	if !hcWait(reached, 3*time.Second) {
		hcFinal("timeout")
		return
	}
	time.Sleep(300 * time.Millisecond)
	h.Start()
	time.Sleep(400 * time.Millisecond) // a second goroutine would be inside Ping as well by now
	g := cl.concurrent()
	close(release)
	st := hcTimedStop(h)
	n := cl.count()
	hcFinal(fmt.Sprintf("goroutines=%d %s %s", g, st, hcLate(cl, n, time.Second)))
}

func hcChildDoubleStop(conc bool) {
	two := make(chan struct{})
	var once sync.Once
	cl := &hcClient{}
	cl.onPing = func(n int, _ time.Duration) error {
		if n >= 2 {
			once.Do(func() { close(two) })
		}
		return nil
	}
	h := hcNew(50*time.Millisecond, cl)
	h.Start()
	if !hcWait(two, 3*time.Second) {
		hcFinal("timeout")
		return
	}
	var a, b string
	if conc {
		var wg sync.WaitGroup
		wg.Add(2)
		go func() { a = hcTimedStop(h); wg.Done() }()
		go func() { b = hcTimedStop(h); wg.Done() }()
		wg.Wait()
	} else {
		a = hcTimedStop(h)
		b = hcTimedStop(h)
	}
	n := cl.count()
	hcFinal(fmt.Sprintf("%s %s %s", a, b, hcLate(cl, n, 600*time.Millisecond)))
}

// Stop() on a checker that was never started, then Start(), then Stop() again
func hcChildStopThenStart() {
	cl := &hcClient{onPing: func(int, time.Duration) error { return nil }}
	h := hcNew(50*time.Millisecond, cl)
	s1 := hcTimedStop(h)
	h.Start()
	time.Sleep(600 * time.Millisecond)
	p := "silent"
	if cl.count() > 0 {
		p = "pinging"
	}
	s2 := hcTimedStop(h)
	n := cl.count()
	time.Sleep(600 * time.Millisecond)
	late := "late=0"
	if cl.count() > n {
		late = "late=yes"
	}
	hcFinal(fmt.Sprintf("%s started %s %s %s", s1, p, s2, late))
}

// ---------------------------------------------------------------- parent side

// hcRunChild executes one op in a child and turns what happened into the observation.
func hcRunChild(op string) (obs string, tags []string) {
	cmd := exec.Command(os.Args[0])
	cmd.Env = append(os.Environ(), "VERIF_CHILD=c19", "VERIF_CHILD_OP="+op)
	var so, se bytes.Buffer
	cmd.Stdout, cmd.Stderr = &so, &se
	if err := cmd.Start(); err != nil {
		return "child-error", []string{"child-error"}
	}
	done := make(chan error, 1)
	go func() { done <- cmd.Wait() }()
	var err error
	select {
	case err = <-done:
	case <-time.After(40 * time.Second):
		cmd.Process.Kill()
		<-done
		return "timeout", []string{"child-timeout"}
	}
	sofar, final := "", ""
	for _, ln := range strings.Split(so.String(), "\n") {
		if strings.HasPrefix(ln, "sofar ") {
			sofar = ln[6:]
		} else if strings.HasPrefix(ln, "obs ") {
			final = ln[4:]
		}
	}
	if err == nil && final != "" {
		return final, []string{"exit-0"}
	}
	est := se.String()
	// the library's own fail-stop: panic(err) with the scripted ping error as the panic value
	if err != nil && strings.Contains(est, "panic:") && strings.Contains(est, hcErrText) {
		return strings.TrimSpace(sofar + " panic"), []string{"exit-panic"}
	}
	if err != nil && strings.Contains(est, "panic:") {
		return "other-panic", []string{"exit-other-panic"}
	}
	return "child-error", []string{"child-error"}
}

func hcRandomRounds(c *Ctx, endPanic bool) string {
	budget := 5 // seconds of retry waits
	if endPanic {
		budget = 2
	}
	n := c.R.Range(2, 4)
	var rs []string
	for i := 0; i < n; i++ {
		f := 0
		if c.R.Chance(65) && budget > 0 {
			f = c.R.Range(1, min(4, budget))
		}
		budget -= f
		rs = append(rs, strings.Repeat("F", f)+"S")
	}
	if endPanic {
		rs = append(rs, "FFFFF")
	}
	return strings.Join(rs, ",")
}

func runC19(c *Ctx) {
	var ops []string
	if replayFile != "" {
		b, err := os.ReadFile(replayFile)
		if err != nil {
			panic(err)
		}
		for _, ln := range strings.Split(string(b), "\n") {
			if ln = strings.TrimSpace(strings.SplitN(ln, "\t", 2)[0]); ln != "" {
				ops = append(ops, ln)
			}
		}
	} else {
		// all 2^5 patterns of a round
		for m := 0; m < 32; m++ {
			p := ""
			for i := 0; i < 5; i++ {
				if m&(1<<(4-i)) != 0 {
					p += "S"
				} else {
					p += "F"
				}
			}
			ops = append(ops, "hc-round "+p)
		}
		// pings that fail by their deadline (healthCheck.timeout = ping duration): the five-in-a-row rule is unchanged
		ops = append(ops, "hc-round FFFFF slow=300", "hc-round FFFFS slow=300", "hc-round FFSFF slow=250", "hc-round FFFFF slow=1200")
		// Stop() at every point of a round
		ops = append(ops, "hc-stop before-tick")
		for k := 1; k <= 4; k++ {
			ops = append(ops, fmt.Sprintf("hc-stop during-retry %d", k))
		}
		for k := 1; k <= 5; k++ {
			ops = append(ops, fmt.Sprintf("hc-stop during-ping %d F", k), fmt.Sprintf("hc-stop during-ping %d S", k))
			if k < 5 {
				ops = append(ops, fmt.Sprintf("hc-stop during-ping %d F slow", k))
			}
		}
		ops = append(ops, "hc-double-start", "hc-double-stop seq", "hc-double-stop conc", "hc-stop-then-start")
		// runs of rounds
		ops = append(ops, "hc-rounds S,S,S", "hc-rounds FS,S,FFS", "hc-rounds S,FFFFF", "hc-rounds FFFFS,FFFFF")
		for i := 0; i < c.N(6, 30); i++ {
			ops = append(ops, "hc-rounds "+hcRandomRounds(c, i%3 == 2))
		}
	}
	type res struct {
		obs  string
		tags []string
	}
	out := make([]res, len(ops))
	var wg sync.WaitGroup
	sem := make(chan struct{}, 96)
	for i, op := range ops {
		wg.Add(1)
		go func(i int, op string) {
			defer wg.Done()
			sem <- struct{}{}
			defer func() { <-sem }()
			o, t := hcRunChild(op)
			// a time-dependent scenario that timed out on the harness side is re-run (at most twice)
			for try := 0; try < 2 && (strings.Contains(o, "timeout") || o == "child-error"); try++ {
				o, t = hcRunChild(op)
				t = append(t, "rerun")
			}
			out[i] = res{o, t}
		}(i, op)
	}
	wg.Wait()
	for i, op := range ops {
		c.E.Line(op, out[i].obs)
		kind := strings.Fields(op)[0]
		nontrivial := true
		if kind == "hc-round" {
			nontrivial = strings.Contains(op, "F")
		}
		c.E.EndCase(nontrivial, append(out[i].tags, kind)...)
	}
	c.Extra["children"] = len(ops)
}
