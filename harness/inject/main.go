// Command inject instruments a COPY of go-dcp's working tree with the schedule points the stream `life-wait`
// needs (DESIGN.md §9): it parses stream/stream.go, inserts six one-line calls `verifPoint(<recv>, "<name>")`
// by syntactic position – not by line numbers, so unrelated edits and most rewrites of those functions keep
// working – and adds stream/zz_verif_points.go (build tag `verif`) which defines the hook variable
// `stream.VerifPoint`. Nothing else is changed; /repo itself is never touched.
//
//	wait():      first statement                       -> wait.start
//	             after the first `select` statement    -> wait.token
//	             before `close(<recv>.stopCh)`         -> wait.before-stop
//	listenEnd(): first statement                       -> end.start
//	             before `<recv>.finishStreamWithEndEventCh <- …` -> end.before-send
//	Close():     before `<recv>.finishStreamWithCloseCh <- …`    -> close.before-send
//
// Usage: inject <dir-of-the-copy>; prints one line `point <name> ok|missing` per point; exit 1 when the file
// cannot be parsed or a function is missing altogether.
package main

import (
	"bytes"
	"fmt"
	"go/ast"
	"go/format"
	"go/parser"
	"go/token"
	"os"
	"path/filepath"
)

const hookFile = `//go:build verif

package stream

// VerifPoint is the schedule-point hook of the verification harness (/verif, stream life-wait). This file and the
// verifPoint(...) calls exist only in the instrumented COPY of the tree that bin/vcheck builds; nil = no effect.
var VerifPoint func(s Stream, name string)

func verifPoint(s *stream, name string) {
	if f := VerifPoint; f != nil {
		f(s, name)
	}
}
`

func call(recv, name string) ast.Stmt {
	return &ast.ExprStmt{X: &ast.CallExpr{
		Fun:  ast.NewIdent("verifPoint"),
		Args: []ast.Expr{ast.NewIdent(recv), &ast.BasicLit{Kind: token.STRING, Value: fmt.Sprintf("%q", name)}},
	}}
}

// insertBefore walks every statement list below n and inserts st in front of the first statement that matches.
func insertBefore(n ast.Node, match func(ast.Stmt) bool, st ast.Stmt) bool {
	done := false
	fix := func(list []ast.Stmt) []ast.Stmt {
		if done {
			return list
		}
		for i, s := range list {
			if match(s) {
				done = true
				out := append([]ast.Stmt{}, list[:i]...)
				out = append(out, st)
				return append(out, list[i:]...)
			}
		}
		return list
	}
	ast.Inspect(n, func(x ast.Node) bool {
		switch b := x.(type) {
		case *ast.BlockStmt:
			b.List = fix(b.List)
		case *ast.CaseClause:
			b.Body = fix(b.Body)
		case *ast.CommClause:
			b.Body = fix(b.Body)
		}
		return !done
	})
	return done
}

func isSendOn(s ast.Stmt, recv, field string) bool {
	snd, ok := s.(*ast.SendStmt)
	if !ok {
		return false
	}
	sel, ok := snd.Chan.(*ast.SelectorExpr)
	if !ok || sel.Sel.Name != field {
		return false
	}
	id, ok := sel.X.(*ast.Ident)
	return ok && id.Name == recv
}

func isCloseOf(s ast.Stmt, recv, field string) bool {
	es, ok := s.(*ast.ExprStmt)
	if !ok {
		return false
	}
	c, ok := es.X.(*ast.CallExpr)
	if !ok || len(c.Args) != 1 {
		return false
	}
	if f, ok := c.Fun.(*ast.Ident); !ok || f.Name != "close" {
		return false
	}
	sel, ok := c.Args[0].(*ast.SelectorExpr)
	if !ok || sel.Sel.Name != field {
		return false
	}
	id, ok := sel.X.(*ast.Ident)
	return ok && id.Name == recv
}

func main() {
	if len(os.Args) != 2 {
		fmt.Fprintln(os.Stderr, "usage: inject <dir>")
		os.Exit(2)
	}
	dir := os.Args[1]
	path := filepath.Join(dir, "stream", "stream.go")
	fset := token.NewFileSet()
	f, err := parser.ParseFile(fset, path, nil, parser.ParseComments)
	if err != nil {
		fmt.Fprintln(os.Stderr, "inject:", err)
		os.Exit(1)
	}
	funcs := map[string]*ast.FuncDecl{}
	recvOf := map[string]string{}
	for _, d := range f.Decls {
		fd, ok := d.(*ast.FuncDecl)
		if !ok || fd.Recv == nil || len(fd.Recv.List) != 1 || fd.Body == nil {
			continue
		}
		st, ok := fd.Recv.List[0].Type.(*ast.StarExpr)
		if !ok {
			continue
		}
		if id, ok := st.X.(*ast.Ident); !ok || id.Name != "stream" {
			continue
		}
		if len(fd.Recv.List[0].Names) != 1 {
			continue
		}
		funcs[fd.Name.Name] = fd
		recvOf[fd.Name.Name] = fd.Recv.List[0].Names[0].Name
	}
	for _, name := range []string{"wait", "listenEnd", "Close"} {
		if funcs[name] == nil {
			fmt.Fprintf(os.Stderr, "inject: method (*stream).%s not found\n", name)
			os.Exit(1)
		}
	}
	report := func(point string, ok bool) {
		if ok {
			fmt.Printf("point %s ok\n", point)
		} else {
			fmt.Printf("point %s missing\n", point)
		}
	}
	// wait()
	{
		fd, r := funcs["wait"], recvOf["wait"]
		report("wait.before-stop", insertBefore(fd.Body, func(s ast.Stmt) bool { return isCloseOf(s, r, "stopCh") }, call(r, "wait.before-stop")))
		tok := false
		for i, s := range fd.Body.List {
			if _, ok := s.(*ast.SelectStmt); ok {
				out := append([]ast.Stmt{}, fd.Body.List[:i+1]...)
				out = append(out, call(r, "wait.token"))
				fd.Body.List = append(out, fd.Body.List[i+1:]...)
				tok = true
				break
			}
		}
		report("wait.token", tok)
		fd.Body.List = append([]ast.Stmt{call(r, "wait.start")}, fd.Body.List...)
		report("wait.start", true)
	}
	// listenEnd()
	{
		fd, r := funcs["listenEnd"], recvOf["listenEnd"]
		report("end.before-send", insertBefore(fd.Body, func(s ast.Stmt) bool { return isSendOn(s, r, "finishStreamWithEndEventCh") }, call(r, "end.before-send")))
		fd.Body.List = append([]ast.Stmt{call(r, "end.start")}, fd.Body.List...)
		report("end.start", true)
	}
	// Close()
	{
		fd, r := funcs["Close"], recvOf["Close"]
		report("close.before-send", insertBefore(fd.Body, func(s ast.Stmt) bool { return isSendOn(s, r, "finishStreamWithCloseCh") }, call(r, "close.before-send")))
	}
	var buf bytes.Buffer
	if err := format.Node(&buf, fset, f); err != nil {
		fmt.Fprintln(os.Stderr, "inject:", err)
		os.Exit(1)
	}
	if err := os.WriteFile(path, buf.Bytes(), 0o644); err != nil {
		fmt.Fprintln(os.Stderr, "inject:", err)
		os.Exit(1)
	}
	if err := os.WriteFile(filepath.Join(dir, "stream", "zz_verif_points.go"), []byte(hookFile), 0o644); err != nil {
		fmt.Fprintln(os.Stderr, "inject:", err)
		os.Exit(1)
	}
}
