package main

// online generator of M2 session histories: every op is executed on the real
// code as it is generated, so the generator can use what really happened (which
// contexts exist, whether open fail-stopped) to choose the next op. The recorded
// op lines replay without the generator (-replay).

import (
	"bufio"
	"fmt"
	"os"
	"sort"
	"strconv"
	"strings"
	"time"
)

type profile struct {
	name string
	// weights of op classes
	wEvent, wAck, wSave, wMicro, wLife, wQuery int
	pEnd                                       int // % of life steps that end one (not the last) vBucket stream for good (clean STREAM_END)
	pReserved  int // % of document events with a library-reserved key
	pIllFormed int // % of events outside their snapshot / regressing
	pSkip      int // % of cases with skipUntil
	pStore     int // % of vBuckets with a stored checkpoint at start
	pAhead     int // % of stored checkpoints that lie beyond the high seqno
	pLatest    int // % of cases with auto-reset latest
	pFailSave  int // % of saves that fail / are partial
	pSysEv     int // % of events that are seqno-advanced / system events
	pRO        int // % read-only metadata
	minOps, maxOps int
	maxVb      int
	pApi       int // % of query points that go through the real HTTP API (l1_api.go, l1_api_gen.go); 0 = never
}

var profiles = map[string]profile{
	"sess-base": {pEnd: 12, wEvent: 45, wAck: 25, wSave: 10, wMicro: 8, wLife: 4, wQuery: 8, pReserved: 12, pIllFormed: 3, pSkip: 20, pStore: 50, pAhead: 0, pLatest: 35, pFailSave: 25, pSysEv: 15, pRO: 8, minOps: 20, maxOps: 60, maxVb: 4},
	"sess-crash": {pEnd: 14, wEvent: 40, wAck: 22, wSave: 14, wMicro: 10, wLife: 10, wQuery: 4, pReserved: 10, pIllFormed: 0, pSkip: 5, pStore: 60, pAhead: 0, pLatest: 30, pFailSave: 45, pSysEv: 20, pRO: 0, minOps: 25, maxOps: 70, maxVb: 4},
	"sess-deliver": {wEvent: 75, wAck: 10, wSave: 3, wMicro: 0, wLife: 3, wQuery: 9, pReserved: 18, pIllFormed: 6, pSkip: 45, pStore: 40, pAhead: 0, pLatest: 30, pFailSave: 0, pSysEv: 18, pRO: 5, minOps: 25, maxOps: 80, maxVb: 8},
	"sess-ack": {wEvent: 35, wAck: 50, wSave: 5, wMicro: 0, wLife: 2, wQuery: 8, pReserved: 8, pIllFormed: 0, pSkip: 0, pStore: 50, pAhead: 0, pLatest: 20, pFailSave: 0, pSysEv: 10, pRO: 0, minOps: 20, maxOps: 70, maxVb: 3},
	"sess-save": {wEvent: 30, wAck: 25, wSave: 12, wMicro: 28, wLife: 1, wQuery: 4, pReserved: 8, pIllFormed: 0, pSkip: 0, pStore: 40, pAhead: 0, pLatest: 30, pFailSave: 35, pSysEv: 30, pRO: 10, minOps: 25, maxOps: 70, maxVb: 3},
	"sess-api": {wEvent: 40, wAck: 22, wSave: 8, wMicro: 4, wLife: 7, wQuery: 22, pReserved: 12, pIllFormed: 0, pSkip: 15, pStore: 50, pAhead: 0, pLatest: 35, pFailSave: 20, pSysEv: 15, pRO: 5, minOps: 25, maxOps: 70, maxVb: 4, pApi: 75},
	"sess-loop": {wEvent: 52, wAck: 14, wSave: 16, wMicro: 12, wLife: 2, wQuery: 6, pReserved: 70, pIllFormed: 0, pSkip: 0, pStore: 30, pAhead: 0, pLatest: 20, pFailSave: 10, pSysEv: 5, pRO: 0, minOps: 20, maxOps: 60, maxVb: 3},
}

func init() {
	for name := range profiles {
		n := name
		props[n] = func(c *Ctx) { runSession(c, n) }
	}
}

type vbGen struct {
	next    uint64 // next server seqno
	mkS, mkE uint64
	hasMk   bool
}

type genSt struct {
	p        profile
	c        *Ctx
	e        *sessEnv
	lo, hi   int
	open     bool
	vbs      map[int]*vbGen
	ctxIdx   []int       // context indices of the current session
	allCtx   int         // total contexts ever
	savers   map[int]string // k -> wantLock|dumped|stored
	lock     bool
	nextK    int
	skip     int64
	colls    []string
	casBase  uint64
	tags     map[string]bool
	ops      int
	ro       bool
	high     map[int]uint64
	waiter   int // saver blocked in saveLock.Lock() (0 = none)
	hung     bool
	ended    map[int]bool // vBuckets whose stream ended for good in the current session
	// sess-api (l1_api_gen.go)
	viaAPI, pingFail, infoSent bool
	infoM, infoT               int
	held                           bool // a consumer call is kept in flight (hold-next … release) on vBucket heldVb
	heldVb, nReb                   int
	nvbTot, memM, memT, effM, effT int // group mode: vBuckets of the bucket, newest membership info, info in effect
}

const prefixHex = "5f636f6e6e6563746f723a6362676f3a"
const txnHex = "5f74786e3a"

func (g *genSt) do(op string) string {
	if os.Getenv("VERIF_DEBUG") != "" {
		fmt.Fprintln(os.Stderr, "OP", op)
	}
	real := g.execGuarded(op)
	g.c.E.Line(op, real)
	g.ops++
	return real
}

// a changed implementation may block where the unchanged one cannot: an op that does not come back within 8 s is
// reported as `hang`, the case is abandoned (its goroutine leaks) and the stream goes on with the next case
func (g *genSt) execGuarded(op string) string {
	if g.hung {
		return "-"
	}
	ch := make(chan string, 1)
	go func() { ch <- g.e.exec(op) }()
	select {
	case r := <-ch:
		return r
	case <-time.After(8 * time.Second):
		g.hung = true
		g.open = false
		sessionHangs++
		return "hang"
	}
}

func (g *genSt) randKey() string {
	r := g.c.R
	switch {
	case r.Chance(g.p.pReserved):
		g.tags["key.reserved"] = true
		if r.Chance(25) {
			return txnHex + hexOf([]byte(fmt.Sprintf("atr-%d", r.Intn(50))))
		}
		if r.Chance(15) {
			return prefixHex // exactly the prefix
		}
		return prefixHex + hexOf([]byte(fmt.Sprintf("g:checkpoint:%d", r.Intn(1024))))
	case r.Chance(6):
		g.tags["key.partial"] = true
		full := prefixHex
		return full[:2*(1+r.Intn(len(full)/2-1))]
	case r.Chance(4):
		g.tags["key.mid"] = true
		return hexOf([]byte("x")) + prefixHex
	case r.Chance(3):
		g.tags["key.empty"] = true
		return ""
	case r.Chance(5):
		g.tags["key.binary"] = true
		return fmt.Sprintf("%02x%02x%02x", r.Intn(256), r.Intn(256), r.Intn(256))
	}
	return hexOf([]byte(fmt.Sprintf("k%d", r.Intn(1000))))
}

func (g *genSt) randCas() uint64 {
	r := g.c.R
	if g.skip > 0 {
		// around the skipUntil boundary ±2 s, any nanosecond part
		d := int64(r.Intn(5)) - 2
		return uint64(g.skip+d)*1000000000 + uint64(r.Intn(1000000000))
	}
	if r.Chance(5) {
		return uint64(r.Intn(3)) // tiny CAS
	}
	return g.casBase + uint64(r.Intn(1000000))*1000003
}

func (g *genSt) randColl() int {
	r := g.c.R
	if len(g.colls) > 0 && r.Chance(70) {
		id, _ := strconv.Atoi(strings.SplitN(g.colls[r.Intn(len(g.colls))], ":", 2)[0])
		return id
	}
	return r.Intn(12)
}

func (g *genSt) pickVb() int {
	vb := g.lo + g.c.R.Intn(g.hi-g.lo+1)
	if g.held && vb == g.heldVb && g.hi > g.lo {
		vb = g.lo + (vb-g.lo+1)%(g.hi-g.lo+1) // sess-api: nothing is delivered behind a consumer call that is still in flight
	}
	return vb
}

// a vBucket whose stream the server still has (same draw as pickVb when no stream has ended)
func (g *genSt) pickLive() int {
	for i := 0; i < 8; i++ {
		if vb := g.pickVb(); !g.ended[vb] {
			return vb
		}
	}
	for vb := g.lo; vb <= g.hi; vb++ {
		if !g.ended[vb] {
			return vb
		}
	}
	return g.lo
}

// a regular stream end (STREAM_END with status OK: finite mode reached its end, or the server is done with the stream) on one
// vBucket - never the last one still streaming: that end stops the client, which is C12's subject, not the session's. The end
// itself settles nothing: positions, dirty marks and the store stay as they are.
func (g *genSt) endOne() {
	if !g.open {
		return
	}
	var live []int
	for vb := g.lo; vb <= g.hi; vb++ {
		if !g.ended[vb] {
			live = append(live, vb)
		}
	}
	if len(live) < 2 {
		return
	}
	vb := live[g.c.R.Intn(len(live))]
	g.do(fmt.Sprintf("end %d", vb))
	if g.ended == nil {
		g.ended = map[int]bool{}
	}
	g.ended[vb] = true
	g.tags["end.clean"] = true
}

func (g *genSt) noteDeliveries(real string) {
	for _, part := range strings.Split(real, " ; ") {
		f := strings.Fields(part)
		if len(f) > 1 && f[0] == "deliver" {
			i, _ := strconv.Atoi(f[1])
			g.ctxIdx = append(g.ctxIdx, i)
			g.allCtx = i + 1
			g.tags["deliver"] = true
		}
		if len(f) > 0 && f[0] == "track" {
			g.tags["track"] = true
		}
		if strings.HasPrefix(part, "failstop") {
			g.tags[part] = true
		}
	}
}

func (g *genSt) event() {
	r := g.c.R
	vb := g.pickLive()
	v := g.vbs[vb]
	if v.next == 0 || v.next > 1<<63 {
		// the seqno space of this vBucket is (nearly) exhausted: a real server sends nothing more
		g.do(fmt.Sprintf("oso %d", vb))
		return
	}
	ill := r.Chance(g.p.pIllFormed)
	if ill {
		g.tags["ill-formed"] = true
	}
	if !ill && (!v.hasMk || v.next > v.mkE) {
		// announce a new snapshot: single-item, multi-item, or resumed mid-snapshot (start below next)
		s := v.next
		if r.Chance(15) && s > 2 {
			s -= uint64(1 + r.Intn(2))
			g.tags["mk.resumed"] = true
		}
		e := v.next + []uint64{0, 0, 1, 2, 4, 9}[r.Intn(6)]
		if e == v.next {
			g.tags["mk.single"] = true
		}
		v.mkS, v.mkE, v.hasMk = s, e, true
		g.noteDeliveries(g.do(fmt.Sprintf("mk %d %d %d", vb, s, e)))
		return
	}
	seq := v.next
	if ill {
		switch r.Intn(3) {
		case 0:
			seq = v.mkE + 1 + uint64(r.Intn(3)) // beyond the marker
		case 1:
			if seq > 1 {
				seq -= 1 // repeated / regressing seqno
			}
		default:
			if v.mkS > 0 {
				seq = v.mkS - 1
			}
		}
	} else if r.Chance(10) && v.next < v.mkE {
		seq = v.next + 1 // gaps are normal (deduplicated items)
	}
	if seq >= v.next {
		v.next = seq + 1
	}
	switch {
	case r.Chance(g.p.pSysEv):
		if r.Chance(45) {
			g.tags["ev.seqadv"] = true
			// seqno-advanced closes the snapshot
			g.noteDeliveries(g.do(fmt.Sprintf("sa %d %d", vb, seq)))
			v.mkS, v.mkE = seq, seq
		} else {
			g.tags["ev.sys"] = true
			k := r.Pick("cc", "cd", "cf", "cm", "sc", "sd")
			g.noteDeliveries(g.do(fmt.Sprintf("sy %s %d %d %d", k, vb, seq, g.randColl())))
		}
	case r.Chance(2):
		g.tags["ev.oso"] = true
		g.do(fmt.Sprintf("oso %d", vb))
	default:
		kind := r.Pick("mu", "mu", "mu", "de", "ex")
		var payload string
		val := make([]byte, r.Intn(6))
		for i := range val {
			val[i] = byte(r.Intn(256))
		}
		switch kind {
		case "mu":
			payload = payloadMu(uint64(1+r.Intn(9)), uint32(r.Intn(3))*50333696, uint32(r.Intn(2))*1700000000, uint8(r.Intn(4)), val)
		case "de":
			payload = payloadDe(uint64(1+r.Intn(9)), uint8(r.Intn(4)), val)
		default:
			payload = payloadEx(uint64(1 + r.Intn(9)))
		}
		g.tags["ev."+kind] = true
		key := g.randKey()
		if key == "" {
			key = "-" // token for the empty key
		}
		g.noteDeliveries(g.do(fmt.Sprintf("%s %d %d %d %s %d %s", kind, vb, seq, g.randCas(), key, g.randColl(), payload)))
	}
}

func (g *genSt) ack() {
	r := g.c.R
	if g.allCtx == 0 {
		g.event()
		return
	}
	var i int
	switch {
	case len(g.ctxIdx) > 0 && r.Chance(92):
		// mostly recent contexts, in any order, with repetition
		n := len(g.ctxIdx)
		w := 1 + r.Intn(n)
		if r.Chance(60) && n > 6 {
			w = 1 + r.Intn(6)
		}
		i = g.ctxIdx[n-w]
	default:
		i = r.Intn(g.allCtx) // possibly a context of an earlier session (stale)
		g.tags["ack.any"] = true
	}
	real := g.do(fmt.Sprintf("ack %d", i))
	if real == "-" {
		g.tags["ack.regress-or-range"] = true
	}
	if real == "stale" {
		g.tags["ack.stale"] = true
	}
	g.noteDeliveries(real)
}

func (g *genSt) verdict() string {
	r := g.c.R
	if !r.Chance(g.p.pFailSave) {
		return "ok"
	}
	if r.Bool() {
		g.tags["save.fail"] = true
		return "fail"
	}
	g.tags["save.partial"] = true
	var w []string
	for vb := g.lo; vb <= g.hi; vb++ {
		if r.Bool() {
			w = append(w, fmt.Sprint(vb))
		}
	}
	return "partial:" + strings.Join(w, ",")
}

func (g *genSt) save() {
	if g.lock {
		g.micro()
		return
	}
	real := g.do("save " + g.verdict())
	if real == "nowrite" {
		g.tags["save.nowrite"] = true
	} else {
		g.tags["save.write"] = true
	}
}

func (g *genSt) micro() {
	r := g.c.R
	if g.ro {
		g.save2()
		return
	}
	// progress an existing saver or start a new one
	ks := g.sortedSavers()
	if len(ks) == 0 || (len(ks) < 3 && r.Chance(30)) {
		k := g.nextK
		g.nextK++
		real := g.do(fmt.Sprintf("sv %d begin", k))
		if real == "flag=1" {
			g.savers[k] = "wantLock"
			g.tags["sv.begin"] = true
		} else {
			g.tags["sv.skip"] = true
		}
		if len(g.savers) > 1 {
			g.tags["sv.overlap"] = true
		}
		return
	}
	k := ks[r.Intn(len(ks))]
	switch g.savers[k] {
	case "wantLock":
		if g.lock {
			// one saver may be let go on into the held lock: it has to block there
			if g.waiter == 0 && r.Chance(60) {
				if g.do(fmt.Sprintf("sv %d lockwait", k)) == "waiting" {
					g.waiter = k
				} else {
					delete(g.savers, k) // it did not wait (property broken): that saver is gone
				}
				g.tags["sv.lockwait"] = true
			}
			return
		}
		if g.waiter != 0 && g.waiter != k {
			return // the blocked saver got the lock when it was released; it dumps first
		}
		g.do(fmt.Sprintf("sv %d dump", k))
		g.savers[k] = "dumped"
		g.lock = true
	case "dumped":
		v := g.verdict()
		g.do(fmt.Sprintf("sv %d store %s", k, v))
		if v == "ok" {
			g.savers[k] = "stored"
		} else {
			delete(g.savers, k)
			g.lock = false
			g.afterRelease()
		}
	case "stored":
		g.do(fmt.Sprintf("sv %d unmark", k))
		delete(g.savers, k)
		g.lock = false
		g.afterRelease()
		g.tags["sv.unmark"] = true
	}
}

// the saver blocked in saveLock.Lock() takes the lock the moment the holder returns and dumps at once
func (g *genSt) afterRelease() {
	if g.waiter == 0 {
		return
	}
	k := g.waiter
	g.waiter = 0
	if _, ok := g.savers[k]; !ok {
		return
	}
	g.do(fmt.Sprintf("sv %d dump", k))
	g.savers[k] = "dumped"
	g.lock = true
}

func (g *genSt) save2() {
	if !g.lock {
		g.do("save ok")
	}
}

// finish all in-flight savers (needed before close / end of case); keepStored leaves a
// saver that is between store and unmark alone (crash point "stored but not unmarked")
func (g *genSt) sortedSavers() []int {
	var ks []int
	for k := range g.savers {
		ks = append(ks, k)
	}
	sort.Ints(ks)
	return ks
}

func (g *genSt) drainSavers(keepStored bool) {
	for guard := 0; guard < 50 && len(g.savers) > 0; guard++ {
		progressed := false
		for _, k := range g.sortedSavers() {
			switch g.savers[k] {
			case "dumped":
				g.do(fmt.Sprintf("sv %d store %s", k, g.verdict()))
				// verdict may have been a failure: look at the lock via the harness
				if g.e.savers[k] == nil {
					delete(g.savers, k)
					g.lock = false
					g.afterRelease()
				} else {
					g.savers[k] = "stored"
				}
				progressed = true
			case "stored":
				if keepStored {
					continue
				}
				g.do(fmt.Sprintf("sv %d unmark", k))
				delete(g.savers, k)
				g.lock = false
				g.afterRelease()
				progressed = true
			case "wantLock":
				if g.lock {
					continue
				}
				if keepStored {
					continue
				}
				g.do(fmt.Sprintf("sv %d dump", k))
				g.savers[k] = "dumped"
				g.lock = true
				progressed = true
			}
			if progressed {
				break
			}
		}
		if !progressed {
			break
		}
	}
}

func (g *genSt) openSession() {
	real := g.do("open")
	if strings.HasPrefix(real, "failstop") {
		g.tags["open.failstop"] = true
		// operator fixes the bucket: raise every high seqno, try again
		for vb := g.lo; vb <= g.hi; vb++ {
			g.do(fmt.Sprintf("high %d %d", vb, 1000000))
		}
		real = g.do("open")
	}
	if strings.HasPrefix(real, "openreq") {
		g.open = true
		g.ended = nil
		g.ctxIdx = nil
		for _, part := range strings.Split(real, " ; ") {
			f := strings.Fields(part)
			vb, _ := strconv.Atoi(f[1])
			tup := strings.Split(strings.Trim(f[2], "()"), ",")
			seq, _ := strconv.ParseUint(tup[1], 10, 64)
			g.vbs[vb] = &vbGen{next: seq + 1}
		}
	}
}

// a rebalance of the same stream object onto a changed range; contexts of before stay acknowledgeable
func (g *genSt) rebalance() {
	r := g.c.R
	g.drainSavers(false)
	if len(g.savers) > 0 || g.lock {
		return
	}
	lo, hi := g.lo, g.hi
	if g.p.pApi > 0 {
		lo, hi = g.apiReassign() // group mode: the range follows from the membership info PUT through the API
	} else {
	switch r.Intn(4) {
	case 0: // shrink from the top
		if hi > lo {
			hi--
		}
	case 1: // shrink from the bottom
		if hi > lo {
			lo++
		}
	case 2: // grow
		if hi < 1023 {
			hi++
		}
	default: // shift
		if hi < 1023 {
			lo++
			hi++
		}
	}
	}
	for vb := lo; vb <= hi; vb++ {
		h := g.high[vb]
		if v := g.vbs[vb]; v != nil && v.next > 0 && v.next-1 > h {
			h = v.next - 1
		}
		if d, ok := g.e.meta.store[uint16(vb)]; ok && d.Checkpoint.SeqNo > h {
			h = d.Checkpoint.SeqNo
		}
		h = g.trackedFloor(vb, h) // l1_api_gen.go: … and everything already acknowledged (the save below may persist it)
		if _, known := g.high[vb]; !known || h != g.high[vb] {
			if !known && h == 0 {
				h = uint64(r.Intn(100))
			}
			g.high[vb] = h
			g.do(fmt.Sprintf("high %d %d", vb, h))
			g.do(fmt.Sprintf("flog %d %d", vb, 1+r.Intn(5000)))
		}
	}
	if r.Chance(50) && !g.ro {
		g.do("save ok")
	}
	rebOp := "rebalance"
	if g.p.pApi > 0 && (g.viaAPI || r.Chance(40)) {
		rebOp = "api-rebalance" // the same rebalance, triggered by GET /rebalance
		g.tags["api.rebalance.open"] = true
	}
	real := g.do(fmt.Sprintf("%s %d %d", rebOp, lo, hi))
	g.tags["life.rebalance"] = true
	g.lo, g.hi = lo, hi
	g.ended = nil
	for _, part := range strings.Split(real, " ; ") {
		f := strings.Fields(part)
		if len(f) == 3 && f[0] == "openreq" {
			vb, _ := strconv.Atoi(f[1])
			tup := strings.Split(strings.Trim(f[2], "()"), ",")
			seq, _ := strconv.ParseUint(tup[1], 10, 64)
			g.vbs[vb] = &vbGen{next: seq + 1}
		}
	}
	// acknowledgements issued after the rebalance changed the assigned range
	for i := 0; i < r.Intn(4) && len(g.ctxIdx) > 0; i++ {
		g.tags["ack.after-rebalance"] = true
		g.do(fmt.Sprintf("ack %d", g.ctxIdx[r.Intn(len(g.ctxIdx))]))
	}
}

// a transient stream end: the vBucket is re-requested from its position, possibly on a new history branch
func (g *genSt) reopen() {
	r := g.c.R
	vb := g.pickLive()
	if r.Chance(60) {
		g.do(fmt.Sprintf("flog %d %d", vb, 1+r.Intn(5000)))
		g.tags["reopen.new-uuid"] = true
	}
	g.do(fmt.Sprintf("reopen %d", vb))
	g.tags["reopen"] = true
}

func (g *genSt) life() {
	r := g.c.R
	if g.p.pEnd > 0 && r.Chance(g.p.pEnd) {
		g.endOne()
		return
	}
	switch x := r.Intn(100); {
	case x < 25:
		g.rebalance()
		return
	case x < 45:
		g.reopen()
		return
	}
	if r.Chance(55) {
		// crash: savers inside the store call get their verdict first (the write happened or not);
		// savers before the lock or between store and unmark simply die with the process
		if g.waiter != 0 {
			g.drainSavers(false) // a saver blocked on the lock would run on after the crash point: let everything finish
		} else {
			g.drainSavers(true)
		}
		if len(g.savers) > 0 {
			g.tags["life.crash-midsave"] = true
		}
		g.tags["life.crash"] = true
		g.do("crash")
		g.savers = map[int]string{}
		g.lock = false
		g.waiter = 0
	} else {
		g.drainSavers(false)
		if len(g.savers) > 0 {
			return
		}
		g.tags["life.close"] = true
		if r.Chance(50) {
			g.do("save ok")
		}
		if g.p.pApi > 0 {
			g.apiBeforeClose() // sometimes with a consumer call in flight across the close
		}
		g.do("close")
		if r.Chance(30) {
			g.do("scrape") // scraping while the stream is closed neither blocks nor crashes
			g.tags["scrape.closed"] = true
		}
		// late acknowledgements against the closed stream object
		if r.Chance(40) && len(g.ctxIdx) > 0 {
			g.tags["ack.after-close"] = true
			g.do(fmt.Sprintf("ack %d", g.ctxIdx[r.Intn(len(g.ctxIdx))]))
		}
		if g.p.pApi > 0 {
			g.apiClosed()
		}
	}
	g.open = false
	if g.p.pApi > 0 {
		g.apiAdopt() // group mode: the next Open takes the range of the newest membership info
	}
	// the server's high seqno covers everything it has sent (and may have moved on while we were away)
	for vb := g.lo; vb <= g.hi; vb++ {
		h := g.high[vb]
		if v := g.vbs[vb]; v != nil && v.next > 0 && v.next-1 > h {
			h = v.next - 1
		}
		if d, ok := g.e.meta.store[uint16(vb)]; ok && d.Checkpoint.SeqNo > h {
			h = d.Checkpoint.SeqNo // never below what is already durable
		}
		if r.Chance(25) && h < 1<<62 {
			h += uint64(r.Intn(100))
		}
		if h != g.high[vb] {
			g.high[vb] = h
			g.do(fmt.Sprintf("high %d %d", vb, h))
		}
	}
	g.openSession()
}

func (g *genSt) query() {
	r := g.c.R
	if g.p.pApi > 0 && r.Chance(g.p.pApi) {
		g.apiQuery()
		return
	}
	switch r.Intn(3) {
	case 0:
		g.do("offsets")
	case 1:
		g.do(fmt.Sprintf("metrics %d", g.pickVb()))
	default:
		if r.Chance(30) {
			// the server's high seqno moves (also below the tracked position: lag must clamp at 0)
			vb := g.pickVb()
			h := uint64(r.Intn(300))
			g.do(fmt.Sprintf("high %d %d", vb, h))
			g.high[vb] = h
			g.tags["scrape.high-moved"] = true
		}
		g.do("scrape")
		g.tags["scrape"] = true
	}
}

func genCase(c *Ctx, p profile) {
	r := c.R
	g := &genSt{p: p, c: c, e: newSessEnv(), vbs: map[int]*vbGen{}, savers: map[int]string{}, tags: map[string]bool{}, high: map[int]uint64{}, nextK: 1,
		casBase: 1700000000000000000}
	nvb := 1 + r.Intn(p.maxVb)
	g.lo = []int{0, 0, 5, 1000}[r.Intn(4)]
	if r.Chance(25) {
		g.lo = r.Intn(1020)
	}
	g.hi = g.lo + nvb - 1
	grpCfg := ""
	if p.pApi > 0 {
		grpCfg = g.apiGroupSetup() // sess-api: real vBucket discovery; lo/hi = the chunk of (member, size)
	}
	mode := r.Pick("inf", "inf", "fin")
	reset := "earliest"
	if r.Chance(p.pLatest) {
		reset = "latest"
	}
	g.ro = r.Chance(p.pRO)
	skip := "-"
	if r.Chance(p.pSkip) {
		g.skip = 1700000000 + int64(r.Intn(1000))
		skip = fmt.Sprint(g.skip)
		if r.Chance(50) {
			// a skipUntil with a sub-second part (time.Now()-style): events of that very second lie BEFORE it
			skip = fmt.Sprintf("%d.%09d", g.skip, 1+r.Intn(999999999))
		}
	}
	colls := "-"
	if r.Chance(50) {
		n := 1 + r.Intn(3)
		for i := 0; i < n; i++ {
			g.colls = append(g.colls, fmt.Sprintf("%d:c%d", 8+i, i))
		}
		colls = strings.Join(g.colls, ",")
	}
	g.do("reset")
	roS := "0"
	if g.ro {
		roS = "1"
	}
	g.do(fmt.Sprintf("cfg lo=%d hi=%d mode=%s reset=%s ro=%s rm=0 skip=%s colls=%s%s", g.lo, g.hi, mode, reset, roS, skip, colls, grpCfg))
	g.tags["mode."+mode] = true
	g.tags["reset."+reset] = true
	// environment: high seqnos, failover-log heads, stored checkpoints (also outside the assigned range)
	for vb := g.lo; vb <= g.hi; vb++ {
		high := uint64(r.Intn(200))
		if r.Chance(15) {
			high = 0
		}
		if r.Chance(5) {
			high = [](uint64){1 << 32, 1<<53 + 1, 1<<63 + 1, 1<<64 - 1}[r.Intn(4)]
		}
		g.high[vb] = high
		g.do(fmt.Sprintf("high %d %d", vb, high))
		g.do(fmt.Sprintf("flog %d %d", vb, 1+r.Intn(5000)))
		if r.Chance(p.pStore) {
			seq := uint64(0)
			if high > 0 && high < 1<<64-1 {
				seq = r.U64() % (high + 1)
			} else if high > 0 {
				seq = r.U64() - minU(r.U64(), 10)
			}
			if r.Chance(p.pAhead) {
				seq = high + 1 + uint64(r.Intn(3))
				g.tags["store.ahead"] = true
			}
			ss := seq - minU(seq, uint64(r.Intn(3)))
			se := seq + uint64(r.Intn(3))
			uu := r.U64()
			if r.Chance(70) {
				uu = uint64(1 + r.Intn(5000))
			}
			g.do(fmt.Sprintf("store %d %d %d %d %d", vb, uu, seq, ss, se))
			g.tags["store.present"] = true
		}
	}
	g.openSession()
	n := p.minOps + r.Intn(p.maxOps-p.minOps+1)
	tot := p.wEvent + p.wAck + p.wSave + p.wMicro + p.wLife + p.wQuery
	for g.ops < n+10 && g.open {
		x := r.Intn(tot)
		switch {
		case x < p.wEvent:
			g.event()
		case x < p.wEvent+p.wAck:
			g.ack()
		case x < p.wEvent+p.wAck+p.wSave:
			g.save()
		case x < p.wEvent+p.wAck+p.wSave+p.wMicro:
			g.micro()
		case x < p.wEvent+p.wAck+p.wSave+p.wMicro+p.wLife:
			g.life()
		default:
			g.query()
		}
	}
	if g.open && !g.hung {
		g.drainSavers(false)
		if len(g.savers) == 0 && !g.lock {
			g.do("save ok")
		}
		g.do("offsets")
		if g.p.pApi > 0 {
			g.do("api-offsets")
		}
	}
	if !g.hung {
		g.e.cleanup()
	}
	var tags []string
	for t := range g.tags {
		tags = append(tags, t)
	}
	c.E.EndCase(g.tags["deliver"] && (g.tags["track"] || g.tags["save.write"]), tags...)
}

func minU(a, b uint64) uint64 {
	if a < b {
		return a
	}
	return b
}

func runSession(c *Ctx, name string) {
	if replayFile != "" {
		replaySession(c)
		return
	}
	p := profiles[name]
	n := c.N(400, 20000)
	if p.pApi > 0 {
		n = c.N(400, 8000) // every case starts a few HTTP servers: ≈ 25 ms per case
	}
	for i := 0; i < n && sessionHangs < 3; i++ { // three hung cases are evidence enough: do not wait 8 s for every further one
		genCase(c, p)
	}
}

// replay: execute recorded op lines (one or more cases, each starting with `reset`)
func replaySession(c *Ctx) {
	f, err := os.Open(replayFile)
	if err != nil {
		panic(err)
	}
	defer f.Close()
	sc := bufio.NewScanner(f)
	sc.Buffer(make([]byte, 1<<20), 1<<24)
	var e *sessEnv
	n := 0
	for sc.Scan() {
		line := strings.SplitN(sc.Text(), "\t", 2)[0]
		if strings.TrimSpace(line) == "" || strings.HasPrefix(line, "#") {
			continue
		}
		if line == "reset" || e == nil {
			if e != nil {
				e.cleanup()
				c.E.EndCase(true, "replay")
			}
			e = newSessEnv()
		}
		c.E.Line(line, replayGuarded(e, line)) // l1_api.go
		n++
	}
	if e != nil {
		e.cleanup()
		c.E.EndCase(true, "replay")
	}
}

var sessionHangs int

// readOpLines returns the op part of every non-empty line of a replay file
func readOpLines(path string) []string {
	f, err := os.Open(path)
	if err != nil {
		panic(err)
	}
	defer f.Close()
	sc := bufio.NewScanner(f)
	sc.Buffer(make([]byte, 1<<20), 1<<24)
	var out []string
	for sc.Scan() {
		line := strings.SplitN(sc.Text(), "\t", 2)[0]
		if strings.TrimSpace(line) != "" && !strings.HasPrefix(line, "#") {
			out = append(out, line)
		}
	}
	return out
}
