// verifharness: drives the real go-dcp code (from /repo's working tree) and
// writes, per property, a file of lines `OP<TAB>REAL-OBSERVATION` which the
// Lean driver then answers with `MODEL-OBSERVATION<TAB>MONITOR-VERDICT`.
package main

import (
	"bufio"
	"encoding/json"
	"flag"
	"fmt"
	"os"
	"sort"
	"strings"

	"github.com/Trendyol/go-dcp/logger"
	"github.com/sirupsen/logrus"
)

// ---- deterministic PRNG (SplitMix64); every random choice derives from one state
type Rng struct{ s uint64 }

func NewRng(seed uint64) *Rng {
	// seed*γ would make seed k+1 the stream of seed k shifted by one draw (U64 also steps by γ)
	r := &Rng{s: seed * 0xD1342543DE82EF95}
	r.s = r.U64() ^ 0x1234567
	return r
}
func (r *Rng) U64() uint64 {
	r.s += 0x9E3779B97F4A7C15
	z := r.s
	z = (z ^ (z >> 30)) * 0xBF58476D1CE4E5B9
	z = (z ^ (z >> 27)) * 0x94D049BB133111EB
	return z ^ (z >> 31)
}
func (r *Rng) Intn(n int) int {
	if n <= 0 {
		return 0
	}
	return int(r.U64() % uint64(n))
}
func (r *Rng) Bool() bool          { return r.U64()&1 == 1 }
func (r *Rng) Chance(p int) bool   { return r.Intn(100) < p } // p percent
func (r *Rng) Range(lo, hi int) int { return lo + r.Intn(hi-lo+1) }
func (r *Rng) Pick(xs ...string) string { return xs[r.Intn(len(xs))] }

// ---- output
type Emitter struct {
	w        *bufio.Writer
	f        *os.File
	lines    int
	cases    int
	distinct map[string]struct{}
	hist     map[string]int
	samples  []string
	curCase  []string
	nontriv  int
}

var flushEachLine = os.Getenv("VERIF_FLUSH") != ""

func NewEmitter(path string) *Emitter {
	f, err := os.Create(path)
	if err != nil {
		panic(err)
	}
	return &Emitter{w: bufio.NewWriterSize(f, 1<<20), f: f, distinct: map[string]struct{}{}, hist: map[string]int{}}
}

// Line writes one op with the real observation.
func (e *Emitter) Line(op, real string) {
	if strings.ContainsAny(op, "\t\n") || strings.ContainsAny(real, "\t\n") {
		panic("tab/newline in protocol line: " + op + " / " + real)
	}
	fmt.Fprintf(e.w, "%s\t%s\n", op, real)
	if flushEachLine {
		e.w.Flush() // VERIF_FLUSH=1: the lines written so far survive a crash of the real code (bin/vcheck sets it on the re-run after a crash)
	}
	e.lines++
	e.curCase = append(e.curCase, op+" => "+real)
}

// EndCase closes a case (a single op for pure functions, a whole history for
// stateful ones). nontrivial: the generator's own rule (documented per property).
func (e *Emitter) EndCase(nontrivial bool, tags ...string) {
	e.cases++
	key := strings.Join(e.curCase, "\n")
	if _, ok := e.distinct[key]; !ok {
		e.distinct[key] = struct{}{}
		if nontrivial {
			e.nontriv++
		}
	}
	for _, t := range tags {
		e.hist[t]++
	}
	if len(e.samples) < 3 || (e.cases%997 == 0 && len(e.samples) < 8) {
		s := key
		if len(s) > 1500 {
			s = s[:1500] + " …"
		}
		e.samples = append(e.samples, s)
	}
	e.curCase = e.curCase[:0]
}

func (e *Emitter) Tag(t string) { e.hist[t]++ }

func (e *Emitter) Close(statsPath string, extra map[string]any) {
	e.w.Flush()
	e.f.Close()
	st := map[string]any{
		"lines": e.lines, "cases": e.cases, "distinct_nontrivial": e.nontriv,
		"distinct": len(e.distinct), "histogram": e.hist, "samples": e.samples,
	}
	for k, v := range extra {
		st[k] = v
	}
	b, _ := json.MarshalIndent(st, "", " ")
	if err := os.WriteFile(statsPath, b, 0o644); err != nil {
		panic(err)
	}
}

type Ctx struct {
	Seed  uint64
	Tier  string
	R     *Rng
	E     *Emitter
	Extra map[string]any
}

func (c *Ctx) Thorough() bool { return c.Tier == "thorough" }

// N picks the case budget by tier.
func (c *Ctx) N(quick, thorough int) int {
	if c.Thorough() {
		return thorough
	}
	return quick
}

var props = map[string]func(*Ctx){}

func main() {
	seed := flag.Uint64("seed", 1, "PRNG seed")
	tier := flag.String("tier", "quick", "quick|thorough")
	out := flag.String("out", "", "ops+real output file")
	stats := flag.String("stats", "", "stats json output file")
	replay := flag.String("replay", "", "replay: file with op lines to execute instead of generating")
	flag.Parse()
	if flag.NArg() != 1 || *out == "" || *stats == "" {
		var names []string
		for k := range props {
			names = append(names, k)
		}
		sort.Strings(names)
		fmt.Fprintf(os.Stderr, "usage: vharness -seed N -tier T -out F -stats F <stream>\nstreams: %v\n", names)
		os.Exit(2)
	}
	l := logrus.New()
	l.SetLevel(logrus.PanicLevel)
	l.SetOutput(os.Stderr)
	logger.Log = &logger.Loggers{Logrus: l}

	f, ok := props[flag.Arg(0)]
	if !ok {
		fmt.Fprintf(os.Stderr, "unknown stream %s\n", flag.Arg(0))
		os.Exit(2)
	}
	c := &Ctx{Seed: *seed, Tier: *tier, R: NewRng(*seed), E: NewEmitter(*out), Extra: map[string]any{}}
	if *replay != "" {
		c.Extra["replay"] = *replay
		replayFile = *replay
	}
	f(c)
	c.E.Close(*stats, c.Extra)
}

var replayFile string
