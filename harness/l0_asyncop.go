package main

// Stream "c20a" (property C20, L0 part): the real couchbase.NewAsyncOp(ctx) under a
// fake gocbcore.PendingOp, driven by scripted completion / cancellation
// schedules, plus a go/ast fact pass over every wrapper call site
// (`NewAsyncOp` users) of $VERIF_REPO/couchbase.
//
// Lines (see lean/GoDcp/Driver/AsyncOp.lean):
//
//	ao-run  <script> <D> <a>                                  => res=… cancel=… time=… resolve=…
//	ao-race <script> <D> <a> res=… cancel=… time=… resolve=…  => racy      (observation checked by the Lean monitor for membership)
//	ao-double resolve2=<ok|blocked|panic>                     => documented
//	ao-site <file>:<func>                                     => (buffered=… readsAfterWait=… propagatesErr=… deadline=… | unknown) scope=… waitErrReturns=…
//
// D = ctx time-out in ms, a = script delay in ms.  Time classes: before (< D),
// ontime (D … D+aoMargin), late (> D+aoMargin).  The real wrappers themselves
// (client.go, doc_op.go, …) need gocbcore agents and are exercised by the later
// L2 stream against the simulated node, not here.

import (
	"bufio"
	"bytes"
	"context"
	"errors"
	"fmt"
	"go/ast"
	"go/parser"
	"go/printer"
	"go/token"
	"os"
	"path/filepath"
	"sort"
	"strconv"
	"strings"
	"sync"
	"sync/atomic"
	"time"

	"github.com/Trendyol/go-dcp/couchbase"
)

func init() { props["c20a"] = runC20a }

const (
	aoMargin      = 1000 * time.Millisecond // "returned by the deadline": D … D+aoMargin (deadlines are 20–50 ms: ≥ 20×)
	aoHang        = 5 * time.Second         // Wait not back D+aoHang after its start = hung
	aoResolveWait = 2 * time.Second         // a Resolve() that has not returned after this long = blocked
	aoDoubleWait  = 150 * time.Millisecond  // second Resolve() of the `double` script
)

// fake gocbcore.PendingOp
type aoFakeOp struct{ cancels atomic.Int32 }

func (f *aoFakeOp) Cancel() { f.cancels.Add(1) }

type aoCase struct {
	cmd    string // ao-run | ao-race | ao-double
	script string
	D, a   int
}

type aoObs struct {
	res     string // nil deadline canceled imm other panic hung
	cancel  int
	time    string // before ontime late
	resolve string // na ok blocked panic
}

func (o aoObs) String() string {
	return fmt.Sprintf("res=%s cancel=%d time=%s resolve=%s", o.res, o.cancel, o.time, o.resolve)
}

// resolveAsync calls the real Resolve() on its own goroutine; the returned channel yields "ok" or "panic".
func aoResolveAsync(opm couchbase.AsyncOp) chan string {
	done := make(chan string, 1)
	go func() {
		defer func() {
			if r := recover(); r != nil {
				done <- "panic"
			}
		}()
		opm.Resolve()
		done <- "ok"
	}()
	return done
}

func aoAwaitResolve(done chan string, limit time.Duration) string {
	if done == nil {
		return "na"
	}
	select {
	case s := <-done:
		return s
	case <-time.After(limit):
		return "blocked"
	}
}

var errAoImmediate = errors.New("verif: issuing call failed")

// aoExec runs one script against the real asyncOp.
func aoExec(script string, D, a int) aoObs {
	start := time.Now()
	ctx, cancel := context.WithTimeout(context.Background(), time.Duration(D)*time.Millisecond)
	defer cancel()
	opm := couchbase.NewAsyncOp(ctx)
	op := &aoFakeOp{}

	type waitRet struct {
		err     error
		paniced bool
		at      time.Duration
	}
	waitCh := make(chan waitRet, 1)
	startWait := func(immErr error) {
		go func() {
			defer func() {
				if r := recover(); r != nil {
					waitCh <- waitRet{paniced: true, at: time.Since(start)}
				}
			}()
			var err error
			if immErr != nil {
				// gocbcore returns (nil, err) when the issuing call fails
				err = opm.Wait(nil, immErr)
			} else {
				err = opm.Wait(op, nil)
			}
			waitCh <- waitRet{err: err, at: time.Since(start)}
		}()
	}
	var resolveDone chan string
	resolveEarly := "" // result of a Resolve that had to finish before Wait started

	switch script {
	case "imm":
		startWait(errAoImmediate)
	case "pre":
		resolveDone = aoResolveAsync(opm)
		resolveEarly = aoAwaitResolve(resolveDone, aoResolveWait)
		startWait(nil)
	case "mid":
		startWait(nil)
		time.Sleep(time.Duration(a) * time.Millisecond)
		resolveDone = aoResolveAsync(opm)
	case "silent", "late":
		startWait(nil)
	case "precancel":
		cancel()
		startWait(nil)
	case "race":
		startWait(nil)
		time.Sleep(time.Until(start.Add(time.Duration(D) * time.Millisecond)))
		resolveDone = aoResolveAsync(opm)
	case "precancelpre":
		resolveDone = aoResolveAsync(opm)
		resolveEarly = aoAwaitResolve(resolveDone, aoResolveWait)
		cancel()
		startWait(nil)
	default:
		return aoObs{res: "bad-script", time: "late", resolve: "na"}
	}

	var o aoObs
	var wr waitRet
	select {
	case wr = <-waitCh:
	case <-time.After(time.Until(start.Add(time.Duration(D)*time.Millisecond + aoHang))):
		return aoObs{res: "hung", cancel: int(op.cancels.Load()), time: "late", resolve: "na"}
	}
	o.cancel = int(op.cancels.Load())
	switch {
	case wr.paniced:
		o.res = "panic"
	case wr.err == nil:
		o.res = "nil"
	case wr.err == errAoImmediate:
		o.res = "imm"
	case wr.err == context.DeadlineExceeded:
		o.res = "deadline"
	case wr.err == context.Canceled:
		o.res = "canceled"
	default:
		o.res = "other"
	}
	dl := time.Duration(D) * time.Millisecond
	switch {
	case wr.at < dl:
		o.time = "before"
	case wr.at <= dl+aoMargin:
		o.time = "ontime"
	default:
		o.time = "late"
	}
	if script == "late" {
		// completion AFTER the waiter has returned: must neither block nor panic
		time.Sleep(time.Duration(a) * time.Millisecond)
		resolveDone = aoResolveAsync(opm)
	}
	if resolveEarly != "" {
		// a Resolve() that had to be through before Wait started; if it was not, it stays
		// `blocked` even though it may pair with Wait's receive later
		o.resolve = resolveEarly
	} else {
		o.resolve = aoAwaitResolve(resolveDone, aoResolveWait)
	}
	// a late completion must not trigger a further Cancel: report the final count
	o.cancel = int(op.cancels.Load())
	return o
}

// aoExecStable re-runs a case whose only problem is harness-side timing (class `late`) up to 3 times.
func aoExecStable(script string, D, a int) aoObs {
	var o aoObs
	for i := 0; i < 3; i++ {
		o = aoExec(script, D, a)
		if o.time != "late" || o.res == "hung" {
			break
		}
	}
	return o
}

// aoDouble: two Resolve() with nobody waiting. Not part of the contract (gocbcore calls back at most once).
func aoDouble() string {
	ctx, cancel := context.WithTimeout(context.Background(), time.Second)
	defer cancel()
	opm := couchbase.NewAsyncOp(ctx)
	if s := aoAwaitResolve(aoResolveAsync(opm), aoResolveWait); s != "ok" {
		return s
	}
	return aoAwaitResolve(aoResolveAsync(opm), aoDoubleWait)
}

func (k aoCase) op() string {
	if k.cmd == "ao-double" {
		return "ao-double"
	}
	return fmt.Sprintf("%s %s %d %d", k.cmd, k.script, k.D, k.a)
}

func runC20a(c *Ctx) {
	var cases []aoCase
	sites := true
	if replayFile != "" {
		cases, sites = aoReplayCases(replayFile)
	} else {
		n := c.N(48, 240)
		for i := 0; i < n; i++ {
			far := c.R.Range(1500, 2500)
			cases = append(cases,
				aoCase{"ao-run", "imm", far, 0},
				aoCase{"ao-run", "pre", far, 0},
				aoCase{"ao-run", "mid", c.R.Range(1500, 2500), c.R.Range(1, 50)},
				aoCase{"ao-run", "silent", c.R.Range(30, 50), 0},
				aoCase{"ao-run", "late", c.R.Range(30, 50), c.R.Range(0, 40)},
				aoCase{"ao-run", "precancel", far, 0},
				aoCase{"ao-race", "race", c.R.Range(20, 50), 0},
				aoCase{"ao-race", "precancelpre", far, 0},
			)
			if i%8 == 0 {
				cases = append(cases, aoCase{cmd: "ao-double"})
			}
		}
	}
	// run concurrently (every script mostly sleeps), emit in generation order
	results := make([]string, len(cases))
	racyObs := make([]string, len(cases))
	sem := make(chan struct{}, 48)
	var wg sync.WaitGroup
	for i := range cases {
		wg.Add(1)
		sem <- struct{}{}
		go func(i int) {
			defer wg.Done()
			defer func() { <-sem }()
			k := cases[i]
			switch k.cmd {
			case "ao-double":
				racyObs[i] = "resolve2=" + aoDouble()
				results[i] = "documented"
			case "ao-race":
				o := aoExecStable(k.script, k.D, k.a)
				racyObs[i] = o.String()
				results[i] = "racy"
				if o.res == "hung" || o.res == "panic" || o.resolve == "panic" {
					results[i] = o.res // no longer "nothing hung / panicked": diverges from the model's `racy`
				}
			default:
				results[i] = aoExecStable(k.script, k.D, k.a).String()
			}
		}(i)
	}
	wg.Wait()
	for i, k := range cases {
		op := k.op()
		if racyObs[i] != "" {
			op += " " + racyObs[i]
		}
		c.E.Line(op, results[i])
		tag := k.script
		if k.cmd == "ao-double" {
			tag = "double:" + racyObs[i]
		} else if k.cmd == "ao-race" {
			tag = k.script + ":" + strings.Join(strings.Fields(racyObs[i])[:2], ",")
		}
		c.E.EndCase(k.script != "imm", tag)
	}
	if sites {
		aoSites(c)
	}
}

func aoReplayCases(path string) (cases []aoCase, sites bool) {
	f, err := os.Open(path)
	if err != nil {
		panic(err)
	}
	defer f.Close()
	sc := bufio.NewScanner(f)
	for sc.Scan() {
		fs := strings.Fields(strings.SplitN(sc.Text(), "\t", 2)[0])
		if len(fs) == 0 {
			continue
		}
		switch fs[0] {
		case "ao-run", "ao-race":
			if len(fs) < 4 {
				continue
			}
			d, _ := strconv.Atoi(fs[2])
			a, _ := strconv.Atoi(fs[3])
			cases = append(cases, aoCase{fs[0], fs[1], d, a})
		case "ao-double":
			cases = append(cases, aoCase{cmd: "ao-double"})
		case "ao-site":
			sites = true
		}
	}
	return cases, sites
}

// ---------------------------------------------------------------- go/ast fact pass

func aoSites(c *Ctx) {
	repo := os.Getenv("VERIF_REPO")
	if repo == "" {
		repo = "/repo"
	}
	dir := filepath.Join(repo, "couchbase")
	files, _ := filepath.Glob(filepath.Join(dir, "*.go"))
	sort.Strings(files)
	fset := token.NewFileSet()
	for _, path := range files {
		if strings.HasSuffix(path, "_test.go") {
			continue
		}
		file, err := parser.ParseFile(fset, path, nil, 0)
		if err != nil {
			c.E.Tag("site-parse-error")
			continue
		}
		for _, d := range file.Decls {
			fd, ok := d.(*ast.FuncDecl)
			if !ok || fd.Body == nil || fd.Name.Name == "NewAsyncOp" {
				continue
			}
			if len(aoCallsNamed(fd, "NewAsyncOp")) == 0 {
				continue
			}
			facts := aoAnalyse(fset, fd) + " scope=" + aoScope(fd) + " waitErrReturns=" + aoWaitGuard(fset, fd)
			c.E.Line(fmt.Sprintf("ao-site %s:%s", filepath.Base(path), fd.Name.Name), facts)
			tag := "site:recognised"
			if strings.HasPrefix(facts, "unknown") {
				tag = "site:unknown"
			}
			c.E.EndCase(true, tag)
		}
	}
}

func aoCallsNamed(n ast.Node, name string) []*ast.CallExpr {
	var out []*ast.CallExpr
	ast.Inspect(n, func(x ast.Node) bool {
		if ce, ok := x.(*ast.CallExpr); ok {
			switch f := ce.Fun.(type) {
			case *ast.Ident:
				if f.Name == name {
					out = append(out, ce)
				}
			case *ast.SelectorExpr:
				if f.Sel.Name == name {
					if id, ok := f.X.(*ast.Ident); ok && id.Name == "couchbase" {
						out = append(out, ce)
					}
				}
			}
		}
		return true
	})
	return out
}

func aoExprString(fset *token.FileSet, e ast.Expr) string {
	var b bytes.Buffer
	_ = printer.Fprint(&b, fset, e)
	return strings.Join(strings.Fields(b.String()), "")
}

// methodCalls returns the calls `<recv>.<method>(…)` under n.
func aoMethodCalls(n ast.Node, recv, method string) []*ast.CallExpr {
	var out []*ast.CallExpr
	ast.Inspect(n, func(x ast.Node) bool {
		if ce, ok := x.(*ast.CallExpr); ok {
			if se, ok := ce.Fun.(*ast.SelectorExpr); ok && se.Sel.Name == method {
				if id, ok := se.X.(*ast.Ident); ok && id.Name == recv {
					out = append(out, ce)
				}
			}
		}
		return true
	})
	return out
}

func aoWithin(inner, outer ast.Node) bool {
	return outer != nil && inner.Pos() >= outer.Pos() && inner.End() <= outer.End()
}

// aoScope: where does the asyncOp (and the context it watches) live relative to the gocbcore request
// whose callback resolves it?  Independent of aoAnalyse (it also answers for shapes that one gives up on).
//
//	single       the request is issued straight in the function body: one asyncOp, one request per call
//	per-request  the request is issued inside a loop body / function literal (several requests per call) and
//	             `NewAsyncOp(…)` as well as the `ctx, … := context.With…(…)` it is given are inside the SAME
//	             innermost loop body / function literal: every request has its own asyncOp and deadline
//	shared       the request is inside a loop body / function literal but the asyncOp or its context is
//	             created outside of it: several requests signal ONE buffer-1 channel
//	unknown      not recognised
func aoScope(fd *ast.FuncDecl) string {
	news := aoCallsNamed(fd, "NewAsyncOp")
	if len(news) != 1 || len(news[0].Args) != 1 {
		return "unknown"
	}
	newCall := news[0]
	opm := ""
	ast.Inspect(fd, func(n ast.Node) bool {
		if as, ok := n.(*ast.AssignStmt); ok && len(as.Lhs) == 1 && len(as.Rhs) == 1 && as.Rhs[0] == ast.Expr(newCall) {
			if id, ok := as.Lhs[0].(*ast.Ident); ok {
				opm = id.Name
			}
		}
		return true
	})
	if opm == "" {
		return "unknown"
	}
	// the statement that creates the context handed to NewAsyncOp (nil: a parameter / context.Background())
	var ctxAssign *ast.AssignStmt
	if x, ok := newCall.Args[0].(*ast.Ident); ok {
		ast.Inspect(fd, func(n ast.Node) bool {
			as, ok := n.(*ast.AssignStmt)
			if !ok || len(as.Lhs) < 1 || as.Pos() > newCall.Pos() {
				return true
			}
			if id, ok := as.Lhs[0].(*ast.Ident); ok && id.Name == x.Name && (ctxAssign == nil || as.Pos() > ctxAssign.Pos()) {
				ctxAssign = as
			}
			return true
		})
	}
	// callbacks: innermost function literals that call opm.Resolve()
	var callbacks []*ast.FuncLit
	ast.Inspect(fd, func(n ast.Node) bool {
		fl, ok := n.(*ast.FuncLit)
		if !ok || len(aoMethodCalls(fl.Body, opm, "Resolve")) == 0 {
			return true
		}
		inner := false
		ast.Inspect(fl.Body, func(m ast.Node) bool {
			if fl2, ok := m.(*ast.FuncLit); ok && len(aoMethodCalls(fl2.Body, opm, "Resolve")) > 0 {
				inner = true
			}
			return true
		})
		if !inner {
			callbacks = append(callbacks, fl)
		}
		return true
	})
	if len(callbacks) == 0 {
		return "unknown"
	}
	worst := "single"
	for _, cb := range callbacks {
		// the request: the call that takes the callback as an argument
		var req *ast.CallExpr
		ast.Inspect(fd, func(n ast.Node) bool {
			if ce, ok := n.(*ast.CallExpr); ok {
				for _, a := range ce.Args {
					if a == ast.Expr(cb) {
						req = ce
					}
				}
			}
			return true
		})
		if req == nil {
			return "unknown"
		}
		// innermost loop body / function literal around the request
		var encl ast.Node
		ast.Inspect(fd.Body, func(n ast.Node) bool {
			var cand ast.Node
			switch v := n.(type) {
			case *ast.FuncLit:
				if v != cb {
					cand = v
				}
			case *ast.ForStmt:
				cand = v.Body
			case *ast.RangeStmt:
				cand = v.Body
			}
			if cand != nil && aoWithin(req, cand) && (encl == nil || aoWithin(cand, encl)) {
				encl = cand
			}
			return true
		})
		switch {
		case encl == nil:
		case aoWithin(newCall, encl) && (ctxAssign == nil || aoWithin(ctxAssign, encl)):
			if worst == "single" {
				worst = "per-request"
			}
		default:
			worst = "shared"
		}
	}
	return worst
}

// aoWaitGuard: does the wrapper hand back a non-nil result of `opm.Wait(op, err)` WITHOUT first receiving from a
// channel its callback sends on?  (When gocbcore refuses the request at dispatch no callback will ever run and
// `Wait` returns the dispatch error at once: a receive before the guard blocks for ever.)  Independent of
// aoAnalyse: it also answers for shapes that one gives up on.
//
//	1        the one `Wait` outside the callback is `return opm.Wait(…)`, or `x (:)= opm.Wait(…)` followed at once by
//	         `if x != nil { …; return … }` (or the same as an if-with-init), and every receive from a callback
//	         channel outside the callback comes after that guard (or there is none)
//	0        a receive from a callback channel can run before / without the guard
//	unknown  not recognised
func aoWaitGuard(fset *token.FileSet, fd *ast.FuncDecl) string {
	news := aoCallsNamed(fd, "NewAsyncOp")
	if len(news) != 1 {
		return "unknown"
	}
	newCall := news[0]
	opm := ""
	ast.Inspect(fd, func(n ast.Node) bool {
		if as, ok := n.(*ast.AssignStmt); ok && len(as.Lhs) == 1 && len(as.Rhs) == 1 && as.Rhs[0] == ast.Expr(newCall) {
			if id, ok := as.Lhs[0].(*ast.Ident); ok {
				opm = id.Name
			}
		}
		return true
	})
	if opm == "" {
		return "unknown"
	}
	var callbacks []*ast.FuncLit
	ast.Inspect(fd, func(n ast.Node) bool {
		fl, ok := n.(*ast.FuncLit)
		if !ok || len(aoMethodCalls(fl.Body, opm, "Resolve")) == 0 {
			return true
		}
		inner := false // innermost literal only
		ast.Inspect(fl.Body, func(m ast.Node) bool {
			if fl2, ok := m.(*ast.FuncLit); ok && len(aoMethodCalls(fl2.Body, opm, "Resolve")) > 0 {
				inner = true
			}
			return true
		})
		if !inner {
			callbacks = append(callbacks, fl)
		}
		return true
	})
	if len(callbacks) == 0 {
		return "unknown"
	}
	inCallback := func(n ast.Node) bool {
		for _, cb := range callbacks {
			if aoWithin(n, cb) {
				return true
			}
		}
		return false
	}
	chans := map[string]bool{}
	for _, cb := range callbacks {
		ast.Inspect(cb.Body, func(n ast.Node) bool {
			if ss, ok := n.(*ast.SendStmt); ok {
				if id, ok := ss.Chan.(*ast.Ident); ok {
					chans[id.Name] = true
				}
			}
			return true
		})
	}
	var recvs []ast.Node
	ast.Inspect(fd, func(n ast.Node) bool {
		if ue, ok := n.(*ast.UnaryExpr); ok && ue.Op == token.ARROW && !inCallback(ue) {
			if id, ok := ue.X.(*ast.Ident); ok && chans[id.Name] {
				recvs = append(recvs, ue)
			}
		}
		return true
	})
	var waits []*ast.CallExpr
	for _, w := range aoMethodCalls(fd, opm, "Wait") {
		if !inCallback(w) {
			waits = append(waits, w)
		}
	}
	if len(waits) != 1 {
		return "unknown"
	}
	wait := waits[0]
	// innermost statement list that holds the Wait
	var block *ast.BlockStmt
	ast.Inspect(fd, func(n ast.Node) bool {
		if b, ok := n.(*ast.BlockStmt); ok && aoWithin(wait, b) && !inCallback(b) && (block == nil || aoWithin(b, block)) {
			block = b
		}
		return true
	})
	if block == nil {
		return "unknown"
	}
	guarded := func(ifs *ast.IfStmt, name string) bool {
		if ifs.Else != nil || len(ifs.Body.List) == 0 || aoExprString(fset, ifs.Cond) != name+"!=nil" {
			return false
		}
		_, isRet := ifs.Body.List[len(ifs.Body.List)-1].(*ast.ReturnStmt)
		return isRet
	}
	var guardEnd token.Pos
	for i, st := range block.List {
		if !aoWithin(wait, st) {
			continue
		}
		switch v := st.(type) {
		case *ast.ReturnStmt:
			if len(v.Results) == 1 && v.Results[0] == ast.Expr(wait) {
				guardEnd = v.Pos() // nothing of this block runs after it
			}
		case *ast.IfStmt:
			if as, ok := v.Init.(*ast.AssignStmt); ok && len(as.Lhs) == 1 && len(as.Rhs) == 1 && as.Rhs[0] == ast.Expr(wait) {
				if lhs, ok := as.Lhs[0].(*ast.Ident); ok && guarded(v, lhs.Name) {
					guardEnd = v.End()
				}
			}
		case *ast.AssignStmt:
			if len(v.Lhs) == 1 && len(v.Rhs) == 1 && v.Rhs[0] == ast.Expr(wait) && i+1 < len(block.List) {
				lhs, ok := v.Lhs[0].(*ast.Ident)
				ifs, ok2 := block.List[i+1].(*ast.IfStmt)
				if ok && ok2 && ifs.Init == nil && guarded(ifs, lhs.Name) {
					guardEnd = ifs.End()
				}
			}
		}
	}
	for _, r := range recvs {
		if guardEnd == token.NoPos || r.Pos() < guardEnd {
			return "0"
		}
	}
	return "1"
}

// aoAnalyse recognises the wrapper pattern in one function; anything it is not sure about is "unknown".
func aoAnalyse(fset *token.FileSet, fd *ast.FuncDecl) string {
	news := aoCallsNamed(fd, "NewAsyncOp")
	if len(news) != 1 || len(news[0].Args) != 1 {
		return "unknown"
	}
	newCall := news[0]
	// opm := NewAsyncOp(X)
	var opm string
	var scope *ast.BlockStmt // innermost function body holding that assignment
	var walk func(n ast.Node, body *ast.BlockStmt)
	walk = func(n ast.Node, body *ast.BlockStmt) {
		ast.Inspect(n, func(x ast.Node) bool {
			switch v := x.(type) {
			case *ast.FuncLit:
				walk(v.Body, v.Body)
				return false
			case *ast.AssignStmt:
				if len(v.Lhs) == 1 && len(v.Rhs) == 1 && v.Rhs[0] == ast.Expr(newCall) {
					if id, ok := v.Lhs[0].(*ast.Ident); ok {
						opm, scope = id.Name, body
					}
				}
			}
			return true
		})
	}
	walk(fd.Body, fd.Body)
	if opm == "" || scope == nil {
		return "unknown"
	}

	// ---- deadline of the ctx handed to NewAsyncOp
	deadline := ""
	switch x := newCall.Args[0].(type) {
	case *ast.CallExpr:
		if aoExprString(fset, x) == "context.Background()" {
			deadline = "none"
		}
	case *ast.Ident:
		// nearest preceding `<x>, … := context.WithTimeout(context.Background(), E)`
		var best *ast.AssignStmt
		ast.Inspect(fd, func(n ast.Node) bool {
			as, ok := n.(*ast.AssignStmt)
			if !ok || len(as.Lhs) < 1 || len(as.Rhs) != 1 || as.Pos() > newCall.Pos() {
				return true
			}
			if id, ok := as.Lhs[0].(*ast.Ident); !ok || id.Name != x.Name {
				return true
			}
			if best == nil || as.Pos() > best.Pos() {
				best = as
			}
			return true
		})
		if best != nil {
			if ce, ok := best.Rhs[0].(*ast.CallExpr); ok && len(ce.Args) == 2 &&
				aoExprString(fset, ce.Fun) == "context.WithTimeout" &&
				aoExprString(fset, ce.Args[0]) == "context.Background()" {
				deadline = aoExprString(fset, ce.Args[1])
			}
		} else if fd.Type.Params != nil {
			for _, p := range fd.Type.Params.List {
				for _, nm := range p.Names {
					if nm.Name == x.Name && aoExprString(fset, p.Type) == "context.Context" {
						deadline = "ctx-param"
					}
				}
			}
		}
	}
	if deadline == "" {
		return "unknown"
	}

	// ---- the callback: the one function literal that calls opm.Resolve()
	var callback *ast.FuncLit
	nCallbacks := 0
	ast.Inspect(scope, func(n ast.Node) bool {
		if fl, ok := n.(*ast.FuncLit); ok {
			if len(aoMethodCalls(fl.Body, opm, "Resolve")) > 0 {
				// innermost literal wins
				inner := false
				ast.Inspect(fl.Body, func(m ast.Node) bool {
					if fl2, ok := m.(*ast.FuncLit); ok && len(aoMethodCalls(fl2.Body, opm, "Resolve")) > 0 {
						inner = true
					}
					return true
				})
				if !inner {
					callback = fl
					nCallbacks++
				}
			}
		}
		return true
	})
	if callback == nil || nCallbacks != 1 || len(aoMethodCalls(callback.Body, opm, "Resolve")) != 1 {
		return "unknown"
	}
	errParam := ""
	for _, p := range callback.Type.Params.List {
		if id, ok := p.Type.(*ast.Ident); ok && id.Name == "error" && len(p.Names) == 1 {
			errParam = p.Names[0].Name
		}
	}
	if errParam == "" {
		return "unknown"
	}

	// ---- sends inside the callback
	type sendInfo struct{ sendsErr bool }
	sends := map[string]*sendInfo{}
	okShape := true
	ast.Inspect(callback.Body, func(n ast.Node) bool {
		if ss, ok := n.(*ast.SendStmt); ok {
			ch, ok := ss.Chan.(*ast.Ident)
			if !ok {
				okShape = false
				return true
			}
			si := sends[ch.Name]
			if si == nil {
				si = &sendInfo{}
				sends[ch.Name] = si
			}
			if v, ok := ss.Value.(*ast.Ident); ok && v.Name == errParam {
				si.sendsErr = true
			}
		}
		return true
	})
	if !okShape {
		return "unknown"
	}

	// ---- channel creation: `<ch> := make(chan T, N)`
	buffered := "na"
	if len(sends) > 0 {
		buffered = "1"
		for name := range sends {
			found := false
			ast.Inspect(fd, func(n ast.Node) bool {
				as, ok := n.(*ast.AssignStmt)
				if !ok || len(as.Lhs) != 1 || len(as.Rhs) != 1 {
					return true
				}
				id, ok := as.Lhs[0].(*ast.Ident)
				if !ok || id.Name != name {
					return true
				}
				ce, ok := as.Rhs[0].(*ast.CallExpr)
				if !ok {
					return true
				}
				if f, ok := ce.Fun.(*ast.Ident); !ok || f.Name != "make" || len(ce.Args) < 1 {
					return true
				}
				if _, ok := ce.Args[0].(*ast.ChanType); !ok {
					return true
				}
				found = true
				if len(ce.Args) == 1 {
					buffered = "0"
					return true
				}
				lit, ok := ce.Args[1].(*ast.BasicLit)
				if !ok || lit.Kind != token.INT {
					okShape = false
					return true
				}
				if n, err := strconv.Atoi(lit.Value); err != nil || n < 1 {
					buffered = "0"
				}
				return true
			})
			if !found {
				okShape = false
			}
		}
	}
	if !okShape {
		return "unknown"
	}

	// ---- opm.Wait(…) outside the callback, and the guard that follows it
	var waits []*ast.CallExpr
	for _, w := range aoMethodCalls(scope, opm, "Wait") {
		if !aoWithin(w, callback) {
			waits = append(waits, w)
		}
	}
	if len(waits) != 1 {
		return "unknown"
	}
	wait := waits[0]
	var guardEnd token.Pos // receives must start after this position
	form := ""
	for i, st := range scope.List {
		if !aoWithin(wait, st) {
			continue
		}
		switch v := st.(type) {
		case *ast.ReturnStmt:
			if len(v.Results) == 1 && v.Results[0] == ast.Expr(wait) {
				form = "return"
			}
		case *ast.IfStmt:
			// if err = opm.Wait(op, err); err != nil { return … }
			if as, ok := v.Init.(*ast.AssignStmt); ok && v.Else == nil && len(as.Lhs) == 1 && len(as.Rhs) == 1 &&
				as.Rhs[0] == ast.Expr(wait) && len(v.Body.List) > 0 {
				if lhs, ok := as.Lhs[0].(*ast.Ident); ok && aoExprString(fset, v.Cond) == lhs.Name+"!=nil" {
					if _, isRet := v.Body.List[len(v.Body.List)-1].(*ast.ReturnStmt); isRet {
						form = "guarded"
						guardEnd = v.End()
					}
				}
			}
		case *ast.AssignStmt:
			if len(v.Lhs) == 1 && len(v.Rhs) == 1 && v.Rhs[0] == ast.Expr(wait) && i+1 < len(scope.List) {
				lhs, ok := v.Lhs[0].(*ast.Ident)
				ifs, ok2 := scope.List[i+1].(*ast.IfStmt)
				if ok && ok2 && ifs.Init == nil && ifs.Else == nil &&
					aoExprString(fset, ifs.Cond) == lhs.Name+"!=nil" && len(ifs.Body.List) > 0 {
					if _, isRet := ifs.Body.List[len(ifs.Body.List)-1].(*ast.ReturnStmt); isRet {
						form = "guarded"
						guardEnd = ifs.End()
					}
				}
			}
		}
	}
	if form == "" {
		return "unknown"
	}

	// ---- receives from those channels, outside the callback
	readsAfterWait := "na"
	propagates := false
	type recv struct {
		ch string
		at ast.Node
	}
	var recvs []recv
	ast.Inspect(fd, func(n ast.Node) bool {
		if n == ast.Node(callback) {
			return false
		}
		if ue, ok := n.(*ast.UnaryExpr); ok && ue.Op == token.ARROW {
			if id, ok := ue.X.(*ast.Ident); ok {
				if _, isRes := sends[id.Name]; isRes {
					recvs = append(recvs, recv{id.Name, ue})
				}
			}
		}
		return true
	})
	if len(sends) > 0 {
		readsAfterWait = "1"
		for _, r := range recvs {
			if form != "guarded" || r.at.Pos() < guardEnd {
				readsAfterWait = "0"
			}
		}
	}
	// the callback's err reaches a return value: `return …, <-ch` or `v (:)= <-ch` … `return … v …`
	for _, r := range recvs {
		if !sends[r.ch].sendsErr {
			continue
		}
		ast.Inspect(fd, func(n ast.Node) bool {
			switch v := n.(type) {
			case *ast.ReturnStmt:
				for _, res := range v.Results {
					if res == ast.Expr(r.at.(*ast.UnaryExpr)) {
						propagates = true
					}
				}
			case *ast.AssignStmt:
				if len(v.Lhs) == 1 && len(v.Rhs) == 1 && v.Rhs[0] == ast.Expr(r.at.(*ast.UnaryExpr)) {
					if id, ok := v.Lhs[0].(*ast.Ident); ok && id.Name != "_" {
						// a later return mentions the variable
						ast.Inspect(fd, func(m ast.Node) bool {
							if rs, ok := m.(*ast.ReturnStmt); ok && rs.Pos() > v.End() {
								for _, res := range rs.Results {
									if rid, ok := res.(*ast.Ident); ok && rid.Name == id.Name {
										propagates = true
									}
								}
							}
							return true
						})
					}
				}
			}
			return true
		})
	}
	p := 0
	if propagates {
		p = 1
	}
	return fmt.Sprintf("buffered=%s readsAfterWait=%s propagatesErr=%d deadline=%s", buffered, readsAfterWait, p, deadline)
}
