package main

// interpreter of the M2 session op language on the real stream code

import (
	"encoding/hex"
	"fmt"
	"sort"
	"strconv"
	"strings"
	"time"

	"github.com/Trendyol/go-dcp/config"
	"github.com/Trendyol/go-dcp/couchbase"
	"github.com/Trendyol/go-dcp/metadata"
	"github.com/Trendyol/go-dcp/metric"
	"github.com/Trendyol/go-dcp/models"
	"github.com/Trendyol/go-dcp/stream"
	"github.com/Trendyol/go-dcp/stream/offset"
	"github.com/Trendyol/go-dcp/tracing"
	"github.com/couchbase/gocbcore/v10"
	"github.com/prometheus/client_golang/prometheus"
)

type saverG struct {
	done chan struct{}
	rel  chan struct{}
}

type sessEnv struct {
	buf    *obuf
	cfg    *config.Dcp
	cl     *fakeClient
	meta   *fakeMeta
	md     metadata.Metadata
	co     *fakeConsumer
	disc   sessDisc // l1_api.go: *fakeDisc, or the real discovery in group mode
	eh     *fakeEH
	st     stream.Stream
	hc     stream.Checkpoint
	proxy  *proxyStream
	savers map[int]*saverG
	phase  map[int]string
	stop   chan struct{}
	lo, hi int
	ro     bool
	colls  map[uint32]string
	isOpen bool
	api    *apiEnv // l1_api.go: the real HTTP API over the current stream object (nil until an api-* op needs it)
	ab     *apiBus // l1_api.go: the bus behind it
	hold   *heldCall // l1_api.go: `hold-next` … `release`: one consumer call kept in flight
}

func newSessEnv() *sessEnv {
	buf := &obuf{}
	e := &sessEnv{buf: buf, cfg: baseConfig(), cl: newFakeClient(buf, 1024), meta: newFakeMeta(buf), co: &fakeConsumer{buf: buf},
		disc: &fakeDisc{buf: buf}, eh: &fakeEH{}, savers: map[int]*saverG{}, phase: map[int]string{}, colls: map[uint32]string{}}
	e.md = e.meta
	return e
}

func (e *sessEnv) applyCfg(args []string) string {
	kv := map[string]string{}
	for _, a := range args {
		p := strings.SplitN(a, "=", 2)
		if len(p) != 2 {
			return "bad-op"
		}
		kv[p[0]] = p[1]
	}
	lo, _ := strconv.Atoi(kv["lo"])
	hi, _ := strconv.Atoi(kv["hi"])
	e.lo, e.hi = lo, hi
	e.disc.set(lo, hi)
	if kv["mode"] == "fin" {
		e.cfg.Dcp.Mode = config.DcpModeFinite
	} else {
		e.cfg.Dcp.Mode = config.DcpModeInfinite
	}
	e.cfg.Checkpoint.AutoReset = kv["reset"]
	e.ro = kv["ro"] == "1"
	if e.ro {
		e.md = metadata.NewReadMetadata(e.meta)
	} else {
		e.md = e.meta
	}
	if kv["skip"] != "-" {
		sec, frac, _ := strings.Cut(kv["skip"], ".")
		n, _ := strconv.ParseInt(sec, 10, 64)
		ns, _ := strconv.ParseInt(frac, 10, 64)
		t := time.Unix(n, ns)
		// the value as the configuration hands it to the observers: through config.ApplyDefaults, as dcp.newDcp does
		tmp := &config.Dcp{}
		tmp.Dcp.Listener.SkipUntil = &t
		tmp.ApplyDefaults()
		e.cfg.Dcp.Listener.SkipUntil = tmp.Dcp.Listener.SkipUntil
	} else {
		e.cfg.Dcp.Listener.SkipUntil = nil
	}
	e.colls = map[uint32]string{}
	if kv["colls"] != "-" {
		for _, c := range strings.Split(kv["colls"], ",") {
			p := strings.SplitN(c, ":", 2)
			id, _ := strconv.ParseUint(p[0], 10, 32)
			e.colls[uint32(id)] = p[1]
		}
	}
	return e.apiCfg(kv) // l1_api.go: `grp=M/T nvb=N` = real vBucket discovery (stream sess-api)
}

func u64(s string) uint64 {
	n, err := strconv.ParseUint(s, 10, 64)
	if err != nil {
		panic("bad number in op: " + s)
	}
	return n
}

func parsePayload(p string) (rev uint64, flags, exp uint32, dt uint8, val []byte) {
	for _, f := range strings.Split(p, ".") {
		if f == "" {
			continue
		}
		switch f[0] {
		case 'r':
			rev = u64(f[1:])
		case 'f':
			flags = uint32(u64(f[1:]))
		case 'e':
			exp = uint32(u64(f[1:]))
		case 'd':
			dt = uint8(u64(f[1:]))
		case 'v':
			val, _ = hex.DecodeString(f[1:])
		}
	}
	return
}

func parseVerdict(s string) storeVerdict {
	switch {
	case s == "ok":
		return storeVerdict{kind: "ok"}
	case s == "fail":
		return storeVerdict{kind: "fail"}
	case strings.HasPrefix(s, "partial:"):
		w := map[uint16]bool{}
		for _, x := range strings.Split(strings.TrimPrefix(s, "partial:"), ",") {
			if x != "" {
				w[uint16(u64(x))] = true
			}
		}
		return storeVerdict{kind: "partial", written: w}
	}
	panic("bad verdict " + s)
}

// sorted rendering of what the fakes logged during an op; `first` entries keep their order in front
func (e *sessEnv) drainSorted(prefixes ...string) string {
	l := e.buf.drain()
	isP := func(s string) bool {
		for _, p := range prefixes {
			if strings.HasPrefix(s, p) {
				return true
			}
		}
		return false
	}
	var sortable, rest []string
	for _, s := range l {
		if isP(s) {
			sortable = append(sortable, s)
		} else {
			rest = append(rest, s)
		}
	}
	rank := func(s string) int {
		for i, p := range prefixes {
			if strings.HasPrefix(s, p) {
				return i
			}
		}
		return len(prefixes)
	}
	sort.SliceStable(sortable, func(i, j int) bool {
		if rank(sortable[i]) != rank(sortable[j]) {
			return rank(sortable[i]) < rank(sortable[j])
		}
		a, b := strings.Fields(sortable[i]), strings.Fields(sortable[j])
		x, _ := strconv.Atoi(a[1])
		y, _ := strconv.Atoi(b[1])
		return x < y
	})
	return joinObs(append(sortable, rest...))
}

func (e *sessEnv) exec(line string) (res string) {
	t := strings.Fields(line)
	defer func() {
		if r := recover(); r != nil {
			msg := fmt.Sprint(r)
			e.buf.drain()
			switch {
			case strings.Contains(msg, "seqNo not in snapshot"):
				res = "failstop:snapshot"
			case strings.Contains(msg, "checkpoint seqNo bigger"):
				res = "failstop:checkpoint-ahead"
			default:
				res = "panic:" + strings.ReplaceAll(strings.ReplaceAll(msg, "\t", " "), "\n", " ")
			}
		}
	}()
	if r, ok := e.execAPI(t); ok { // l1_api.go: api-* ops go through the real HTTP API
		return r
	}
	switch t[0] {
	case "reset":
		return "ok"
	case "cfg":
		return e.applyCfg(t[1:])
	case "store":
		vb := uint16(u64(t[1]))
		e.meta.store[vb] = models.CheckpointDocument{Checkpoint: &models.CheckpointDocumentCheckpoint{VbUUID: u64(t[2]), SeqNo: u64(t[3]),
			Snapshot: &models.CheckpointDocumentSnapshot{StartSeqNo: u64(t[4]), EndSeqNo: u64(t[5])}}}
		return "ok"
	case "high":
		e.cl.mu.Lock()
		e.cl.high[uint16(u64(t[1]))] = u64(t[2])
		e.cl.mu.Unlock()
		return "ok"
	case "flog":
		e.cl.mu.Lock()
		e.cl.flog[uint16(u64(t[1]))] = u64(t[2])
		e.cl.mu.Unlock()
		return "ok"
	case "open":
		e.stop = make(chan struct{}, 1)
		e.co.mu.Lock()
		e.co.cur++
		e.co.mu.Unlock()
		e.cl.mu.Lock()
		e.cl.obs = map[uint16]couchbase.Observer{}
		e.cl.mu.Unlock()
		e.st = stream.NewStream(e.cl, e.md, e.cfg, &couchbase.Version{Major: 7, Minor: 6}, &couchbase.BucketInfo{BucketType: "membase"},
			e.disc, e.co, e.colls, e.stop, e.eh, tracing.NewTracerComponent())
		e.eh.st = e.st
		e.isOpen = false
		e.st.Open()
		e.isOpen = true
		e.proxy = newProxy(e.st)
		var vbs []uint16
		for v := e.lo; v <= e.hi; v++ {
			vbs = append(vbs, uint16(v))
		}
		e.hc = stream.NewCheckpoint(e.proxy, vbs, e.cl, e.md, e.cfg, offset.NewOffsetLatestSeqNoInit(e.cfg))
		e.savers = map[int]*saverG{}
		return e.drainSorted("openreq")
	case "close":
		e.st.Close(true)
		e.isOpen = false
		return e.drainSorted("closereq")
	case "rebalance":
		// a completed rebalance of the same stream object: Rebalance() closes, the (1 ms) timer reopens on the new range
		lo, _ := strconv.Atoi(t[1])
		hi, _ := strconv.Atoi(t[2])
		e.lo, e.hi = lo, hi
		e.disc.set(lo, hi)
		done := make(chan struct{}, 1)
		e.eh.mu.Lock()
		e.eh.hook = func(s string) {
			if s == "ARE" {
				select {
				case done <- struct{}{}:
				default:
				}
			}
		}
		e.eh.mu.Unlock()
		e.cl.mu.Lock()
		e.cl.obs = map[uint16]couchbase.Observer{}
		e.cl.mu.Unlock()
		e.cfg.Dcp.Group.Membership.RebalanceDelay = time.Millisecond
		e.st.Rebalance()
		if _, err := waitCh(done, "rebalance to finish"); err != nil {
			return "timeout:" + err.Error()
		}
		e.eh.mu.Lock()
		e.eh.hook = nil
		e.eh.mu.Unlock()
		var vbs []uint16
		for v := e.lo; v <= e.hi; v++ {
			vbs = append(vbs, uint16(v))
		}
		e.hc = stream.NewCheckpoint(e.proxy, vbs, e.cl, e.md, e.cfg, offset.NewOffsetLatestSeqNoInit(e.cfg))
		return e.drainSorted("closereq", "openreq")
	case "end":
		// a regular (non-transient, status OK) end of one vBucket's stream
		vb := uint16(u64(t[1]))
		o := e.cl.observer(vb)
		if o == nil {
			return "bad:vb not streamed"
		}
		e.cl.markEnded(vb)
		o.End(models.DcpStreamEnd{VbID: vb}, nil)
		if rest := joinObs(e.buf.drain()); rest != "" && rest != "-" {
			return "ended ; " + rest
		}
		return "ended"
	case "reopen":
		vb := uint16(u64(t[1]))
		o := e.cl.observer(vb)
		if o == nil {
			return "bad:vb not streamed"
		}
		o.End(models.DcpStreamEnd{VbID: vb}, gocbcore.ErrDCPStreamStateChanged)
		// reopenStream runs in its own goroutine
		for i := 0; i < 400; i++ {
			e.buf.mu.Lock()
			n := len(e.buf.l)
			e.buf.mu.Unlock()
			if n > 0 {
				break
			}
			time.Sleep(500 * time.Microsecond)
		}
		return joinObs(e.buf.drain())
	case "crash":
		// abandon the stream object; only the metadata store survives
		for _, k := range sortedKeys(e.savers) {
			// a saver between store and unmark dies with the process: let its goroutine run off on the dead object
			if e.phase[k] == "stored" {
				e.proxy.goUnmark <- struct{}{}
				<-e.savers[k].done
			}
		}
		e.phase = map[int]string{}
		e.savers = map[int]*saverG{}
		e.st, e.hc, e.proxy = nil, nil, nil
		e.isOpen = false
		e.co.mu.Lock()
		e.co.cur++
		e.co.mu.Unlock()
		e.meta.mu.Lock()
		e.meta.pause = false
		e.meta.mu.Unlock()
		e.buf.drain()
		return "ok"
	case "mk":
		vb := uint16(u64(t[1]))
		e.cl.observer(vb).SnapshotMarker(models.DcpSnapshotMarker{VbID: vb, StartSeqNo: u64(t[2]), EndSeqNo: u64(t[3])})
		return joinObs(e.buf.drain())
	case "mu", "de", "ex":
		vb := uint16(u64(t[1]))
		var key []byte
		if t[4] != "-" {
			key, _ = hex.DecodeString(t[4])
		}
		rev, flags, exp, dt, val := parsePayload(t[6])
		o := e.cl.observer(vb)
		switch t[0] {
		case "mu":
			o.Mutation(gocbcore.DcpMutation{VbID: vb, SeqNo: u64(t[2]), Cas: u64(t[3]), Key: key, CollectionID: uint32(u64(t[5])),
				RevNo: rev, Flags: flags, Expiry: exp, Datatype: dt, Value: val})
		case "de":
			o.Deletion(gocbcore.DcpDeletion{VbID: vb, SeqNo: u64(t[2]), Cas: u64(t[3]), Key: key, CollectionID: uint32(u64(t[5])),
				RevNo: rev, Datatype: dt, Value: val})
		case "ex":
			o.Expiration(gocbcore.DcpExpiration{VbID: vb, SeqNo: u64(t[2]), Cas: u64(t[3]), Key: key, CollectionID: uint32(u64(t[5])), RevNo: rev})
		}
		return joinObs(e.buf.drain())
	case "sa":
		vb := uint16(u64(t[1]))
		e.cl.observer(vb).SeqNoAdvanced(gocbcore.DcpSeqNoAdvanced{VbID: vb, SeqNo: u64(t[2])})
		return joinObs(e.buf.drain())
	case "sy":
		vb := uint16(u64(t[2]))
		seq := u64(t[3])
		coll := uint32(u64(t[4]))
		o := e.cl.observer(vb)
		switch t[1] {
		case "cc":
			o.CreateCollection(gocbcore.DcpCollectionCreation{VbID: vb, SeqNo: seq, CollectionID: coll})
		case "cd":
			o.DeleteCollection(gocbcore.DcpCollectionDeletion{VbID: vb, SeqNo: seq, CollectionID: coll})
		case "cf":
			o.FlushCollection(gocbcore.DcpCollectionFlush{VbID: vb, SeqNo: seq, CollectionID: coll})
		case "cm":
			o.ModifyCollection(gocbcore.DcpCollectionModification{VbID: vb, SeqNo: seq, CollectionID: coll})
		case "sc":
			o.CreateScope(gocbcore.DcpScopeCreation{VbID: vb, SeqNo: seq})
		case "sd":
			o.DeleteScope(gocbcore.DcpScopeDeletion{VbID: vb, SeqNo: seq})
		default:
			return "bad-op"
		}
		return joinObs(e.buf.drain())
	case "oso":
		vb := uint16(u64(t[1]))
		e.cl.observer(vb).OSOSnapshot(gocbcore.DcpOSOSnapshot{VbID: vb})
		return joinObs(e.buf.drain())
	case "ack":
		i := int(u64(t[1]))
		e.co.mu.Lock()
		if i >= len(e.co.ctxs) { // only in shrunk / hand-written replays; the index panic would leave the mutex locked
			e.co.mu.Unlock()
			return "bad:no such context"
		}
		ctx, sess, cur := e.co.ctxs[i], e.co.sess[i], e.co.cur
		e.co.mu.Unlock()
		if sess != cur {
			return "stale"
		}
		ctx.Ack()
		return joinObs(e.buf.drain())
	case "save":
		v := parseVerdict(t[1])
		e.meta.mu.Lock()
		e.meta.next = v
		before := e.meta.calls
		e.meta.mu.Unlock()
		// three equivalent entry points of the same code: harness-owned checkpoint, stream.Save, a context's Commit
		switch (len(line) + before) % 3 {
		case 0:
			e.hc.Save()
		case 1:
			e.st.Save()
		default:
			e.co.mu.Lock()
			var ctx *models.ListenerContext
			for i := len(e.co.ctxs) - 1; i >= 0; i-- {
				if e.co.sess[i] == e.co.cur {
					ctx = e.co.ctxs[i]
					break
				}
			}
			e.co.mu.Unlock()
			if ctx != nil {
				ctx.Commit()
			} else {
				e.st.Save()
			}
		}
		e.meta.mu.Lock()
		called := e.meta.calls != before
		e.meta.next = storeVerdict{kind: "ok"}
		e.meta.mu.Unlock()
		if !called {
			e.buf.drain()
			return "nowrite"
		}
		return joinObs(e.buf.drain())
	case "sv":
		k := int(u64(t[1]))
		switch t[2] {
		case "begin":
			g := &saverG{done: make(chan struct{})}
			e.savers[k] = g
			e.proxy.mu.Lock()
			e.proxy.pauseNext = true
			e.proxy.mu.Unlock()
			go func() {
				defer close(g.done)
				e.hc.Save()
			}()
			sig, err := waitCh(e.proxy.atBegin, "saver at GetOffsets")
			if err != nil {
				return "timeout:" + err.Error()
			}
			g.rel = sig.rel
			if !sig.flag {
				if _, err := waitCh(g.done, "skipping saver to return"); err != nil {
					return "timeout:" + err.Error()
				}
				delete(e.savers, k)
				return "flag=0"
			}
			return "flag=1"
		case "lockwait":
			// let saver k run on while another saver holds saveLock: it must block in Lock(), neither return nor store
			e.meta.mu.Lock()
			e.meta.pause = true // the next entry into metadata.Save will be this saver's, once the holder has returned
			e.meta.mu.Unlock()
			e.savers[k].rel <- struct{}{}
			e.phase[k] = "released"
			select {
			case <-e.savers[k].done:
				delete(e.savers, k)
				delete(e.phase, k)
				return "returned-without-saving"
			case call := <-e.meta.atStore:
				e.meta.atStore <- call
				return "stored-while-lock-held"
			case <-time.After(30 * time.Millisecond):
				return "waiting"
			}
		case "dump":
			if e.phase[k] == "released" {
				// it acquired the lock the moment the holder returned and is already inside metadata.Save
				call, err := waitCh(e.meta.atStore, "released saver at metadata.Save")
				if err != nil {
					return "timeout:" + err.Error()
				}
				e.phase[k] = ""
				return call
			}
			e.meta.mu.Lock()
			e.meta.pause = true
			e.meta.mu.Unlock()
			e.savers[k].rel <- struct{}{}
			call, err := waitCh(e.meta.atStore, "saver at metadata.Save")
			if err != nil {
				return "timeout:" + err.Error()
			}
			return call
		case "store":
			v := parseVerdict(t[3])
			if v.kind == "ok" || e.ro {
				e.proxy.mu.Lock()
				e.proxy.pauseUnmark = true
				e.proxy.mu.Unlock()
			}
			e.meta.verdict <- v
			if v.kind == "ok" || e.ro {
				if _, err := waitCh(e.proxy.atUnmark, "saver at UnmarkDirtyOffsets"); err != nil {
					return "timeout:" + err.Error()
				}
				e.phase[k] = "stored"
			} else {
				if _, err := waitCh(e.savers[k].done, "failed saver to return"); err != nil {
					return "timeout:" + err.Error()
				}
				delete(e.savers, k)
			}
			return joinObs(e.buf.drain())
		case "unmark":
			e.proxy.goUnmark <- struct{}{}
			if _, err := waitCh(e.savers[k].done, "saver to return"); err != nil {
				return "timeout:" + err.Error()
			}
			delete(e.savers, k)
			delete(e.phase, k)
			e.buf.drain()
			return "ok"
		}
		return "bad-op"
	case "persist":
		vb := uint16(u64(t[1]))
		if obs := e.st.GetObservers(); obs != nil {
			if o, ok := obs.Load(vb); ok {
				o.SetPersistSeqNo(gocbcore.SeqNo(u64(t[2])))
			}
		}
		return "ok"
	case "offsets":
		offs, dirty, any := e.st.GetOffsets()
		om := offs.ToMap()
		var ks []int
		for vb := range om {
			ks = append(ks, int(vb))
		}
		sort.Ints(ks)
		var sb []string
		for _, vb := range ks {
			sb = append(sb, fmt.Sprintf("%d%s", vb, fmtOff(om[uint16(vb)])))
		}
		a := "0"
		if any {
			a = "1"
		}
		out := fmt.Sprintf("pos [%s] dirty=%s any=%s", strings.Join(sb, " "), renderVbs(dirty.ToMap()), a)
		// re-read the offset of every context of this session the consumer still holds (shared-pointer mutation shows here)
		e.co.mu.Lock()
		for i, ctx := range e.co.ctxs {
			if e.co.sess[i] != e.co.cur {
				continue
			}
			var vb uint16
			var off *models.Offset
			switch ev := ctx.Event.(type) {
			case models.DcpMutation:
				vb, off = ev.VbID, ev.Offset
			case models.DcpDeletion:
				vb, off = ev.VbID, ev.Offset
			case models.DcpExpiration:
				vb, off = ev.VbID, ev.Offset
			}
			out += fmt.Sprintf(" ; ctx %d %d %s", i, vb, fmtOff(off))
		}
		e.co.mu.Unlock()
		return out
	case "scrape":
		return e.scrape()
	case "metrics":
		vb := uint16(u64(t[1]))
		obs := e.st.GetObservers()
		if obs == nil {
			return "bad:closed"
		}
		o, ok := obs.Load(vb)
		if !ok {
			return "bad:no observer"
		}
		m := o.GetMetrics()
		return fmt.Sprintf("mut=%d del=%d exp=%d", int64(m.TotalMutations), int64(m.TotalDeletions), int64(m.TotalExpirations))
	}
	return "bad-op"
}

// real metric.NewMetricCollector over the real stream in a private registry (C16)
func (e *sessEnv) scrape() string {
	reg := prometheus.NewRegistry()
	var col prometheus.Collector = metric.NewMetricCollector(e.cl, e.st, e.disc)
	if err := reg.Register(col); err != nil {
		return "scrape register-error"
	}
	fams, err := reg.Gather()
	if err != nil {
		return "scrape gather-error"
	}
	type row struct{ v map[string]float64 }
	rows := map[int]map[string]float64{}
	var total float64
	seen := false
	for _, f := range fams {
		name := f.GetName()
		for _, m := range f.GetMetric() {
			val := m.GetGauge().GetValue()
			if m.GetCounter() != nil {
				val = m.GetCounter().GetValue()
			}
			vb := -1
			for _, l := range m.GetLabel() {
				if l.GetName() == "vbId" {
					vb, _ = strconv.Atoi(l.GetValue())
				}
			}
			if name == "cbgo_total_lag_current" {
				total = val
				seen = true
			}
			if vb >= 0 {
				if rows[vb] == nil {
					rows[vb] = map[string]float64{}
				}
				rows[vb][name] = val
			}
		}
	}
	if !seen && len(rows) == 0 {
		return "scrape closed"
	}
	f := func(x float64) string {
		if x < 9007199254740992 {
			return strconv.FormatUint(uint64(x), 10)
		}
		return "big"
	}
	var ks []int
	for vb := range rows {
		ks = append(ks, vb)
	}
	sort.Ints(ks)
	var sb []string
	for _, vb := range ks {
		r := rows[vb]
		sb = append(sb, fmt.Sprintf("%d:%s,%s,%s,%s,%s,%s,%s,%s", vb, f(r["cbgo_seq_no_current"]), f(r["cbgo_start_seq_no_current"]),
			f(r["cbgo_end_seq_no_current"]), f(r["cbgo_lag_current"]), f(r["cbgo_mutation_total"]), f(r["cbgo_deletion_total"]),
			f(r["cbgo_expiration_total"]), f(r["cbgo_persist_seq_no_current"])))
	}
	return fmt.Sprintf("scrape [%s] total=%s", strings.Join(sb, " "), f(total))
}

// abort in-flight micro-stepped savers at the end of a case (so no goroutine stays blocked)
func (e *sessEnv) cleanup() {
	e.releaseHeld() // l1_api.go: no consumer call stays blocked behind the case
	e.apiDown()
	for _, k := range sortedKeys(e.savers) {
		if e.phase[k] == "" && e.savers[k].rel != nil {
			select {
			case e.savers[k].rel <- struct{}{}:
			default:
			}
		}
	}
	for i := 0; i < 2*len(e.savers); i++ {
		select {
		case <-e.meta.atStore:
			e.meta.verdict <- storeVerdict{kind: "fail"}
		case <-e.proxy.atUnmark:
			e.proxy.goUnmark <- struct{}{}
		case <-time.After(20 * time.Millisecond):
		}
	}
}

func sortedKeys(m map[int]*saverG) []int {
	var ks []int
	for k := range m {
		ks = append(ks, k)
	}
	sort.Ints(ks)
	return ks
}
