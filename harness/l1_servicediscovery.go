// Stream c10sd (property C10, layer L1): the real servicediscovery.ServiceDiscovery
// as a leader with 0..5 followers.  Followers are servicediscovery.Service values
// around a fake servicediscovery.Client: Ping fails by script, Rebalance records
// its arguments and (as rpc_server.Handler.Rebalance does) calls SetInfo on the
// follower's own real ServiceDiscovery, whose bus events are recorded as well.
//
// The loops of service_discovery.go sleep a hard-coded 5 s.  With
// RebalanceDelay = 2.5 s the heartbeat pass runs at t = 5, 10 s and the leader's
// monitor pass at t = 7.5, 12.5 s, so a scenario has two phases
// (ping-failure set 1 in force from t = 0, set 2 added at t = 8.75 s) and takes
// 18.75 s (incl. the leadership flap after phase 2); all scenarios of a run execute concurrently.
package main

import (
	"errors"
	"fmt"
	"os"
	"sort"
	"strings"
	"sync"
	"time"

	"github.com/Trendyol/go-dcp/config"
	"github.com/Trendyol/go-dcp/helpers"
	"github.com/Trendyol/go-dcp/membership"
	"github.com/Trendyol/go-dcp/servicediscovery"
	"github.com/Trendyol/go-dcp/stream"
	"github.com/asaskevich/EventBus"
)

func init() { props["c10sd"] = runC10Sd }

type sdScenario struct {
	jts          []int64
	fail1, fail2 map[int]bool
	rerr         map[int]bool
	// followers whose process dies silently and registers again under the same identity at t = 1 s (before the first
	// heartbeat round): the leader must end up talking to the NEW connection
	readd map[int]bool
}

type sdFake struct {
	mu       sync.Mutex
	idx      int
	failing  func(int) bool
	rerr     bool
	calls    []string // Rebalance arguments
	closed   bool
	dead     bool // the peer process behind this connection is gone: pings fail, IsConnected keeps saying true (rpc_client.go)
	follower servicediscovery.ServiceDiscovery
}

func (f *sdFake) Close() error {
	f.mu.Lock()
	f.closed = true
	f.mu.Unlock()
	return nil
}
func (f *sdFake) Ping() error {
	f.mu.Lock()
	dead := f.dead
	f.mu.Unlock()
	if dead || f.failing(f.idx) {
		return errors.New("scripted ping failure")
	}
	return nil
}
func (f *sdFake) Register() error   { return nil }
func (f *sdFake) IsConnected() bool { return true }
func (f *sdFake) Reconnect() error  { return nil }
func (f *sdFake) Rebalance(memberNumber int, totalMembers int) error {
	f.mu.Lock()
	dead := f.dead
	if !dead {
		f.calls = append(f.calls, fmt.Sprintf("%d/%d", memberNumber, totalMembers))
	}
	f.mu.Unlock()
	if dead {
		return errors.New("connection is shut down")
	}
	if f.rerr {
		return errors.New("scripted rebalance failure")
	}
	f.follower.SetInfo(memberNumber, totalMembers) // = rpc_server.go Handler.Rebalance
	return nil
}

func sdSet(m map[int]bool) string {
	var ks []int
	for k, v := range m {
		if v {
			ks = append(ks, k)
		}
	}
	if len(ks) == 0 {
		return "-"
	}
	sort.Ints(ks)
	var sb []string
	for _, k := range ks {
		sb = append(sb, fmt.Sprint(k))
	}
	return strings.Join(sb, ",")
}

func (s *sdScenario) op() string {
	j := "-"
	if len(s.jts) > 0 {
		var sb []string
		for _, x := range s.jts {
			sb = append(sb, fmt.Sprint(x))
		}
		j = strings.Join(sb, ",")
	}
	op := fmt.Sprintf("mb-sd %s %s %s %s", j, sdSet(s.fail1), sdSet(s.fail2), sdSet(s.rerr))
	if sdSet(s.readd) != "-" {
		op += " readd=" + sdSet(s.readd)
	}
	return op
}

func sdRun(s *sdScenario) (res string) {
	defer func() {
		if r := recover(); r != nil {
			res = "panic"
		}
	}()
	cfg := &config.Dcp{}
	cfg.Dcp.Group.Membership.RebalanceDelay = 2500 * time.Millisecond
	var phase2 sync.RWMutex
	inPhase2 := false
	failing := func(i int) bool {
		phase2.RLock()
		defer phase2.RUnlock()
		return s.fail1[i] || (inPhase2 && s.fail2[i])
	}
	leaderBus := EventBus.New()
	leaderEv := &mbEvents{}
	_ = leaderBus.SubscribeAsync(helpers.MembershipChangedBusEventName, leaderEv.add, true)
	sd := servicediscovery.NewServiceDiscovery(cfg, leaderBus)
	n := len(s.jts)
	fakes := make([]*sdFake, n)
	fbus := make([]EventBus.Bus, n)
	fev := make([]*mbEvents, n)
	for i := 0; i < n; i++ {
		fbus[i] = EventBus.New()
		fev[i] = &mbEvents{}
		_ = fbus[i].SubscribeAsync(helpers.MembershipChangedBusEventName, fev[i].add, true)
		fakes[i] = &sdFake{idx: i, failing: failing, rerr: s.rerr[i], follower: servicediscovery.NewServiceDiscovery(cfg, fbus[i])}
		sd.Add(servicediscovery.NewService(fakes[i], fmt.Sprintf("f%d", i), s.jts[i]))
	}
	// promotion through the real handler of stream/leader_election.go (the followers have registered before the callback runs,
	// as happens when the lease holder answers Register rpcs while kubernetes/leader_elector.go is still labelling the pod)
	le := stream.NewLeaderElection(cfg, sd, leaderBus)
	handler, isHandler := le.(interface {
		OnBecomeLeader()
		OnResignLeader()
	})
	if !isHandler {
		return "no-handler"
	}
	handler.OnBecomeLeader()
	t0 := time.Now()
	sd.StartHeartbeat()
	sd.StartMonitor()
	type snap struct {
		leader int
		calls  []int
		evs    []int
	}
	take := func() snap {
		leaderBus.WaitAsync()
		sn := snap{leader: len(leaderEv.snapshot())}
		for i := 0; i < n; i++ {
			fbus[i].WaitAsync()
			fakes[i].mu.Lock()
			sn.calls = append(sn.calls, len(fakes[i].calls))
			fakes[i].mu.Unlock()
			sn.evs = append(sn.evs, len(fev[i].snapshot()))
		}
		return sn
	}
	show := func(tag string, a, b snap) string {
		part := func(ms []membership.Model) string {
			if len(ms) == 0 {
				return "-"
			}
			return strings.ReplaceAll(mbFmt(ms), " ", "+")
		}
		sb := []string{tag, "L=" + part(leaderEv.snapshot()[a.leader:b.leader])}
		for i := 0; i < n; i++ {
			fakes[i].mu.Lock()
			calls := append([]string(nil), fakes[i].calls[a.calls[i]:b.calls[i]]...)
			fakes[i].mu.Unlock()
			if len(calls) == 0 {
				sb = append(sb, fmt.Sprintf("%d=x", i))
				continue
			}
			sb = append(sb, fmt.Sprintf("%d=%s:%s", i, strings.Join(calls, "+"), part(fev[i].snapshot()[a.evs[i]:b.evs[i]])))
		}
		return strings.Join(sb, " ")
	}
	s0 := take()
	if len(s.readd) > 0 {
		time.Sleep(time.Until(t0.Add(1000 * time.Millisecond)))
		for i := 0; i < n; i++ {
			if !s.readd[i] {
				continue
			}
			old := fakes[i]
			old.mu.Lock()
			old.dead = true
			old.mu.Unlock()
			old.mu.Lock()
			nf := &sdFake{idx: i, failing: failing, rerr: s.rerr[i], follower: old.follower, calls: append([]string(nil), old.calls...)}
			old.mu.Unlock()
			sd.Add(servicediscovery.NewService(nf, fmt.Sprintf("f%d", i), s.jts[i])) // = rpc_server.go Handler.Register
			fakes[i] = nf
		}
	}
	time.Sleep(time.Until(t0.Add(8750 * time.Millisecond)))
	s1 := take()
	phase2.Lock()
	inPhase2 = true
	phase2.Unlock()
	time.Sleep(time.Until(t0.Add(13750 * time.Millisecond)))
	s2 := take()
	// a leadership flap with an unchanged follower set (lease lost and won again): the next monitor round (t = 17.5 s) computes the
	// numbering that is already in effect - it must NOT be announced again (C10: "announced only when it differs")
	sd.DontBeLeader()
	sd.BeLeader()
	time.Sleep(time.Until(t0.Add(18750 * time.Millisecond)))
	s3 := take()
	flap := leaderEv.snapshot()[s2.leader:s3.leader]
	before := leaderEv.snapshot()[:s2.leader]
	if len(flap) > 0 && len(before) > 0 && flap[0] == before[len(before)-1] {
		sd.StopMonitor()
		sd.StopHeartbeat()
		return "flap-reannounced " + strings.ReplaceAll(mbFmt(flap), " ", "+")
	}
	sd.StopMonitor()
	sd.StopHeartbeat()
	closed := map[int]bool{}
	for i := 0; i < n; i++ {
		fakes[i].mu.Lock()
		closed[i] = fakes[i].closed
		fakes[i].mu.Unlock()
	}
	// GetAll of the leader afterwards = names of the survivors (cross-check of removal)
	left := sd.GetAll()
	nClosed := 0
	for _, v := range closed {
		if v {
			nClosed++
		}
	}
	if len(left) != n-nClosed {
		return fmt.Sprintf("getall-mismatch %v closed=%s", left, sdSet(closed))
	}
	// resigning drops every follower connection
	handler.OnResignLeader()
	if rest := sd.GetAll(); len(rest) != 0 {
		return fmt.Sprintf("resign-mismatch %v", rest)
	}
	return fmt.Sprintf("%s | %s | closed=%s", show("M1", s0, s1), show("M2", s1, s2), sdSet(closed))
}

func sdReplay(path string) (scs []*sdScenario) {
	b, err := os.ReadFile(path)
	if err != nil {
		panic(err)
	}
	set := func(t string) map[int]bool {
		m := map[int]bool{}
		if t != "-" {
			for _, x := range strings.Split(t, ",") {
				var i int
				if _, e := fmt.Sscanf(x, "%d", &i); e == nil {
					m[i] = true
				}
			}
		}
		return m
	}
	for _, ln := range strings.Split(string(b), "\n") {
		f := strings.Fields(strings.SplitN(ln, "\t", 2)[0])
		if (len(f) != 5 && len(f) != 6) || f[0] != "mb-sd" {
			continue
		}
		s := &sdScenario{fail1: set(f[2]), fail2: set(f[3]), rerr: set(f[4])}
		if len(f) == 6 {
			s.readd = set(strings.TrimPrefix(f[5], "readd="))
		}
		if f[1] != "-" {
			for _, x := range strings.Split(f[1], ",") {
				var j int64
				fmt.Sscanf(x, "%d", &j)
				s.jts = append(s.jts, j)
			}
		}
		scs = append(scs, s)
	}
	return
}

func runC10Sd(c *Ctx) {
	var scs []*sdScenario
	subset := func(n, pct int) map[int]bool {
		m := map[int]bool{}
		for i := 0; i < n; i++ {
			if c.R.Chance(pct) {
				m[i] = true
			}
		}
		return m
	}
	mk := func(k int, ties bool) *sdScenario {
		s := &sdScenario{}
		used := map[int64]bool{}
		for i := 0; i < k; i++ {
			var jt int64
			for {
				jt = int64(c.R.Intn(50)) - 5
				if c.R.Chance(10) {
					jt = 1700000000000000000 + int64(c.R.Intn(1000))
				}
				if ties && i > 0 && c.R.Chance(50) {
					jt = s.jts[c.R.Intn(i)]
					break
				}
				if !used[jt] {
					break
				}
			}
			used[jt] = true
			s.jts = append(s.jts, jt)
		}
		s.fail1 = subset(k, 25)
		s.fail2 = subset(k, 25)
		s.rerr = subset(k, 10)
		return s
	}
	// every follower count 0..5, with and without failures
	for k := 0; k <= 5; k++ {
		s := mk(k, false)
		s.fail1, s.fail2, s.rerr = map[int]bool{}, map[int]bool{}, map[int]bool{}
		scs = append(scs, s)
		scs = append(scs, mk(k, false))
	}
	// all ping-failure patterns of phase 1 for 1..3 followers (thorough: ..4)
	for k := 1; k <= c.N(3, 4); k++ {
		for mask := 0; mask < 1<<k; mask++ {
			s := mk(k, false)
			s.fail1 = map[int]bool{}
			for i := 0; i < k; i++ {
				if mask>>i&1 == 1 {
					s.fail1[i] = true
				}
			}
			scs = append(scs, s)
		}
	}
	for i := 0; i < c.N(12, 500); i++ {
		scs = append(scs, mk(c.R.Intn(6), c.R.Chance(25)))
	}
	// silent restarts of followers under the same identity
	for i := 0; i < c.N(8, 120); i++ {
		s := mk(1+c.R.Intn(5), false)
		s.readd = subset(len(s.jts), 50)
		if i < 3 {
			s.fail1, s.fail2, s.rerr = map[int]bool{}, map[int]bool{}, map[int]bool{}
			s.readd = map[int]bool{c.R.Intn(len(s.jts)): true}
		}
		scs = append(scs, s)
	}
	if replayFile != "" {
		scs = sdReplay(replayFile)
	}
	res := make([]string, len(scs))
	var wg sync.WaitGroup
	for i := range scs {
		wg.Add(1)
		go func(i int) {
			defer wg.Done()
			res[i] = sdRun(scs[i])
		}(i)
	}
	wg.Wait()
	for i, s := range scs {
		c.E.Line(s.op(), res[i])
		tags := []string{fmt.Sprintf("followers=%d", len(s.jts))}
		seen := map[int64]bool{}
		for _, j := range s.jts {
			if seen[j] {
				tags = append(tags, "ties")
				break
			}
			seen[j] = true
		}
		if sdSet(s.fail1) != "-" {
			tags = append(tags, "fail-phase1")
		}
		if sdSet(s.fail2) != "-" {
			tags = append(tags, "fail-phase2")
		}
		if sdSet(s.rerr) != "-" {
			tags = append(tags, "rebalance-error")
		}
		if sdSet(s.readd) != "-" {
			tags = append(tags, "re-registered")
		}
		c.E.EndCase(len(s.jts) >= 2, tags...)
	}
	c.Extra["scenario_wall_s"] = 18.75
}
