package main

// Stream "c08": property C08 (a server-requested rollback is honoured without
// replaying or skipping).  The REAL couchbase.NewClient(cfg).OpenStream runs
// against the simulated node (harness/sim), which is scripted per case to answer
// the first DCP_STREAM_REQ (ROLLBACK(R) / success / error), the failover-log
// query (log / error) and the second DCP_STREAM_REQ (success with a second log /
// error / another ROLLBACK); then the node streams a generated event sequence,
// which reaches a REAL couchbase.NewObserver whose listener records what is
// delivered.  One op line per case (self-contained, replayable):
//
//   rb-case LATEST UUID F SS SE A1 Q LOG A2 LOG2 EVS   =>   ok|err REQS DELIVERED
//
// (grammar: lean/GoDcp/Driver/Rollback.lean, hRbCase).  One client / one pair of
// connections serves all cases; vBuckets are used round-robin and closed between
// cases; the last vBucket carries the fence sentinels (DESIGN §3.3).

import (
	"bufio"
	"encoding/binary"
	"fmt"
	"os"
	"strconv"
	"strings"
	"sync"
	"time"

	"github.com/Trendyol/go-dcp/couchbase"
	"github.com/Trendyol/go-dcp/models"
	"github.com/Trendyol/go-dcp/tracing"
	"github.com/couchbase/gocbcore/v10"
	"github.com/couchbase/gocbcore/v10/memd"

	"verifharness/sim"
)

func init() { props["c08"] = runC08 }

const rbWorkVbs = 8 // working vBuckets 0..7; vBucket 8 = fence

type rbEntry struct{ uuid, seq uint64 }

type rbEvent struct {
	kind string // mk sa mu de ex sy
	a, b uint64 // mk: start,end ; others: a = seq
}

type rbCase struct {
	latest, uuid, f, ss, se uint64
	a1, a2                  string // ok | err | rb
	r1, r2                  uint64 // rollback seqnos when a1/a2 == rb
	qok                     bool
	log, log2               []rbEntry
	evs                     []rbEvent
}

func rbLogStr(l []rbEntry) string {
	if len(l) == 0 {
		return "-"
	}
	var p []string
	for _, e := range l {
		p = append(p, fmt.Sprintf("%d:%d", e.uuid, e.seq))
	}
	return strings.Join(p, ",")
}

func rbAnsStr(a string, r uint64) string {
	if a == "rb" {
		return fmt.Sprintf("rb:%d", r)
	}
	return a
}

func (c *rbCase) op() string {
	var ev []string
	for _, e := range c.evs {
		if e.kind == "mk" {
			ev = append(ev, fmt.Sprintf("mk:%d:%d", e.a, e.b))
		} else {
			ev = append(ev, fmt.Sprintf("%s:%d", e.kind, e.a))
		}
	}
	evs := "-"
	if len(ev) > 0 {
		evs = strings.Join(ev, ",")
	}
	q := "q:err"
	if c.qok {
		q = "q:ok"
	}
	return fmt.Sprintf("rb-case %d %d %d %d %d %s %s %s %s %s %s", c.latest, c.uuid, c.f, c.ss, c.se,
		rbAnsStr(c.a1, c.r1), q, rbLogStr(c.log), rbAnsStr(c.a2, c.r2), rbLogStr(c.log2), evs)
}

func rbParseLog(s string) ([]rbEntry, bool) {
	if s == "-" {
		return nil, true
	}
	var out []rbEntry
	for _, it := range strings.Split(s, ",") {
		p := strings.Split(it, ":")
		if len(p) != 2 {
			return nil, false
		}
		u, e1 := strconv.ParseUint(p[0], 10, 64)
		q, e2 := strconv.ParseUint(p[1], 10, 64)
		if e1 != nil || e2 != nil {
			return nil, false
		}
		out = append(out, rbEntry{u, q})
	}
	return out, true
}

func rbParseAns(s string) (string, uint64, bool) {
	if s == "ok" || s == "err" {
		return s, 0, true
	}
	if strings.HasPrefix(s, "rb:") {
		r, err := strconv.ParseUint(s[3:], 10, 64)
		return "rb", r, err == nil
	}
	return "", 0, false
}

func rbParse(op string) (*rbCase, bool) {
	t := strings.Fields(op)
	if len(t) != 12 || t[0] != "rb-case" {
		return nil, false
	}
	c := &rbCase{}
	nums := []*uint64{&c.latest, &c.uuid, &c.f, &c.ss, &c.se}
	for i, p := range nums {
		v, err := strconv.ParseUint(t[1+i], 10, 64)
		if err != nil {
			return nil, false
		}
		*p = v
	}
	var ok bool
	if c.a1, c.r1, ok = rbParseAns(t[6]); !ok {
		return nil, false
	}
	switch t[7] {
	case "q:ok":
		c.qok = true
	case "q:err":
	default:
		return nil, false
	}
	if c.log, ok = rbParseLog(t[8]); !ok {
		return nil, false
	}
	if c.a2, c.r2, ok = rbParseAns(t[9]); !ok {
		return nil, false
	}
	if c.log2, ok = rbParseLog(t[10]); !ok {
		return nil, false
	}
	if t[11] != "-" {
		for _, it := range strings.Split(t[11], ",") {
			p := strings.Split(it, ":")
			var e rbEvent
			var err1, err2 error
			switch {
			case len(p) == 3 && p[0] == "mk":
				e.kind = "mk"
				e.a, err1 = strconv.ParseUint(p[1], 10, 64)
				e.b, err2 = strconv.ParseUint(p[2], 10, 64)
			case len(p) == 2 && (p[0] == "sa" || p[0] == "mu" || p[0] == "de" || p[0] == "ex" || p[0] == "sy"):
				e.kind = p[0]
				e.a, err1 = strconv.ParseUint(p[1], 10, 64)
			default:
				return nil, false
			}
			if err1 != nil || err2 != nil {
				return nil, false
			}
			c.evs = append(c.evs, e)
		}
	}
	return c, true
}

// lethal: the case would kill the process inside gocbcore's goroutines
// (observer.IsInSnapshotMarker panic, or failOverLogs[0] on an empty success
// value); same rule as Rollback.wellSnapped / OpenOut.failstop in the model.
func (c *rbCase) lethal() bool {
	if c.a1 == "ok" && len(c.log) == 0 {
		return true
	}
	if c.a1 == "rb" && c.qok && c.a2 == "ok" && len(c.log2) == 0 {
		return true
	}
	have := false
	var s, e uint64
	for _, ev := range c.evs {
		switch ev.kind {
		case "mk":
			have, s, e = true, ev.a, ev.b
		case "sa":
			have, s, e = true, ev.a, ev.a
		default:
			if !have || ev.a < s || ev.a > e {
				return true
			}
		}
	}
	return false
}

// ---- executor

type rbPlan struct {
	c    *rbCase
	reqs int
	errs [2]memd.StatusCode
}

type rbEnv struct {
	node  *sim.Node
	cl    couchbase.Client
	ft    *sim.FenceTracker
	mu    sync.Mutex
	plans map[uint16]*rbPlan
	next  int
	cfgOK bool
}

func rbToEntries(l []rbEntry) []sim.FailoverEntry {
	out := make([]sim.FailoverEntry, len(l))
	for i, e := range l {
		out[i] = sim.FailoverEntry{UUID: e.uuid, Seq: e.seq}
	}
	return out
}

func (env *rbEnv) hook(r sim.Request) sim.Action {
	if r.Opcode != memd.CmdDcpStreamReq || int(r.Vb) >= rbWorkVbs {
		return sim.Default()
	}
	env.mu.Lock()
	p := env.plans[r.Vb]
	if p == nil {
		env.mu.Unlock()
		return sim.Default()
	}
	p.reqs++
	n, c := p.reqs, p.c
	env.mu.Unlock()
	ans, rb, code := c.a1, c.r1, p.errs[0]
	if n >= 2 {
		ans, rb, code = c.a2, c.r2, p.errs[1]
		env.node.SetFailoverLog(r.Vb, rbToEntries(c.log2))
	}
	switch ans {
	case "rb":
		return sim.Action{Kind: sim.KindStatus, Code: memd.StatusRollback, Value: binary.BigEndian.AppendUint64(nil, rb)}
	case "err":
		return sim.Status(code)
	}
	return sim.Default()
}

func newRbEnv() *rbEnv {
	env := &rbEnv{plans: map[uint16]*rbPlan{}, ft: sim.NewFenceTracker()}
	env.node = sim.New(sim.Options{NumVb: rbWorkVbs + 1})
	if err := env.node.Start(); err != nil {
		panic(err)
	}
	env.node.OnRequest(env.hook)
	cfg := env.node.Config("c08", "file")
	env.cl = couchbase.NewClient(cfg)
	if err := env.cl.Connect(); err != nil {
		panic(err)
	}
	if err := env.cl.DcpConnect(true, false); err != nil {
		panic(err)
	}
	// fence vBucket: opened once, its sentinels are swallowed by the tracker
	fl := env.ft.WrapListener(func(models.ListenerArgs) {}, rbWorkVbs)
	fo := couchbase.NewObserver(cfg, rbWorkVbs, 0, fl, func(models.DcpStreamEndContext) {}, map[uint32]string{}, tracing.NewTracerComponent())
	off := &models.Offset{SnapshotMarker: &models.SnapshotMarker{}, LatestSeqNo: ^uint64(0)}
	if err := env.cl.OpenStream(rbWorkVbs, map[uint32]string{}, off, fo); err != nil {
		panic(err)
	}
	return env
}

func (env *rbEnv) close() {
	env.cl.DcpClose()
	env.cl.Close()
	env.node.Close()
}

// statuses that gocbcore hands straight back to the caller for both opcodes (no retry, no re-route)
var rbErrCodes = []memd.StatusCode{memd.StatusInternalError, memd.StatusKeyNotFound, memd.StatusTmpFail, memd.StatusBusy,
	memd.StatusNotSupported, memd.StatusInvalidArgs, memd.StatusRangeError, memd.StatusOutOfMemory}

func rbOffStr(o *models.Offset) string {
	if o == nil || o.SnapshotMarker == nil {
		return "nil"
	}
	return fmt.Sprintf("%d:%d:%d", o.VbUUID, o.StartSeqNo, o.EndSeqNo)
}

func (env *rbEnv) exec(c *rbCase, pick func(int) int) (res string) {
	if c.lethal() {
		return "lethal"
	}
	defer func() {
		if r := recover(); r != nil {
			res = "panic"
		}
	}()
	vb := uint16(env.next % rbWorkVbs)
	env.next++
	node := env.node
	node.ResetLogs()
	node.SetFailoverLog(vb, rbToEntries(c.log))
	plan := &rbPlan{c: c, errs: [2]memd.StatusCode{rbErrCodes[pick(len(rbErrCodes))], rbErrCodes[pick(len(rbErrCodes))]}}
	env.mu.Lock()
	env.plans[vb] = plan
	env.mu.Unlock()
	if !c.qok {
		node.Script(memd.CmdDcpGetFailoverLog, int(vb), sim.Status(rbErrCodes[pick(len(rbErrCodes))]))
	}
	defer func() {
		node.ClearScripts()
		env.mu.Lock()
		delete(env.plans, vb)
		env.mu.Unlock()
	}()

	var mu sync.Mutex
	var dl []string
	ended := make(chan string, 4)
	listener := func(a models.ListenerArgs) {
		var s string
		switch e := a.Event.(type) {
		case models.DcpSnapshotMarker:
			s = fmt.Sprintf("mk:%d:%d", e.StartSeqNo, e.EndSeqNo)
		case models.DcpMutation:
			s = fmt.Sprintf("mu:%d:%s", e.SeqNo, rbOffStr(e.Offset))
			if e.Offset.SeqNo != e.SeqNo {
				s += ":badseq"
			}
		case models.DcpDeletion:
			s = fmt.Sprintf("de:%d:%s", e.SeqNo, rbOffStr(e.Offset))
			if e.Offset.SeqNo != e.SeqNo {
				s += ":badseq"
			}
		case models.DcpExpiration:
			s = fmt.Sprintf("ex:%d:%s", e.SeqNo, rbOffStr(e.Offset))
			if e.Offset.SeqNo != e.SeqNo {
				s += ":badseq"
			}
		case models.DcpScopeCreation:
			s = fmt.Sprintf("sy:%d:%s", e.SeqNo, rbOffStr(e.Offset))
			if e.Offset.SeqNo != e.SeqNo {
				s += ":badseq"
			}
		case models.DcpSeqNoAdvanced:
			s = fmt.Sprintf("sa:%d:%s", e.SeqNo, rbOffStr(e.Offset))
			if e.Offset.SeqNo != e.SeqNo {
				s += ":badseq"
			}
		default:
			s = fmt.Sprintf("other:%T", a.Event)
		}
		mu.Lock()
		dl = append(dl, s)
		mu.Unlock()
	}
	cfg := node.Config("c08", "file")
	obs := couchbase.NewObserver(cfg, vb, c.latest, listener, func(x models.DcpStreamEndContext) { ended <- l2EndName(x.Err) },
		map[uint32]string{}, tracing.NewTracerComponent())
	off := &models.Offset{SnapshotMarker: &models.SnapshotMarker{StartSeqNo: c.ss, EndSeqNo: c.se}, VbUUID: gocbcore.VbUUID(c.uuid), SeqNo: c.f, LatestSeqNo: c.latest}

	err := env.cl.OpenStream(vb, map[uint32]string{}, off, obs)

	// the offset handed to OpenStream is the object the stream keeps as the TRACKED position of the vBucket (stream.openStream passes
	// the entry of s.offsets): opening - with or without a rollback - must leave it alone (C04: only settled events move the position)
	rewritten := off.SnapshotMarker == nil || uint64(off.VbUUID) != c.uuid || off.SeqNo != c.f || off.StartSeqNo != c.ss || off.EndSeqNo != c.se || off.LatestSeqNo != c.latest

	status := "ok"
	if rewritten {
		status = "offset-rewritten"
		if err == nil { // the vBucket is reused by a later case: close the stream that was opened
			if env.cl.CloseStream(vb) == nil {
				select {
				case <-ended:
				case <-time.After(2 * time.Second):
				}
			}
		}
	} else if err != nil {
		status = "err"
	} else {
		for _, ev := range c.evs {
			var perr error
			key := []byte(fmt.Sprintf("k%d", ev.a))
			switch ev.kind {
			case "mk":
				perr = node.PushSnapshot(vb, ev.a, ev.b, 1)
			case "sa":
				perr = node.PushSeqnoAdvanced(vb, ev.a)
			case "mu":
				perr = node.PushMutation(vb, ev.a, 1, 0, 0, 1700000000000000000, 0, key, []byte("{}"), 0)
			case "de":
				perr = node.PushDeletion(vb, ev.a, 2, 1700000000000000000, 0, key, nil, 0)
			case "ex":
				perr = node.PushExpiration(vb, ev.a, 2, 1700000000000000000, 0, key, 0)
			case "sy":
				perr = node.PushSystemEvent(vb, ev.a, memd.StreamEventScopeCreate, 0, []byte("s"), sim.SystemEventValue(1, []uint32{8}, false, 0))
			}
			if perr != nil {
				status = "push-failed"
			}
		}
		if !node.FenceAndWait(rbWorkVbs, env.ft, 10*time.Second) {
			status = "fence-timeout"
		}
		// close the stream; the end event must arrive before the vBucket is reused
		if cerr := env.cl.CloseStream(vb); cerr != nil {
			status = "close-failed"
		} else {
			select {
			case e := <-ended:
				if e != "closed" {
					status = "end-" + e
				}
			case <-time.After(10 * time.Second):
				status = "no-end"
			}
		}
	}
	var reqs []string
	for _, r := range node.StreamReqsOf(vb) {
		reqs = append(reqs, fmt.Sprintf("%d,%d,%d,%d,%d,%d", r.Flags, r.VbUUID, r.Start, r.End, r.SnapStart, r.SnapEnd))
	}
	rs := "-"
	if len(reqs) > 0 {
		rs = strings.Join(reqs, ";")
	}
	mu.Lock()
	ds := "-"
	if len(dl) > 0 {
		ds = strings.Join(dl, ",")
	}
	mu.Unlock()
	return status + " " + rs + " " + ds
}

// ---- generator

func rbBig(r *Rng) uint64 {
	switch r.Intn(4) {
	case 0:
		return 1<<32 + uint64(r.Intn(50))
	case 1:
		return 1<<53 + 1 + uint64(r.Intn(50))
	case 2:
		return 1<<63 + 1 + uint64(r.Intn(50))
	}
	return ^uint64(0) - 200 + uint64(r.Intn(50))
}

func rbGenLog(r *Rng, R uint64, wellFormed bool) []rbEntry {
	n := 1 + r.Intn(8)
	uu := func(i int) uint64 {
		if r.Chance(10) {
			return rbBig(r)
		}
		return uint64(100*(i+1) + r.Intn(50))
	}
	var l []rbEntry
	if wellFormed {
		// descending starts, oldest = 0; place R relative to the starts in all ways
		starts := map[uint64]bool{0: true}
		cands := []uint64{R, R + 1, R + 2, R + 10}
		if R > 0 {
			cands = append(cands, R-1, R/2)
		}
		for len(starts) < n {
			var s uint64
			if r.Chance(60) {
				s = cands[r.Intn(len(cands))]
			} else {
				s = uint64(r.Intn(int(rbMinU(R+20, 1<<20)) + 1))
			}
			starts[s] = true
			if len(starts) >= 12 {
				break
			}
		}
		var ss []uint64
		for s := range starts {
			ss = append(ss, s)
		}
		// sort descending
		for i := range ss {
			for j := i + 1; j < len(ss); j++ {
				if ss[j] > ss[i] {
					ss[i], ss[j] = ss[j], ss[i]
				}
			}
		}
		if len(ss) > n {
			ss = append(ss[:n-1], 0)
		}
		for i, s := range ss {
			l = append(l, rbEntry{uu(len(ss) - i), s})
		}
		return l
	}
	for i := 0; i < n; i++ {
		var s uint64
		switch r.Intn(6) {
		case 0:
			s = R
		case 1:
			s = R + 1 + uint64(r.Intn(5))
		case 2:
			s = 0
		case 3:
			s = rbBig(r)
		default:
			s = uint64(r.Intn(int(rbMinU(R+10, 1<<20)) + 1))
		}
		u := uu(i)
		if len(l) > 0 && r.Chance(10) {
			u = l[r.Intn(len(l))].uuid // duplicate uuid
		}
		l = append(l, rbEntry{u, s})
	}
	return l
}

func rbMinU(a, b uint64) uint64 {
	if a < b {
		return a
	}
	return b
}

// rbGenEvents builds a server sequence after a rollback to R for a consumer at F.
// mode: 0 none, 1 contains F exactly, 2 skips F, 3 all ≤ F, 4 all > F, 5 free
func rbGenEvents(r *Rng, R, F uint64, mode int) (evs []rbEvent, nonInc bool) {
	if mode == 0 || F > ^uint64(0)-400 || R > ^uint64(0)-400 {
		return nil, false
	}
	var seqs []uint64
	n := 1 + r.Intn(10)
	cur := R
	switch mode {
	case 4:
		if F > cur {
			cur = F
		}
	}
	for i := 0; i < n; i++ {
		cur += 1 + uint64(r.Intn(3))
		seqs = append(seqs, cur)
	}
	switch mode {
	case 1: // make sure F itself is streamed (if it lies after R)
		if F > R {
			var out []uint64
			done := false
			for _, s := range seqs {
				if !done && s >= F {
					out = append(out, F)
					done = true
					if s == F {
						continue
					}
				}
				out = append(out, s)
			}
			if !done {
				out = append(out, F)
			}
			seqs = out
		}
	case 2:
		var out []uint64
		for _, s := range seqs {
			if s != F {
				out = append(out, s)
			}
		}
		seqs = out
	case 3:
		var out []uint64
		for _, s := range seqs {
			if s <= F {
				out = append(out, s)
			}
		}
		seqs = out
	}
	if len(seqs) >= 2 && r.Chance(6) {
		i := r.Intn(len(seqs) - 1)
		seqs[i], seqs[i+1] = seqs[i+1], seqs[i]
		nonInc = true
	}
	kinds := []string{"mu", "mu", "mu", "de", "ex", "sy"}
	i := 0
	first := true
	for i < len(seqs) {
		k := 1 + r.Intn(4)
		if i+k > len(seqs) {
			k = len(seqs) - i
		}
		lo, hi := seqs[i], seqs[i]
		for _, s := range seqs[i : i+k] {
			if s < lo {
				lo = s
			}
			if s > hi {
				hi = s
			}
		}
		start, end := lo, hi
		switch r.Intn(4) {
		case 0:
			if first {
				start = R // a real server's first marker after a rollback starts at R
			}
		case 1:
			if start > 0 {
				start--
			}
		}
		if start > lo {
			start = lo
		}
		if r.Chance(40) {
			end += uint64(r.Intn(3))
		}
		// force boundary positions of F now and then
		if r.Chance(15) && F <= lo {
			start = F
		}
		if r.Chance(15) && F >= hi {
			end = F
		}
		evs = append(evs, rbEvent{kind: "mk", a: start, b: end})
		for _, s := range seqs[i : i+k] {
			evs = append(evs, rbEvent{kind: kinds[r.Intn(len(kinds))], a: s})
		}
		i += k
		first = false
		if r.Chance(12) {
			evs = append(evs, rbEvent{kind: "sa", a: end + 1})
			// the next gated event needs a fresh marker: guaranteed, every chunk starts with one
		}
	}
	if len(evs) == 0 && r.Chance(50) {
		evs = append(evs, rbEvent{kind: "mk", a: R, b: R + 3})
	}
	return evs, nonInc
}

func rbFPos(c *rbCase) string {
	var lo, hi uint64
	any := false
	pos := "F-outside-markers"
	for _, e := range c.evs {
		if e.kind != "mk" {
			continue
		}
		if !any || e.a < lo {
			lo = e.a
		}
		if !any || e.b > hi {
			hi = e.b
		}
		any = true
		switch {
		case c.f == e.a && c.f == e.b:
			return "F=marker-start=end"
		case c.f == e.a:
			pos = "F=marker-start"
		case c.f == e.b:
			pos = "F=marker-end"
		case c.f > e.a && c.f < e.b && pos == "F-outside-markers":
			pos = "F-inside-marker"
		}
	}
	if !any {
		return "no-markers"
	}
	if pos == "F-outside-markers" {
		if c.f < lo {
			return "F-below-all-markers"
		}
		if c.f > hi {
			return "F-above-all-markers"
		}
		return "F-between-markers"
	}
	return pos
}

func rbGen(r *Rng) (*rbCase, []string) {
	c := &rbCase{qok: true, a1: "rb", a2: "ok"}
	var tags []string
	if r.Chance(12) {
		c.f = rbBig(r)
	} else {
		c.f = uint64(r.Intn(41))
	}
	switch r.Intn(6) {
	case 0:
		c.r1 = 0
	case 1:
		c.r1 = c.f
		tags = append(tags, "R=F")
	case 2:
		if c.f > 0 {
			c.r1 = c.f - 1
		}
	default:
		c.r1 = uint64(r.Intn(int(rbMinU(c.f, 1<<20)) + 1))
		if c.f > 1<<20 && r.Chance(50) {
			c.r1 = c.f - uint64(r.Intn(30))
		}
	}
	if r.Chance(4) && c.f < ^uint64(0)-500 {
		c.r1 = c.f + 1 + uint64(r.Intn(5))
		tags = append(tags, "R>F(outside-quantifier)")
	}
	// checkpointed snapshot around F
	c.ss, c.se = c.f, c.f
	switch r.Intn(4) {
	case 1:
		c.se = c.f + uint64(r.Intn(5)) + 1
	case 2:
		c.ss = c.f - rbMinU(c.f, uint64(r.Intn(5)+1))
	case 3:
		c.ss = c.f - rbMinU(c.f, uint64(r.Intn(5)+1))
		c.se = c.f + uint64(r.Intn(5)) + 1
	}
	if c.se < c.f { // overflow near 2^64
		c.se = c.f
	}
	switch r.Intn(5) {
	case 0:
		c.latest = c.f
	case 1:
		c.latest = c.f + uint64(r.Intn(100))
		if c.latest < c.f {
			c.latest = ^uint64(0)
		}
	default:
		c.latest = ^uint64(0)
	}
	if r.Chance(10) {
		c.uuid = rbBig(r)
	} else {
		c.uuid = uint64(1 + r.Intn(900))
	}
	wf := r.Chance(60)
	c.log = rbGenLog(r, c.r1, wf)
	if wf {
		tags = append(tags, "log-wellformed")
	} else {
		tags = append(tags, "log-illformed")
	}
	tags = append(tags, fmt.Sprintf("log-len-%d", len(c.log)))
	switch r.Intn(5) {
	case 0: // a failover happened in between: new head
		c.log2 = append([]rbEntry{{uuid: 7000 + uint64(r.Intn(100)), seq: c.r1 + uint64(r.Intn(3))}}, c.log...)
		tags = append(tags, "log2-new-head")
	case 1:
		c.log2 = rbGenLog(r, c.r1, r.Bool())
		tags = append(tags, "log2-unrelated")
	default:
		c.log2 = c.log
	}
	switch x := r.Intn(100); {
	case x < 5:
		c.a1 = "ok"
	case x < 10:
		c.a1 = "err"
	}
	if r.Chance(8) {
		c.qok = false
	}
	switch x := r.Intn(100); {
	case x < 7:
		c.a2 = "err"
	case x < 13:
		c.a2 = "rb"
		c.r2 = uint64(r.Intn(int(rbMinU(c.r1, 1<<20)) + 1))
	}
	if r.Chance(3) {
		c.log = nil // empty answer to the failover-log query (a1 must not be ok then)
		if c.a1 == "ok" {
			c.a1 = "rb"
		}
		tags = append(tags, "log-empty")
	}
	mode := r.Intn(6)
	var nonInc bool
	c.evs, nonInc = rbGenEvents(r, c.r1, c.f, mode)
	tags = append(tags, []string{"evs-none", "evs-with-F", "evs-skip-F", "evs-all<=F", "evs-all>F", "evs-free"}[mode])
	if nonInc {
		tags = append(tags, "nonincreasing(outside-quantifier)")
	}
	tags = append(tags, "a1-"+c.a1)
	if c.a1 == "rb" {
		if !c.qok {
			tags = append(tags, "query-fails")
		} else {
			tags = append(tags, "a2-"+c.a2)
		}
		if c.qok && c.a2 == "ok" {
			tags = append(tags, rbFPos(c))
		}
	}
	return c, tags
}

func rbMix(x uint64) uint64 {
	z := x*0xD1B54A32D192ED03 + 0x8CB92BA72F3D8DD7
	z = (z ^ (z >> 30)) * 0xBF58476D1CE4E5B9
	z = (z ^ (z >> 27)) * 0x94D049BB133111EB
	return z ^ (z >> 31)
}

func runC08(c *Ctx) {
	env := newRbEnv()
	defer env.close()
	e := c.E
	one := func(k *rbCase, pick func(int) int, tags ...string) {
		op := k.op()
		// the executor works from the parsed op line, so that a replay takes the identical path
		p, ok := rbParse(op)
		if !ok {
			panic("generator produced an unparsable op: " + op)
		}
		res := env.exec(p, pick)
		e.Line(op, res)
		nontrivial := k.a1 == "rb" && k.qok && k.a2 == "ok" && (len(k.evs) > 0 || len(k.log) >= 2)
		e.EndCase(nontrivial, tags...)
	}
	if replayFile != "" {
		f, err := os.Open(replayFile)
		if err != nil {
			panic(err)
		}
		defer f.Close()
		sc := bufio.NewScanner(f)
		sc.Buffer(make([]byte, 1<<20), 1<<24)
		for sc.Scan() {
			op := strings.SplitN(sc.Text(), "\t", 2)[0]
			if strings.TrimSpace(op) == "" {
				continue
			}
			p, ok := rbParse(op)
			if !ok {
				e.Line(op, "bad-op")
				e.EndCase(false, "replay-bad-op")
				continue
			}
			e.Line(op, env.exec(p, func(int) int { return 0 }))
			e.EndCase(true, "replay")
		}
		return
	}
	// main.go seeds SplitMix64 with seed*gamma, so consecutive seeds yield the SAME sequence shifted
	// by one draw; derive a well-separated state from the seed instead (still the only randomness)
	rng := &Rng{s: rbMix(c.Seed)}
	pick := func(n int) int { return rng.Intn(n) }

	// A. exhaustive small domain for the branch choice: every log of 1..3 entries with
	//    starts in 0..3 (well- and ill-formed alike), every R in 0..4, F = 4, no events
	//    (thorough: 1..4 entries, starts 0..4, R in 0..5)
	maxStart := uint64(c.N(3, 4))
	var logs [][]rbEntry
	var rec func(cur []rbEntry)
	rec = func(cur []rbEntry) {
		if len(cur) > 0 {
			logs = append(logs, append([]rbEntry(nil), cur...))
		}
		if len(cur) == c.N(3, 4) {
			return
		}
		for s := uint64(0); s <= maxStart; s++ {
			rec(append(cur, rbEntry{uuid: uint64(11 * (len(cur) + 1)), seq: s}))
		}
	}
	rec(nil)
	for _, l := range logs {
		for R := uint64(0); R <= maxStart+1; R++ {
			k := &rbCase{latest: ^uint64(0), uuid: 5, f: maxStart + 1, ss: 0, se: maxStart + 1, a1: "rb", r1: R, qok: true, log: l, a2: "ok", log2: l}
			one(k, pick, "exhaustive-branch")
		}
	}
	c.Extra["exhaustive_branch_logs"] = len(logs)

	// B. directed cases around the catch-up boundary: every position of F relative to one
	//    re-sent snapshot [s,e] and its events, for small numbers
	for F := uint64(0); F <= 6; F++ {
		for R := uint64(0); R <= F; R += 2 {
			for s := R; s <= R+2; s++ {
				for ln := uint64(0); ln <= 4; ln += 2 {
					k := &rbCase{latest: ^uint64(0), uuid: 9, f: F, ss: F, se: F, a1: "rb", r1: R, qok: true,
						log: []rbEntry{{70, R + 1}, {60, 0}}, a2: "ok", log2: []rbEntry{{80, R}, {70, 0}}}
					k.evs = append(k.evs, rbEvent{kind: "mk", a: s, b: s + ln})
					for q := s; q <= s+ln; q++ {
						if q > R {
							k.evs = append(k.evs, rbEvent{kind: "mu", a: q})
						}
					}
					one(k, pick, "directed-boundary", rbFPos(k))
				}
			}
		}
	}

	// C. random structured cases
	for i := 0; i < c.N(6000, 150000); i++ {
		k, tags := rbGen(rng)
		one(k, pick, tags...)
	}
}
