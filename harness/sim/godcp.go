package sim

import (
	"bytes"
	"strconv"
	"sync"
	"time"

	"github.com/Trendyol/go-dcp/config"
	"github.com/Trendyol/go-dcp/models"
)

// Config returns a go-dcp configuration that points at this Node and is fast
// and quiet: static membership 1/1, rollback mitigation, API and health check
// off, short connection time-outs.  groupName becomes Dcp.Group.Name,
// metadataType is "file" or "couchbase" ("" = couchbase, go-dcp's default);
// callers adjust the returned value freely before use (ApplyDefaults has
// already been applied).
func (n *Node) Config(groupName, metadataType string) *config.Dcp {
	cfg := &config.Dcp{Hosts: []string{n.HTTPAddr()}, BucketName: n.opt.Bucket}
	cfg.Dcp.Group.Name = groupName
	cfg.Metadata.Type = metadataType
	cfg.Dcp.Group.Membership.Type = "static"
	cfg.ConnectionTimeout = 10 * time.Second
	cfg.Dcp.ConnectionTimeout = 10 * time.Second
	cfg.Logging.Level = "panic" // only used when the process has not installed logger.Log itself
	cfg.ApplyDefaults()
	cfg.RollbackMitigation.Disabled = true
	cfg.API.Disabled = true
	cfg.HealthCheck.Disabled = true
	return cfg
}

// ---------------------------------------------------------------- fence (DESIGN.md §3.3)
//
// gocbcore processes DCP data packets on one queue goroutine per connection,
// not on the reader goroutine, so a server NOOP is not a fence.  The fence is a
// sentinel mutation pushed on a vBucket of the same connection (a dedicated
// extra vBucket when the vBuckets under test must not see foreign events):
// when the consumer has seen sentinel k, everything pushed before it on that
// connection has been processed completely.

// FenceKeyPrefix starts every sentinel key (it is not a go-dcp internal prefix).
const FenceKeyPrefix = "__verif_fence__:"

// Fence pushes one sentinel (own snapshot marker [s,s] + mutation at s, where
// s counts up per Node) on vb's open stream(s) and returns its token.
func (n *Node) Fence(vb uint16) (uint64, error) {
	n.mu.Lock()
	n.fenceCtr++
	tok := n.fenceCtr
	n.mu.Unlock()
	if err := n.PushSnapshot(vb, tok, tok, 1); err != nil {
		return 0, err
	}
	key := []byte(FenceKeyPrefix + strconv.FormatUint(tok, 10))
	return tok, n.PushMutation(vb, tok, 1, 0, 0, 0, 0, key, nil, 0)
}

// FenceTracker is the consumer-side half: wrap the listener / consumer with it
// so that sentinels are recorded and stripped before the trace is compared.
type FenceTracker struct {
	mu   sync.Mutex
	seen uint64
	ch   chan struct{}
}

func NewFenceTracker() *FenceTracker { return &FenceTracker{ch: make(chan struct{})} }

// SentinelToken reports whether ev (an event value as handed to a go-dcp
// listener) is a sentinel, and its token.
func SentinelToken(ev interface{}) (uint64, bool) {
	var key []byte
	switch e := ev.(type) {
	case models.DcpMutation:
		if e.DcpMutation == nil {
			return 0, false
		}
		key = e.Key
	case *models.DcpMutation:
		if e == nil || e.DcpMutation == nil {
			return 0, false
		}
		key = e.Key
	default:
		return 0, false
	}
	if !bytes.HasPrefix(key, []byte(FenceKeyPrefix)) {
		return 0, false
	}
	t, err := strconv.ParseUint(string(key[len(FenceKeyPrefix):]), 10, 64)
	return t, err == nil
}

// Seen records a sentinel token (monotone).
func (t *FenceTracker) Seen(tok uint64) {
	t.mu.Lock()
	if tok > t.seen {
		t.seen = tok
	}
	close(t.ch)
	t.ch = make(chan struct{})
	t.mu.Unlock()
}

// Wait blocks until a sentinel with token >= tok was seen or the time-out expired.
func (t *FenceTracker) Wait(tok uint64, timeout time.Duration) bool {
	deadline := time.NewTimer(timeout)
	defer deadline.Stop()
	for {
		t.mu.Lock()
		ok, ch := t.seen >= tok, t.ch
		t.mu.Unlock()
		if ok {
			return true
		}
		select {
		case <-ch:
		case <-deadline.C:
			return false
		}
	}
}

// WrapListener is for observer-level consumers (couchbase.NewObserver listener):
// sentinels are swallowed, and so are the snapshot markers of the dedicated
// fence vBuckets listed in fenceVbs; everything else is passed on.
func (t *FenceTracker) WrapListener(next func(models.ListenerArgs), fenceVbs ...uint16) func(models.ListenerArgs) {
	return func(a models.ListenerArgs) {
		if m, ok := a.Event.(models.DcpSnapshotMarker); ok {
			for _, vb := range fenceVbs {
				if m.VbID == vb {
					return
				}
			}
		}
		if tok, ok := SentinelToken(a.Event); ok {
			t.Seen(tok)
			return
		}
		next(a)
	}
}

// WrapConsumer is for dcp.NewDcp listeners: sentinels are acknowledged and swallowed.
func (t *FenceTracker) WrapConsumer(next models.Listener) models.Listener {
	return func(ctx *models.ListenerContext) {
		if tok, ok := SentinelToken(ctx.Event); ok {
			ctx.Ack()
			t.Seen(tok)
			return
		}
		next(ctx)
	}
}

// FenceAndWait = Fence(vb) + tracker.Wait.
func (n *Node) FenceAndWait(vb uint16, t *FenceTracker, timeout time.Duration) bool {
	tok, err := n.Fence(vb)
	if err != nil {
		return false
	}
	return t.Wait(tok, timeout)
}
