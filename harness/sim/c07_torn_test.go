package sim_test

import (
	"sync/atomic"
	"testing"
	"time"

	"github.com/Trendyol/go-dcp/couchbase"
	"github.com/Trendyol/go-dcp/models"

	"verifharness/sim"
)

// stress: can a dispatch be computed from a half-updated entry (SetSeqNo done, SetVbUUID not yet)?
func TestTornReport(t *testing.T) {
	const nvb = 64
	n := sim.New(sim.Options{NumVb: nvb, Replicas: 1, KVNodes: 2})
	for vb := 0; vb < nvb; vb++ {
		n.SetPersist(0, uint16(vb), 1, 100)
		n.SetPersist(1, uint16(vb), 1, 10)
	}
	if err := n.Start(); err != nil {
		t.Fatal(err)
	}
	defer n.Close()
	cl := connect(t, n)
	defer cl.Close()
	defer cl.DcpClose()
	cfg := n.Config("g", "couchbase")
	cfg.RollbackMitigation.Disabled = false
	cfg.RollbackMitigation.Interval = time.Millisecond
	vbs := make([]uint16, nvb)
	for i := range vbs {
		vbs[i] = uint16(i)
	}
	var total, torn atomic.Int64
	var sample atomic.Uint64
	rm := couchbase.NewRollbackMitigation(cl, cfg, vbs, func(p *models.PersistSeqNo) {
		total.Add(1)
		if p.SeqNo >= 100 && p.SeqNo < 500 {
			torn.Add(1)
			sample.Store(uint64(p.SeqNo))
		}
	})
	rm.Start()
	stop := time.Now().Add(25 * time.Second)
	x := uint64(100)
	for phase := 0; time.Now().Before(stop); phase++ {
		x++
		if x >= 499 {
			x = 100
		}
		for vb := 0; vb < nvb; vb++ {
			n.SetPersist(0, uint16(vb), 1, x) // copy A: branch 1, seq x in [100,499)
			if phase%2 == 0 {
				n.SetPersist(1, uint16(vb), 1, 10) // copy B: branch 1, seq 10
			} else {
				n.SetPersist(1, uint16(vb), 2, 500) // copy B: branch 2, seq 500
			}
		}
		time.Sleep(1500 * time.Microsecond)
	}
	rm.Stop()
	t.Logf("dispatches=%d, of which in [100,500) (impossible with atomic callbacks: only 0 and 10 are)=%d sample=%d observes=%d",
		total.Load(), torn.Load(), sample.Load(), len(n.Observes()))
}
