package sim_test

// Self-test of the simulated node against the real go-dcp client
// (cd harness && go test ./sim/).  Not part of any property check.

import (
	"runtime"
	"sync"
	"testing"
	"time"

	"github.com/Trendyol/go-dcp/couchbase"
	"github.com/Trendyol/go-dcp/logger"
	"github.com/Trendyol/go-dcp/models"
	"github.com/couchbase/gocbcore/v10/memd"
	"github.com/sirupsen/logrus"

	"verifharness/sim"
)

func init() {
	l := logrus.New()
	l.SetLevel(logrus.PanicLevel)
	logger.Log = &logger.Loggers{Logrus: l}
}

func connect(t *testing.T, n *sim.Node) couchbase.Client {
	t.Helper()
	cl := couchbase.NewClient(n.Config("g", "couchbase"))
	if err := cl.Connect(); err != nil {
		t.Fatal(err)
	}
	if err := cl.DcpConnect(true, false); err != nil {
		t.Fatal(err)
	}
	return cl
}

func TestParallelInstancesAndLeak(t *testing.T) {
	time.Sleep(50 * time.Millisecond)
	var wg sync.WaitGroup
	for i := 0; i < 8; i++ {
		wg.Add(1)
		go func() {
			defer wg.Done()
			n := sim.New(sim.Options{NumVb: 8})
			if err := n.Start(); err != nil {
				t.Error(err)
				return
			}
			cl := connect(t, n)
			if cl.GetNumVBuckets() != 8 {
				t.Error("numvb")
			}
			cl.DcpClose()
			cl.Close()
			n.Close()
		}()
	}
	wg.Wait()
	// the Node itself must not leave goroutines behind (gocbcore's own wind down asynchronously)
	deadline := time.Now().Add(5 * time.Second)
	for {
		buf := make([]byte, 1<<20)
		buf = buf[:runtime.Stack(buf, true)]
		if !containsSim(string(buf)) {
			break
		}
		if time.Now().After(deadline) {
			t.Fatalf("sim goroutines still alive:\n%s", buf)
		}
		time.Sleep(20 * time.Millisecond)
	}
}

func containsSim(s string) bool {
	for i := 0; i+len("verifharness/sim.(*Node)") <= len(s); i++ {
		if s[i:i+len("verifharness/sim.(*Node)")] == "verifharness/sim.(*Node)" {
			return true
		}
	}
	return false
}

func TestThreeNodeObserve(t *testing.T) {
	n := sim.New(sim.Options{NumVb: 2, Replicas: 2})
	if err := n.Start(); err != nil {
		t.Fatal(err)
	}
	defer n.Close()
	cl := connect(t, n)
	defer cl.Close()
	defer cl.DcpClose()
	cfg := n.Config("g", "couchbase")
	cfg.RollbackMitigation.Disabled = false
	cfg.RollbackMitigation.Interval = 20 * time.Millisecond
	var mu sync.Mutex
	last := map[uint16]uint64{}
	rm := couchbase.NewRollbackMitigation(cl, cfg, []uint16{0, 1}, func(p *models.PersistSeqNo) {
		mu.Lock()
		last[p.VbID] = uint64(p.SeqNo)
		mu.Unlock()
	})
	rm.Start()
	defer rm.Stop()
	u := sim.DefaultUUID(0)
	n.SetPersist(0, 0, u, 10)
	n.SetPersist(1, 0, u, 7)
	n.SetPersist(2, 0, u, 9)
	ok := false
	for i := 0; i < 100 && !ok; i++ {
		time.Sleep(20 * time.Millisecond)
		mu.Lock()
		ok = last[0] == 7
		mu.Unlock()
	}
	if !ok {
		t.Fatalf("min persisted seqno not dispatched: %v; observes=%d", last, len(n.Observes()))
	}
}

func TestCollectionsAndScripts(t *testing.T) {
	n := sim.New(sim.Options{Collections: true, CollectionIDs: map[string]uint32{"_default._default": 0, "_default.c1": 9}})
	if err := n.Start(); err != nil {
		t.Fatal(err)
	}
	defer n.Close()
	cfg := n.Config("g", "couchbase")
	cfg.CollectionNames = []string{"c1"}
	cl := couchbase.NewClient(cfg)
	if err := cl.Connect(); err != nil {
		t.Fatal(err)
	}
	if err := cl.DcpConnect(true, false); err != nil {
		t.Fatal(err)
	}
	defer cl.Close()
	defer cl.DcpClose()
	ids, err := cl.GetCollectionIDs("_default", []string{"c1"})
	if err != nil || ids[9] != "c1" {
		t.Fatalf("collection ids %v %v", ids, err)
	}
	// silence then drop: the call must come back with an error once the connection is dropped
	n.Script(memd.CmdDcpGetFailoverLog, sim.AnyVb, sim.Silent())
	done := make(chan error, 1)
	go func() { _, err := cl.GetFailOverLogs(0); done <- err }()
	select {
	case <-done:
		t.Fatal("silent request was answered")
	case <-time.After(150 * time.Millisecond):
	}
	n.DropConns(-1, true)
	select {
	case err := <-done:
		if err == nil {
			t.Fatal("expected an error after the connection drop")
		}
	case <-time.After(5 * time.Second):
		t.Fatal("request did not fail after connection drop")
	}
}
