package sim

// SetRevision publishes the current cluster config under the revision (revEpoch, rev) - also one that is
// OLDER than the one published before (gocbcore and go-dcp must ignore it) or one of a NEWER revision epoch
// whose rev counter restarted (quorum-loss fail-over: higher epoch, smaller rev) - and pushes it to every
// open streaming connection; CCCP polls see it as well.  Later SetReplicaMap / BumpConfig calls count on
// from rev.  Before Start() it only sets the revision the first config carries.
func (n *Node) SetRevision(epoch, rev int) {
	n.mu.Lock()
	n.epoch, n.rev = epoch, rev-1
	n.bumpLocked()
	n.mu.Unlock()
}

// SetReplicaMapRevision changes vb's row of the vBucket map and publishes the result as revision (revEpoch, rev).
func (n *Node) SetReplicaMapRevision(vb uint16, nodes []int, epoch, rev int) {
	n.mu.Lock()
	n.replicaMap[vb] = append([]int(nil), nodes...)
	n.epoch, n.rev = epoch, rev-1
	n.bumpLocked()
	n.mu.Unlock()
}

// Revision returns the (revEpoch, rev) of the config published last.
func (n *Node) Revision() (epoch, rev int) {
	n.mu.Lock()
	defer n.mu.Unlock()
	return n.epoch, n.rev
}
