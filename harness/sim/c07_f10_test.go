package sim_test

// Reproductions for property C07 that are NOT part of the check (cd harness && go test ./sim/ -run "TestF10|TestTornReport" -v).

import (
	"sync/atomic"
	"testing"
	"time"

	dcp "github.com/Trendyol/go-dcp"
	"github.com/Trendyol/go-dcp/models"
	"github.com/couchbase/gocbcore/v10/memd"

	"verifharness/sim"
)

func runF10(t *testing.T, delayLoad bool) (before, after int64) {
	n := sim.New(sim.Options{NumVb: 1, Replicas: 0})
	if err := n.Start(); err != nil {
		t.Fatal(err)
	}
	defer n.Close()
	n.SetHighSeqno(0, 3)
	n.SetPersist(0, 0, sim.DefaultUUID(0), 10) // everything up to 10 is persisted on the only copy
	cfg := n.Config("f10", "couchbase")
	cfg.RollbackMitigation.Disabled = false
	cfg.RollbackMitigation.Interval = 20 * time.Millisecond
	if delayLoad {
		// checkpoint.Load (between rollbackMitigation.Start() and the creation of the observers) takes 300 ms
		n.OnRequest(func(r sim.Request) sim.Action {
			if r.Opcode == memd.CmdSubDocMultiLookup || r.Opcode == memd.CmdGet {
				return sim.Delay(300 * time.Millisecond)
			}
			return sim.Default()
		})
	} else {
		// control: the first poll happens after Open has finished
		cfg.RollbackMitigation.Interval = 400 * time.Millisecond
	}
	var got atomic.Int64
	d, err := dcp.NewDcp(cfg, func(ctx *models.ListenerContext) {
		got.Add(1)
		ctx.Ack()
	})
	if err != nil {
		t.Fatal(err)
	}
	go d.Start()
	<-d.WaitUntilReady()
	time.Sleep(100 * time.Millisecond)
	for len(n.OpenStreams()) == 0 {
		time.Sleep(10 * time.Millisecond)
	}
	_ = n.PushSnapshot(0, 1, 3, 1)
	for q := uint64(1); q <= 3; q++ {
		_ = n.PushMutation(0, q, 1, 0, 0, 1, 0, []byte("k"), []byte("v"), 0)
	}
	time.Sleep(1500 * time.Millisecond)
	before = got.Load()
	n.SetPersist(0, 0, sim.DefaultUUID(0), 11) // any change of the answer is dispatched
	time.Sleep(1000 * time.Millisecond)
	after = got.Load()
	d.Close()
	return
}

func TestF10(t *testing.T) {
	b, a := runF10(t, true)
	t.Logf("reports before the observers exist: delivered while quiet = %d, after a later change = %d", b, a)
	b2, a2 := runF10(t, false)
	t.Logf("control (first report after Open): delivered while quiet = %d, after a later change = %d", b2, a2)
}
