// Package sim is a simulated Couchbase cluster (1..4 KV nodes + one management
// HTTP endpoint) that is just complete enough for the UNMODIFIED go-dcp /
// gocbcore code to bootstrap, open DCP streams, poll OBSERVE_SEQNO and keep
// checkpoint / membership documents in a KV store (DESIGN.md §3.3, App. A).
//
// All packet IO uses gocbcore's own memd codec.  A Node prints nothing unless
// Options.Debug is set, reads no environment variables and contains no
// scenario: behaviour is scripted by the caller through
//
//   - state setters   (SetHighSeqno, SetFailoverLog, SetRollback, SetPersist,
//     SetReplicaMap, KVPut …),
//   - a request hook  (OnRequest) and FIFO script queues (Script) that decide
//     per request between Default / Status / Delay / Silent / DropConn,
//   - server pushes   (PushSnapshot, PushMutation, … PushStreamEnd, Fence).
//
// Everything the properties talk about is logged and readable through
// accessor methods that return copies (StreamReqs, CloseStreams, KVWrites,
// Controls, Observes, Count).
//
// Many Nodes may live in one process, also concurrently: every Node listens on
// its own ephemeral 127.0.0.1 ports; Close() closes the listeners and every
// accepted connection and waits for all goroutines of the Node.
package sim

import (
	"encoding/binary"
	"encoding/json"
	"errors"
	"fmt"
	"io"
	"log"
	"net"
	"net/http"
	"os"
	"sort"
	"strings"
	"sync"
	"sync/atomic"
	"time"

	"github.com/couchbase/gocbcore/v10/memd"
)

// ---------------------------------------------------------------- options

// Options configures a Node; zero values select the documented defaults.
type Options struct {
	NumVb          int               // number of vBuckets (default 4)
	Replicas       int               // 0..3 replica copies per vBucket
	KVNodes        int               // number of KV listeners, >= 1 (default Replicas+1); node i serves copy index i
	Bucket         string            // default "b"
	BucketUUID     string            // default "simbucketuuid"
	Collections    bool              // echo the COLLECTIONS hello feature + bucket capability
	CollectionIDs  map[string]uint32 // "scope.collection" -> id for GET_COLLECTION_ID (default: _default._default -> 0)
	Version        string            // GET /pools implementationVersion (default "7.6.0-1000-enterprise")
	BucketType     string            // default "membase"
	StorageBackend string            // default "couchstore"
	// NoStreamEndOnClose: refuse the DCP control
	// send_stream_end_on_client_close_stream and send no STREAM_END after
	// CLOSE_STREAM (gocbcore then synthesises the end event itself).
	NoStreamEndOnClose bool
	Debug              bool      // trace every request to DebugOut
	DebugOut           io.Writer // default os.Stderr (only used when Debug)
}

// ---------------------------------------------------------------- scripted behaviour

// Request is what the OnRequest hook / Script matcher sees.  Byte slices are copies.
type Request struct {
	HTTP         bool   // true: management request, only Path is set
	Path         string // HTTP path
	Node         int    // KV node index the request arrived at
	Conn         int    // connection number (unique per Node)
	DCP          bool   // connection performed DCP_OPEN
	Opcode       memd.CmdCode
	Vb           uint16
	Opaque       uint32
	Cas          uint64
	CollectionID uint32
	Extras       []byte
	Key          []byte
	Value        []byte
}

// ActionKind enumerates the scripted behaviours.
type ActionKind int

const (
	KindDefault  ActionKind = iota // answer as a healthy node would
	KindStatus                     // answer with the given status (HTTP: status code 500 unless HTTPStatus set)
	KindSilent                     // never answer (connection stays open)
	KindDropConn                   // close the connection without answering
)

// Action is the decision for one request.  Wait > 0 delays the action
// (the reply is produced later from a separate goroutine; later requests on the
// same connection are NOT held back).
type Action struct {
	Kind       ActionKind
	Code       memd.StatusCode
	Value      []byte // optional value for KindStatus
	Wait       time.Duration
	HTTPStatus int
}

func Default() Action                    { return Action{Kind: KindDefault} }
func Status(code memd.StatusCode) Action { return Action{Kind: KindStatus, Code: code} }
func Silent() Action                     { return Action{Kind: KindSilent} }
func DropConn() Action                   { return Action{Kind: KindDropConn} }

// Delay answers normally after d.
func Delay(d time.Duration) Action { return Action{Kind: KindDefault, Wait: d} }

// After returns a copy of a that is carried out after d.
func (a Action) After(d time.Duration) Action { a.Wait = d; return a }

// AnyVb is the wildcard for Script.
const AnyVb = -1

// OpHTTP is the pseudo opcode under which HTTP requests are matched by Script
// (Request.HTTP is true; Script's vb argument is ignored, all paths match; use
// OnRequest for per-path decisions).
const OpHTTP = memd.CmdCode(0xff)

type scriptKey struct {
	op memd.CmdCode
	vb int
}

// ---------------------------------------------------------------- logged facts

// FailoverEntry is one failover-log entry; logs are kept newest first (wire order).
type FailoverEntry struct {
	UUID uint64
	Seq  uint64
}

// StreamReq is one DCP_STREAM_REQ as received.
type StreamReq struct {
	Node, Conn int
	Vb         uint16
	Flags      uint32
	Start, End uint64
	VbUUID     uint64
	SnapStart  uint64
	SnapEnd    uint64
	Opaque     uint32
	Value      string // JSON stream filter (collections) or ""
}

// CloseStream is one DCP_CLOSE_STREAM as received.
type CloseStream struct {
	Node, Conn int
	Vb         uint16
}

// KVWrite is one KV write request as received (logged before the CAS check).
type KVWrite struct {
	Op           string // SET ADD REPLACE DELETE MUTATEIN
	Key          string
	CollectionID uint32
	Cas          uint64
	Expiry       uint32
	DocFlags     byte     // MUTATEIN doc flags
	Paths        []string // MUTATEIN paths ("x:" prefix = xattr)
	Status       memd.StatusCode
}

// Control is one DCP_CONTROL key/value.
type Control struct {
	Node, Conn int
	Key, Value string
}

// Observe is one OBSERVE_SEQNO request.
type Observe struct {
	Node int
	Vb   uint16
	UUID uint64
}

// DcpOpen is one DCP_OPEN request.
type DcpOpen struct {
	Node, Conn int
	Name       string
	Flags      uint32
}

type persist struct {
	uuid, seq uint64
	set       bool
}

type doc struct {
	body   []byte
	xattrs map[string][]byte
	cas    uint64
	flags  uint32
	expiry uint32
}

// Doc is a copy of a stored document.
type Doc struct {
	Body   []byte
	Xattrs map[string][]byte
	Cas    uint64
	Flags  uint32
	Expiry uint32
}

type kvConn struct {
	id         int
	node       int
	c          net.Conn
	mc         *memd.Conn
	wmu        sync.Mutex
	dcp        atomic.Bool
	endOnClose atomic.Bool
}

type stream struct {
	conn   *kvConn
	opaque uint32
}

// Node is one simulated cluster.
type Node struct {
	opt Options

	httpLn   net.Listener
	httpSrv  *http.Server
	httpPort int
	kvLn     []net.Listener
	kvPort   []int

	wg     sync.WaitGroup
	done   chan struct{}
	closed bool

	mu         sync.Mutex
	rev        int
	epoch      int // revEpoch of the published config (default 1), see SetRevision
	conns      map[*kvConn]struct{}
	connCtr    int
	cfgSubs    map[chan struct{}]struct{}
	hook       func(Request) Action
	scripts    map[scriptKey][]Action
	high       map[uint16]uint64
	flog       map[uint16][]FailoverEntry
	rollback   map[uint16]func(StreamReq) (uint64, bool)
	persisted  map[[2]int]persist // (node, vb)
	replicaMap map[uint16][]int
	streams    map[uint16][]*stream
	kv         map[string]*doc
	casCtr     uint64
	fenceCtr   uint64

	streamReqs []StreamReq
	closes     []CloseStream
	kvWrites   []KVWrite
	controls   []Control
	observes   []Observe
	dcpOpens   []DcpOpen
	counts     map[memd.CmdCode]int
	httpPaths  []string
}

// New creates a Node (nothing listens until Start).
func New(o Options) *Node {
	if o.NumVb <= 0 {
		o.NumVb = 4
	}
	if o.Replicas < 0 {
		o.Replicas = 0
	}
	if o.Replicas > 3 {
		o.Replicas = 3
	}
	if o.KVNodes < 1 {
		o.KVNodes = o.Replicas + 1
	}
	if o.Bucket == "" {
		o.Bucket = "b"
	}
	if o.BucketUUID == "" {
		o.BucketUUID = "simbucketuuid"
	}
	if o.Version == "" {
		o.Version = "7.6.0-1000-enterprise"
	}
	if o.BucketType == "" {
		o.BucketType = "membase"
	}
	if o.StorageBackend == "" {
		o.StorageBackend = "couchstore"
	}
	if o.DebugOut == nil {
		o.DebugOut = os.Stderr
	}
	if o.CollectionIDs == nil {
		o.CollectionIDs = map[string]uint32{"_default._default": 0}
	}
	return &Node{
		opt: o, rev: 1, epoch: 1, done: make(chan struct{}),
		conns: map[*kvConn]struct{}{}, cfgSubs: map[chan struct{}]struct{}{},
		scripts: map[scriptKey][]Action{}, high: map[uint16]uint64{}, flog: map[uint16][]FailoverEntry{},
		rollback: map[uint16]func(StreamReq) (uint64, bool){}, persisted: map[[2]int]persist{},
		replicaMap: map[uint16][]int{}, streams: map[uint16][]*stream{}, kv: map[string]*doc{},
		counts: map[memd.CmdCode]int{},
	}
}

func (n *Node) dbg(format string, a ...any) {
	if n.opt.Debug {
		fmt.Fprintf(n.opt.DebugOut, "[sim] "+format+"\n", a...)
	}
}

// Start opens the listeners (ephemeral ports on 127.0.0.1) and serves.
func (n *Node) Start() error {
	var err error
	if n.httpLn, err = net.Listen("tcp", "127.0.0.1:0"); err != nil {
		return err
	}
	n.httpPort = n.httpLn.Addr().(*net.TCPAddr).Port
	for i := 0; i < n.opt.KVNodes; i++ {
		ln, err := net.Listen("tcp", "127.0.0.1:0")
		if err != nil {
			n.httpLn.Close()
			for _, l := range n.kvLn {
				l.Close()
			}
			return err
		}
		n.kvLn = append(n.kvLn, ln)
		n.kvPort = append(n.kvPort, ln.Addr().(*net.TCPAddr).Port)
	}
	mux := http.NewServeMux()
	mux.HandleFunc("/", n.serveHTTP)
	n.httpSrv = &http.Server{Handler: mux, ErrorLog: log.New(io.Discard, "", 0)}
	n.wg.Add(1)
	go func() { defer n.wg.Done(); _ = n.httpSrv.Serve(n.httpLn) }()
	for i, ln := range n.kvLn {
		n.wg.Add(1)
		go func(i int, ln net.Listener) {
			defer n.wg.Done()
			for {
				c, err := ln.Accept()
				if err != nil {
					return
				}
				n.mu.Lock()
				if n.closed {
					n.mu.Unlock()
					c.Close()
					return
				}
				n.connCtr++
				kc := &kvConn{id: n.connCtr, node: i, c: c, mc: memd.NewConn(c)}
				n.conns[kc] = struct{}{}
				n.wg.Add(1)
				n.mu.Unlock()
				go func() { defer n.wg.Done(); n.handle(kc) }()
			}
		}(i, ln)
	}
	return nil
}

// Close closes listeners and every connection and waits for the Node's goroutines.
func (n *Node) Close() {
	n.mu.Lock()
	if n.closed {
		n.mu.Unlock()
		return
	}
	n.closed = true
	close(n.done)
	conns := make([]*kvConn, 0, len(n.conns))
	for c := range n.conns {
		conns = append(conns, c)
	}
	n.mu.Unlock()
	for _, l := range n.kvLn {
		l.Close()
	}
	if n.httpSrv != nil {
		n.httpSrv.Close() // closes the listener and all (also streaming) connections
	}
	for _, c := range conns {
		c.c.Close()
	}
	n.wg.Wait()
}

// HTTPAddr is the seed address in the only form go-dcp accepts for a non-default port.
func (n *Node) HTTPAddr() string { return fmt.Sprintf("http://127.0.0.1:%d", n.httpPort) }

// KVPort returns the memcached port of KV node i.
func (n *Node) KVPort(i int) int { return n.kvPort[i] }

// NumVb returns the configured number of vBuckets.
func (n *Node) NumVb() int { return n.opt.NumVb }

// ---------------------------------------------------------------- scripting API

// OnRequest installs the hook consulted for every request that no Script entry
// matched (nil removes it).  The hook runs on the connection's reader goroutine
// and must not call back into blocking Node methods other than setters/pushes.
func (n *Node) OnRequest(h func(Request) Action) { n.mu.Lock(); n.hook = h; n.mu.Unlock() }

// Script appends actions to the FIFO queue for (opcode, vb); vb may be AnyVb.
// Each matching request consumes one action; the exact-vb queue is consulted
// before the AnyVb queue, both before the OnRequest hook.
func (n *Node) Script(op memd.CmdCode, vb int, actions ...Action) {
	n.mu.Lock()
	k := scriptKey{op, vb}
	n.scripts[k] = append(n.scripts[k], actions...)
	n.mu.Unlock()
}

// ClearScripts drops all queued script actions.
func (n *Node) ClearScripts() { n.mu.Lock(); n.scripts = map[scriptKey][]Action{}; n.mu.Unlock() }

func (n *Node) decide(r Request) Action {
	n.mu.Lock()
	op := r.Opcode
	if r.HTTP {
		op = OpHTTP
	}
	for _, k := range []scriptKey{{op, int(r.Vb)}, {op, AnyVb}} {
		if r.HTTP && k.vb != AnyVb {
			continue
		}
		if q := n.scripts[k]; len(q) > 0 {
			a := q[0]
			n.scripts[k] = q[1:]
			n.mu.Unlock()
			return a
		}
	}
	h := n.hook
	n.mu.Unlock()
	if h != nil {
		return h(r)
	}
	return Default()
}

// ---------------------------------------------------------------- state setters

// SetHighSeqno sets what GET_ALL_VB_SEQNOS reports for vb (default 0).
func (n *Node) SetHighSeqno(vb uint16, seq uint64) { n.mu.Lock(); n.high[vb] = seq; n.mu.Unlock() }

// SetFailoverLog sets vb's failover log, newest entry first (wire order).
// Default: one entry {UUID: DefaultUUID(vb), Seq: 0}.
func (n *Node) SetFailoverLog(vb uint16, log []FailoverEntry) {
	n.mu.Lock()
	n.flog[vb] = append([]FailoverEntry(nil), log...)
	n.mu.Unlock()
}

// DefaultUUID is the vbUUID of the default single-entry failover log.
func DefaultUUID(vb uint16) uint64 { return 0xabc000 + uint64(vb) }

func (n *Node) flogLocked(vb uint16) []FailoverEntry {
	if l, ok := n.flog[vb]; ok {
		return l
	}
	return []FailoverEntry{{UUID: DefaultUUID(vb), Seq: 0}}
}

// SetRollback installs the rule consulted for every DCP_STREAM_REQ of vb:
// ok=true answers ROLLBACK(rollbackTo).  nil removes the rule.
func (n *Node) SetRollback(vb uint16, rule func(StreamReq) (rollbackTo uint64, ok bool)) {
	n.mu.Lock()
	if rule == nil {
		delete(n.rollback, vb)
	} else {
		n.rollback[vb] = rule
	}
	n.mu.Unlock()
}

// RollbackNext answers ROLLBACK(r) to the next stream request of vb, whatever
// its arguments, and behaves normally afterwards.
func (n *Node) RollbackNext(vb uint16, r uint64) {
	fired := false
	n.SetRollback(vb, func(StreamReq) (uint64, bool) {
		if fired {
			return 0, false
		}
		fired = true
		return r, true
	})
}

// SetPersist sets what KV node nodeIdx reports for OBSERVE_SEQNO of vb.
// Default (never set): the head of the failover log and persisted seqno 0.
func (n *Node) SetPersist(nodeIdx int, vb uint16, uuid, persistSeq uint64) {
	n.mu.Lock()
	n.persisted[[2]int{nodeIdx, int(vb)}] = persist{uuid, persistSeq, true}
	n.mu.Unlock()
}

// SetReplicaMap sets vb's row of the vBucket map (index 0 = active copy, -1 =
// unassigned), bumps the config revision and pushes the new config to every
// open streaming connection (CCCP polls see it as well).
func (n *Node) SetReplicaMap(vb uint16, nodes []int) {
	n.mu.Lock()
	n.replicaMap[vb] = append([]int(nil), nodes...)
	n.bumpLocked()
	n.mu.Unlock()
}

// BumpConfig publishes a new config revision without other changes.
func (n *Node) BumpConfig() { n.mu.Lock(); n.bumpLocked(); n.mu.Unlock() }

func (n *Node) bumpLocked() {
	n.rev++
	for ch := range n.cfgSubs {
		select {
		case ch <- struct{}{}:
		default:
		}
	}
}

// ---------------------------------------------------------------- accessors (copies)

func (n *Node) StreamReqs() []StreamReq {
	n.mu.Lock()
	defer n.mu.Unlock()
	return append([]StreamReq(nil), n.streamReqs...)
}

// StreamReqsOf returns the logged stream requests of one vBucket in arrival order.
func (n *Node) StreamReqsOf(vb uint16) []StreamReq {
	var out []StreamReq
	for _, r := range n.StreamReqs() {
		if r.Vb == vb {
			out = append(out, r)
		}
	}
	return out
}
func (n *Node) CloseStreams() []CloseStream {
	n.mu.Lock()
	defer n.mu.Unlock()
	return append([]CloseStream(nil), n.closes...)
}
func (n *Node) KVWrites() []KVWrite {
	n.mu.Lock()
	defer n.mu.Unlock()
	return append([]KVWrite(nil), n.kvWrites...)
}
func (n *Node) Controls() []Control {
	n.mu.Lock()
	defer n.mu.Unlock()
	return append([]Control(nil), n.controls...)
}
func (n *Node) Observes() []Observe {
	n.mu.Lock()
	defer n.mu.Unlock()
	return append([]Observe(nil), n.observes...)
}
func (n *Node) DcpOpens() []DcpOpen {
	n.mu.Lock()
	defer n.mu.Unlock()
	return append([]DcpOpen(nil), n.dcpOpens...)
}

// HTTPPaths returns the paths of all HTTP requests received.
func (n *Node) HTTPPaths() []string {
	n.mu.Lock()
	defer n.mu.Unlock()
	return append([]string(nil), n.httpPaths...)
}

// Count returns how many requests with the opcode were received.
func (n *Node) Count(op memd.CmdCode) int { n.mu.Lock(); defer n.mu.Unlock(); return n.counts[op] }

// ResetLogs empties every request log (state is kept).
func (n *Node) ResetLogs() {
	n.mu.Lock()
	n.streamReqs, n.closes, n.kvWrites, n.controls, n.observes, n.dcpOpens, n.httpPaths = nil, nil, nil, nil, nil, nil, nil
	n.counts = map[memd.CmdCode]int{}
	n.mu.Unlock()
}

// OpenStreams returns the vBuckets that currently have at least one open stream (sorted).
func (n *Node) OpenStreams() []uint16 {
	n.mu.Lock()
	defer n.mu.Unlock()
	var out []uint16
	for vb, s := range n.streams {
		if len(s) > 0 {
			out = append(out, vb)
		}
	}
	sort.Slice(out, func(i, j int) bool { return out[i] < out[j] })
	return out
}

// ---------------------------------------------------------------- KV store access

func kvKey(cid uint32, key string) string {
	if cid == 0 {
		return key
	}
	return fmt.Sprintf("%x/%s", cid, key)
}

// KVGet returns a copy of the document stored under key in collection cid.
func (n *Node) KVGet(cid uint32, key string) (Doc, bool) {
	n.mu.Lock()
	defer n.mu.Unlock()
	d := n.kv[kvKey(cid, key)]
	if d == nil {
		return Doc{}, false
	}
	x := map[string][]byte{}
	for k, v := range d.xattrs {
		x[k] = append([]byte(nil), v...)
	}
	return Doc{Body: append([]byte(nil), d.body...), Xattrs: x, Cas: d.cas, Flags: d.flags, Expiry: d.expiry}, true
}

// KVPut stores a document directly (new CAS); xattrs may be nil.
func (n *Node) KVPut(cid uint32, key string, body []byte, xattrs map[string][]byte) uint64 {
	n.mu.Lock()
	defer n.mu.Unlock()
	x := map[string][]byte{}
	for k, v := range xattrs {
		x[k] = append([]byte(nil), v...)
	}
	n.casCtr++
	n.kv[kvKey(cid, key)] = &doc{body: append([]byte(nil), body...), xattrs: x, cas: n.casCtr}
	return n.casCtr
}

// KVDelete removes a document directly.
func (n *Node) KVDelete(cid uint32, key string) {
	n.mu.Lock()
	delete(n.kv, kvKey(cid, key))
	n.mu.Unlock()
}

// KVKeys lists all stored keys (sorted; non-default collections as "<cid hex>/<key>").
func (n *Node) KVKeys() []string {
	n.mu.Lock()
	defer n.mu.Unlock()
	var out []string
	for k := range n.kv {
		out = append(out, k)
	}
	sort.Strings(out)
	return out
}

// ---------------------------------------------------------------- config JSON / HTTP

func (n *Node) cfgJSON() []byte {
	n.mu.Lock()
	rev, epoch := n.rev, n.epoch
	vbmap := make([][]int, n.opt.NumVb)
	for i := range vbmap {
		if row, ok := n.replicaMap[uint16(i)]; ok {
			vbmap[i] = append([]int(nil), row...)
			for len(vbmap[i]) < n.opt.Replicas+1 {
				vbmap[i] = append(vbmap[i], -1)
			}
			continue
		}
		for r := 0; r <= n.opt.Replicas; r++ {
			if r < n.opt.KVNodes {
				vbmap[i] = append(vbmap[i], r)
			} else {
				vbmap[i] = append(vbmap[i], -1)
			}
		}
	}
	n.mu.Unlock()
	var servers []string
	var nodesExt, nodesArr []any
	for i, p := range n.kvPort {
		servers = append(servers, fmt.Sprintf("127.0.0.1:%d", p))
		ext := map[string]any{"services": map[string]int{"kv": p, "mgmt": n.httpPort}, "hostname": "127.0.0.1"}
		if i == 0 {
			ext["thisNode"] = true
		}
		nodesExt = append(nodesExt, ext)
		nodesArr = append(nodesArr, map[string]any{"hostname": fmt.Sprintf("127.0.0.1:%d", n.httpPort), "ports": map[string]int{"direct": p}})
	}
	caps := []string{"dcp", "cbhello", "cccp", "nodesExt", "xattr"}
	if n.opt.Collections {
		caps = append(caps, "collections")
	}
	cfg := map[string]any{
		"rev": rev, "revEpoch": epoch, "name": n.opt.Bucket, "nodeLocator": "vbucket", "uuid": n.opt.BucketUUID,
		"bucketCapabilities": caps,
		"vBucketServerMap": map[string]any{"hashAlgorithm": "CRC", "numReplicas": n.opt.Replicas,
			"serverList": servers, "vBucketMap": vbmap},
		"nodes": nodesArr, "nodesExt": nodesExt,
	}
	b, _ := json.Marshal(cfg)
	return b
}

func (n *Node) serveHTTP(w http.ResponseWriter, r *http.Request) {
	path := r.URL.Path
	n.mu.Lock()
	n.httpPaths = append(n.httpPaths, path)
	n.mu.Unlock()
	n.dbg("HTTP %s %s", r.Method, path)
	a := n.decide(Request{HTTP: true, Path: path, Node: -1})
	if a.Wait > 0 {
		select {
		case <-time.After(a.Wait):
		case <-n.done:
			return
		case <-r.Context().Done():
			return
		}
	}
	switch a.Kind {
	case KindStatus:
		st := a.HTTPStatus
		if st == 0 {
			st = 500
		}
		w.WriteHeader(st)
		w.Write(a.Value)
		return
	case KindSilent:
		select {
		case <-n.done:
		case <-r.Context().Done():
		}
		return
	case KindDropConn:
		if hj, ok := w.(http.Hijacker); ok {
			if c, _, err := hj.Hijack(); err == nil {
				c.Close()
			}
		}
		return
	}
	switch {
	case strings.HasPrefix(path, "/pools/default/bs/") || strings.HasPrefix(path, "/pools/default/bucketsStreaming/"):
		ch := make(chan struct{}, 1)
		n.mu.Lock()
		n.cfgSubs[ch] = struct{}{}
		n.mu.Unlock()
		defer func() { n.mu.Lock(); delete(n.cfgSubs, ch); n.mu.Unlock() }()
		w.WriteHeader(200)
		for {
			w.Write(n.cfgJSON())
			w.Write([]byte("\n\n\n\n"))
			if f, ok := w.(http.Flusher); ok {
				f.Flush()
			}
			select {
			case <-ch:
			case <-n.done:
				return
			case <-r.Context().Done():
				return
			}
		}
	case path == "/pools" || path == "/pools/":
		b, _ := json.Marshal(map[string]any{"implementationVersion": n.opt.Version})
		w.Write(b)
	case strings.HasPrefix(path, "/pools/default/buckets/") || strings.HasPrefix(path, "/pools/default/b/"):
		b, _ := json.Marshal(map[string]any{"bucketType": n.opt.BucketType, "storageBackend": n.opt.StorageBackend, "name": n.opt.Bucket, "uuid": n.opt.BucketUUID})
		w.Write(b)
	default: // "/" is gocbcore's management ping
		w.Write([]byte(`{}`))
	}
}

// ---------------------------------------------------------------- KV protocol

func cp(b []byte) []byte { return append([]byte(nil), b...) }

func (n *Node) write(kc *kvConn, p *memd.Packet) error {
	kc.wmu.Lock()
	defer kc.wmu.Unlock()
	return kc.mc.WritePacket(p)
}

func (n *Node) reply(kc *kvConn, req *Request, st memd.StatusCode, extras, key, val []byte, cas uint64) {
	err := n.write(kc, &memd.Packet{Magic: memd.CmdMagicRes, Command: req.Opcode, Opaque: req.Opaque, Status: st,
		Extras: extras, Key: key, Value: val, Cas: cas})
	if err != nil {
		n.dbg("write error conn=%d: %v", kc.id, err)
	}
}

func (n *Node) handle(kc *kvConn) {
	defer func() {
		kc.c.Close()
		n.mu.Lock()
		delete(n.conns, kc)
		for vb, ss := range n.streams {
			keep := ss[:0]
			for _, s := range ss {
				if s.conn != kc {
					keep = append(keep, s)
				}
			}
			n.streams[vb] = keep
		}
		n.mu.Unlock()
	}()
	n.dbg("accept node=%d conn=%d", kc.node, kc.id)
	for {
		p, _, err := kc.mc.ReadPacket()
		if err != nil {
			return
		}
		req := &Request{Node: kc.node, Conn: kc.id, DCP: kc.dcp.Load(), Opcode: p.Command, Vb: p.Vbucket, Opaque: p.Opaque,
			Cas: p.Cas, CollectionID: p.CollectionID, Extras: cp(p.Extras), Key: cp(p.Key), Value: cp(p.Value)}
		memd.ReleasePacket(p)
		n.mu.Lock()
		n.counts[req.Opcode]++
		n.mu.Unlock()
		n.dbg("req node=%d conn=%d op=0x%02x(%s) vb=%d key=%q extras=%x vlen=%d", kc.node, kc.id, uint8(req.Opcode), req.Opcode.Name(), req.Vb, req.Key, req.Extras, len(req.Value))
		n.logRequest(kc, req)
		a := n.decide(*req)
		if a.Wait > 0 {
			n.wg.Add(1)
			go func(a Action, req *Request) {
				defer n.wg.Done()
				select {
				case <-time.After(a.Wait):
				case <-n.done:
					return
				}
				n.act(kc, req, a)
			}(a, req)
			continue
		}
		if !n.act(kc, req, a) {
			return
		}
	}
}

// act carries out a decision; false = the connection was dropped.
func (n *Node) act(kc *kvConn, req *Request, a Action) bool {
	switch a.Kind {
	case KindStatus:
		n.reply(kc, req, a.Code, nil, nil, a.Value, 0)
	case KindSilent:
	case KindDropConn:
		kc.c.Close()
		return false
	default:
		n.serve(kc, req)
	}
	return true
}

// logRequest records the facts properties talk about, whatever the scripted answer is.
func (n *Node) logRequest(kc *kvConn, r *Request) {
	n.mu.Lock()
	defer n.mu.Unlock()
	switch r.Opcode {
	case memd.CmdDcpStreamReq:
		if sr, ok := parseStreamReq(kc, r); ok {
			n.streamReqs = append(n.streamReqs, sr)
		}
	case memd.CmdDcpCloseStream:
		n.closes = append(n.closes, CloseStream{Node: kc.node, Conn: kc.id, Vb: r.Vb})
	case memd.CmdDcpControl:
		n.controls = append(n.controls, Control{Node: kc.node, Conn: kc.id, Key: string(r.Key), Value: string(r.Value)})
	case memd.CmdDcpOpenConnection:
		var fl uint32
		if len(r.Extras) >= 8 {
			fl = binary.BigEndian.Uint32(r.Extras[4:])
		}
		n.dcpOpens = append(n.dcpOpens, DcpOpen{Node: kc.node, Conn: kc.id, Name: string(r.Key), Flags: fl})
	case memd.CmdObserveSeqNo:
		var u uint64
		if len(r.Value) >= 8 {
			u = binary.BigEndian.Uint64(r.Value)
		}
		n.observes = append(n.observes, Observe{Node: kc.node, Vb: r.Vb, UUID: u})
	}
}

func parseStreamReq(kc *kvConn, r *Request) (StreamReq, bool) {
	e := r.Extras
	if len(e) < 48 {
		return StreamReq{}, false
	}
	return StreamReq{Node: kc.node, Conn: kc.id, Vb: r.Vb, Flags: binary.BigEndian.Uint32(e),
		Start: binary.BigEndian.Uint64(e[8:]), End: binary.BigEndian.Uint64(e[16:]), VbUUID: binary.BigEndian.Uint64(e[24:]),
		SnapStart: binary.BigEndian.Uint64(e[32:]), SnapEnd: binary.BigEndian.Uint64(e[40:]), Opaque: r.Opaque, Value: string(r.Value)}, true
}

func failoverBytes(l []FailoverEntry) []byte {
	var out []byte
	for _, e := range l {
		out = binary.BigEndian.AppendUint64(out, e.UUID)
		out = binary.BigEndian.AppendUint64(out, e.Seq)
	}
	return out
}

var helloEcho = map[memd.HelloFeature]bool{
	memd.FeatureXerror: true, memd.FeatureSelectBucket: true, memd.FeatureXattr: true,
	memd.FeatureAltRequests: true, memd.FeatureSeqNo: true, memd.FeatureJSON: true,
}

func (n *Node) serve(kc *kvConn, r *Request) {
	ok := func(val []byte) { n.reply(kc, r, memd.StatusSuccess, nil, nil, val, 0) }
	switch r.Opcode {
	case memd.CmdHello:
		var out []byte
		coll := false
		for i := 0; i+1 < len(r.Value); i += 2 {
			f := memd.HelloFeature(binary.BigEndian.Uint16(r.Value[i:]))
			if helloEcho[f] || (f == memd.FeatureCollections && n.opt.Collections) {
				out = binary.BigEndian.AppendUint16(out, uint16(f))
				if f == memd.FeatureCollections {
					coll = true
				}
			}
		}
		ok(out)
		if coll {
			kc.mc.EnableFeature(memd.FeatureCollections)
		}
	case memd.CmdGetErrorMap:
		n.reply(kc, r, memd.StatusUnknownCommand, nil, nil, nil, 0)
	case memd.CmdSelectBucket, memd.CmdNoop, memd.CmdDcpNoop:
		ok(nil)
	case memd.CmdDcpOpenConnection:
		kc.dcp.Store(true)
		ok(nil)
	case memd.CmdDcpControl:
		if string(r.Key) == "send_stream_end_on_client_close_stream" {
			if n.opt.NoStreamEndOnClose {
				n.reply(kc, r, memd.StatusInvalidArgs, nil, nil, nil, 0)
				return
			}
			kc.endOnClose.Store(true)
		}
		ok(nil)
	case memd.CmdDcpBufferAck:
		// no reply
	case memd.CmdGetClusterConfig:
		ok(n.cfgJSON())
	case memd.CmdGetAllVBSeqnos:
		n.mu.Lock()
		var out []byte
		for vb := 0; vb < n.opt.NumVb; vb++ {
			row, has := n.replicaMap[uint16(vb)]
			active := 0
			if has && len(row) > 0 {
				active = row[0]
			}
			if n.opt.KVNodes > 1 && active != kc.node {
				continue
			}
			out = binary.BigEndian.AppendUint16(out, uint16(vb))
			out = binary.BigEndian.AppendUint64(out, n.high[uint16(vb)])
		}
		n.mu.Unlock()
		ok(out)
	case memd.CmdDcpGetFailoverLog:
		n.mu.Lock()
		out := failoverBytes(n.flogLocked(r.Vb))
		n.mu.Unlock()
		ok(out)
	case memd.CmdDcpStreamReq:
		sr, valid := parseStreamReq(kc, r)
		if !valid {
			n.reply(kc, r, memd.StatusInvalidArgs, nil, nil, nil, 0)
			return
		}
		n.mu.Lock()
		rule := n.rollback[r.Vb]
		n.mu.Unlock()
		if rule != nil {
			if to, yes := rule(sr); yes {
				n.reply(kc, r, memd.StatusRollback, nil, nil, binary.BigEndian.AppendUint64(nil, to), 0)
				return
			}
		}
		// register before replying: a push issued right after the client saw the reply must find the stream
		n.mu.Lock()
		out := failoverBytes(n.flogLocked(r.Vb))
		n.streams[r.Vb] = append(n.streams[r.Vb], &stream{conn: kc, opaque: r.Opaque})
		n.mu.Unlock()
		ok(out)
	case memd.CmdDcpCloseStream:
		n.mu.Lock()
		var mine *stream
		keep := n.streams[r.Vb][:0:0]
		for _, s := range n.streams[r.Vb] {
			if s.conn == kc && mine == nil {
				mine = s
			} else {
				keep = append(keep, s)
			}
		}
		n.streams[r.Vb] = keep
		n.mu.Unlock()
		if mine == nil {
			n.reply(kc, r, memd.StatusKeyNotFound, nil, nil, nil, 0)
			return
		}
		ok(nil)
		if kc.endOnClose.Load() {
			_ = n.write(kc, &memd.Packet{Magic: memd.CmdMagicReq, Command: memd.CmdDcpStreamEnd, Opaque: mine.opaque, Vbucket: r.Vb,
				Extras: binary.BigEndian.AppendUint32(nil, uint32(memd.StreamEndClosed))})
		}
	case memd.CmdObserveSeqNo:
		n.mu.Lock()
		ps, has := n.persisted[[2]int{kc.node, int(r.Vb)}]
		if !has {
			ps = persist{uuid: n.flogLocked(r.Vb)[0].UUID}
		}
		cur := n.high[r.Vb]
		if cur < ps.seq {
			cur = ps.seq
		}
		n.mu.Unlock()
		out := []byte{0}
		out = binary.BigEndian.AppendUint16(out, r.Vb)
		out = binary.BigEndian.AppendUint64(out, ps.uuid)
		out = binary.BigEndian.AppendUint64(out, ps.seq)
		out = binary.BigEndian.AppendUint64(out, cur)
		ok(out)
	case memd.CmdCollectionsGetID:
		path := string(r.Value)
		if path == "" {
			path = string(r.Key)
		}
		id, has := n.opt.CollectionIDs[path]
		if !has {
			n.reply(kc, r, memd.StatusCollectionUnknown, nil, nil, nil, 0)
			return
		}
		ex := binary.BigEndian.AppendUint64(nil, 1)
		ex = binary.BigEndian.AppendUint32(ex, id)
		n.reply(kc, r, memd.StatusSuccess, ex, nil, nil, 0)
	case memd.CmdGet, memd.CmdSet, memd.CmdAdd, memd.CmdReplace, memd.CmdDelete, memd.CmdSubDocMultiLookup, memd.CmdSubDocMultiMutation:
		n.serveKV(kc, r)
	default:
		n.dbg("UNHANDLED node=%d op=0x%02x %s", kc.node, uint8(r.Opcode), r.Opcode.Name())
		n.reply(kc, r, memd.StatusUnknownCommand, nil, nil, nil, 0)
	}
}

func (n *Node) serveKV(kc *kvConn, r *Request) {
	key := kvKey(r.CollectionID, string(r.Key))
	n.mu.Lock()
	st, extras, val, cas := n.kvApply(r, key)
	n.mu.Unlock()
	n.reply(kc, r, st, extras, nil, val, cas)
}

func (n *Node) logWrite(w KVWrite) { n.kvWrites = append(n.kvWrites, w) }

// kvApply runs under n.mu.
func (n *Node) kvApply(r *Request, key string) (memd.StatusCode, []byte, []byte, uint64) {
	d := n.kv[key]
	switch r.Opcode {
	case memd.CmdGet:
		if d == nil {
			return memd.StatusKeyNotFound, nil, nil, 0
		}
		return memd.StatusSuccess, binary.BigEndian.AppendUint32(nil, d.flags), cp(d.body), d.cas
	case memd.CmdSet, memd.CmdAdd, memd.CmdReplace:
		name := map[memd.CmdCode]string{memd.CmdSet: "SET", memd.CmdAdd: "ADD", memd.CmdReplace: "REPLACE"}[r.Opcode]
		var flags, expiry uint32
		if len(r.Extras) >= 8 {
			flags, expiry = binary.BigEndian.Uint32(r.Extras), binary.BigEndian.Uint32(r.Extras[4:])
		}
		w := KVWrite{Op: name, Key: string(r.Key), CollectionID: r.CollectionID, Cas: r.Cas, Expiry: expiry}
		st := memd.StatusSuccess
		switch {
		case r.Opcode == memd.CmdAdd && d != nil:
			st = memd.StatusKeyExists
		case r.Opcode == memd.CmdReplace && d == nil:
			st = memd.StatusKeyNotFound
		case r.Cas != 0 && d == nil:
			st = memd.StatusKeyNotFound
		case r.Cas != 0 && d.cas != r.Cas:
			st = memd.StatusKeyExists
		}
		w.Status = st
		n.logWrite(w)
		if st != memd.StatusSuccess {
			return st, nil, nil, 0
		}
		n.casCtr++
		x := map[string][]byte{}
		if d != nil {
			x = d.xattrs
		}
		n.kv[key] = &doc{body: cp(r.Value), xattrs: x, cas: n.casCtr, flags: flags, expiry: expiry}
		return st, nil, nil, n.casCtr
	case memd.CmdDelete:
		w := KVWrite{Op: "DELETE", Key: string(r.Key), CollectionID: r.CollectionID, Cas: r.Cas}
		st := memd.StatusSuccess
		switch {
		case d == nil:
			st = memd.StatusKeyNotFound
		case r.Cas != 0 && d.cas != r.Cas:
			st = memd.StatusKeyExists
		}
		w.Status = st
		n.logWrite(w)
		if st != memd.StatusSuccess {
			return st, nil, nil, 0
		}
		delete(n.kv, key)
		n.casCtr++
		return st, nil, nil, n.casCtr
	case memd.CmdSubDocMultiLookup:
		if d == nil {
			return memd.StatusKeyNotFound, nil, nil, 0
		}
		var out []byte
		st := memd.StatusSuccess
		v := r.Value
		for len(v) >= 4 {
			op := memd.SubDocOpType(v[0])
			fl := v[1]
			pl := int(binary.BigEndian.Uint16(v[2:]))
			if len(v) < 4+pl {
				return memd.StatusInvalidArgs, nil, nil, 0
			}
			path := string(v[4 : 4+pl])
			v = v[4+pl:]
			var val []byte
			found := false
			switch {
			case fl&0x04 != 0:
				val, found = d.xattrs[path]
			case op == memd.SubDocOpGetDoc || path == "":
				val, found = d.body, true
			default:
				m := map[string]json.RawMessage{}
				if json.Unmarshal(d.body, &m) == nil {
					var rv json.RawMessage
					rv, found = m[path]
					val = rv
				}
			}
			if op == memd.SubDocOpExists {
				val = nil
			}
			if found {
				out = binary.BigEndian.AppendUint16(out, 0)
				out = binary.BigEndian.AppendUint32(out, uint32(len(val)))
				out = append(out, val...)
			} else {
				out = binary.BigEndian.AppendUint16(out, uint16(memd.StatusSubDocPathNotFound))
				out = binary.BigEndian.AppendUint32(out, 0)
				st = memd.StatusSubDocBadMulti
			}
		}
		return st, nil, out, d.cas
	case memd.CmdSubDocMultiMutation:
		ex := r.Extras
		var docFlags byte
		var expiry uint32
		if len(ex) == 1 || len(ex) == 5 {
			docFlags = ex[len(ex)-1]
		}
		if len(ex) >= 4 {
			expiry = binary.BigEndian.Uint32(ex)
		}
		w := KVWrite{Op: "MUTATEIN", Key: string(r.Key), CollectionID: r.CollectionID, Cas: r.Cas, Expiry: expiry, DocFlags: docFlags}
		type sop struct {
			op   memd.SubDocOpType
			fl   byte
			path string
			val  []byte
		}
		var ops []sop
		v := r.Value
		for len(v) >= 8 {
			pl := int(binary.BigEndian.Uint16(v[2:]))
			vl := int(binary.BigEndian.Uint32(v[4:]))
			if len(v) < 8+pl+vl {
				break
			}
			o := sop{memd.SubDocOpType(v[0]), v[1], string(v[8 : 8+pl]), cp(v[8+pl : 8+pl+vl])}
			ops = append(ops, o)
			if o.fl&0x04 != 0 {
				w.Paths = append(w.Paths, "x:"+o.path)
			} else {
				w.Paths = append(w.Paths, o.path)
			}
			v = v[8+pl+vl:]
		}
		fail := func(st memd.StatusCode) (memd.StatusCode, []byte, []byte, uint64) {
			w.Status = st
			n.logWrite(w)
			return st, nil, nil, 0
		}
		if d == nil {
			if docFlags&0x03 == 0 { // neither mkdoc (0x01) nor add (0x02)
				return fail(memd.StatusKeyNotFound)
			}
			d = &doc{body: []byte("{}"), xattrs: map[string][]byte{}}
		} else if docFlags&0x02 != 0 {
			return fail(memd.StatusKeyExists)
		}
		if r.Cas != 0 && r.Cas != d.cas {
			return fail(memd.StatusKeyExists)
		}
		for _, o := range ops {
			switch {
			case o.fl&0x04 != 0:
				if o.op == memd.SubDocOpDelete {
					delete(d.xattrs, o.path)
				} else {
					d.xattrs[o.path] = o.val
				}
			case o.op == memd.SubDocOpSetDoc:
				d.body = o.val
			case o.op == memd.SubDocOpDelete:
				m := map[string]json.RawMessage{}
				_ = json.Unmarshal(d.body, &m)
				if _, has := m[o.path]; !has {
					return fail(memd.StatusSubDocBadMulti)
				}
				delete(m, o.path)
				d.body, _ = json.Marshal(m)
			default: // dict set / upsert / add on a top-level body path
				m := map[string]json.RawMessage{}
				_ = json.Unmarshal(d.body, &m)
				m[o.path] = o.val
				d.body, _ = json.Marshal(m)
			}
		}
		n.casCtr++
		d.cas = n.casCtr
		if len(ex) >= 4 {
			d.expiry = expiry
		}
		n.kv[key] = d
		w.Status = memd.StatusSuccess
		n.logWrite(w)
		return memd.StatusSuccess, nil, nil, d.cas
	}
	return memd.StatusUnknownCommand, nil, nil, 0
}

// ---------------------------------------------------------------- server pushes

// ErrNoStream is returned by a push when vb has no open stream.
var ErrNoStream = errors.New("sim: no open stream for vBucket")

func (n *Node) push(vb uint16, cmd memd.CmdCode, extras, key, val []byte, cas uint64, datatype uint8, cid uint32, end bool) error {
	n.mu.Lock()
	ss := append([]*stream(nil), n.streams[vb]...)
	if end {
		n.streams[vb] = nil
	}
	n.mu.Unlock()
	if len(ss) == 0 {
		return ErrNoStream
	}
	var first error
	for _, s := range ss {
		err := n.write(s.conn, &memd.Packet{Magic: memd.CmdMagicReq, Command: cmd, Opaque: s.opaque, Vbucket: vb,
			Extras: extras, Key: key, Value: val, Cas: cas, Datatype: datatype, CollectionID: cid})
		if err != nil && first == nil {
			first = err
		}
	}
	return first
}

// PushSnapshot sends SNAPSHOT_MARKER(start, end, flags) (v1 format, 20-byte extras).
func (n *Node) PushSnapshot(vb uint16, start, end uint64, flags uint32) error {
	ex := binary.BigEndian.AppendUint64(nil, start)
	ex = binary.BigEndian.AppendUint64(ex, end)
	ex = binary.BigEndian.AppendUint32(ex, flags)
	return n.push(vb, memd.CmdDcpSnapshotMarker, ex, nil, nil, 0, 0, 0, false)
}

// PushMutation sends DCP_MUTATION. collectionID must be 0 unless the connection negotiated collections.
func (n *Node) PushMutation(vb uint16, seq, rev uint64, flags, expiry uint32, cas uint64, datatype uint8, key, value []byte, collectionID uint32) error {
	ex := binary.BigEndian.AppendUint64(nil, seq)
	ex = binary.BigEndian.AppendUint64(ex, rev)
	ex = binary.BigEndian.AppendUint32(ex, flags)
	ex = binary.BigEndian.AppendUint32(ex, expiry)
	ex = binary.BigEndian.AppendUint32(ex, 0) // lock time
	ex = append(ex, 0, 0, 0)                  // nmeta(2) nru(1)
	return n.push(vb, memd.CmdDcpMutation, ex, key, value, cas, datatype, collectionID, false)
}

// PushDeletion sends DCP_DELETION (v1 extras: by_seqno, rev_seqno, nmeta).
func (n *Node) PushDeletion(vb uint16, seq, rev uint64, cas uint64, datatype uint8, key, value []byte, collectionID uint32) error {
	ex := binary.BigEndian.AppendUint64(nil, seq)
	ex = binary.BigEndian.AppendUint64(ex, rev)
	ex = append(ex, 0, 0)
	return n.push(vb, memd.CmdDcpDeletion, ex, key, value, cas, datatype, collectionID, false)
}

// PushExpiration sends DCP_EXPIRATION (extras: by_seqno, rev_seqno, delete_time).
func (n *Node) PushExpiration(vb uint16, seq, rev uint64, cas uint64, deleteTime uint32, key []byte, collectionID uint32) error {
	ex := binary.BigEndian.AppendUint64(nil, seq)
	ex = binary.BigEndian.AppendUint64(ex, rev)
	ex = binary.BigEndian.AppendUint32(ex, deleteTime)
	return n.push(vb, memd.CmdDcpExpiration, ex, key, nil, cas, 0, collectionID, false)
}

// PushSeqnoAdvanced sends DCP_SEQNO_ADVANCED.
func (n *Node) PushSeqnoAdvanced(vb uint16, seq uint64) error {
	return n.push(vb, memd.CmdDcpSeqNoAdvanced, binary.BigEndian.AppendUint64(nil, seq), nil, nil, 0, 0, 0, false)
}

// PushOSOSnapshot sends DCP_OSO_SNAPSHOT (flags 1 = begin, 2 = end).
func (n *Node) PushOSOSnapshot(vb uint16, flags uint32) error {
	return n.push(vb, memd.CmdDcpOsoSnapshot, binary.BigEndian.AppendUint32(nil, flags), nil, nil, 0, 0, 0, false)
}

// PushSystemEvent sends DCP_SYSTEM_EVENT. value layout per event (App. A):
// create collection: manifest(8) scope(4) collection(4) [ttl(4) when version 1];
// delete collection: manifest(8) scope(4) collection(4); flush: manifest(8) collection(4);
// create/delete scope: manifest(8) scope(4); modify collection: manifest(8) collection(4) ttl(4).
func (n *Node) PushSystemEvent(vb uint16, seq uint64, event memd.StreamEventCode, version uint8, key, value []byte) error {
	ex := binary.BigEndian.AppendUint64(nil, seq)
	ex = binary.BigEndian.AppendUint32(ex, uint32(event))
	ex = append(ex, version)
	return n.push(vb, memd.CmdDcpEvent, ex, key, value, 0, 0, 0, false)
}

// SystemEventValue builds the value of a system event from its ids (ttl appended when withTTL).
func SystemEventValue(manifest uint64, ids []uint32, withTTL bool, ttl uint32) []byte {
	v := binary.BigEndian.AppendUint64(nil, manifest)
	for _, id := range ids {
		v = binary.BigEndian.AppendUint32(v, id)
	}
	if withTTL {
		v = binary.BigEndian.AppendUint32(v, ttl)
	}
	return v
}

// PushStreamEnd sends STREAM_END(status) and forgets the stream(s) of vb.
func (n *Node) PushStreamEnd(vb uint16, status memd.StreamEndStatus) error {
	return n.push(vb, memd.CmdDcpStreamEnd, binary.BigEndian.AppendUint32(nil, uint32(status)), nil, nil, 0, 0, 0, true)
}

// PushNoop sends a server DCP_NOOP on every DCP connection (gocbcore answers it from its reader goroutine).
func (n *Node) PushNoop() {
	n.mu.Lock()
	var cs []*kvConn
	for c := range n.conns {
		if c.dcp.Load() {
			cs = append(cs, c)
		}
	}
	n.mu.Unlock()
	for _, c := range cs {
		_ = n.write(c, &memd.Packet{Magic: memd.CmdMagicReq, Command: memd.CmdDcpNoop, Opaque: 0xfffffff0})
	}
}

// DropConns closes every accepted KV connection of KV node nodeIdx (-1 = all nodes); dcpOnly restricts to DCP connections.
func (n *Node) DropConns(nodeIdx int, dcpOnly bool) int {
	n.mu.Lock()
	var cs []*kvConn
	for c := range n.conns {
		if (nodeIdx < 0 || c.node == nodeIdx) && (!dcpOnly || c.dcp.Load()) {
			cs = append(cs, c)
		}
	}
	n.mu.Unlock()
	for _, c := range cs {
		c.c.Close()
	}
	return len(cs)
}
