// Stream c10st (property C10, layer L0): the membership kinds that do not run a
// protocol – Model.IsChanged, static membership, Kubernetes stateful-set
// membership (pod ordinal from the host name; exercised in a child process
// inside its own UTS namespace so that the host name can be set freely),
// dynamic / HA membership (bus event -> GetInfo) and the API path
// PUT /membership/info (IsChanged guard in front of the bus).
package main

import (
	"bufio"
	"bytes"
	"encoding/hex"
	"fmt"
	"net"
	"net/http"
	"os"
	"os/exec"
	"strings"
	"sync"
	"syscall"
	"time"

	"github.com/Trendyol/go-dcp/api"
	"github.com/Trendyol/go-dcp/config"
	"github.com/Trendyol/go-dcp/helpers"
	"github.com/Trendyol/go-dcp/kubernetes"
	"github.com/Trendyol/go-dcp/logger"
	"github.com/Trendyol/go-dcp/membership"
	"github.com/asaskevich/EventBus"
	"github.com/prometheus/client_golang/prometheus"
	"github.com/sirupsen/logrus"
)

func init() {
	props["c10st"] = runC10St
	if os.Getenv("VERIF_CHILD") == "c10ss" {
		mbSsChildMain()
		os.Exit(0)
	}
}

// ---------------------------------------------------------------- stateful set (child side)

// reads "<hex hostname> <total>" lines, answers "<k>/<t>" | "panic" | "sethostname-failed"
func mbSsChildMain() {
	l := logrus.New()
	l.SetLevel(logrus.PanicLevel)
	logger.Log = &logger.Loggers{Logrus: l}
	in := bufio.NewScanner(os.Stdin)
	out := bufio.NewWriter(os.Stdout)
	defer out.Flush()
	for in.Scan() {
		var hx string
		var total int
		if _, err := fmt.Sscanf(in.Text(), "%s %d", &hx, &total); err != nil {
			fmt.Fprintln(out, "bad-line")
			continue
		}
		var name []byte
		if hx != "-" {
			name, _ = hex.DecodeString(hx)
		}
		if err := syscall.Sethostname(name); err != nil {
			fmt.Fprintln(out, "sethostname-failed")
			continue
		}
		fmt.Fprintln(out, mbSsOne(total))
	}
}

func mbSsOne(total int) (res string) {
	defer func() {
		if r := recover(); r != nil {
			res = "panic"
		}
	}()
	cfg := &config.Dcp{}
	cfg.Dcp.Group.Membership.TotalMembers = total
	m := kubernetes.NewStatefulSetMembership(cfg)
	i := m.GetInfo()
	m.Close()
	return fmt.Sprintf("%d/%d", i.MemberNumber, i.TotalMembers)
}

// runs all (hostname,total) pairs in ONE child living in a fresh UTS namespace
func mbSsRun(cases [][2]string) ([]string, string) {
	var in bytes.Buffer
	for _, c := range cases {
		fmt.Fprintf(&in, "%s %s\n", c[0], c[1])
	}
	cmd := exec.Command(os.Args[0])
	cmd.Env = append(os.Environ(), "VERIF_CHILD=c10ss")
	cmd.SysProcAttr = &syscall.SysProcAttr{Cloneflags: syscall.CLONE_NEWUTS}
	cmd.Stdin = &in
	var so, se bytes.Buffer
	cmd.Stdout, cmd.Stderr = &so, &se
	if err := cmd.Run(); err != nil {
		return nil, "child: " + err.Error() + " " + strings.TrimSpace(se.String())
	}
	lines := strings.Split(strings.TrimRight(so.String(), "\n"), "\n")
	if len(lines) != len(cases) {
		return nil, fmt.Sprintf("child answered %d of %d", len(lines), len(cases))
	}
	return lines, ""
}

// ---------------------------------------------------------------- bus based kinds

type mbEvents struct {
	mu  sync.Mutex
	evs []membership.Model
}

func (e *mbEvents) add(m *membership.Model) {
	e.mu.Lock()
	e.evs = append(e.evs, *m)
	e.mu.Unlock()
}

func (e *mbEvents) snapshot() []membership.Model {
	e.mu.Lock()
	defer e.mu.Unlock()
	return append([]membership.Model(nil), e.evs...)
}

func mbFmt(ms []membership.Model) string {
	var sb []string
	for _, m := range ms {
		sb = append(sb, fmt.Sprintf("%d/%d", m.MemberNumber, m.TotalMembers))
	}
	return strings.Join(sb, " ")
}

// GetInfo with a time-out (it blocks until the first event by design)
func mbGetInfo(m membership.Membership, d time.Duration) string {
	ch := make(chan *membership.Model, 1)
	go func() { ch <- m.GetInfo() }()
	select {
	case i := <-ch:
		return fmt.Sprintf("%d/%d", i.MemberNumber, i.TotalMembers)
	case <-time.After(d):
		return "blocked"
	}
}

func mbBus(kind string, evs []membership.Model) (res string) {
	defer func() {
		if r := recover(); r != nil {
			res = "panic"
		}
	}()
	bus := EventBus.New()
	var m membership.Membership
	if kind == "ha" {
		m = kubernetes.NewHaMembership(&config.Dcp{}, bus)
	} else {
		m = membership.NewDynamicMembership(bus)
	}
	defer m.Close()
	for i := range evs {
		e := evs[i]
		bus.Publish(helpers.MembershipChangedBusEventName, &e)
	}
	bus.WaitAsync()
	if len(evs) == 0 {
		return mbGetInfo(m, 30*time.Millisecond)
	}
	return mbGetInfo(m, 5*time.Second)
}

func mbFreePort() int {
	l, err := net.Listen("tcp", "127.0.0.1:0")
	if err != nil {
		panic(err)
	}
	p := l.Addr().(*net.TCPAddr).Port
	l.Close()
	return p
}

// one fresh API instance per request sequence (own prometheus registry, own port)
func mbAPI(reqs []string) (res string) {
	defer func() {
		if r := recover(); r != nil {
			res = fmt.Sprintf("panic")
		}
	}()
	prometheus.DefaultRegisterer = prometheus.NewRegistry()
	bus := EventBus.New()
	rec := &mbEvents{}
	if err := bus.SubscribeAsync(helpers.MembershipChangedBusEventName, rec.add, true); err != nil {
		return "subscribe-error"
	}
	dyn := membership.NewDynamicMembership(bus)
	defer dyn.Close()
	cfg := &config.Dcp{}
	cfg.Dcp.Group.Name = "g"
	cfg.API.Port = mbFreePort()
	cfg.Metric.Path = "/metrics"
	cfg.HealthCheck.Disabled = true
	a := api.NewAPI(cfg, nil, nil, nil, nil, bus)
	go a.Listen()
	defer a.Shutdown()
	base := fmt.Sprintf("http://127.0.0.1:%d", cfg.API.Port)
	up := false
	for i := 0; i < 200 && !up; i++ {
		c, err := net.DialTimeout("tcp", fmt.Sprintf("127.0.0.1:%d", cfg.API.Port), 100*time.Millisecond)
		if err == nil {
			c.Close()
			up = true
		} else {
			time.Sleep(5 * time.Millisecond)
		}
	}
	if !up {
		return "api-not-up"
	}
	var statuses []string
	cl := &http.Client{Timeout: 5 * time.Second}
	for _, r := range reqs {
		body := `{"memberNumber":`
		if r != "bad" {
			var k, t int
			fmt.Sscanf(r, "%d/%d", &k, &t)
			body = fmt.Sprintf(`{"memberNumber":%d,"totalMembers":%d}`, k, t)
		}
		rq, _ := http.NewRequest(http.MethodPut, base+"/membership/info", strings.NewReader(body))
		rq.Header.Set("Content-Type", "application/json")
		rs, err := cl.Do(rq)
		if err != nil {
			statuses = append(statuses, "err")
			continue
		}
		rs.Body.Close()
		statuses = append(statuses, fmt.Sprint(rs.StatusCode))
	}
	bus.WaitAsync()
	evs := rec.snapshot()
	info := "blocked"
	if len(evs) > 0 {
		info = mbGetInfo(dyn, 5*time.Second)
	} else {
		info = mbGetInfo(dyn, 30*time.Millisecond)
	}
	return fmt.Sprintf("%s | %s | info=%s", strings.Join(statuses, " "), mbFmt(evs), info)
}

// ---------------------------------------------------------------- generator

// replay of op lines of this stream
func mbStReplay(c *Ctx, path string) {
	b, err := os.ReadFile(path)
	if err != nil {
		panic(err)
	}
	atoi := func(t string) int {
		var v int
		fmt.Sscanf(t, "%d", &v)
		return v
	}
	pairs := func(ts []string) []membership.Model {
		var ms []membership.Model
		for _, t := range ts {
			var k, n int
			if _, e := fmt.Sscanf(t, "%d/%d", &k, &n); e == nil {
				ms = append(ms, membership.Model{MemberNumber: k, TotalMembers: n})
			}
		}
		return ms
	}
	for _, ln := range strings.Split(string(b), "\n") {
		op := strings.SplitN(ln, "\t", 2)[0]
		f := strings.Fields(op)
		if len(f) == 0 {
			continue
		}
		switch {
		case f[0] == "mb-chg" && len(f) == 4 && f[3] == "nil":
			m := &membership.Model{MemberNumber: atoi(f[1]), TotalMembers: atoi(f[2])}
			c.E.Line(op, fmt.Sprint(m.IsChanged(nil)))
		case f[0] == "mb-chg" && len(f) == 5:
			m := &membership.Model{MemberNumber: atoi(f[1]), TotalMembers: atoi(f[2])}
			c.E.Line(op, fmt.Sprint(m.IsChanged(&membership.Model{MemberNumber: atoi(f[3]), TotalMembers: atoi(f[4])})))
		case f[0] == "mb-static" && len(f) == 3:
			cfg := &config.Dcp{}
			cfg.Dcp.Group.Membership.MemberNumber = atoi(f[1])
			cfg.Dcp.Group.Membership.TotalMembers = atoi(f[2])
			i := membership.NewStaticMembership(cfg).GetInfo()
			c.E.Line(op, fmt.Sprintf("%d/%d", i.MemberNumber, i.TotalMembers))
		case f[0] == "mb-ss" && len(f) == 3:
			lines, errText := mbSsRun([][2]string{{f[1], f[2]}})
			if errText != "" {
				c.E.Line(op, "unavailable")
			} else {
				c.E.Line(op, lines[0])
			}
		case f[0] == "mb-bus" && len(f) >= 2:
			c.E.Line(op, mbBus(f[1], pairs(f[2:])))
		case f[0] == "mb-api":
			c.E.Line(op, mbAPI(f[1:]))
		default:
			continue
		}
		c.E.EndCase(true, "replay")
	}
}

func runC10St(c *Ctx) {
	e := c.E
	if replayFile != "" {
		mbStReplay(c, replayFile)
		return
	}
	// 1. IsChanged: exhaustive on a small grid (incl. nil), boundary ints, random
	chg := func(a, b int, o *membership.Model) {
		m := &membership.Model{MemberNumber: a, TotalMembers: b}
		op := fmt.Sprintf("mb-chg %d %d nil", a, b)
		if o != nil {
			op = fmt.Sprintf("mb-chg %d %d %d %d", a, b, o.MemberNumber, o.TotalMembers)
		}
		e.Line(op, fmt.Sprint(m.IsChanged(o)))
		e.EndCase(o != nil, "chg")
	}
	for a := -1; a <= 3; a++ {
		for b := -1; b <= 3; b++ {
			chg(a, b, nil)
			for x := -1; x <= 3; x++ {
				for y := -1; y <= 3; y++ {
					chg(a, b, &membership.Model{MemberNumber: x, TotalMembers: y})
				}
			}
		}
	}
	big := []int{0, 1, -1, 1 << 31, 1<<63 - 1, -1 << 63, 1024}
	for i := 0; i < c.N(300, 3000); i++ {
		p := func() int {
			if c.R.Chance(30) {
				return big[c.R.Intn(len(big))]
			}
			return c.R.Intn(9) - 1
		}
		a, b := p(), p()
		x, y := p(), p()
		if c.R.Chance(40) {
			x, y = a, b
		}
		chg(a, b, &membership.Model{MemberNumber: x, TotalMembers: y})
	}
	// 2. static membership: the configured pair, whatever it is
	static := func(m, t int) {
		res := func() (r string) {
			defer func() {
				if recover() != nil {
					r = "panic"
				}
			}()
			cfg := &config.Dcp{}
			cfg.Dcp.Group.Membership.MemberNumber = m
			cfg.Dcp.Group.Membership.TotalMembers = t
			ms := membership.NewStaticMembership(cfg)
			i := ms.GetInfo()
			ms.Close()
			return fmt.Sprintf("%d/%d", i.MemberNumber, i.TotalMembers)
		}()
		e.Line(fmt.Sprintf("mb-static %d %d", m, t), res)
		e.EndCase(t > 1, "static")
	}
	for t := 0; t <= 8; t++ {
		for m := 0; m <= t+1; m++ {
			static(m, t)
		}
	}
	for i := 0; i < c.N(50, 500); i++ {
		static(big[c.R.Intn(len(big))], big[c.R.Intn(len(big))])
	}
	// 3. stateful set: host names <prefix>-<ordinal> and a grammar of odd ones
	var ss [][2]string
	addSS := func(h string, total int) {
		hx := "-"
		if h != "" {
			hx = hex.EncodeToString([]byte(h))
		}
		if len(h) <= 64 {
			ss = append(ss, [2]string{hx, fmt.Sprint(total)})
		}
	}
	for total := 0; total <= 8; total++ {
		for ord := 0; ord <= total+1; ord++ {
			addSS(fmt.Sprintf("web-%d", ord), total)
		}
	}
	odd := []string{"", "web", "web-", "-", "-0", "-3", "web--2", "my-app-2", "a-b-c-1", "web-x", "web-1x", "web-x1", "web-+1", "web-+", "web-007",
		"web-0x10", "web-1_0", "web- 1", "web-1 ", "web-１", "web-9223372036854775807", "web-9223372036854775806", "web-9223372036854775808",
		"web-99999999999999999999", "web-18446744073709551615", "web-1.0", "web-1e1", "WEB-5", "web_5", "web-5-", "7", "web-00000000000000000000003"}
	for _, h := range odd {
		for _, total := range []int{0, 1, 3, 8, 1<<63 - 1, -1 << 63} {
			addSS(h, total)
		}
	}
	pre := []string{"web", "my-app", "a-b-c", "x", "go-dcp-consumer", "-", ""}
	for i := 0; i < c.N(150, 1500); i++ {
		total := c.R.Intn(10)
		h := pre[c.R.Intn(len(pre))] + "-"
		switch c.R.Intn(6) {
		case 0:
			h += fmt.Sprint(c.R.Intn(12))
		case 1:
			h += strings.Repeat("0", c.R.Intn(4)) + fmt.Sprint(c.R.Intn(12))
		case 2:
			h += "+" + fmt.Sprint(c.R.Intn(12))
		case 3:
			h += fmt.Sprint(c.R.U64())
		case 4:
			h += fmt.Sprint(c.R.Intn(12)) + c.R.Pick("a", " ", "_", ".", "-", "")
		default:
			h += fmt.Sprint(c.R.Intn(total + 2))
		}
		addSS(h, total)
	}
	lines, errText := mbSsRun(ss)
	if errText != "" {
		// no UTS namespace available: the correspondence of this kind is not checked, say so
		c.Extra["statefulset"] = "unavailable: " + errText
	} else {
		c.Extra["statefulset"] = fmt.Sprintf("%d host names in a child UTS namespace", len(ss))
		for i, cs := range ss {
			if lines[i] == "sethostname-failed" || lines[i] == "bad-line" {
				e.Tag("ss-skipped")
				continue
			}
			e.Line(fmt.Sprintf("mb-ss %s %s", cs[0], cs[1]), lines[i])
			tag := "ss-ok"
			if lines[i] == "panic" {
				tag = "ss-panic"
			}
			e.EndCase(true, tag)
		}
	}
	// 4. dynamic / HA membership: the info is the last model delivered on the bus
	rndEvs := func(n int) []membership.Model {
		var evs []membership.Model
		for i := 0; i < n; i++ {
			t := 1 + c.R.Intn(6)
			evs = append(evs, membership.Model{MemberNumber: 1 + c.R.Intn(t), TotalMembers: t})
			if c.R.Chance(25) && len(evs) > 1 {
				evs[len(evs)-1] = evs[len(evs)-2]
			}
		}
		return evs
	}
	for i := 0; i < c.N(40, 400); i++ {
		kind := c.R.Pick("dyn", "ha")
		evs := rndEvs(c.R.Intn(5))
		op := strings.TrimSpace("mb-bus " + kind + " " + mbFmt(evs))
		e.Line(op, mbBus(kind, evs))
		e.EndCase(len(evs) > 1, "bus-"+kind)
	}
	// 5. API path: PUT /membership/info, published iff IsChanged
	for i := 0; i < c.N(25, 250); i++ {
		n := 1 + c.R.Intn(7)
		var reqs []string
		for j := 0; j < n; j++ {
			switch {
			case c.R.Chance(12):
				reqs = append(reqs, "bad")
			case c.R.Chance(35) && len(reqs) > 0 && reqs[len(reqs)-1] != "bad":
				reqs = append(reqs, reqs[len(reqs)-1])
			default:
				t := 1 + c.R.Intn(4)
				reqs = append(reqs, fmt.Sprintf("%d/%d", 1+c.R.Intn(t), t))
			}
		}
		e.Line("mb-api "+strings.Join(reqs, " "), mbAPI(reqs))
		e.EndCase(n > 1, "api")
	}
}
