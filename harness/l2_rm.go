package main

// Stream "c07rm" (property C07, layer L2): the REAL
// couchbase.NewRollbackMitigation(realClient, cfg, vbIds, dispatcher) polls a
// simulated cluster (harness/sim: 1–4 KV nodes, 0–3 replicas, vBucket-map rows
// with unassigned -1 entries) whose OBSERVE_SEQNO answers are scripted per copy.
// The harness-owned dispatcher records every (vb, seq) the real code dispatches.
//
// Every vBucket of an instance is an independent table = one case = one op line
// (handlers of the Lean driver are stateless, so the line carries the whole script):
//
//	rm-script N ABS V STEP…
//	  N    entries of the row (numReplicas+1), ABS unlisted indices (`-` or `1.2`),
//	  V    initial answers `uuid:seq,…`
//	  s:ORDER        Start() (first) / config revision bump (later): the table is reset and the
//	                 listed copies answer in ORDER (their replies are delayed k*35 ms by the node)
//	  m:ABS:ORDER    the vBucket-map row changes, then as s
//	  e:E:R:ABS:ORDER the cluster publishes its config under the revision (revEpoch E, rev R) with the row ABS (every cluster
//	                 starts at (2,100); s / m publish rev+1): a revision that is newer - higher epoch whatever the rev, or same
//	                 epoch and larger rev - is adopted as m; any other is ignored: no restart, no dispatch, the old layout stays
//	  r:I:U:S        copy I now answers (U,S)
//	  t:I:U:S:K / b:I:U:S:K   the same after K TMPFAIL / BUSY answers
//	  o:I:U:S        the same after one unanswered request (5 s deadline inside observeVbID)
//	  i              nothing changes
//	  x              Stop()
//	observation: one token per step: [a.b.c] | dM | n | stopped
//
// Stop() during a slow poll round (properties C13 "Close() returns in bounded time … polling is stopped", C07 "closing
// the stream releases …"; Lean: Model/RmStop.lean, handler `rm-stop-slow`):
//
//	rm-stop-slow I D P
//	  one instance (4 vBuckets, active + 1 replica on two KV nodes), poll interval I ms.  After two ordinary rounds the
//	  replica's node answers the OBSERVE_SEQNO requests of the next round only after D ms (D >= 3*I: the round outlasts the
//	  interval, the next tick is buffered in the ticker channel while the goroutine sits in wg.Wait()).  P ms after the
//	  first delayed request arrived, Stop() is called.
//	observation: `stopped late-observes=N` – Stop() returned within (D-P) ms + 1 s; N = OBSERVE requests that reached
//	  any node during 5 intervals after the return; `stopped-late late-observes=N`; `hang` – not back after 4 s (the
//	  blocked goroutine is left behind).
//	A stop that hangs only when the goroutine's select takes the buffered tick (both cases are ready when the round ends:
//	Go picks at random) shows with probability 1/2 per line: every run has rmStopReps lines with different phases.
//
// Determinism: one copy changes per step and table; a step ends when every listed copy
// of the instance has been asked three more times (two complete poll rounds with the
// new answer); after Stop() the harness waits four poll intervals instead.
// All vBuckets of an instance move in lockstep; instance-wide steps (s, m, x) stand at
// the same position in every script of the instance (exactly one script has the m).

import (
	"bufio"
	"fmt"
	"os"
	"sort"
	"strconv"
	"strings"
	"sync"
	"sync/atomic"
	"time"

	"github.com/Trendyol/go-dcp/couchbase"
	"github.com/Trendyol/go-dcp/models"
	"github.com/couchbase/gocbcore/v10"
	"github.com/couchbase/gocbcore/v10/memd"

	"verifharness/sim"
)

func init() { props["c07rm"] = runC07Rm }

type rmStep struct {
	kind  byte // s m e r t b o i x
	ep    int  // e: revEpoch and rev of the published config
	rev   int
	idx   int
	u, q  uint64
	k     int
	abs   []int
	order []int
}

type rmScript struct {
	n     int
	abs   []int
	v     [][2]uint64
	steps []rmStep
}

func rmDots(l []int) string {
	if len(l) == 0 {
		return "-"
	}
	p := make([]string, len(l))
	for i, x := range l {
		p[i] = strconv.Itoa(x)
	}
	return strings.Join(p, ".")
}

func rmParseDots(s string) ([]int, bool) {
	if s == "-" {
		return nil, true
	}
	var out []int
	for _, p := range strings.Split(s, ".") {
		v, err := strconv.Atoi(p)
		if err != nil || v < 0 {
			return nil, false
		}
		out = append(out, v)
	}
	return out, true
}

func (s rmStep) String() string {
	switch s.kind {
	case 's':
		return "s:" + rmDots(s.order)
	case 'm':
		return "m:" + rmDots(s.abs) + ":" + rmDots(s.order)
	case 'e':
		return fmt.Sprintf("e:%d:%d:%s:%s", s.ep, s.rev, rmDots(s.abs), rmDots(s.order))
	case 'r', 'o':
		return fmt.Sprintf("%c:%d:%d:%d", s.kind, s.idx, s.u, s.q)
	case 't', 'b':
		return fmt.Sprintf("%c:%d:%d:%d:%d", s.kind, s.idx, s.u, s.q, s.k)
	}
	return string(s.kind)
}

func (sc *rmScript) op() string {
	p := []string{"rm-script", strconv.Itoa(sc.n), rmDots(sc.abs)}
	var v []string
	for _, x := range sc.v {
		v = append(v, fmt.Sprintf("%d:%d", x[0], x[1]))
	}
	p = append(p, strings.Join(v, ","))
	for _, s := range sc.steps {
		p = append(p, s.String())
	}
	return strings.Join(p, " ")
}

func rmParse(op string) (*rmScript, bool) {
	f := strings.Fields(op)
	if len(f) < 4 || f[0] != "rm-script" {
		return nil, false
	}
	sc := &rmScript{}
	var err error
	if sc.n, err = strconv.Atoi(f[1]); err != nil || sc.n < 1 || sc.n > 4 {
		return nil, false
	}
	var ok bool
	if sc.abs, ok = rmParseDots(f[2]); !ok {
		return nil, false
	}
	for _, p := range strings.Split(f[3], ",") {
		ab := strings.Split(p, ":")
		if len(ab) != 2 {
			return nil, false
		}
		u, e1 := strconv.ParseUint(ab[0], 10, 64)
		q, e2 := strconv.ParseUint(ab[1], 10, 64)
		if e1 != nil || e2 != nil {
			return nil, false
		}
		sc.v = append(sc.v, [2]uint64{u, q})
	}
	if len(sc.v) != sc.n {
		return nil, false
	}
	for _, t := range f[4:] {
		p := strings.Split(t, ":")
		st := rmStep{kind: p[0][0]}
		if len(p[0]) != 1 {
			return nil, false
		}
		num := func(i int) uint64 {
			v, e := strconv.ParseUint(p[i], 10, 64)
			if e != nil {
				ok = false
			}
			return v
		}
		ok = true
		switch {
		case st.kind == 's' && len(p) == 2:
			st.order, ok = rmParseDots(p[1])
		case st.kind == 'm' && len(p) == 3:
			var ok2 bool
			st.abs, ok = rmParseDots(p[1])
			st.order, ok2 = rmParseDots(p[2])
			ok = ok && ok2
		case st.kind == 'e' && len(p) == 5:
			var ok2 bool
			st.ep, st.rev = int(num(1)), int(num(2))
			ok = ok && st.ep >= 1 && st.rev >= 1
			st.abs, ok2 = rmParseDots(p[3])
			ok = ok && ok2
			st.order, ok2 = rmParseDots(p[4])
			ok = ok && ok2
		case (st.kind == 'r' || st.kind == 'o') && len(p) == 4:
			st.idx, st.u, st.q = int(num(1)), num(2), num(3)
		case (st.kind == 't' || st.kind == 'b') && len(p) == 5:
			st.idx, st.u, st.q, st.k = int(num(1)), num(2), num(3), int(num(4))
		case (st.kind == 'i' || st.kind == 'x') && len(p) == 1:
		default:
			return nil, false
		}
		if !ok {
			return nil, false
		}
		sc.steps = append(sc.steps, st)
	}
	return sc, true
}

func rmContains(l []int, x int) bool {
	for _, y := range l {
		if y == x {
			return true
		}
	}
	return false
}

// executable by the real code without killing the process: index 0 (the active copy) is
// always listed (GetFailOverLogs is routed to it; its failure panics inside startObserve),
// the listed copies fit on the KV nodes, orders mention listed indices only, instance-wide
// steps are aligned.
func rmExecutable(scs []*rmScript, kv int) bool {
	if len(scs) == 0 {
		return false
	}
	ln := len(scs[0].steps)
	for _, sc := range scs {
		if sc.n != scs[0].n || len(sc.steps) != ln {
			return false
		}
		abs := sc.abs
		check := func(abs []int, order []int) bool {
			if rmContains(abs, 0) {
				return false
			}
			listed := 0
			for i := 0; i < sc.n; i++ {
				if !rmContains(abs, i) {
					listed++
				}
			}
			if listed > kv {
				return false
			}
			seen := map[int]bool{}
			for _, i := range order {
				if i >= sc.n || rmContains(abs, i) || seen[i] {
					return false
				}
				seen[i] = true
			}
			return len(order) == listed // every listed copy answers
		}
		started := false
		pub, use := rmRev0, rmRev0
		for _, st := range sc.steps {
			// which revision the step publishes and whether configWatch has to adopt it (lexicographic on (revEpoch, rev))
			adopt := true
			if started && (st.kind == 's' || st.kind == 'm' || st.kind == 'e') {
				if st.kind == 'e' {
					pub = [2]int{st.ep, st.rev}
				} else {
					pub[1]++
				}
				if adopt = rmNewer(use, pub); adopt {
					use = pub
				}
			}
			switch st.kind {
			case 's':
				if !check(abs, st.order) {
					return false
				}
				started = true
			case 'e':
				if !started {
					return false
				}
				if !adopt {
					// a config the real code ignores must leave the row alone: the harness talks to the copies of the layout in use
					if rmDots(st.abs) != rmDots(abs) {
						return false
					}
					break
				}
				fallthrough
			case 'm':
				if !adopt && rmDots(st.abs) != rmDots(abs) {
					return false
				}
				// newly listed copies need KV nodes that the previous row did not use (see rmRow)
				fresh := 0
				for i := 0; i < sc.n; i++ {
					if rmContains(abs, i) && !rmContains(st.abs, i) {
						fresh++
					}
				}
				if fresh > kv-len(rmListed(sc.n, abs)) {
					return false
				}
				abs = st.abs
				if !check(abs, st.order) {
					return false
				}
				started = true
			case 'r', 't', 'b', 'o':
				if st.idx >= sc.n {
					return false
				}
				if (st.kind == 't' || st.kind == 'b' || st.kind == 'o') && (!started || rmContains(abs, st.idx)) {
					return false // error answers only make sense for a copy that is being polled
				}
			}
		}
	}
	for i := 0; i < ln; i++ {
		wide, ms := 0, 0
		k0 := byte(0)
		for _, sc := range scs {
			k := sc.steps[i].kind
			if k == 's' || k == 'm' || k == 'x' || k == 'e' {
				wide++
				if k == 'm' {
					ms++
					k = 's'
				}
				if k == 'e' {
					if rmDots(sc.steps[i].abs) != rmDots(rmAbsAt(sc, i)) {
						ms++
					}
					if e0 := scs[0].steps[i]; e0.kind != 'e' || e0.ep != sc.steps[i].ep || e0.rev != sc.steps[i].rev {
						return false
					}
				}
				if k0 == 0 {
					k0 = k
				} else if k0 != k {
					return false
				}
			}
		}
		if wide != 0 && wide != len(scs) {
			return false
		}
		if ms > 1 {
			return false
		}
	}
	return true
}

// every simulated cluster starts at revision (revEpoch 2, rev 100): there is an older epoch and there are smaller revs
var rmRev0 = [2]int{2, 100}

// rmNewer: the order a cluster config revision has (gocbcore routeConfig.IsNewerThan; what go-dcp must follow)
func rmNewer(old, new [2]int) bool {
	return new[0] > old[0] || (new[0] == old[0] && new[1] > old[1])
}

// rmAbsAt: the unlisted indices of the row before step i
func rmAbsAt(sc *rmScript, i int) []int {
	abs := sc.abs
	for _, st := range sc.steps[:i] {
		if st.kind == 'm' || st.kind == 'e' {
			abs = st.abs
		}
	}
	return abs
}

// ---- one instance = sim cluster + real client + real rollback mitigation

type rmPair struct {
	count  int
	fails  int
	code   memd.StatusCode
	silent bool
	pos    int // 1.. = position of this copy's answer within a staggered round, 0 = not staggered
}

type rmInst struct {
	node     *sim.Node
	cl       couchbase.Client
	rm       couchbase.RollbackMitigation
	interval time.Duration
	kv       int
	scs      []*rmScript
	rows     [][]int // per vb: node of every index, -1 = unlisted

	mu       sync.Mutex
	pairs    map[[2]int]*rmPair // (node, vb)
	stagger  bool
	rounds   map[int]time.Time // per vb: arrival of the first request of the current staggered round
	disp     map[uint16][]uint64
	started  bool
	stopped  bool
	pub, use [2]int        // revision the cluster published last / the newest one published so far (= what the code has to work with)
	stopTook time.Duration // observed duration of Stop()
}

func (in *rmInst) hook(r sim.Request) sim.Action {
	if r.Opcode != memd.CmdObserveSeqNo {
		return sim.Default()
	}
	in.mu.Lock()
	defer in.mu.Unlock()
	k := [2]int{r.Node, int(r.Vb)}
	st := in.pairs[k]
	if st == nil {
		st = &rmPair{}
		in.pairs[k] = st
	}
	if st.silent {
		st.silent = false
		return sim.Silent()
	}
	if st.fails > 0 {
		st.fails--
		return sim.Status(st.code)
	}
	st.count++ // only requests that get a real answer count as "asked" (retries after TMPFAIL/BUSY are the same request)
	if in.stagger && st.pos > 0 {
		// replies of one poll round of one vBucket leave at roundStart + slack + (pos-1)*unit: the
		// requests of a round are sent back to back (they arrive within the slack), and no reply
		// leaves before the slack is over, so a request that arrives later belongs to the next round
		now := time.Now()
		rd := in.rounds[int(r.Vb)]
		if rd.IsZero() || now.Sub(rd) >= rmStaggerSlack {
			rd = now
			in.rounds[int(r.Vb)] = rd
		}
		d := rd.Add(rmStaggerSlack + time.Duration(st.pos-1)*rmStaggerUnit).Sub(now)
		if d < time.Millisecond {
			d = time.Millisecond
		}
		return sim.Delay(d)
	}
	return sim.Default()
}

func (in *rmInst) pair(node, vb int) *rmPair {
	k := [2]int{node, vb}
	if in.pairs[k] == nil {
		in.pairs[k] = &rmPair{}
	}
	return in.pairs[k]
}

// assign distinct KV nodes to the listed indices of a row (index 0 keeps node 0 when possible:
// the simulated node serves DCP on every listener, so any assignment works)
func rmRow(n int, abs []int, kv int, prev []int, pick func(int) int) []int {
	row := make([]int, n)
	used := map[int]bool{}
	for i := range row {
		row[i] = -1
	}
	// keep earlier assignments of indices that stay listed
	for i := 0; i < n && i < len(prev); i++ {
		if !rmContains(abs, i) && prev[i] >= 0 {
			row[i] = prev[i]
			used[prev[i]] = true
		}
	}
	for i := 0; i < n; i++ {
		if rmContains(abs, i) || row[i] >= 0 {
			continue
		}
		var free []int
		for nd := 0; nd < kv; nd++ {
			// a node that served another index of the previous row is still polled by the old
			// generation until the reset: giving it a new answer would change the OLD table
			if !used[nd] && !rmContains(prev, nd) {
				free = append(free, nd)
			}
		}
		nd := free[pick(len(free))]
		row[i] = nd
		used[nd] = true
	}
	return row
}

func newRmInst(scs []*rmScript, kv int, interval time.Duration, pick func(int) int) *rmInst {
	in := &rmInst{scs: scs, kv: kv, interval: interval, pairs: map[[2]int]*rmPair{}, disp: map[uint16][]uint64{}, rounds: map[int]time.Time{}}
	n := scs[0].n
	in.node = sim.New(sim.Options{NumVb: len(scs), Replicas: n - 1, KVNodes: kv})
	for vb, sc := range scs {
		row := rmRow(n, sc.abs, kv, nil, pick)
		in.rows = append(in.rows, row)
		in.node.SetReplicaMap(uint16(vb), row)
		for i, nd := range row {
			if nd >= 0 {
				in.node.SetPersist(nd, uint16(vb), sc.v[i][0], sc.v[i][1])
			}
		}
	}
	in.node.SetRevision(rmRev0[0], rmRev0[1])
	in.pub, in.use = rmRev0, rmRev0
	if err := in.node.Start(); err != nil {
		panic(err)
	}
	in.node.OnRequest(in.hook)
	cfg := in.node.Config("c07", "file")
	cfg.RollbackMitigation.Disabled = false
	cfg.RollbackMitigation.Interval = interval
	cfg.RollbackMitigation.ConfigWatchInterval = 20 * time.Millisecond
	in.cl = couchbase.NewClient(cfg)
	if err := in.cl.Connect(); err != nil {
		panic(err)
	}
	if err := in.cl.DcpConnect(true, false); err != nil {
		panic(err)
	}
	vbIds := make([]uint16, len(scs))
	for i := range vbIds {
		vbIds[i] = uint16(i)
	}
	in.rm = couchbase.NewRollbackMitigation(in.cl, cfg, vbIds, func(p *models.PersistSeqNo) {
		in.mu.Lock()
		in.disp[p.VbID] = append(in.disp[p.VbID], uint64(p.SeqNo))
		in.mu.Unlock()
	})
	return in
}

func (in *rmInst) close() {
	if in.started && !in.stopped {
		in.rm.Stop()
	}
	in.cl.DcpClose()
	in.cl.Close()
	in.node.Close()
}

// warmUp asks every listed copy once through gocbcore directly, so that the KV connections to
// all nodes exist before the first (staggered) poll round of the code under test.
func (in *rmInst) warmUp() {
	in.mu.Lock()
	st := in.stagger
	in.stagger = false
	in.mu.Unlock()
	var wg sync.WaitGroup
	for vb, row := range in.rows {
		for idx, nd := range row {
			if nd < 0 {
				continue
			}
			wg.Add(1)
			_, err := in.cl.GetAgent().ObserveVb(gocbcore.ObserveVbOptions{VbID: uint16(vb), ReplicaIdx: idx,
				Deadline: time.Now().Add(5 * time.Second)}, func(*gocbcore.ObserveVbResult, error) { wg.Done() })
			if err != nil {
				wg.Done()
			}
		}
	}
	wg.Wait()
	in.mu.Lock()
	in.stagger = st
	in.mu.Unlock()
}

// snapshot of the per-pair request counters of all listed copies
func (in *rmInst) marks() map[[2]int]int {
	in.mu.Lock()
	defer in.mu.Unlock()
	m := map[[2]int]int{}
	for vb, row := range in.rows {
		for _, nd := range row {
			if nd >= 0 {
				m[[2]int{nd, vb}] = in.pair(nd, vb).count
			}
		}
	}
	return m
}

// waitRounds blocks until every listed copy was asked `more` times since the marks.
func (in *rmInst) waitRounds(m map[[2]int]int, more int, limit time.Duration) bool {
	deadline := time.Now().Add(limit)
	for {
		in.mu.Lock()
		ok := true
		for k, c := range m {
			if in.pair(k[0], k[1]).count < c+more {
				ok = false
				break
			}
		}
		in.mu.Unlock()
		if ok {
			time.Sleep(2 * time.Millisecond)
			return true
		}
		if time.Now().After(deadline) {
			return false
		}
		time.Sleep(time.Millisecond)
	}
}

func (in *rmInst) take(vb int) []uint64 {
	in.mu.Lock()
	defer in.mu.Unlock()
	d := in.disp[uint16(vb)]
	in.disp[uint16(vb)] = nil
	return d
}

const (
	rmStaggerUnit  = 35 * time.Millisecond
	rmStaggerSlack = 40 * time.Millisecond
)

// run executes the scripts of the instance in lockstep and returns one observation line per script.
func (in *rmInst) run(pick func(int) int) []string {
	out := make([][]string, len(in.scs))
	nsteps := len(in.scs[0].steps)
	for si := 0; si < nsteps; si++ {
		kind := byte('l')
		for _, sc := range in.scs {
			if k := sc.steps[si].kind; k == 's' || k == 'm' || k == 'e' {
				kind = 's'
			} else if k == 'x' {
				kind = 'x'
			}
		}
		switch kind {
		case 's':
			// new rows first (SetPersist for copies that become listed), stagger delays, then start / bump
			// the revision this step publishes, and whether the code has to adopt it
			cfgStep := in.scs[0].steps[si].kind == 'e'
			adopt := true
			if in.started {
				if cfgStep {
					in.pub = [2]int{in.scs[0].steps[si].ep, in.scs[0].steps[si].rev}
				} else {
					in.pub[1]++
				}
				if adopt = rmNewer(in.use, in.pub); adopt {
					in.use = in.pub
				}
			}
			in.mu.Lock()
			in.stagger = adopt
			in.mu.Unlock()
			remapVb, remapRow := -1, []int(nil)
			for vb, sc := range in.scs {
				st := sc.steps[si]
				row := in.rows[vb]
				if !adopt {
					continue // the row does not change (rmExecutable) and nothing restarts
				}
				if st.kind == 'm' || (st.kind == 'e' && rmDots(st.abs) != rmDots(sc.abs)) {
					row = rmRow(sc.n, st.abs, in.kv, in.rows[vb], pick)
					remapVb, remapRow = vb, row
					in.rows[vb] = row
					sc.abs = st.abs
					for i, nd := range row {
						if nd >= 0 {
							in.node.SetPersist(nd, uint16(vb), sc.v[i][0], sc.v[i][1])
						}
					}
				}
				in.mu.Lock()
				for _, nd := range row {
					if nd >= 0 {
						in.pair(nd, vb).pos = 0
					}
				}
				for pos, i := range st.order {
					in.pair(row[i], vb).pos = pos + 1
				}
				in.mu.Unlock()
			}
			if !in.started {
				in.warmUp()
			}
			flBefore := in.node.Count(memd.CmdDcpGetFailoverLog)
			if !in.started {
				func() {
					defer func() {
						if r := recover(); r != nil {
							for vb := range in.scs {
								out[vb] = append(out[vb], "start-panic")
							}
						}
					}()
					in.rm.Start()
					in.started = true
				}()
				if !in.started {
					return rmJoin(out)
				}
			} else if !in.stopped {
				switch {
				case cfgStep && remapVb >= 0:
					in.node.SetReplicaMapRevision(uint16(remapVb), remapRow, in.pub[0], in.pub[1])
				case cfgStep:
					in.node.SetRevision(in.pub[0], in.pub[1])
				case remapVb >= 0:
					in.node.SetReplicaMap(uint16(remapVb), remapRow)
				default:
					in.node.BumpConfig()
				}
			}
			if !in.stopped && adopt {
				// the new generation has started once it has fetched the failover logs of all its vBuckets
				limit := 10 * time.Second
				if cfgStep {
					limit = 3 * time.Second // a config that is (wrongly) ignored never restarts anything
				}
				deadline := time.Now().Add(limit)
				for in.node.Count(memd.CmdDcpGetFailoverLog) < flBefore+len(in.scs) && time.Now().Before(deadline) {
					time.Sleep(time.Millisecond)
				}
				in.waitRounds(in.marks(), 3, 20*time.Second)
			} else if !in.stopped {
				// not newer than the config in use: gocbcore / configWatch must ignore it; eight watch intervals, then two poll rounds
				time.Sleep(160 * time.Millisecond)
				in.waitRounds(in.marks(), 3, 20*time.Second)
			}
			in.mu.Lock()
			in.stagger = false
			in.mu.Unlock()
			for vb := range in.scs {
				d := in.take(vb)
				p := make([]string, len(d))
				for i, x := range d {
					p[i] = strconv.FormatUint(x, 10)
				}
				out[vb] = append(out[vb], "["+strings.Join(p, ".")+"]")
			}
		case 'x':
			done := make(chan struct{})
			t0 := time.Now()
			go func() { in.rm.Stop(); in.stopTook = time.Since(t0); close(done) }()
			res := "stopped"
			select {
			case <-done:
			case <-time.After(12 * time.Second):
				res = "stop-hung"
			}
			in.stopped = true
			for vb := range in.scs {
				if d := in.take(vb); len(d) > 0 {
					out[vb] = append(out[vb], res+"+dispatch")
				} else {
					out[vb] = append(out[vb], res)
				}
			}
		default:
			m := in.marks()
			for vb, sc := range in.scs {
				st := sc.steps[si]
				if st.kind == 'i' {
					continue
				}
				sc.v[st.idx] = [2]uint64{st.u, st.q}
				nd := in.rows[vb][st.idx]
				if nd < 0 {
					continue // unlisted copy: nobody asks it
				}
				in.mu.Lock()
				p := in.pair(nd, vb)
				switch st.kind {
				case 't':
					p.fails, p.code = st.k, memd.StatusTmpFail
				case 'b':
					p.fails, p.code = st.k, memd.StatusBusy
				case 'o':
					p.silent = true
				}
				in.mu.Unlock()
				in.node.SetPersist(nd, uint16(vb), st.u, st.q)
			}
			if in.started && !in.stopped {
				in.waitRounds(m, 3, 30*time.Second)
			} else if in.stopped {
				time.Sleep(4 * in.interval)
			}
			for vb := range in.scs {
				d := in.take(vb)
				switch len(d) {
				case 0:
					out[vb] = append(out[vb], "n")
				case 1:
					out[vb] = append(out[vb], "d"+strconv.FormatUint(d[0], 10))
				default:
					p := make([]string, len(d))
					for i, x := range d {
						p[i] = strconv.FormatUint(x, 10)
					}
					out[vb] = append(out[vb], "["+strings.Join(p, ".")+"]")
				}
			}
		}
	}
	return rmJoin(out)
}

func rmJoin(out [][]string) []string {
	r := make([]string, len(out))
	for i, o := range out {
		r[i] = strings.Join(o, " ")
	}
	return r
}

// ---- generator: one instance plan, then one script per vBucket following it

var rmUUIDs = []uint64{5, 5, 5, 6, 7, 0, 1 << 63, ^uint64(0)}

func rmSeq(r *Rng) uint64 {
	switch r.Intn(12) {
	case 0:
		return 0
	case 1:
		return 1<<63 + uint64(r.Intn(5))
	case 2:
		return ^uint64(0) - uint64(r.Intn(3))
	}
	return uint64(r.Intn(20))
}

func rmPerm(r *Rng, l []int) []int {
	p := append([]int(nil), l...)
	for i := len(p) - 1; i > 0; i-- {
		j := r.Intn(i + 1)
		p[i], p[j] = p[j], p[i]
	}
	return p
}

func rmListed(n int, abs []int) []int {
	var l []int
	for i := 0; i < n; i++ {
		if !rmContains(abs, i) {
			l = append(l, i)
		}
	}
	return l
}

func rmAbs(r *Rng, n, kv int) []int {
	var abs []int
	listed := 1
	for i := 1; i < n; i++ {
		if listed >= kv || r.Chance(25) {
			abs = append(abs, i)
		} else {
			listed++
		}
	}
	return abs
}

// rmAbsRemap: the unlisted set after a map change; listed copies may be dropped (never index 0),
// unlisted ones may be added as long as a KV node is free that the old row did not use
func rmAbsRemap(r *Rng, n, kv int, old []int) []int {
	free := kv - len(rmListed(n, old))
	var abs []int
	for i := 1; i < n; i++ {
		if rmContains(old, i) {
			if free > 0 && r.Chance(60) {
				free--
			} else {
				abs = append(abs, i)
			}
		} else if r.Chance(35) {
			abs = append(abs, i)
		}
	}
	return abs
}

// rmCfg: revision of every 'e' step of a plan, whether the code has to adopt it, and a tag
type rmCfg struct {
	ep, rev int
	adopt   bool
	tag     string
}

// rmPlanRevs walks a plan and chooses the revision of every 'e' step: a new revision epoch with a smaller / equal / larger
// rev (quorum-loss fail-over restarts the rev counter), the next rev(s) of the epoch in use, and revisions that are NOT
// newer (older epoch with a larger rev, the same revision again, a smaller rev of the same epoch)
func rmPlanRevs(r *Rng, plan []byte) []rmCfg {
	out := make([]rmCfg, len(plan))
	pub, use := rmRev0, rmRev0
	started := false
	for i, k := range plan {
		switch k {
		case 's', 'm':
			if started {
				pub[1]++
				if rmNewer(use, pub) {
					use = pub
				}
			}
			started = true
		case 'e', 'E':
			var c rmCfg
			if k == 'e' {
				switch r.Intn(5) {
				case 0, 1:
					c = rmCfg{use[0] + 1, 1 + r.Intn(use[1]-1), true, "cfg-epoch.new-epoch-smaller-rev"}
				case 2:
					c = rmCfg{use[0] + 1, use[1], true, "cfg-epoch.new-epoch-equal-rev"}
				case 3:
					c = rmCfg{use[0] + r.Range(1, 2), use[1] + r.Range(1, 50), true, "cfg-epoch.new-epoch-larger-rev"}
				default:
					c = rmCfg{use[0], use[1] + r.Range(1, 3), true, "cfg-epoch.same-epoch-next-rev"}
				}
			} else {
				switch r.Intn(3) {
				case 0:
					c = rmCfg{use[0] - 1, use[1] + r.Range(1, 500), false, "cfg-epoch.older-epoch-larger-rev"}
				case 1:
					c = rmCfg{use[0], use[1], false, "cfg-epoch.same-revision"}
				default:
					c = rmCfg{use[0], 1 + r.Intn(use[1]-1), false, "cfg-epoch.same-epoch-smaller-rev"}
				}
			}
			pub = [2]int{c.ep, c.rev}
			if rmNewer(use, pub) != c.adopt {
				panic("rmPlanRevs: wrong expectation")
			}
			if c.adopt {
				use = pub
			}
			out[i] = c
			plan[i] = 'e'
		}
	}
	return out
}

// rmPlan: kinds of the steps of an instance ('l' = local step chosen per script; 'e' / 'E' = a config revision that has to
// be adopted / ignored, see rmPlanRevs)
func rmPlan(r *Rng, withTimeout bool) []byte {
	var p []byte
	if r.Chance(30) {
		for i := r.Range(1, 2); i > 0; i-- {
			p = append(p, 'l') // answers change before Start(): nothing is polled yet
		}
	}
	p = append(p, 's')
	for i := r.Range(3, 7); i > 0; i-- {
		p = append(p, 'l')
	}
	if r.Chance(60) {
		switch c := r.Intn(100); {
		case c < 35:
			p = append(p, 'm')
		case c < 50:
			p = append(p, 's')
		case c < 85:
			p = append(p, 'e')
		default:
			// a revision that is not newer is ignored (old layout, no restart); the next newer one is adopted
			p = append(p, 'E')
			for i := r.Range(1, 2); i > 0; i-- {
				p = append(p, 'l')
			}
			p = append(p, 'e')
		}
		for i := r.Range(2, 5); i > 0; i-- {
			p = append(p, 'l')
		}
	}
	if withTimeout {
		p = append(p, 'o')
		p = append(p, 'l')
	}
	p = append(p, 'x')
	if r.Chance(50) {
		p = append(p, 'l')
	}
	return p
}

func rmGenScript(r *Rng, n, kv int, plan []byte, revs []rmCfg, hasM bool, timeoutHere bool) (*rmScript, []string) {
	sc := &rmScript{n: n, abs: rmAbs(r, n, kv)}
	tags := map[string]bool{}
	style := r.Intn(10) // 0: all zero at start, 1-2: agreeing, else mixed
	u0 := rmUUIDs[r.Intn(len(rmUUIDs))]
	for i := 0; i < n; i++ {
		switch {
		case style == 0:
			sc.v = append(sc.v, [2]uint64{0, 0})
		case style <= 4:
			sc.v = append(sc.v, [2]uint64{u0, rmSeq(r)})
		default:
			sc.v = append(sc.v, [2]uint64{rmUUIDs[r.Intn(len(rmUUIDs))], rmSeq(r)})
		}
	}
	if len(sc.abs) > 0 {
		tags["unlisted-copies"] = true
	}
	abs := sc.abs
	cur := append([][2]uint64(nil), sc.v...)
	started, stopped := false, false
	for pi, k := range plan {
		switch k {
		case 's':
			sc.steps = append(sc.steps, rmStep{kind: 's', order: rmPerm(r, rmListed(n, abs))})
			if started {
				tags["config-bump"] = true
			}
			started = true
		case 'e':
			c := revs[pi]
			if c.adopt && hasM {
				// the new revision re-creates / drops / moves copies of this vBucket
				abs = rmAbsRemap(r, n, kv, abs)
				tags["cfg-epoch.map-change"] = true
			}
			sc.steps = append(sc.steps, rmStep{kind: 'e', ep: c.ep, rev: c.rev, abs: abs, order: rmPerm(r, rmListed(n, abs))})
			tags[c.tag] = true
		case 'm':
			if hasM {
				abs = rmAbsRemap(r, n, kv, abs)
				sc.steps = append(sc.steps, rmStep{kind: 'm', abs: abs, order: rmPerm(r, rmListed(n, abs))})
				tags["map-change"] = true
			} else {
				sc.steps = append(sc.steps, rmStep{kind: 's', order: rmPerm(r, rmListed(n, abs))})
				tags["config-bump"] = true
			}
		case 'x':
			sc.steps = append(sc.steps, rmStep{kind: 'x'})
			stopped = true
		case 'o', 'l':
			listed := rmListed(n, abs)
			st := rmStep{kind: 'r'}
			c := r.Intn(100)
			switch {
			case c < 8:
				st = rmStep{kind: 'i'}
			case c < 16 && len(abs) > 0: // an unlisted copy "changes": nobody asks it
				st.idx = abs[r.Intn(len(abs))]
				st.u, st.q = rmUUIDs[r.Intn(len(rmUUIDs))], rmSeq(r)
				tags["change-of-unlisted"] = true
			case c < 26: // the same answer again
				st.idx = listed[r.Intn(len(listed))]
				st.u, st.q = cur[st.idx][0], cur[st.idx][1]
				tags["repeat"] = true
			case c < 40: // the vbUUID of one copy changes (failover on that copy)
				st.idx = listed[r.Intn(len(listed))]
				st.u, st.q = rmUUIDs[r.Intn(len(rmUUIDs))], cur[st.idx][1]
				tags["uuid-change"] = true
			case c < 65: // repair towards agreement: take the uuid of another listed copy
				st.idx = listed[r.Intn(len(listed))]
				o := listed[r.Intn(len(listed))]
				st.u, st.q = cur[o][0], rmSeq(r)
				if r.Chance(50) {
					st.q = cur[st.idx][1] + uint64(r.Intn(4)) // persisted seqno moves on
				}
			case c < 72: // back to (0,0)
				st.idx = listed[r.Intn(len(listed))]
				st.u, st.q = 0, 0
				tags["to-zero"] = true
			default:
				st.idx = listed[r.Intn(len(listed))]
				st.u, st.q = rmUUIDs[r.Intn(len(rmUUIDs))], rmSeq(r)
			}
			if st.kind == 'r' && started && !stopped && !rmContains(abs, st.idx) {
				if k == 'o' && timeoutHere {
					st.kind = 'o'
					tags["timeout"] = true
				} else if r.Chance(18) {
					st.kind = 't'
					st.k = r.Range(1, 3)
					tags["tmpfail"] = true
				} else if r.Chance(18) {
					st.kind = 'b'
					st.k = r.Range(1, 3)
					tags["busy"] = true
				}
			}
			if st.kind != 'i' {
				cur[st.idx] = [2]uint64{st.u, st.q}
			}
			if !started {
				tags["change-before-start"] = true
			}
			if stopped {
				tags["change-after-stop"] = true
			}
			sc.steps = append(sc.steps, st)
		}
	}
	var tl []string
	for t := range tags {
		tl = append(tl, t)
	}
	tl = append(tl, fmt.Sprintf("entries-%d", n), fmt.Sprintf("kvnodes-%d", kv))
	sort.Strings(tl)
	return sc, tl
}

type rmJob struct {
	scs      []*rmScript
	ops      []string
	tags     [][]string
	kv       int
	interval time.Duration
	seed     uint64
	res      []string
	stopTook time.Duration
}

func (j *rmJob) exec() {
	defer func() {
		if r := recover(); r != nil {
			j.res = make([]string, len(j.scs))
			for i := range j.res {
				j.res[i] = "harness-panic"
			}
		}
	}()
	rng := &Rng{s: rbMix(j.seed)}
	pick := func(n int) int { return rng.Intn(n) }
	// the executor works from the parsed op lines, so that a replay takes the identical path
	var scs []*rmScript
	for _, op := range j.ops {
		sc, ok := rmParse(op)
		if !ok {
			panic("generator produced an unparsable op: " + op)
		}
		scs = append(scs, sc)
	}
	if !rmExecutable(scs, j.kv) {
		panic("generator produced a non-executable instance")
	}
	in := newRmInst(scs, j.kv, j.interval, pick)
	defer in.close()
	j.res = in.run(pick)
	j.stopTook = in.stopTook
}

// ---- Stop() during a slow round

const rmStopReps = 16

type rmStopJob struct {
	i, d, p int
	res     string
	took    time.Duration
}

func (j *rmStopJob) op() string { return fmt.Sprintf("rm-stop-slow %d %d %d", j.i, j.d, j.p) }

func rmStopParse(op string) (*rmStopJob, bool) {
	f := strings.Fields(op)
	if len(f) != 4 || f[0] != "rm-stop-slow" {
		return nil, false
	}
	var v [3]int
	for k := 0; k < 3; k++ {
		n, err := strconv.Atoi(f[k+1])
		if err != nil || n < 0 || n > 2000 {
			return nil, false
		}
		v[k] = n
	}
	if v[0] < 5 || v[1] < 3*v[0] || v[2] >= v[1] {
		return nil, false
	}
	return &rmStopJob{i: v[0], d: v[1], p: v[2]}, true
}

func (j *rmStopJob) exec() {
	defer func() {
		if r := recover(); r != nil {
			j.res = "harness-panic"
		}
	}()
	const nvb = 4
	interval := time.Duration(j.i) * time.Millisecond
	delay := time.Duration(j.d) * time.Millisecond
	phase := time.Duration(j.p) * time.Millisecond
	node := sim.New(sim.Options{NumVb: nvb, Replicas: 1, KVNodes: 2})
	for vb := 0; vb < nvb; vb++ {
		node.SetReplicaMap(uint16(vb), []int{0, 1})
		node.SetPersist(0, uint16(vb), 5, 10)
		node.SetPersist(1, uint16(vb), 5, 10)
	}
	if err := node.Start(); err != nil {
		panic(err)
	}
	defer node.Close()
	var observes, replicaObserves atomic.Int64
	var slow atomic.Bool
	var once sync.Once
	slowStart := make(chan time.Time, 1)
	node.OnRequest(func(r sim.Request) sim.Action {
		if r.Opcode != memd.CmdObserveSeqNo {
			return sim.Default()
		}
		observes.Add(1)
		if r.Node != 1 {
			return sim.Default()
		}
		replicaObserves.Add(1)
		if slow.Load() {
			once.Do(func() { slowStart <- time.Now() })
			return sim.Delay(delay)
		}
		return sim.Default()
	})
	cfg := node.Config("c07stop", "file")
	cfg.RollbackMitigation.Disabled = false
	cfg.RollbackMitigation.Interval = interval
	cfg.RollbackMitigation.ConfigWatchInterval = 20 * time.Millisecond
	cl := couchbase.NewClient(cfg)
	if err := cl.Connect(); err != nil {
		panic(err)
	}
	defer cl.Close()
	if err := cl.DcpConnect(true, false); err != nil {
		panic(err)
	}
	defer cl.DcpClose()
	vbIds := make([]uint16, nvb)
	for i := range vbIds {
		vbIds[i] = uint16(i)
	}
	rm := couchbase.NewRollbackMitigation(cl, cfg, vbIds, func(*models.PersistSeqNo) {})
	// the KV connections to both nodes exist before the code under test polls
	var wg sync.WaitGroup
	for vb := 0; vb < nvb; vb++ {
		for idx := 0; idx < 2; idx++ {
			wg.Add(1)
			_, err := cl.GetAgent().ObserveVb(gocbcore.ObserveVbOptions{VbID: uint16(vb), ReplicaIdx: idx,
				Deadline: time.Now().Add(5 * time.Second)}, func(*gocbcore.ObserveVbResult, error) { wg.Done() })
			if err != nil {
				wg.Done()
			}
		}
	}
	wg.Wait()
	base := replicaObserves.Load()
	started := false
	func() {
		defer func() {
			if r := recover(); r != nil {
				j.res = "start-panic"
			}
		}()
		rm.Start()
		started = true
	}()
	if !started {
		return
	}
	// two ordinary rounds, then the slow one
	limit := time.Now().Add(10 * time.Second)
	for replicaObserves.Load() < base+2*nvb && time.Now().Before(limit) {
		time.Sleep(time.Millisecond)
	}
	slow.Store(true)
	var t0 time.Time
	select {
	case t0 = <-slowStart:
	case <-time.After(5 * time.Second):
		j.res = "no-round"
		go rm.Stop()
		return
	}
	time.Sleep(time.Until(t0.Add(phase)))
	done := make(chan struct{})
	called := time.Now()
	go func() { rm.Stop(); close(done) }()
	select {
	case <-done:
	case <-time.After(4 * time.Second):
		j.res = "hang" // the goroutine blocked in Stop() stays behind
		j.took = 4 * time.Second
		return
	}
	j.took = time.Since(called)
	res := "stopped"
	if j.took > delay-phase+time.Second {
		res = "stopped-late"
	}
	slow.Store(false)
	c0 := observes.Load()
	time.Sleep(5 * interval)
	j.res = fmt.Sprintf("%s late-observes=%d", res, observes.Load()-c0)
}

func rmRunStopJobs(jobs []*rmStopJob) {
	var wg sync.WaitGroup
	for _, j := range jobs {
		wg.Add(1)
		go func(j *rmStopJob) { defer wg.Done(); j.exec() }(j)
	}
	wg.Wait()
}

func runC07Rm(c *Ctx) {
	e := c.E
	if replayFile != "" {
		f, err := os.Open(replayFile)
		if err != nil {
			panic(err)
		}
		defer f.Close()
		sc := bufio.NewScanner(f)
		sc.Buffer(make([]byte, 1<<20), 1<<24)
		for sc.Scan() {
			op := strings.SplitN(sc.Text(), "\t", 2)[0]
			if strings.TrimSpace(op) == "" {
				continue
			}
			if sj, ok := rmStopParse(strings.TrimSpace(op)); ok {
				sj.exec()
				e.Line(op, sj.res)
				e.EndCase(true, "replay")
				continue
			}
			s, ok := rmParse(op)
			if !ok || !rmExecutable([]*rmScript{s}, s.n) {
				e.Line(op, "bad-op")
				e.EndCase(false, "replay-bad-op")
				continue
			}
			j := &rmJob{ops: []string{op}, scs: []*rmScript{s}, kv: s.n, interval: 20 * time.Millisecond, seed: 1}
			j.exec()
			e.Line(op, j.res[0])
			e.EndCase(true, "replay")
		}
		return
	}
	rng := &Rng{s: rbMix(c.Seed ^ 0xC07B)}
	// Stop() in the middle of a slow poll round: rmStopReps instances side by side, each with its own interval, delay and phase
	{
		srng := &Rng{s: rbMix(c.Seed ^ 0xC13B2)}
		var sj []*rmStopJob
		for k := 0; k < c.N(rmStopReps, 4*rmStopReps); k++ {
			i := srng.Range(15, 25)
			d := i * srng.Range(3, 6)
			p := srng.Range(i+3, d-8) // the next tick is buffered, the round still runs
			if k%8 == 7 {
				p = srng.Range(1, i-4) // before the next tick
			}
			sj = append(sj, &rmStopJob{i: i, d: d, p: p})
		}
		t0 := time.Now()
		for lo := 0; lo < len(sj); lo += rmStopReps {
			hi := lo + rmStopReps
			if hi > len(sj) {
				hi = len(sj)
			}
			rmRunStopJobs(sj[lo:hi])
		}
		c.Extra["stop_slow_wall_ms"] = time.Since(t0).Milliseconds()
		var maxTook time.Duration
		for _, j := range sj {
			e.Line(j.op(), j.res)
			tag := "stop-slow-tick-buffered"
			if j.p < j.i {
				tag = "stop-slow-before-tick"
			}
			e.EndCase(true, tag)
			if j.took > maxTook {
				maxTook = j.took
			}
		}
		c.Extra["stop_slow_max_stop_ms"] = maxTook.Milliseconds()
	}
	var jobs []*rmJob
	// directed instance (constant across seeds): the third-round spike of DESIGN.md §3.3 and its neighbours
	directed := []string{
		"rm-script 3 - 0:0,0:0,0:0 s:0.1.2 r:0:5:10 r:1:5:7 r:2:5:9 r:1:5:12 r:2:6:9 r:2:5:11 s:2.1.0 x r:0:5:99",
		"rm-script 3 - 5:10,5:7,5:9 s:0.1.2 r:1:5:7 i r:1:5:8 t:1:5:9:2 b:0:5:8:1 r:0:0:0 s:1.0.2 x i",
		"rm-script 3 1 5:10,9:9,5:4 s:2.0 r:1:5:1 r:2:5:6 r:0:5:5 r:0:5:6 r:2:7:6 r:2:5:7 m:-:1.2.0 x i",
		"rm-script 3 2 0:3,0:4,0:5 s:1.0 r:0:0:0 r:0:0:4 r:1:0:2 r:1:1:2 r:1:0:9 r:0:0:9 s:0.1 x r:0:0:10",
		"rm-script 3 1.2 7:0,0:0,0:0 s:0 r:0:7:1 r:0:7:1 r:0:8:1 r:0:8:18446744073709551615 i i s:0 x i",
	}
	{
		j := &rmJob{kv: 3, interval: 20 * time.Millisecond, seed: 77}
		for _, op := range directed {
			sc, ok := rmParse(op)
			if !ok {
				panic("bad directed op " + op)
			}
			j.scs = append(j.scs, sc)
			j.ops = append(j.ops, op)
			j.tags = append(j.tags, []string{"directed"})
		}
		jobs = append(jobs, j)
	}
	// directed instance 2 (constant across seeds): the cluster starts at revision (2,100); a quorum-loss fail-over starts epoch 3
	// and restarts the rev counter; the new map lists a replica that was unlisted (it lags), drops one, keeps one
	directedCfg := []string{
		"rm-script 2 1 5:100,5:0 s:0 r:0:5:100 e:3:12:-:0.1 r:0:5:150 r:1:5:120 r:1:5:160 e:3:12:-:1.0 e:2:900:-:0.1 r:0:5:170 e:3:13:-:0.1 x",
		"rm-script 2 - 5:7,5:9 s:1.0 r:0:5:8 e:3:12:-:0.1 r:0:5:30 r:1:5:1 r:0:5:31 e:3:12:-:0.1 e:2:900:-:1.0 r:0:5:32 e:3:13:1:0 x",
		"rm-script 2 - 5:4,5:6 s:0.1 r:1:5:5 e:3:12:-:1.0 r:0:5:6 r:1:5:7 r:0:5:9 e:3:12:-:0.1 e:2:900:-:0.1 r:1:5:8 e:3:13:-:0.1 x",
	}
	{
		j := &rmJob{kv: 2, interval: 20 * time.Millisecond, seed: 78}
		for _, op := range directedCfg {
			sc, ok := rmParse(op)
			if !ok {
				panic("bad directed op " + op)
			}
			j.scs = append(j.scs, sc)
			j.ops = append(j.ops, op)
			j.tags = append(j.tags, []string{"directed", "cfg-epoch.directed"})
		}
		jobs = append(jobs, j)
	}
	ninst := c.N(120, 1500)
	ntimeout := c.N(3, 20)
	for i := 0; i < ninst; i++ {
		n := []int{1, 2, 2, 3, 3, 3, 4, 4, 4, 4}[rng.Intn(10)]
		kv := rng.Range(1, 4)
		if rng.Chance(60) {
			kv = n
		}
		nvb := rng.Range(4, 8)
		withTimeout := i < ntimeout
		plan := rmPlan(rng, withTimeout)
		revs := rmPlanRevs(rng, plan)
		j := &rmJob{kv: kv, interval: time.Duration(rng.Range(15, 25)) * time.Millisecond, seed: rng.U64()}
		mAt := rng.Intn(nvb)
		tAt := rng.Intn(nvb)
		for vb := 0; vb < nvb; vb++ {
			sc, tags := rmGenScript(rng, n, kv, plan, revs, vb == mAt, vb == tAt)
			j.scs = append(j.scs, sc)
			j.ops = append(j.ops, sc.op())
			j.tags = append(j.tags, tags)
		}
		jobs = append(jobs, j)
	}
	par := 10
	sem := make(chan struct{}, par)
	var wg sync.WaitGroup
	for _, j := range jobs {
		wg.Add(1)
		sem <- struct{}{}
		go func(j *rmJob) {
			defer wg.Done()
			defer func() { <-sem }()
			j.exec()
		}(j)
	}
	wg.Wait()
	for _, j := range jobs {
		for i, op := range j.ops {
			e.Line(op, j.res[i])
			nontrivial := false
			for _, t := range strings.Fields(j.res[i]) {
				if strings.HasPrefix(t, "d") && t != "d0" {
					nontrivial = true
				}
				if strings.HasPrefix(t, "[") && strings.Trim(t, "[]0.") != "" {
					nontrivial = true
				}
			}
			e.EndCase(nontrivial, j.tags[i]...)
		}
	}
	var maxStop time.Duration
	for _, j := range jobs {
		if j.stopTook > maxStop {
			maxStop = j.stopTook
		}
	}
	c.Extra["max_stop_ms"] = maxStop.Milliseconds() // bounded by the 5 s observe deadline when a request is outstanding
	c.Extra["instances"] = len(jobs)
	c.Extra["parallel_instances"] = par
}
