package main

// C16, last clause: "scraping while the stream is closed neither blocks nor crashes" – also when the scrape
// lands INSIDE Close (between `observers = nil` and `open = false`) or spans it.

import (
	"fmt"
	"sync"
	"time"

	"github.com/Trendyol/go-dcp/couchbase"
	"github.com/Trendyol/go-dcp/metric"
	"github.com/Trendyol/go-dcp/models"
	"github.com/Trendyol/go-dcp/stream"
	"github.com/Trendyol/go-dcp/tracing"
	"github.com/Trendyol/go-dcp/wrapper"
	"github.com/couchbase/gocbcore/v10"
	"github.com/prometheus/client_golang/prometheus"
)

func init() { props["c16race"] = runScrapeRace }

// fake client whose GetVBucketSeqNos can be held until released
type gateClient struct {
	*fakeClient
	hold    chan struct{}
	entered chan struct{}
}

func (g *gateClient) GetVBucketSeqNos(aware bool) (*wrapper.ConcurrentSwissMap[uint16, uint64], error) {
	if g.hold != nil && aware {
		select {
		case g.entered <- struct{}{}:
		default:
		}
		<-g.hold
	}
	return g.fakeClient.GetVBucketSeqNos(aware)
}

func collectOnce(col prometheus.Collector) (res string) {
	defer func() {
		if r := recover(); r != nil {
			res = "panic"
		}
	}()
	ch := make(chan prometheus.Metric, 4096)
	done := make(chan struct{})
	go func() {
		for range ch {
		}
		close(done)
	}()
	col.Collect(ch)
	close(ch)
	<-done
	return "ok"
}

func scrapeRace(kind string, nvb int, events int) string {
	buf := &obuf{}
	fc := newFakeClient(buf, 1024)
	gc := &gateClient{fakeClient: fc, entered: make(chan struct{}, 1)}
	meta := newFakeMeta(buf)
	co := &fakeConsumer{buf: buf, quiet: true}
	co.hook = func(i int, ctx *models.ListenerContext) { ctx.Ack() }
	disc := &fakeDisc{buf: buf}
	disc.set(0, nvb-1)
	eh := &fakeEH{}
	cfg := baseConfig()
	for vb := 0; vb < nvb; vb++ {
		fc.high[uint16(vb)] = 1000
	}
	stop := make(chan struct{}, 1)
	st := stream.NewStream(gc, meta, cfg, &couchbase.Version{Major: 7, Minor: 6}, &couchbase.BucketInfo{BucketType: "membase"},
		disc, co, map[uint32]string{}, stop, eh, tracing.NewTracerComponent())
	st.Open()
	for vb := 0; vb < nvb; vb++ {
		o := fc.observer(uint16(vb))
		o.SnapshotMarker(models.DcpSnapshotMarker{VbID: uint16(vb), StartSeqNo: 1, EndSeqNo: 100})
		for q := 1; q <= events; q++ {
			o.Mutation(gocbcore.DcpMutation{VbID: uint16(vb), SeqNo: uint64(q), Key: []byte("k"), Cas: 1700000000000000000})
		}
	}
	var col prometheus.Collector = metric.NewMetricCollector(gc, st, disc)
	switch kind {
	case "in-callback":
		// the scrape arrives while the AfterStreamStop callback of Close is running
		res := "not-run"
		eh.mu.Lock()
		eh.hook = func(s string) {
			if s == "ASP" {
				res = collectOnce(col)
			}
		}
		eh.mu.Unlock()
		st.Close(true)
		return res
	case "spanning":
		// the scrape starts on the open stream, Close completes while it waits for the sequence numbers
		gc.hold = make(chan struct{})
		var res string
		var wg sync.WaitGroup
		wg.Add(1)
		go func() { defer wg.Done(); res = collectOnce(col) }()
		select {
		case <-gc.entered:
		case <-time.After(2 * time.Second):
			close(gc.hold)
			wg.Wait()
			return "scrape-did-not-ask-seqnos:" + res
		}
		st.Close(true)
		close(gc.hold)
		wg.Wait()
		return res
	case "after":
		st.Close(true)
		return collectOnce(col)
	case "rebalance-window":
		cfg.Dcp.Group.Membership.RebalanceDelay = 300 * time.Millisecond
		st.Rebalance()
		r := collectOnce(col)
		time.Sleep(400 * time.Millisecond)
		return r + "," + collectOnce(col)
	}
	return "bad-op"
}

func runScrapeRace(c *Ctx) {
	kinds := []string{"in-callback", "spanning", "after", "rebalance-window"}
	type sc struct {
		kind    string
		nvb, ev int
	}
	var scs []sc
	if replayFile != "" {
		for _, l := range readOpLines(replayFile) {
			var s sc
			if n, _ := fmt.Sscanf(l, "c16-race %s %d %d", &s.kind, &s.nvb, &s.ev); n == 3 {
				scs = append(scs, s)
			}
		}
	} else {
		for i := 0; i < c.N(16, 80); i++ {
			scs = append(scs, sc{kinds[i%len(kinds)], 1 + c.R.Intn(4), c.R.Intn(4)})
		}
	}
	res := make([]string, len(scs))
	var wg sync.WaitGroup
	for i := range scs {
		wg.Add(1)
		go func(i int) {
			defer wg.Done()
			res[i] = scrapeRace(scs[i].kind, scs[i].nvb, scs[i].ev)
		}(i)
	}
	wg.Wait()
	for i, s := range scs {
		c.E.Line(fmt.Sprintf("c16-race %s %d %d", s.kind, s.nvb, s.ev), res[i])
		c.E.EndCase(true, "race."+s.kind)
	}
}
