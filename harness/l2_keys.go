package main

// Stream "c14w": property C14 (keys) on the wire.  Every KV key the library writes
// – as LOGGED BY THE SIMULATED NODE (KVWrites), not as computed by the harness – for
// group names drawn from the grammar of stream c14k:
//
//   key-cp HEXGROUP VB            => hex of the one key that real NewCBMetadata(realClient,cfg).Save({VB}) wrote
//                                    (`multi:<n>` if the writes of that Save went to n != 1 keys)
//   key-index HEXGROUP            => hex of the key of the FIRST write of real NewCBMembership (createIndex)
//   key-inst HEXGROUP HEXID       => hex of the other key NewCBMembership / heartbeat / monitor wrote; HEXID = the
//                                    instance id chosen by the library = the last 36 bytes of that logged key
//   key-wire-id HEXID             => uuid | other       (shape of that id; the Lean model needs colon-free ids)
//   key-wire-count membership HEXGROUP  => <number of distinct keys written by the membership object> (model: 2)
//   key-wire-dot HEXGROUP save|load|clear|control => failstop writes=0 | no-failstop writes=<n>
//                                    dotted group name: getCheckpointID panics – inside the errgroup / per-vBucket
//                                    goroutine for Save / Load (child process), in the caller for Clear (recover)
//
// `key-cp`, `key-inst`, `key-index` are the existing commands of lean/GoDcp/Driver/Keys.lean:
// the model key is compared with the logged key, and the monitor checks reserved prefix,
// `isMetadata`, and that the decoder recovers exactly (group, vb) / (group, id).

import (
	"encoding/hex"
	"fmt"
	"os"
	"strconv"
	"strings"
	"time"

	"github.com/Trendyol/go-dcp/config"
	"github.com/Trendyol/go-dcp/couchbase"
	"github.com/Trendyol/go-dcp/models"
	"github.com/asaskevich/EventBus"

	"verifharness/sim"
)

func init() { props["c14w"] = runC14W }

type kwEnv struct {
	node *sim.Node
	cfg  *config.Dcp
	cl   couchbase.Client
}

func newKwEnv() *kwEnv {
	e := &kwEnv{}
	e.node = sim.New(sim.Options{NumVb: 8})
	if err := e.node.Start(); err != nil {
		panic(err)
	}
	e.cfg = e.node.Config("kw", "couchbase")
	e.cl = couchbase.NewClient(e.cfg)
	if err := e.cl.Connect(); err != nil {
		panic(err)
	}
	return e
}

func (e *kwEnv) close() { e.cl.Close(); e.node.Close() }

func (e *kwEnv) distinctKeys() []string {
	var order []string
	seen := map[string]bool{}
	for _, w := range e.node.KVWrites() {
		if !seen[w.Key] {
			seen[w.Key] = true
			order = append(order, w.Key)
		}
	}
	return order
}

// quiesce waits until the node has seen no KV write for 45 ms (a membership object's heart-beat loop
// performs one more write after Close; it must not land in the next case's log)
func (e *kwEnv) quiesce() {
	last, stable := -1, 0
	for i := 0; i < 200 && stable < 3; i++ {
		n := len(e.node.KVWrites())
		if n == last {
			stable++
		} else {
			last, stable = n, 0
		}
		time.Sleep(15 * time.Millisecond)
	}
}

func kwDoc() *models.CheckpointDocument {
	return &models.CheckpointDocument{Checkpoint: &models.CheckpointDocumentCheckpoint{VbUUID: 1, SeqNo: 2,
		Snapshot: &models.CheckpointDocumentSnapshot{StartSeqNo: 2, EndSeqNo: 2}}, BucketUUID: "u"}
}

// real key of the checkpoint document of (group, vb), as seen by the node
func (e *kwEnv) checkpointKey(group string, vb uint16) string {
	c := *e.cfg
	c.Dcp.Group.Name = group
	e.node.ResetLogs()
	md := couchbase.NewCBMetadata(e.cl, &c)
	if err := md.Save(map[uint16]*models.CheckpointDocument{vb: kwDoc()}, map[uint16]bool{vb: true}, "u"); err != nil {
		return "save-err"
	}
	ks := e.distinctKeys()
	if len(ks) != 1 {
		return fmt.Sprintf("multi:%d", len(ks))
	}
	return kHex([]byte(ks[0]))
}

// real keys written by a membership object: (index key, instance keys..., number of distinct keys)
func (e *kwEnv) membershipKeys(group string) (res []string, err string) {
	defer func() {
		if r := recover(); r != nil {
			err = "panic"
		}
	}()
	c := *e.cfg
	c.Dcp.Group.Name = group
	c.Dcp.Group.Membership.Type = "couchbase"
	c.Dcp.Group.Membership.RebalanceDelay = 5 * time.Millisecond
	c.Dcp.Group.Membership.Config = map[string]string{"heartbeatInterval": "10ms", "monitorInterval": "10ms", "timeout": "5s"}
	e.node.ResetLogs()
	m := couchbase.NewCBMembership(&c, e.cl, EventBus.New())
	time.Sleep(60 * time.Millisecond) // a few heart beats and monitor rounds: their writes count as well
	m.Close()
	e.quiesce() // the loops notice the flags after their sleep, the heart beat after one more write
	return e.distinctKeys(), ""
}

func kwIDShape(id string) string {
	if len(id) != 36 {
		return "other"
	}
	for i := 0; i < len(id); i++ {
		ch := id[i]
		switch {
		case i == 8 || i == 13 || i == 18 || i == 23:
			if ch != '-' {
				return "other"
			}
		case (ch >= '0' && ch <= '9') || (ch >= 'a' && ch <= 'f'):
		default:
			return "other"
		}
	}
	return "uuid"
}

// ---- dotted names

func keyDotChild(op, addr string) {
	t := strings.Fields(op)
	gb, _ := hex.DecodeString(strings.TrimPrefix(t[1], "-"))
	cfg := l2ChildConfig(addr, string(gb), "couchbase")
	cl := couchbase.NewClient(cfg)
	if err := cl.Connect(); err != nil {
		fmt.Println("obs connect-error")
		return
	}
	md := couchbase.NewCBMetadata(cl, cfg)
	switch t[2] {
	case "save", "control":
		_ = md.Save(map[uint16]*models.CheckpointDocument{3: kwDoc()}, map[uint16]bool{3: true}, "u")
	case "load":
		_, _, _ = md.Load([]uint16{3}, "u")
	}
	// errgroup releases Wait() from a deferred call while the panicking goroutine is still unwinding:
	// Save may RETURN a moment before the runtime terminates the process.  Give the panic time to win.
	time.Sleep(300 * time.Millisecond)
	fmt.Println("obs returned")
}

func (e *kwEnv) dotted(op string) string {
	t := strings.Fields(op)
	if len(t) != 3 {
		return "bad-op"
	}
	gb, err := hex.DecodeString(strings.TrimPrefix(t[1], "-"))
	if err != nil {
		return "bad-op"
	}
	e.node.ResetLogs()
	stopped := false
	switch t[2] {
	case "clear":
		func() {
			defer func() {
				if r := recover(); r != nil {
					stopped = strings.Contains(fmt.Sprint(r), "unsupported group name includes dot")
				}
			}()
			c := *e.cfg
			c.Dcp.Group.Name = string(gb)
			_ = couchbase.NewCBMetadata(e.cl, &c).Clear([]uint16{3})
		}()
	case "save", "load", "control":
		res := l2RunChild("keydot", op, e.node.HTTPAddr())
		stopped = res.exit != 0 && strings.Contains(res.stderr, "panic:") && strings.Contains(res.stderr, "unsupported group name includes dot")
		if !stopped && !strings.Contains(res.stdout, "obs returned") {
			return "child-error"
		}
	default:
		return "bad-op"
	}
	w := len(e.node.KVWrites())
	if stopped {
		return fmt.Sprintf("failstop writes=%d", w)
	}
	return fmt.Sprintf("no-failstop writes=%d", w)
}

func runC14W(c *Ctx) {
	e := newKwEnv()
	defer e.close()
	E := c.E
	if replayFile != "" {
		b, err := os.ReadFile(replayFile)
		if err != nil {
			panic(err)
		}
		for _, ln := range strings.Split(string(b), "\n") {
			op := strings.TrimSpace(strings.SplitN(ln, "\t", 2)[0])
			t := strings.Fields(op)
			if len(t) == 0 {
				continue
			}
			res := "bad-op"
			gb := func(s string) (string, bool) {
				if s == "-" {
					return "", true
				}
				b, err := hex.DecodeString(s)
				return string(b), err == nil
			}
			switch {
			case t[0] == "key-cp" && len(t) == 3:
				if g, ok := gb(t[1]); ok {
					if vb, err := strconv.ParseUint(t[2], 10, 16); err == nil {
						res = e.checkpointKey(g, uint16(vb))
					}
				}
			case (t[0] == "key-index" && len(t) == 2) || (t[0] == "key-inst" && len(t) == 3) || (t[0] == "key-wire-count" && len(t) == 3):
				arg := t[1]
				if t[0] == "key-wire-count" {
					arg = t[2]
				}
				if g, ok := gb(arg); ok {
					ks, perr := e.membershipKeys(g)
					switch {
					case perr != "":
						res = perr
					case t[0] == "key-wire-count":
						res = strconv.Itoa(len(ks))
					case t[0] == "key-index" && len(ks) > 0:
						res = kHex([]byte(ks[0]))
					case t[0] == "key-inst" && len(ks) > 1:
						// a replayed instance id cannot be forced on the library: re-derive it from the new key
						res = kHex([]byte(ks[1]))
						if len(ks[1]) >= 36 {
							op = fmt.Sprintf("key-inst %s %s", t[1], kHex([]byte(ks[1][len(ks[1])-36:])))
						}
					}
				}
			case t[0] == "key-wire-id" && len(t) == 2:
				if id, ok := gb(t[1]); ok {
					res = kwIDShape(id)
				}
			case t[0] == "key-wire-dot":
				res = e.dotted(op)
			}
			E.Line(op, res)
			E.EndCase(true, "replay")
		}
		return
	}
	names := []string{"", "g", "group1", "all", "a:checkpoint:7", ":checkpoint:", "x:checkpoint:12:checkpoint:", "7", "12345", ":instance:all", "all:instance:",
		"_connector:cbgo:", "ü:日本", "😀", "a b", "\x00\xff", "a.b", ".", "g.1", "x.:checkpoint:1", "1.5"}
	for i := 0; i < c.N(40, 600); i++ {
		names = append(names, kGenName(c))
	}
	vbsFor := func() []uint16 {
		v := []uint16{0, uint16(c.R.Intn(1024))}
		if c.R.Chance(40) {
			v = append(v, []uint16{9, 10, 99, 100, 999, 1000, 1023, 65535}[c.R.Intn(8)])
		}
		return v
	}
	nDot := 0
	for _, g := range names {
		tags := kNameTags(g)
		hg := kHex([]byte(g))
		if strings.Contains(g, ".") {
			for _, what := range []string{"clear", "save", "load"} {
				if what != "clear" && nDot >= c.N(6, 40) {
					continue // children are dear: a few dotted names through Save / Load, all of them through Clear
				}
				op := fmt.Sprintf("key-wire-dot %s %s", hg, what)
				E.Line(op, e.dotted(op))
				E.EndCase(true, append(tags, "dot-"+what)...)
			}
			nDot++
		} else {
			for _, vb := range vbsFor() {
				E.Line(fmt.Sprintf("key-cp %s %d", hg, vb), e.checkpointKey(g, vb))
				E.EndCase(g != "", append(tags, "checkpoint-key")...)
			}
		}
		// the membership object has no group-name check: dotted names are written like any other
		ks, perr := e.membershipKeys(g)
		if perr != "" {
			E.Line("key-index "+hg, perr)
			E.EndCase(true, append(tags, "membership-panic")...)
			continue
		}
		if len(ks) > 0 {
			E.Line("key-index "+hg, kHex([]byte(ks[0])))
			E.EndCase(true, append(tags, "index-key")...)
		}
		for _, k := range ks[min(1, len(ks)):] {
			id := k
			if len(k) >= 36 {
				id = k[len(k)-36:]
			}
			E.Line(fmt.Sprintf("key-inst %s %s", hg, kHex([]byte(id))), kHex([]byte(k)))
			E.EndCase(true, append(tags, "instance-key")...)
			E.Line("key-wire-id "+kHex([]byte(id)), kwIDShape(id))
			E.EndCase(true, "instance-id")
		}
		E.Line("key-wire-count membership "+hg, strconv.Itoa(len(ks)))
		E.EndCase(true, append(tags, "membership-key-count")...)
	}
	// controls: the child mechanism reports a non-dotted name as what it is
	op := "key-wire-dot " + kHex([]byte("plain")) + " control"
	E.Line(op, e.dotted(op))
	E.EndCase(true, "dot-control")
	c.Extra["names"] = len(names)
}
