package main

// Stream "c02ro" (property C02, last clause: "in read-only metadata mode loads are identical while nothing is ever
// written", layer L2).  The REAL dcp.NewDcp + Start() runs against the simulated node for every combination of
//
//	metadata.readOnly ∈ {false, true} × back end ∈ {custom installed through Dcp.SetMetadata, file, couchbase}
//	× checkpoint type ∈ {manual: the listener calls ctx.Commit(), auto: short interval + save on Close}
//
// One op line = one case (handler `ro-case` of lean/GoDcp/Driver/ReadOnly.lean):
//
//	ro-case RO BE CK PRE EVS
//	  PRE  checkpoints in the store before the start  VB:(uuid,seq,ss,se)/…  or -
//	  EVS  VB:SEQ[c]/…  the node sends marker(SEQ,SEQ) + mutation SEQ; the listener acknowledges, `c`: and commits
//	observation: loads=N saves=N store-changed=0|1 opened=VB(uuid,start,snapStart,snapEnd)/… resumed=…
//
// loads / saves count the calls that reach the custom store (the go-dcp side of the metadata.Metadata interface is the
// code under test: dcp.Start decides whether the store is wrapped by metadata.NewReadMetadata); for file / couchbase
// they are `-`.  store-changed compares the store with what it was before the first start (custom: documents, file:
// bytes, couchbase: the xattr of every checkpoint document).  `resumed` = the DCP_STREAM_REQs of a SECOND client
// started on the same store with the same configuration.
//
// Every wait has a deadline; `auto` waits until the store was written once (or three intervals in read-only mode).

import (
	"bufio"
	"encoding/json"
	"fmt"
	"os"
	"path/filepath"
	"sort"
	"strconv"
	"strings"
	"sync"
	"time"

	dcp "github.com/Trendyol/go-dcp"
	"github.com/Trendyol/go-dcp/config"
	"github.com/Trendyol/go-dcp/helpers"
	"github.com/Trendyol/go-dcp/models"
	"github.com/Trendyol/go-dcp/wrapper"

	"verifharness/sim"
)

func init() { props["c02ro"] = runC02RO }

const roNumVb = 4
const roHigh = 1000000
const roAutoInterval = 40 * time.Millisecond

type roEv struct {
	vb     int
	seq    uint64
	commit bool
}

type roCase struct {
	ro   bool
	be   string
	auto bool
	pre  map[int][4]uint64
	evs  []roEv
}

func roParse(op string) (*roCase, bool) {
	f := strings.Fields(op)
	if len(f) != 6 || f[0] != "ro-case" {
		return nil, false
	}
	c := &roCase{pre: map[int][4]uint64{}}
	switch f[1] {
	case "1":
		c.ro = true
	case "0":
	default:
		return nil, false
	}
	if f[2] != "custom" && f[2] != "file" && f[2] != "couchbase" {
		return nil, false
	}
	c.be = f[2]
	switch f[3] {
	case "auto":
		c.auto = true
	case "manual":
	default:
		return nil, false
	}
	if f[4] != "-" {
		for _, e := range strings.Split(f[4], "/") {
			p := strings.SplitN(e, ":", 2)
			if len(p) != 2 || !strings.HasPrefix(p[1], "(") || !strings.HasSuffix(p[1], ")") {
				return nil, false
			}
			vb, err := strconv.Atoi(p[0])
			q := strings.Split(p[1][1:len(p[1])-1], ",")
			if err != nil || vb < 0 || vb >= roNumVb || len(q) != 4 {
				return nil, false
			}
			var d [4]uint64
			for i := range d {
				if d[i], err = strconv.ParseUint(q[i], 10, 64); err != nil {
					return nil, false
				}
			}
			if d[1] > roHigh {
				return nil, false // a checkpoint beyond the high seqno makes checkpoint.Load panic
			}
			c.pre[vb] = d
		}
	}
	if f[5] != "-" {
		for _, e := range strings.Split(f[5], "/") {
			p := strings.SplitN(e, ":", 2)
			if len(p) != 2 {
				return nil, false
			}
			ev := roEv{}
			var err error
			if ev.vb, err = strconv.Atoi(p[0]); err != nil || ev.vb < 0 || ev.vb >= roNumVb {
				return nil, false
			}
			if strings.HasSuffix(p[1], "c") {
				ev.commit = true
				p[1] = p[1][:len(p[1])-1]
			}
			if ev.seq, err = strconv.ParseUint(p[1], 10, 64); err != nil {
				return nil, false
			}
			c.evs = append(c.evs, ev)
		}
	}
	return c, true
}

// ---- the custom back end: one document per vBucket, only dirty vBuckets are written (policy of the couchbase back end)

type roMeta struct {
	mu           sync.Mutex
	docs         map[uint16]*models.CheckpointDocument
	loads, saves int
}

func (m *roMeta) Save(state map[uint16]*models.CheckpointDocument, dirty map[uint16]bool, _ string) error {
	m.mu.Lock()
	defer m.mu.Unlock()
	m.saves++
	for vb, d := range dirty {
		if doc, ok := state[vb]; ok && d {
			b, _ := json.Marshal(doc)
			var cp models.CheckpointDocument
			_ = json.Unmarshal(b, &cp)
			m.docs[vb] = &cp
		}
	}
	return nil
}

func (m *roMeta) Load(vbIds []uint16, bucketUUID string) (*wrapper.ConcurrentSwissMap[uint16, *models.CheckpointDocument], bool, error) {
	m.mu.Lock()
	defer m.mu.Unlock()
	m.loads++
	st := wrapper.CreateConcurrentSwissMap[uint16, *models.CheckpointDocument](1024)
	exist := false
	for _, vb := range vbIds {
		if d, ok := m.docs[vb]; ok {
			b, _ := json.Marshal(d)
			var cp models.CheckpointDocument
			_ = json.Unmarshal(b, &cp)
			st.Store(vb, &cp)
			exist = true
		} else {
			st.Store(vb, models.NewEmptyCheckpointDocument(bucketUUID))
		}
	}
	return st, exist, nil
}

func (m *roMeta) Clear(_ []uint16) error { return nil }

func (m *roMeta) dump() string {
	m.mu.Lock()
	defer m.mu.Unlock()
	b, _ := json.Marshal(m.docs)
	return string(b)
}

func roDoc(d [4]uint64) *models.CheckpointDocument {
	return &models.CheckpointDocument{Checkpoint: &models.CheckpointDocumentCheckpoint{VbUUID: d[0], SeqNo: d[1],
		Snapshot: &models.CheckpointDocumentSnapshot{StartSeqNo: d[2], EndSeqNo: d[3]}}, BucketUUID: "simbucketuuid"}
}

// ---- one case

type roEnv struct {
	c     *roCase
	node  *sim.Node
	meta  *roMeta
	file  string
	group string

	mu     sync.Mutex
	got    map[[2]uint64]bool
	commit map[[2]uint64]bool
}

func (e *roEnv) cfg() *config.Dcp {
	mt := "couchbase"
	if e.c.be == "file" {
		mt = "file"
	}
	cfg := e.node.Config(e.group, mt)
	if e.c.be == "file" {
		cfg.Metadata.Config = map[string]string{"fileName": e.file}
	}
	cfg.Metadata.ReadOnly = e.c.ro
	if e.c.auto {
		cfg.Checkpoint.Type = "auto"
		cfg.Checkpoint.Interval = roAutoInterval
	} else {
		cfg.Checkpoint.Type = "manual"
	}
	return cfg
}

func (e *roEnv) ckKey(vb int) string {
	return helpers.Prefix + e.group + ":checkpoint:" + strconv.Itoa(vb)
}

// what the store holds, canonical (for the comparison before / after)
func (e *roEnv) snapshot() string {
	switch e.c.be {
	case "custom":
		return e.meta.dump()
	case "file":
		b, err := os.ReadFile(e.file)
		if err != nil {
			return "<no file>"
		}
		return string(b)
	}
	var p []string
	for vb := 0; vb < roNumVb; vb++ {
		if d, ok := e.node.KVGet(0, e.ckKey(vb)); ok {
			p = append(p, fmt.Sprintf("%d=%s", vb, d.Xattrs[helpers.Name]))
		}
	}
	return strings.Join(p, ";")
}

func (e *roEnv) seed() {
	switch e.c.be {
	case "custom":
		for vb, d := range e.c.pre {
			e.meta.docs[uint16(vb)] = roDoc(d)
		}
	case "file":
		if len(e.c.pre) == 0 {
			return
		}
		// the file back end hands back exactly what the file holds: every assigned vBucket needs an entry
		st := map[uint16]*models.CheckpointDocument{}
		for vb := 0; vb < roNumVb; vb++ {
			if d, ok := e.c.pre[vb]; ok {
				st[uint16(vb)] = roDoc(d)
			} else {
				st[uint16(vb)] = models.NewEmptyCheckpointDocument("simbucketuuid")
			}
		}
		b, _ := json.MarshalIndent(st, "", "  ")
		_ = os.WriteFile(e.file, b, 0o644)
	default:
		for vb, d := range e.c.pre {
			b, _ := json.Marshal(roDoc(d))
			e.node.KVPut(0, e.ckKey(vb), []byte("{}"), map[string][]byte{helpers.Name: b})
		}
	}
}

func (e *roEnv) listen(ctx *models.ListenerContext) {
	m, ok := ctx.Event.(models.DcpMutation)
	if !ok {
		return
	}
	ctx.Ack()
	k := [2]uint64{uint64(m.VbID), m.SeqNo}
	e.mu.Lock()
	cm := e.commit[k]
	e.mu.Unlock()
	if cm {
		ctx.Commit()
	}
	e.mu.Lock()
	e.got[k] = true
	e.mu.Unlock()
}

func (e *roEnv) reqs() string {
	var p []string
	for vb := 0; vb < roNumVb; vb++ {
		l := e.node.StreamReqsOf(uint16(vb))
		if len(l) == 0 {
			continue
		}
		r := l[len(l)-1]
		p = append(p, fmt.Sprintf("%d(%d,%d,%d,%d)", vb, r.VbUUID, r.Start, r.SnapStart, r.SnapEnd))
	}
	if len(p) == 0 {
		return "-"
	}
	return strings.Join(p, "/")
}

// boot a client on the store; returns it with a channel that is closed when Start() has returned
func (e *roEnv) boot() (dcp.Dcp, chan struct{}, string) {
	d, err := dcp.NewDcp(e.cfg(), e.listen)
	if err != nil {
		return nil, nil, "boot-failed"
	}
	if e.c.be == "custom" {
		d.SetMetadata(e.meta)
	}
	done := make(chan struct{})
	crash := ""
	go func() {
		defer func() {
			if r := recover(); r != nil {
				crash = "failstop"
			}
			close(done)
		}()
		d.Start()
	}()
	select {
	case <-d.WaitUntilReady():
	case <-done:
		if crash == "" {
			crash = "stopped"
		}
		return nil, nil, crash
	case <-time.After(10 * time.Second):
		return nil, nil, "hang"
	}
	return d, done, ""
}

func roStop(d dcp.Dcp, done chan struct{}) bool {
	d.Close()
	select {
	case <-done:
		return true
	case <-time.After(5 * time.Second):
		return false
	}
}

func roRunCase(op string, dir string, id int) string {
	c, ok := roParse(op)
	if !ok {
		return "bad-op"
	}
	e := &roEnv{c: c, meta: &roMeta{docs: map[uint16]*models.CheckpointDocument{}}, group: "c02ro",
		file: filepath.Join(dir, fmt.Sprintf("ck-%d.json", id)), got: map[[2]uint64]bool{}, commit: map[[2]uint64]bool{}}
	e.node = sim.New(sim.Options{NumVb: roNumVb})
	for vb := 0; vb < roNumVb; vb++ {
		e.node.SetHighSeqno(uint16(vb), roHigh)
	}
	if err := e.node.Start(); err != nil {
		return "boot-failed"
	}
	clean := true
	defer func() {
		if clean {
			e.node.Close()
		}
		_ = os.Remove(e.file)
	}()
	e.seed()
	before := e.snapshot()
	for _, ev := range c.evs {
		if ev.commit && !c.auto {
			e.commit[[2]uint64{uint64(ev.vb), ev.seq}] = true
		}
	}
	d, done, errs := e.boot()
	if errs != "" {
		clean = errs != "hang"
		return errs
	}
	opened := e.reqs()
	for _, ev := range c.evs {
		if e.node.PushSnapshot(uint16(ev.vb), ev.seq, ev.seq, 1) != nil ||
			e.node.PushMutation(uint16(ev.vb), ev.seq, 1, 0, 0, 1700000000000000000, 0, []byte("k"), []byte("v"), 0) != nil {
			clean = roStop(d, done)
			return "no-stream"
		}
		// one event at a time: the listener has acknowledged (and committed) it before the next one is sent
		k := [2]uint64{uint64(ev.vb), ev.seq}
		dl := time.Now().Add(3 * time.Second)
		for {
			e.mu.Lock()
			g := e.got[k]
			e.mu.Unlock()
			if g {
				break
			}
			if time.Now().After(dl) {
				clean = roStop(d, done)
				return "not-delivered"
			}
			time.Sleep(200 * time.Microsecond)
		}
	}
	if c.auto && len(c.evs) > 0 {
		// the periodic save: until the store changed (read-only: three intervals, nothing may happen)
		dl := time.Now().Add(3 * roAutoInterval)
		if !c.ro {
			dl = time.Now().Add(3 * time.Second)
		}
		for time.Now().Before(dl) && (c.ro || e.snapshot() == before) {
			time.Sleep(2 * time.Millisecond)
		}
	}
	if !roStop(d, done) {
		clean = false
		return "hang"
	}
	e.meta.mu.Lock()
	loads, saves := e.meta.loads, e.meta.saves
	e.meta.mu.Unlock()
	after := e.snapshot()
	// the second client: where does a restart resume?
	e.node.ResetLogs()
	d2, done2, errs := e.boot()
	if errs != "" {
		clean = errs != "hang"
		return "restart-" + errs
	}
	resumed := e.reqs()
	if !roStop(d2, done2) {
		clean = false
		return "hang"
	}
	ls, ss := "-", "-"
	if c.be == "custom" {
		ls = strconv.Itoa(loads)
		ss = strconv.Itoa(saves)
		if c.auto && saves > 0 {
			ss = "+"
		}
	}
	return fmt.Sprintf("loads=%s saves=%s store-changed=%d opened=%s resumed=%s", ls, ss, b2i(after != before), opened, resumed)
}

// ---- generation: every combination, a few histories each

func roGen(r *Rng) (pre string, evs string, tags []string) {
	var p []string
	next := map[int]uint64{}
	for vb := 0; vb < roNumVb; vb++ {
		next[vb] = 1
		if r.Chance(45) {
			q := uint64(r.Range(1, 60))
			if r.Chance(15) {
				q = roHigh - 100 - uint64(r.Intn(3))
			}
			ss := q - uint64(r.Intn(int(min(q, 3))+1))
			p = append(p, fmt.Sprintf("%d:(%d,%d,%d,%d)", vb, sim.DefaultUUID(uint16(vb))-uint64(r.Intn(2)), q, ss, q+uint64(r.Intn(3))))
			next[vb] = q + 1
		}
	}
	pre = "-"
	if len(p) > 0 {
		pre = strings.Join(p, "/")
		tags = append(tags, "stored-checkpoint")
	}
	var ev []string
	n := r.Range(0, 5)
	if r.Chance(80) && n == 0 {
		n = 2
	}
	commits := 0
	for i := 0; i < n; i++ {
		vb := r.Intn(roNumVb)
		q := next[vb] + uint64(r.Intn(3))
		next[vb] = q + 1
		s := fmt.Sprintf("%d:%d", vb, q)
		if r.Chance(55) {
			s += "c"
			commits++
		}
		ev = append(ev, s)
	}
	evs = "-"
	if len(ev) > 0 {
		evs = strings.Join(ev, "/")
	}
	switch {
	case n == 0:
		tags = append(tags, "no-events")
	case commits == 0:
		tags = append(tags, "acked-not-committed")
	default:
		tags = append(tags, "acked-and-committed")
	}
	return
}

func runC02RO(c *Ctx) {
	var ops []string
	var tags [][]string
	if replayFile != "" {
		f, err := os.Open(replayFile)
		if err != nil {
			panic(err)
		}
		sc := bufio.NewScanner(f)
		sc.Buffer(make([]byte, 1<<20), 1<<24)
		for sc.Scan() {
			op := strings.TrimSpace(strings.SplitN(sc.Text(), "\t", 2)[0])
			if op != "" && !strings.HasPrefix(op, "#") {
				ops = append(ops, op)
				tags = append(tags, []string{"replay"})
			}
		}
		f.Close()
	} else {
		rng := &Rng{s: rbMix(c.Seed ^ 0xC02B0)}
		reps := c.N(3, 25)
		for rep := 0; rep < reps; rep++ {
			for _, ck := range []string{"manual", "auto"} {
				for _, be := range []string{"custom", "file", "couchbase"} {
					pre, evs, t := roGen(rng)
					if rep == 0 {
						// the frozen-checkpoint scenario of the statement: a stored position, acknowledged + committed progress
						pre, evs = fmt.Sprintf("0:(%d,10,10,10)/2:(7,3,2,4)", sim.DefaultUUID(0)), "0:11c/0:12/1:1c/2:9c"
						t = []string{"stored-checkpoint", "acked-and-committed", "directed"}
					}
					// the same history with and without the read-only switch
					for _, ro := range []string{"1", "0"} {
						ops = append(ops, fmt.Sprintf("ro-case %s %s %s %s %s", ro, be, ck, pre, evs))
						tt := append([]string{"readonly-" + ro, "backend-" + be, "checkpoint-" + ck}, t...)
						sort.Strings(tt)
						tags = append(tags, tt)
					}
				}
			}
		}
	}
	dir, err := os.MkdirTemp(".", "c02ro-")
	if err != nil {
		panic(err)
	}
	defer os.RemoveAll(dir)
	res := make([]string, len(ops))
	sem := make(chan struct{}, 12)
	var wg sync.WaitGroup
	for i := range ops {
		wg.Add(1)
		sem <- struct{}{}
		go func(i int) {
			defer wg.Done()
			defer func() { <-sem }()
			defer func() {
				if r := recover(); r != nil {
					res[i] = "harness-panic"
				}
			}()
			res[i] = roRunCase(ops[i], dir, i)
		}(i)
	}
	wg.Wait()
	for i, op := range ops {
		c.E.Line(op, res[i])
		c.E.EndCase(!strings.Contains(op, " - -"), tags[i]...)
	}
}
