package main

// Stream "l2smoke": boots the simulated node (harness/sim) and drives the REAL
// couchbase.NewClient(cfg) through its whole public surface once.  Every step
// is one op line `l2-smoke <step>` whose observation is a constant string; the
// Lean handler `l2-smoke` echoes the expected constants.  A failing step here
// means the simulated node (or gocbcore / go-dcp's client) no longer behaves as
// every other L2 stream assumes.

import (
	"errors"
	"fmt"
	"sort"
	"strings"
	"sync"
	"time"

	"github.com/Trendyol/go-dcp/couchbase"
	"github.com/Trendyol/go-dcp/models"
	"github.com/Trendyol/go-dcp/tracing"
	"github.com/couchbase/gocbcore/v10"
	"github.com/couchbase/gocbcore/v10/memd"

	"verifharness/sim"
)

func init() { props["l2smoke"] = runL2Smoke }

// l2Recorder is a listener / end listener pair that records canonical strings.
type l2Recorder struct {
	mu   sync.Mutex
	evs  []string
	ends []string
	sig  chan struct{}
}

func newL2Recorder() *l2Recorder { return &l2Recorder{sig: make(chan struct{}, 1024)} }

func l2EndName(err error) string {
	switch {
	case err == nil:
		return "ok"
	case errors.Is(err, gocbcore.ErrDCPStreamClosed):
		return "closed"
	case errors.Is(err, gocbcore.ErrDCPStreamStateChanged):
		return "state-changed"
	case errors.Is(err, gocbcore.ErrDCPStreamDisconnected):
		return "disconnected"
	case errors.Is(err, gocbcore.ErrDCPStreamTooSlow):
		return "too-slow"
	case errors.Is(err, gocbcore.ErrDCPBackfillFailed):
		return "backfill-failed"
	case errors.Is(err, gocbcore.ErrDCPStreamFilterEmpty):
		return "filter-empty"
	case errors.Is(err, gocbcore.ErrSocketClosed):
		return "socket-closed"
	}
	return "err"
}

func l2OffStr(o *models.Offset) string {
	if o == nil {
		return "off=nil"
	}
	if o.SnapshotMarker == nil {
		return fmt.Sprintf("off=(%d,%d,nil,%d)", o.VbUUID, o.SeqNo, o.LatestSeqNo)
	}
	return fmt.Sprintf("off=(%d,%d,%d,%d,%d)", o.VbUUID, o.SeqNo, o.StartSeqNo, o.EndSeqNo, o.LatestSeqNo)
}

func (r *l2Recorder) listen(a models.ListenerArgs) {
	var s string
	switch e := a.Event.(type) {
	case models.DcpSnapshotMarker:
		s = fmt.Sprintf("mk %d %d-%d", e.VbID, e.StartSeqNo, e.EndSeqNo)
	case models.DcpMutation:
		s = fmt.Sprintf("mu %d %d %s=%s rev=%d fl=%d exp=%d cas=%d dt=%d coll=%s t=%d %s", e.VbID, e.SeqNo, e.Key, e.Value, e.RevNo, e.Flags, e.Expiry, e.Cas, e.Datatype, e.CollectionName, e.EventTime.Unix(), l2OffStr(e.Offset))
	case models.DcpDeletion:
		s = fmt.Sprintf("de %d %d %s %s", e.VbID, e.SeqNo, e.Key, l2OffStr(e.Offset))
	case models.DcpExpiration:
		s = fmt.Sprintf("ex %d %d %s %s", e.VbID, e.SeqNo, e.Key, l2OffStr(e.Offset))
	case models.DcpSeqNoAdvanced:
		s = fmt.Sprintf("sa %d %d %s", e.VbID, e.SeqNo, l2OffStr(e.Offset))
	default:
		s = fmt.Sprintf("other %T", a.Event)
	}
	r.mu.Lock()
	r.evs = append(r.evs, s)
	r.mu.Unlock()
	r.sig <- struct{}{}
}

func (r *l2Recorder) end(c models.DcpStreamEndContext) {
	r.mu.Lock()
	r.ends = append(r.ends, fmt.Sprintf("end %d %s", c.Event.VbID, l2EndName(c.Err)))
	r.mu.Unlock()
	r.sig <- struct{}{}
}

func (r *l2Recorder) take() (evs, ends []string) {
	r.mu.Lock()
	defer r.mu.Unlock()
	evs, ends = r.evs, r.ends
	r.evs, r.ends = nil, nil
	return
}

// waitEnds waits until n end events were recorded.
func (r *l2Recorder) waitEnds(n int, d time.Duration) bool {
	dl := time.After(d)
	for {
		r.mu.Lock()
		ok := len(r.ends) >= n
		r.mu.Unlock()
		if ok {
			return true
		}
		select {
		case <-r.sig:
		case <-dl:
			return false
		}
	}
}

func l2ErrStr(err error) string {
	if err == nil {
		return "ok"
	}
	return "err"
}

func l2ReqStr(r sim.StreamReq) string {
	return fmt.Sprintf("vb=%d flags=%d start=%d end=%d uuid=%d snap=%d-%d", r.Vb, r.Flags, r.Start, r.End, r.VbUUID, r.SnapStart, r.SnapEnd)
}

func runL2Smoke(c *Ctx) {
	e := c.E
	step := func(name string, f func() string) {
		var res string
		func() {
			defer func() {
				if r := recover(); r != nil {
					res = "panic"
				}
			}()
			res = f()
		}()
		e.Line("l2-smoke "+name, res)
		e.EndCase(true, name)
	}

	node := sim.New(sim.Options{NumVb: 5}) // vb 4 = fence vBucket
	if err := node.Start(); err != nil {
		panic(err)
	}
	defer node.Close()
	for vb := uint16(0); vb < 5; vb++ {
		node.SetHighSeqno(vb, 10+uint64(vb))
	}
	node.SetFailoverLog(1, []sim.FailoverEntry{{UUID: 777, Seq: 6}, {UUID: 555, Seq: 0}})

	cfg := node.Config("smoke", "couchbase")
	cl := couchbase.NewClient(cfg)
	step("connect", func() string { return l2ErrStr(cl.Connect()) })
	step("dcpconnect", func() string { return l2ErrStr(cl.DcpConnect(true, false)) })
	step("numvb", func() string { return fmt.Sprint(cl.GetNumVBuckets()) })
	step("seqnos", func() string {
		m, err := cl.GetVBucketSeqNos(false)
		if err != nil {
			return "err"
		}
		var parts []string
		for vb, s := range m.ToMap() {
			parts = append(parts, fmt.Sprintf("%d:%d", vb, s))
		}
		sort.Strings(parts)
		return strings.Join(parts, " ")
	})
	step("failover", func() string {
		l, err := cl.GetFailOverLogs(1)
		if err != nil {
			return "err"
		}
		var parts []string
		for _, x := range l {
			parts = append(parts, fmt.Sprintf("%d:%d", x.VbUUID, x.SeqNo))
		}
		return strings.Join(parts, " ")
	})
	step("ping", func() string {
		p, err := cl.Ping()
		if err != nil || p.MemdEndpoint == "" || p.MgmtEndpoint != node.HTTPAddr() {
			return "err"
		}
		return "ok"
	})
	step("http", func() string {
		h := couchbase.NewHTTPClient(cfg, cl)
		if err := h.Connect(); err != nil {
			return "err-connect"
		}
		v, err := h.GetVersion()
		if err != nil {
			return "err-version"
		}
		b, err := h.GetBucketInfo()
		if err != nil {
			return "err-bucket"
		}
		return fmt.Sprintf("%d.%d.%d %s %s", v.Major, v.Minor, v.Patch, b.BucketType, b.StorageBackend)
	})

	rec := newL2Recorder()
	ft := sim.NewFenceTracker()
	lis := ft.WrapListener(rec.listen, 4)
	mkObs := func(vb uint16) couchbase.Observer {
		return couchbase.NewObserver(cfg, vb, 99, lis, rec.end, map[uint32]string{}, tracing.NewTracerComponent())
	}
	step("open", func() string {
		off := &models.Offset{SnapshotMarker: &models.SnapshotMarker{StartSeqNo: 2, EndSeqNo: 4}, VbUUID: 555, SeqNo: 3, LatestSeqNo: 99}
		if err := cl.OpenStream(1, map[uint32]string{}, off, mkObs(1)); err != nil {
			return "err"
		}
		fo := &models.Offset{SnapshotMarker: &models.SnapshotMarker{}, LatestSeqNo: 99}
		if err := cl.OpenStream(4, map[uint32]string{}, fo, mkObs(4)); err != nil {
			return "err-fence-vb"
		}
		reqs := node.StreamReqsOf(1)
		if len(reqs) != 1 {
			return fmt.Sprintf("reqs=%d", len(reqs))
		}
		return l2ReqStr(reqs[0])
	})
	step("push", func() string {
		_ = node.PushSnapshot(1, 4, 9, 1)
		_ = node.PushMutation(1, 5, 2, 7, 0, 1700000000000000000, 1, []byte("k1"), []byte(`{"a":1}`), 0)
		_ = node.PushDeletion(1, 6, 3, 1700000001000000000, 0, []byte("k2"), nil, 0)
		_ = node.PushExpiration(1, 7, 4, 1700000002000000000, 0, []byte("k3"), 0)
		_ = node.PushSeqnoAdvanced(1, 9)
		if !node.FenceAndWait(4, ft, 5*time.Second) {
			return "fence-timeout"
		}
		evs, _ := rec.take()
		return strings.Join(evs, " | ")
	})
	step("close", func() string {
		err := cl.CloseStream(1)
		if !rec.waitEnds(1, 5*time.Second) {
			return l2ErrStr(err) + " no-end"
		}
		_, ends := rec.take()
		cs := node.CloseStreams()
		return fmt.Sprintf("%s %s closes=%d open=%v", l2ErrStr(err), strings.Join(ends, ","), len(cs), node.OpenStreams())
	})
	step("server-end", func() string {
		off := &models.Offset{SnapshotMarker: &models.SnapshotMarker{}, LatestSeqNo: 99}
		if err := cl.OpenStream(2, map[uint32]string{}, off, mkObs(2)); err != nil {
			return "err"
		}
		_ = node.PushStreamEnd(2, memd.StreamEndStateChanged)
		if !rec.waitEnds(1, 5*time.Second) {
			return "no-end"
		}
		_, ends := rec.take()
		return strings.Join(ends, ",")
	})
	step("scripted-status", func() string {
		// F7 (fixed in /repo c9cc595): a server error status on GET_ALL_VB_SEQNOS must surface as an error, not as (empty map, nil)
		node.Script(memd.CmdGetAllVBSeqnos, sim.AnyVb, sim.Status(memd.StatusInternalError))
		m, err := cl.GetVBucketSeqNos(false)
		if err != nil {
			return "err"
		}
		return fmt.Sprintf("ok n=%d", len(m.ToMap()))
	})
	step("scripted-failover-err", func() string {
		node.Script(memd.CmdDcpGetFailoverLog, 3, sim.Status(memd.StatusInternalError).After(20*time.Millisecond))
		_, err := cl.GetFailOverLogs(3)
		_, err2 := cl.GetFailOverLogs(3)
		return l2ErrStr(err) + " " + l2ErrStr(err2)
	})
	step("cbmeta", func() string {
		md := couchbase.NewCBMetadata(cl, cfg)
		st := map[uint16]*models.CheckpointDocument{}
		for vb := uint16(0); vb < 4; vb++ {
			st[vb] = &models.CheckpointDocument{Checkpoint: &models.CheckpointDocumentCheckpoint{VbUUID: 0xffffffffffffffff, SeqNo: 9007199254740993 + uint64(vb),
				Snapshot: &models.CheckpointDocumentSnapshot{StartSeqNo: 1<<63 + 1, EndSeqNo: 0xffffffffffffffff}}, BucketUUID: "u"}
		}
		if err := md.Save(st, map[uint16]bool{0: true, 2: true}, "u"); err != nil {
			return "err-save"
		}
		if err := md.Save(st, map[uint16]bool{2: true}, "u"); err != nil {
			return "err-save2"
		}
		var w []string
		for _, x := range node.KVWrites() {
			w = append(w, fmt.Sprintf("%s %s %d", x.Op, x.Key, uint16(x.Status)))
		}
		sort.Strings(w)
		ld, exist, err := md.Load([]uint16{0, 1, 2, 3}, "u")
		if err != nil {
			return "err-load"
		}
		var got []string
		for vb := uint16(0); vb < 4; vb++ {
			d, _ := ld.Load(vb)
			got = append(got, fmt.Sprintf("%d:%d,%d,%d,%d", vb, d.Checkpoint.VbUUID, d.Checkpoint.SeqNo, d.Checkpoint.Snapshot.StartSeqNo, d.Checkpoint.Snapshot.EndSeqNo))
		}
		return fmt.Sprintf("exist=%v %s ; %s", exist, strings.Join(got, " "), strings.Join(w, " ; "))
	})
	step("shutdown", func() string {
		cl.DcpClose()
		cl.Close()
		node.Close()
		return "ok"
	})
}
