package main

// Stream "c15w": property C15 end to end.  One CHILD process per case (this binary
// re-executed with VERIF_CHILD=l2, entered from init() before main() parses flags)
// runs the UNMODIFIED dcp.NewDcp(cfg, listener) + Start() against a simulated node
// that lives in the PARENT (its logs survive the child's death):
//
//   st-f7probe                => swallows | propagates
//   st-case NAME meta=T memb=T file=set|unset lo=L hi=H mode=inf|fin reset=earliest|latest docs=DOCS high=PAIRS flog=PAIRS
//           loaderr=VBS seq=ok|err f7=swallows|propagates flogerr=VBS openerr=VBS delay=0|1 push=0|1
//                             => running reqs=[vb:flags,uuid,start,end,ss,se …] events=N
//                              | exit-fail:<class> events=none|some
//
// class = the go-dcp guard that terminated the process, recognised from the error the
// library logs just before it panics (stderr of the child): invalid-metadata-type,
// unknown-membership, file-name-missing, load-error, seqno-error, failover-error,
// checkpoint-ahead, open-error; `other` otherwise.  `events` = ConsumeEvent calls the
// child's listener saw (every call is written to the child's stdout at once).
// delay=1: the error answer to the failing DCP_STREAM_REQ is sent 400 ms late;
// push=1: the node sends one mutation on every stream 30 ms after it was opened.
//
// seq=partial:VB[,VB…]: GET_ALL_VB_SEQNOS is answered with status success but WITHOUT an entry for
// the listed vBuckets (a partial answer; checkpoint.Load reads a missing entry as high seqno 0).
//
// Two optional trailing fields (only on the cases that use them; the older lines are unchanged):
//   end=VB[,VB…]:STATUS:PHASE reref=VBS
// STATUS = state-changed | disconnected | too-slow | backfill-failed (the re-openable STREAM_END
// statuses); the node accepts the FIRST stream request of every listed vBucket and then pushes
// STREAM_END(STATUS) on it.  PHASE s: 20 ms after the accept, while the answers to the first requests
// of all other vBuckets are held back 400 ms (stream.Open is still inside openAllStreams);
// PHASE r: 200 ms after every assigned vBucket has been requested (start-up is over).
// reref: every LATER stream request of these vBuckets is answered with an error status.
// Such a line is observed as
//   running reqs=[…every logged request, re-requests included…] events=N ends=[vb:n …] refused=[vb:n …]
//   exit-fail:<class> events=none|some rereqs=K      (K = most re-requests seen for one ended vBucket)
// with the additional class reopen-gave-up (reopenStream's panic after its 5 attempts, 1 s apart).
//
// One optional trailing field of the group `file-partial` (never together with end=/reref=):
//   members=K
// the node has K*(hi+1) vBuckets and the child runs as static member 1 of K, so its assignment is still 0..hi
// while the bucket (and the GET_ALL_VB_SEQNOS answer, and `high=`/`flog=`) covers 0..K*(hi+1)-1: a metadata
// file may then name vBuckets that exist on the node but are not assigned.  With the file back end `docs=` is the
// content of the metadata file AS IT IS: any vBucket ids, assigned or not, also beyond the node's vBucket count.
//
// The same child entry serves stream c14w (`keydot`, harness/l2_keys.go).

import (
	"bytes"
	"encoding/binary"
	"encoding/json"
	"fmt"
	"os"
	"os/exec"
	"path/filepath"
	"sort"
	"strconv"
	"strings"
	"sync"
	"time"

	dcp "github.com/Trendyol/go-dcp"
	"github.com/Trendyol/go-dcp/config"
	"github.com/Trendyol/go-dcp/couchbase"
	"github.com/Trendyol/go-dcp/helpers"
	"github.com/Trendyol/go-dcp/logger"
	"github.com/Trendyol/go-dcp/models"
	"github.com/couchbase/gocbcore/v10/memd"
	"github.com/sirupsen/logrus"

	"verifharness/sim"
)

func init() {
	props["c15w"] = runC15W
	if os.Getenv("VERIF_CHILD") == "l2" {
		l2ChildMain(os.Getenv("VERIF_CHILD_KIND"), os.Getenv("VERIF_CHILD_OP"), os.Getenv("VERIF_CHILD_ADDR"))
		os.Exit(0)
	}
}

// ---------------------------------------------------------------- child side

// l2ChildConfig mirrors sim.Node.Config for a node the child only knows by address
func l2ChildConfig(addr, group, metaType string) *config.Dcp {
	cfg := &config.Dcp{Hosts: []string{addr}, BucketName: "b"}
	cfg.Dcp.Group.Name = group
	cfg.Metadata.Type = metaType
	cfg.Dcp.Group.Membership.Type = "static"
	cfg.ConnectionTimeout = 10 * time.Second
	cfg.Dcp.ConnectionTimeout = 10 * time.Second
	cfg.Logging.Level = "error"
	cfg.ApplyDefaults()
	cfg.RollbackMitigation.Disabled = true
	cfg.API.Disabled = true
	cfg.HealthCheck.Disabled = true
	cfg.Checkpoint.Type = "manual"
	return cfg
}

func l2ChildMain(kind, op, addr string) {
	l := logrus.New()
	l.SetLevel(logrus.ErrorLevel)
	l.SetOutput(os.Stderr)
	logger.Log = &logger.Loggers{Logrus: l}
	switch kind {
	case "st":
		stChild(op, addr)
	case "keydot":
		keyDotChild(op, addr)
	default:
		fmt.Println("obs bad-child-kind")
	}
}

func stChild(op, addr string) {
	t := strings.Fields(op)
	kv := ckKV(t[2:])
	cfg := l2ChildConfig(addr, "st", kv["meta"])
	cfg.Dcp.Group.Membership.Type = kv["memb"]
	if kv["meta"] == "file" && kv["file"] == "set" {
		cfg.Metadata.Config = map[string]string{"fileName": os.Getenv("VERIF_CHILD_FILE")}
	}
	// static membership 1/1: the assignment is every vBucket of the node, which has exactly hi+1 of them (lo = 0)
	if kv["mode"] == "fin" {
		cfg.Dcp.Mode = config.DcpModeFinite
	}
	cfg.Checkpoint.AutoReset = kv["reset"]
	if m, err := strconv.Atoi(kv["members"]); err == nil && m > 1 {
		// static member 1 of m: the first chunk of the node's vBuckets (the node has m*(hi+1) of them)
		cfg.Dcp.Group.Membership.MemberNumber = 1
		cfg.Dcp.Group.Membership.TotalMembers = m
	}
	var mu sync.Mutex
	events := 0
	listener := func(ctx *models.ListenerContext) {
		mu.Lock()
		events++
		mu.Unlock()
		os.Stdout.WriteString("EV\n")
		if strings.HasPrefix(t[1], "lpanic") {
			// a listener that fails on an event BEFORE acknowledging it: the library must not settle the event on its behalf
			panic("verif: listener panic")
		}
		ctx.Ack()
	}
	d, err := dcp.NewDcp(cfg, listener)
	if err != nil {
		fmt.Printf("obs newdcp-error\n")
		return
	}
	os.Stdout.WriteString("CREATED\n")
	done := make(chan struct{})
	go func() {
		d.Start()
		close(done)
	}()
	select {
	case <-d.WaitUntilReady():
	case <-time.After(20 * time.Second):
		fmt.Printf("obs not-ready\n")
		os.Exit(3)
	}
	os.Stdout.WriteString("READY\n")
	linger := 250 * time.Millisecond // pushed events arrive
	if e := kv["end"]; e != "" {
		if strings.HasSuffix(e, ":r") {
			linger = 1200 * time.Millisecond // the end is pushed 200 ms after the last request; the re-request follows at once
		}
		if rr := kv["reref"]; rr != "" && rr != "-" {
			linger = 7 * time.Second // reopenStream: 5 attempts, 1 s apart, then panic
		}
	}
	time.Sleep(linger)
	d.Close()
	select {
	case <-done:
	case <-time.After(20 * time.Second):
		fmt.Printf("obs close-hung\n")
		os.Exit(3)
	}
	mu.Lock()
	n := events
	mu.Unlock()
	fmt.Printf("obs running events=%d\n", n)
}

// ---------------------------------------------------------------- parent side

type l2ChildResult struct {
	stdout, stderr string
	exit           int // 0 ok, -1 killed by the harness time-out
}

func l2RunChild(kind, op, addr string, extraEnv ...string) l2ChildResult {
	cmd := exec.Command(os.Args[0])
	cmd.Env = append(os.Environ(), "VERIF_CHILD=l2", "VERIF_CHILD_KIND="+kind, "VERIF_CHILD_OP="+op, "VERIF_CHILD_ADDR="+addr)
	cmd.Env = append(cmd.Env, extraEnv...)
	var so, se bytes.Buffer
	cmd.Stdout, cmd.Stderr = &so, &se
	if err := cmd.Start(); err != nil {
		return l2ChildResult{exit: -2}
	}
	done := make(chan error, 1)
	go func() { done <- cmd.Wait() }()
	select {
	case err := <-done:
		code := 0
		if err != nil {
			code = 1
			if ee, ok := err.(*exec.ExitError); ok {
				code = ee.ExitCode()
			}
		}
		return l2ChildResult{so.String(), se.String(), code}
	case <-time.After(60 * time.Second):
		cmd.Process.Kill()
		<-done
		return l2ChildResult{so.String(), se.String(), -1}
	}
}

var stGuards = []struct{ text, class string }{
	{"invalid metadata type", "invalid-metadata-type"},
	{"unknown membership", "unknown-membership"},
	{"file metadata file name is not set", "file-name-missing"},
	{"checkpoint seqNo bigger then vBucket latest seqNo", "checkpoint-ahead"},
	{"error while getting vBucket seqNos", "seqno-error"},
	{"error while get failOver logs when initialize latest", "failover-error"},
	{"error while open stream", "open-error"},
	{"error while re-open stream", "reopen-gave-up"},
	{"error while load checkpoint", "load-error"},
	{"error while loading checkpoint document", "load-error"},
	{"nil pointer dereference", "nil-deref"},
	{"verif: listener panic", "listener-panic"},
}

func stClassify(stderr string) string {
	best, cls := -1, "other"
	for _, g := range stGuards {
		if i := strings.Index(stderr, g.text); i >= 0 && (best < 0 || i < best) {
			best, cls = i, g.class
		}
	}
	return cls
}

// case names `nosnap<K>x<VB>`: the stored checkpoint document of vBucket VB has no snapshot section (couchbase back end)
func stNoSnapVb(name string) int {
	if !strings.HasPrefix(name, "nosnap") {
		return -1
	}
	i := strings.LastIndex(name, "x")
	if i < 0 {
		return -1
	}
	v, err := strconv.Atoi(name[i+1:])
	if err != nil {
		return -1
	}
	return v
}

func stCheckpointJSON(d ckDoc) []byte {
	b, _ := json.Marshal(ckModelDoc(d))
	return b
}

// stRun executes one st-case line
func stRun(op string, workDir string) (obs string, tags []string) {
	t := strings.Fields(op)
	if (len(t) != 19 && len(t) != 20 && len(t) != 21) || t[0] != "st-case" {
		return "bad-op", []string{"bad-op"}
	}
	kv := ckKV(t[2:])
	// seq=partial:VBS
	seqMissing := map[uint16]bool{}
	if strings.HasPrefix(kv["seq"], "partial:") {
		m, ok := ckParseVbs(strings.TrimPrefix(kv["seq"], "partial:"))
		if !ok || len(m) == 0 {
			return "bad-op", []string{"bad-op"}
		}
		seqMissing = m
	} else if kv["seq"] != "ok" && kv["seq"] != "err" {
		return "bad-op", []string{"bad-op"}
	}
	// end=VBS:STATUS:PHASE reref=VBS
	endCase := len(t) == 21
	endVbs, reRef := map[uint16]bool{}, map[uint16]bool{}
	var endStatus memd.StreamEndStatus
	endPhase := ""
	if endCase {
		f := strings.Split(kv["end"], ":")
		if len(f) != 3 {
			return "bad-op", []string{"bad-op"}
		}
		var okA, okB, okC bool
		endVbs, okA = ckParseVbs(f[0])
		endStatus, okB = stEndStatus[f[1]]
		endPhase = f[2]
		reRef, okC = ckParseVbs(kv["reref"])
		if !okA || !okB || !okC || len(endVbs) == 0 || (endPhase != "s" && endPhase != "r") {
			return "bad-op", []string{"bad-op"}
		}
	}
	lo, e1 := strconv.Atoi(kv["lo"])
	hi, e2 := strconv.Atoi(kv["hi"])
	docs, ok1 := ckParseDocs(kv["docs"])
	high, ok2 := ckParsePairs(kv["high"])
	flog, ok3 := ckParsePairs(kv["flog"])
	loadErr, ok4 := ckParseVbs(kv["loaderr"])
	flogErr, ok5 := ckParseVbs(kv["flogerr"])
	openErr, ok6 := ckParseVbs(kv["openerr"])
	if e1 != nil || e2 != nil || !ok1 || !ok2 || !ok3 || !ok4 || !ok5 || !ok6 || lo != 0 || hi < 0 || hi > 1023 {
		return "bad-op", []string{"bad-op"}
	}
	n := hi + 1 // assigned vBuckets 0..hi
	nodeVbs := n
	if len(t) == 20 { // members=K: the node has K*(hi+1) vBuckets, the child is static member 1 of K
		m, err := strconv.Atoi(kv["members"])
		if err != nil || m < 2 || m > 8 || kv["memb"] != "static" || !strings.HasPrefix(t[19], "members=") {
			return "bad-op", []string{"bad-op"}
		}
		nodeVbs = n * m
	}
	node := sim.New(sim.Options{NumVb: nodeVbs})
	if err := node.Start(); err != nil {
		panic(err)
	}
	defer node.Close()
	for vb := uint16(0); int(vb) < nodeVbs; vb++ {
		node.SetHighSeqno(vb, high[vb])
		node.SetFailoverLog(vb, []sim.FailoverEntry{{UUID: flog[vb], Seq: 0}})
	}
	var extraEnv []string
	switch kv["meta"] {
	case "file":
		fn := filepath.Join(workDir, t[1]+".json")
		if len(docs) > 0 {
			b, _ := json.Marshal(ckState(docs))
			if err := os.WriteFile(fn, b, 0o644); err != nil {
				panic(err)
			}
		}
		if len(loadErr) > 0 {
			// a read error that is not "does not exist": the file name is a directory
			if err := os.MkdirAll(fn, 0o755); err != nil {
				panic(err)
			}
		}
		extraEnv = append(extraEnv, "VERIF_CHILD_FILE="+fn)
		defer os.RemoveAll(fn)
	default:
		noSnap := stNoSnapVb(t[1])
		for vb, d := range docs {
			x := stCheckpointJSON(d)
			if int(vb) == noSnap {
				// a checkpoint document WITHOUT its snapshot section (an older connector version, a hand-edited document)
				x = []byte(fmt.Sprintf(`{"checkpoint":{"vbuuid":%d,"seqno":%d},"bucketUuid":"u"}`, d.u, d.s))
			}
			node.KVPut(0, helpers.Prefix+"st:checkpoint:"+strconv.Itoa(int(vb)), []byte("{}"), map[string][]byte{helpers.Name: x})
		}
	}
	loadKeys := map[string]bool{}
	for vb := range loadErr {
		loadKeys[helpers.Prefix+"st:checkpoint:"+strconv.Itoa(int(vb))] = true
	}
	delay := kv["delay"] == "1"
	push := kv["push"] == "1"
	var pushWg sync.WaitGroup
	// the partial GET_ALL_VB_SEQNOS answer: (vb uint16, seqno uint64) per vBucket that is not left out
	var partialSeqnos []byte
	for vb := 0; vb < nodeVbs; vb++ {
		if !seqMissing[uint16(vb)] {
			partialSeqnos = binary.BigEndian.AppendUint16(partialSeqnos, uint16(vb))
			partialSeqnos = binary.BigEndian.AppendUint64(partialSeqnos, high[uint16(vb)])
		}
	}
	var endMu sync.Mutex
	reqCount := map[uint16]int{} // stream requests seen per vBucket
	ends := map[uint16]int{}     // STREAM_ENDs pushed per vBucket
	refused := map[uint16]int{}  // stream requests answered with an error status
	childDone := make(chan struct{})
	pushEnd := func(vb uint16) {
		for try := 0; try < 100; try++ {
			if err := node.PushStreamEnd(vb, endStatus); err == nil {
				endMu.Lock()
				ends[vb]++
				endMu.Unlock()
				return
			} else if err != sim.ErrNoStream {
				return
			}
			time.Sleep(10 * time.Millisecond)
		}
	}
	if endCase && endPhase == "r" {
		pushWg.Add(1)
		go func() {
			defer pushWg.Done()
			for {
				seenVbs := map[uint16]bool{}
				for _, r := range node.StreamReqs() {
					seenVbs[r.Vb] = true
				}
				if len(seenVbs) == n {
					break
				}
				select {
				case <-childDone:
					return
				case <-time.After(5 * time.Millisecond):
				}
			}
			time.Sleep(200 * time.Millisecond)
			for vb := uint16(0); int(vb) < n; vb++ {
				if endVbs[vb] {
					pushEnd(vb)
				}
			}
		}()
	}
	node.OnRequest(func(r sim.Request) sim.Action {
		switch r.Opcode {
		case memd.CmdSubDocMultiLookup:
			if loadKeys[string(r.Key)] {
				return sim.Status(memd.StatusInternalError)
			}
		case memd.CmdGetAllVBSeqnos:
			if kv["seq"] == "err" {
				return sim.Status(memd.StatusInternalError)
			}
			if len(seqMissing) > 0 {
				return sim.Action{Kind: sim.KindStatus, Code: memd.StatusSuccess, Value: partialSeqnos}
			}
		case memd.CmdDcpGetFailoverLog:
			if flogErr[r.Vb] {
				return sim.Status(memd.StatusInternalError)
			}
		case memd.CmdDcpStreamReq:
			if endCase {
				vb := r.Vb
				endMu.Lock()
				reqCount[vb]++
				k := reqCount[vb]
				if k > 1 && reRef[vb] {
					refused[vb]++
				}
				endMu.Unlock()
				switch {
				case k > 1 && reRef[vb]:
					return sim.Status(memd.StatusInternalError)
				case k > 1:
					return sim.Default()
				case endPhase == "s" && endVbs[vb]:
					pushWg.Add(1)
					go func() {
						defer pushWg.Done()
						time.Sleep(20 * time.Millisecond)
						pushEnd(vb)
					}()
					return sim.Default()
				case endPhase == "s":
					return sim.Delay(400 * time.Millisecond)
				}
				return sim.Default()
			}
			if openErr[r.Vb] {
				a := sim.Status(memd.StatusInternalError)
				if delay {
					a = a.After(400 * time.Millisecond)
				}
				return a
			}
			if push {
				vb := r.Vb
				pushWg.Add(1)
				go func() {
					defer pushWg.Done()
					time.Sleep(30 * time.Millisecond)
					s := high[vb] // any seqno above the requested start will do; the stream starts at <= high
					if s == ^uint64(0) {
						return
					}
					_ = node.PushSnapshot(vb, s+1, s+1, 1)
					_ = node.PushMutation(vb, s+1, 1, 0, 0, 1700000000000000000, 0, []byte(fmt.Sprintf("user-%d", vb)), []byte("{}"), 0)
				}()
			}
		}
		return sim.Default()
	})
	res := l2RunChild("st", op, node.HTTPAddr(), extraEnv...)
	close(childDone)
	pushWg.Wait()
	events := strings.Count(res.stdout, "EV\n")
	final := ""
	for _, ln := range strings.Split(res.stdout, "\n") {
		if strings.HasPrefix(ln, "obs ") {
			final = ln[4:]
		}
	}
	var reqs []string
	seen := map[uint16]int{}
	for _, r := range node.StreamReqs() {
		seen[r.Vb]++
		reqs = append(reqs, fmt.Sprintf("%d:%d,%d,%d,%d,%d,%d", r.Vb, r.Flags, r.VbUUID, r.Start, r.End, r.SnapStart, r.SnapEnd))
	}
	sort.SliceStable(reqs, func(i, j int) bool {
		a, _ := strconv.Atoi(strings.SplitN(reqs[i], ":", 2)[0])
		b, _ := strconv.Atoi(strings.SplitN(reqs[j], ":", 2)[0])
		return a < b
	})
	endMu.Lock()
	endsStr, refusedStr, reReqs := stCounts(ends), stCounts(refused), 0
	for vb := range endVbs {
		if seen[vb]-1 > reReqs {
			reReqs = seen[vb] - 1
		}
	}
	endMu.Unlock()
	switch {
	case res.exit == 0 && strings.HasPrefix(final, "running"):
		tags = append(tags, "exit-0")
		if endCase {
			tags = append(tags, fmt.Sprintf("re-requests-%d", reReqs))
			return fmt.Sprintf("running reqs=[%s] events=%d ends=[%s] refused=[%s]", strings.Join(reqs, " "), events, endsStr, refusedStr), tags
		}
		return fmt.Sprintf("running reqs=[%s] events=%d", strings.Join(reqs, " "), events), tags
	case res.exit == 0:
		return "child:" + final, append(tags, "child-odd")
	case res.exit < 0:
		return "child-timeout", append(tags, "child-timeout")
	}
	cls := stClassify(res.stderr)
	if !strings.Contains(res.stderr, "panic:") {
		cls = "no-panic-" + cls
	}
	if cls == "other" && os.Getenv("VERIF_DEBUG") != "" {
		fmt.Fprintf(os.Stderr, "[c15w] unclassified child death (%s):\n%s\n", op, res.stderr)
	}
	ev := "none"
	if events > 0 {
		ev = "some"
	}
	tags = append(tags, "exit-fail", fmt.Sprintf("reqs-before-death-%d-of-%d", len(seen), n))
	if endCase {
		return fmt.Sprintf("exit-fail:%s events=%s rereqs=%d", cls, ev, reReqs), tags
	}
	return fmt.Sprintf("exit-fail:%s events=%s", cls, ev), tags
}

var stEndStatus = map[string]memd.StreamEndStatus{"state-changed": memd.StreamEndStateChanged, "disconnected": memd.StreamEndDisconnected,
	"too-slow": memd.StreamEndTooSlow, "backfill-failed": memd.StreamEndBackfillFailed}

// stCounts renders a per-vBucket counter as `vb:n vb:n` (sorted, zero entries left out)
func stCounts(m map[uint16]int) string {
	var ks []int
	for k, v := range m {
		if v > 0 {
			ks = append(ks, int(k))
		}
	}
	sort.Ints(ks)
	var p []string
	for _, k := range ks {
		p = append(p, fmt.Sprintf("%d:%d", k, m[uint16(k)]))
	}
	return strings.Join(p, " ")
}

// ---------------------------------------------------------------- generator

type stSpec struct {
	name, meta, memb, file, mode, reset string
	n                                   int
	docs                                map[uint16]ckDoc
	high, flog                          map[uint16]uint64
	loadErr, flogErr, openErr           map[uint16]bool
	seq                                 string
	delay, push                         bool
	end                                 string // "" or VBS:STATUS:PHASE
	reRef                               map[uint16]bool
	members                             int // 0/1: the node has n vBuckets; K > 1: K*n, static member 1 of K
}

func (s *stSpec) op(f7 string) string {
	b := func(x bool) string {
		if x {
			return "1"
		}
		return "0"
	}
	line := fmt.Sprintf("st-case %s meta=%s memb=%s file=%s lo=0 hi=%d mode=%s reset=%s docs=%s high=%s flog=%s loaderr=%s seq=%s f7=%s flogerr=%s openerr=%s delay=%s push=%s",
		s.name, s.meta, s.memb, s.file, s.n-1, s.mode, s.reset, ckDocsStr(s.docs), ckPairsStr(s.high), ckPairsStr(s.flog),
		ckVbsStr(s.loadErr), s.seq, f7, ckVbsStr(s.flogErr), ckVbsStr(s.openErr), b(s.delay), b(s.push))
	if s.end != "" {
		line += fmt.Sprintf(" end=%s reref=%s", s.end, ckVbsStr(s.reRef))
	} else if s.members > 1 {
		line += fmt.Sprintf(" members=%d", s.members)
	}
	return line
}

func stVbList(vbs ...uint16) string {
	m := map[uint16]bool{}
	for _, vb := range vbs {
		m[vb] = true
	}
	return ckVbsStr(m)
}

func stBase(name string, n int, r *Rng) *stSpec {
	s := &stSpec{name: name, meta: "couchbase", memb: "static", file: "unset", mode: "inf", reset: "earliest", n: n, seq: "ok",
		docs: map[uint16]ckDoc{}, high: map[uint16]uint64{}, flog: map[uint16]uint64{}, loadErr: map[uint16]bool{},
		flogErr: map[uint16]bool{}, openErr: map[uint16]bool{}}
	for vb := 0; vb < n; vb++ {
		s.high[uint16(vb)] = uint64(10 + r.Intn(1000))
		s.flog[uint16(vb)] = uint64(1000 + r.Intn(100000))
	}
	return s
}

func stProbe() string {
	node := sim.New(sim.Options{NumVb: 2})
	if err := node.Start(); err != nil {
		panic(err)
	}
	defer node.Close()
	cl := couchbase.NewClient(node.Config("stprobe", "file"))
	if err := cl.Connect(); err != nil {
		panic(err)
	}
	defer cl.Close()
	if err := cl.DcpConnect(true, false); err != nil {
		panic(err)
	}
	defer cl.DcpClose()
	node.Script(memd.CmdGetAllVBSeqnos, sim.AnyVb, sim.Status(memd.StatusInternalError))
	if _, err := cl.GetVBucketSeqNos(false); err != nil {
		return "propagates"
	}
	return "swallows"
}

func runC15W(c *Ctx) {
	wd, err := os.Getwd()
	if err != nil {
		panic(err)
	}
	workDir, err := os.MkdirTemp(wd, "c15w-files-")
	if err != nil {
		panic(err)
	}
	defer os.RemoveAll(workDir)
	var ops []string
	var gtags [][]string
	add := func(op string, tags ...string) { ops = append(ops, op); gtags = append(gtags, tags) }
	f7 := ""
	if replayFile != "" {
		b, err := os.ReadFile(replayFile)
		if err != nil {
			panic(err)
		}
		for _, ln := range strings.Split(string(b), "\n") {
			if op := strings.TrimSpace(strings.SplitN(ln, "\t", 2)[0]); op != "" && strings.HasPrefix(op, "st-case") {
				add(op, "replay")
			}
		}
	} else {
		f7 = stProbe()
		c.E.Line("st-f7probe", f7)
		c.E.EndCase(true, "f7:"+f7)
		r := c.R
		k := 0
		name := func(p string) string { k++; return fmt.Sprintf("%s%d", p, k) }
		// A. stored checkpoint below / equal / above the high seqno, per vBucket: all 3^n relation vectors
		n := c.N(4, 5)
		pow := 1
		for i := 0; i < n; i++ {
			pow *= 3
		}
		for m := 0; m < pow; m++ {
			s := stBase(name("rel"), n, r)
			s.mode = []string{"inf", "fin"}[m%2]
			s.push = m%3 == 0
			x := m
			rel := ""
			for vb := 0; vb < n; vb++ {
				h := s.high[uint16(vb)]
				d := ckDoc{u: s.flog[uint16(vb)], ss: 1, se: h + 5}
				switch x % 3 {
				case 0:
					d.s = uint64(r.Intn(int(h)))
					rel += "b"
				case 1:
					d.s = h
					rel += "e"
				case 2:
					d.s = h + 1 + uint64(r.Intn(3))
					rel += "a"
				}
				x /= 3
				s.docs[uint16(vb)] = d
			}
			add(s.op(f7), "relation", "rel-"+rel)
		}
		// boundary values: high 0 with stored 0 / 1, high 2^64-1, only some vBuckets have a checkpoint
		for i, hv := range []uint64{0, 0, ^uint64(0), 1<<63 + 1, 1 << 53} {
			s := stBase(name("edge"), 3, r)
			s.high[1] = hv
			sv := hv
			if i == 1 {
				sv = 1
			}
			s.docs[1] = ckDoc{u: 9, s: sv, ss: sv, se: sv}
			add(s.op(f7), "relation-edge")
		}
		for _, file := range []bool{false, true} {
			s := stBase(name("filerel"), 3, r)
			s.meta, s.file = "file", "set"
			for vb := uint16(0); vb < 3; vb++ {
				s.docs[vb] = ckDoc{u: 5, s: s.high[vb] - 1, ss: 1, se: s.high[vb]}
			}
			if file {
				s.docs[2] = ckDoc{u: 5, s: s.high[2] + 1, ss: 1, se: s.high[2] + 1}
			}
			add(s.op(f7), "relation-file")
		}
		// B. GET_ALL_VB_SEQNOS error (F7 interplay)
		for _, v := range []struct {
			mode, reset string
			docs        bool
		}{
			{"inf", "earliest", true}, {"inf", "earliest", false}, {"fin", "earliest", false}, {"inf", "latest", false}, {"fin", "latest", false}, {"inf", "latest", true}} {
			s := stBase(name("seqerr"), 3, r)
			s.seq, s.mode, s.reset = "err", v.mode, v.reset
			if v.docs {
				s.docs[1] = ckDoc{u: 3, s: 1 + uint64(r.Intn(5)), ss: 1, se: 9}
			}
			add(s.op(f7), "seqno-error")
		}
		// stored seqno 0 everywhere + seqno error: the guard cannot fire even with documents
		{
			s := stBase(name("seqerr"), 2, r)
			s.seq = "err"
			s.docs[0] = ckDoc{u: 3}
			add(s.op(f7), "seqno-error")
		}
		// C. failover-log error with auto-reset latest (no checkpoint at all), on each / several vBuckets
		for _, set := range [][]uint16{{0}, {2}, {0, 1, 2}} {
			s := stBase(name("flogerr"), 3, r)
			s.reset = "latest"
			for _, vb := range set {
				s.flogErr[vb] = true
			}
			add(s.op(f7), "failover-error")
		}
		{ // not consulted when a checkpoint exists or with earliest
			s := stBase(name("flogerr"), 3, r)
			s.reset = "latest"
			s.flogErr[1] = true
			s.docs[0] = ckDoc{u: 4, s: 2, ss: 2, se: 2}
			add(s.op(f7), "failover-error-unused")
			s2 := stBase(name("flogerr"), 3, r)
			s2.flogErr[1] = true
			add(s2.op(f7), "failover-error-unused")
		}
		// D. DCP_STREAM_REQ error on one / several vBuckets; prompt and late; with and without traffic on the others
		for _, v := range []struct {
			set         []uint16
			delay, push bool
		}{{[]uint16{0}, false, false}, {[]uint16{3}, false, false}, {[]uint16{1, 2}, false, false}, {[]uint16{0, 1, 2, 3}, false, false},
			{[]uint16{2}, true, false}, {[]uint16{2}, true, true}, {[]uint16{0}, true, true}} {
			s := stBase(name("openerr"), 4, r)
			for _, vb := range v.set {
				s.openErr[vb] = true
			}
			s.delay, s.push = v.delay, v.push
			add(s.op(f7), "open-error")
		}
		// E. load errors (couchbase xattr: inside the library's goroutine; file: returned and raised by stream.Load)
		for _, set := range [][]uint16{{0}, {1, 2}} {
			s := stBase(name("loaderr"), 3, r)
			for _, vb := range set {
				s.loadErr[vb] = true
			}
			add(s.op(f7), "load-error")
		}
		{
			s := stBase(name("loaderr"), 3, r)
			s.meta, s.file = "file", "set"
			s.loadErr[0] = true
			add(s.op(f7), "load-error-file")
		}
		// F. type switches
		for _, mt := range []string{"weird", "Couchbase", "FILE", "couchbase_", "memory", "couchbasefile"} {
			s := stBase(name("meta"), 2, r)
			s.meta = mt
			add(s.op(f7), "metadata-type")
		}
		for _, mb := range []string{"weird", "Static", "kubernetes", "static_", "staticdynamic"} {
			s := stBase(name("memb"), 2, r)
			s.memb = mb
			add(s.op(f7), "membership-type")
		}
		{
			s := stBase(name("meta"), 2, r)
			s.meta, s.file = "file", "unset"
			add(s.op(f7), "metadata-file-name")
		}
		// G. several failures at once: the first guard on the path decides
		{
			s := stBase(name("multi"), 3, r)
			s.meta, s.memb = "weird", "weird"
			add(s.op(f7), "multi")
			s = stBase(name("multi"), 3, r)
			s.memb = "weird"
			s.openErr[0] = true
			add(s.op(f7), "multi")
			s = stBase(name("multi"), 3, r)
			s.docs[0] = ckDoc{u: 1, s: s.high[0] + 1, ss: 1, se: 1}
			s.openErr[1] = true
			add(s.op(f7), "multi")
			s = stBase(name("multi"), 3, r)
			s.loadErr[0] = true
			s.docs[1] = ckDoc{u: 1, s: s.high[1] + 1, ss: 1, se: 1}
			add(s.op(f7), "multi")
			s = stBase(name("multi"), 3, r)
			s.reset = "latest"
			s.flogErr[0] = true
			s.openErr[1] = true
			add(s.op(f7), "multi")
		}
		// H. healthy starts (all four mode x reset combinations, with traffic)
		for _, mode := range []string{"inf", "fin"} {
			for _, reset := range []string{"earliest", "latest"} {
				s := stBase(name("healthy"), 3, r)
				s.mode, s.reset, s.push = mode, reset, true
				add(s.op(f7), "healthy")
			}
		}
		for i := 0; i < c.N(40, 400); i++ {
			s := stBase(name("rand"), r.Range(1, 5), r)
			s.mode, s.reset, s.push = r.Pick("inf", "fin"), r.Pick("earliest", "latest"), r.Bool()
			for vb := 0; vb < s.n; vb++ {
				if r.Chance(50) {
					h := s.high[uint16(vb)]
					sv := uint64(r.Intn(int(h) + 1))
					if r.Chance(15) {
						sv = h + 1
					}
					s.docs[uint16(vb)] = ckDoc{u: ckVal(r), s: sv, ss: ckVal(r), se: ckVal(r)}
				}
			}
			if r.Chance(20) {
				s.openErr[uint16(r.Intn(s.n))] = true
				s.push = false // a prompt error answer racing with traffic: either outcome; kept out of the generator
			}
			add(s.op(f7), "random")
		}
		// ---- cases appended later: they come after every older case so that the older lines keep their PRNG draws ----
		// I. PARTIAL GET_ALL_VB_SEQNOS answer (status success, an assigned vBucket left out): checkpoint.Load reads the
		// missing entry as high seqno 0, so any stored seqno > 0 of that vBucket is fatal; 0 / no checkpoint runs from 0
		stored := func(s *stSpec, below bool) {
			for vb := uint16(0); int(vb) < s.n; vb++ {
				h := s.high[vb]
				sv := h
				if below {
					sv = 1 + uint64(r.Intn(int(h)))
				}
				s.docs[vb] = ckDoc{u: s.flog[vb], s: sv, ss: 1, se: h + 5}
			}
		}
		{
			s := stBase(name("partial"), 4, r) // the stored position is below the TRUE high seqno of every vBucket
			stored(s, true)
			s.seq = "partial:3"
			add(s.op(f7), "partial-seqnos", "partial-stored-positive")
			s = stBase(name("partial"), 3, r) // smallest positive stored seqno
			s.docs[1] = ckDoc{u: 7, s: 1, ss: 1, se: 1}
			s.seq = "partial:1"
			add(s.op(f7), "partial-seqnos", "partial-stored-positive")
			s = stBase(name("partial"), 3, r) // a stored document with seqno 0: 0 > 0 is false, runs
			s.docs[1] = ckDoc{u: 7}
			s.seq = "partial:1"
			add(s.op(f7), "partial-seqnos", "partial-stored-zero")
			s = stBase(name("partial"), 4, r) // checkpoints elsewhere, none for the missing vBucket
			stored(s, true)
			delete(s.docs, 2)
			s.seq = "partial:2"
			add(s.op(f7), "partial-seqnos", "partial-no-checkpoint")
			s = stBase(name("partial"), 3, r) // everything missing, nothing stored
			s.seq = "partial:0,1,2"
			add(s.op(f7), "partial-seqnos", "partial-no-checkpoint")
			s = stBase(name("partial"), 3, r) // everything missing, one stored
			s.docs[2] = ckDoc{u: 7, s: 3, ss: 1, se: 9}
			s.seq = "partial:0,1,2"
			add(s.op(f7), "partial-seqnos", "partial-stored-positive")
			for _, mode := range []string{"inf", "fin"} { // auto-reset latest: the missing vBucket starts at 0, the others at their high seqno
				s = stBase(name("partial"), 3, r)
				s.reset, s.mode = "latest", mode
				s.seq = "partial:1"
				add(s.op(f7), "partial-seqnos", "partial-latest")
			}
			s = stBase(name("partial"), 3, r) // latest, but a checkpoint exists: not the latest branch
			s.reset = "latest"
			s.docs[0] = ckDoc{u: 4, s: 2, ss: 2, se: 2}
			s.seq = "partial:1"
			add(s.op(f7), "partial-seqnos", "partial-no-checkpoint")
			s = stBase(name("partial"), 3, r) // the missing one is clean, a reported one is ahead
			s.docs[0] = ckDoc{u: 4, s: s.high[0] + 1, ss: 1, se: s.high[0] + 1}
			s.seq = "partial:1"
			add(s.op(f7), "partial-seqnos", "partial-other-ahead")
			s = stBase(name("partial"), 3, r) // finite mode
			stored(s, false)
			s.mode = "fin"
			s.seq = "partial:0"
			add(s.op(f7), "partial-seqnos", "partial-stored-positive")
			s = stBase(name("partial"), 3, r) // finite mode, nothing stored: the missing vBucket is asked for [0, 0]
			s.mode = "fin"
			s.seq = "partial:2"
			add(s.op(f7), "partial-seqnos", "partial-no-checkpoint")
			s = stBase(name("partial"), 3, r) // file back end
			s.meta, s.file = "file", "set"
			stored(s, true)
			s.seq = "partial:1,2"
			add(s.op(f7), "partial-seqnos", "partial-stored-positive")
			s = stBase(name("partial"), 3, r) // a vBucket the node does not have: the answer is complete
			stored(s, true)
			s.seq = "partial:9"
			add(s.op(f7), "partial-seqnos", "partial-outside")
		}
		for i := 0; i < c.N(16, 120); i++ {
			s := stBase(name("prand"), r.Range(2, 5), r)
			s.mode, s.reset = r.Pick("inf", "fin"), r.Pick("earliest", "latest")
			var miss []uint16
			for vb := 0; vb < s.n; vb++ {
				if r.Chance(35) {
					miss = append(miss, uint16(vb))
				}
				if r.Chance(50) {
					h := s.high[uint16(vb)]
					sv := uint64(r.Intn(int(h) + 1))
					if r.Chance(40) {
						sv = 0
					}
					s.docs[uint16(vb)] = ckDoc{u: ckVal(r), s: sv, ss: ckVal(r), se: ckVal(r)}
				}
			}
			if len(miss) == 0 {
				miss = append(miss, uint16(r.Intn(s.n)))
			}
			s.seq = "partial:" + stVbList(miss...)
			add(s.op(f7), "partial-seqnos", "partial-random")
		}
		// J. a stream that the node ends with a re-openable status WHILE start-up is still opening the other vBuckets
		// (stream.open is still false) must be requested again from the same position; and when every re-request is
		// refused the bounded retries (5, 1 s apart) end in a fail-stop - never a session without that vBucket
		statuses := []string{"state-changed", "disconnected", "too-slow", "backfill-failed"}
		for i, stt := range statuses {
			s := stBase(name("endopen"), 4, r)
			s.end = fmt.Sprintf("%s:%s:s", stVbList(uint16(i)), stt)
			if i%2 == 1 {
				stored(s, true) // the re-request must name the stored position again
			}
			add(s.op(f7), "end-during-startup", "end-"+stt)
		}
		{
			s := stBase(name("endopen"), 4, r)
			s.end = "1,2:state-changed:s"
			s.mode = "fin"
			add(s.op(f7), "end-during-startup", "end-two")
			s = stBase(name("endopen"), 3, r)
			s.end = "0,1:too-slow:s"
			s.reset = "latest"
			add(s.op(f7), "end-during-startup", "end-two")
			s = stBase(name("endopen"), 2, r)
			s.end = "1:disconnected:s"
			stored(s, false)
			add(s.op(f7), "end-during-startup", "end-disconnected")
		}
		for _, stt := range []string{"state-changed", "backfill-failed"} { // control: the same end once start-up is over
			s := stBase(name("endrun"), 3, r)
			s.end = "1:" + stt + ":r"
			add(s.op(f7), "end-after-startup", "end-"+stt)
		}
		// every re-request refused: ~5 s per child (they run in parallel with everything else)
		gaveUp := []struct {
			vb     uint16
			status string
			phase  string
		}{{0, "state-changed", "s"}}
		if c.N(0, 1) == 1 {
			gaveUp = append(gaveUp, []struct {
				vb     uint16
				status string
				phase  string
			}{{2, "too-slow", "s"}, {1, "disconnected", "s"}, {3, "backfill-failed", "s"}, {1, "state-changed", "r"}, {0, "too-slow", "r"}}...)
		}
		for _, g := range gaveUp {
			s := stBase(name("endrefused"), 4, r)
			s.end = fmt.Sprintf("%d:%s:%s", g.vb, g.status, g.phase)
			s.reRef = map[uint16]bool{g.vb: true}
			add(s.op(f7), "reopen-refused", "end-"+g.status, "phase-"+g.phase)
		}
		// K. the FILE back end with its file present: fileMetadata.Load returns the file's map AS IT IS (the assignment is
		// only consulted when the file is missing).  (a) the file names a proper subset of the assigned vBuckets (a group
		// resized between two runs): openStream's "not found on offset map" must terminate the process - the only back-stop
		// against a session on a partial basis; (b) every assigned vBucket + entries OUTSIDE the assignment: those are still
		// range-checked (beyond the node's vBucket count the seqno answer has no entry = 0; inside it, the true high seqno);
		// (c) only unassigned entries; (d) combined with a refused stream request / sibling traffic
		fileSpec := func(n, members int) *stSpec {
			s := stBase(name("fpart"), n, r)
			s.meta, s.file = "file", "set"
			stored(s, true)
			if members > 1 {
				s.members = members
				for vb := n; vb < n*members; vb++ {
					s.high[uint16(vb)] = uint64(10 + r.Intn(1000))
					s.flog[uint16(vb)] = uint64(1000 + r.Intn(100000))
				}
			}
			return s
		}
		fp := func(s *stSpec, tags ...string) {
			for i := range tags {
				tags[i] = "file-partial." + tags[i]
			}
			add(s.op(f7), append([]string{"file-partial"}, tags...)...)
		}
		{
			// (a) subsets
			s := fileSpec(3, 1)
			delete(s.docs, 1)
			fp(s, "subset", "one-missing")
			s = fileSpec(5, 1)
			delete(s.docs, 1)
			delete(s.docs, 3)
			delete(s.docs, 4)
			fp(s, "subset", "several-missing")
			s = fileSpec(4, 1)
			for _, vb := range []uint16{0, 1, 3} {
				delete(s.docs, vb)
			}
			fp(s, "subset", "only-one-stored")
			// (b) every assigned vBucket + entries outside the assignment
			s = fileSpec(3, 1)
			s.docs[3] = ckDoc{u: 5} // beyond the node's vBuckets, seqno 0: 0 > 0 is false, the session runs
			fp(s, "extra", "extra-zero-beyond-node")
			s = fileSpec(3, 1)
			s.docs[7] = ckDoc{u: 5, s: 1, ss: 1, se: 1} // no entry in the seqno answer = 0: any positive seqno is "ahead"
			fp(s, "extra", "extra-positive-beyond-node")
			s = fileSpec(2, 2) // the node has 0..3, this member owns 0..1; the file was written by a 1/1 run
			for _, vb := range []uint16{2, 3} {
				s.docs[vb] = ckDoc{u: s.flog[vb], s: 1 + uint64(r.Intn(int(s.high[vb]))), ss: 1, se: s.high[vb] + 5}
			}
			s.push = true
			fp(s, "extra", "extra-below-inside-node")
			s = fileSpec(2, 2)
			s.docs[2] = ckDoc{u: s.flog[2], s: 1, ss: 1, se: 9}
			s.docs[3] = ckDoc{u: s.flog[3], s: s.high[3] + 1, ss: 1, se: s.high[3] + 1}
			fp(s, "extra", "extra-ahead-inside-node")
			// (c) only entries outside the assignment; auto-reset latest must NOT reset (exist = true)
			s = fileSpec(2, 1)
			s.docs = map[uint16]ckDoc{5: {u: 1}}
			s.reset = "latest"
			s.flogErr[0] = true // not consulted either
			fp(s, "only-unassigned", "only-unassigned-zero")
			s = fileSpec(2, 1)
			s.docs = map[uint16]ckDoc{5: {u: 1, s: 3, ss: 1, se: 3}, 2: {u: 1}}
			fp(s, "only-unassigned", "only-unassigned-positive")
			// (d) combinations
			s = fileSpec(4, 1) // one missing, another one refused late, traffic on the rest: the local failure is prompt
			delete(s.docs, 2)
			s.openErr[0] = true
			s.delay, s.push = true, true
			fp(s, "subset", "combined", "missing+openerr-late+push")
			s = fileSpec(3, 1) // complete + harmless extra entry, one stream request refused
			s.docs[9] = ckDoc{u: 2}
			s.openErr[1] = true
			fp(s, "extra", "combined", "extra-zero+openerr")
			s = fileSpec(3, 1) // complete + harmless extra entry, traffic
			s.docs[4] = ckDoc{u: 2}
			s.push = true
			s.mode = "fin"
			fp(s, "extra", "combined", "extra-zero+push")
		}
		if c.N(0, 1) == 1 {
			s := fileSpec(4, 1) // the realistic resize: written as member 1 of 2 (0..1), restarted as 1 of 1 (0..3)
			delete(s.docs, 2)
			delete(s.docs, 3)
			s.push = true
			fp(s, "subset", "several-missing", "resize-grow")
			s = fileSpec(3, 1) // a missing vBucket AND an assigned one ahead: Load panics first
			delete(s.docs, 0)
			s.docs[2] = ckDoc{u: 1, s: s.high[2] + 1, ss: 1, se: s.high[2] + 1}
			fp(s, "subset", "combined", "missing+assigned-ahead")
			s = fileSpec(3, 1) // a missing vBucket AND an unassigned one ahead
			delete(s.docs, 1)
			s.docs[6] = ckDoc{u: 1, s: 2, ss: 1, se: 2}
			fp(s, "subset", "extra", "combined", "missing+extra-positive")
			s = fileSpec(3, 1) // a missing vBucket under a partial seqno answer that leaves a stored-0 vBucket out
			delete(s.docs, 1)
			s.docs[2] = ckDoc{u: 1}
			s.seq = "partial:2"
			fp(s, "subset", "combined", "missing+partial-seqnos")
			s = fileSpec(3, 1) // a missing vBucket and a failed seqno query
			delete(s.docs, 1)
			s.seq = "err"
			fp(s, "subset", "combined", "missing+seqno-error")
			s = fileSpec(3, 1) // everything missing but vBucket 0 holds seqno 0; finite mode
			s.docs = map[uint16]ckDoc{0: {u: 9}}
			s.mode = "fin"
			fp(s, "subset", "only-one-stored")
			s = fileSpec(2, 3) // member 1 of 3: 0..1 of 0..5; the partial answer leaves an unassigned stored vBucket out
			s.docs[4] = ckDoc{u: s.flog[4], s: 1, ss: 1, se: 9}
			s.seq = "partial:4"
			fp(s, "extra", "combined", "extra-inside+partial-seqnos")
			s = fileSpec(2, 2) // unassigned stored vBucket exactly AT its high seqno: not ahead
			s.docs[3] = ckDoc{u: s.flog[3], s: s.high[3], ss: 1, se: s.high[3]}
			fp(s, "extra", "extra-equal-inside-node")
			s = fileSpec(3, 1) // the largest vBucket id a file can name
			s.docs[65535] = ckDoc{u: 2}
			fp(s, "extra", "extra-zero-beyond-node")
			s = fileSpec(3, 1) // a missing vBucket, unknown membership: the type switch comes first
			delete(s.docs, 1)
			s.memb = "weird"
			fp(s, "subset", "combined", "missing+membership-type")
		}
		for i := 0; i < c.N(0, 60); i++ {
			members := 1 + r.Intn(3)
			s := fileSpec(r.Range(1, 4), members)
			s.mode, s.push = r.Pick("inf", "fin"), r.Bool()
			s.reset = r.Pick("earliest", "latest")
			tags := []string{"random"}
			for vb := 0; vb < s.n; vb++ {
				if r.Chance(30) {
					delete(s.docs, uint16(vb))
				}
			}
			for k := r.Intn(3); k > 0; k-- { // entries outside the assignment: inside the node, just beyond it, far away
				vb := uint16(s.n + r.Intn(s.n*members+3))
				h := s.high[vb] // 0 beyond the node
				sv := uint64(0)
				if r.Chance(50) {
					sv = uint64(r.Intn(int(h) + 2))
				}
				s.docs[vb] = ckDoc{u: ckVal(r), s: sv, ss: 0, se: sv + 1}
			}
			if len(s.docs) == 0 { // that would be "no file": keep the family on the file path
				s.docs[uint16(s.n)] = ckDoc{u: 3}
			}
			if r.Chance(15) {
				s.openErr[uint16(r.Intn(s.n))] = true
				s.push = false
			}
			fp(s, tags...)
		}
		// L. large assignments (every one of them must be requested): sizes around and between the multiples of 64 / 128 / 256,
		// also as one member's share of a 1024-vBucket bucket (1 of 3 = 342, 1 of 4 = 256, 1 of 5 = 205)
		large := func(n, members int, tags ...string) {
			s := stBase(name("large"), n, r)
			if members > 1 {
				s.members = members
				for vb := n; vb < n*members && vb < 1024; vb++ {
					s.high[uint16(vb)] = uint64(10 + r.Intn(1000))
					s.flog[uint16(vb)] = uint64(1000 + r.Intn(100000))
				}
			}
			add(s.op(f7), append([]string{"large-assignment"}, tags...)...)
		}
		for _, n := range []int{127, 129, 300} {
			large(n, 1, fmt.Sprintf("large-n%d", n))
		}
		large(342, 1, "large-n342")
		// N. the consumer's listener panics on its first event before acknowledging it: the panic is the consumer's - the process
		// ends with it; the library neither swallows it nor acknowledges the event on the consumer's behalf
		for _, n := range []int{1, 3} {
			s := stBase(name("lpanic"), n, r)
			s.push = true
			add(s.op(f7), "listener-panic")
		}
		// M. a stored checkpoint document without its snapshot section: checkpoint.Load dereferences it - the client stops (it must
		// not go on with an invented [0,0] window around a non-zero seqno)
		for _, vb := range []int{0, 2} {
			s := stBase(fmt.Sprintf("%sx%d", name("nosnap"), vb), 3, r)
			for v := uint16(0); v < 3; v++ {
				s.docs[v] = ckDoc{u: s.flog[v], s: 1 + uint64(r.Intn(int(s.high[v]))), ss: 1, se: s.high[v]}
			}
			s.push = vb == 2
			add(s.op(f7), "checkpoint-without-snapshot")
		}
		if c.N(0, 1) == 1 {
			for _, n := range []int{64, 128, 200, 256, 257, 511, 1000, 1024} {
				large(n, 1, fmt.Sprintf("large-n%d", n))
			}
		}
	}
	type res struct {
		obs  string
		tags []string
	}
	out := make([]res, len(ops))
	var wg sync.WaitGroup
	sem := make(chan struct{}, 16)
	for i, op := range ops {
		wg.Add(1)
		go func(i int, op string) {
			defer wg.Done()
			sem <- struct{}{}
			defer func() { <-sem }()
			o, t := stRun(op, workDir)
			for try := 0; try < 2 && (o == "child-timeout" || strings.HasPrefix(o, "child:")); try++ {
				o, t = stRun(op, workDir)
				t = append(t, "rerun")
			}
			out[i] = res{o, t}
		}(i, op)
	}
	wg.Wait()
	for i, op := range ops {
		c.E.Line(op, out[i].obs)
		c.E.EndCase(!strings.Contains(strings.Join(gtags[i], " "), "healthy"), append(out[i].tags, gtags[i]...)...)
	}
	c.Extra["children"] = len(ops)
}
