package main

// Stream "c20w": property C20 on the wire.  Every Couchbase call wrapper of
// go-dcp that is reachable with a REAL couchbase.NewClient(cfg) runs against
// the simulated node (harness/sim) under a per-request scripted server
// behaviour.  One op line per case (self-contained, replayable):
//
//   ao-wire <wrapper> <behaviour> <deadline-class> [f7=swallows|propagates]
//        =>   <result-class> <time-class> leak=<n>
//
// wrapper         name of the exported entry point (table awWrappers below)
// behaviour       what the node does with the scripted request of the call:
//                 prompt | err-internal | err-enoent | err-tmpfail (one TMPFAIL, then healthy:
//                 gocbcore's best-effort strategy retries it) | tmpfail-always | delay-short
//                 (reply after D/3) | delay-long (reply after 2.25 D, i.e. after the call
//                 has returned) | silent | drop (connection closed without an answer) |
//                 rejected-shutdown (the request never reaches the node: DcpClose() + Close() of the client's
//                 agents first, gocbcore refuses it at dispatch with ErrShutdown and NO callback will ever run) |
//                 rejected-invalid-vb (per-vBucket DCP calls with vBucket 60000 on a healthy client: refused at
//                 dispatch, no route).  Own node + client per case, appended after all other jobs (no PRNG draw).
//                 Must come back at once with an error: `dispatch-error before leak=0`; `hang` = still inside
//                 5 s later
// deadline-class  cfg     the ctx deadline is chosen by the caller / config: D = 250 ms here
//                 const60 hard-coded 60 s in the wrapper (silent only in the thorough tier)
//                 bg5     context.Background() + gocbcore's own 5 s (cbMetadata.Load; `GetXattrs.bg` =
//                         the exported helper called exactly as cbMetadata.Load calls it, which is the
//                         only way to run the silent-server case of that call without its process-
//                         killing panic: must come back with a time-out after 5 s, margin 2 s)
// result-class    ok (returned success and the node had sent a success reply before) |
//                 ok-unconfirmed (success although the node confirmed nothing) | ok-empty
//                 (success, no data, nothing confirmed: GetVBucketSeqNos, finding F7) |
//                 ok-noexist (cbMetadata.Load: "no checkpoint" after KEY_ENOENT / corrupt) |
//                 server-error | unhealthy (Ping) | timeout | canceled | conn-error |
//                 other-error | panic:<class> (cbMembership's recoverable fail-stop) |
//                 hang (the call had not returned 5 s after its deadline – GetXattrs.bg: after 5 s + 2 s + 0.5 s –
//                 and is left behind)
// time-class      before (< D) | ontime (D .. D + 1 s; bg5: D + 2 s) | late
// leak            goroutines parked in go-dcp's couchbase package because of this case
//                 after the settling time (late reply delivered, 60 ms quiet)
//
// Three lanes run concurrently, each with its own node + client and a disjoint
// set of wrapper functions (the leak count filters goroutine stacks by function
// name); `drop` cases and the 60 s `silent` cases get a node of their own and
// run in two final phases (drops: sequential per lane; silences: concurrent).  The line `ao-wire-f7probe` is emitted first
// (in a replay: after the replayed cases, see runC20W):
// does GetVBucketSeqNos hand back a server error status (`propagates`) or not
// (`swallows`, the unchanged tree, F7)?  Its answer travels on the op lines of the
// GetVBucketSeqNos error cases so that the (stateless) Lean handler can tell the
// unfixed from the fixed code; both correspond.
//
// GetVBucketSeqNos on a cluster of SEVERAL KV nodes (one GET_ALL_VB_SEQNOS request per node, each with its own
// 60 s context + asyncOp inside the wrapper):
//
//   w-seqnos-multi <n> <b0>,<b1>[,<b2>…]   =>   <result-class> <time-class> blocked=<k>
//
// n               number of KV nodes of the simulated cluster (vBucket vb is active on node vb mod n)
// bi              what node i does with its request: prompt | err (INTERNAL_ERROR status) | silent |
//                 late (answers 1 s AFTER the 60 s deadline)
// result-class    ok (success and the map holds the union of all nodes' vBuckets) | ok-empty | ok-wrong-data |
//                 server-error | timeout | … (awClass) | hang (not back 10 s after the deadline; left behind)
// time-class      before (< 60 s) | by-deadline (60 s … 63 s) | late
// blocked         goroutines of THIS call (pprof label of the case, inherited by every goroutine of its client)
//                 that still have a GetVBucketSeqNos frame 2 s after the call returned (and 1 s after a late
//                 answer was sent); for `hang`: at the moment the harness gave up
// These cases start first and run concurrently with everything else (their wall time is the 60 s of the wrapper).

import (
	"bytes"
	"context"
	"errors"
	"fmt"
	"os"
	"regexp"
	"runtime"
	"runtime/pprof"
	"sort"
	"strings"
	"sync"
	"sync/atomic"
	"time"

	"github.com/Trendyol/go-dcp/config"
	"github.com/Trendyol/go-dcp/couchbase"
	"github.com/Trendyol/go-dcp/helpers"
	"github.com/Trendyol/go-dcp/models"
	"github.com/Trendyol/go-dcp/tracing"
	"github.com/asaskevich/EventBus"
	"github.com/couchbase/gocbcore/v10"
	"github.com/couchbase/gocbcore/v10/memd"

	"verifharness/sim"
)

func init() { props["c20w"] = runC20W }

const (
	awD      = 250 * time.Millisecond
	awShort  = awD / 3
	awLong   = awD*2 + awD/4
	awMargin = time.Second
	// deadline class bg5: gocbcore's own 5 s, accepted up to 7 s; the harness gives up at 7.5 s (`hang`)
	awBgD      = 5 * time.Second
	awBgMargin = 2 * time.Second
	awBgGiveUp = awBgD + awBgMargin + 500*time.Millisecond
	// any call that is not back this long after its deadline is reported as `hang` and left behind
	awCallGiveUp = 5 * time.Second
)

// ---------------------------------------------------------------- environment

type awPlan struct {
	op    memd.CmdCode
	skip  int // matching requests answered normally before the scripted one
	beh   string
	seen  int
	okAt  []time.Time // when success-path (default) replies are due
	fired bool
}

type awEnv struct {
	node *sim.Node
	cfg  *config.Dcp
	cl   couchbase.Client
	mu   sync.Mutex
	plan *awPlan
	vbN  int
	// the rejected-shutdown case has closed the client's agents itself
	dcpClosed, kvClosed bool
}

func (e *awEnv) hook(r sim.Request) sim.Action {
	e.mu.Lock()
	defer e.mu.Unlock()
	p := e.plan
	if p == nil || r.Opcode != p.op {
		return sim.Default()
	}
	p.seen++
	if p.seen <= p.skip {
		p.okAt = append(p.okAt, time.Now())
		return sim.Default()
	}
	first := !p.fired
	p.fired = true
	switch p.beh {
	case "tmpfail-always":
		return sim.Status(memd.StatusTmpFail)
	}
	if !first {
		p.okAt = append(p.okAt, time.Now())
		return sim.Default()
	}
	switch p.beh {
	case "err-internal":
		return sim.Status(memd.StatusInternalError)
	case "err-enoent":
		return sim.Status(memd.StatusKeyNotFound)
	case "err-tmpfail":
		return sim.Status(memd.StatusTmpFail)
	case "delay-short":
		p.okAt = append(p.okAt, time.Now().Add(awShort))
		return sim.Delay(awShort)
	case "delay-long":
		p.okAt = append(p.okAt, time.Now().Add(awLong))
		return sim.Delay(awLong)
	case "silent":
		return sim.Silent()
	case "drop":
		return sim.DropConn()
	}
	p.okAt = append(p.okAt, time.Now())
	return sim.Default()
}

func newAwEnv(collections bool, group string) *awEnv {
	e := &awEnv{vbN: 8}
	opt := sim.Options{NumVb: e.vbN}
	if collections {
		opt.Collections = true
		opt.CollectionIDs = map[string]uint32{"_default._default": 0, "_default.c1": 8, "_default.c2": 9}
	}
	e.node = sim.New(opt)
	if err := e.node.Start(); err != nil {
		panic(err)
	}
	for vb := 0; vb < e.vbN; vb++ {
		e.node.SetHighSeqno(uint16(vb), 100+uint64(vb))
	}
	e.node.OnRequest(e.hook)
	e.cfg = e.node.Config(group, "couchbase")
	e.cfg.HealthCheck.Timeout = awD
	e.cfg.Checkpoint.Timeout = awD
	if collections {
		e.cfg.CollectionNames = []string{"c1", "c2"}
	}
	e.cl = couchbase.NewClient(e.cfg)
	if err := e.cl.Connect(); err != nil {
		panic(err)
	}
	if err := e.cl.DcpConnect(true, false); err != nil {
		panic(err)
	}
	return e
}

func (e *awEnv) close() {
	if !e.dcpClosed { // gocbcore's DCPAgent.Close panics when called twice
		e.cl.DcpClose()
	}
	if !e.kvClosed {
		e.cl.Close()
	}
	e.node.Close()
}

// ---------------------------------------------------------------- classification

func awClass(err error) string {
	var kv *gocbcore.KeyValueError
	switch {
	case err == nil:
		return "ok"
	case errors.Is(err, context.DeadlineExceeded), errors.Is(err, gocbcore.ErrTimeout):
		return "timeout"
	case errors.Is(err, context.Canceled):
		return "canceled"
	case errors.Is(err, gocbcore.ErrSocketClosed), errors.Is(err, gocbcore.ErrRequestCanceled), errors.Is(err, gocbcore.ErrShutdown):
		return "conn-error"
	case errors.As(err, &kv):
		return "server-error"
	case strings.Contains(err.Error(), "some services are not healthy"):
		return "unhealthy"
	}
	if os.Getenv("VERIF_DEBUG") != "" {
		fmt.Fprintf(os.Stderr, "[c20w] other error: %T %v\n", err, err)
	}
	return "other-error"
}

func awPanicClass(r any) string {
	if err, ok := r.(error); ok {
		return "panic:" + awClass(err)
	}
	return "panic:other"
}

var awFrameRe = map[string]*regexp.Regexp{}

var (
	awGoidRe      = regexp.MustCompile(`^goroutine (\d+) \[`)
	awCreatedInRe = regexp.MustCompile(`created by [^\n]* in goroutine (\d+)\n`)
)

// goroutines whose stack contains a frame of one of the given go-dcp functions
func awParked(filter *regexp.Regexp) int {
	buf := make([]byte, 1<<20)
	for {
		n := runtime.Stack(buf, true)
		if n < len(buf) {
			buf = buf[:n]
			break
		}
		buf = make([]byte, 2*len(buf))
	}
	cnt := 0
	gs := strings.Split(string(buf), "\n\n")
	// the concurrent `w-seqnos-multi` cases are not this case's goroutines: their calling goroutines
	// (frames main.awMulti…) and the errgroup workers created by those
	multi := map[string]bool{}
	for _, g := range gs {
		if strings.Contains(g, "main.awMulti") {
			if m := awGoidRe.FindStringSubmatch(g); m != nil {
				multi[m[1]] = true
			}
		}
	}
	for _, g := range gs {
		if strings.Contains(g, "awParked") {
			continue // the caller itself
		}
		if len(multi) > 0 {
			if strings.Contains(g, "main.awMulti") {
				continue
			}
			if m := awCreatedInRe.FindStringSubmatch(g); m != nil && multi[m[1]] {
				continue
			}
		}
		if filter.MatchString(g) {
			cnt++
			if os.Getenv("VERIF_DEBUG") != "" {
				fmt.Fprintf(os.Stderr, "[c20w] parked goroutine:\n%s\n", g)
			}
		}
	}
	return cnt
}

func awTimeClass(el, d time.Duration, dclass string) string {
	margin := awMargin
	if dclass == "bg5" {
		margin = awBgMargin
	}
	switch {
	case el < d:
		return "before"
	case el <= d+margin:
		return "ontime"
	}
	return "late"
}

// ---------------------------------------------------------------- wrappers

type awWrapper struct {
	name   string
	lane   int // 0 doc ops + metadata + membership, 1 client methods, 2 collections
	dclass string
	op     memd.CmdCode
	skip   int
	behs   []string
	// prepare runs unscripted; call is the measured invocation and returns the class
	prepare func(e *awEnv, k int)
	call    func(e *awEnv, k int) string
	frames  string // regexp alternatives of go-dcp function names the call may park goroutines in
}

var (
	awBehDoc   = []string{"prompt", "err-internal", "err-enoent", "err-tmpfail", "tmpfail-always", "delay-short", "delay-long", "silent", "drop"}
	awBehConst = []string{"prompt", "err-internal", "err-enoent", "err-tmpfail", "delay-short", "drop", "silent"}
)

func awKey(name string, k int) []byte { return []byte(fmt.Sprintf("awdoc:%s:%d", name, k)) }

func awCtx() (context.Context, context.CancelFunc) {
	return context.WithTimeout(context.Background(), awD)
}

func awCheckpointDoc(seq uint64) *models.CheckpointDocument {
	return &models.CheckpointDocument{Checkpoint: &models.CheckpointDocumentCheckpoint{VbUUID: 7, SeqNo: seq,
		Snapshot: &models.CheckpointDocumentSnapshot{StartSeqNo: seq, EndSeqNo: seq}}, BucketUUID: "u"}
}

func awMembershipCfg(e *awEnv, group string) *config.Dcp {
	c := *e.cfg
	c.Dcp.Group.Name = group
	c.Dcp.Group.Membership.Type = "couchbase"
	c.Dcp.Group.Membership.RebalanceDelay = 10 * time.Millisecond
	c.Dcp.Group.Membership.Config = map[string]string{
		"timeout": awD.String(), "heartbeatInterval": "20ms", "monitorInterval": "20ms", "heartbeatToleranceDuration": "1m"}
	return &c
}

func awWrappers() []*awWrapper {
	agent := func(e *awEnv) *gocbcore.Agent { return e.cl.GetMetaAgent() }
	put := func(name string) func(e *awEnv, k int) {
		return func(e *awEnv, k int) {
			e.node.KVPut(0, string(awKey(name, k)), []byte(`{"a":1}`), map[string][]byte{"cbgo": []byte(`{"x":1}`)})
		}
	}
	ws := []*awWrapper{
		{name: "GetXattrs", lane: 0, dclass: "cfg", op: memd.CmdSubDocMultiLookup, behs: awBehDoc, prepare: put("GetXattrs"),
			frames: `couchbase\.GetXattrs`,
			call: func(e *awEnv, k int) string {
				ctx, cancel := awCtx()
				defer cancel()
				v, err := couchbase.GetXattrs(ctx, agent(e), "_default", "_default", awKey("GetXattrs", k), helpers.Name)
				if err == nil && string(v) != `{"x":1}` {
					return "ok-wrong-data"
				}
				return awClass(err)
			}},
		{name: "UpsertXattrs", lane: 0, dclass: "cfg", op: memd.CmdSubDocMultiMutation, behs: awBehDoc, prepare: put("UpsertXattrs"),
			frames: `couchbase\.UpsertXattrs`,
			call: func(e *awEnv, k int) string {
				ctx, cancel := awCtx()
				defer cancel()
				return awClass(couchbase.UpsertXattrs(ctx, agent(e), "_default", "_default", awKey("UpsertXattrs", k), helpers.Name, []byte(`{"y":2}`), 0))
			}},
		{name: "CreateDocument", lane: 0, dclass: "cfg", op: memd.CmdSet, behs: awBehDoc, prepare: func(*awEnv, int) {},
			frames: `couchbase\.CreateDocument`,
			call: func(e *awEnv, k int) string {
				ctx, cancel := awCtx()
				defer cancel()
				return awClass(couchbase.CreateDocument(ctx, agent(e), "_default", "_default", awKey("CreateDocument", k), []byte(`{}`), helpers.JSONFlags, 0))
			}},
		{name: "UpdateDocument", lane: 0, dclass: "cfg", op: memd.CmdSubDocMultiMutation, behs: awBehDoc, prepare: put("UpdateDocument"),
			frames: `couchbase\.UpdateDocument`,
			call: func(e *awEnv, k int) string {
				ctx, cancel := awCtx()
				defer cancel()
				return awClass(couchbase.UpdateDocument(ctx, agent(e), "_default", "_default", awKey("UpdateDocument", k), []byte(`{"b":2}`), 0, nil))
			}},
		{name: "DeleteDocument", lane: 0, dclass: "cfg", op: memd.CmdDelete, behs: awBehDoc, prepare: put("DeleteDocument"),
			frames: `couchbase\.DeleteDocument`,
			call: func(e *awEnv, k int) string {
				ctx, cancel := awCtx()
				defer cancel()
				return awClass(couchbase.DeleteDocument(ctx, agent(e), "_default", "_default", awKey("DeleteDocument", k)))
			}},
		{name: "Get", lane: 0, dclass: "cfg", op: memd.CmdGet, behs: awBehDoc, prepare: put("Get"),
			frames: `couchbase\.Get\b`,
			call: func(e *awEnv, k int) string {
				ctx, cancel := awCtx()
				defer cancel()
				r, err := couchbase.Get(ctx, agent(e), "_default", "_default", awKey("Get", k))
				if err == nil && (r == nil || string(r.Value) != `{"a":1}`) {
					return "ok-wrong-data"
				}
				return awClass(err)
			}},
		{name: "CreatePath", lane: 0, dclass: "cfg", op: memd.CmdSubDocMultiMutation, behs: awBehDoc, prepare: func(*awEnv, int) {},
			frames: `couchbase\.CreatePath`,
			call: func(e *awEnv, k int) string {
				ctx, cancel := awCtx()
				defer cancel()
				return awClass(couchbase.CreatePath(ctx, agent(e), "_default", "_default", awKey("CreatePath", k), []byte("p"), []byte(`1`), memd.SubdocDocFlagMkDoc))
			}},
		// cbMetadata.Save on an existing document (pure upsert path): the scripted request is the first MUTATEIN
		{name: "cbMetadata.Save", lane: 0, dclass: "cfg", op: memd.CmdSubDocMultiMutation, behs: awBehDoc,
			frames: `couchbase\.\(\*cbMetadata\)|couchbase\.UpsertXattrs|couchbase\.CreateDocument`,
			prepare: func(e *awEnv, k int) {
				e.node.KVPut(0, fmt.Sprintf("%s%s:checkpoint:%d", helpers.Prefix, e.cfg.Dcp.Group.Name, k), []byte(`{}`), nil)
			},
			call: func(e *awEnv, k int) string {
				md := couchbase.NewCBMetadata(e.cl, e.cfg)
				return awClass(md.Save(map[uint16]*models.CheckpointDocument{uint16(k): awCheckpointDoc(5)}, map[uint16]bool{uint16(k): true}, "u"))
			}},
		// cbMetadata.Save without a document: MUTATEIN (real KEY_ENOENT) -> SET (scripted) -> MUTATEIN
		{name: "cbMetadata.Save/create", lane: 0, dclass: "cfg", op: memd.CmdSet, behs: awBehDoc, prepare: func(*awEnv, int) {},
			frames: `couchbase\.\(\*cbMetadata\)|couchbase\.UpsertXattrs|couchbase\.CreateDocument`,
			call: func(e *awEnv, k int) string {
				md := couchbase.NewCBMetadata(e.cl, e.cfg)
				return awClass(md.Save(map[uint16]*models.CheckpointDocument{uint16(1000 + k): awCheckpointDoc(5)}, map[uint16]bool{uint16(1000 + k): true}, "u"))
			}},
		// cbMetadata.Load: any error but KEY_ENOENT panics inside a goroutine of the library (kills the
		// process: covered by stream c15w in a child process); only the survivable behaviours run here
		{name: "cbMetadata.Load", lane: 0, dclass: "bg5", op: memd.CmdSubDocMultiLookup, behs: []string{"prompt", "err-enoent", "err-tmpfail", "delay-short"},
			frames: `couchbase\.\(\*cbMetadata\)|couchbase\.GetXattrs`,
			prepare: func(e *awEnv, k int) {
				b := []byte(`{"checkpoint":{"vbuuid":7,"seqno":5,"snapshot":{"startSeqno":5,"endSeqno":5}},"bucketUuid":"u"}`)
				e.node.KVPut(0, fmt.Sprintf("%s%s:checkpoint:%d", helpers.Prefix, e.cfg.Dcp.Group.Name, 2000+k), []byte(`{}`), map[string][]byte{"cbgo": b})
			},
			call: func(e *awEnv, k int) string {
				md := couchbase.NewCBMetadata(e.cl, e.cfg)
				st, exist, err := md.Load([]uint16{uint16(2000 + k)}, "u")
				if err != nil {
					return awClass(err)
				}
				d, _ := st.Load(uint16(2000 + k))
				switch {
				case exist && d != nil && d.Checkpoint != nil && d.Checkpoint.SeqNo == 5:
					return "ok"
				case !exist && d != nil && d.Checkpoint != nil && d.Checkpoint.SeqNo == 0:
					return "ok-noexist"
				}
				return "ok-wrong-data"
			}},
		{name: "cbMetadata.Clear", lane: 0, dclass: "cfg", op: memd.CmdDelete, behs: awBehDoc,
			frames: `couchbase\.\(\*cbMetadata\)|couchbase\.DeleteDocument`,
			prepare: func(e *awEnv, k int) {
				e.node.KVPut(0, fmt.Sprintf("%s%s:checkpoint:%d", helpers.Prefix, e.cfg.Dcp.Group.Name, 3000+k), []byte(`{}`), nil)
			},
			call: func(e *awEnv, k int) string {
				md := couchbase.NewCBMetadata(e.cl, e.cfg)
				return awClass(md.Clear([]uint16{uint16(3000 + k)}))
			}},
		// NewCBMembership -> register(): CreatePath(index) [scripted], UpdateDocument(instance) -> KEY_ENOENT ->
		// CreateDocument -> UpdateDocument; any error is a (recoverable) panic of the constructor
		{name: "cbMembership.register", lane: 0, dclass: "cfg", op: memd.CmdSubDocMultiMutation, behs: awBehDoc, prepare: func(*awEnv, int) {},
			frames: `couchbase\.\(\*cbMembership\)\.register|couchbase\.\(\*cbMembership\)\.createIndex|couchbase\.NewCBMembership|couchbase\.CreatePath|couchbase\.UpdateDocument|couchbase\.CreateDocument`,
			call: func(e *awEnv, k int) (res string) {
				c := awMembershipCfg(e, fmt.Sprintf("awm%d", k))
				defer func() {
					if r := recover(); r != nil {
						res = awPanicClass(r)
					}
				}()
				m := couchbase.NewCBMembership(c, e.cl, EventBus.New())
				m.Close()
				return "ok"
			}},
		// ---- lane 1: client methods
		{name: "Ping", lane: 1, dclass: "cfg", op: memd.CmdNoop, behs: []string{"prompt", "err-internal", "delay-short", "delay-long", "silent", "drop"},
			prepare: func(*awEnv, int) {}, frames: `couchbase\.\(\*client\)\.Ping`,
			call: func(e *awEnv, k int) string {
				p, err := e.cl.Ping()
				if err == nil && (p == nil || p.MemdEndpoint == "" || p.MgmtEndpoint == "") {
					return "ok-wrong-data"
				}
				return awClass(err)
			}},
		{name: "GetVBucketSeqNos", lane: 1, dclass: "const60", op: memd.CmdGetAllVBSeqnos, behs: awBehConst,
			prepare: func(*awEnv, int) {}, frames: `couchbase\.\(\*client\)\.GetVBucketSeqNos`,
			call: func(e *awEnv, k int) string {
				m, err := e.cl.GetVBucketSeqNos(false)
				if err != nil {
					return awClass(err)
				}
				mm := m.ToMap()
				if len(mm) == 0 {
					return "ok-empty"
				}
				if len(mm) != e.vbN || mm[3] != 103 {
					return "ok-wrong-data"
				}
				return "ok"
			}},
		{name: "GetFailOverLogs", lane: 1, dclass: "const60", op: memd.CmdDcpGetFailoverLog, behs: awBehConst,
			prepare: func(*awEnv, int) {}, frames: `couchbase\.\(\*client\)\.GetFailOverLogs`,
			call: func(e *awEnv, k int) string {
				l, err := e.cl.GetFailOverLogs(2)
				if err == nil && (len(l) != 1 || uint64(l[0].VbUUID) != sim.DefaultUUID(2)) {
					return "ok-wrong-data"
				}
				return awClass(err)
			}},
		{name: "OpenStream", lane: 1, dclass: "const60", op: memd.CmdDcpStreamReq, behs: awBehConst,
			prepare: func(*awEnv, int) {}, frames: `couchbase\.\(\*client\)\.OpenStream|couchbase\.\(\*client\)\.openStreamWithRollback`,
			call: func(e *awEnv, k int) string { return awOpen(e, 1, false) }},
		// first DCP_STREAM_REQ answered ROLLBACK(3), failover-log query healthy, SECOND stream request scripted
		{name: "OpenStream/rollback", lane: 1, dclass: "const60", op: memd.CmdDcpStreamReq, skip: 1, behs: awBehConst,
			prepare: func(e *awEnv, k int) { e.node.RollbackNext(1, 3) },
			frames:  `couchbase\.\(\*client\)\.OpenStream|couchbase\.\(\*client\)\.openStreamWithRollback|couchbase\.\(\*client\)\.GetFailOverLogs`,
			call:    func(e *awEnv, k int) string { return awOpen(e, 1, true) }},
		{name: "CloseStream", lane: 1, dclass: "const60", op: memd.CmdDcpCloseStream, behs: awBehConst,
			frames: `couchbase\.\(\*client\)\.CloseStream`,
			prepare: func(e *awEnv, k int) {
				off := &models.Offset{SnapshotMarker: &models.SnapshotMarker{}, LatestSeqNo: ^uint64(0)}
				if err := e.cl.OpenStream(5, map[uint32]string{}, off, awObserver(e, 5)); err != nil {
					panic("c20w: cannot open the stream to be closed: " + err.Error())
				}
			},
			call: func(e *awEnv, k int) string { return awClass(e.cl.CloseStream(5)) }},
		// ---- lane 2: collections-enabled node
		{name: "GetCollectionIDs", lane: 2, dclass: "const60", op: memd.CmdCollectionsGetID, behs: awBehConst,
			prepare: func(*awEnv, int) {}, frames: `couchbase\.\(\*client\)\.getCollectionID|couchbase\.\(\*client\)\.GetCollectionIDs`,
			call: func(e *awEnv, k int) string {
				m, err := e.cl.GetCollectionIDs("_default", []string{"c1", "c2"})
				if err == nil && (len(m) != 2 || m[8] != "c1" || m[9] != "c2") {
					return "ok-wrong-data"
				}
				return awClass(err)
			}},
		// ---- appended last (the order of the rows above fixes the order of the existing jobs): the exported
		// helper with a context WITHOUT deadline, exactly as cbMetadata.Load l.84 calls it.  Both cases
		// run in the solo phases on a node of their own (never on a lane: no PRNG draw is added).
		// `silent`: only gocbcore's own `Deadline: time.Now().Add(5 s)` (doc_op.go l.186) ends the call; a call
		// that is still pending after awBgGiveUp is reported as `hang` and left behind.
		{name: "GetXattrs.bg", lane: 0, dclass: "bg5", op: memd.CmdSubDocMultiLookup, behs: []string{"prompt", "silent"}, prepare: put("GetXattrs.bg"),
			frames: `couchbase\.GetXattrs`,
			call: func(e *awEnv, k int) string {
				type res struct {
					v   []byte
					err error
				}
				ch := make(chan res, 1)
				go func() {
					v, err := couchbase.GetXattrs(context.Background(), agent(e), "_default", "_default", awKey("GetXattrs.bg", k), helpers.Name)
					ch <- res{v, err}
				}()
				select {
				case r := <-ch:
					if r.err == nil && string(r.v) != `{"x":1}` {
						return "ok-wrong-data"
					}
					return awClass(r.err)
				case <-time.After(awBgGiveUp):
					return "hang"
				}
			}},
	}
	for _, w := range ws {
		awFrameRe[w.name] = regexp.MustCompile(w.frames)
	}
	return ws
}

func awObserver(e *awEnv, vb uint16) couchbase.Observer {
	return couchbase.NewObserver(e.cfg, vb, ^uint64(0), func(models.ListenerArgs) {}, func(models.DcpStreamEndContext) {},
		map[uint32]string{}, tracing.NewTracerComponent())
}

// awOpen opens vBucket vb; on success the stream is closed again (unscripted: the plan is dropped first)
func awOpen(e *awEnv, vb uint16, rollback bool) string {
	off := &models.Offset{SnapshotMarker: &models.SnapshotMarker{StartSeqNo: 4, EndSeqNo: 6}, VbUUID: gocbcore.VbUUID(sim.DefaultUUID(vb)), SeqNo: 5, LatestSeqNo: ^uint64(0)}
	err := e.cl.OpenStream(vb, map[uint32]string{}, off, awObserver(e, vb))
	return awClass(err)
}

// ---------------------------------------------------------------- one case

type awResult struct {
	op, obs string
	tags    []string
}

func awDeadline(dclass string) time.Duration {
	switch dclass {
	case "cfg":
		return awD
	case "bg5":
		return awBgD
	}
	return 60 * time.Second
}

// runs one case on env e (nothing else uses e meanwhile)
func awRun(e *awEnv, w *awWrapper, beh string, k int, f7 string) awResult {
	if strings.HasPrefix(beh, "rejected-") {
		return awRunRejected(e, w, beh, k)
	}
	r := awRunOnce(e, w, beh, k, f7)
	// a time-out under a behaviour that answers at once / after D/3 means the machine was too
	// busy for the 250 ms deadline, or a defect; a defect is deterministic and survives the re-runs
	for try := 1; try <= 2 && w.dclass == "cfg" && strings.Contains(r.obs, "timeout") &&
		(beh == "prompt" || strings.HasPrefix(beh, "err-") || beh == "delay-short" || beh == "drop"); try++ {
		r = awRunOnce(e, w, beh, 100000*try+k, f7)
		r.tags = append(r.tags, "rerun-timing")
	}
	return r
}

func awRunOnce(e *awEnv, w *awWrapper, beh string, k int, f7 string) awResult {
	op := fmt.Sprintf("ao-wire %s %s %s", w.name, beh, w.dclass)
	if w.name == "GetVBucketSeqNos" && (strings.HasPrefix(beh, "err-") || beh == "drop") {
		op += " f7=" + f7
	}
	filter := awFrameRe[w.name]
	w.prepare(e, k)
	before := awParked(filter)
	plan := &awPlan{op: w.op, skip: w.skip, beh: beh}
	e.mu.Lock()
	e.plan = plan
	e.mu.Unlock()
	t0 := time.Now()
	var class string
	// the call runs on a goroutine of its own: a wrapper that never comes back (e.g. blocked inside its own
	// callback during op.Cancel()) is an observation (`hang`), not the end of the stream
	callDone := make(chan string, 1)
	go func() {
		defer func() {
			if r := recover(); r != nil {
				callDone <- awPanicClass(r)
			}
		}()
		callDone <- w.call(e, k)
	}()
	select {
	case class = <-callDone:
	case <-time.After(awDeadline(w.dclass) + awCallGiveUp):
		class = "hang"
	}
	ret := time.Now()
	el := ret.Sub(t0)
	e.mu.Lock()
	e.plan = nil
	confirmed := false
	for _, t := range plan.okAt {
		if !t.After(ret) {
			confirmed = true
		}
	}
	fired := plan.fired
	e.mu.Unlock()
	if class == "ok" && !confirmed {
		class = "ok-unconfirmed"
	}
	// settle: a late reply must have been delivered, then the wrapper's goroutines must be gone
	if beh == "delay-long" {
		if rest := awLong - el + 40*time.Millisecond; rest > 0 {
			time.Sleep(rest)
		}
	}
	leak := 0
	for i := 0; i < 40; i++ {
		if leak = awParked(filter) - before; leak <= 0 {
			leak = 0
			break
		}
		time.Sleep(15 * time.Millisecond)
	}
	// housekeeping for the next case of this lane
	switch w.name {
	case "OpenStream", "OpenStream/rollback":
		e.node.SetRollback(1, nil)
		if strings.HasPrefix(class, "ok") {
			_ = e.cl.CloseStream(1)
		}
	case "CloseStream":
		if !strings.HasPrefix(class, "ok") {
			_ = e.cl.CloseStream(5)
		}
	}
	tags := []string{"w:" + w.name, "b:" + beh, "r:" + class}
	if !fired {
		tags = append(tags, "scripted-request-never-seen")
		class += "(unscripted)"
	}
	return awResult{op: op, obs: fmt.Sprintf("%s %s leak=%d", class, awTimeClass(el, awDeadline(w.dclass), w.dclass), leak), tags: tags}
}

// does GetVBucketSeqNos hand a server error status back?
func awF7Probe(e *awEnv) string {
	e.node.Script(memd.CmdGetAllVBSeqnos, sim.AnyVb, sim.Status(memd.StatusInternalError))
	_, err := e.cl.GetVBucketSeqNos(false)
	if err != nil {
		return "propagates"
	}
	return "swallows"
}

// ---------------------------------------------------------------- GetVBucketSeqNos on several KV nodes

const (
	awMultiD      = time.Minute      // client.go GetVBucketSeqNos: context.WithTimeout(…, time.Second*60) per request
	awMultiMargin = 3 * time.Second  // `by-deadline` = D … D + margin
	awMultiGiveUp = 10 * time.Second // not back D + this long after the start: `hang`
	awMultiLate   = time.Second      // a `late` node answers D + this long after it got the request
	awMultiSettle = 2 * time.Second  // no goroutine of the call may be left this long after it returned
	awMultiVbN    = 8
)

type awMultiCase struct{ behs []string }

func (m awMultiCase) op() string {
	return fmt.Sprintf("w-seqnos-multi %d %s", len(m.behs), strings.Join(m.behs, ","))
}

func awMultiParse(op string) (awMultiCase, bool) {
	t := strings.Fields(op)
	if len(t) != 3 || t[0] != "w-seqnos-multi" {
		return awMultiCase{}, false
	}
	behs := strings.Split(t[2], ",")
	if fmt.Sprint(len(behs)) != t[1] || len(behs) < 1 || len(behs) > 8 {
		return awMultiCase{}, false
	}
	for _, b := range behs {
		switch b {
		case "prompt", "err", "silent", "late":
		default:
			return awMultiCase{}, false
		}
	}
	return awMultiCase{behs}, true
}

// the cases of one run: on a 2- and a 3-node cluster – all prompt; one node answers with an error status;
// one node silent; all silent; one node late.  Quick: the odd node is drawn; thorough: every position.
func awMultiCases(c *Ctx) []awMultiCase {
	var out []awMultiCase
	fill := func(n int, b string) []string {
		x := make([]string, n)
		for i := range x {
			x[i] = b
		}
		return x
	}
	for _, n := range []int{2, 3} {
		out = append(out, awMultiCase{fill(n, "prompt")}, awMultiCase{fill(n, "silent")})
		for _, odd := range []string{"err", "silent", "late"} {
			var pos []int
			if c.Thorough() {
				for i := 0; i < n; i++ {
					pos = append(pos, i)
				}
			} else {
				pos = []int{c.R.Intn(n)}
			}
			for _, i := range pos {
				b := fill(n, "prompt")
				b[i] = odd
				out = append(out, awMultiCase{b})
			}
		}
	}
	return out
}

// goroutines carrying the pprof label awmulti=<id> (the case's own goroutine, its client's and gocbcore's
// goroutines, the errgroup workers of the call: labels are inherited on `go`) with a GetVBucketSeqNos frame
func awMultiParked(id string) int {
	var b bytes.Buffer
	if err := pprof.Lookup("goroutine").WriteTo(&b, 1); err != nil {
		return -1
	}
	want := fmt.Sprintf("%q:%q", "awmulti", id)
	cnt := 0
	for _, rec := range strings.Split(b.String(), "\n\n") {
		if !strings.Contains(rec, want) || !strings.Contains(rec, "couchbase.(*client).GetVBucketSeqNos") {
			continue
		}
		k := 1
		fmt.Sscanf(rec, "%d @", &k)
		cnt += k
		if os.Getenv("VERIF_DEBUG") != "" {
			fmt.Fprintf(os.Stderr, "[c20w] multi %s parked:\n%s\n", id, rec)
		}
	}
	return cnt
}

// awMultiRun runs one case on a cluster + client of its own.  started is called once the call is under way
// (or the case is over).
func awMultiRun(m awMultiCase, idx int, started func()) awResult {
	var res awResult
	done := make(chan struct{})
	id := fmt.Sprintf("m%d", idx)
	go pprof.Do(context.Background(), pprof.Labels("awmulti", id), func(context.Context) {
		defer close(done)
		res = awMultiRunLabelled(m, id, started)
	})
	<-done
	return res
}

func awMultiRunLabelled(m awMultiCase, id string, started func()) awResult {
	var once sync.Once
	defer once.Do(started)
	n := len(m.behs)
	node := sim.New(sim.Options{NumVb: awMultiVbN, KVNodes: n})
	for vb := 0; vb < awMultiVbN; vb++ {
		node.SetReplicaMap(uint16(vb), []int{vb % n})
		node.SetHighSeqno(uint16(vb), 100+uint64(vb))
	}
	if err := node.Start(); err != nil {
		panic(err)
	}
	var armed atomic.Bool
	var mu sync.Mutex
	seen := make([]int, n)
	hasLate := false
	for _, b := range m.behs {
		hasLate = hasLate || b == "late"
	}
	node.OnRequest(func(r sim.Request) sim.Action {
		if r.Opcode != memd.CmdGetAllVBSeqnos || !armed.Load() || r.Node < 0 || r.Node >= n {
			return sim.Default()
		}
		mu.Lock()
		seen[r.Node]++
		mu.Unlock()
		switch m.behs[r.Node] {
		case "err":
			return sim.Status(memd.StatusInternalError)
		case "silent":
			return sim.Silent()
		case "late":
			return sim.Delay(awMultiD + awMultiLate)
		}
		return sim.Default()
	})
	cfg := node.Config("awmulti-"+id, "couchbase")
	cl := couchbase.NewClient(cfg)
	if err := cl.Connect(); err != nil {
		panic(err)
	}
	if err := cl.DcpConnect(true, false); err != nil {
		panic(err)
	}
	armed.Store(true)
	ch := make(chan string, 1)
	t0 := time.Now()
	go func() {
		defer func() {
			if r := recover(); r != nil {
				ch <- awPanicClass(r)
			}
		}()
		mm, err := cl.GetVBucketSeqNos(false)
		if err != nil {
			ch <- awClass(err)
			return
		}
		got := mm.ToMap()
		switch {
		case len(got) == 0:
			ch <- "ok-empty"
			return
		case len(got) != awMultiVbN:
			ch <- "ok-wrong-data"
			return
		}
		for vb := 0; vb < awMultiVbN; vb++ {
			if got[uint16(vb)] != 100+uint64(vb) {
				ch <- "ok-wrong-data"
				return
			}
		}
		ch <- "ok"
	}()
	time.Sleep(50 * time.Millisecond)
	once.Do(started)
	tags := []string{fmt.Sprintf("wm:n=%d", n), "wm:" + strings.Join(m.behs, ",")}
	var class string
	select {
	case class = <-ch:
	case <-time.After(time.Until(t0.Add(awMultiD + awMultiGiveUp))):
		// left behind: the client and the cluster stay open (closing them could wake the call up)
		return awResult{op: m.op(), obs: fmt.Sprintf("hang late blocked=%d", awMultiParked(id)), tags: append(tags, "r:hang")}
	}
	ret := time.Now()
	el := ret.Sub(t0)
	tc := "late"
	switch {
	case el < awMultiD:
		tc = "before"
	case el <= awMultiD+awMultiMargin:
		tc = "by-deadline"
	}
	// settle: 2 s after the return (and 1 s after a late answer went out) nothing of the call may be left
	until := ret.Add(awMultiSettle)
	lateSent := t0.Add(awMultiD + awMultiLate + 100*time.Millisecond)
	if hasLate && until.Before(lateSent.Add(time.Second)) {
		until = lateSent.Add(time.Second)
	}
	blocked := 0
	for {
		blocked = awMultiParked(id)
		now := time.Now()
		if (blocked == 0 && !(hasLate && now.Before(lateSent.Add(300*time.Millisecond)))) || now.After(until) {
			break
		}
		time.Sleep(50 * time.Millisecond)
	}
	mu.Lock()
	for i, k := range seen {
		if k == 0 {
			class += fmt.Sprintf("(node%d-not-asked)", i)
			tags = append(tags, "scripted-request-never-seen")
		}
	}
	mu.Unlock()
	cl.DcpClose()
	cl.Close()
	node.Close()
	return awResult{op: m.op(), obs: fmt.Sprintf("%s %s blocked=%d", class, tc, blocked), tags: append(tags, "r:"+class)}
}

// ---------------------------------------------------------------- rejected at dispatch

const awInvalidVb = 60000

// wrappers whose request can be refused at dispatch without killing the process: every one but cbMetadata.Load
// (any error but KEY_ENOENT panics inside a goroutine of the library) and its twin GetXattrs.bg
func awRejectedBehs(w *awWrapper) []string {
	switch w.name {
	case "cbMetadata.Load", "GetXattrs.bg":
		return nil
	case "GetFailOverLogs", "OpenStream", "CloseStream":
		return []string{"rejected-shutdown", "rejected-invalid-vb"}
	}
	return []string{"rejected-shutdown"}
}

func awRejectedClass(c string) string {
	switch c {
	case "conn-error", "other-error", "server-error", "canceled", "unhealthy":
		return "dispatch-error"
	case "panic:conn-error", "panic:other-error", "panic:server-error", "panic:canceled", "panic:unhealthy":
		return "panic:dispatch-error"
	}
	return c
}

// awRunRejected: env e is this case's own (fresh node + client)
func awRunRejected(e *awEnv, w *awWrapper, beh string, k int) awResult {
	op := fmt.Sprintf("ao-wire %s %s %s", w.name, beh, w.dclass)
	filter := awFrameRe[w.name]
	w.prepare(e, k)
	call := w.call
	switch beh {
	case "rejected-shutdown":
		// GetCollectionIDs asks the DCP agent `HasCollectionsSupport()` first, and a CLOSED DCP agent says no: the
		// call then returns (empty map, nil) without any request (observed on the unchanged code; shutdown path
		// only).  Its request goes through the KV agent: only that one is closed for it.
		if w.name != "GetCollectionIDs" {
			e.cl.DcpClose()
			e.dcpClosed = true
		}
		e.cl.Close()
		e.kvClosed = true
	case "rejected-invalid-vb":
		switch w.name {
		case "GetFailOverLogs":
			call = func(e *awEnv, k int) string {
				l, err := e.cl.GetFailOverLogs(awInvalidVb)
				if err == nil && len(l) == 0 {
					return "ok-empty"
				}
				return awClass(err)
			}
		case "OpenStream":
			call = func(e *awEnv, k int) string { return awOpen(e, awInvalidVb, false) }
		case "CloseStream":
			call = func(e *awEnv, k int) string { return awClass(e.cl.CloseStream(awInvalidVb)) }
		default:
			return awResult{op: op, obs: "bad-op", tags: []string{"replay-bad-op"}}
		}
	default:
		return awResult{op: op, obs: "bad-op", tags: []string{"replay-bad-op"}}
	}
	before := awParked(filter)
	t0 := time.Now()
	done := make(chan string, 1)
	go func() {
		defer func() {
			if r := recover(); r != nil {
				done <- awPanicClass(r)
			}
		}()
		done <- call(e, k)
	}()
	var class string
	select {
	case class = <-done:
	case <-time.After(awCallGiveUp):
		class = "hang"
	}
	el := time.Since(t0)
	class = awRejectedClass(class)
	leak := 0
	for i := 0; i < 40; i++ {
		if leak = awParked(filter) - before; leak <= 0 {
			leak = 0
			break
		}
		time.Sleep(15 * time.Millisecond)
	}
	tc := awTimeClass(el, awDeadline(w.dclass), w.dclass)
	if class == "hang" {
		tc = "late"
	}
	return awResult{op: op, obs: fmt.Sprintf("%s %s leak=%d", class, tc, leak), tags: []string{"w:" + w.name, "b:" + beh, "r:" + class}}
}

type awJob struct {
	w   *awWrapper
	beh string
}

func awParseOp(ws []*awWrapper, op string) (*awWrapper, string, bool) {
	t := strings.Fields(op)
	if len(t) < 4 || t[0] != "ao-wire" {
		return nil, "", false
	}
	for _, w := range ws {
		if w.name == t[1] && w.dclass == t[3] {
			return w, t[2], true
		}
	}
	return nil, "", false
}

func runC20W(c *Ctx) {
	ws := awWrappers()
	g0 := runtime.NumGoroutine()
	var lanes [3][]awJob
	var solo []awJob // own node each: drop, 60 s / 5 s silence
	var multi []awMultiCase
	if replayFile != "" {
		b, err := os.ReadFile(replayFile)
		if err != nil {
			panic(err)
		}
		for _, ln := range strings.Split(string(b), "\n") {
			op := strings.TrimSpace(strings.SplitN(ln, "\t", 2)[0])
			if op == "" || strings.HasPrefix(op, "ao-wire-") {
				continue
			}
			if strings.HasPrefix(op, "w-seqnos-multi") {
				if m, ok := awMultiParse(op); ok {
					multi = append(multi, m)
				} else {
					c.E.Line(op, "bad-op")
					c.E.EndCase(false, "replay-bad-op")
				}
				continue
			}
			w, beh, ok := awParseOp(ws, op)
			if !ok {
				c.E.Line(op, "bad-op")
				c.E.EndCase(false, "replay-bad-op")
				continue
			}
			solo = append(solo, awJob{w, beh})
		}
	} else {
		for _, w := range ws {
			for _, beh := range w.behs {
				j := awJob{w, beh}
				switch {
				case beh == "drop", w.name == "GetXattrs.bg":
					// GetXattrs.bg (both tiers): `prompt` joins the sequential own-node cases of lane 0, `silent`
					// (5 s) the concurrent final phase
					solo = append(solo, j)
				case beh == "silent" && w.dclass != "cfg":
					// hard-coded 60 s: thorough tier only, and only for three wrappers
					if c.Thorough() && (w.name == "GetFailOverLogs" || w.name == "OpenStream" || w.name == "GetVBucketSeqNos") {
						solo = append(solo, j)
					}
				default:
					lanes[w.lane] = append(lanes[w.lane], j)
				}
			}
		}
		// deterministic shuffle of every lane: the order of cases on a shared client is part of the input
		for l := range lanes {
			for i := len(lanes[l]) - 1; i > 0; i-- {
				j := c.R.Intn(i + 1)
				lanes[l][i], lanes[l][j] = lanes[l][j], lanes[l][i]
			}
		}
		multi = awMultiCases(c) // draws after the lane shuffles: the order of the existing cases is unchanged
		// rejected-at-dispatch cases: own node each, after every other solo job, no draw
		for _, w := range ws {
			for _, beh := range awRejectedBehs(w) {
				solo = append(solo, awJob{w, beh})
			}
		}
	}

	// the multi-node GetVBucketSeqNos cases go first and stay in the background: their wall time is the
	// wrapper's hard-coded 60 s.  Everything else starts when their calls are under way.
	var mwg, mstarted sync.WaitGroup
	mres := make([]awResult, len(multi))
	for i, m := range multi {
		mwg.Add(1)
		mstarted.Add(1)
		go func(i int, m awMultiCase) {
			defer mwg.Done()
			mres[i] = awMultiRun(m, i, mstarted.Done)
		}(i, m)
	}
	mstarted.Wait()

	// fact line first
	probeEnv := newAwEnv(false, "awprobe")
	f7 := awF7Probe(probeEnv)
	probeEnv.close()
	// In a replay the fact line comes AFTER the replayed cases: bin/vcheck judges a re-run (retry_divergence,
	// shrinking) by the FIRST case of the replay's output, which must be the replayed op and not this line
	// (otherwise every divergence of this stream would be written off as a timing flake).
	probeLine := func() {
		c.E.Line("ao-wire-f7probe", f7)
		c.E.EndCase(true, "f7:"+f7)
	}
	if replayFile == "" {
		probeLine()
	}

	var mu sync.Mutex
	var results []awResult
	add := func(r awResult) { mu.Lock(); results = append(results, r); mu.Unlock() }
	var wg sync.WaitGroup
	for l := range lanes {
		if len(lanes[l]) == 0 {
			continue
		}
		wg.Add(1)
		go func(l int) {
			defer wg.Done()
			e := newAwEnv(l == 2, fmt.Sprintf("awlane%d", l))
			defer e.close()
			for i, j := range lanes[l] {
				add(awRun(e, j.w, j.beh, i, f7))
			}
			// after every scripted failure of the lane: a healthy collection-id lookup on the SAME client must be answered by the
			// server with the right ids (a failed lookup must leave nothing behind that later calls are served from)
			if l == 2 && replayFile == "" {
				for _, j := range lanes[l] {
					if j.w.name == "GetCollectionIDs" {
						r := awRun(e, j.w, "prompt", len(lanes[l]), f7)
						r.tags = append(r.tags, "lookup-after-failures")
						add(r)
						break
					}
				}
			}
		}(l)
	}
	wg.Wait()
	// solo phase: one node + client per case.  The leak count filters goroutine stacks by go-dcp function
	// name, so cases that share functions must not overlap: `drop` cases run one after the other per lane
	// (three lanes in parallel, disjoint function sets); afterwards the 60 s `silent` cases of the thorough
	// tier and the 5 s `silent` case of GetXattrs.bg (pairwise disjoint function sets) run concurrently.
	var dropJobs [3][]awJob
	var longJobs []awJob
	for _, j := range solo {
		if j.beh == "silent" && j.w.dclass != "cfg" {
			longJobs = append(longJobs, j)
		} else {
			dropJobs[j.w.lane] = append(dropJobs[j.w.lane], j)
		}
	}
	for l := range dropJobs {
		wg.Add(1)
		go func(l int) {
			defer wg.Done()
			for i, j := range dropJobs[l] {
				e := newAwEnv(j.w.lane == 2, fmt.Sprintf("awsolo%d-%d", l, i))
				r := awRun(e, j.w, j.beh, i, f7)
				e.close()
				add(r)
			}
		}(l)
	}
	wg.Wait()
	for i, j := range longJobs {
		wg.Add(1)
		go func(i int, j awJob) {
			defer wg.Done()
			e := newAwEnv(j.w.lane == 2, fmt.Sprintf("awlong%d", i))
			r := awRun(e, j.w, j.beh, i, f7)
			e.close()
			add(r)
		}(i, j)
	}
	wg.Wait()
	mwg.Wait()
	results = append(results, mres...)
	sort.SliceStable(results, func(i, j int) bool { return results[i].op < results[j].op })
	for _, r := range results {
		c.E.Line(r.op, r.obs)
		c.E.EndCase(!strings.Contains(r.op, " prompt ") && !strings.HasSuffix(r.op, " prompt,prompt") && !strings.HasSuffix(r.op, " prompt,prompt,prompt"), r.tags...)
	}
	if replayFile != "" {
		probeLine()
	}
	// whole-process goroutine balance after every client and node has been closed
	leaked := 0
	for i := 0; i < 100; i++ {
		if leaked = runtime.NumGoroutine() - g0; leaked <= 0 {
			leaked = 0
			break
		}
		time.Sleep(20 * time.Millisecond)
	}
	if leaked > 0 && os.Getenv("VERIF_DEBUG") != "" {
		buf := make([]byte, 1<<20)
		fmt.Fprintf(os.Stderr, "%s\n", buf[:runtime.Stack(buf, true)])
	}
	c.E.Line("ao-wire-goroutines", fmt.Sprintf("leaked=%d", leaked))
	c.E.EndCase(true, "goroutine-balance")
	c.Extra["wrappers"] = len(ws)
	c.Extra["multi_node_cases"] = len(multi)
	c.Extra["deadline_ms"] = awD.Milliseconds()
}
