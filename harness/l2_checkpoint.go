package main

// Stream "c02w": property C02 on the wire.
//
// The REAL couchbase.NewCBMetadata(realClient, cfg), metadata.NewFSMetadata(cfg),
// metadata.NewReadMetadata(...) and, on top of them, the REAL stream.NewStream(...)
// run against the simulated node (harness/sim).  Every line is self-contained
// (the Lean handlers are stateless) and replayable:
//
//  ck-f12probe                                     => swallows | reports   (fact: does file Save report a failed write?)
//  ck-rt cb G U S SS SE                            => xattr=<hex of the stored xattr> loaded=(U,S,SS,SE) exist=true
//  ck-rt file G U S SS SE                          => loaded=(U,S,SS,SE) exist=true
//  ck-save cb G n=N pre=DOCS state=DOCS dirty=VBS  => writes=[vb:<hexkey>:M(x:cbgo)=1,S=0,M(x:cbgo)=0 …] loaded=[vb(U,S,SS,SE) …] exist=B
//  ck-save file G n=N pre=DOCS state=DOCS dirty=VBS=> loaded=[vb(…)|vb- …] exist=B       (whole-state file: dirty is ignored)
//  ck-corrupt cb G KIND                            => loaded=(…)|nil|nocp exist=B        (xattr that is not a checkpoint document)
//  ck-corrupt file G KIND                          => loaded=… exist=B
//  ck-open G lo=L hi=H mode=inf|fin reset=earliest|latest docs=DOCS high=VB:N,… flog=VB:U,…
//                                                  => reqs=[vb:flags,uuid,start,end,snapStart,snapEnd …] | ahead-not-executed
//  ck-file missing G n=N                           => loaded=[…zeros…] exist=false
//  ck-file unwritable G f12=swallows|reports       => save=ok|err written=no
//  ck-ro cb|file G n=N pre=DOCS state=DOCS dirty=VBS => save=ok changed=no same=yes loaded=[…] exist=B
//  ck-bulk cb G n=N lat=MS salt=K pre=M skip=S fail=-|VB|VBv
//                                                  => save=ok keys=W ops=T stray=X loaded=[vb(U,S,SS,SE) …] exist=B | save=err
//       ONE Save of a large dirty set (N up to 1024 vBuckets) through the real couchbase back end against a
//       1024-vBucket node that answers every KV write after MS milliseconds (so the writes of the save overlap),
//       then Load of all N.  The documents are not listed on the op line: vBucket vb holds ckBulkDoc(K, vb)
//       (four distinct 64-bit values per vBucket, see there; Lean: Wire.bulkDoc); M > 0: the vBuckets with
//       vb % M == 0 have a document ckBulkDoc(K+1, vb) before the save (pure-upsert path); S > 0: the vBuckets
//       with vb % S == S-1 are in the state but NOT dirty; fail=VB: the node answers the first sub-document
//       write of that vBucket with INTERNAL_ERROR (the save must then report an error).
//       keys = dirty vBuckets whose key received a successful xattr write, ops = KV writes logged by the node
//       during the save (any status), stray = writes to any other key.
//
// DOCS = `-` or vb:(U,S,SS,SE) joined by `;`   VBS = `-` or comma separated ids.
// G = group name (fresh per line, so every line starts from an empty store).

import (
	"bufio"
	"encoding/hex"
	"fmt"
	"os"
	"path/filepath"
	"sort"
	"strconv"
	"strings"
	"sync"
	"time"

	"github.com/Trendyol/go-dcp/config"
	"github.com/Trendyol/go-dcp/couchbase"
	"github.com/Trendyol/go-dcp/helpers"
	"github.com/Trendyol/go-dcp/metadata"
	"github.com/Trendyol/go-dcp/models"
	"github.com/Trendyol/go-dcp/stream"
	"github.com/Trendyol/go-dcp/tracing"
	"github.com/couchbase/gocbcore/v10/memd"

	"verifharness/sim"
)

func init() { props["c02w"] = runC02W }

const ckVbs = 8

type ckDoc struct{ u, s, ss, se uint64 }

type ckEnv struct {
	node *sim.Node
	cfg  *config.Dcp
	cl   couchbase.Client
	dir  string
	bulk *ckBulkEnv // created by the first ck-bulk line
}

func newCkEnv() *ckEnv {
	e := &ckEnv{}
	e.node = sim.New(sim.Options{NumVb: ckVbs})
	if err := e.node.Start(); err != nil {
		panic(err)
	}
	e.cfg = e.node.Config("ck", "couchbase")
	e.cfg.Checkpoint.Type = "manual"
	e.cl = couchbase.NewClient(e.cfg)
	if err := e.cl.Connect(); err != nil {
		panic(err)
	}
	if err := e.cl.DcpConnect(true, false); err != nil {
		panic(err)
	}
	wd, err := os.Getwd()
	if err != nil {
		panic(err)
	}
	e.dir, err = os.MkdirTemp(wd, "c02w-files-")
	if err != nil {
		panic(err)
	}
	return e
}

func (e *ckEnv) close() {
	if e.bulk != nil {
		e.bulk.cl.Close()
		e.bulk.node.Close()
	}
	e.cl.DcpClose()
	e.cl.Close()
	e.node.Close()
	os.RemoveAll(e.dir)
}

func (e *ckEnv) cbCfg(group string) *config.Dcp {
	c := *e.cfg
	c.Dcp.Group.Name = group
	return &c
}

func (e *ckEnv) fileCfg(group string) (*config.Dcp, string) {
	c := *e.cfg
	c.Dcp.Group.Name = group
	c.Metadata.Type = "file"
	fn := filepath.Join(e.dir, group+".json")
	c.Metadata.Config = map[string]string{"fileName": fn}
	return &c, fn
}

// ---------------------------------------------------------------- parsing / rendering

func ckDocStr(d ckDoc) string { return fmt.Sprintf("(%d,%d,%d,%d)", d.u, d.s, d.ss, d.se) }

func ckDocsStr(m map[uint16]ckDoc) string {
	if len(m) == 0 {
		return "-"
	}
	var ks []int
	for k := range m {
		ks = append(ks, int(k))
	}
	sort.Ints(ks)
	var p []string
	for _, k := range ks {
		p = append(p, fmt.Sprintf("%d:%s", k, ckDocStr(m[uint16(k)])))
	}
	return strings.Join(p, ";")
}

func ckVbsStr(m map[uint16]bool) string {
	var ks []int
	for k, v := range m {
		if v {
			ks = append(ks, int(k))
		}
	}
	if len(ks) == 0 {
		return "-"
	}
	sort.Ints(ks)
	var p []string
	for _, k := range ks {
		p = append(p, strconv.Itoa(k))
	}
	return strings.Join(p, ",")
}

func ckPairsStr(m map[uint16]uint64) string {
	if len(m) == 0 {
		return "-"
	}
	var ks []int
	for k := range m {
		ks = append(ks, int(k))
	}
	sort.Ints(ks)
	var p []string
	for _, k := range ks {
		p = append(p, fmt.Sprintf("%d:%d", k, m[uint16(k)]))
	}
	return strings.Join(p, ",")
}

func ckParseDoc(s string) (ckDoc, bool) {
	if len(s) < 2 || s[0] != '(' || s[len(s)-1] != ')' {
		return ckDoc{}, false
	}
	f := strings.Split(s[1:len(s)-1], ",")
	if len(f) != 4 {
		return ckDoc{}, false
	}
	var v [4]uint64
	for i := range f {
		n, err := strconv.ParseUint(f[i], 10, 64)
		if err != nil {
			return ckDoc{}, false
		}
		v[i] = n
	}
	return ckDoc{v[0], v[1], v[2], v[3]}, true
}

func ckParseDocs(s string) (map[uint16]ckDoc, bool) {
	out := map[uint16]ckDoc{}
	if s == "-" {
		return out, true
	}
	for _, it := range strings.Split(s, ";") {
		i := strings.Index(it, ":")
		if i < 0 {
			return nil, false
		}
		vb, err := strconv.ParseUint(it[:i], 10, 16)
		d, ok := ckParseDoc(it[i+1:])
		if err != nil || !ok {
			return nil, false
		}
		out[uint16(vb)] = d
	}
	return out, true
}

func ckParseVbs(s string) (map[uint16]bool, bool) {
	out := map[uint16]bool{}
	if s == "-" {
		return out, true
	}
	for _, it := range strings.Split(s, ",") {
		vb, err := strconv.ParseUint(it, 10, 16)
		if err != nil {
			return nil, false
		}
		out[uint16(vb)] = true
	}
	return out, true
}

func ckParsePairs(s string) (map[uint16]uint64, bool) {
	out := map[uint16]uint64{}
	if s == "-" {
		return out, true
	}
	for _, it := range strings.Split(s, ",") {
		p := strings.Split(it, ":")
		if len(p) != 2 {
			return nil, false
		}
		vb, e1 := strconv.ParseUint(p[0], 10, 16)
		n, e2 := strconv.ParseUint(p[1], 10, 64)
		if e1 != nil || e2 != nil {
			return nil, false
		}
		out[uint16(vb)] = n
	}
	return out, true
}

func ckKV(args []string) map[string]string {
	m := map[string]string{}
	for _, a := range args {
		if i := strings.Index(a, "="); i > 0 {
			m[a[:i]] = a[i+1:]
		}
	}
	return m
}

func ckModelDoc(d ckDoc) *models.CheckpointDocument {
	return &models.CheckpointDocument{Checkpoint: &models.CheckpointDocumentCheckpoint{VbUUID: d.u, SeqNo: d.s,
		Snapshot: &models.CheckpointDocumentSnapshot{StartSeqNo: d.ss, EndSeqNo: d.se}}, BucketUUID: "u"}
}

func ckState(m map[uint16]ckDoc) map[uint16]*models.CheckpointDocument {
	out := map[uint16]*models.CheckpointDocument{}
	for vb, d := range m {
		out[vb] = ckModelDoc(d)
	}
	return out
}

func ckAll(m map[uint16]ckDoc) map[uint16]bool {
	out := map[uint16]bool{}
	for vb := range m {
		out[vb] = true
	}
	return out
}

func ckRenderLoaded1(d *models.CheckpointDocument, ok bool) string {
	switch {
	case !ok:
		return "-"
	case d == nil:
		return "nil"
	case d.Checkpoint == nil:
		return "nocp"
	case d.Checkpoint.Snapshot == nil:
		return "nosnap"
	}
	return fmt.Sprintf("(%d,%d,%d,%d)", d.Checkpoint.VbUUID, d.Checkpoint.SeqNo, d.Checkpoint.Snapshot.StartSeqNo, d.Checkpoint.Snapshot.EndSeqNo)
}

// Load through md for vbs 0..n-1 and render
func ckLoad(md metadata.Metadata, n int) (res string) {
	defer func() {
		if r := recover(); r != nil {
			res = "panic"
		}
	}()
	var ids []uint16
	for vb := 0; vb < n; vb++ {
		ids = append(ids, uint16(vb))
	}
	st, exist, err := md.Load(ids, "u")
	if err != nil {
		return "load-err"
	}
	var p []string
	for _, vb := range ids {
		d, ok := st.Load(vb)
		p = append(p, fmt.Sprintf("%d%s", vb, ckRenderLoaded1(d, ok)))
	}
	return fmt.Sprintf("loaded=[%s] exist=%v", strings.Join(p, " "), exist)
}

// the KV write log of the node, grouped by key in arrival order, keys in the order of vbs
func (e *ckEnv) ckWrites(group string, n int) string {
	by := map[string][]string{}
	var order []string
	for _, w := range e.node.KVWrites() {
		var s string
		switch w.Op {
		case "MUTATEIN":
			s = fmt.Sprintf("M(%s)=%d", strings.Join(w.Paths, "+"), uint16(w.Status))
			if w.DocFlags != 0 {
				s += fmt.Sprintf("/f%d", w.DocFlags)
			}
		case "SET":
			s = fmt.Sprintf("S=%d", uint16(w.Status))
		default:
			s = fmt.Sprintf("%s=%d", w.Op, uint16(w.Status))
		}
		if w.CollectionID != 0 || w.Expiry != 0 {
			s += "/nondefault"
		}
		if _, seen := by[w.Key]; !seen {
			order = append(order, w.Key)
		}
		by[w.Key] = append(by[w.Key], s)
	}
	var p []string
	used := map[string]bool{}
	for vb := 0; vb < n; vb++ {
		key := helpers.Prefix + group + ":checkpoint:" + strconv.Itoa(vb)
		// the key is looked up by its expected text only to ORDER the output; the text itself is printed and checked in Lean
		if l, ok := by[key]; ok {
			p = append(p, fmt.Sprintf("%d:%s:%s", vb, hex.EncodeToString([]byte(key)), strings.Join(l, ",")))
			used[key] = true
		}
	}
	for _, k := range order {
		if !used[k] {
			p = append(p, fmt.Sprintf("?:%s:%s", hex.EncodeToString([]byte(k)), strings.Join(by[k], ",")))
		}
	}
	return "writes=[" + strings.Join(p, " ") + "]"
}

// ---------------------------------------------------------------- executors

func (e *ckEnv) exec(op string) (res string) {
	t := strings.Fields(op)
	defer func() {
		if r := recover(); r != nil {
			msg := fmt.Sprint(r)
			if strings.Contains(msg, "checkpoint seqNo bigger") {
				res = "failstop:checkpoint-ahead"
			} else {
				res = "panic"
				if os.Getenv("VERIF_DEBUG") != "" {
					fmt.Fprintf(os.Stderr, "[c02w] panic in %q: %v\n", op, r)
				}
			}
		}
	}()
	if len(t) < 1 {
		return "bad-op"
	}
	switch t[0] {
	case "ck-f12probe":
		return e.f12probe()
	case "ck-rt":
		if len(t) != 7 {
			return "bad-op"
		}
		d, ok := ckParseDoc("(" + strings.Join(t[3:7], ",") + ")")
		if !ok {
			return "bad-op"
		}
		return e.roundTrip(t[1], t[2], d)
	case "ck-save", "ck-ro":
		if len(t) != 7 {
			return "bad-op"
		}
		kv := ckKV(t[3:])
		n, err := strconv.Atoi(kv["n"])
		pre, ok1 := ckParseDocs(kv["pre"])
		state, ok2 := ckParseDocs(kv["state"])
		dirty, ok3 := ckParseVbs(kv["dirty"])
		if err != nil || !ok1 || !ok2 || !ok3 || n < 1 || n > 64 {
			return "bad-op"
		}
		if t[0] == "ck-ro" {
			return e.readOnly(t[1], t[2], n, pre, state, dirty)
		}
		return e.save(t[1], t[2], n, pre, state, dirty)
	case "ck-bulk":
		if len(t) != 9 || t[1] != "cb" {
			return "bad-op"
		}
		return e.bulkSave(t[2], ckKV(t[3:]))
	case "ck-corrupt":
		if len(t) != 4 {
			return "bad-op"
		}
		return e.corrupt(t[1], t[2], t[3])
	case "ck-open":
		if len(t) != 9 {
			return "bad-op"
		}
		return e.open(t[1], ckKV(t[2:]))
	case "ck-file":
		if len(t) < 3 {
			return "bad-op"
		}
		switch t[1] {
		case "missing":
			kv := ckKV(t[3:])
			n, err := strconv.Atoi(kv["n"])
			if err != nil || n < 1 || n > 64 {
				return "bad-op"
			}
			c, _ := e.fileCfg(t[2])
			return ckLoad(metadata.NewFSMetadata(c), n)
		case "unwritable":
			return e.unwritable(t[2])
		}
	}
	return "bad-op"
}

func (e *ckEnv) backend(kind, group string) (metadata.Metadata, string, bool) {
	switch kind {
	case "cb":
		return couchbase.NewCBMetadata(e.cl, e.cbCfg(group)), "", true
	case "file":
		c, fn := e.fileCfg(group)
		return metadata.NewFSMetadata(c), fn, true
	}
	return nil, "", false
}

func (e *ckEnv) roundTrip(kind, group string, d ckDoc) string {
	md, _, ok := e.backend(kind, group)
	if !ok {
		return "bad-op"
	}
	if err := md.Save(map[uint16]*models.CheckpointDocument{0: ckModelDoc(d)}, map[uint16]bool{0: true}, "u"); err != nil {
		return "save-err"
	}
	st, exist, err := md.Load([]uint16{0}, "u")
	if err != nil {
		return "load-err"
	}
	ld, has := st.Load(0)
	out := fmt.Sprintf("loaded=%s exist=%v", ckRenderLoaded1(ld, has), exist)
	if kind == "cb" {
		doc, _ := e.node.KVGet(0, helpers.Prefix+group+":checkpoint:0")
		out = "xattr=" + hex.EncodeToString(doc.Xattrs[helpers.Name]) + " " + out
	}
	return out
}

func (e *ckEnv) save(kind, group string, n int, pre, state map[uint16]ckDoc, dirty map[uint16]bool) string {
	md, _, ok := e.backend(kind, group)
	if !ok {
		return "bad-op"
	}
	if len(pre) > 0 {
		if err := md.Save(ckState(pre), ckAll(pre), "u"); err != nil {
			return "presave-err"
		}
	}
	e.node.ResetLogs()
	if err := md.Save(ckState(state), dirty, "u"); err != nil {
		return "save-err"
	}
	w := e.ckWrites(group, n)
	l := ckLoad(md, n)
	if kind == "cb" {
		return w + " " + l
	}
	return l
}

func (e *ckEnv) readOnly(kind, group string, n int, pre, state map[uint16]ckDoc, dirty map[uint16]bool) string {
	md, fn, ok := e.backend(kind, group)
	if !ok {
		return "bad-op"
	}
	if len(pre) > 0 {
		if err := md.Save(ckState(pre), ckAll(pre), "u"); err != nil {
			return "presave-err"
		}
	}
	before, _ := os.ReadFile(fn)
	_, statErrBefore := os.Stat(fn)
	e.node.ResetLogs()
	ro := metadata.NewReadMetadata(md)
	sv := "ok"
	if err := ro.Save(ckState(state), dirty, "u"); err != nil {
		sv = "err"
	}
	if err := ro.Clear([]uint16{0, 1, 2}); err != nil {
		sv += "+clear-err"
	}
	changed := "no"
	if kind == "cb" {
		if len(e.node.KVWrites()) != 0 {
			changed = "yes"
		}
	} else {
		after, _ := os.ReadFile(fn)
		_, statErrAfter := os.Stat(fn)
		if string(before) != string(after) || (statErrBefore == nil) != (statErrAfter == nil) {
			changed = "yes"
		}
	}
	direct := ckLoad(md, n)
	through := ckLoad(ro, n)
	same := "yes"
	if direct != through {
		same = "no"
	}
	return fmt.Sprintf("save=%s changed=%s same=%s %s", sv, changed, same, through)
}

// ---------------------------------------------------------------- large dirty sets (ck-bulk)

const ckBulkMaxVbs = 1024

// ckBulkEnv: a second simulated node with the full 1024 vBuckets and its own real client; every KV write
// (SET, sub-document mutation) is answered after `lat`, the first sub-document write to `failKey` with an error
type ckBulkEnv struct {
	node *sim.Node
	cfg  *config.Dcp
	cl   couchbase.Client

	mu      sync.Mutex
	lat     time.Duration
	failKey string
	vanish  bool // the document of failKey "vanishes" after it was created: the SECOND sub-document write is answered KEY_ENOENT
	seenFk  int  // sub-document writes to failKey seen so far
}

func (e *ckEnv) bulkEnv() *ckBulkEnv {
	if e.bulk != nil {
		return e.bulk
	}
	b := &ckBulkEnv{}
	b.node = sim.New(sim.Options{NumVb: ckBulkMaxVbs})
	if err := b.node.Start(); err != nil {
		panic(err)
	}
	b.cfg = b.node.Config("ckb", "couchbase")
	b.cfg.Checkpoint.Type = "manual"
	b.cl = couchbase.NewClient(b.cfg)
	if err := b.cl.Connect(); err != nil {
		panic(err)
	}
	b.node.OnRequest(func(r sim.Request) sim.Action {
		if r.Opcode != memd.CmdSubDocMultiMutation && r.Opcode != memd.CmdSet {
			return sim.Default()
		}
		b.mu.Lock()
		lat, fk := b.lat, b.failKey
		if fk != "" && r.Opcode == memd.CmdSubDocMultiMutation && strings.HasSuffix(string(r.Key), fk) {
			b.seenFk++
			if b.vanish {
				if b.seenFk == 2 {
					b.failKey = ""
					b.mu.Unlock()
					return sim.Status(memd.StatusKeyNotFound).After(lat)
				}
			} else {
				b.failKey = ""
				b.mu.Unlock()
				return sim.Status(memd.StatusInternalError).After(lat)
			}
		}
		b.mu.Unlock()
		if lat > 0 {
			return sim.Delay(lat)
		}
		return sim.Default()
	})
	e.bulk = b
	return b
}

func (b *ckBulkEnv) script(lat time.Duration, failKey string) {
	b.mu.Lock()
	b.lat, b.failKey, b.vanish, b.seenFk = lat, failKey, false, 0
	b.mu.Unlock()
}

// ckBulkDoc: the document of vBucket vb in a ck-bulk line with salt K: with b = K*1000003 + vb, field k (1..4)
// is (b+k)*6364136223846793005 + k*1442695040888963407 (mod 2^64).  Multiplication by an odd constant is a
// bijection, so for one salt all 4*N values are distinct.  Mirrored by Wire.bulkDoc in Driver/Wire.lean.
func ckBulkDoc(salt uint64, vb int) ckDoc {
	b := salt*1000003 + uint64(vb)
	f := func(k uint64) uint64 { return (b+k)*6364136223846793005 + k*1442695040888963407 }
	return ckDoc{f(1), f(2), f(3), f(4)}
}

func (e *ckEnv) bulkSave(group string, kv map[string]string) string {
	n, e1 := strconv.Atoi(kv["n"])
	lat, e2 := strconv.Atoi(kv["lat"])
	salt, e3 := strconv.ParseUint(kv["salt"], 10, 64)
	preM, e4 := strconv.Atoi(kv["pre"])
	skip, e5 := strconv.Atoi(kv["skip"])
	if e1 != nil || e2 != nil || e3 != nil || e4 != nil || e5 != nil || n < 1 || n > ckBulkMaxVbs || lat < 0 || lat > 1000 || preM < 0 || skip < 0 {
		return "bad-op"
	}
	failVb := -1
	vanish := false
	if f := kv["fail"]; f != "-" {
		if strings.HasSuffix(f, "v") { // fail=VBv: the document vanishes between its creation and the repeated write
			vanish = true
			f = strings.TrimSuffix(f, "v")
		}
		v, err := strconv.Atoi(f)
		if err != nil || v < 0 || v >= n || (skip > 0 && v%skip == skip-1) {
			return "bad-op" // the failing vBucket must be one the save writes
		}
		if vanish && preM > 0 && v%preM == 0 {
			return "bad-op" // the vanishing document must be one the save has to create
		}
		failVb = v
	}
	b := e.bulkEnv()
	c := *b.cfg
	c.Dcp.Group.Name = group
	md := couchbase.NewCBMetadata(b.cl, &c)
	key := func(vb int) string { return helpers.Prefix + group + ":checkpoint:" + strconv.Itoa(vb) }

	// documents that exist before the save: written through the real Save in small portions, no latency
	b.script(0, "")
	if preM > 0 {
		st, dirty := map[uint16]*models.CheckpointDocument{}, map[uint16]bool{}
		flush := func() bool {
			if len(st) == 0 {
				return true
			}
			err := md.Save(st, dirty, "u")
			st, dirty = map[uint16]*models.CheckpointDocument{}, map[uint16]bool{}
			return err == nil
		}
		for vb := 0; vb < n; vb += preM {
			st[uint16(vb)] = ckModelDoc(ckBulkDoc(salt+1, vb))
			dirty[uint16(vb)] = true
			if len(st) == 16 && !flush() {
				return "presave-err"
			}
		}
		if !flush() {
			return "presave-err"
		}
		for vb := 0; vb < n; vb += preM { // the harness's own precondition, read from the node
			if _, ok := b.node.KVGet(0, key(vb)); !ok {
				return "presave-incomplete"
			}
		}
	}

	state, dirty := map[uint16]*models.CheckpointDocument{}, map[uint16]bool{}
	expected := map[string]bool{}
	for vb := 0; vb < n; vb++ {
		state[uint16(vb)] = ckModelDoc(ckBulkDoc(salt, vb))
		if skip == 0 || vb%skip != skip-1 {
			dirty[uint16(vb)] = true
			expected[key(vb)] = true
		}
	}
	fk := ""
	if failVb >= 0 {
		fk = key(failVb)
	}
	b.node.ResetLogs()
	b.script(time.Duration(lat)*time.Millisecond, fk)
	if vanish {
		b.mu.Lock()
		b.vanish = true
		b.mu.Unlock()
	}
	err := md.Save(state, dirty, "u")
	b.script(0, "")
	if err != nil {
		return "save=err"
	}
	// what the node saw: per key, did a successful xattr write arrive
	done := map[string]bool{}
	ops, stray := 0, 0
	for _, w := range b.node.KVWrites() {
		ops++
		if !expected[w.Key] {
			stray++
			continue
		}
		if w.Op == "MUTATEIN" && w.Status == memd.StatusSuccess && len(w.Paths) == 1 && w.Paths[0] == "x:"+helpers.Name {
			done[w.Key] = true
		}
	}
	return fmt.Sprintf("save=ok keys=%d ops=%d stray=%d %s", len(done), ops, stray, ckLoad(md, n))
}

var ckCorruptKinds = map[string]string{
	"garbage":     "\x00\xffnot json",
	"truncated":   `{"checkpoint":{"vbuuid":7,"seqno":5,"snapsh`,
	"strfield":    `{"checkpoint":{"vbuuid":7,"seqno":"5","snapshot":{"startSeqno":5,"endSeqno":5}},"bucketUuid":"u"}`,
	"negative":    `{"checkpoint":{"vbuuid":7,"seqno":-5,"snapshot":{"startSeqno":5,"endSeqno":5}},"bucketUuid":"u"}`,
	"fraction":    `{"checkpoint":{"vbuuid":7,"seqno":5.5,"snapshot":{"startSeqno":5,"endSeqno":5}},"bucketUuid":"u"}`,
	"overflow":    `{"checkpoint":{"vbuuid":7,"seqno":18446744073709551616,"snapshot":{"startSeqno":5,"endSeqno":5}},"bucketUuid":"u"}`,
	"array":       `[1,2,3]`,
	"empty":       ``,
	"null":        `null`,
	"emptyobj":    `{}`,
	"nullcp":      `{"checkpoint":null,"bucketUuid":"u"}`,
	"nosnapshot":  `{"checkpoint":{"vbuuid":7,"seqno":5},"bucketUuid":"u"}`,
	"extrafields": `{"checkpoint":{"vbuuid":7,"seqno":5,"snapshot":{"startSeqno":4,"endSeqno":6,"x":1},"y":[1]},"bucketUuid":"u","z":{}}`,
	"reordered":   `{"bucketUuid":"u","checkpoint":{"seqno":5,"snapshot":{"endSeqno":6,"startSeqno":4},"vbuuid":7}}`,
	"spaces":      "{ \"checkpoint\" : { \"vbuuid\" : 7 ,\n \"seqno\" : 5 , \"snapshot\" : { \"startSeqno\" : 4 , \"endSeqno\" : 6 } } , \"bucketUuid\" : \"u\" }",
	"exponent":    `{"checkpoint":{"vbuuid":7,"seqno":5e0,"snapshot":{"startSeqno":4,"endSeqno":6}},"bucketUuid":"u"}`,
	"leadingzero": `{"checkpoint":{"vbuuid":7,"seqno":05,"snapshot":{"startSeqno":4,"endSeqno":6}},"bucketUuid":"u"}`,
}

func (e *ckEnv) corrupt(kind, group, what string) string {
	body, ok := ckCorruptKinds[what]
	if !ok {
		return "bad-op"
	}
	switch kind {
	case "cb":
		e.node.KVPut(0, helpers.Prefix+group+":checkpoint:0", []byte("{}"), map[string][]byte{helpers.Name: []byte(body)})
		md := couchbase.NewCBMetadata(e.cl, e.cbCfg(group))
		st, exist, err := md.Load([]uint16{0}, "u")
		if err != nil {
			return "load-err"
		}
		d, has := st.Load(0)
		return fmt.Sprintf("loaded=%s exist=%v", ckRenderLoaded1(d, has), exist)
	case "file":
		c, fn := e.fileCfg(group)
		if err := os.WriteFile(fn, []byte(`{"0":`+body+`}`), 0o644); err != nil {
			return "harness-write-err"
		}
		st, exist, err := metadata.NewFSMetadata(c).Load([]uint16{0}, "u")
		if err != nil {
			return "load-err"
		}
		d, has := st.Load(0)
		return fmt.Sprintf("loaded=%s exist=%v", ckRenderLoaded1(d, has), exist)
	}
	return "bad-op"
}

func (e *ckEnv) f12probe() string {
	c, _ := e.fileCfg("f12probe")
	c.Metadata.Config["fileName"] = filepath.Join(e.dir, "no-such-dir-probe", "x.json")
	err := metadata.NewFSMetadata(c).Save(ckState(map[uint16]ckDoc{0: {1, 2, 2, 2}}), map[uint16]bool{0: true}, "u")
	if err != nil {
		return "reports"
	}
	return "swallows"
}

// file back end whose directory does not exist (a read-only directory would not stop root)
func (e *ckEnv) unwritable(group string) string {
	c, _ := e.fileCfg(group)
	fn := filepath.Join(e.dir, "no-such-dir-"+group, "cp.json")
	c.Metadata.Config["fileName"] = fn
	md := metadata.NewFSMetadata(c)
	sv := "ok"
	if err := md.Save(ckState(map[uint16]ckDoc{0: {1, 2, 2, 2}}), map[uint16]bool{0: true}, "u"); err != nil {
		sv = "err"
	}
	written := "no"
	if _, err := os.Stat(fn); err == nil {
		written = "yes"
	}
	return fmt.Sprintf("save=%s written=%s", sv, written)
}

// the real stream layer on the real client and the real couchbase metadata
func (e *ckEnv) open(group string, kv map[string]string) string {
	lo, e1 := strconv.Atoi(kv["lo"])
	hi, e2 := strconv.Atoi(kv["hi"])
	docs, ok1 := ckParseDocs(kv["docs"])
	high, ok2 := ckParsePairs(kv["high"])
	flog, ok3 := ckParsePairs(kv["flog"])
	if e1 != nil || e2 != nil || !ok1 || !ok2 || !ok3 || lo < 0 || hi < lo || hi >= ckVbs {
		return "bad-op"
	}
	cfg := e.cbCfg(group)
	switch kv["mode"] {
	case "inf":
		cfg.Dcp.Mode = config.DcpModeInfinite
	case "fin":
		cfg.Dcp.Mode = config.DcpModeFinite
	default:
		return "bad-op"
	}
	if kv["reset"] != "earliest" && kv["reset"] != "latest" {
		return "bad-op"
	}
	cfg.Checkpoint.AutoReset = kv["reset"]
	for vb := uint16(0); vb < ckVbs; vb++ {
		e.node.SetHighSeqno(vb, high[vb])
		e.node.SetFailoverLog(vb, []sim.FailoverEntry{{UUID: flog[vb], Seq: 0}})
	}
	md := couchbase.NewCBMetadata(e.cl, cfg)
	if len(docs) > 0 {
		if err := md.Save(ckState(docs), ckAll(docs), "u"); err != nil {
			return "presave-err"
		}
	}
	// the checkpoint-ahead guard panics inside the goroutine concurrent-swiss-map's Range starts: nobody can
	// recover it (stream c15w observes it in child processes).  Evaluate its condition on what the REAL
	// back end loads and do not open the stream when it would fire.
	{
		var ids []uint16
		for vb := lo; vb <= hi; vb++ {
			ids = append(ids, uint16(vb))
		}
		ld, _, err := md.Load(ids, "u")
		if err != nil {
			return "load-err"
		}
		for _, vb := range ids {
			if d, ok := ld.Load(vb); ok && d != nil && d.Checkpoint != nil && d.Checkpoint.SeqNo > high[vb] {
				return "ahead-not-executed"
			}
		}
	}
	e.node.ResetLogs()
	buf := &obuf{}
	disc := &fakeDisc{buf: buf}
	disc.set(lo, hi)
	stop := make(chan struct{}, 1)
	st := stream.NewStream(e.cl, md, cfg, &couchbase.Version{Major: 7, Minor: 6}, &couchbase.BucketInfo{BucketType: "membase"},
		disc, &fakeConsumer{buf: buf, quiet: true}, map[uint32]string{}, stop, &fakeEH{}, tracing.NewTracerComponent())
	st.Open() // a checkpoint-ahead panic is recovered in exec
	var p []string
	for vb := lo; vb <= hi; vb++ {
		for _, r := range e.node.StreamReqsOf(uint16(vb)) {
			p = append(p, fmt.Sprintf("%d:%d,%d,%d,%d,%d,%d", vb, r.Flags, r.VbUUID, r.Start, r.End, r.SnapStart, r.SnapEnd))
		}
	}
	extra := ""
	if len(e.node.StreamReqs()) != len(p) {
		extra = " foreign-reqs"
	}
	st.Close(true)
	if len(e.node.OpenStreams()) != 0 {
		extra += " not-closed"
	}
	return "reqs=[" + strings.Join(p, " ") + "]" + extra
}

// ---------------------------------------------------------------- generator

var ckBoundary = []uint64{0, 1, 1<<32 - 1, 1<<32 + 1, 1<<53 - 1, 1<<53 + 1, 1<<63 - 1, 1<<63 + 1, 1<<64 - 1}

func ckVal(r *Rng) uint64 {
	switch r.Intn(4) {
	case 0:
		return ckBoundary[r.Intn(len(ckBoundary))]
	case 1:
		return uint64(r.Intn(1000))
	case 2:
		return ckBoundary[r.Intn(len(ckBoundary))] + uint64(r.Intn(5)) - 2 // wraps at the ends on purpose
	}
	return r.U64()
}

func ckRandDoc(r *Rng) ckDoc { return ckDoc{ckVal(r), ckVal(r), ckVal(r), ckVal(r)} }

func runC02W(c *Ctx) {
	e := newCkEnv()
	defer e.close()
	E := c.E
	seq := 0
	group := func() string { seq++; return fmt.Sprintf("ck%d", seq) }
	one := func(op string, nontrivial bool, tags ...string) {
		E.Line(op, e.exec(op))
		E.EndCase(nontrivial, tags...)
	}
	if replayFile != "" {
		f, err := os.Open(replayFile)
		if err != nil {
			panic(err)
		}
		defer f.Close()
		sc := bufio.NewScanner(f)
		sc.Buffer(make([]byte, 1<<20), 1<<24)
		for sc.Scan() {
			op := strings.TrimSpace(strings.SplitN(sc.Text(), "\t", 2)[0])
			if op != "" {
				one(op, true, "replay")
			}
		}
		return
	}
	r := c.R

	// fact line for finding F12
	f12 := e.f12probe()
	E.Line("ck-f12probe", f12)
	E.EndCase(true, "f12:"+f12)

	// A. lossless round trip of every boundary value in every field, both back ends
	for _, kind := range []string{"cb", "file"} {
		for f := 0; f < 4; f++ {
			for _, v := range ckBoundary {
				d := [4]uint64{ckVal(r), ckVal(r), ckVal(r), ckVal(r)}
				d[f] = v
				one(fmt.Sprintf("ck-rt %s %s %d %d %d %d", kind, group(), d[0], d[1], d[2], d[3]), true, "rt-"+kind, "rt-boundary")
			}
		}
		one(fmt.Sprintf("ck-rt %s %s %d %d %d %d", kind, group(), uint64(1<<64-1), uint64(1<<64-1), uint64(1<<64-1), uint64(1<<64-1)), true, "rt-"+kind, "rt-allmax")
		one(fmt.Sprintf("ck-rt %s %s 0 0 0 0", kind, group()), true, "rt-"+kind, "rt-allzero")
		for i := 0; i < c.N(400, 6000); i++ {
			d := ckRandDoc(r)
			one(fmt.Sprintf("ck-rt %s %s %d %d %d %d", kind, group(), d.u, d.s, d.ss, d.se), true, "rt-"+kind, "rt-random")
		}
	}

	// B. all subsets (having a document) x (dirty) of n <= 5 vBuckets through the cb back end:
	//    create-then-upsert for vBuckets without a document, pure upsert for the others.
	//    quick: n = 1..4 exhaustively + n = 5 sampled (15 %); thorough: n = 1..5 exhaustively
	mk := func(n int, mask int, gen func() ckDoc) map[uint16]ckDoc {
		m := map[uint16]ckDoc{}
		for vb := 0; vb < n; vb++ {
			if mask&(1<<vb) != 0 {
				m[uint16(vb)] = gen()
			}
		}
		return m
	}
	saveOp := func(cmd, kind string, n, preMask, dirtyMask, stateMask int) string {
		pre := mk(n, preMask, func() ckDoc { return ckRandDoc(r) })
		state := mk(n, stateMask, func() ckDoc { return ckRandDoc(r) })
		dirty := map[uint16]bool{}
		for vb := 0; vb < n; vb++ {
			if dirtyMask&(1<<vb) != 0 {
				dirty[uint16(vb)] = true
			}
		}
		return fmt.Sprintf("%s %s %s n=%d pre=%s state=%s dirty=%s", cmd, kind, group(), n, ckDocsStr(pre), ckDocsStr(state), ckVbsStr(dirty))
	}
	exh := c.N(4, 5)
	for n := 1; n <= 5; n++ {
		full := 1<<n - 1
		for pm := 0; pm <= full; pm++ {
			for dm := 0; dm <= full; dm++ {
				if n > exh && !r.Chance(15) {
					continue
				}
				// checkpoint.Save dumps every assigned vBucket: state = all n (the usual case) or,
				// now and then, a dirty mark without a state entry / a state that lacks some vBuckets
				sm := full
				if r.Chance(10) {
					sm = r.Intn(full + 1)
				}
				tag := "save-mixed"
				switch {
				case dm == 0:
					tag = "save-nothing-dirty"
				case pm&dm == 0:
					tag = "save-create-only"
				case pm&dm == dm:
					tag = "save-upsert-only"
				}
				one(saveOp("ck-save", "cb", n, pm, dm, sm), dm != 0, tag, fmt.Sprintf("save-n%d", n))
			}
		}
	}
	for i := 0; i < c.N(150, 1500); i++ {
		n := r.Range(1, 5)
		full := 1<<n - 1
		one(saveOp("ck-save", "file", n, r.Intn(full+1), r.Intn(full+1), r.Intn(full+1)), true, "save-file")
	}
	// C. read-only wrapper over both back ends
	for i := 0; i < c.N(200, 2000); i++ {
		n := r.Range(1, 5)
		full := 1<<n - 1
		kind := []string{"cb", "file"}[i%2]
		one(saveOp("ck-ro", kind, n, r.Intn(full+1), r.Intn(full+1), full), true, "ro-"+kind)
	}
	// D. what is stored is not a checkpoint document
	var kinds []string
	for k := range ckCorruptKinds {
		kinds = append(kinds, k)
	}
	sort.Strings(kinds)
	for _, k := range kinds {
		one(fmt.Sprintf("ck-corrupt cb %s %s", group(), k), true, "corrupt-cb")
		one(fmt.Sprintf("ck-corrupt file %s %s", group(), k), true, "corrupt-file")
	}
	// E. file back end: missing file, unwritable file (finding F12)
	for n := 1; n <= 5; n++ {
		one(fmt.Sprintf("ck-file missing %s n=%d", group(), n), true, "file-missing")
	}
	one(fmt.Sprintf("ck-file unwritable %s f12=%s", group(), f12), true, "file-unwritable")

	// F. the real stream layer: {earliest, latest} x {infinite, finite} x subsets with checkpoints x high-seqno vectors
	nOpen := 0
	openCase := func(lo, hi int, mode, reset string, mask int, ahead bool) {
		high := map[uint16]uint64{}
		flog := map[uint16]uint64{}
		docs := map[uint16]ckDoc{}
		for vb := 0; vb < ckVbs; vb++ {
			switch r.Intn(5) {
			case 0:
				high[uint16(vb)] = 0
			case 1:
				high[uint16(vb)] = ckBoundary[r.Intn(len(ckBoundary))]
			default:
				high[uint16(vb)] = ckVal(r)
			}
			flog[uint16(vb)] = ckVal(r)
		}
		for vb := lo; vb <= hi; vb++ {
			if mask&(1<<(vb-lo)) == 0 {
				continue
			}
			h := high[uint16(vb)]
			d := ckRandDoc(r)
			// respect C15's guard: seq <= high (equal and zero included)
			switch r.Intn(4) {
			case 0:
				d.s = h
			case 1:
				d.s = 0
			default:
				if h == ^uint64(0) {
					d.s = r.U64()
				} else {
					d.s = r.U64() % (h + 1)
				}
			}
			docs[uint16(vb)] = d
		}
		tags := []string{"open-" + mode, "open-" + reset, fmt.Sprintf("open-docs-%d", len(docs))}
		if ahead && len(docs) > 0 {
			// the guard-violating input (C15): one stored seqno beyond its high seqno; the stream is not
			// opened for it (see open), the fail-stop itself is observed by stream c15w
			for vb, d := range docs {
				if high[vb] != ^uint64(0) {
					d.s = high[vb] + 1 + uint64(r.Intn(3))
					if d.s < high[vb] {
						d.s = ^uint64(0)
					}
					docs[vb] = d
					tags = append(tags, "open-ahead")
					break
				}
			}
		}
		nOpen++
		one(fmt.Sprintf("ck-open %s lo=%d hi=%d mode=%s reset=%s docs=%s high=%s flog=%s", group(), lo, hi, mode, reset,
			ckDocsStr(docs), ckPairsStr(high), ckPairsStr(flog)), true, tags...)
	}
	for _, mode := range []string{"inf", "fin"} {
		for _, reset := range []string{"earliest", "latest"} {
			// every subset of a 3-vBucket assignment (thorough: 5) with a checkpoint
			n := c.N(3, 5)
			for mask := 0; mask < 1<<n; mask++ {
				lo := r.Intn(ckVbs - n + 1)
				openCase(lo, lo+n-1, mode, reset, mask, false)
			}
			for i := 0; i < c.N(200, 3000); i++ {
				n := r.Range(1, 5)
				lo := r.Intn(ckVbs - n + 1)
				openCase(lo, lo+n-1, mode, reset, r.Intn(1<<n), r.Chance(5))
			}
		}
	}
	c.Extra["open_cases"] = nOpen

	// G. large dirty sets in ONE save (C05: a successful save has stored every dirty vBucket): more writes than any
	//    plausible concurrency bound, answered with a small latency so that they are in flight together
	bulk := func(n, lat, preM, skip, fail int, tags ...string) {
		f := "-"
		if fail >= 0 {
			f = strconv.Itoa(fail)
		}
		t0 := time.Now()
		one(fmt.Sprintf("ck-bulk cb %s n=%d lat=%d salt=%d pre=%d skip=%d fail=%s", group(), n, lat, r.Intn(1<<30), preM, skip, f), true, tags...)
		if d := time.Since(t0); d > bulkMax {
			bulkMax = d
		}
	}
	for _, n := range []int{8, 64, 65, 128, 300, 1024} {
		bulk(n, 2, 0, 0, -1, "bulk-create", fmt.Sprintf("bulk-n%d", n))
	}
	bulk(1024, 5, 3, 0, -1, "bulk-mixed", "bulk-n1024")
	bulk(300, 3, 1, 7, -1, "bulk-upsert-partly-dirty", "bulk-n300")
	for i := 0; i < c.N(4, 40); i++ {
		n := []int{65, 66, 100, 129, 200, 257, 512, 1023, 1024}[r.Intn(9)]
		bulk(n, r.Range(1, 6), []int{0, 0, 1, 2, 5}[r.Intn(5)], []int{0, 0, 2, 3, 10}[r.Intn(5)], -1, "bulk-random")
	}
	// one write of the save is refused: the save must not report success
	for _, n := range []int{1, 40, 200, 1024} {
		fail := r.Intn(n)
		bulk(n, 2, 0, 0, fail, "bulk-failed-write", fmt.Sprintf("bulk-n%d", n))
	}
	// the document of one vBucket vanishes between its creation and the repeated xattr write (another member's Clear, a flush):
	// the server confirmed nothing for it, so the save must not report success
	for _, n := range []int{1, 2, 40, 300} {
		fail := r.Intn(n)
		one(fmt.Sprintf("ck-bulk cb %s n=%d lat=%d salt=%d pre=0 skip=0 fail=%dv", group(), n, 1, r.Intn(1<<30), fail), true, "bulk-vanished-document", fmt.Sprintf("bulk-n%d", n))
	}
	c.Extra["bulk_max_ms"] = bulkMax.Milliseconds()
}

var bulkMax time.Duration
