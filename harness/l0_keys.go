package main

// Stream "c14k": the keys the library writes and the filter that hides them.
//
//	key-cp HEXGROUP VB      real couchbase.getCheckpointID (through the additive
//	                        `//go:build verif` export couchbase.VerifCheckpointID)
//	                        → hex of the key | panic
//	key-meta KIND HEXKEY    real helpers.IsMetadata on a value of the given kind
//	                        → true | false | panic
//	key-collisions          number of distinct (group, vb) pairs of this run that were
//	                        given the same key
//
// Byte strings are hex-encoded in op lines ("-" = empty). The membership keys
// (couchbase/membership.go l.348-349) are built inline in NewCBMembership, which
// immediately talks to the cluster; they are not reachable at this layer.

import (
	"encoding/hex"
	"fmt"
	"github.com/Trendyol/go-dcp/config"
	"strings"

	"github.com/Trendyol/go-dcp/couchbase"
	"github.com/Trendyol/go-dcp/helpers"
	"github.com/Trendyol/go-dcp/models"
	"github.com/couchbase/gocbcore/v10"
)

func init() { props["c14k"] = runC14K }

func kHex(b []byte) string {
	if len(b) == 0 {
		return "-"
	}
	return hex.EncodeToString(b)
}

// realCheckpointIDViaConfig: the key as the running library builds it - the group name goes through config.ApplyDefaults first
// (dcp.newDcp) and getCheckpointID is applied to what the configuration then holds. ApplyDefaults must leave a set name alone (C17),
// so the key is the same function of (name, vb) as before; long names are the point of this op.
func realCheckpointIDViaConfig(vb uint16, g string) (res string) {
	defer func() {
		if r := recover(); r != nil {
			res = "panic"
		}
	}()
	cfg := &config.Dcp{}
	cfg.Dcp.Group.Name = g
	cfg.ApplyDefaults()
	return kHex(couchbase.VerifCheckpointID(vb, cfg.Dcp.Group.Name))
}

func realCheckpointID(vb uint16, g string) (res string) {
	defer func() {
		if r := recover(); r != nil {
			res = "panic"
		}
	}()
	return kHex(couchbase.VerifCheckpointID(vb, g))
}

type kCustom struct {
	ID  int
	Key []byte
}
type kNoKey struct{ ID []byte }
type kStrKey struct{ Key string }

var kMetaKinds = []string{"mut", "del", "exp", "rawmut", "custom", "collcreate", "scopecreate",
	"seqno", "colldel", "nokey", "ptr", "strkey", "nilembed"}

func realIsMetadata(kind string, k []byte) (res string) {
	defer func() {
		if r := recover(); r != nil {
			res = "panic"
		}
	}()
	var v interface{}
	switch kind {
	case "mut": // what stream.waitAndForward is handed for a mutation
		v = models.DcpMutation{DcpMutation: &gocbcore.DcpMutation{Key: k, Value: []byte("v")}, Offset: &models.Offset{}}
	case "del":
		v = models.DcpDeletion{DcpDeletion: &gocbcore.DcpDeletion{Key: k}, Offset: &models.Offset{}}
	case "exp":
		v = models.DcpExpiration{DcpExpiration: &gocbcore.DcpExpiration{Key: k}, Offset: &models.Offset{}}
	case "rawmut":
		v = gocbcore.DcpMutation{Key: k}
	case "custom":
		v = kCustom{Key: k}
	case "collcreate":
		v = models.DcpCollectionCreation{DcpCollectionCreation: &gocbcore.DcpCollectionCreation{Key: k}}
	case "scopecreate":
		v = models.DcpScopeCreation{DcpScopeCreation: &gocbcore.DcpScopeCreation{Key: k}}
	case "seqno":
		v = models.DcpSeqNoAdvanced{DcpSeqNoAdvanced: &gocbcore.DcpSeqNoAdvanced{}}
	case "colldel":
		v = models.DcpCollectionDeletion{DcpCollectionDeletion: &gocbcore.DcpCollectionDeletion{}}
	case "nokey":
		v = kNoKey{ID: k}
	case "ptr":
		v = &kCustom{Key: k}
	case "strkey":
		v = kStrKey{Key: string(k)}
	case "nilembed":
		v = models.DcpMutation{}
	default:
		return "bad-kind"
	}
	if helpers.IsMetadata(v) {
		return "true"
	}
	return "false"
}

var kNameTokens = []string{
	"a", "g", "group", "G", "z9", "0", "1", "7", "12", "007", "65535",
	":", "::", ":checkpoint:", ":checkpoint", "checkpoint:", "checkpoint", ":instance:", ":instance:all", "all",
	"_connector:cbgo:", "_txn:", "-", "_", " ", "/", "%", "\x00", "\xff", "\t",
	"ü", "日本", "😀", "İ", ".", "..", "a.b",
}

func kGenName(c *Ctx) string {
	n := c.R.Intn(5)
	var sb strings.Builder
	for i := 0; i < n; i++ {
		t := kNameTokens[c.R.Intn(len(kNameTokens))]
		if strings.Contains(t, ".") && !c.R.Chance(25) {
			t = "x" // keep dotted (rejected) names a minority
		}
		sb.WriteString(t)
	}
	if c.R.Chance(25) { // trailing digits
		sb.WriteString(fmt.Sprint(c.R.Intn(100000)))
	}
	return sb.String()
}

func kNameTags(g string) []string {
	var t []string
	if g == "" {
		t = append(t, "name-empty")
	}
	if strings.Contains(g, ":") {
		t = append(t, "name-colon")
	}
	if strings.Contains(g, ":checkpoint:") {
		t = append(t, "name-has-separator")
	}
	if strings.Contains(g, ".") {
		t = append(t, "name-dot")
	}
	if n := len(g); n > 0 && g[n-1] >= '0' && g[n-1] <= '9' {
		t = append(t, "name-trailing-digit")
	}
	for i := 0; i < len(g); i++ {
		if g[i] >= 0x80 || g[i] < 0x20 {
			t = append(t, "name-non-ascii")
			break
		}
	}
	return t
}

func runC14K(c *Ctx) {
	e := c.E
	type pair struct {
		g  string
		vb uint16
	}
	seen := map[string]pair{}
	collisions := 0
	cp := func(g string, vb uint16) {
		r := realCheckpointID(vb, g)
		e.Line(fmt.Sprintf("key-cp %s %d", kHex([]byte(g)), vb), r)
		tags := kNameTags(g)
		if r == "panic" {
			tags = append(tags, "cp-panic")
		} else {
			tags = append(tags, "cp-key")
			if p, ok := seen[r]; ok && (p.g != g || p.vb != vb) {
				collisions++
			}
			seen[r] = pair{g, vb}
		}
		e.EndCase(g != "", tags...)
	}
	meta := func(kind string, k []byte) {
		r := realIsMetadata(kind, k)
		e.Line(fmt.Sprintf("key-meta %s %s", kind, kHex(k)), r)
		e.EndCase(len(k) > 0, "meta-"+kind, "meta-"+r)
	}

	// ---- checkpoint keys
	fixed := []string{"", "group1", "g", "a:checkpoint:1", "g:checkpoint:", "7", "grp:instance:all", "日本",
		"group.with.dot", ".", "_connector:cbgo:g", ":"}
	for len(fixed) < c.N(12, 48) {
		fixed = append(fixed, kGenName(c))
	}
	bounds := []uint16{0, 1, 9, 10, 11, 99, 100, 101, 999, 1000, 1023, 1024, 9999, 10000, 32767, 32768, 65534, 65535}
	for i, g := range fixed {
		if i < c.N(6, 24) { // every vBucket id of the largest bucket layout
			for vb := 0; vb < 1024; vb++ {
				cp(g, uint16(vb))
			}
		}
		for _, vb := range bounds {
			cp(g, vb)
		}
	}
	for i := 0; i < c.N(3000, 40000); i++ {
		vb := uint16(c.R.Intn(1024))
		if c.R.Chance(15) {
			vb = uint16(c.R.Intn(65536))
		}
		cp(kGenName(c), vb)
	}
	// adversarial pairs: move the name/number boundary ("g", 123) vs ("g:checkpoint:1", 23) vs ("g:checkpoint:12", 3)
	for i := 0; i < c.N(300, 4000); i++ {
		g := strings.ReplaceAll(kGenName(c), ".", "x")
		vb := uint16(10 + c.R.Intn(65526))
		d := fmt.Sprint(vb)
		cp(g, vb)
		for cut := 1; cut < len(d); cut++ {
			var tail uint16
			fmt.Sscan(d[cut:], &tail)
			cp(g+":checkpoint:"+d[:cut], tail)
			cp(g+d[:cut], tail)
		}
	}
	// group names as the configuration hands them to the key builder; long names and pairs that share a long prefix
	cfgKey := func(g string, vb uint16) {
		r := realCheckpointIDViaConfig(vb, g)
		e.Line(fmt.Sprintf("key-cfg %s %d", kHex([]byte(g)), vb), r)
		tags := append(kNameTags(g), "cfg-key")
		if len(g) > 128 {
			tags = append(tags, "name-long")
		}
		if r != "panic" {
			if p, ok := seen[r]; ok && (p.g != g || p.vb != vb) {
				collisions++
			}
			seen[r] = pair{g, vb}
		}
		e.EndCase(true, tags...)
	}
	for i := 0; i < c.N(200, 3000); i++ {
		g := strings.ReplaceAll(kGenName(c), ".", "x")
		if g == "" {
			g = "g"
		}
		vb := uint16(c.R.Intn(1024))
		switch c.R.Intn(4) {
		case 0:
			cfgKey(g, vb)
		default:
			// a long common prefix (lengths around 64 / 128 / 200 / 250 bytes), two different tails
			n := []int{60, 64, 120, 127, 128, 129, 130, 200, 250, 300}[c.R.Intn(10)]
			p := strings.Repeat(g+"-", n/(len(g)+1)+1)[:n]
			cfgKey(p+"a", vb)
			cfgKey(p+"b", vb)
			cfgKey(p, vb)
		}
	}
	e.Line("key-collisions", fmt.Sprint(collisions))
	e.EndCase(true, "collisions")
	c.Extra["distinct_checkpoint_keys"] = len(seen)

	// ---- IsMetadata
	P, T := helpers.Prefix, helpers.TxnPrefix
	var keys [][]byte
	add := func(s string) { keys = append(keys, []byte(s)) }
	add("")
	for _, p := range []string{P, T} {
		for i := 1; i <= len(p); i++ { // every proper prefix, and the prefix itself
			add(p[:i])
		}
		add(p + "x")
		add(p + "g:checkpoint:12")
		add(p + P)
		add(p + "\x00\xff")
		add("x" + p + "y") // prefix in the middle
		add(" " + p)
		add(strings.ToUpper(p) + "k")
		add(p[1:] + "k")              // first byte missing
		for i := 0; i < len(p); i++ { // one byte changed
			b := []byte(p + "k")
			b[i] ^= 0x20
			keys = append(keys, b)
			b2 := []byte(p + "k")
			b2[i]++
			keys = append(keys, b2)
		}
	}
	add("user::1")
	add("_")
	add("_t")
	add("_c")
	add("_txn")
	add("_txn;")
	add("_connector:cbgo")
	add("_connector:cbgx:")
	add("_connector:cbgo_")
	add("_connector::cbgo:")
	add("\x00")
	add("\xff\xfe_txn:")
	add("日本_txn:")
	// keys the library really writes
	for _, g := range []string{"", "group1", "a:checkpoint:1", "日本"} {
		for _, vb := range []uint16{0, 7, 1023, 65535} {
			keys = append(keys, couchbase.VerifCheckpointID(vb, g))
		}
	}
	for i := 0; i < c.N(400, 6000); i++ {
		n := c.R.Intn(24)
		b := make([]byte, n)
		for j := range b {
			b[j] = byte(c.R.Intn(256))
		}
		switch c.R.Intn(6) {
		case 0:
			b = append([]byte(P), b...)
		case 1:
			b = append([]byte(T), b...)
		case 2:
			b = append([]byte(P[:c.R.Intn(len(P))]), b...)
		case 3:
			b = append([]byte(T[:c.R.Intn(len(T))]), b...)
		case 4:
			b = append(b, []byte(c.R.Pick(P, T))...)
		}
		keys = append(keys, b)
	}
	for i, k := range keys {
		for _, kind := range []string{"mut", "del", "exp"} {
			meta(kind, k)
		}
		meta(kMetaKinds[3+i%(len(kMetaKinds)-3)], k)
	}
}
