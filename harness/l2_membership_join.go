// Stream c10cb, op mb-cb-joinwrite (property C10, layer L2): a NEW instance joins in
// the window between another member's index READ and that member's CAS-guarded
// WRITE-BACK, in a round in which that member has a change to write.
//
//	mb-cb-joinwrite N K A HOW ORDER JT
//
//	N      members that are running (settled numbering i+1/N) before the join
//	K      the member that dies silently (index in join order); `-` = nobody (control)
//	A      the survivor whose index write-back is held by the node
//	HOW    die  = from its next index read on the node answers none of K's connections
//	              (heart-beats stop; the survivors drop K when its heartbeat is stale)
//	       exp  = die + K's instance document disappears (TTL expiry): the survivors'
//	              next round has the change
//	       none = control
//	ORDER  first = A's write-back is the first one to arrive (the index still lists K)
//	       last  = the other survivors have rewritten the index before A reads it
//	       free  = the other survivors run freely (HOW=die)
//	       all   = EVERY survivor's write-back is held (all of them hold a change)
//	       none  = control: D joins while no change is pending
//	JT     D's clusterJoinTime relative to the others: after | before | tie:S
//	       (before / tie: from D's registration on every index read finds D's entry
//	       rewritten to min-1 / to S's join time – the technique of mb-cb-tie; the real
//	       time.Now() cannot be moved, the numbering depends on the index entry only)
//
// 1. N real couchbase.NewCBMembership instances of this process join (registration
//    gate of l2_membership.go) and converge.  D is a CHILD PROCESS (the child of
//    l2_membership_pause.go: VERIF_CHILD=c10pause) connected to the parent's simulated
//    node, so that a fail-stop of D – the library panics "cant find self in cluster" in
//    its monitor goroutine – is the exit status of a process.
// 2. K dies.  The simulated node HOLDS the survivors' next index write-back named by
//    A / ORDER (request hook: MUTATE_IN set-doc with a CAS on the index key, on a
//    connection of that member) until
// 3. D has completed its registration (index entry AND instance document: the child
//    answered `registered`); then the held writes are released: each of them carries
//    the CAS of the index as it was before D's entry → CAS mismatch.
// 4. Everybody runs until quiet (bounded).  Observed: GetInfo() of every survivor,
//    D alive with its GetInfo() or its exit class, the index document's instance list,
//    the owners of 1024 vBuckets under the numbering in effect.
//
// Expected of the unchanged code: the CAS mismatch makes the member run the WHOLE
// round again (monitor() calls itself), it reads D's entry, and survivors + D hold the
// rank numbering of the live set; nobody fail-stops (Props/C10Join
// join_between_round_halves_admitted).  A retry that only refreshes the CAS and writes
// the list computed before again erases D (stale_rewrite_erases_joiner_refuted): the
// Lean driver answers with FAIL C10.joiner-failstop / C10.joiner-erased.
package main

import (
	"encoding/json"
	"fmt"
	"os"
	"sort"
	"strings"
	"sync"
	"sync/atomic"
	"time"

	"github.com/asaskevich/EventBus"
	"github.com/couchbase/gocbcore/v10/memd"

	"verifharness/sim"
)

const (
	cbjMaxHold  = 350 * time.Millisecond // a held member's heart-beats wait with it: well below the tolerance
	cbjReadWait = 300 * time.Millisecond // ORDER first / last: how long index reads are kept waiting
)

var cbjRetries atomic.Int64

type cbjCase struct {
	n, k, a    int
	how, order string
	jt         string
}

func (c cbjCase) op() string {
	k := "-"
	if c.k >= 0 {
		k = fmt.Sprint(c.k)
	}
	return fmt.Sprintf("mb-cb-joinwrite %d %s %d %s %s %s", c.n, k, c.a, c.how, c.order, c.jt)
}

func (c cbjCase) valid() bool {
	if c.n < 1 || c.n > 6 || c.a < 0 || c.a >= c.n {
		return false
	}
	switch {
	case c.jt == "after" || c.jt == "before":
	case strings.HasPrefix(c.jt, "tie:"):
		var s int
		if _, e := fmt.Sscanf(c.jt, "tie:%d", &s); e != nil || s < 0 || s >= c.n || s == c.k {
			return false
		}
	default:
		return false
	}
	if c.how == "none" || c.order == "none" || c.k < 0 {
		return c.how == "none" && c.order == "none" && c.k < 0
	}
	if c.n < 2 || c.k >= c.n || c.a == c.k {
		return false
	}
	switch c.how + "/" + c.order {
	case "exp/first", "exp/all", "die/free", "die/all":
		return true
	case "exp/last":
		return c.n >= 3
	}
	return false
}

// the hook state of one scenario
type cbjHold struct {
	sc       *cbScenario
	cs       cbjCase
	kKey     string
	mu       sync.Mutex
	armed    bool
	readArm  bool
	released bool
	holdSet  map[int]bool
	heldAt   map[int]time.Time
	kInIndex map[int]bool // did the index still list K when the member's write was held
	overrun  bool
	release  chan struct{}
	dKey     string // override: D's index entry is kept at dJT from the registration on
	dJT      int64
}

func (h *cbjHold) indexHas(key string) bool {
	d, ok := h.sc.node.KVGet(0, h.sc.indexKey)
	if !ok {
		return false
	}
	all := map[string]int64{}
	if json.Unmarshal(d.Body, &all) != nil {
		return false
	}
	_, in := all[key]
	return in
}

// every index read finds D's join time as the scenario wants it
func (h *cbjHold) applyOverride() {
	h.mu.Lock()
	key, jt := h.dKey, h.dJT
	h.mu.Unlock()
	if key == "" {
		return
	}
	d, ok := h.sc.node.KVGet(0, h.sc.indexKey)
	if !ok {
		return
	}
	all := map[string]int64{}
	if json.Unmarshal(d.Body, &all) != nil {
		return
	}
	if v, in := all[key]; !in || v == jt {
		return
	}
	all[key] = jt
	b, _ := json.Marshal(all)
	h.sc.node.KVPut(0, h.sc.indexKey, b, nil)
}

func (h *cbjHold) allHeld() bool {
	h.mu.Lock()
	defer h.mu.Unlock()
	for o := range h.holdSet {
		if _, ok := h.heldAt[o]; !ok {
			return false
		}
	}
	return true
}

func (h *cbjHold) hook(base func(sim.Request) sim.Action) func(sim.Request) sim.Action {
	return func(r sim.Request) sim.Action {
		if r.HTTP || r.Opcode == memd.CmdHello || string(r.Key) != h.sc.indexKey {
			return base(r)
		}
		h.sc.mu.Lock()
		o, ok := h.sc.connOwner[r.Conn]
		h.sc.mu.Unlock()
		if !ok {
			return base(r)
		}
		switch {
		case r.Opcode == memd.CmdGet:
			h.mu.Lock()
			wait := h.readArm && !h.released && o < h.cs.n && o != h.cs.k
			h.mu.Unlock()
			if wait {
				dl := time.Now().Add(cbjReadWait)
				for time.Now().Before(dl) {
					h.mu.Lock()
					_, aHeld := h.heldAt[h.cs.a]
					rel := h.released
					h.mu.Unlock()
					if rel {
						break
					}
					// first: the others read only after A's write-back has arrived
					if h.cs.order == "first" && (o == h.cs.a || aHeld) {
						break
					}
					// last: A reads only after somebody else has rewritten the index
					if h.cs.order == "last" && (o != h.cs.a || !h.indexHas(h.kKey)) {
						break
					}
					if h.cs.order != "first" && h.cs.order != "last" {
						break
					}
					time.Sleep(2 * time.Millisecond)
				}
			}
			h.applyOverride()
		case r.Opcode == memd.CmdSubDocMultiMutation && len(r.Value) > 0 &&
			memd.SubDocOpType(r.Value[0]) == memd.SubDocOpSetDoc && r.Cas != 0:
			// updateIndex(filtered, data.Cas): the write-back half of a monitor round
			h.mu.Lock()
			_, done := h.heldAt[o]
			hold := h.armed && !h.released && h.holdSet[o] && !done
			if hold {
				h.heldAt[o] = time.Now()
			}
			h.mu.Unlock()
			if hold {
				kin := h.indexHas(h.kKey)
				h.mu.Lock()
				h.kInIndex[o] = kin
				h.mu.Unlock()
				select {
				case <-h.release:
				case <-time.After(4 * cbjMaxHold):
					h.mu.Lock()
					h.overrun = true
					h.mu.Unlock()
				}
			}
		}
		return base(r)
	}
}

func cbjIndex(sc *cbScenario) map[string]int64 {
	all := map[string]int64{}
	if d, ok := sc.node.KVGet(0, sc.indexKey); ok {
		_ = json.Unmarshal(d.Body, &all)
	}
	return all
}

// cbjRun: the observation, tags, and whether the outcome is unsettled (a set-up
// step timed out, the interleaving asked for was not obtained: run again)
func cbjRun(group string, cs cbjCase) (obs string, tags []string, unsettled bool) {
	if !cs.valid() {
		return "bad-scenario", nil, false
	}
	sc, err := newCbScenario(group)
	if err != nil {
		return "sim-error", nil, true
	}
	defer sc.close()
	h := &cbjHold{sc: sc, cs: cs, holdSet: map[int]bool{}, heldAt: map[int]time.Time{}, kInIndex: map[int]bool{}, release: make(chan struct{})}
	sc.node.OnRequest(h.hook(sc.hook))
	var child *cbpChild
	defer func() {
		if child != nil {
			child.kill()
		}
	}()
	// 1. the N members of this process
	for i := 0; i < cs.n; i++ {
		if e := sc.join(); e != "" {
			return "setup-failed " + e, nil, true
		}
	}
	want := ""
	for i := 1; i <= cs.n; i++ {
		want += fmt.Sprintf("%d/%d ", i, cs.n)
	}
	want += fmt.Sprintf("idx=%d", cs.n)
	if got := sc.quiesce(); got != want {
		return "setup-failed no-convergence " + got, nil, true
	}
	keys := make([]string, cs.n)
	for i := range keys {
		if keys[i] = sc.instKey(i); keys[i] == "" {
			return "setup-failed no-key", nil, true
		}
	}
	// D's process: connected, not yet registered
	d := cs.n
	sc.mu.Lock()
	sc.joining = d
	sc.mu.Unlock()
	child, err = cbpStartChild(sc.node.HTTPAddr(), sc.cfg.BucketName, group)
	ok := err == nil && child.expect("connected", 20*time.Second) != ""
	sc.mu.Lock()
	sc.joining = -1
	sc.mu.Unlock()
	if !ok {
		return "setup-failed child-connect", nil, true
	}
	sc.insts = append(sc.insts, &cbInst{idx: d, bus: EventBus.New(), rec: &mbEvents{}, last: time.Now(), state: 2})
	var survivors []int
	for i := 0; i < cs.n; i++ {
		if i != cs.k {
			survivors = append(survivors, i)
		}
	}
	waitFor := func(dur time.Duration, f func() bool) bool {
		dl := time.Now().Add(dur)
		for !f() {
			if time.Now().After(dl) {
				return false
			}
			time.Sleep(2 * time.Millisecond)
		}
		return true
	}
	// 2. K dies; the write-backs named by A / ORDER are held
	if cs.k >= 0 {
		h.mu.Lock()
		h.kKey = keys[cs.k]
		if cs.order == "all" {
			for _, s := range survivors {
				h.holdSet[s] = true
			}
		} else {
			h.holdSet[cs.a] = true
		}
		h.armed = true
		h.mu.Unlock()
		if e := sc.kill(cs.k, cs.how); e != "" {
			return "setup-failed " + e, nil, true
		}
		h.mu.Lock()
		h.readArm = true
		h.mu.Unlock()
		limit := 1500 * time.Millisecond
		if cs.how == "die" {
			limit = cbHeartbeat + cbTolerance + 2*time.Second
		}
		if !waitFor(limit, h.allHeld) {
			h.mu.Lock()
			h.released = true
			h.mu.Unlock()
			close(h.release)
			return "setup-failed not-held", nil, true
		}
	}
	// 3. D registers completely while the write-backs wait
	before := cbjIndex(sc)
	sc.gate.Lock()
	child.send("register")
	ok = child.expect("registered", 3*time.Second) != ""
	dKey := ""
	if ok {
		after := cbjIndex(sc)
		for k := range after {
			if _, old := before[k]; !old {
				dKey = k
			}
		}
		if dKey != "" && cs.jt != "after" {
			jt := int64(0)
			if cs.jt == "before" {
				first := true
				for k, v := range after {
					if k != dKey && (first || v < jt) {
						jt, first = v, false
					}
				}
				jt--
			} else {
				var s int
				fmt.Sscanf(cs.jt, "tie:%d", &s)
				jt = after[keys[s]]
			}
			h.mu.Lock()
			h.dKey, h.dJT = dKey, jt
			h.mu.Unlock()
			h.applyOverride()
		}
	}
	sc.gate.Unlock()
	h.mu.Lock()
	h.released = true
	var longest time.Duration
	for _, t := range h.heldAt {
		if dd := time.Since(t); dd > longest {
			longest = dd
		}
	}
	overrun := h.overrun
	kIn := map[int]bool{}
	for o, v := range h.kInIndex {
		kIn[o] = v
	}
	h.mu.Unlock()
	close(h.release)
	tRel := time.Now()
	if !ok || dKey == "" {
		return "setup-failed child-register", nil, true
	}
	if overrun || longest > cbjMaxHold {
		return "setup-failed hold-overrun", nil, true // the machine stalled: the held member may have looked dead
	}
	switch cs.order {
	case "first":
		if !kIn[cs.a] {
			return "setup-failed order-miss", nil, true
		}
	case "last":
		if kIn[cs.a] {
			return "setup-failed order-miss", nil, true
		}
	}
	// 4. until quiet: no event of anybody for 6 rounds, at least 12 rounds after the release
	lastEv := func() time.Time {
		t := sc.lastEvent()
		child.mu.Lock()
		if child.lastEv.After(t) {
			t = child.lastEv
		}
		child.mu.Unlock()
		return t
	}
	quiet := false
	for dl := time.Now().Add(10 * time.Second); time.Now().Before(dl); time.Sleep(10 * time.Millisecond) {
		now := time.Now()
		if now.Sub(tRel) >= 12*cbMonitor && now.Sub(lastEv()) >= 6*cbMonitor {
			quiet = true
			break
		}
	}
	if !quiet {
		return "no-quiescence", nil, true
	}
	var infos, live []string
	for i := 0; i < cs.n; i++ {
		if i == cs.k {
			infos = append(infos, "-/-")
			continue
		}
		sc.insts[i].bus.WaitAsync()
		s := cbInfo(sc.insts[i].m)
		infos = append(infos, s)
		live = append(live, s)
	}
	ds := ""
	if child.hasExited() {
		ds = child.exitClass()
		tags = append(tags, "d-failstop")
	} else {
		child.send("info")
		ln := child.expect("info ", 4*time.Second)
		if ln == "" {
			if child.waitExit(500 * time.Millisecond) {
				ds = child.exitClass()
				tags = append(tags, "d-failstop")
			} else {
				return "setup-failed child-mute", nil, true
			}
		} else {
			di := strings.TrimPrefix(ln, "info ")
			ds = "alive " + di
			live = append(live, di)
			tags = append(tags, "d-alive")
		}
	}
	idx := cbjIndex(sc)
	dIn, kOut := "out", "-"
	if _, in := idx[dKey]; in {
		dIn = "in"
	}
	if cs.k >= 0 {
		kOut = "out"
		if _, in := idx[keys[cs.k]]; in {
			kOut = "in"
		}
	}
	mism := 0
	for _, w := range sc.node.KVWrites() {
		if w.Key == sc.indexKey && w.Cas != 0 && w.Status == memd.StatusKeyExists {
			mism++
		}
	}
	if cs.k >= 0 && mism == 0 {
		return "setup-failed no-cas-mismatch", nil, true
	}
	if mism > 0 {
		tags = append(tags, "cas-mismatch-on-write-back")
	}
	if strings.Contains(strings.Join(infos, " ")+ds, "blocked") {
		unsettled = true
	}
	if !child.hasExited() {
		child.send("quit")
		child.waitExit(2 * time.Second)
	}
	obs = fmt.Sprintf("members: %s | D: %s | index: n=%d D=%s K=%s | %s", strings.Join(infos, " "), ds, len(idx), dIn, kOut, cbpOwners(live))
	if strings.HasPrefix(cs.jt, "tie:") {
		var s int
		fmt.Sscanf(cs.jt, "tie:%d", &s)
		rel := ">"
		if dKey < keys[s] {
			rel = "<"
		}
		obs += " | tie: D" + rel + "S"
	}
	return obs, tags, unsettled
}

// ---------------------------------------------------------------- cases

func cbjGen(r *Rng, maxN int) cbjCase {
	for {
		c := cbjCase{n: r.Range(2, maxN)}
		c.k = r.Intn(c.n)
		c.a = r.Intn(c.n)
		c.how = r.Pick("exp", "exp", "die")
		if c.how == "exp" {
			c.order = r.Pick("first", "last", "all")
		} else {
			c.order = r.Pick("free", "all")
		}
		switch r.Intn(3) {
		case 0:
			c.jt = "after"
		case 1:
			c.jt = "before"
		default:
			c.jt = fmt.Sprintf("tie:%d", r.Intn(c.n))
		}
		if c.valid() {
			return c
		}
	}
}

func cbjCases(c *Ctx) []cbjCase {
	cases := []cbjCase{
		{2, 1, 0, "exp", "first", "after"},  // rolling replacement of one of two pods: the shape of the demonstration
		{3, 0, 2, "exp", "last", "before"},  // the oldest dies, the youngest writes last, D's clock is behind
		{3, 1, 0, "die", "all", "after"},    // stale heart-beat; two survivors both hold a change
		{4, 2, 3, "exp", "first", "tie:0"},  // D's join time equals the oldest member's
		{3, -1, 0, "none", "none", "after"}, // control: nobody holds a change when D joins
	}
	if c.Thorough() {
		for n := 2; n <= 4; n++ {
			for k := 0; k < n; k++ {
				for a := 0; a < n; a++ {
					cs := cbjCase{n: n, k: k, a: a, how: "exp", order: "first", jt: "after"}
					if (k+a)%2 == 1 {
						cs.how, cs.order = "die", "free"
					}
					if cs.valid() {
						cases = append(cases, cs)
					}
				}
			}
		}
		cases = append(cases, cbjCase{5, 2, 4, "exp", "all", "before"}, cbjCase{5, 0, 1, "exp", "last", "tie:3"},
			cbjCase{1, -1, 0, "none", "none", "before"}, cbjCase{2, -1, 1, "none", "none", "tie:0"})
	}
	for i := 0; i < c.N(1, 12); i++ {
		cases = append(cases, cbjGen(c.R, c.N(4, 5)))
	}
	return cases
}

func cbjReplayOps(path string) (cases []cbjCase) {
	b, err := os.ReadFile(path)
	if err != nil {
		panic(err)
	}
	for _, ln := range strings.Split(string(b), "\n") {
		f := strings.Fields(strings.SplitN(ln, "\t", 2)[0])
		if len(f) != 7 || f[0] != "mb-cb-joinwrite" {
			continue
		}
		c := cbjCase{k: -1, how: f[4], order: f[5], jt: f[6]}
		if _, e := fmt.Sscanf(f[1], "%d", &c.n); e != nil {
			continue
		}
		if f[2] != "-" {
			if _, e := fmt.Sscanf(f[2], "%d", &c.k); e != nil {
				continue
			}
		}
		if _, e := fmt.Sscanf(f[3], "%d", &c.a); e != nil {
			continue
		}
		if c.valid() {
			cases = append(cases, c)
		}
	}
	return
}

type cbjResult struct {
	obs  string
	tags []string
}

// cbjRunAll starts the scenarios under the stream's semaphore; emit() writes the lines
func cbjRunAll(cases []cbjCase, sem chan struct{}, wg *sync.WaitGroup) []cbjResult {
	res := make([]cbjResult, len(cases))
	for i := range cases {
		wg.Add(1)
		go func(i int) {
			defer wg.Done()
			sem <- struct{}{}
			defer func() { <-sem }()
			o, t, u := cbjRun(fmt.Sprintf("j%d", i), cases[i])
			// real time: a set-up step that timed out / an interleaving that was not obtained is not an outcome
			for a := 0; a < 3 && u; a++ {
				cbjRetries.Add(1)
				o, t, u = cbjRun(fmt.Sprintf("j%dr%d", i, a), cases[i])
			}
			res[i] = cbjResult{o, t}
		}(i)
	}
	return res
}

func cbjEmit(c *Ctx, cases []cbjCase, res []cbjResult) {
	for i, cs := range cases {
		c.E.Line(cs.op(), res[i].obs)
		tags := []string{"joinwrite", "joinwrite-how=" + cs.how, "joinwrite-order=" + cs.order, "joinwrite-jt=" + strings.SplitN(cs.jt, ":", 2)[0]}
		for _, t := range res[i].tags {
			tags = append(tags, "joinwrite-"+t)
		}
		sort.Strings(tags)
		c.E.EndCase(true, tags...)
	}
	c.Extra["joinwrite_retries"] = cbjRetries.Load()
}
