package main

// Stream "life-dcp": the life-cycle op language of Model/Life.lean (driver commands `lf-*`,
// DESIGN.md §7 C11, C13) driven through the REAL top-level object: dcp.NewDcp + Start() +
// Close() + Commit() of /repo/dcp.go against a simulated Couchbase node (harness/sim), one
// node + one dcp per case.  Where the L1 stream (l1_life.go) calls stream.Rebalance() /
// stream.Close() itself, here
//
//   lf-member LO HI    the (memberNumber,totalMembers) whose ChunkSlice chunk of the 8 vBuckets is LO..HI;
//                      carried by the next bus event (the first one is published right after Start() was launched)
//   lf-store VB SEQ    checkpoint document of VB put into the node's KV store (xattr "cbgo")
//   lf-open            go d.Start(); wait for the discovery's bus subscription; publish the first membership;
//                      wait for WaitUntilReady
//   lf-notify          bus.Publish("membershipChanged", &membership.Model{..}) on the dcp's OWN bus (private field,
//                      read with reflect+unsafe): reaches dcp.membershipChangedListener exactly as the real
//                      membership implementations do; bus.WaitAsync() tells when the handler returned;
//                      nothing logged by then => `absorbed`
//   lf-tick D          real time on the 200 ms grid of l1_life.go (delay 250 ms: deadlines 50 ms off the grid)
//   lf-ev VB           node pushes marker [q,q] + mutation q; the op waits for the delivery itself
//   lf-end VB CAUSE    node pushes STREAM_END with a status gocbcore maps to CAUSE; fenced by a sentinel on another
//                      open stream of the same connection (or by Start() returning when it was the last stream)
//   lf-save            d.Commit()
//   lf-shutdown C      d.Close() (SIGTERM into cancelCh; C is not observable), wait <= 3 s for Start() to return
//   lf-query           open= / reb= from the private stream field (read-only: IsOpen, GetMetric),
//                      active= number of streams open AT THE NODE, stop= Start() has returned
//
// Observations are rendered exactly like l1_life.go does (callbacks in order, runs of openreq / closereq /
// written sorted by vBucket), but every token comes from outside the stream object: callbacks from
// d.SetEventHandler, openreq / closereq from the node's request hook (DCP_STREAM_REQ start seqno,
// DCP_CLOSE_STREAM), written from the checkpoint documents the node holds after a MUTATE_IN on a checkpoint
// key, deliver from the listener given to NewDcp.
//
// `stop` (the model's "stopCh closed") is mapped to "Start() returned in this op".  When the stream stops
// on its own (last stream ended) the real dcp runs close() at once; the model does that in the next
// `lf-shutdown` op ("once stopCh is closed dcp.Start only runs close()"): the harness holds the tokens of
// that automatic close back (from the first `written`/BSP of it) and reports them at the next lf-shutdown,
// which every generated case has.  After Start() returned any callback / delivery / request shows up as a
// token in a later op (`late-req:0xNN` for requests) where the model prints nothing.
//
// F4 (Close inside the rebalance window) panics inside dcp.close on the goroutine that runs Start(): that is
// the harness's own goroutine, it recovers there and reports `failstop:nil-observers`.
//
// Not generated (see genLifeDcp): lf-notify-close / lf-notify-api (the transactional bus subscription serialises
// handler calls; the API is off), events and ends on a vBucket whose stream already ended (the model has no
// per-vBucket end state, the node has no stream), lf-query where the model's `active` went below the number of
// streams the node holds (ended streams followed by a close), and - with `dynamic` membership after a rebalance -
// stream ends that count.  The last restriction and the two answer delays of onRequest exist because the token
// protocol of stream.wait() is racy on the real code once END events are asynchronous (DESIGN.md §6 F9b, seen here
// on the unchanged tree: stale streamFinishedWithCloseCh => no stop at the last stream end; spurious stop right
// after a reopen; `close of closed channel` in stream.wait).  The Life model assumes a prompt wait() (WaitPrompt).

import (
	"encoding/binary"
	"encoding/json"
	"fmt"
	"hash/fnv"
	"os"
	"reflect"
	"sort"
	"strconv"
	"strings"
	"sync"
	"time"
	"unsafe"

	dcp "github.com/Trendyol/go-dcp"
	"github.com/Trendyol/go-dcp/helpers"
	"github.com/Trendyol/go-dcp/membership"
	"github.com/Trendyol/go-dcp/models"
	"github.com/Trendyol/go-dcp/stream"
	"github.com/asaskevich/EventBus"
	"github.com/couchbase/gocbcore/v10/memd"

	"verifharness/sim"
)

func init() { props["life-dcp"] = runLifeDcp }

const ldNumVb = 8 // every generated range is a ChunkSlice chunk for totalMembers in {1,2,4,8}
const ldDynLoadDelay = 8 * time.Millisecond

// VERIF_LD_NODELAY=1 switches the two `dynamic`-only answer delays off (to reproduce the F9b races, see onRequest)
var ldNoDelay = os.Getenv("VERIF_LD_NODELAY") != ""

type ldEnv struct {
	node          *sim.Node
	d             dcp.Dcp
	bus           EventBus.Bus
	buf           *obuf
	eh            *fakeEH
	ft            *sim.FenceTracker
	group         string
	auto, dyn, hc bool

	mu       sync.Mutex
	next     map[uint16]uint64 // server side: the seqno the node sends next (start of the last DCP_STREAM_REQ + 1)
	returned bool              // Start() returned or panicked
	crashed  bool

	memNum, memTot int
	started        bool
	done           chan struct{}
	stopShown      bool
	deferred       []string // tokens of an automatic close(), reported at the next lf-shutdown
	start          time.Time
	now            int
}

// private field of the struct behind the dcp.Dcp interface (read access for test purposes; no hook in /repo)
func ldPrivate(d dcp.Dcp, name string) (v reflect.Value, ok bool) {
	defer func() {
		if recover() != nil {
			ok = false
		}
	}()
	f := reflect.ValueOf(d).Elem().FieldByName(name)
	if !f.IsValid() {
		return reflect.Value{}, false
	}
	return reflect.NewAt(f.Type(), unsafe.Pointer(f.UnsafeAddr())).Elem(), true
}

func newLdEnv(dyn, auto, hc bool) (*ldEnv, error) {
	e := &ldEnv{buf: &obuf{}, eh: &fakeEH{}, ft: sim.NewFenceTracker(), group: "life", auto: auto, dyn: dyn, hc: hc,
		next: map[uint16]uint64{}, done: make(chan struct{}), memNum: 1, memTot: 1}
	e.node = sim.New(sim.Options{NumVb: ldNumVb})
	if err := e.node.Start(); err != nil {
		return nil, err
	}
	for vb := 0; vb < ldNumVb; vb++ {
		e.node.SetHighSeqno(uint16(vb), 1<<40)
	}
	e.node.OnRequest(e.onRequest)
	cfg := e.node.Config(e.group, "couchbase")
	// the discovery is built for type `dynamic` (it learns the assignment from the same bus event the dcp listens to);
	// lf-open flips the type to `couchbase` afterwards when the case wants the delayed reopen (stream.Rebalance reads it at every call)
	cfg.Dcp.Group.Membership.Type = membership.DynamicMembershipType
	cfg.Dcp.Group.Membership.RebalanceDelay = lifeDelay * time.Millisecond
	if auto {
		cfg.Checkpoint.Type = "auto"
		cfg.Checkpoint.Interval = time.Hour
	} else {
		cfg.Checkpoint.Type = "manual"
	}
	if hc {
		cfg.HealthCheck.Disabled = false
		cfg.HealthCheck.Interval = 120 * time.Millisecond
		cfg.HealthCheck.Timeout = 2 * time.Second
	}
	e.eh.hook = func(s string) { e.buf.add(s) }
	d, err := dcp.NewDcp(cfg, e.listen)
	if err != nil {
		e.node.Close()
		return nil, err
	}
	e.d = d
	d.SetEventHandler(e.eh)
	bv, ok := ldPrivate(d, "bus")
	if !ok {
		return nil, fmt.Errorf("dcp has no bus field")
	}
	e.bus, ok = bv.Interface().(EventBus.Bus)
	if !ok || e.bus == nil {
		return nil, fmt.Errorf("dcp.bus is not an EventBus.Bus")
	}
	return e, nil
}

func (e *ldEnv) stream() stream.Stream {
	v, ok := ldPrivate(e.d, "stream")
	if !ok || v.IsNil() {
		return nil
	}
	s, _ := v.Interface().(stream.Stream)
	return s
}

// the consumer: acknowledges at once; sentinels of the fence are swallowed WITHOUT acknowledgement (no position moves)
func (e *ldEnv) listen(ctx *models.ListenerContext) {
	if tok, ok := sim.SentinelToken(ctx.Event); ok {
		e.ft.Seen(tok)
		return
	}
	ctx.Ack()
	if m, ok := ctx.Event.(models.DcpMutation); ok {
		e.buf.add(fmt.Sprintf("deliver %d %d", m.VbID, m.SeqNo))
	}
}

func (e *ldEnv) isReturned() bool {
	e.mu.Lock()
	defer e.mu.Unlock()
	return e.returned
}

func (e *ldEnv) ckVb(key string) (int, bool) {
	p := helpers.Prefix + e.group + ":checkpoint:"
	if !strings.HasPrefix(key, p) {
		return 0, false
	}
	vb, err := strconv.Atoi(key[len(p):])
	return vb, err == nil
}

// runs on the node's connection reader goroutines, BEFORE the request is answered
func (e *ldEnv) onRequest(r sim.Request) sim.Action {
	if r.HTTP {
		return sim.Default()
	}
	if e.isReturned() {
		e.buf.add(fmt.Sprintf("late-req:0x%02x", uint8(r.Opcode)))
		return sim.Default()
	}
	switch r.Opcode {
	case memd.CmdGetAllVBSeqnos:
		if e.dyn && !ldNoDelay {
			// checkpoint.Load of every Open: a round trip of realistic length.  With `dynamic` the reopen follows the close at
			// once; on loopback it finishes within ~0.3 ms, and the wait() goroutine of the CLOSED session (woken by Close's
			// token) then loses the race against `balancing = false` often enough to be seen (DESIGN.md §6 F9b(i), reproduced
			// on the unchanged tree: spurious stop, then `close of closed channel` in stream.wait, which kills the process)
			return sim.Delay(ldDynLoadDelay)
		}
	case memd.CmdDcpStreamReq:
		if len(r.Extras) >= 48 {
			q := binary.BigEndian.Uint64(r.Extras[8:])
			e.mu.Lock()
			e.next[r.Vb] = q + 1
			e.mu.Unlock()
			e.buf.add(fmt.Sprintf("openreq %d %d", r.Vb, q))
		}
	case memd.CmdDcpCloseStream:
		e.buf.add(fmt.Sprintf("closereq %d", r.Vb))
		if e.dyn && !ldNoDelay {
			// the discovery's own (asynchronous) bus handler must have stored the new assignment before the reopen reads it:
			// with a loopback close of ~0.2 ms it sometimes has not
			return sim.Delay(ldDynLoadDelay / 2)
		}
	case memd.CmdSubDocMultiMutation:
		if vb, ok := e.ckVb(string(r.Key)); ok {
			e.buf.add(fmt.Sprintf("kvw %d", vb))
		}
	}
	return sim.Default()
}

// what a restart would load for vb: the seqno of the checkpoint document the node holds
func (e *ldEnv) storedSeq(vb int) (uint64, bool) {
	doc, ok := e.node.KVGet(0, helpers.Prefix+e.group+":checkpoint:"+strconv.Itoa(vb))
	if !ok {
		return 0, false
	}
	var cd models.CheckpointDocument
	if err := json.Unmarshal(doc.Xattrs[helpers.Name], &cd); err != nil || cd.Checkpoint == nil {
		return 0, false
	}
	return cd.Checkpoint.SeqNo, true
}

// canonical tokens of what was logged since the last call (conventions of lifeEnv.render)
func (e *ldEnv) collect() []string {
	raw := e.buf.drain()
	var out, run []string
	runKind := ""
	flush := func() {
		sort.SliceStable(run, func(i, j int) bool {
			a, _ := strconv.Atoi(strings.Fields(run[i])[1])
			b, _ := strconv.Atoi(strings.Fields(run[j])[1])
			return a < b
		})
		last := ""
		for _, s := range run {
			if runKind == "kvw" {
				// MUTATE_IN, (ADD, MUTATE_IN) for a fresh document: one `written` per vBucket of the run
				f := strings.Fields(s)
				if f[1] == last {
					continue
				}
				last = f[1]
				vb, _ := strconv.Atoi(f[1])
				if q, ok := e.storedSeq(vb); ok {
					out = append(out, fmt.Sprintf("written %d %d", vb, q))
				} else {
					out = append(out, fmt.Sprintf("written %d lost", vb))
				}
				continue
			}
			out = append(out, s)
		}
		run, runKind = nil, ""
	}
	for _, s := range raw {
		k := strings.Fields(s)[0]
		switch k {
		case "openreq", "closereq", "kvw":
			if runKind != k {
				flush()
				runKind = k
			}
			run = append(run, s)
		default:
			flush()
			out = append(out, s)
		}
	}
	flush()
	return out
}

func (e *ldEnv) peek() []string {
	e.buf.mu.Lock()
	defer e.buf.mu.Unlock()
	return append([]string{}, e.buf.l...)
}

func (e *ldEnv) waitTok(pred func(string) bool, limit time.Duration) bool {
	dl := time.Now().Add(limit)
	for {
		for _, s := range e.peek() {
			if pred(s) {
				return true
			}
		}
		if time.Now().After(dl) {
			return false
		}
		time.Sleep(300 * time.Microsecond)
	}
}

func (e *ldEnv) waitDone(limit time.Duration) bool {
	select {
	case <-e.done:
		return true
	case <-time.After(limit):
		return false
	}
}

func (e *ldEnv) cbCount() int {
	e.eh.mu.Lock()
	defer e.eh.mu.Unlock()
	return len(e.eh.log)
}

// as lifeEnv.quiesce: wait while a close / reopen bracket is in progress, at most 1 s (a reopen is ~10 round trips)
func (e *ldEnv) quiesce() {
	stable := 0
	for i := 0; i < 500; i++ {
		e.eh.mu.Lock()
		last := ""
		if n := len(e.eh.log); n > 0 {
			last = e.eh.log[n-1]
		}
		e.eh.mu.Unlock()
		switch last {
		case "BRS", "BSP", "BRE", "BSS":
			stable = 0
		default:
			stable++
		}
		if stable >= 3 {
			return
		}
		time.Sleep(2 * time.Millisecond)
	}
}

func (e *ldEnv) settle() {
	if e.dyn {
		time.Sleep(10 * time.Millisecond) // AfterFunc(0, rebalance) runs in its own goroutine
	}
	e.quiesce()
}

func (e *ldEnv) publish() {
	e.bus.Publish(helpers.MembershipChangedBusEventName, &membership.Model{MemberNumber: e.memNum, TotalMembers: e.memTot})
}

func (e *ldEnv) sleepUntilModel(t int) {
	if d := time.Until(e.start.Add(time.Duration(t+lifeOff) * time.Millisecond)); d > 0 {
		time.Sleep(d)
	}
}

// STREAM_END statuses as gocbcore maps them (error_dcp.go): transient for go-dcp = state-changed, disconnected,
// too-slow, backfill-failed (ErrSocketClosed has no status); final = filter-empty or an unknown status
var ldTransient = []memd.StreamEndStatus{memd.StreamEndStateChanged, memd.StreamEndDisconnected, memd.StreamEndTooSlow, memd.StreamEndBackfillFailed}
var ldFinal = []memd.StreamEndStatus{memd.StreamEndFilterEmpty, memd.StreamEndStatus(0x2a)}

func (e *ldEnv) exec(line string, salt int) string {
	t := strings.Fields(line)
	var toks []string
	switch t[0] {
	case "lf-member":
		lo, _ := strconv.Atoi(t[1])
		hi, _ := strconv.Atoi(t[2])
		size := hi - lo + 1
		if size <= 0 || ldNumVb%size != 0 || lo%size != 0 || hi >= ldNumVb {
			return "bad-op"
		}
		e.memTot, e.memNum = ldNumVb/size, lo/size+1
		return "-"
	case "lf-store":
		vb, _ := strconv.Atoi(t[1])
		q := u64(t[2])
		b, _ := json.Marshal(&models.CheckpointDocument{Checkpoint: &models.CheckpointDocumentCheckpoint{VbUUID: 1, SeqNo: q,
			Snapshot: &models.CheckpointDocumentSnapshot{StartSeqNo: q, EndSeqNo: q}}, BucketUUID: "simbucketuuid"})
		e.node.KVPut(0, helpers.Prefix+e.group+":checkpoint:"+strconv.Itoa(vb), []byte("{}"), map[string][]byte{helpers.Name: b})
		return "-"
	case "lf-open":
		if e.started {
			return "bad-op"
		}
		e.started = true
		go func() {
			defer func() {
				r := recover()
				e.mu.Lock()
				if r != nil {
					e.crashed = true
					e.buf.add("failstop:" + classifyPanic(r))
				}
				e.returned = true
				e.mu.Unlock()
				close(e.done)
			}()
			e.d.Start()
		}()
		for i := 0; i < 10000 && !e.bus.HasCallback(helpers.MembershipChangedBusEventName) && !e.isReturned(); i++ {
			time.Sleep(500 * time.Microsecond)
		}
		if !e.dyn {
			e.d.GetConfig().Dcp.Group.Membership.Type = membership.CouchbaseMembershipType
		}
		e.publish()
		select {
		case <-e.d.WaitUntilReady():
		case <-e.done:
		case <-time.After(15 * time.Second):
			e.buf.add("not-ready")
		}
		// the grid starts here: booting took real time the model does not know about
		e.start = time.Now().Add(-time.Duration(e.now+lifeOff) * time.Millisecond)
	case "lf-notify":
		before := e.cbCount()
		e.publish()
		ch := make(chan struct{})
		go func() { e.bus.WaitAsync(); close(ch) }()
		select {
		case <-ch:
			if e.cbCount() == before {
				e.buf.add("absorbed")
			}
		case <-time.After(time.Second):
			e.buf.add("queued")
		}
		e.settle()
	case "lf-tick":
		d, _ := strconv.Atoi(t[1])
		e.now += d
		e.sleepUntilModel(e.now)
		e.quiesce()
	case "lf-ev":
		vb := uint16(u64(t[1]))
		e.mu.Lock()
		q, ok := e.next[vb]
		e.mu.Unlock()
		if !ok || e.node.PushSnapshot(vb, q, q, 1) != nil {
			break // no stream at the node
		}
		if e.node.PushMutation(vb, q, 1, 0, 0, 1700000000000000000, 0, []byte("k"), []byte("v"), 0) != nil {
			break
		}
		e.mu.Lock()
		e.next[vb] = q + 1
		e.mu.Unlock()
		want := fmt.Sprintf("deliver %d %d", vb, q)
		e.waitTok(func(s string) bool { return s == want }, time.Second)
	case "lf-end":
		vb := uint16(u64(t[1]))
		var st memd.StreamEndStatus
		switch t[2] {
		case "transient":
			st = ldTransient[salt%len(ldTransient)]
		case "closed":
			st = memd.StreamEndClosed
		case "final":
			st = ldFinal[salt%len(ldFinal)]
		case "clean":
			st = memd.StreamEndOK
		default:
			return "bad-op"
		}
		if e.node.PushStreamEnd(vb, st) != nil {
			break // no stream at the node
		}
		if t[2] == "transient" {
			pre := fmt.Sprintf("openreq %d ", vb)
			e.waitTok(func(s string) bool { return strings.HasPrefix(s, pre) }, time.Second)
			time.Sleep(2 * time.Millisecond) // the answer of the node reaches reopenStream
		} else if open := e.node.OpenStreams(); len(open) > 0 {
			e.node.FenceAndWait(open[0], e.ft, time.Second) // same connection, same queue: the end was processed
			// if it was the last ACTIVE stream (others ended before and were re-requested): the automatic close starts at once
			if e.waitTok(func(s string) bool { return s == "BSP" || strings.HasPrefix(s, "kvw") }, 3*time.Millisecond) {
				e.waitDone(3 * time.Second)
			}
		} else {
			// the last stream ended: wait() closes stopCh, Start() runs close() and returns
			e.waitDone(1500 * time.Millisecond)
		}
	case "lf-save":
		e.d.Commit()
	case "lf-shutdown":
		if !e.isReturned() {
			e.d.Close()
			if !e.waitDone(3 * time.Second) {
				e.buf.add("timeout")
			}
		}
	case "lf-query":
		op, reb := 0, 0
		if s := e.stream(); s != nil {
			if s.IsOpen() {
				op = 1
			}
			m, _ := s.GetMetric()
			reb = m.Rebalance
		}
		e.mu.Lock()
		st := b2i(e.returned && !e.crashed)
		e.mu.Unlock()
		e.buf.add(fmt.Sprintf("open=%d active=%d reb=%d stop=%d", op, len(e.node.OpenStreams()), reb, st))
	default:
		return "bad-op"
	}
	toks = e.collect()
	if t[0] == "lf-shutdown" && len(e.deferred) > 0 {
		toks = append(e.deferred, toks...)
		e.deferred = nil
	}
	e.mu.Lock()
	ret, crashed := e.returned, e.crashed
	e.mu.Unlock()
	if ret && !e.stopShown {
		e.stopShown = true
		if !crashed {
			if t[0] != "lf-shutdown" {
				// the stream stopped on its own and dcp.Start ran close(): its tokens belong to the model's next lf-shutdown
				cut := -1
				for i, s := range toks {
					if s == "BSP" {
						cut = i
					}
				}
				for cut > 0 && strings.HasPrefix(toks[cut-1], "written ") {
					cut--
				}
				if cut >= 0 {
					e.deferred = append([]string{}, toks[cut:]...)
					toks = toks[:cut]
				}
			}
			// canonical place of `stop`: end of the op (as Driver/Life.lean showLObss); a status line comes after it in lf-query
			if n := len(toks); n > 0 && strings.HasPrefix(toks[n-1], "open=") {
				toks = append(toks[:n-1], "stop", toks[n-1])
			} else {
				toks = append(toks, "stop")
			}
		}
	}
	return joinObs(toks)
}

// tear down whatever state the case is in; never part of an observation
func (e *ldEnv) close() {
	defer func() { _ = recover() }()
	clean := true
	switch {
	case !e.started:
		e.d.GetClient().DcpClose()
		e.d.GetClient().Close()
	case !e.isReturned():
		e.d.Close()
		clean = e.waitDone(3 * time.Second)
	default:
		e.mu.Lock()
		crashed := e.crashed
		e.mu.Unlock()
		if crashed {
			// F4: close() was abandoned after closeWithCancel was set; the armed timer still reopens the stream
			for i := 0; i < 400; i++ {
				e.eh.mu.Lock()
				n := len(e.eh.log)
				last := ""
				if n > 0 {
					last = e.eh.log[n-1]
				}
				e.eh.mu.Unlock()
				if last == "ARE" {
					break
				}
				time.Sleep(2 * time.Millisecond)
			}
			func() {
				defer func() { _ = recover() }()
				e.d.GetClient().DcpClose()
				e.d.GetClient().Close()
			}()
		}
	}
	if clean {
		e.node.Close()
	} // else: a dcp that did not stop keeps its node (a vanished node makes the health check / reopen loops panic)
}

// ---- generation: the op language of genLife restricted to what the bus path can produce, with an exact
// mirror of the window (so that events / ends / queries are only placed where L2 can observe them)

func genLifeDcp(r *Rng) lifeCase {
	var lc lifeCase
	dyn := r.Chance(15)
	auto := r.Chance(55)
	kind := r.Pick("reb", "reb", "shut", "end")
	lc.reset = fmt.Sprintf("lf-reset %d %d %d", lifeDelay, b2i(dyn), b2i(auto))
	tag := map[string]bool{"kind." + kind: true}
	if dyn {
		tag["dynamic"] = true
	}
	if auto {
		tag["auto"] = true
	}
	add := func(s string) { lc.ops = append(lc.ops, s) }
	pickRange := func() (int, int) {
		tot := []int{1, 2, 2, 4, 4, 8}[r.Intn(6)]
		size := ldNumVb / tot
		m := r.Intn(tot)
		return m * size, m*size + size - 1
	}
	memLo, memHi := pickRange()
	add(fmt.Sprintf("lf-member %d %d", memLo, memHi))
	for vb := 0; vb < ldNumVb; vb++ {
		if r.Chance(35) {
			add(fmt.Sprintf("lf-store %d %d", vb, 1+r.Intn(50)))
		}
	}
	add("lf-open")
	// mirror of the model for this op subset
	sessLo, sessHi := memLo, memHi
	ended := map[int]bool{}
	unsaved := map[int]bool{}
	now, deadline := 0, 0
	inWindow, stopped, selfStopped, dead, shut := false, false, false, false, false
	cycles := 0
	reopen := func() {
		sessLo, sessHi, ended, unsaved, inWindow = memLo, memHi, map[int]bool{}, map[int]bool{}, false
		cycles++
	}
	// with `dynamic` the wait() goroutine of the closed session races with the immediate Open (it can set
	// streamFinishedWithCloseCh AFTER Open reset it, and an END still in flight decrements the new count): after a
	// dynamic rebalance the real code does not reliably stop at the last stream end (F9b family, outside the model)
	endsCount := func() bool { return !(dyn && cycles > 0) }
	live := func() []int { // vBuckets with a stream at the node
		var l []int
		if inWindow || stopped {
			return l
		}
		for vb := sessLo; vb <= sessHi; vb++ {
			if !ended[vb] {
				l = append(l, vb)
			}
		}
		return l
	}
	queryOK := func() bool { return !dead && !(len(ended) > 0 && (inWindow || stopped)) }
	tick := func(d int) {
		add(fmt.Sprintf("lf-tick %d", d))
		now += d
		if inWindow && deadline <= now && !dead && !stopped {
			reopen()
			tag["cycle"] = true
		}
	}
	shutdown := func() {
		if l := live(); auto && len(l) > 0 && r.Chance(50) {
			// an acknowledged but unsaved position right before Close(): the final Save of dcp.close must store it
			vb := l[r.Intn(len(l))]
			add(fmt.Sprintf("lf-ev %d", vb))
			unsaved[vb] = true
			tag["ev"] = true
		}
		add("lf-shutdown 1")
		switch {
		case selfStopped:
			tag["shutdown.after-self-stop"] = true
		case inWindow:
			dead = true
			tag["F4-close-in-window"] = true
		default:
			tag["shutdown.clean"] = true
			if auto && len(unsaved) > 0 {
				tag["shutdown.unsaved-ack"] = true
			}
		}
		stopped, shut = true, true
	}
	steps := 5 + r.Intn(9)
	for i := 0; i < steps && !stopped && !dead; i++ {
		x := r.Intn(100)
		switch {
		case kind == "reb" && x < 45 || kind != "reb" && x < 22:
			if r.Chance(40) {
				memLo, memHi = pickRange()
				add(fmt.Sprintf("lf-member %d %d", memLo, memHi))
				tag["member-change"] = true
			}
			add("lf-notify")
			if inWindow {
				tag["notify-in-window"] = true
				deadline = now + lifeDelay
			} else if dyn {
				reopen()
				tag["cycle"] = true
			} else {
				inWindow, deadline = true, now+lifeDelay
				unsaved = map[int]bool{}
			}
		case x < 68:
			tick(lifeGrid * (1 + r.Intn(2)))
		case x < 80:
			l := live()
			vb := r.Intn(ldNumVb)
			if len(l) > 0 && r.Chance(80) {
				vb = l[r.Intn(len(l))]
			}
			if !inWindow && vb >= sessLo && vb <= sessHi && ended[vb] {
				continue // the model keeps delivering on an ended stream, the node has none
			}
			add(fmt.Sprintf("lf-ev %d", vb))
			if !inWindow && vb >= sessLo && vb <= sessHi {
				unsaved[vb] = true
				tag["ev"] = true
			} else {
				tag["ev.no-stream"] = true
			}
		case x < 85:
			add("lf-save")
			if !inWindow {
				unsaved = map[int]bool{}
			}
		case x < 95 && (kind == "end" || r.Chance(35)):
			l := live()
			if inWindow {
				add(fmt.Sprintf("lf-end %d %s", sessLo+r.Intn(sessHi-sessLo+1), r.Pick("transient", "final", "clean")))
				tag["end.in-window"] = true
				continue
			}
			if len(l) == 0 {
				continue
			}
			vb := l[r.Intn(len(l))]
			c := r.Pick("transient", "transient", "closed", "final", "clean")
			if !endsCount() {
				c = "transient"
			}
			add(fmt.Sprintf("lf-end %d %s", vb, c))
			tag["end."+c] = true
			if c != "transient" {
				ended[vb] = true
				if len(live()) == 0 {
					stopped, selfStopped = true, true
					tag["self-stop"] = true
				}
			}
		case kind == "shut" && x < 98 || x >= 99:
			shutdown()
		default:
			if queryOK() {
				add("lf-query")
			}
		}
	}
	// let everything settle, then look
	tick(3 * lifeGrid)
	tick(3 * lifeGrid)
	if queryOK() {
		add("lf-query")
	}
	if kind == "end" && !stopped && !dead && endsCount() {
		for _, vb := range live() {
			add(fmt.Sprintf("lf-end %d %s", vb, r.Pick("final", "clean", "closed")))
			ended[vb] = true
		}
		stopped, selfStopped = true, true
		tag["self-stop"] = true
		tag["all-ended"] = true
	}
	// C13: every case ends with a shutdown, and nothing may happen after it
	if !shut {
		shutdown()
	}
	tick(lifeGrid)
	add(fmt.Sprintf("lf-ev %d", r.Intn(ldNumVb)))
	tick(lifeGrid)
	if queryOK() {
		add("lf-query")
	}
	for t := range tag {
		lc.tags = append(lc.tags, t)
	}
	sort.Strings(lc.tags)
	return lc
}

func ldHash(lc lifeCase) uint32 {
	h := fnv.New32a()
	h.Write([]byte(lc.reset))
	for _, o := range lc.ops {
		h.Write([]byte(o))
	}
	return h.Sum32()
}

func runLifeDcpCase(lc lifeCase) (reals []string, hc bool) {
	f := strings.Fields(lc.reset)
	hs := ldHash(lc)
	hc = hs%4 == 0 // health check running (not part of the op language: derived from the case so that a replay repeats it)
	reals = []string{"ok"}
	e, err := newLdEnv(f[2] == "1", f[3] == "1", hc)
	if err != nil {
		reals[0] = "boot-failed"
		for range lc.ops {
			reals = append(reals, "-")
		}
		return
	}
	defer e.close()
	e.start = time.Now()
	dead, stopped := false, false
	for i, op := range lc.ops {
		if dead {
			reals = append(reals, "-") // the process is gone after a fail-stop
			continue
		}
		if stopped {
			// Start() has returned: only what the model still schedules, plus passive ops that can show a late effect
			k := strings.Fields(op)[0]
			if k != "lf-shutdown" && k != "lf-query" && k != "lf-tick" && k != "lf-ev" {
				reals = append(reals, "-")
				continue
			}
		}
		var r string
		func() {
			defer func() {
				if p := recover(); p != nil {
					r = "failstop:" + classifyPanic(p)
				}
			}()
			r = e.exec(op, int(hs%1000)+i)
		}()
		if strings.Contains(r, "failstop") {
			dead = true
		}
		if e.stopShown {
			stopped = true
		}
		reals = append(reals, r)
	}
	return
}

func runLifeDcp(c *Ctx) {
	var cases []lifeCase
	if replayFile != "" {
		cases = loadLifeReplay()
	} else {
		n := c.N(60, 320)
		for i := 0; i < n; i++ {
			cases = append(cases, genLifeDcp(c.R))
		}
	}
	results := make([][]string, len(cases))
	hcs := make([]bool, len(cases))
	sem := make(chan struct{}, 12)
	var wg sync.WaitGroup
	for i := range cases {
		wg.Add(1)
		sem <- struct{}{}
		go func(i int) {
			defer wg.Done()
			defer func() { <-sem }()
			results[i], hcs[i] = runLifeDcpCase(cases[i])
		}(i)
	}
	wg.Wait()
	for i, lc := range cases {
		c.E.Line("reset", "ok")
		c.E.Line(lc.reset, results[i][0])
		for j, op := range lc.ops {
			c.E.Line(op, results[i][j+1])
		}
		tags := lc.tags
		if hcs[i] {
			tags = append(append([]string{}, tags...), "health-check-on")
		}
		c.E.EndCase(len(lc.ops) > 6, tags...)
	}
}
