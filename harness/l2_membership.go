// Stream c10cb (property C10, layer L2): 1..6 REAL couchbase.NewCBMembership
// instances – each with its own real couchbase.Client (gocbcore agent) and its
// own EventBus – sharing one simulated bucket (harness/sim).  Intervals are
// shrunk through cfg.Dcp.Group.Membership.Config.  A scenario is a script
//
//	join | leave:i | die:i | exp:i | q        (i = index in join order)
//
//	join     client.Connect + NewCBMembership (registration is made atomic with
//	         respect to other members' index reads by a gate in the node's
//	         request hook: the code's own two-step registration can be erased by a
//	         concurrent index rewrite – see Props/C10 join_race_refuted – and the
//	         erased instance then panics in a goroutine, which no harness survives)
//	leave    Membership.Close()  (graceful; nothing is removed from the bucket)
//	die      silent death: from the instance's next index read on the node never
//	         answers any of its connections again (network partition); it neither
//	         heartbeats nor writes from then on
//	exp      die + the instance document disappears (TTL expiry; the simulated
//	         node keeps no clock for TTLs)
//	swap:i   exp:i and a join made ONE step for every other member (their index reads
//	         are held back by the gate meanwhile): the others go from [..i..] to
//	         [..new..] in a single round, some keeping their (number,total) – the
//	         case in which the IsChanged guard must suppress the announcement
//	q        quiescence: wait until no instance has announced anything for a while
//	         (at least heartbeat interval + tolerance + several monitor rounds
//	         after a death), then record GetInfo() of every live instance
//
// Observables: GetInfo() at each quiescent point (op mb-cb) and the complete
// membershipChanged event list of every instance (ops mb-cb-ev).
// mb-cb-tie forces equal clusterJoinTime values by rewriting the index document
// (sim.KVGet/KVPut) and reports whether two members hold the same number.  Since
// commit 23681a3 (monitor breaks ties by instance id) the expected report is
// `tied N distinct`; `tied N same k/N` is finding F8 (fixed) having returned and is
// answered by the Lean driver with FAIL C10.tie-inconsistent.
// mb-cb-joinwrite (l2_membership_join.go): a new instance registers between another
// member's index read and its CAS-guarded write-back.
// mb-cb-slowread (l2_membership_slow.go): the read of a live member's instance document
// is answered late or never.
package main

import (
	"bytes"
	"encoding/json"
	"fmt"
	"os"
	"os/exec"
	"strings"
	"sync"
	"sync/atomic"
	"time"

	"github.com/Trendyol/go-dcp/config"
	"github.com/Trendyol/go-dcp/couchbase"
	"github.com/Trendyol/go-dcp/helpers"
	"github.com/Trendyol/go-dcp/logger"
	"github.com/Trendyol/go-dcp/membership"
	"github.com/asaskevich/EventBus"
	"github.com/couchbase/gocbcore/v10/memd"
	"github.com/sirupsen/logrus"

	"verifharness/sim"
)

func init() {
	props["c10cb"] = runC10Cb
	if os.Getenv("VERIF_CHILD") == "c10race" {
		cbRaceChildMain()
		os.Exit(0)
	}
}

var cbInjectedTotal, cbRetries atomic.Int64

const (
	cbHeartbeat = 40 * time.Millisecond
	cbMonitor   = 50 * time.Millisecond
	cbTolerance = 500 * time.Millisecond
)

type cbInst struct {
	idx    int
	client couchbase.Client
	bus    EventBus.Bus
	m      membership.Membership
	rec    *mbEvents
	state  int // 0 live, 1 left, 2 dead
	last   time.Time
	mu     sync.Mutex
}

func (i *cbInst) onEvent(m *membership.Model) {
	i.rec.add(m)
	i.mu.Lock()
	i.last = time.Now()
	i.mu.Unlock()
}

type cbScenario struct {
	node     *sim.Node
	cfg      *config.Dcp
	indexKey string
	gate     sync.RWMutex

	mu          sync.Mutex
	joining     int
	connOwner   map[int]int
	clientOwner map[string]int
	dying, dead map[int]bool
	lastReq     map[int]time.Time

	insts      []*cbInst
	sinceDeath bool
	tieOnRead  bool // every index read sees all join times equal (tie experiment, finding F8 – fixed)
	conflicts  int  // CAS conflicts still to be injected into index rewrites
	injected   int  // conflicts injected so far
	noCas      bool // an index rewrite (set-doc) arrived without a CAS
}

func newCbScenario(group string) (*cbScenario, error) {
	n := sim.New(sim.Options{NumVb: 4})
	if err := n.Start(); err != nil {
		return nil, err
	}
	cfg := n.Config(group, "couchbase")
	cfg.Dcp.Group.Membership.Type = "couchbase"
	cfg.Dcp.Group.Membership.RebalanceDelay = 30 * time.Millisecond
	cfg.Dcp.Group.Membership.Config = map[string]string{
		"heartbeatInterval":          cbHeartbeat.String(),
		"monitorInterval":            cbMonitor.String(),
		"heartbeatToleranceDuration": cbTolerance.String(),
		"timeout":                    "5s",
	}
	sc := &cbScenario{node: n, cfg: cfg, indexKey: helpers.Prefix + group + ":instance:all", joining: -1,
		connOwner: map[int]int{}, clientOwner: map[string]int{}, dying: map[int]bool{}, dead: map[int]bool{}, lastReq: map[int]time.Time{}}
	n.OnRequest(sc.hook)
	return sc, nil
}

// hook: attributes every connection to the instance whose client opened it
// (HELLO carries "<agent id>/<connection id>"), implements silent death and the
// registration gate.
func (sc *cbScenario) hook(r sim.Request) sim.Action {
	if r.HTTP {
		return sim.Default()
	}
	isIndexGet := r.Opcode == memd.CmdGet && string(r.Key) == sc.indexKey
	sc.mu.Lock()
	if r.Opcode == memd.CmdHello {
		var ci struct {
			I string `json:"i"`
		}
		_ = json.Unmarshal(r.Key, &ci)
		agent := ci.I
		if k := strings.Index(agent, "/"); k >= 0 {
			agent = agent[:k]
		}
		if o, ok := sc.clientOwner[agent]; ok {
			sc.connOwner[r.Conn] = o
		} else if sc.joining >= 0 {
			sc.clientOwner[agent] = sc.joining
			sc.connOwner[r.Conn] = sc.joining
		}
	}
	if r.Opcode == memd.CmdSubDocMultiMutation && string(r.Key) == sc.indexKey && len(r.Value) > 0 &&
		memd.SubDocOpType(r.Value[0]) == memd.SubDocOpSetDoc {
		// updateIndex: must be conditional on the CAS that monitor() read
		if r.Cas == 0 {
			sc.noCas = true
		} else if sc.conflicts > 0 {
			// a foreign write between this member's read and its write: same body, new CAS
			if d, ok := sc.node.KVGet(0, sc.indexKey); ok && d.Cas == r.Cas {
				sc.conflicts--
				sc.injected++
				cbInjectedTotal.Add(1)
				sc.node.KVPut(0, sc.indexKey, d.Body, nil)
			}
		}
	}
	if o, ok := sc.connOwner[r.Conn]; ok {
		sc.lastReq[o] = time.Now()
		if sc.dying[o] && isIndexGet {
			sc.dead[o] = true
		}
		if sc.dead[o] {
			sc.mu.Unlock()
			return sim.Silent()
		}
	}
	tie := sc.tieOnRead
	sc.mu.Unlock()
	if isIndexGet && tie {
		sc.forceTie()
	}
	if isIndexGet {
		sc.gate.RLock()
		//nolint:staticcheck // empty critical section: only waits for a registration in progress
		sc.gate.RUnlock()
	}
	return sim.Default()
}

// forceTie rewrites the index document so that every clusterJoinTime is 42
func (sc *cbScenario) forceTie() {
	d, ok := sc.node.KVGet(0, sc.indexKey)
	if !ok {
		return
	}
	all := map[string]int64{}
	if json.Unmarshal(d.Body, &all) != nil {
		return
	}
	tied := true
	for _, v := range all {
		if v != 42 {
			tied = false
		}
	}
	if tied {
		return
	}
	for k := range all {
		all[k] = 42
	}
	b, _ := json.Marshal(all)
	sc.node.KVPut(0, sc.indexKey, b, nil)
}

func (sc *cbScenario) join() (err string) {
	in, e := sc.connect()
	if e != "" {
		return e
	}
	sc.gate.Lock()
	defer sc.gate.Unlock()
	return sc.register(in)
}

// connect: a new instance's client (its connections are attributed to it by the hook)
func (sc *cbScenario) connect() (in *cbInst, err string) {
	idx := len(sc.insts)
	in = &cbInst{idx: idx, bus: EventBus.New(), rec: &mbEvents{}, last: time.Now()}
	sc.mu.Lock()
	sc.joining = idx
	sc.mu.Unlock()
	defer func() {
		sc.mu.Lock()
		sc.joining = -1
		sc.mu.Unlock()
		if r := recover(); r != nil {
			err = "connect-panic"
		}
	}()
	in.client = couchbase.NewClient(sc.cfg)
	if e := in.client.Connect(); e != nil {
		return nil, "connect-error"
	}
	if e := in.bus.SubscribeAsync(helpers.MembershipChangedBusEventName, in.onEvent, true); e != nil {
		return nil, "subscribe-error"
	}
	sc.insts = append(sc.insts, in)
	return in, ""
}

// register: NewCBMembership; the caller holds the gate
func (sc *cbScenario) register(in *cbInst) (err string) {
	defer func() {
		if r := recover(); r != nil {
			err = "join-panic"
		}
	}()
	in.m = couchbase.NewCBMembership(sc.cfg, in.client, in.bus)
	return ""
}

// swap: instance i expires and a new one registers while every other member's
// index read is held back
func (sc *cbScenario) swap(i int) string {
	if i < 0 || i >= len(sc.insts) || sc.insts[i].state != 0 {
		return "bad-index"
	}
	in, e := sc.connect()
	if e != "" {
		return e
	}
	sc.gate.Lock()
	defer sc.gate.Unlock()
	if e := sc.kill(i, "exp"); e != "" {
		return e
	}
	return sc.register(in)
}

func (sc *cbScenario) kill(i int, how string) string {
	if i < 0 || i >= len(sc.insts) || sc.insts[i].state != 0 {
		return "bad-index"
	}
	in := sc.insts[i]
	sc.sinceDeath = true
	if how == "leave" {
		in.m.Close()
		in.state = 1
		return ""
	}
	sc.mu.Lock()
	sc.dying[i] = true
	sc.mu.Unlock()
	deadline := time.Now().Add(7 * time.Second) // longer than the 5 s KV time-out
	for {
		sc.mu.Lock()
		d := sc.dead[i]
		sc.mu.Unlock()
		if d {
			break
		}
		if time.Now().After(deadline) {
			return "die-timeout"
		}
		time.Sleep(5 * time.Millisecond)
	}
	in.state = 2
	if how == "exp" {
		// let a heartbeat that was answered just before the cut land first
		time.Sleep(10 * time.Millisecond)
		sc.node.KVDelete(0, sc.instKey(i))
	}
	return ""
}

// key of instance i's document: the only "…:instance:<uuid>" key written by its connections
func (sc *cbScenario) instKey(i int) string {
	prefix := strings.TrimSuffix(sc.indexKey, "all")
	// the join order of ids equals the order of first writes to instance keys
	seen := map[string]bool{}
	var order []string
	for _, w := range sc.node.KVWrites() {
		if strings.HasPrefix(w.Key, prefix) && w.Key != sc.indexKey && !seen[w.Key] {
			seen[w.Key] = true
			order = append(order, w.Key)
		}
	}
	if i < len(order) {
		return order[i]
	}
	return ""
}

func (sc *cbScenario) lastEvent() time.Time {
	var t time.Time
	for _, in := range sc.insts {
		in.mu.Lock()
		if in.last.After(t) {
			t = in.last
		}
		in.mu.Unlock()
	}
	return t
}

func cbInfo(m membership.Membership) string {
	return mbGetInfo(m, 2*time.Second)
}

func (sc *cbScenario) infos() string {
	var sb []string
	for _, in := range sc.insts {
		if in.state != 0 || in.m == nil {
			sb = append(sb, "-/-")
			continue
		}
		sb = append(sb, cbInfo(in.m))
	}
	// size of the index document (dead instances are dropped from it by the first rewrite)
	idx := map[string]int64{}
	if d, ok := sc.node.KVGet(0, sc.indexKey); ok {
		_ = json.Unmarshal(d.Body, &idx)
	}
	sb = append(sb, fmt.Sprintf("idx=%d", len(idx)))
	return strings.Join(sb, " ")
}

func (sc *cbScenario) quiesce() string {
	start := time.Now()
	tmin := 8 * cbMonitor
	if sc.sinceDeath {
		tmin = 2*cbHeartbeat + cbTolerance + 8*cbMonitor
	}
	sc.sinceDeath = false
	for {
		now := time.Now()
		if now.Sub(start) >= tmin && now.Sub(sc.lastEvent()) >= 6*cbMonitor {
			break
		}
		if now.Sub(start) > 15*time.Second {
			return "no-quiescence"
		}
		time.Sleep(10 * time.Millisecond)
	}
	for _, in := range sc.insts {
		in.bus.WaitAsync()
	}
	return sc.infos()
}

// close stops every loop, waits until the live instances' connections have gone
// quiet (an in-flight monitor round must not meet a closed agent: the code
// panics on any instance-document error other than "not found"), then closes
// the clients and the node.
func (sc *cbScenario) close() {
	for _, in := range sc.insts {
		if in.m != nil && in.state != 1 {
			func() {
				defer func() { _ = recover() }()
				in.m.Close()
			}()
		}
	}
	deadline := time.Now().Add(8 * time.Second)
	for time.Now().Before(deadline) {
		quiet := true
		sc.mu.Lock()
		for i, in := range sc.insts {
			if in.state != 2 && time.Since(sc.lastReq[i]) < 6*cbMonitor {
				quiet = false
			}
		}
		sc.mu.Unlock()
		if quiet {
			break
		}
		time.Sleep(20 * time.Millisecond)
	}
	for _, in := range sc.insts {
		if in.client != nil {
			in.client.Close()
		}
	}
	sc.node.Close()
}

// runs one script; returns the mb-cb observation and the per-instance event lines
func cbRunScript(group, script string, conflicts int) (obs string, evLines [][2]string) {
	sc, err := newCbScenario(group)
	if err != nil {
		return "sim-error", nil
	}
	sc.conflicts = conflicts
	defer sc.close()
	var phases []string
	q := 0
	for _, op := range strings.Split(script, ",") {
		var e string
		switch {
		case op == "join":
			e = sc.join()
		case strings.HasPrefix(op, "swap:"):
			var i int
			if _, er := fmt.Sscanf(op, "swap:%d", &i); er != nil {
				return "bad-script", nil
			}
			e = sc.swap(i)
		case op == "q":
			q++
			phases = append(phases, fmt.Sprintf("q%d: %s", q, sc.quiesce()))
		default:
			var i int
			parts := strings.SplitN(op, ":", 2)
			if len(parts) != 2 {
				return "bad-script", nil
			}
			if _, er := fmt.Sscanf(parts[1], "%d", &i); er != nil {
				return "bad-script", nil
			}
			e = sc.kill(i, parts[0])
		}
		if e != "" {
			return e, nil
		}
	}
	for _, in := range sc.insts {
		in.bus.WaitAsync()
		evs := in.rec.snapshot()
		real := "none"
		if in.state == 0 && in.m != nil && len(evs) > 0 {
			real = cbInfo(in.m)
		} else if len(evs) > 0 {
			real = mbFmt(evs[len(evs)-1:])
		}
		evLines = append(evLines, [2]string{strings.TrimSpace(fmt.Sprintf("mb-cb-ev %d %s", in.idx, mbFmt(evs))), real})
	}
	obs = strings.Join(phases, " | ")
	sc.mu.Lock()
	if sc.noCas {
		obs += " | index-rewrite-without-cas"
	}
	sc.mu.Unlock()
	return obs, evLines
}

// Tie experiment (finding F8, fixed by commit 23681a3): n members, then every
// clusterJoinTime in the index document forced to 42 again and again for a few
// seconds; do two members hold the same number?  With the id tie-break every member
// derives the same order from the same index, so the answer must be no.
func cbRunTie(group string, n int) string {
	sc, err := newCbScenario(group)
	if err != nil {
		return "sim-error"
	}
	defer sc.close()
	for i := 0; i < n; i++ {
		if e := sc.join(); e != "" {
			return e
		}
	}
	want := ""
	for i := 1; i <= n; i++ {
		want += fmt.Sprintf(" %d/%d", i, n)
	}
	want += fmt.Sprintf(" idx=%d", n)
	if got := sc.quiesce(); got != strings.TrimSpace(want) {
		return "setup-failed " + got
	}
	latest := func() []string {
		var out []string
		for _, in := range sc.insts {
			evs := in.rec.snapshot()
			out = append(out, mbFmt(evs[len(evs)-1:]))
		}
		return out
	}
	collision := func(a []string) string {
		for i := range a {
			for j := i + 1; j < len(a); j++ {
				if a[i] == a[j] {
					return a[i]
				}
			}
		}
		return ""
	}
	// from now on EVERY index read of every member sees equal join times (the
	// members' own rewrites put the real values back; the next read ties them
	// again).  The first rounds after the switch are a transition (members move
	// from join order to id order, not all at the same instant) and
	// are not judged; afterwards any two members holding the same (number,total)
	// in two consecutive polls is the inconsistency.
	sc.mu.Lock()
	sc.tieOnRead = true
	sc.mu.Unlock()
	time.Sleep(12 * cbMonitor)
	prev := ""
	deadline := time.Now().Add(8 * time.Second)
	for time.Now().Before(deadline) {
		time.Sleep(12 * time.Millisecond)
		for _, in := range sc.insts {
			in.bus.WaitAsync()
		}
		c := collision(latest())
		if c != "" && c == prev {
			return fmt.Sprintf("tied %d same %s", n, c) // seen in two consecutive polls
		}
		prev = c
	}
	return fmt.Sprintf("tied %d distinct", n)
}

// ---------------------------------------------------------------- registration race (child process)

// The two writes of register() (index entry, then instance document) are not
// atomic.  Child: member A has converged; instance C is held between its two
// writes (the node delays C's first instance-document request); instance D joins
// completely, so A has a change to write and rewrites the index from what it
// saw alive – without C.  C is released, and C's first monitor round ends in
// panic("cant find self in cluster") inside a goroutine: the process dies.
func cbRaceChildMain() {
	l := logrus.New()
	l.SetLevel(logrus.PanicLevel)
	logger.Log = &logger.Loggers{Logrus: l}
	sc, err := newCbScenario("race")
	if err != nil {
		fmt.Println("obs sim-error")
		return
	}
	if e := sc.join(); e != "" { // A
		fmt.Println("obs " + e)
		return
	}
	fmt.Println("sofar A=" + sc.quiesce())
	release := make(chan struct{})
	var held atomic.Bool
	base := sc.hook
	sc.node.OnRequest(func(r sim.Request) sim.Action {
		sc.mu.Lock()
		o, ok := sc.connOwner[r.Conn]
		sc.mu.Unlock()
		if ok && o == 1 && !r.HTTP && r.Opcode != memd.CmdHello && string(r.Key) != sc.indexKey &&
			strings.HasPrefix(string(r.Key), strings.TrimSuffix(sc.indexKey, "all")) && held.CompareAndSwap(false, true) {
			<-release // C's first instance-document request waits here
		}
		return base(r)
	})
	cIn, e := sc.connect() // C = instance 1
	if e != "" {
		fmt.Println("obs " + e)
		return
	}
	cDone := make(chan string, 1)
	go func() { cDone <- sc.register(cIn) }()
	for i := 0; i < 400 && !held.Load(); i++ {
		time.Sleep(5 * time.Millisecond)
	}
	if !held.Load() {
		fmt.Println("obs not-held")
		return
	}
	if e := sc.join(); e != "" { // D = instance 2, complete registration
		fmt.Println("obs " + e)
		return
	}
	// wait until A (or D) has rewritten the index
	erased := false
	for i := 0; i < 400 && !erased; i++ {
		time.Sleep(10 * time.Millisecond)
		if d, ok := sc.node.KVGet(0, sc.indexKey); ok {
			all := map[string]int64{}
			if json.Unmarshal(d.Body, &all) == nil && len(all) == 2 {
				erased = true
			}
		}
	}
	fmt.Printf("sofar erased=%v\n", erased)
	close(release)
	fmt.Println("sofar registered=" + <-cDone)
	time.Sleep(1500 * time.Millisecond) // C's monitor starts after RebalanceDelay
	fmt.Printf("obs erased=%v survived infos=%s\n", erased, sc.infos())
}

// parent side: `joiner-erased panic` = the child died with the library's own panic
func cbRunRace() string {
	cmd := exec.Command(os.Args[0])
	cmd.Env = append(os.Environ(), "VERIF_CHILD=c10race")
	var so, se bytes.Buffer
	cmd.Stdout, cmd.Stderr = &so, &se
	done := make(chan error, 1)
	if err := cmd.Start(); err != nil {
		return "child-error"
	}
	go func() { done <- cmd.Wait() }()
	var err error
	select {
	case err = <-done:
	case <-time.After(40 * time.Second):
		_ = cmd.Process.Kill()
		<-done
		return "timeout"
	}
	erased := strings.Contains(so.String(), "sofar erased=true")
	if err != nil && strings.Contains(se.String(), "cant find self in cluster") {
		if erased {
			return "joiner-erased panic"
		}
		return "panic"
	}
	for _, ln := range strings.Split(so.String(), "\n") {
		if strings.HasPrefix(ln, "obs ") {
			return ln[4:]
		}
	}
	return "child-failed"
}

// ---------------------------------------------------------------- generator

func cbGenScript(r *Rng, maxInst, maxPhases int) string {
	var ops []string
	var state []int // 0 live
	live := func() []int {
		var l []int
		for i, s := range state {
			if s == 0 {
				l = append(l, i)
			}
		}
		return l
	}
	nj := 1 + r.Intn(3)
	for i := 0; i < nj; i++ {
		ops = append(ops, "join")
		state = append(state, 0)
	}
	ops = append(ops, "q")
	phases := 1
	for phases < maxPhases {
		k := 1
		if r.Chance(30) {
			k = 2
		}
		groupStart := len(state)
		// candidates for a kill: live at the START of the group (an instance is never
		// killed in the group it joined in: whether the others ever saw it, and hence
		// whether the index is rewritten afterwards, would depend on timing)
		for j := 0; j < k; j++ {
			l := live()
			if j > 0 {
				var l2 []int
				for _, v := range l {
					if v < groupStart {
						l2 = append(l2, v)
					}
				}
				l = l2
			}
			if (len(l) == 0 || r.Chance(40)) && len(state) < maxInst {
				ops = append(ops, "join")
				state = append(state, 0)
			} else if len(l) > 0 {
				v := l[r.Intn(len(l))]
				how := r.Pick("leave", "die", "die", "exp", "swap")
				if how == "swap" && len(state) >= maxInst {
					how = "exp"
				}
				ops = append(ops, fmt.Sprintf("%s:%d", how, v))
				state[v] = 1
				if how == "swap" {
					state = append(state, 0)
				}
			}
		}
		ops = append(ops, "q")
		phases++
		if r.Chance(25) {
			break
		}
	}
	return strings.Join(ops, ",")
}

// replay: op lines of this stream (mb-cb-ev lines are outputs of the preceding
// mb-cb line and are regenerated)
func cbReplayOps(path string) (scripts []string, conflicts []int, ties []int, race bool) {
	b, err := os.ReadFile(path)
	if err != nil {
		panic(err)
	}
	for _, ln := range strings.Split(string(b), "\n") {
		f := strings.Fields(strings.SplitN(ln, "\t", 2)[0])
		switch {
		case len(f) >= 2 && f[0] == "mb-cb":
			k := 0
			if len(f) >= 3 {
				fmt.Sscanf(f[2], "x%d", &k)
			}
			scripts = append(scripts, f[1])
			conflicts = append(conflicts, k)
		case len(f) == 2 && f[0] == "mb-cb-tie":
			n := 0
			fmt.Sscanf(f[1], "%d", &n)
			if n >= 1 && n <= 8 {
				ties = append(ties, n)
			}
		case len(f) == 1 && f[0] == "mb-cb-race":
			race = true
		}
	}
	return
}

func runC10Cb(c *Ctx) {
	scripts := []string{
		"join,q",
		"join,join,q,leave:0,q",
		"join,join,join,q,leave:1,q,die:0,q",
		"join,join,join,join,join,join,q",
		"join,q,join,q,join,q,exp:0,q",
		"join,join,q,die:1,q,join,q",
		"join,q,die:0,join,q",
		"join,join,q,swap:1,q",
		"join,join,join,q,swap:1,q,swap:3,q",
	}
	if c.Thorough() {
		scripts = append(scripts,
			"join,join,join,join,q,leave:0,leave:3,q,join,join,q",
			"join,join,join,q,exp:2,q,exp:1,q,exp:0,q,join,q",
			"join,join,join,join,join,join,q,die:0,die:2,die:4,q",
			"join,join,q,leave:0,leave:1,q,join,join,q")
	}
	r := c.R
	for i := 0; i < c.N(14, 150); i++ {
		scripts = append(scripts, cbGenScript(r, 6, c.N(3, 5)))
	}
	// every other script runs with injected CAS conflicts on the index rewrites
	conflicts := make([]int, len(scripts))
	for i := range scripts {
		if i%2 == 1 {
			conflicts[i] = 1 + c.R.Intn(4)
		}
	}
	ties := []int{2, 3}
	if c.Thorough() {
		ties = []int{2, 2, 3, 3, 4, 5, 6}
	}
	race := os.Getenv("VERIF_C10_RACE") != ""
	// a join between another member's index read and its CAS write-back (l2_membership_join.go)
	joins := cbjCases(c)
	// a live member's instance document is read late / never answered (l2_membership_slow.go)
	slows := cbsCases(c)
	if replayFile != "" {
		scripts, conflicts, ties, race = cbReplayOps(replayFile)
		joins = cbjReplayOps(replayFile)
		slows = cbsReplayOps(replayFile)
	}
	type result struct {
		obs string
		evs [][2]string
	}
	res := make([]result, len(scripts))
	tieRes := make([]string, len(ties))
	unsettled := func(o string) bool {
		for _, k := range []string{"?", "blocked", "no-quiescence", "die-timeout"} {
			if strings.Contains(o, k) {
				return true
			}
		}
		return false
	}
	sem := make(chan struct{}, 8)
	var wg sync.WaitGroup
	for i := range scripts {
		wg.Add(1)
		go func(i int) {
			defer wg.Done()
			sem <- struct{}{}
			defer func() { <-sem }()
			o, e := cbRunScript(fmt.Sprintf("g%d", i), scripts[i], conflicts[i])
			// timing dependent: only a reproducible outcome counts (up to 2 more attempts)
			for a := 0; a < 2 && unsettled(o); a++ {
				cbRetries.Add(1)
				o, e = cbRunScript(fmt.Sprintf("g%dr%d", i, a), scripts[i], conflicts[i])
			}
			res[i] = result{o, e}
		}(i)
	}
	for i := range ties {
		wg.Add(1)
		go func(i int) {
			defer wg.Done()
			sem <- struct{}{}
			defer func() { <-sem }()
			tieRes[i] = cbRunTie(fmt.Sprintf("t%d", i), ties[i])
		}(i)
	}
	joinRes := cbjRunAll(joins, sem, &wg)
	slowRes := cbsRunAll(slows, sem, &wg)
	wg.Wait()
	for i, s := range scripts {
		c.E.Line(fmt.Sprintf("mb-cb %s x%d", s, conflicts[i]), res[i].obs)
		tags := []string{fmt.Sprintf("joins=%d", strings.Count(s, "join")+strings.Count(s, "swap"))}
		if conflicts[i] > 0 {
			tags = append(tags, "cas-conflicts-injected")
		}
		for _, k := range []string{"leave", "die", "exp", "swap"} {
			if strings.Contains(s, k+":") {
				tags = append(tags, k)
			}
		}
		c.E.EndCase(strings.Count(s, "join")+strings.Count(s, "swap") >= 2, tags...)
		for _, l := range res[i].evs {
			c.E.Line(l[0], l[1])
			c.E.EndCase(strings.Count(l[0], "/") >= 2, "events")
		}
	}
	for i, n := range ties {
		c.E.Line(fmt.Sprintf("mb-cb-tie %d", n), tieRes[i])
		tag := "tie-distinct"
		if strings.Contains(tieRes[i], "same") {
			tag = "tie-same-number"
		}
		c.E.EndCase(true, tag)
	}
	cbjEmit(c, joins, joinRes)
	cbsEmit(c, slows, slowRes)
	if race {
		// opt-in replay of the registration race (VERIF_C10_RACE=1 or a replay file naming it)
		c.E.Line("mb-cb-race", cbRunRace())
		c.E.EndCase(true, "registration-race")
	}
	c.Extra["cas_conflicts_injected"] = cbInjectedTotal.Load()
	c.Extra["scenario_retries"] = cbRetries.Load()
	c.Extra["intervals"] = fmt.Sprintf("heartbeat=%v monitor=%v tolerance=%v", cbHeartbeat, cbMonitor, cbTolerance)
}
