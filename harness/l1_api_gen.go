package main

// generator part of the `sess-api` stream: the api-* ops (l1_api.go) mixed into session histories at the query points,
// while the stream is closed, and as the trigger of rebalances. Branch tags (`api.*`) feed the evidence histogram.

import (
	"fmt"
	"strconv"
	"strings"

	"github.com/Trendyol/go-dcp/models"
)

// rows of a `scrape [...] total=N` observation: vb -> the eight fields as text
func scrapeRowsOf(obs string) map[int][]string {
	out := map[int][]string{}
	i, j := strings.Index(obs, "["), strings.Index(obs, "]")
	if !strings.HasPrefix(obs, "scrape [") || i < 0 || j < i {
		return out
	}
	for _, tok := range strings.Fields(obs[i+1 : j]) {
		p := strings.SplitN(tok, ":", 2)
		if len(p) != 2 {
			continue
		}
		vb, err := strconv.Atoi(p[0])
		if err != nil {
			continue
		}
		out[vb] = strings.Split(p[1], ",")
	}
	return out
}

func (g *genSt) apiMetricsOp() {
	r := g.c.R
	if r.Chance(55) {
		// the server's high seqno moves, mostly to below the tracked position: the lag gauge must clamp at 0
		vb := g.pickVb()
		h := uint64(r.Intn(300))
		if v := g.vbs[vb]; v != nil && v.next > 1 && v.next < 1<<62 && r.Chance(40) {
			h = v.next - 1 - minU(v.next-1, uint64(r.Intn(3))) // at / just below what the server has sent
		}
		g.do(fmt.Sprintf("high %d %d", vb, h))
		g.high[vb] = h
		g.tags["api.metrics.high-moved"] = true
	}
	real := g.do("api-metrics")
	g.tags["api.metrics"] = true
	switch {
	case real == "scrape closed":
		g.tags["api.metrics.closed"] = true
	case strings.HasPrefix(real, "scrape ["):
		for vb, f := range scrapeRowsOf(real) {
			if len(f) != 8 {
				continue
			}
			cur, err := strconv.ParseUint(f[0], 10, 64)
			if err != nil {
				g.tags["api.metrics.big"] = true
				continue
			}
			if h, ok := g.high[vb]; ok {
				switch {
				case h < cur && f[3] == "0":
					g.tags["api.metrics.lag-clamped"] = true
				case h == cur:
					g.tags["api.metrics.lag-zero"] = true
				case h > cur:
					g.tags["api.metrics.lag-positive"] = true
				}
			}
		}
	default:
		g.tags["api.metrics.other:"+strings.Fields(real + " ?")[0]] = true
	}
	if r.Chance(35) {
		g.do("scrape") // the private-registry scrape of the same state right next to it
		g.tags["api.metrics.with-scrape"] = true
	}
}

func (g *genSt) apiOffsetsOp() {
	r := g.c.R
	real := g.do("api-offsets")
	switch {
	case real == "api-closed":
		g.tags["api.offsets.closed"] = true
	case strings.HasPrefix(real, "api-pos"):
		g.tags["api.offsets.open"] = true
		if strings.Contains(real, "18446744073709551615") {
			g.tags["api.offsets.max-u64"] = true
		}
	default:
		g.tags["api.offsets.other"] = true
	}
	if r.Chance(35) {
		g.do("offsets") // the direct GetOffsets() read of the same state
		g.tags["api.offsets.with-direct"] = true
	}
}

func (g *genSt) apiStatusOp() {
	r := g.c.R
	if r.Chance(45) {
		g.pingFail = !g.pingFail
		b := "0"
		if g.pingFail {
			b = "1"
		}
		g.do("ping-fail " + b)
	}
	if g.do("api-status") == "OK" {
		g.tags["api.status.ok"] = true
	} else {
		g.tags["api.status.fail"] = true
	}
}

// a valid (member, size) for the bucket of this case; chunks stay small (at most 5 vBuckets per member)
func (g *genSt) randInfo() (int, int) {
	r := g.c.R
	n := g.nvbTot
	tMin := (n + 4) / 5
	tMax := n
	if tMax > 4 {
		tMax = 4
	}
	if tMax < tMin {
		tMax = tMin
	}
	t := tMin + r.Intn(tMax-tMin+1)
	return 1 + r.Intn(t), t
}

// sess-api case set-up: bucket size, initial membership info, the range it yields
func (g *genSt) apiGroupSetup() string {
	r := g.c.R
	g.nvbTot = 2 + r.Intn(9)
	m, t := g.randInfo()
	g.memM, g.memT, g.effM, g.effT = m, t, m, t
	g.lo, g.hi = chunkRange(g.nvbTot, t, m)
	return fmt.Sprintf(" grp=%d/%d nvb=%d", m, t, g.nvbTot)
}

func (g *genSt) putInfo(m, t int) {
	real := g.do(fmt.Sprintf("api-info %d %d", m, t))
	switch {
	case strings.HasPrefix(real, "published"):
		g.tags["api.info.published"] = true
		if g.infoSent && m == g.infoM && t == g.infoT {
			g.tags["api.info.published-again-on-new-api-object"] = true
		}
	case real == "deduped":
		g.tags["api.info.deduped"] = true
	default:
		g.tags["api.info.other"] = true
		return
	}
	g.infoM, g.infoT, g.infoSent = m, t, true
	g.memM, g.memT = m, t // whatever the API did with it, the membership now holds this info
	if g.memM != g.effM || g.memT != g.effT {
		g.tags["api.info.differs-from-in-effect"] = true
	}
}

func (g *genSt) apiInfoOp() {
	r := g.c.R
	if r.Chance(12) {
		g.do("api-info-bad")
		g.tags["api.info.bad"] = true
		return
	}
	m, t := g.infoM, g.infoT
	switch x := r.Intn(100); {
	case x < 40 && g.infoSent:
		g.tags["api.info.same-values"] = true // equal to the previous request
	case x < 60:
		m, t = g.effM, g.effT // the info in effect (again)
	default:
		m, t = g.randInfo()
	}
	g.putInfo(m, t)
}

// the session is open on the assignment in effect while the membership already holds a newer info: every endpoint
// still shows the assignment in effect
func (g *genSt) staleWindow() {
	r := g.c.R
	if g.memM == g.effM && g.memT == g.effT {
		return
	}
	if g.held {
		return // the held call's observer counts its event only when the call returns: no scrape of that observer meanwhile
	}
	for i, n := 0, r.Intn(3); i < n; i++ {
		switch r.Intn(3) {
		case 0:
			g.do("api-metrics")
		case 1:
			g.do("scrape")
		default:
			g.do("api-offsets")
		}
		g.tags["api.group.stale-window"] = true
	}
}

// before a rebalance: a membership info arrives through the API (or one that arrived earlier is still pending), the
// endpoints are read in the stale window, then the rebalance takes the range of the newest info
func (g *genSt) apiReassign() (int, int) {
	r := g.c.R
	pending := g.memM != g.effM || g.memT != g.effT
	if !pending || r.Chance(50) {
		m, t := g.effM, g.effT // a rebalance onto the same assignment
		if r.Chance(80) {
			m, t = g.randInfo()
		}
		g.putInfo(m, t)
	} else {
		g.tags["api.group.info-arrived-earlier"] = true
	}
	g.staleWindow()
	g.effM, g.effT = g.memM, g.memT
	g.nReb++
	return chunkRange(g.nvbTot, g.memT, g.memM)
}

// a new stream object is about to be opened (after close / crash): it takes the newest info
func (g *genSt) apiAdopt() {
	if g.memM != g.effM || g.memT != g.effT {
		g.tags["api.group.adopted-at-open"] = true
	}
	g.effM, g.effT = g.memM, g.memT
	g.lo, g.hi = chunkRange(g.nvbTot, g.memT, g.memM)
}

// at a query point of an open session
func (g *genSt) apiQuery() {
	r := g.c.R
	switch x := r.Intn(100); {
	case x < 27:
		g.apiOffsetsOp()
	case x < 57:
		g.apiMetricsOp()
	case x < 67:
		g.apiStatusOp()
	case x < 84:
		g.apiInfoOp()
	case x < 92:
		g.apiHeldSeq()
	default:
		g.viaAPI = true
		g.rebalance()
		g.viaAPI = false
		if g.c.R.Bool() {
			g.do("api-metrics") // the group gauges right after the rebalance
		} else {
			g.do("scrape")
		}
		g.tags["api.group.after-rebalance"] = true
	}
}

// right after `close`: every endpoint answers at once, nothing is triggered, nothing crashes
func (g *genSt) apiClosed() {
	r := g.c.R
	if g.held {
		g.releaseHeld() // hold-next; mu; close; release
		g.tags["api.held-across-close"] = true
	}
	if r.Chance(35) && len(g.ctxIdx) > 0 {
		// a late acknowledgement leaves an entry in the closed stream object's offset map: the endpoint still says closed
		g.do(fmt.Sprintf("ack %d", g.ctxIdx[r.Intn(len(g.ctxIdx))]))
		g.tags["api.closed.late-ack"] = true
	}
	for i, n := 0, 1+r.Intn(4); i < n; i++ {
		switch r.Intn(7) {
		case 0, 1:
			g.apiOffsetsOp()
		case 2:
			g.apiMetricsOp()
		case 3:
			lo, hi := g.lo, g.hi
			if r.Bool() {
				// a changed membership info: a skipped rebalance must not take it over (the next Open will)
				m, t := g.randInfo()
				g.putInfo(m, t)
				lo, hi = chunkRange(g.nvbTot, t, m)
			}
			if g.do(fmt.Sprintf("api-rebalance %d %d", lo, hi)) == "api-skipped" {
				g.tags["api.rebalance.skipped"] = true
			} else {
				g.tags["api.rebalance.not-skipped-while-closed"] = true
			}
		case 4:
			g.do("scrape")
			g.tags["scrape.closed"] = true
		case 5:
			g.apiStatusOp()
		default:
			g.apiInfoOp()
		}
	}
}

// the server's high seqno covers everything it has sent, hence every tracked position: an acknowledgement of a context
// from before an earlier rebalance can have moved the position beyond what the per-vBucket generator state remembers
func (g *genSt) trackedFloor(vb int, h uint64) uint64 {
	if g.e.st == nil {
		return h
	}
	offs, _, _ := g.e.st.GetOffsets()
	if offs == nil {
		return h
	}
	if o, ok := offs.Load(uint16(vb)); ok && o != nil && o.SeqNo > h {
		return o.SeqNo
	}
	return h
}

// arm the consumer and deliver until one document event is inside ConsumeEvent (held); false: none got there
func (g *genSt) holdOne() bool {
	if g.held || !g.open {
		return false
	}
	g.do("hold-next")
	for try := 0; try < 10 && !g.held; try++ {
		before := len(g.ctxIdx)
		g.event()
		if len(g.ctxIdx) > before {
			// the newest context is the one in flight; its vBucket is in the deliver line noted by noteDeliveries
			g.held = true
			g.heldVb = g.ctxVb(g.ctxIdx[len(g.ctxIdx)-1])
		}
	}
	if !g.held {
		g.do("release") // nothing reached the consumer: disarm
		g.tags["api.held.none-delivered"] = true
		return false
	}
	g.tags["api.held"] = true
	return true
}

func (g *genSt) releaseHeld() {
	g.do("release")
	g.held = false
}

// a consumer call that starts before a rebalance (or two) and returns after it: every counter and gauge of the scrape that
// follows is what the completed steps made it, whatever the call does when it returns
func (g *genSt) apiHeldSeq() {
	r := g.c.R
	if !g.holdOne() {
		return
	}
	n0 := g.nReb
	rounds := 1
	if r.Chance(25) {
		rounds = 2
	}
	for i := 0; i < rounds; i++ {
		g.viaAPI = r.Bool()
		g.rebalance()
		g.viaAPI = false
		if g.hi > g.lo || !(g.heldVb >= g.lo && g.heldVb <= g.hi) {
			for k, m := 0, r.Intn(3); k < m; k++ {
				g.event() // the new session goes on meanwhile (other vBuckets only)
			}
		}
	}
	g.releaseHeld()
	if g.nReb > n0 {
		g.tags["api.held-across-rebalance"] = true
		if g.nReb > n0+1 {
			g.tags["api.held-across-two-rebalances"] = true
		}
	}
	if r.Bool() {
		g.do("api-metrics")
	} else {
		g.do("scrape")
	}
}

// before a close: sometimes with a consumer call in flight (released right after the close, in apiClosed)
func (g *genSt) apiBeforeClose() {
	if g.c.R.Chance(20) {
		g.holdOne()
	}
}

// vBucket of the event of context i (the generator runs online, next to the fake consumer)
func (g *genSt) ctxVb(i int) int {
	g.e.co.mu.Lock()
	defer g.e.co.mu.Unlock()
	if i < 0 || i >= len(g.e.co.ctxs) {
		return -1
	}
	switch ev := g.e.co.ctxs[i].Event.(type) {
	case models.DcpMutation:
		return int(ev.VbID)
	case models.DcpDeletion:
		return int(ev.VbID)
	case models.DcpExpiration:
		return int(ev.VbID)
	}
	return -1
}
