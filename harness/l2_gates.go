package main

// Stream "c18gate" (property C18, layer L2): the two server-version gates of dcp.go newDcp as the running library applies them.
// One case = the real dcp.NewDcp(cfg, listener) against a simulated node that reports a given version text on GET /pools and a given
// storage back end on GET /pools/default/buckets/<b>; observed = the DCP_CONTROL keys the library's DCP connection negotiates:
// `enable_expiry_opcode` (gate 6.5.0) and `change_streams` (gate 7.2.0, Magma only). The serial-close gate (5.5.0, stream.NewStream)
// is tied by `ver-gate` through the real stream.NewStream. The go/ast truth tables (`ver-gates-src`) read the same conditions from
// the sources; this stream is the behavioural side, so that a condition the extractor cannot evaluate still has a failing input.
//
//	ver-gate-e2e =<enc version text> magma|couchstore     real: exp=0|1 cs=0|1 | start-error

import (
	"fmt"
	"strings"
	"sync"

	dcp "github.com/Trendyol/go-dcp"
	"github.com/Trendyol/go-dcp/models"

	"verifharness/sim"
)

func init() { props["c18gate"] = runC18Gate }

func gateE2E(version, backend string) (res string) {
	defer func() {
		if r := recover(); r != nil {
			res = "panic"
		}
	}()
	node := sim.New(sim.Options{NumVb: 2, Version: version, StorageBackend: backend})
	if err := node.Start(); err != nil {
		return "sim-error"
	}
	defer node.Close()
	cfg := node.Config("gate", "file")
	d, err := dcp.NewDcp(cfg, func(*models.ListenerContext) {})
	if err != nil {
		return "start-error"
	}
	exp, cs := 0, 0
	for _, c := range node.Controls() {
		if c.Key == "enable_expiry_opcode" && c.Value == "true" {
			exp = 1
		}
		if c.Key == "change_streams" && c.Value == "true" {
			cs = 1
		}
	}
	func() {
		defer func() { _ = recover() }()
		d.GetClient().DcpClose()
		d.GetClient().Close()
	}()
	return fmt.Sprintf("exp=%d cs=%d", exp, cs)
}

func runC18Gate(c *Ctx) {
	type gc struct{ ver, be, res string }
	var cases []*gc
	add := func(v, be string) { cases = append(cases, &gc{ver: v, be: be}) }
	if replayFile != "" {
		for _, op := range readOpLines(replayFile) {
			f := strings.Fields(op)
			if len(f) == 3 && f[0] == "ver-gate-e2e" {
				if v, ok := verDec(f[1]); ok {
					add(v, f[2])
				}
			}
		}
	} else {
		// every version within one step (per component) of the two gates, in the text forms a server reports
		for _, g := range [][3]int{{6, 5, 0}, {7, 2, 0}} {
			for _, be := range []string{"couchstore", "magma"} {
				add(fmt.Sprintf("%d.%d.%d", g[0], g[1], g[2]), be)
				add(fmt.Sprintf("%d.%d.%d-0000-enterprise", g[0], g[1], g[2]), be)
				add(fmt.Sprintf("%d.%d.%d-0001-enterprise", g[0], g[1], g[2]), be)
				add(fmt.Sprintf("%d.%d.%d-5000-community", g[0], g[1], g[2]), be)
				add(fmt.Sprintf("%d.%d.%d-3000-enterprise", g[0], g[1]-1, 9), be)
				add(fmt.Sprintf("%d.%d.%d", g[0], g[1], 1), be)
				add(fmt.Sprintf("%d.%d.%d-1-enterprise", g[0], g[1]+1, 0), be)
				add(fmt.Sprintf("%d.%d.%d", g[0]-1, 9, 9), be)
				add(fmt.Sprintf("%d.0.0-1000-enterprise", g[0]+1), be)
			}
		}
		for i := 0; i < c.N(12, 150); i++ {
			v := fmt.Sprintf("%d.%d.%d", 4+c.R.Intn(5), c.R.Intn(8), c.R.Intn(3))
			if c.R.Chance(60) {
				v += fmt.Sprintf("-%04d-%s", c.R.Intn(3)*c.R.Intn(5000), c.R.Pick("enterprise", "community"))
			}
			add(v, c.R.Pick("couchstore", "magma"))
		}
	}
	sem := make(chan struct{}, 8)
	var wg sync.WaitGroup
	for _, g := range cases {
		wg.Add(1)
		go func(g *gc) {
			defer wg.Done()
			sem <- struct{}{}
			defer func() { <-sem }()
			g.res = gateE2E(g.ver, g.be)
		}(g)
	}
	wg.Wait()
	for _, g := range cases {
		c.E.Line(fmt.Sprintf("ver-gate-e2e %s %s", verEnc(g.ver), g.be), g.res)
		c.E.EndCase(true, "gate-e2e", "gate-e2e."+g.be, "gate-e2e."+g.res)
	}
}
