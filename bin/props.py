"""per-property configuration of bin/vcheck"""

TRUSTED_BASE = [
    "Lean 4.33.0 kernel; axioms at most propext, Classical.choice, Quot.sound (audited per theorem on every run)",
    "hand-written Lean models under lean/GoDcp/Model and statement files lean/GoDcp/Spec, lean/GoDcp/Props",
    "the correspondence check: Go harness (fakes / simulated node), generators, canonicalisation, Lean driver parser",
    "Go toolchain and runtime, gocbcore, sonic/yaml, concurrent-swiss-map, EventBus: modelled, not verified",
]

PROPS = {
    "C09": {
        "streams": ["c09"],
        "rule": "chunk N T / member N T m against real helpers.ChunkSlice and real VBucketDiscovery.Get(static); "
                "exhaustive for small N (bound in stream_info), all T for N in {64,128,256,512,1024}, random up to 65535; "
                "non-trivial = 1 < T (< N for chunk); distinct = distinct (op, output) lines",
        "assumptions": ["vBucket ids are 0..N-1 (the slice ChunkSlice is applied to in vBucketDiscovery.Get)",
                        "machine-int overflow impossible: N <= 65536"],
        "design_ref": "DESIGN.md §7 C09",
        "level_text": "Kernel-checked theorems (Props/C09) prove for ALL 1<=T<=N (no bound) that the model of ChunkSlice tiles [0,N) with T non-empty contiguous ascending chunks whose sizes differ by <=1, and that the decidable monitor Spec.C09.holds accepts it; the model is tied to the real helpers.ChunkSlice / VBucketDiscovery.Get by an exhaustive-for-small-N differential run on every check, with the monitor evaluated on the real output.",
        "level_note": "trusted: Lean kernel, the 40-line model of ChunkSlice, the differential run (exhaustive N<=160 quick / N<=1024 thorough) as the tie to the code; Go int overflow excluded since N<=65536",
    },
}

NOT_APPLICABLE = {}

# per-slice entries live in bin/props.d/*.py (each file adds to PROPS)
import glob as _glob, os as _os
for _f in sorted(_glob.glob(_os.path.join(_os.path.dirname(_os.path.abspath(__file__)), "props.d", "*.py"))):
    exec(compile(open(_f).read(), _f, "exec"), {"PROPS": PROPS, "TRUSTED_BASE": TRUSTED_BASE, "NOT_APPLICABLE": NOT_APPLICABLE})
