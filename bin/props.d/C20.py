PROPS["C20"] = {
    "streams": ["c20a", "c20w"], "retry_divergence": 2, "retry_context": {"c20w": True},
    "audit": ["C20.lean", "C20Multi.lean"], "modules": ["GoDcp.Props.C20", "GoDcp.Props.C20Multi"],
    "timeout": 600,
    "design_ref": "DESIGN.md §7 C20, §6 F7",
    "rule": "L0 part: the real couchbase.NewAsyncOp(ctx) under a fake gocbcore.PendingOp. Deterministic scripts (imm/pre/mid/silent/late/precancel): "
            "model observation = real observation. Racy scripts (race/precancelpre/double): the real observation is checked by the Lean monitor for "
            "membership in the model's outcome set. Deadlines 20-50 ms (silent/late/race) or 1.5-2.5 s (others); delays random. Plus one ao-site line per "
            "NewAsyncOp call site of couchbase/*.go (go/ast fact pass versus the Lean wrapper table, including the SCOPE fact: is the asyncOp and its context created inside the "
            "closure / loop body that issues the request (per-request) or outside it (shared by several requests)?). L2 part (stream c20w): every client wrapper against the "
            "simulated node with per-request scripted behaviour; plus GetVBucketSeqNos against clusters of 2 and 3 KV nodes (w-seqnos-multi: all prompt / one node "
            "error status / one node silent / all silent / one node late; model = n independent per-request asyncOps; return time classed against the hard-coded 60 s, "
            "goroutines of the call counted 2 s after its return via pprof labels; these cases run in the background for the whole stream). non-trivial = every case except script imm; distinct = distinct (op, observation) lines",
    "assumptions": ["gocbcore invokes an operation's callback at most once, and not at all when the issuing call returned an error (hypothesis AtMostOnce)",
                    "model time: 'deadline passed' means the Go runtime has fired the ctx timer; real time enters only through the harness classes before/ontime/late (margin 1 s, deadlines <= 50 ms)",
                    "wrappers with context.Background() (cbMetadata.Load -> GetXattrs, waitFirstConfig) return by gocbcore's own deadline only (trusted)",
                    "at L0 the wrappers are tied syntactically (ao-site); their behaviour on the wire is the L2 stream"],
    "level_text": "Kernel-checked theorems (Props/C20) over a transition system of asyncOp.Wait/Resolve and the wrapper pattern, for all schedules, deadlines and server behaviours: returns_by_deadline (after the deadline the caller needs at most 4 own steps and is never blocked), outcome_sound, never_success_unconfirmed (refuted for the GetVBucketSeqNos shape = finding F7, proved for the other 14 table rows), late_completion_harmless, cancel_on_timeout, holds_of_run (every model run passes the run-time monitor Spec.C20.holds). Calls that issue several requests (GetVBucketSeqNos, Props/C20Multi), for every number of requests: multi_independent (with one asyncOp per request each request's part of any schedule is a run of the single-operation system), multi_returns_by_deadline, multi_result_sound / multi_ok_iff (success iff every request was answered with success, otherwise one request's own error), multi_no_blocked_callback; the hoisted shape with ONE asyncOp for all requests is refuted (shared_op_hangs_refuted, shared_op_cancel_blocks_refuted). The model is tied to the real asyncOp by scripted differential runs with the monitor evaluated on the real observations, and to the 15 wrapper call sites by a go/ast fact pass checked against the Lean wrapper table.",
    "level_note": "partial (time): model time only; returns_by_deadline needs a ctx deadline and 2 call sites have none (gocbcore's own deadline trusted). partial (F7): GetVBucketSeqNos reports success on a server error. Trusted: Lean kernel, the LTS model of async_op.go, the scripted harness with wall-clock classes, gocbcore's callback-at-most-once contract",
}
