# C04: "the position the library tracks - … exposed through the offsets API and metrics …": the real GET /states/offset of the real api.NewAPI
# inside session histories (sess-api), judged by the clause that the endpoint shows the tracked positions (also after saves and rebalances)
_c = PROPS["C04"]
_c["streams"] = _c["streams"] + ["sess-api"]
_c["clauses"] = list(_c.get("clauses") or ["C04"]) + ["C16.api-offsets-truth"]
_cp = dict(_c.get("compare_parts") or {})
_cp["sess-api"] = {"parts": ["api-pos", "api-closed", "track", "pos", "stale"], "tuples": "seq"}
_c["compare_parts"] = _cp
_of = dict(_c.get("op_filter") or {})
_of["sess-api"] = r"^(api-offsets|offsets|ack)( |$)"
_c["op_filter"] = _of
_c["spec_streams"] = dict(_c.get("spec_streams") or {}, **{"sess-api": "api_offsets_eq_tracked: the endpoint shows the tracked position map"})
_c["rule"] = _c["rule"] + " | sess-api (api-offsets / offsets / ack ops): GET /states/offset of the real HTTP API against the tracked positions"
