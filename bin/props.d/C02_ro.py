# the metadata.readOnly switch through the REAL dcp.Start() for every back end, also one installed with Dcp.SetMetadata
PROPS["C02"]["streams"] = PROPS["C02"]["streams"] + ["c02ro"]
PROPS["C02"]["audit"] = (lambda a: ([a] if isinstance(a, str) else list(a)) + ["C02RO.lean"])(PROPS["C02"].get("audit", "C02.lean"))
PROPS["C02"]["modules"] = PROPS["C02"].get("modules", ["GoDcp.Props.C02"]) + ["GoDcp.Props.C02RO"]
PROPS["C02"]["rule"] += (
    " c02ro: real dcp.NewDcp (+ SetMetadata(recording custom store)) + Start() against the simulated node for readOnly in {false,true} x back end in "
    "{custom via SetMetadata, file, couchbase} x checkpoint type in {manual with ctx.Commit() from the listener, auto with a 40 ms interval}: stored checkpoints, "
    "events pushed / acknowledged / committed, Close(), then a second client on the same store; the same history runs with and without the switch; observed = "
    "Load / Save calls that reached the custom store, whether the store changed (documents / file bytes / xattrs), the DCP_STREAM_REQs of both clients"
)
PROPS["C02"]["level_text"] += (
    " Read-only mode over whole histories (Props/C02RO, by induction over the ops of the session model, from readonly_never_writes / load_ignores_readonly): "
    "readonly_store_unchanged - with metadata.readOnly the store after ANY history (saves with any store answer, the micro steps of concurrent saves, close, crash, "
    "rebalance ...) equals the store before it; readonly_load_identical - a restart loads what it would have loaded before the history, and that is what it loads "
    "without the switch; open_ignores_readOnly - the session opens with the same requests; roCheck_model - the monitor of c02ro accepts the model."
)
PROPS["C02"]["level_note"] += "; c02ro trusts its own recording metadata.Metadata implementation (write policy of the couchbase back end) and the simulated node"
