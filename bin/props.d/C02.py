PROPS["C02"] = {
    "streams": ["c02w", "sess-base", "sess-crash"], "audit": "C02Codec.lean", "modules": ["GoDcp.Props.C02Codec"], "shrink": True,
    "clauses": ["C02", "C15.start-beyond-high"],
    "compare_parts": {"sess-base": ["openreq", "failstop"], "sess-crash": ["openreq", "failstop"]},
    "rule": "c02w: the REAL couchbase.NewCBMetadata against the simulated node (Save -> Load for field values from {0,1,2^32+-1,2^53+-1,2^63+-1,2^64-1} and random in all four fields, "
            "all subsets of <= 5 vBuckets dirty / having a document, create-then-upsert and pure-upsert paths, corrupted xattr), the real stream on top (DCP_STREAM_REQ extras logged by "
            "the node vs the model's load + openreq for earliest/latest x infinite/finite x subsets with checkpoints x high-seqno vectors), the file back end (round trip, missing file, "
            "unwritable target), the read-only wrapper over each back end; sess-*: every `open` / reopen after crash of the L1 session histories: the OpenStream arguments (vbUUID, start, "
            "end, snapshot) must equal what the model derives from the store, the high seqnos and the auto-reset / mode configuration. non-trivial: a case with a stored checkpoint or a "
            "non-zero high seqno; distinct = distinct op/observation lines or histories",
    "assumptions": ["the JSON codecs (sonic, yaml) are trusted and exercised on boundary values on every run; the decimal round trip of the 64-bit fields is proved on the model's codec",
                    "simulated-node fidelity for subdoc / xattr status codes and DCP_STREAM_REQ extras (DESIGN Appendix A)",
                    "file back end: Load returns whatever vBuckets the file holds (the statement of C02 excludes per-vBucket subsets for this back end)"],
    "design_ref": "DESIGN.md §7 C02",
    "level_text": "Kernel-checked (Props/C02Codec): document <-> offset round trip of the four checkpoint fields; parseNat (showNat n) = n for EVERY natural (decimal JSON number path, with the uint64 range check); save-then-load through the per-vBucket store returns exactly what was written for every subset and zero documents otherwise, exist <=> subset non-empty; read-only mode never writes and loads identically; on GoDcp.load: resume_exact (the request carries exactly the stored vbUUID / seqno / snapshot), earliest_zero, latest_high, end_unbounded_infinite, end_sampled_finite. Tied to the real code on the wire (cb xattr back end, file back end, read-only wrapper, DCP_STREAM_REQ extras) and in every session history.",
    "level_note": "trusted: Lean kernel, Model/Session.load + Model/Codec, the simulated node, sonic/yaml; F12 (file back end swallowed write errors) was repaired by fix: a95eac9 and stays probed",
}
