# C20's clause "success is never reported for an operation the server did not confirm" on the checkpoint save path: the failed-write and
# vanished-document cases of the on-the-wire checkpoint stream (ONE real cbMetadata.Save whose xattr write for one vBucket is refused, or
# whose freshly created document answers KEY_ENOENT again) - the save must return an error
_c = PROPS["C20"]
_c["streams"] = _c["streams"] + ["c02w"]
_of = dict(_c.get("op_filter") or {})
_of["c02w"] = r"^ck-bulk .* fail=\d+v?$"
_c["op_filter"] = _of
_c["clauses"] = list(_c.get("clauses") or ["C20"]) + ["C05.failed-write-reported-success"]
_c["rule"] = _c["rule"] + (" | c02w (only its `ck-bulk … fail=` lines): a real cbMetadata.Save against the simulated node in which the xattr write of one vBucket is refused "
                           "(INTERNAL_ERROR) or its just-created document vanishes (second write KEY_ENOENT): Save must report an error")
