# C20's clause "when the server stays silent ... an error is returned, never an invented result" on the membership path: the `mb-cb-slowread`
# lines of stream c10cb (harness/l2_membership_slow.go): the GET of a LIVE member's instance document inside another member's monitor round is
# answered late or never - the read must be used (late) or fail with the time-out at the round's deadline (silent: monitor() panics, fail-stop);
# it must never come back as "document gone" (index rewritten without the live member)
_c = PROPS["C20"]
_c["streams"] = _c["streams"] + ["c10cb"]
_of = dict(_c.get("op_filter") or {})
_of["c10cb"] = r"^mb-cb-slowread "
_c["op_filter"] = _of
_c["clauses"] = list(_c.get("clauses") or ["C20"]) + ["C20.invented-not-found", "C10.live-member-dropped-on-slow-read"]
_a = _c.get("audit", "C20.lean")
_a = [_a] if isinstance(_a, str) else list(_a)
_c["audit"] = _a + ["C10Slow.lean"]
_c["rule"] = _c["rule"] + (" | c10cb (only its `mb-cb-slowread N A K late:<pct>|silent` lines; the whole stream runs, ~15 s): real couchbase.NewCBMembership instances, "
                           "the node answers member A's GET of live member K's instance document late (inside the 800 ms membership timeout) or never: late answers must be used "
                           "(numbering and index unchanged), an unanswered read must end in the time-out error at the round's deadline (A fail-stops, exit class "
                           "exit-fail:read-timeout, index untouched at that moment) - clauses C20.invented-not-found / C10.live-member-dropped-on-slow-read (K left the index or "
                           "fail-stopped), C20.late-answer-not-used, C20.silent-read-no-error; model = Lean membership LTS, theorems Props/C10Slow")
