PROPS.update({
    "C19": {
        "streams": ["c19"],
        "timeout": 300,
        "rule": "real couchbase.NewHealthCheck under a scripted Ping fake, one CHILD process per op (the library's panic kills the process): "
                "hc-round = all 2^5 result patterns of one isolated round, plus rounds whose failing pings take as long as healthCheck.timeout (250-1200 ms: a ping failing by its deadline) - same outcome required (ticker interval chosen so that exactly one round fits the window; "
                "1.3 s grace after the first success); hc-rounds = runs of 2-5 rounds on a 20 ms ticker incl. runs ending in FFFFF, each ping "
                "labelled T (after a tick) / R (>= 800 ms after the previous ping returned: the hard-coded 1 s retry wait); hc-stop = Stop() before "
                "the first tick, inside Ping() number k (k=1..5, released with failure / success) and 100 ms into the retry wait after failure "
                "k=1..4 (Stop must return within 500 ms; late = Ping calls in the 1.3 s after it returned); double Start, double Stop "
                "(sequential and concurrent), Stop before Start; non-trivial = pattern contains a failure / any Stop scenario; "
                "distinct = distinct (op, observation) lines",
        "assumptions": ["no_ping_after_stop_returns is proved (and monitored) for histories in which the first Stop() is called after the first Start() has returned "
                        "(what dcp.go does); for Stop() before or racing with Start() the model proves what the code does instead (stop_before_start_unstoppable, stop_racing_start_refuted)",
                        "Go's select picks among ready cases at random: the model enables the tick even on a cancelled context; the harness avoids that race by ticker intervals longer than the observed window",
                        "Stop() is only as prompt as an in-flight Ping() (wg.Wait); Ping's own timeout (config.HealthCheck.Timeout, client.go) belongs to C20",
                        "wall-clock classification thresholds: 500 ms (prompt), 800 ms (retry gap), 1.3 s (late window)"],
        "design_ref": "DESIGN.md §7 C19",
        "level_text": "Kernel-checked theorems (Props/C19): for ARBITRARY ping-result streams a round panics iff its first five results are failures, after exactly five pings; a first success at index i<5 ends the round after i+1 pings without consequence (plus the exhaustive 32-row table by `decide`); a run of rounds panics iff some round has five leading failures, and that round is the last; on the Start/Stop/run LTS with program counters, for ALL schedules: after an orderly Stop() has returned the goroutine has returned, no ping is ever issued or enabled again, Stop can complete from any select without a timer firing, second Start/Stop calls are no-ops, at most one goroutine is ever spawned, and every round the goroutine plays is `round`. The model is tied to the real couchbase.NewHealthCheck on every run by child-process scenarios covering all 32 patterns, runs of rounds, and Stop at every point of a round, with the monitors Spec.C19.holds / holdsRounds / holdsStop evaluated on the real observations.",
        "level_note": "trusted: Lean kernel; the ~150-line model of healthcheck.go (round + LTS, sequentially consistent steps); the child-process harness with wall-clock thresholds; as coded and proved: Stop() before Start() makes the checker unstoppable (call order not used by dcp.go)",
    },
    "C14": {
        "streams": ["c14k", "sess-loop", "c14w"],
        "audit": ["C14Keys.lean", "C14Loop.lean"],
        "modules": ["GoDcp.Props.C14Keys", "GoDcp.Props.C14Loop"],
        "clauses": ["C14"], "shrink": True,
        "compare_parts": {"sess-loop": {"parts": ["deliver", "savecall", "written", "nowrite", "track"], "tuples": "seq"}},
        "rule": "key-cp: real couchbase.getCheckpointID (via the additive verif-tagged export VerifCheckpointID) for group names drawn from a grammar "
                "(letters, digits, ':', ':checkpoint:', ':instance:', 'all', the reserved prefixes, control / non-UTF-8 bytes, unicode, '.', empty, trailing digits): "
                "all vb 0..1023 + 18 boundary ids up to 65535 for 6 (quick) / 24 (thorough) names, random (name, vb) pairs, adversarial pairs that move the "
                "name/number boundary, and a run-wide collision count; key-meta: real helpers.IsMetadata on the stream's event values (mutation, deletion, expiration) "
                "and 10 other value kinds (no Key field, pointer, string Key, nil embedded pointer) over keys with / without / partially matching both prefixes "
                "(every proper prefix, one byte changed at every position, prefix in the middle, upper case, empty, binary, random, real checkpoint keys); "
                "non-trivial = non-empty name / key; distinct = distinct (op, output) lines",
        "assumptions": ["byte strings are modelled one Char per byte; theorems hold for all List Char",
                        "vBucket ids: any Nat in the theorems, uint16 in the code",
                        "membership ids contain no ':' (uuid.New().String()); with arbitrary ids instance keys are NOT unambiguous (refutations proved)",
                        "the instance / index key formats (membership.go l.348-349) are built inline in NewCBMembership and are not reachable at L0: their tie is the L2 stream"],
        "design_ref": "DESIGN.md §7 C14",
        "level_text": "Kernel-checked theorems (Props/C14Keys) for ALL group names, vBucket ids and ids: every checkpoint, instance and index key is metadata for IsMetadata; a decoder recovers (group, vb) from every checkpoint key, hence checkpointKey is injective for all names (no name is ambiguous; the '.' rejection of getCheckpointID is characterised separately); instance / index keys are injective and disjoint from checkpoint keys for colon-free ids, with proved counter-examples otherwise; IsMetadata is exactly the two-prefix test (false for every proper prefix of a prefix, for a prefix occurring later in the key, for values without a Key field). Tied to the real getCheckpointID / helpers.IsMetadata by a differential run with the decoder and the filter monitor evaluated on the real bytes.",
        "level_note": "trusted: Lean kernel; the 40-line model of the key builders and IsMetadata; strconv.Itoa = Nat.toDigits 10 (checked by the differential run over all uint16 boundary ids); the verif-tagged export hook; membership key formats tied only at L2",
    },
})
