# C10 (and C20, see C20_membership.py), couchbase variant: the read of a LIVE member's instance document inside another member's monitor
# round is answered late or never (op `mb-cb-slowread` of stream c10cb: harness/l2_membership_slow.go, Driver/MembershipSlow.lean, Props/C10Slow.lean)
_c = PROPS["C10"]
_a = _c.get("audit", "C10.lean")
_a = [_a] if isinstance(_a, str) else list(_a)
_c["audit"] = _a + ["C10Slow.lean"]
_c["modules"] = list(_c.get("modules", ["GoDcp.Props.C10"])) + ["GoDcp.Props.C10Slow"]
_c["clauses"] = list(_c.get("clauses") or ["C10"]) + ["C20.invented-not-found"]
_c["rule"] = _c["rule"] + (
    " c10cb, op mb-cb-slowread N A K HOW (3 fixed + 1 generated quick / 17 thorough, concurrent with the scripts): N real NewCBMembership instances converge, members A and K "
    "as child processes (a panic of the library in a goroutine of monitor() is an exit status), A with membership timeout 800 ms; from then on the node answers every GET of "
    "K's instance document that arrives on a connection of A (request hook: opcode, key, connection owner) late (late:<30..60 percent of the timeout>, three rounds) or never "
    "(silent); index, own document, the other members' reads and K's heart-beats are prompt, K is alive throughout. Observed after a quiet period: every live member's GetInfo() "
    "resp. exit class (A: exit-fail:read-timeout = status 2 with the time-out error on stderr), the index document (size, K listed, A listed; for silent also at the moment of "
    "A's exit), owners of 1024 vBuckets; compared with the Lean LTS (late = ordinary rounds, silent = end of A's process, the others drop A once its heartbeat is stale); monitor "
    "clauses C10.live-member-dropped-on-slow-read + C20.invented-not-found (K missing from the index, now or at A's exit, or K fail-stopped), C20.late-answer-not-used, "
    "C20.silent-read-no-error.")
_c["level_text"] = _c["level_text"] + (
    " Slow reads (Props/C10Slow): slow_read_never_shrinks_group - for every reachable state of a stable phase, every member A and live member K: a round of A leaves K and every "
    "live instance in the index and changes nothing at all when A already holds the numbering; the end of A's process leaves index, CAS, documents and every other record "
    "untouched; failstop_then_only_A_dropped - afterwards the phase is stable for the live set without A (converges applies: the others hold rank_numbering of it, K included); "
    "expired_share_as_not_found_refuted - taking the expiry of a per-read share for `document gone` writes an index without the live member, whose next round fail-stops.")
