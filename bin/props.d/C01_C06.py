_SESS_RULE = ("M2 session histories executed on the REAL stream.NewStream / checkpoint / observer under the L1 fakes (fake client, in-memory per-vBucket metadata "
              "store with scripted failure / partial failure, recording consumer) and on the Lean session model: 1-4 (8) vBuckets, 20-80 ops per case: snapshot markers "
              "(single, multi, resumed mid-snapshot), mutations / deletions / expirations with plain, reserved-prefix, transaction-prefix, partial-prefix, empty and binary keys, "
              "CAS around the skipUntil boundary, listed / unlisted collection ids, seqno-advanced and the six system events, ill-formed events (outside the marker, regressing), "
              "acks (recent, repeated, out of order, stale from an earlier session, after close), whole saves (ok / fail / partial subset), micro-stepped overlapping savers "
              "(begin = flag read, dump, store verdict, unmark) with acks placed between the steps, close, crash at any op boundary incl. between store and unmark, reopen, "
              "auto-reset earliest / latest, infinite / finite mode, read-only metadata, stored checkpoints and high-seqno vectors incl. 2^32, 2^53+1, 2^63+1, 2^64-1. "
              "Only the parts of an observation the property speaks about are compared (compare_parts). "
              "non-trivial = a case with at least one delivery and one tracked or saved position; distinct = distinct op/observation histories")
_SESS_ASSUME = ["per-key atomicity of the concurrent swiss map and sequential consistency of single field accesses (Go memory model not modelled)",
                "the L1 fakes: OpenStream records its arguments and sets the vbUUID of the failover-log head; CloseStream answers with End(ErrDCPStreamClosed)",
                "pointer sharing of *SnapshotMarker inside Offset is modelled by value copy; the correspondence re-reads earlier offsets at save time",
                "a fail-stop inside a library goroutine (checkpoint ahead of the high seqno) kills the process: exercised in child processes by the C15 stream, not here"]
_SESS_NOTE = "trusted: Lean kernel, Model/Observer.lean + Model/Session.lean (validated on every run), the L1 fakes and online generator, the Lean run-time monitor (Driver/SessionMon.lean)"
# C01 speaks about the stored SEQUENCE NUMBER relative to what was settled: tuples are reduced to (seq)
_P_SAVE = {"parts": ["written", "openreq", "savecall", "saveerr", "nowrite", "flag="], "tuples": "seq"}
PROPS["C01"] = {
    "streams": ["sess-crash", "sess-base", "c02w"], "audit": "C01.lean", "shrink": True,
    # what is PRESENT IN THE METADATA STORE also depends on the back ends (couchbase xattr documents, file): the on-the-wire
    # checkpoint stream is judged by its save-then-load clauses (a document stored under another vBucket's key, or a corrupt file
    # silently treated as 'no checkpoint', puts a position into the store that was never settled for that vBucket)
    "clauses": ["C01", "C02.save-then-load", "C02.corrupt-as-coded", "C02.roundtrip-lossless", "C05.successful-save-skipped-writes"],
    "compare_parts": {"sess-crash": _P_SAVE, "sess-base": _P_SAVE},
    "rule": _SESS_RULE, "assumptions": _SESS_ASSUME + ["acknowledgement is cumulative per vBucket (acking seq s settles every delivered event <= s)"],
    "design_ref": "DESIGN.md §7 C01, §6 F3",
    "level_text": "Kernel-checked on the validated session model (Props/C01): clause (a) for ALL histories incl. partial stores, crashes and reopen - every document a step makes durable was an announced (resume or tracked) position of that vBucket in the same session, and tracks stem only from acknowledgements or absorbed events; clause (b) (restart never skips a delivered-but-unacknowledged event) is refuted by a concrete witness (finding F3) and proved under the exact complement of the decidable overtake pattern. The Lean monitor checks both clauses on every real trace.",
    "level_note": "partial: clause (b) holds only outside finding F3; " + _SESS_NOTE,
}
PROPS["C03"] = {
    "streams": ["sess-deliver", "sess-base", "c08"], "audit": "C03.lean", "shrink": True,
    # the after-rollback filter clause of C03 is exercised by the rollback stream: its delivered-events field and its two delivery clauses
    "clauses": ["C03", "C08.no-replay", "C08.no-skip"],
    "compare_parts": {"sess-deliver": ["deliver", "failstop", "mut=", "ctx"], "sess-base": ["deliver", "failstop", "mut=", "ctx"], "c08": {"fields": [0, 2]}},
    "rule": _SESS_RULE, "assumptions": _SESS_ASSUME + ["the server trace is well-formed (each document event inside the last announced marker); the ill-formed case is C06's fail-stop",
                                                       "atomicity of 'check closed + deliver' inside the observer"],
    "design_ref": "DESIGN.md §7 C03",
    "level_text": "Kernel-checked refinement (Props/C03): for ALL well-formed per-vBucket server traces the delivered document events are exactly the filterMap of the server's events under the documented filters (reserved prefixes, skipUntil, catch-up), in order and once; every delivered event carries the server's fields unchanged, the configured collection name or _default, event time = CAS/10^9 and its own seqno; vBuckets are independent; counters equal accepted events. Monitor on real traces: faithfulness, order, duplicates, completeness against the announced markers.",
    "level_note": _SESS_NOTE,
}
PROPS["C04"] = {
    "streams": ["sess-ack", "sess-base", "sess-save", "c08"], "audit": "C04.lean", "shrink": True, "clauses": ["C04"],
    # C04 speaks about the tracked sequence number: tuples are reduced to (seq).  "written by the next save": the save-protocol stream
    # (micro-stepped and overlapping savers, a saver blocked at the lock while acknowledgements arrive) is compared on what a save writes;
    # of the rollback stream only the status field is used (`offset-rewritten`: client.OpenStream moved the tracked offset object it was given)
    "compare_parts": {"sess-ack": {"parts": ["track", "pos", "stale"], "tuples": "seq"}, "sess-base": {"parts": ["track", "pos", "stale"], "tuples": "seq"},
                      "sess-save": {"parts": ["track", "pos", "stale", "written", "nowrite", "waiting"], "tuples": "seq"}, "c08": {"fields": [0]}},
    "rule": _SESS_RULE, "assumptions": _SESS_ASSUME + ["acknowledgements of one and the same vBucket are issued one at a time"],
    "design_ref": "DESIGN.md §7 C04",
    "level_text": "Kernel-checked (Props/C04): for ANY order and repetition of acknowledgements and absorbed events the tracked position of an assigned vBucket is the running maximum of the settled seqnos starting at the resume position; TrackOffset reports are non-decreasing and end at the position; out-of-range acknowledgements change nothing but the flag and never create a checkpoint; acknowledgements on different vBuckets commute. Monitor on real traces: no regressing track, ack tracks its own seqno, no lost ack.",
    "level_note": _SESS_NOTE,
}
_P_C05 = {"parts": ["written", "savecall", "saveerr", "nowrite", "flag=", "pos"], "tuples": "seq"}
PROPS["C05"] = {
    "streams": ["sess-save", "sess-crash", "c02w"], "audit": "C05.lean", "shrink": True,
    "clauses": ["C05", "C02.save-then-load"],
    "compare_parts": {"sess-save": _P_C05, "sess-crash": _P_C05},
    "rule": _SESS_RULE, "assumptions": _SESS_ASSUME + ["a save 'completes successfully' also on the skip path (flag down); 'rejects or times out' = the store returns an error"],
    "design_ref": "DESIGN.md §7 C05, §6 F1 F2",
    "level_text": "Kernel-checked (Props/C05): a save with the flag down performs no store call; a failed or partially failed save leaves offsets, every dirty map and the flag untouched and the next quiescent successful save stores every dirty vBucket's current position; a quiescent successful save stores exactly the dirty positions and lowers the flag; the full statement is refuted twice (F1: dirty but flag down; F2: settle between dump and unmark / overlapping savers) and proved under the complement of the two decidable patterns. The monitor evaluates the durable-after-save clause on every real trace and classifies F1/F2.",
    "level_note": "partial: findings F1 and F2; " + _SESS_NOTE,
}
# C06: the sites that CREATE offsets are compared in full; every other part is covered by the monitor's validity clause
_P_C06 = ["deliver", "ctx", "openreq", "failstop"]
PROPS["C06"] = {
    "streams": ["sess-deliver", "sess-save", "c15w"], "audit": "C06.lean", "shrink": True, "clauses": ["C06"],
    # of the start-up stream (child processes) only the monitor's validity clause on the logged stream requests is used:
    # whatever start-up does with an odd checkpoint, a request it sends must name a valid resume point
    "compare_parts": {"sess-deliver": _P_C06, "sess-save": _P_C06, "c15w": {"fields": []}},
    "rule": _SESS_RULE, "assumptions": _SESS_ASSUME + ["initially stored checkpoints are valid resume points (generator) - the invariant is inductive from there"],
    "design_ref": "DESIGN.md §7 C06",
    "level_text": "Kernel-checked inductive invariant (Props/C06): every offset in positions, delivered contexts, saver dumps and the store satisfies snapStart <= seq <= snapEnd for ALL histories; every delivered offset is the tuple of one event and the marker current at that event with the stream's vbUUID, and contexts are never modified afterwards; an event outside its snapshot yields fail-stop and nothing else. Monitor: validity of every offset in every real observation, fail-stop delivers nothing.",
    "level_note": _SESS_NOTE,
}
