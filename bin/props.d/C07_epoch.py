# which cluster config the rollback mitigation works with: revisions (revEpoch, rev) under script control in stream c07rm
# (steps `e:E:R:ABS:ORDER`), model MinSeqNo.isNewer = isConfigSnapshotNewerThan, theorems Props/C07Epoch
PROPS["C07"]["audit"] = (lambda a: ([a] if isinstance(a, str) else list(a)) + ["C07Epoch.lean"])(PROPS["C07"].get("audit", "C07.lean"))
PROPS["C07"]["modules"] = PROPS["C07"].get("modules", ["GoDcp.Props.C07"]) + ["GoDcp.Props.C07Epoch"]
PROPS["C07"]["rule"] += (
    " c07rm also: every simulated cluster starts at config revision (revEpoch 2, rev 100); step e:E:R:ABS:ORDER publishes the config under revision (E,R) "
    "with a changed vBucket-map row (an unlisted replica becomes listed and lags, a copy is dropped or moves): new epoch with a smaller / equal / larger rev, "
    "next rev of the same epoch (all to be adopted: table rebuilt from the NEW row), older epoch with a larger rev, the same revision again, smaller rev of the "
    "same epoch (all to be ignored: no restart, no dispatch)"
)
PROPS["C07"]["assumptions"] = PROPS["C07"]["assumptions"] + [
    "'listed in the cluster map' = listed in the map of the NEWEST config the cluster published, newest in the lexicographic order on (revEpoch, rev) that gocbcore "
    "itself applies (routeConfig.IsNewerThan): a quorum-loss fail-over starts a new revision epoch and restarts the rev counter. A config of an OLDER epoch never "
    "reaches go-dcp (gocbcore drops it), so that branch of isConfigSnapshotNewerThan is covered by the theorems and by the differential run only through gocbcore",
]
PROPS["C07"]["level_text"] += (
    " Config revisions (Props/C07Epoch): isNewer mirrors isConfigSnapshotNewerThan/getRevEpochAndID and is the strict lexicographic order on (revEpoch, rev) "
    "(isNewer_iff; irreflexive, transitive, asymmetric, trichotomous), newer_epoch_wins / older_epoch_loses (the epoch decides whatever the rev); "
    "config_adopted_rebuilds_table - an adopted config rebuilds the per-copy state from the NEW row (generation+1, all entries zero, absent exactly the unlisted "
    "indices) and getMinSeqNo stays 0 while any copy the new row lists has not reported; config_ignored_keeps_layout; config_new_epoch_adopted; the monitor clause "
    "C07.stale-copy-layout (a dispatched value the new layout does not cover and the layout before the config does) accepts the model (rmCheckL_model)."
)
