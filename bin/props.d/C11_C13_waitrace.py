# the micro-step stop-token stream `life-wait` (harness/l1_waitrace.go, Driver/WaitRace.lean, Model/WaitRace.lean):
# the real stream.go under deterministic micro-schedules through schedule points inserted into an instrumented COPY of /repo's
# working tree at check time (harness/inject; nothing is committed to /repo); theorems Props/WaitRace (prompt_safe + the refutations that make up finding F16)
_WR_RULE = (" | life-wait: the real stream under the L1 fakes with every wait() goroutine, every stream-end delivery and Close parked at the "
            "schedule points that harness/inject inserts into a copy of the working tree (wait.start / wait.token / wait.before-stop, end.start / end.before-send, close.before-send; plus the "
            "callbacks AfterStreamStart and AfterStreamStop and the fake's CloseStream as optional parking places of the control thread); one op releases one "
            "parked goroutine or starts one control procedure (Open, Rebalance(), timer -> rebalance(), dcp.close -> Close) and waits - by condition "
            "polling with a 2 s deadline, no sleeps - until it is parked again or has returned; the next op is drawn from what is parked: ~65% of the "
            "cases stay inside the scheduler restrictions of prompt_safe (Prompt, EndsDrained, StopThenClose), the rest are free schedules that hit "
            "the F16 variants (spurious stop after a rebalance, close of closed channel, stale token across Open, end of an older session counted by "
            "the next one, send blocked on a full channel). Observation per op: callback trace, stopCh closed, IsOpen, activeStreams, where the "
            "control thread / each wait() goroutine / each delivery is parked. A goroutine that reaches `wait.before-stop` with stopCh already closed "
            "is reported as res=double-close and kept parked for ever instead of letting the process die (thorough tier: one child process in which "
            "the panic really happens, exit status checked). Monitor clauses on the real trace: C11.spurious-stop, C12.double-close, C12.stale-token, "
            "C12.stopped-before-all-ended, C12.last-end-lost; a failing clause is a KNOWN-FINDING F16 only when the schedule left the restrictions AND "
            "the model predicts exactly the observed line, a VIOLATION otherwise. non-trivial = more than 8 ops")
_WR_ASSUME = ["life-wait / Model/WaitRace.lean: Open, Rebalance(), rebalance() and dcp.close() are serialised (one control thread); individual field accesses are "
              "sequentially consistent; a transient stream end that is re-requested disappears (F9a outside); server >= 5.5.0 (no streamEndNotSupportedData)",
              "prompt_safe's hypotheses are scheduler restrictions the code does not enforce: Prompt (no control step while a wait() goroutine can move, except arming "
              "the timer), EndsDrained (Close shuts the observers' END gate only when no delivery is inside listenEnd - gocbcore runs CloseStream's callback on "
              "the response, the STREAM_END arrives later on the same connection goroutine, so this is NOT guaranteed with a real node), StopThenClose "
              "(after stopCh is closed dcp.Start goes straight to close())"]
for _p in ("C11", "C12"):
    _c = PROPS[_p]
    _c["streams"] = _c["streams"] + ["life-wait"]
    _c["instrumented"] = ["life-wait"]
    _a = _c.get("audit", _p + ".lean")
    _a = [_a] if isinstance(_a, str) else list(_a)
    _c["audit"] = _a + ["WaitRace.lean"]
    _c["modules"] = _c.get("modules", ["GoDcp.Props." + _p]) + ["GoDcp.Props.WaitRace"]
    _c["rule"] = _c["rule"] + _WR_RULE
    _c["assumptions"] = _c["assumptions"] + _WR_ASSUME
    _c["level_text"] = _c["level_text"] + (" Below the macro steps: Model/WaitRace.lean is a micro-step model of the stop-token protocol (every shared access of wait / listenEnd / "
        "Close / Open / Rebalance is one step, any number of wait() goroutines and in-flight stream ends); prompt_safe proves for ALL schedules that respect Prompt, EndsDrained "
        "and StopThenClose: stopCh is closed at most once and only with justification, at most one wait() goroutine lives and it belongs to the current session, no token "
        "survives into an Open, no send finds its channel full; each hypothesis is shown necessary by a concrete schedule (spurious_stop_after_rebalance_refuted, "
        "double_close_refuted, stale_token_refuted, last_end_does_not_stop_refuted, double_close_after_stop_refuted = finding F16), and the same schedules are replayed "
        "deterministically on the real code by the stream life-wait (instrumented copy of the working tree, harness/inject).")
