PROPS["C08"] = {
    "streams": ["l2smoke", "c08"],
    "rule": "rb-case: one real couchbase.Client.OpenStream against the simulated node per line, scripted first answer "
            "(ROLLBACK(R)/ok/error), failover-log query (log/error), second answer (ok+second log/error/ROLLBACK), then a generated "
            "server event sequence through a real couchbase.NewObserver; observed = logged DCP_STREAM_REQ extras, OpenStream result, "
            "delivered (kind, seq, offset uuid+snapshot). Exhaustive: all logs of 1..3 entries with starts 0..3 x all R in 0..4 "
            "(thorough 1..4 entries, starts 0..4); directed: all positions of F in 0..6 against one re-sent snapshot; random: "
            "F (small and near 2^32/2^53/2^63/2^64), R<=F (4% R>F flagged), logs of 1..8 entries 60% well-formed, event sequences "
            "none / with F / skipping F / all<=F / all>F, 6% with a non-increasing pair (flagged, outside the quantifier). "
            "non-trivial = rollback answered, query ok, reopen ok and (events or >=2 log entries); distinct = distinct (op, output). "
            "l2smoke: 15 constant steps through the whole real client surface against the simulated node",
    "assumptions": ["rollback mitigation disabled and Dcp.Listener.SkipUntil unset (those gates are C07 / C03)",
                    "the server's success answer to a stream request carries at least one failover entry (an empty one makes "
                    "failOverLogs[0] panic inside gocbcore's goroutine; modelled as failstop, never executed)",
                    "every document event lies inside the snapshot announced before it (else observer.IsInSnapshotMarker panics; "
                    "modelled as failstop, never executed)",
                    "'nothing at or below F is shown again' additionally needs strictly increasing seqnos of the streamed events "
                    "(DCP's contract without OSO backfill, which go-dcp does not enable); refutation without it is proved",
                    "the last sentence of C08 (start-up fails) is checked at the client boundary: OpenStream returns the error; "
                    "the stream layer's fail-stop on that error belongs to C15"],
    "design_ref": "DESIGN.md §7 C08",
    "level_text": "Kernel-checked theorems (Props/C08) about the model of client.OpenStream/openStreamWithRollback and the observer's catch-up filter, for ALL failover logs, R, F and event sequences: the scan loop returns the newest entry with start<=R (0 if none), for well-formed logs that entry exists, contains R and is unique; the second request is exactly (flags 0, that uuid, R, same end, [R,R]); delivered events = streamed events with seq>F (given increasing seqnos; 'everything >F is shown' unconditionally); offsets carry the head uuid of the second response; any failure of the query or the second request is returned. The monitor Spec.C08.holds is proved to accept the model's output and is evaluated on every real trace; the model is tied to the real code by a differential run of the unmodified client and observer against a simulated Couchbase node.",
    "level_note": "trusted: Lean kernel; the ~150-line model (Model/Rollback.lean); the simulated node (harness/sim, gocbcore's memd codec) and the differential run as the tie; gocbcore's dispatch order (response callback before later packets) is exercised, not modelled; panics inside gocbcore goroutines (empty failover log, event outside snapshot) are modelled as failstop but never executed",
}

