# regenerated source facts (DESIGN.md §3.4): the go/ast fact pass `srcfacts` re-reads /repo on every run; each property
# looks only at the fact lines tagged with its id (`src-fact C05+C13.<name>`); unrecognised shapes print `unknown` on both sides
for _p in ("C01", "C02", "C03", "C04", "C05", "C06", "C07", "C08", "C10", "C11", "C12", "C13", "C14", "C15", "C18", "C19"):
    _c = PROPS[_p]
    _c["streams"] = _c["streams"] + ["srcfacts"]
    _f = _c.get("op_filter")
    _f = dict(_f) if isinstance(_f, dict) else {}
    _f["srcfacts"] = r"^src-fact [C0-9+]*" + _p + r"[+.]"
    _c["op_filter"] = _f
    _cp = _c.get("compare_parts")
    if isinstance(_cp, list):   # a plain list applies to every stream: keep the fact lines whole
        _c["compare_parts"] = {s: _cp for s in _c["streams"] if s != "srcfacts"}
    _a = _c.get("audit", _p + ".lean")
    _a = [_a] if isinstance(_a, str) else list(_a)
    _c["audit"] = _a + ["SrcFacts.lean"]
