PROPS["C17"] = {
    "streams": ["c17"],
    "rule": "cfg-defaults: reflection over config.Dcp, any subset of the leaf options set to random non-zero values "
            "(each option alone exhaustively, all set, random subsets at 5 densities), env overrides unset/valid/invalid, "
            "logger injected or not, real ApplyDefaults applied twice and every leaf dumped; cfg-meta/-member/-elector/-file: "
            "random main settings + override maps incl. unknown keys and malformed values against the real Get* functions; "
            "cfg-start: the public constructor dcp.NewDcp on a struct whose hosts name a dead port (120 ms time-outs): what the caller's struct and the maps it shares hold "
            "afterwards (dump + the derived metadata / membership / elector views) must be exactly what ApplyDefaults alone leaves - start-up (print of the configuration included) alters nothing; "
            "cfg-size: grammar-generated size strings (all unit spellings, blanks, '.'/',', signs) inside the float-exact set "
            "mant*1024^k < 2^53, an exhaustive small grid, plain integers up to int64, a malformed list and mutations; "
            "cfg-envsubst: YAML files with ${VAR} layouts (quoted, plain, chained values, weird names/literals) through the real "
            "newDcpConfig (hook VerifNewDcpConfig); non-trivial = at least one option/override/variable set; "
            "distinct = distinct (op, output) lines",
    "assumptions": [
        "size strings: the code goes through float64 (ParseFloat, then * 2^(10k)); model and code agree (argued, not proved) when "
        "mantissa*10^max(exp,0)*1024^k < 2^53; generators stay inside; ParseFloat special forms (inf, nan, hex floats, '_') and "
        "results outside int64 are reported by the model as 'uncovered' and never generated",
        "time.ParseDuration fractions: exact when unit/scale is an integer (generators: <= 3 fractional digits on units >= us)",
        "logging.level and unit letters are ASCII (Lean lower/upper-casing is ASCII-only)",
        "${VAR}: only the substitution is modelled; YAML is not: values are placed in double-quoted scalars without quote and backslash "
        "(or plain scalars over [A-Za-z0-9-_./]) so that the parsed option equals the substituted text; the theorem "
        "substEnv_all_occurrences covers literals and values without '$' (monitor evaluated there), the model comparison also "
        "covers values/literals containing '$', '${', '}'",
        "the global logger.Log is an explicit Bool parameter; the second ApplyDefaults always runs with a logger present",
    ],
    "design_ref": "DESIGN.md §7 C17",
    "level_text": "Kernel-checked theorems (Props/C17): for ANY defaults table with distinct paths fills_unset, preserves_set, "
                  "idempotent, env_precedence; for the concrete go-dcp table (26 entries + logging) C17_fills_unset / "
                  "C17_preserves_set / C17_env_precedence / C17_idempotent / C17_panic_iff for all configurations, env values "
                  "and logger states, and holdsDefaults_model (the model always passes the monitor); "
                  "derived_inherit_unless_overridden for the three Get* structs; resolveSize_units (= trunc(d*1024^k) for "
                  "every well-formed size string, any case/blanks/separator/sign) and plain_int_identity over exact "
                  "rationals; substEnv_all_occurrences; readme_agrees (decide) ties the table to README.md. The models are "
                  "tied to the real ApplyDefaults, Get*, ResolveUnionIntOrStringValue and newDcpConfig by a differential "
                  "run on every check with the monitors evaluated on the real observations.",
    "level_note": "trusted: Lean kernel, the models (Model/Config, Units, EnvSubst ~630 lines), README transcription (Spec/C17.readme), "
                  "the differential run as the tie; float64 vs exact rationals only inside the stated set; YAML library and "
                  "os env not modelled; two README/code disagreements proved and listed (dcp.mode, dcp.group.membership.type)",
}
