# C15: "… after the bounded retries on re-open the client terminates; it never runs a session that silently covers only part of its assignment":
# the re-open path of the life-cycle stream (transient ends, also nested ones and ones whose re-request is held) - every transient end is
# followed by a re-request of that vBucket from its current position
_c = PROPS["C15"]
_c["streams"] = _c["streams"] + ["life-end"]
_of = dict(_c.get("op_filter") or {})
_of["life-end"] = r"^lf-end \d+ transient"
_c["op_filter"] = _of
_c["retry_divergence"] = max(2, _c.get("retry_divergence", 0))
_c["rule"] = _c["rule"] + " | life-end (only its transient stream ends): every re-openable end is followed by a stream request for that vBucket, also when the re-requested stream ends again before the first re-open has returned"
