PROPS["C18"] = {
    "streams": ["c18", "c18gate"],
    "rule": "c18gate (L2): the real dcp.NewDcp against a simulated node reporting a version text (GET /pools) and a storage back end: the DCP_CONTROL keys the library negotiates (enable_expiry_opcode = gate 6.5.0, change_streams = gate 7.2.0 on Magma) for every version within one step of the two gates in the text forms a server reports, both back ends, and random versions; | ver-cmp / ver-tri: real (*couchbase.Version).Higher/Equal/Lower on both orders of a pair / all six ordered pairs of a triple; "
            "ver-gate: the exported gate expressions of newDcp plus the decision the real stream.NewStream takes, for two versions; "
            "ver-parse / ver-render: nodeVersionFromString through the exported NewHTTPClient(...).GetVersion() against a local /pools server; "
            "ver-gates-src: truth tables of the three gate conditions read from dcp.go and stream/stream.go with go/parser. "
            "Inputs: every version within +-2 (each component) of 5.5.0-0, 6.5.0-0, 7.2.0-0 against its gate constant and a one-step neighbour, "
            "random pairs/triples inside those grids, random pairs/triples with shared prefixes, negatives and values up to +-2^63; "
            "rendered strings in the five forms M, M.m, M.m.p, M.m.p-b, M.m.p-b-edition (components up to and beyond 2^63) and a grammar of "
            "malformed strings (missing parts, signs, blanks, non-digits, non-ASCII digits, huge numbers, extra dots/dashes, empty, absent member). "
            "non-trivial = the two versions differ (cmp), at least two distinct pairs (tri), every gate/parse line; distinct = distinct (op, output) lines",
    "assumptions": ["Go int is 64 bit (strconv.IntSize reported by the harness on every run and compared with the model's 64)",
                    "version components are modelled as unbounded Int; the real fields are int64, comparison agrees on the common range",
                    "parse_render needs every component < 2^63 (beyond that the code rejects major/minor/patch and clamps build; proved and replayed)",
                    "the gates inside newDcp are not executed at L0 (needs a server): tied by ver-gates-src (source-level truth tables, `unknown` accepted when "
                    "a condition leaves the recognised Boolean language); the NewStream gate is executed for real"],
    "design_ref": "DESIGN.md §7 C18",
    "level_text": "Kernel-checked theorems (Props/C18) prove for ALL versions over Int^4 (no bound) that the model of Higher/Equal/Lower is a strict total order: exactly one of lower/equal/higher holds, Higher is irreflexive, asymmetric, transitive and equals the lexicographic order on (major, minor, patch, build), Equal is tuple equality, Lower v w = Higher w v; that the three gates are threshold predicates (>= 6.5.0, Magma and >= 7.2.0, < 5.5.0) and hence monotone / antitone in the version; and, for ALL naturals M m p b < 2^63 and EVERY edition text, that the statement-by-statement model of nodeVersionFromString (with strings.Split and strconv.Atoi including sign, syntax and range errors) maps M, M.m, M.m.p, M.m.p-b and M.m.p-b-edition to the tuple they denote (decimal round trip proved without bound; behaviour beyond 2^63 proved as refutation). The model is tied to the real code on every run by a differential run over a dense grid around every gate, random pairs/triples and a grammar of well-formed and malformed strings, with the decidable monitors of Spec/C18 evaluated on the real answers.",
    "level_note": "trusted: Lean kernel, the model of version.go (~150 lines incl. Split/Atoi), the differential run as the tie; the newDcp gate conditions are tied at source level only (go/parser truth tables)",
}
