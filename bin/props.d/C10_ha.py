# C10, leader-assigned (kubernetesHa) variant END TO END: stream `c10ha` = real servicediscovery.NewServiceDiscovery + real
# rpc client / server over TCP (Register / Ping / Rebalance) + real stream/leader_election.go handler + real
# kubernetes.NewLeaderElector (client-go leader election on an in-memory Lease) + real kubernetes.NewHaMembership,
# several instances per scenario; model Model/HaMembership.lean, theorems Props/C10Ha.lean (+ C10HaRefute, C10HaOrphan)
_c = PROPS["C10"]
_c["streams"] = _c["streams"] + ["c10ha"]
_a = _c.get("audit", "C10.lean")
_a = [_a] if isinstance(_a, str) else list(_a)
_c["audit"] = _a + ["C10Ha.lean"]
_c["modules"] = list(_c.get("modules", ["GoDcp.Props.C10"])) + ["GoDcp.Props.C10Ha", "GoDcp.Props.C10HaRefute", "GoDcp.Props.C10HaOrphan"]
_c["rule"] = _c["rule"] + (
    " c10ha (L1, end to end): per scenario one child process in its own network namespace with 1..5 INSTANCES, each = real "
    "servicediscovery.NewServiceDiscovery + StartHeartbeat + StartMonitor (dcp.go l.132-134), real stream.NewLeaderElection (handler "
    "OnBecomeLeader / OnResignLeader / OnBecomeFollower), real servicediscovery.NewServer(8081, identity, sd).Listen() (net/rpc over TCP; "
    "every listener lives on an OS thread with its own private network namespace because rpc_server.go binds ':port' and Handler.Register "
    "dials back to <follower IP>:<own port>; the harness forwards 127.0.0.(10+i):8081 into it, reads the caller's name out of the first "
    "gob request and can cut / refuse connections per pair), real kubernetes.NewLeaderElector on a kubernetes.Client whose CoordinationV1() "
    "is an in-memory Lease (Get / Create / Update with resourceVersion conflicts; client-go's fake clientset does not compile offline) "
    "shared by the instances - the REAL client-go election runs (lease 1 s / renew deadline 0.8 s / retry 0.1 s), the store only decides "
    "which candidate wins -, real kubernetes.NewHaMembership. leaderElection.Start() cannot be used (kubernetes.NewClient() needs an "
    "in-cluster config): its six lines (identity, NewServer, Listen, NewLeaderElector, Run) are re-stated in the harness, the private field "
    "myIdentity it fills is set by reflection. Scripts on a 5 s grid (the loops sleep a hard-coded 5 s): kill (silent death), restart "
    "under the same name/IP with a new or the SAME join time, connection loss follower<->leader, leader death with a designated successor "
    "(the followers' heartbeat bodies find the leader dead first, as with the default lease), TRANSIENT PARTITIONS of followers from the "
    "leader lasting one or two periods (every connection lost, new ones refused, then healed: the follower must hold a number again one "
    "period after the heal - finding F17, fixed by 39ec43d, replay corpus/C10/F17.ops runs first), leader death + restart while the election is "
    "held back, slow pod labelling (the promotion callback runs AFTER the followers registered); 26 fixed + 8 (quick) / 90 (thorough) "
    "generated scripts with ties in the join times, all scenarios concurrently; observed at every checkpoint (4 s into each period), per "
    "instance: role label, GetInfo (non-blocking: only after a bus event), GetAll; the op line carries the schedule (callbacks and loop "
    "bodies in nominal order) that the Lean LTS runs; monitor clauses C10.ha-one-leader / ha-admitted / ha-dropped / ha-total / ha-distinct "
    "at checkpoints where the model state is quiescent or a whole period passed without event under a living lease holder with no partition in force, C10.ha-range "
    "everywhere; a scenario during which the process was starved > 200 ms is re-run (3x) and else dropped (count in the evidence). "
    "harness/testdata/c10ha_refutations.ops replays the refutations of Props/C10HaRefute on the real code (not part of the run: their "
    "stable checkpoints FAIL C10.ha-admitted on the unchanged tree)")
_c["assumptions"] = list(_c["assumptions"]) + [
    "c10ha: a loop body / an election callback is one atomic step (the heartbeat body also in its three parts: follower part, ping pass, "
    "remove pass); two interleavings INSIDE a body crash the real process with a nil dereference (Ping retry or ReassignLeader overlapping "
    "RemoveLeader -> client.Close()): seen on the real code with a 1 s lease, not representable in the model, never scheduled by the generator",
    "c10ha: the client-go election itself (who acquires, when a lease counts as expired) is environment: the model's `acquire` / `lose` "
    "actions are unconstrained, the theorems hold for all of their orders; the real client-go code runs in the harness",
    "c10ha: a dead process answers with connection reset / refused (the host is up), not with silence: net/rpc has no time-outs, a silent "
    "peer blocks the heartbeat loop for the TCP keep-alive time",
]
_c["level_text"] = _c["level_text"] + (
    " Leader-assigned variant end to end (Model/HaMembership: an LTS over n instances - election callbacks, rpc Register, heartbeat and "
    "monitor bodies, death / restart, connection loss; Props/C10Ha, for ALL schedules, group sizes, join times): wf_run - the connection "
    "bookkeeping invariants of every reachable state; ha_quiescent_numbering - in every reachable state, IF quiescent (one live lease holder L "
    "promoted, every live instance has observed L, every live follower registered at L under its current join time over a working "
    "connection, L ran a complete monitor round since the last change) THEN all live instances hold the same total = |live|, numbers "
    "pairwise distinct and exactly 1..total, L holds 1, a follower that joined strictly earlier holds the strictly smaller number (ties in "
    "map order); ha_convergence_bounded - from every reachable Recoverable state one heartbeat body per live follower (any order), one of the "
    "leader and ONE monitor body of the leader (|live|+1 bodies = one 5 s period) reach a quiescent state: dropped / admitted within one "
    "monitor round; ha_convergence_after_election - likewise from ANY reachable state once a live instance holds the lease and the "
    "election callbacks are delivered; quiescentB_iff - the driver's test is the predicate. Refuted with concrete schedules, each replayed "
    "on the real code with identical observations (Props/C10HaRefute, harness/testdata/c10ha_refutations.ops): a LIVING leader that loses "
    "the lease keeps 1/n for ever (client-go's Run returns, nothing restarts it) while the new leader numbers the rest; a follower that "
    "re-registers between the ping pass and the remove pass of the leader's heartbeat body is removed BY NAME and never numbered again; "
    "orphan_stays (Props/C10HaOrphan) - for every schedule of loop bodies an instance without leaderService stays out and keeps its stale "
    "numbering. Finding F17 (a follower whose ONE heartbeat body could not reach the leader dropped leaderService for good), fixed by "
    "39ec43d: ha_orphan_follower_refuted is the statement about the code before the fix (runOld), the model is the repaired code: "
    "hbFollow_keeps_leader, and ha_partition_heals - from every reachable state in which a live follower lost its registration through failed "
    "heartbeat bodies and the leader is reachable again, ONE heartbeat body of the follower + ONE monitor body of the leader (2 bodies) "
    "re-establish quiescence.")
_c["level_note"] = _c["level_note"] + (
    "; c10ha: atomic loop bodies / callbacks, client-go election as environment, real-time grid with >= 350 ms margins and a "
    "scheduler-lag probe; F17 repaired; the lease-loss and remove-by-name refutations are outside the quantifier (not generated)")
