_LIFE_RULE = ("real stream.NewStream under the L1 fakes, scheduled on a 200 ms real-time grid with rebalance delay 250 ms "
              "(timer deadlines fall 50 ms off the sampling grid; a diverging case is re-run up to 2 more times and only a persistent divergence counts): "
              "generated op lists of membership changes, notifications from the bus path / API path (guarded by IsOpen) / with 1-2 more notifications landing "
              "inside Close, ticks, events, saves, stream ends of every cause, shutdown; observables: EventHandler callback order, OpenStream/CloseStream "
              "log, deliveries, stopCh, active-stream and rebalance counters. non-trivial = more than 6 ops; distinct = distinct op/observation histories")
_LIFE_ASSUME = ["macro-step granularity: one op = one step the harness can schedule; the wait() goroutine is prompt (WaitPrompt); micro-interleavings below that "
                "(DESIGN.md §6 F9b) are outside the model and its theorems",
                "Go timers: AfterFunc / Stop / Reset semantics as modelled; two timers within ~1 ms of each other are ordered by arming time (the harness keeps them >= 30 ms apart)",
                "after stopCh is closed only shutdown is scheduled (dcp.Start proceeds to close())",
                "the fake client answers CloseStream with End(ErrDCPStreamClosed) synchronously, as the server does asynchronously"]
PROPS["C11"] = {
    "streams": ["life-reb"], "audit": ["C11.lean", "C11Run.lean"], "modules": ["GoDcp.Props.C11", "GoDcp.Props.C11Run"], "retry_divergence": 2, "timeout": 900,
    "rule": _LIFE_RULE, "assumptions": _LIFE_ASSUME, "design_ref": "DESIGN.md §7 C11, §6 F5 F9a F9b",
    "level_text": "Lean model of Open/Close/Rebalance/rebalance/wait/listenEnd with Go timer semantics (Model/Life.lean), validated against the real stream on every run; kernel-checked: a notification inside the window only postpones the reopen to now+delay (notify_in_window_debounces), the full 'one cycle per burst' statement is refuted for the first-ever rebalance (one_cycle_per_burst_full_refuted = finding F5), run-level invariants (callbacks bracketed, no delivery while closed, reopen on the latest membership, exactly one cycle per burst outside F5) in Props/C11Run when present. The Lean monitor (callback automaton, no-delivery-while-closed, fail-stop and F5 classifiers) runs on every real trace.",
    "level_note": "partial: macro-step model (WaitPrompt hypothesis), F5 and F9a are known findings; trusted: Lean kernel, Model/Life.lean, the real-time L1 harness with its margins",
}
PROPS["C12"] = {
    "streams": ["life-end"], "audit": ["C12.lean", "C12Run.lean"], "modules": ["GoDcp.Props.C12", "GoDcp.Props.C12Run"], "retry_divergence": 2, "timeout": 900,
    "rule": _LIFE_RULE, "assumptions": _LIFE_ASSUME + ["finite mode: the server ends a stream with OK exactly after the last event <= the requested end (simulated-node behaviour)"],
    "design_ref": "DESIGN.md §7 C12",
    "level_text": "Kernel-checked decision logic of listenEnd on the validated life-cycle model: a transient end while running re-requests the vBucket from its current position and leaves the count alone, every other end decrements the active count by exactly one, stopCh is closed at a final end iff it was the last one and the stream is neither rebalancing nor already stopped, ends after Close are ignored; tied to the real code by generated end-cause sequences over 1-4 vBuckets (each transient and final cause) with the OpenStream log, active count and stopCh compared.",
    "level_note": "partial: F9a (a reopen retry loop spanning a rebalance close kills the client) is a known finding outside the generated histories; trusted: Lean kernel, Model/Life.lean, L1 harness",
}
PROPS["C13"] = {
    "streams": ["life-shut", "life-trail", "c07gate", "sess-save"],
    # of the rollback-mitigation gate stream only the scripts that close the stream matter here: waiting events are released WITHOUT delivery
    # of the save-protocol stream only the steps where a second save runs into an in-flight one (the shape of dcp.close()'s final save
    # arriving while a periodic save is slow): it must wait and then save
    "op_filter": {"c07gate": r" c( |$)", "sess-save": r"^sv \d+ lockwait"},
    "clauses": ["C13", "C07.not-released", "C07.unsafe-delivery", "C05.concurrent-save-dropped"], "audit": ["C13.lean", "C13Run.lean"], "modules": ["GoDcp.Props.C13", "GoDcp.Props.C13Run"], "retry_divergence": 2, "timeout": 900,
    "rule": _LIFE_RULE, "assumptions": _LIFE_ASSUME + ["Close() = the stream-level part of dcp.close (Save when checkpoint.type=auto, then stream.Close); bounded time is measured by the harness, not proved"],
    "design_ref": "DESIGN.md §7 C13, §6 F4 F6",
    "level_text": "Kernel-checked on the validated life-cycle model: stream.Close crashes exactly when the observers map is nil (doClose_none_iff), otherwise it closes every vBucket stream, closes the observers (no later delivery, later ends ignored) and emits no fail-stop (doClose_clean); the full statement is refuted inside the rebalance window (close_terminates_full_refuted = finding F4). Tied to the real code by shutdowns injected after open, mid-history and at every step of a rebalance.",
    "level_note": "partial: F4 (Close inside a rebalance window) is a known finding; F6 (one trailing periodic save after Close) was repaired by fix: 06b98a1 and stays in the corpus; trusted: Lean kernel, Model/Life.lean, L1 harness",
}
