_LIFE_RULE = ("real stream.NewStream under the L1 fakes, scheduled on a 200 ms real-time grid with rebalance delay 250 ms "
              "(timer deadlines fall 50 ms off the sampling grid; a diverging case is re-run up to 2 more times and only a persistent divergence counts): "
              "generated op lists of membership changes, notifications from the bus path / API path (guarded by IsOpen) / with 1-2 more notifications landing "
              "inside Close, ticks, events, saves, stream ends of every cause, shutdown; observables: EventHandler callback order, OpenStream/CloseStream "
              "log, deliveries, stopCh, active-stream and rebalance counters. non-trivial = more than 6 ops; distinct = distinct op/observation histories")
_LIFE_ASSUME = ["macro-step granularity: one op = one step the harness can schedule; the wait() goroutine is prompt (WaitPrompt); micro-interleavings below that "
                "(DESIGN.md §6 F9b) are outside the model and its theorems",
                "Go timers: AfterFunc / Stop / Reset semantics as modelled; two timers within ~1 ms of each other are ordered by arming time (the harness keeps them >= 30 ms apart)",
                "after stopCh is closed only shutdown is scheduled (dcp.Start proceeds to close())",
                "the fake client answers CloseStream with End(ErrDCPStreamClosed) synchronously, as the server does asynchronously"]
PROPS["C11"] = {
    "streams": ["life-reb"], "audit": ["C11.lean", "C11Run.lean"], "modules": ["GoDcp.Props.C11", "GoDcp.Props.C11Run"], "retry_divergence": 2, "timeout": 900,
    "rule": _LIFE_RULE, "assumptions": _LIFE_ASSUME, "design_ref": "DESIGN.md §7 C11, §6 F5 F9a F9b",
    "level_text": "Lean model of Open/Close/Rebalance/rebalance/wait/listenEnd with Go timer semantics (Model/Life.lean), validated against the real stream (L1, real-time) and the real dcp.Dcp (L2, simulated node, notifications through the dcp's own bus) on every run. Kernel-checked for ALL op lists (Props/C11, C11Run over the phase invariant of Proofs/LifeLemmas): callbacks_bracketed (the callback trace is accepted by BSS ASS (BRS [BSP ASP] ARS BRE BSS ASS ARE)* [BSP ASP], the same automaton the run-time monitor uses: cbStep_eq_cbNext), no_delivery_while_closed, rebalance_never_stops_client / no_stop_in_window / rebalance_never_kills_client (under WaitPrompt), reopen_uses_latest_membership (the requests at a reopen are exactly the range of the membership current at that firing, from the stored seqnos), window_opens_with_delay + notify_in_window_postpones + nothing_fires_before_deadline (reopen no earlier than delay after the last notification), one_cycle_per_burst_partial under the two decidable classifiers (first-timer-nil = finding F5, timer-reassigned), with the full statement refuted (one_cycle_per_burst_full_refuted, one_cycle_per_burst_reassigned_refuted).",
    "level_note": "partial: macro-step model (WaitPrompt hypothesis), F5 and F9a are known findings; trusted: Lean kernel, Model/Life.lean, the real-time L1 harness with its margins",
}
PROPS["C12"] = {
    "streams": ["life-end"], "audit": ["C12.lean", "C12Run.lean"], "modules": ["GoDcp.Props.C12", "GoDcp.Props.C12Run"], "retry_divergence": 2, "timeout": 900,
    "rule": _LIFE_RULE, "assumptions": _LIFE_ASSUME + ["finite mode: the server ends a stream with OK exactly after the last event <= the requested end (simulated-node behaviour)"],
    "design_ref": "DESIGN.md §7 C12",
    "level_text": "Kernel-checked on the validated life-cycle model (Props/C12, C12Run): a transient end while running re-requests the vBucket from its current position - which is the last delivered-and-settled seqno of that vBucket (transient_reopens_from_settled) - and leaves the count alone; every other end decrements the active count by exactly one; active_eq / active_counts_unfinished: under the server hypothesis EndsOnce the count is the number of assigned vBuckets not yet finally ended; stop_iff_last_final_end / stops_iff_all_final: the stream stops on its own exactly at the end that finishes the last assigned vBucket, never earlier and never while rebalancing; ends after Close are ignored. Tied to the real code by generated end-cause sequences over 1-4 vBuckets (each transient and final cause, re-requests held in flight while the others end, ends during start-up) with the OpenStream log, active count and stopCh compared, and by the monitor clauses C12.stopped-before-all-ended / not-stopped-when-all-ended / reopen-not-from-position.",
    "level_note": "partial: F9a (a reopen retry loop spanning a rebalance close kills the client) is a known finding outside the generated histories; trusted: Lean kernel, Model/Life.lean, L1 harness",
}
PROPS["C13"] = {
    "streams": ["life-shut", "life-trail", "c07gate", "sess-save", "c07rm"],
    # of the rollback-mitigation gate stream only the scripts that close the stream matter here: waiting events are released WITHOUT delivery
    # of the save-protocol stream only the micro-steps of savers (a second save running into an in-flight one is the shape of dcp.close()'s
    # final save arriving while a periodic save is slow): it must wait, and what it then writes must cover what was settled before it was called
    # of the rollback-mitigation polling stream only the Stop()-during-a-slow-round scenarios: stream.Close calls rollbackMitigation.Stop() first,
    # so a Stop() that hangs (or polling that goes on after it) is a shutdown that is not clean (model + theorems: Model/RmStop, Props/C13Rm)
    "op_filter": {"c07gate": r" c( |$)", "sess-save": r"^sv \d+ ", "c07rm": r"^rm-stop-slow "},
    "clauses": ["C13", "C07.not-released", "C07.unsafe-delivery", "C05.concurrent-save-dropped"], "audit": ["C13.lean", "C13Run.lean", "C13Rm.lean"], "modules": ["GoDcp.Props.C13", "GoDcp.Props.C13Run", "GoDcp.Props.C13Rm"], "retry_divergence": 2, "timeout": 900,
    "rule": _LIFE_RULE, "assumptions": _LIFE_ASSUME + ["Close() = the stream-level part of dcp.close (Save when checkpoint.type=auto, then stream.Close); bounded time is measured by the harness, not proved"],
    "design_ref": "DESIGN.md §7 C13, §6 F4 F6",
    "level_text": "Kernel-checked on the validated life-cycle model (Props/C13, C13Run): shutdown_from_A_clean (from every reachable streaming state: no fail-stop, every stream closed, stopped), after_shutdown_quiet / after_shutdown_no_delivery (no delivery, request or write after it), final_save_covers_settled (auto: every dirty vBucket ends up stored at its position), close_failstops_iff = the exact characterisation of finding F4 (Close inside the rebalance window), shutdown_in_window_failstop, close_terminates_partial outside it, shutdown_idempotence, reb_timer_after_shutdown_failstops. Tied to the real code by shutdowns injected after open, mid-history and at every step of a rebalance (L1), through the real dcp.Dcp against the simulated node incl. the final save (L2), the trailing-save scenario (F6, repaired), gate scripts that close while events wait at the rollback-mitigation gate, and a save running into an in-flight save.",
    "level_note": "partial: F4 (Close inside a rebalance window) is a known finding; F6 (one trailing periodic save after Close) was repaired by fix: 06b98a1 and stays in the corpus; trusted: Lean kernel, Model/Life.lean, L1 harness",
}
