# C12's recovery clause ("a vBucket whose stream ended with a re-openable cause is reopened from its latest settled position") is also judged
# on the session streams: their `reopen VB` op is a transient stream end on the REAL stream with the full re-request tuple
# (vbUUID, seqno, snapshot start / end, requested end) in the observation - positions there move through acknowledgements, saves,
# rebalances and finite / infinite mode, which the life-cycle streams do not vary
_c = PROPS["C12"]
_c["streams"] = _c["streams"] + ["sess-base", "sess-crash"]
_of = dict(_c.get("op_filter") or {})
_of.update({"sess-base": r"^reopen ", "sess-crash": r"^reopen "})
_c["op_filter"] = _of
_c["rule"] = _c["rule"] + (" | sess-base / sess-crash (only their `reopen VB` ops): a transient end inside generated session histories; the stream request the real "
                           "code then sends (vbUUID, seqno, snapshot, end = the end sampled at open in finite mode) against the session model's")
