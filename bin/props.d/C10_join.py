# C10, couchbase variant: a NEW instance registers between another member's index read and its CAS-guarded write-back
# (op `mb-cb-joinwrite` of stream c10cb: harness/l2_membership_join.go, Driver/MembershipJoin.lean, Props/C10Join.lean)
_c = PROPS["C10"]
_a = _c.get("audit", "C10.lean")
_a = [_a] if isinstance(_a, str) else list(_a)
_c["audit"] = _a + ["C10Join.lean"]
_c["modules"] = list(_c.get("modules", ["GoDcp.Props.C10"])) + ["GoDcp.Props.C10Join"]
_c["rule"] = _c["rule"] + (
    " c10cb, op mb-cb-joinwrite N K A HOW ORDER JT (5 fixed + 1 generated scenarios quick / 41 thorough, run concurrently with the scripts under the same semaphore): N real NewCBMembership "
    "instances of the harness process converge; member K dies silently (die: the node stops answering its connections, heart-beats stop; exp: its document disappears as well) "
    "so that the survivors' next monitor round HAS a change to write; the simulated node HOLDS the index write-back (MUTATE_IN set-doc with a CAS on the index key, identified "
    "in the request hook by key, opcode and the connection's owner) of survivor A (ORDER first: A's write-back arrives before any other survivor has read; last: the others "
    "have rewritten the index before A reads; free: the others run freely; all: EVERY survivor's write-back is held) until a NEW instance D - a child process connected to the "
    "same node, so that a panic of the library in its monitor goroutine is an exit status - has completed its registration (index entry AND instance document), then releases "
    "it: the write-back fails with a CAS mismatch. D's join time relative to the others is after / before everybody / tied with member S (before, tie: from the registration on "
    "every index read finds D's index entry rewritten through sim.KVGet/KVPut, as in mb-cb-tie; a tie is decided by the uuids, the order reported by the run is adopted by the "
    "driver). Control scenarios (K = -): D joins while nobody holds a change. Observed after a bounded quiet period: GetInfo() of every survivor, D alive with its GetInfo() or "
    "its exit class, the index document's instance list (size, D in, K out), owners of 1024 vBuckets; compared with the Lean LTS run on the same schedule of read / register / "
    "cas steps; monitor clauses C10.joiner-failstop (D's process ended: `cant find self in cluster`), C10.joiner-erased (D lives but is missing from the final index or holds no "
    "number), C10.index-not-live-set, C10.owner and the clauses of Spec.C10.holds over survivors + D. A scenario whose interleaving was not obtained (write-back not held, no CAS "
    "mismatch seen, hold longer than 350 ms, ORDER missed) is run again (up to 3 times).")
_c["assumptions"] = _c["assumptions"] + [
    "mb-cb-joinwrite: D's registration is atomic with respect to the OTHER members' index READS (registration gate, as for every join of c10cb; the window between D's own two "
    "writes is finding F14) - the window exercised is between another member's read and its write-back; a join time before / equal to a member's is imposed on D's INDEX entry "
    "(which alone decides the order), D's instance document keeps the real time",
]
_c["level_text"] = _c["level_text"] + (
    " Join between the two halves of another member's round (Props/C10Join, all group sizes, join times incl. ties and a joiner whose clock is behind, any set of members "
    "standing between their index read and their write-back): join_between_round_halves_admitted - a complete registration makes every pending write-back fail (the index is "
    "what it was plus the joiner's entry), the failed members are between rounds again, the state is a quiescent start for the enlarged live set, so converges holds for EVERY "
    "continuation and the schedule [failed members run their round again; the joiner runs a round; the others run a round] ends with every live member, the joiner included, "
    "holding exactly rank_numbering of the enlarged live set, nobody fail-stops; join_between_round_halves_single - the literal schedule [A reads; D registers completely; A's "
    "CAS write fails; whole rounds]; stale_rewrite_erases_joiner_refuted - a retry that refreshes only the CAS and writes the list computed before the conflict again erases "
    "the joiner, whose first round fail-stops (why monitor() re-runs the whole round on ErrCasMismatch).")
_c["level_note"] = _c["level_note"] + (
    "; mb-cb-joinwrite: real-time holds (the held member's heart-beats wait with its write-back, bounded by 350 ms < tolerance), the child process of c10pause")
