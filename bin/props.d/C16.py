PROPS["C16"] = {
    "streams": ["sess-deliver", "sess-base", "life-reb", "c16race"], "audit": "C16.lean", "shrink": True, "compare_parts": ["scrape", "mut=", "open="], "clauses": ["C16"], "retry_divergence": 2, "timeout": 900,
    "rule": "session histories (deliveries, acks, saves, crashes, reopen) with `scrape` ops at arbitrary points: the REAL metric.NewMetricCollector over the real stream, "
            "gathered from a private prometheus registry; high-seqno vectors moved between scrapes incl. below the tracked position; scrapes while closed; "
            "active-stream and rebalance counters through stream.GetMetric in the life-cycle stream (lf-query). "
            "non-trivial = a case with deliveries and a tracked/saved position; distinct = distinct op/observation histories",
    "assumptions": ["float64 rendering: values are compared below 2^53, beyond that both sides print `big` (rounding stated, not proved)",
                    "member number / group size / vBucket range gauges are copies of VBucketDiscovery.GetMetric (checked in the C09 member op)",
                    "latency gauges are wall-clock and not compared"],
    "design_ref": "DESIGN.md §7 C16",
    "level_text": "Kernel-checked (Props/C16) on the validated session model: the collector's uint64 lag computation never wraps for ANY two 64-bit values and equals max(0, high - seq) (lag_no_wrap, lagOf_eq_max, lagOf_uint64); total lag is the sum of the per-vBucket lags; every per-vBucket gauge equals the tracked position and its snapshot range and every row stems from a tracked position; a scrape never changes state and returns empty at once while the stream is closed; counters equal the accepted events by the observer invariant obs_counters (Props/C03). Tied to the real collector by `scrape` ops inside generated session histories, with the monitor (lag, total, gauge = position) on the real output.",
    "level_note": "trusted: Lean kernel, Model/Session.lean (scrape), prometheus client (Gather), float64 rendering above 2^53",
}
