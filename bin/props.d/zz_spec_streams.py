# Streams on whose compared parts the model's output is the property's own functional specification for the given input (the named theorem
# proves model = specification for ALL inputs): when the real code answers differently there, that input is a failing input of the property,
# not merely a broken correspondence. Streams that contain timing, scheduler choices or known-finding patterns of the property are NOT listed.
_SPEC = {
    "C02": {"sess-base": "the stream request equals the persisted checkpoint: Props/C02Codec + Session.load", "sess-crash": "the stream request equals the persisted checkpoint: Props/C02Codec + Session.load",
            "c02w": "save_then_load / roundtrip_lossless", "c02ro": "readonly_store_unchanged / readonly_load_identical"},
    "C03": {"sess-deliver": "C03 refinement: delivered = filterMap of the server's events, fields unchanged", "sess-base": "C03 refinement: delivered = filterMap of the server's events, fields unchanged",
            "c08": "C08: no replay at or below F, no skip above it"},
    "C04": {"sess-ack": "C04: tracked position = running maximum of the settled seqnos", "sess-base": "C04: tracked position = running maximum of the settled seqnos",
            "c08": "C04: opening a stream leaves the tracked offset alone"},
    "C06": {"sess-deliver": "C06: every offset is the tuple of one event and the marker current at it", "sess-save": "C06: every offset is the tuple of one event and the marker current at it"},
    "C08": {"c08": "C08 decision logic (Props/C08): re-request at R on the branch containing R, catch-up filter", "l2smoke": "C08 decision logic"},
    "C09": {"c09": "C09_partition_exact: ChunkSlice / Get() as a function of (N, T, member)", "sess-ack": "C04 ownership: out-of-range acknowledgements are ignored",
            "sess-api": "grp_range_is_chunk: the range in effect is the chunk of the membership information read at the last open"},
    "C12": {"sess-base": "the re-request after a transient end names the current position and the end sampled at open", "sess-crash": "the re-request after a transient end names the current position and the end sampled at open"},
    "C14": {"c14k": "checkpoint / instance key builders and IsMetadata (Props/C14Keys)"},
    "C15": {"c15w": "Startup.startAny: the start-up decision function"},
    "C16": {"sess-deliver": "C16: every gauge / counter equals the session state (lag_no_wrap, gauges_equal_state)", "sess-base": "C16: every gauge / counter equals the session state",
            "sess-api": "C16Api: endpoints = state; group gauges = the assignment in effect"},
    "C17": {"c17": "Props/C17: ApplyDefaults / derived views / size units / ${VAR} substitution as functions of the input"},
    "C18": {"c18": "Props/C18: comparison, parser and gates as functions of the input", "c18gate": "gateExpiry / gateChangeStreams after nodeVersionFromString"},
    "C19": {"c19": "Props/C19: a round fail-stops exactly after five consecutive failures"},
    "C10": {"c10st": "static / stateful-set membership numbering and IsChanged (Props/C10)"},
}
for _p, _m in _SPEC.items():
    PROPS[_p]["spec_streams"] = dict({k: v for k, v in _m.items() if k in PROPS[_p]["streams"]}, **(PROPS[_p].get("spec_streams") or {}))
