PROPS["C10"] = {
    "streams": ["c10st", "c10cb", "c10sd"],
    "timeout": 900,
    "rule": "c10st (L0): real Model.IsChanged on a full 5x5x(5x5+nil) grid + boundary/random ints; real NewStaticMembership on all (m,t) with t<=8 and boundary ints; "
            "real kubernetes.NewStatefulSetMembership on ~400 (quick) host names (web-<ordinal> for every ordinal<=total+1, total<=8; a grammar of odd names: no dash, empty suffix, "
            "signs, leading zeros, non-digits, non-ASCII digits, int64 limits +-1; random names) set with sethostname inside a child process in its own UTS namespace; "
            "real NewDynamicMembership / NewHaMembership fed with random bus event sequences; real api.NewAPI: random PUT /membership/info sequences (repeats, malformed bodies) "
            "with the bus events and a dynamic membership on the same bus observed. "
            "c10cb (L2): 1..6 real couchbase.NewCBMembership instances (each its own real client/gocbcore agent and EventBus) on one simulated bucket, heartbeat 40ms / monitor 50ms / "
            "tolerance 500ms; scripts of join / leave (Close) / die (node stops answering all connections of that instance) / exp (die + document removed) / swap (expiry and a join seen in one round by the others) "
            "with quiescent points; 9 fixed + 14 (quick) / 150 (thorough) generated scripts, every other one with 1..4 CAS conflicts injected into index rewrites by the node; observed: GetInfo() of every live instance "
            "and the size of the index document at each quiescent point (compared with the model run on a canonical schedule), whether every index rewrite carried a CAS, "
            "and every instance's complete membershipChanged event list (monitor: no repeat, 1<=k<=n; last event = GetInfo); mb-cb-tie: every index read made to see equal join times (index document "
            "rewritten through sim.KVGet/KVPut), 2..6 members, after a settling period reports whether two members hold the same number in two consecutive polls (known finding F8). "
            "c10sd (L1): real servicediscovery.NewServiceDiscovery as leader with 0..5 followers (fake servicediscovery.Client; each follower a second real ServiceDiscovery receiving SetInfo), "
            "every follower count, all phase-1 ping-failure patterns for <=3 (quick) / <=4 (thorough) followers, random join times incl. ties, two heartbeat+monitor phases, Rebalance errors; "
            "observed: leader bus events, Rebalance arguments and follower bus events per phase, closed clients. "
            "non-trivial = second model non-nil (chg), total>1 (static), every stateful-set line, >=2 events/requests (bus, api), >=2 joins (cb), >=2 followers (sd); distinct = distinct (op, output) lines",
    "assumptions": [
        "distinct clusterJoinTime values (UnixNano) per group: with equal values the numbering is inconsistent (rank_numbering_tie_refuted, known finding F8)",
        "clock hypothesis of `converges`, per monitor round: every live instance's heartbeat is fresh and every other instance's document is stale or missing at the observer's clock (covers clock skew between members); int64 time arithmetic does not wrap",
        "quiescent start of a stable phase: every live instance has completed both registration writes and the running members are between rounds; without it a joiner whose index entry is written but whose document is not yet can be erased by a concurrent index rewrite and then fail-stops (join_race_refuted)",
        "the bus delivers a published membershipChanged event to the member's own listener before its next monitor round (h.info is written by that listener)",
        "instance ids (uuid.New) are distinct; the index document exists; KV errors other than CAS mismatch / key-not-found are outside the model (the code logs, or panics, on them)",
        "service discovery: follower names are distinct (map keys); leader election itself (client-go lease) and the RPC transport are out of scope",
        "stateful set: host names are byte strings of at most 64 bytes; Go int is 64 bit",
    ],
    "design_ref": "DESIGN.md §7 C10, §6 F8",
    "level_text": "Kernel-checked theorems (Props/C10, all group sizes / ids / times): rank_numbering – with pairwise distinct join times the numbering derived by the stable sort is the same for EVERY map-iteration order and is a bijection live -> {1..|live|} in join order; rank_numbering_tie_refuted – with equal join times two iteration orders give two members the same number (F8); exactly_one_owner – with C09_partition_exact every vBucket < N has exactly one owner; announce_only_on_change – for every history whatsoever a member's published events never repeat and its info is its last event (same for the SetInfo/API guard); converges – from a quiescent stable state, for any interleaving of monitor-round halves (any CAS-conflict pattern), heartbeats and expiries under the explicit clock hypothesis, a member that completed ONE round holds exactly rank_numbering of the live set, no live member fail-stops, and the first index write leaves exactly the live set; join_race_refuted – why quiescence is needed; leader_assigns_distinct – for all follower sets, ping-failure patterns and iteration orders the leader is 1 and the survivors get exactly 2..k+1 in a join-time order; holds_rank – the decidable monitor Spec.C10.holds accepts the model. The model is tied to the real code on every run at three layers (real NewCBMembership instances against a simulated bucket, real ServiceDiscovery with fake clients, real static/stateful-set/dynamic/API code), with the monitors evaluated on the real observations.",
    "level_note": "partial: hypotheses distinct join times (F8 known finding), clock/quiescence/bus-delivery assumptions listed above; trusted: Lean kernel, the ~300-line model of membership.go / service_discovery.go, the simulated Couchbase node and the registration gate the harness puts around NewCBMembership, real-time waits with >= 6 monitor intervals of margin",
}
