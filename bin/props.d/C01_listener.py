# C01: "…that of an event that was acknowledged … before the write began": the library must never acknowledge on the consumer's behalf.
# The listener-panic cases of the start-up stream (child processes: the listener panics on its first event before Ack) - the process ends
# with the consumer's panic; a library that recovers it and settles the event would go on running
_c = PROPS["C01"]
_c["streams"] = _c["streams"] + ["c15w"]
_of = dict(_c.get("op_filter") or {})
_of["c15w"] = r"^st-case lpanic"
_c["op_filter"] = _of
_c["rule"] = _c["rule"] + " | c15w (only its listener-panic cases): a consumer whose listener fails before acknowledging - the library neither swallows the panic nor settles the event"
