# C20's "no Couchbase call can hang" on the checkpoint READ path: the load-error cases of the start-up stream (child processes: the real
# cbMetadata.Load with one / several refused reads must terminate the process with the error - not hang, not continue)
_c = PROPS["C20"]
_c["streams"] = _c["streams"] + ["c15w"]
_of = dict(_c.get("op_filter") or {})
_of["c15w"] = r"^st-case loaderr"
_c["op_filter"] = _of
_c["rule"] = _c["rule"] + " | c15w (only its load-error cases): the real cbMetadata.Load in a child process with refused checkpoint reads - terminates with the error"
