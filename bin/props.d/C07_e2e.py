# the whole library with rollback mitigation enabled (real dcp.NewDcp / Start / rebalance / Close against the simulated
# cluster): executes the glue between the two halves of C07 - stream.dispatchPersistSeqNo (observers.Load(vbID) ->
# SetPersistSeqNo), the mitigation branch of stream.Open / stream.Close with a real client, BucketInfo.IsEphemeral
PROPS["C07"]["streams"] = PROPS["C07"]["streams"] + ["c07e2e"]
PROPS["C07"]["audit"] = (lambda a: ([a] if isinstance(a, str) else list(a)) + ["C07E2E.lean"])(PROPS["C07"].get("audit", "C07.lean"))
PROPS["C07"]["modules"] = PROPS["C07"].get("modules", ["GoDcp.Props.C07"]) + ["GoDcp.Props.C07E2E"]
PROPS["C07"]["rule"] += (
    " c07e2e: one case = one REAL dcp.NewDcp(cfg, listener) + Start() (rollback mitigation enabled, poll interval 15-25 ms, static membership 1/1 or "
    "dynamic membership with rebalances onto other vBucket ranges, checkpoint manual / auto) against a simulated cluster of 1-3 KV nodes, 4-8 vBuckets, "
    "1-2 replicas (unlisted copies), membase or ephemeral bucket; script = start, push (node sends marker + mutations on a vBucket's stream), persist "
    "(one copy's OBSERVE_SEQNO answer changes; the step ends after two complete poll rounds), wait, rebalance, close, persist after close; observed per "
    "step = mutations the listener has received so far per vBucket, held count, thresholds of the session's observers, vBuckets whose copies were polled; "
    "non-trivial = something was held and something was delivered"
)
PROPS["C07"]["assumptions"] = PROPS["C07"]["assumptions"] + [
    "c07e2e: the copies answer (0,0) to OBSERVE_SEQNO until stream.Open has stored the observers (BeforeStreamStop ... AfterStreamStart): earlier reports are dropped "
    "by dispatchPersistSeqNo and not repeated (F10, outside the statement); one copy changes per step",
    "HEAD-OF-LINE: the observer callbacks run on gocbcore's single DCP queue goroutine per connection, so an event that waits at its gate holds back every later "
    "event of the same KV node, also covered events of other vBuckets (Props/C07E2E.hol_example, reproduced on the unchanged code by directed case 1 of c07e2e). "
    "C07's safety part is unaffected; 'once it covers a waiting event that event is delivered' holds per connection queue head "
    "(e2e_liveness_enabled: covered => threshold reached the observer of the SAME vBucket, gate open, not the head of a queue)",
]
PROPS["C07"]["level_text"] += (
    " Composition (Props/C07E2E, model Model/RmE2E: per vBucket the table and the gate of the SAME vBucket as one MinSeqNo.Sys, gocbcore's per-connection DCP queue, "
    "sessions of stream.Open/Close, all scripts by induction over the op list): e2e_safety - every event of v the listener received has a gate seqno that, at an "
    "earlier-or-equal step, all listed copies of v had persisted under one common vbUUID; e2e_vbucket_isolation - table, dispatched values, threshold and closed flag "
    "of v are untouched by every persist of another vBucket, every push and every poll round, and deliveries of v are bounded by v's own threshold; e2e_table_sync - at "
    "the end of every step the mitigation's table of v is exactly what v's listed copies answer; e2e_liveness_enabled - once that table covers s the threshold of v's "
    "observer is at least s, the gate check succeeds and no such event is the head of a connection queue; e2e_close_releases_without_delivery - close / rebalance empty "
    "every queue of the session without a delivery, the next session starts empty; e2eCheck_model - the model's output passes the monitor."
)
PROPS["C07"]["level_note"] += (
    "; c07e2e additionally trusts the FIFO-per-connection model of gocbcore's DCP queue and reads the real thresholds through Stream.GetObservers()/GetPersistSeqNo() "
    "(private field dcp.stream, read-only) both as an observation and to decide how long to wait for a delivery (never as the observation of a delivery)"
)
