# C09 at the level where the partition is USED: (1) ownership - the range the stream derives from Get() decides which acknowledgements
# a member accepts (sess-ack: acknowledgements after a rebalance changed the range; an accepted position for a vBucket of the
# neighbour's block means two owners); (2) purity across sessions of one process - the real VBucketDiscovery inside the real stream
# through membership changes and re-opens (sess-api: the vBuckets requested at every (re-)open and the range / member gauges are the
# chunk of the membership information in effect, whatever was opened before)
_c = PROPS["C09"]
_c["streams"] = _c["streams"] + ["sess-ack", "sess-api"]
_c["clauses"] = ["C09", "C04.out-of-range-ack-tracked", "C16.group-in-effect"]
_c["compare_parts"] = {"sess-ack": {"parts": ["track", "stale", "pos"], "tuples": "seq"},
                       "sess-api": {"parts": ["openreq", "closereq", "failstop"], "tuples": "none"}}
_c["op_filter"] = {"sess-ack": r"^(ack|offsets|rebalance) ", "sess-api": r"^(open|rebalance|api-rebalance|scrape|api-metrics)( |$)"}
_c["shrink"] = True
_a = _c.get("audit", "C09.lean")
_c["audit"] = ([_a] if isinstance(_a, str) else list(_a)) + ["C16Api.lean"]   # grp_range_is_chunk, grp_scrape_is_last_get
_c["modules"] = _c.get("modules", ["GoDcp.Props.C09"]) + ["GoDcp.Props.C16Api"]
_c["rule"] = _c["rule"] + (" | sess-ack (acks / offsets / rebalance ops): the ownership range in use - an acknowledgement for a vBucket outside the member's block is ignored; "
                           "sess-api (open / rebalance / scrape ops): the real VBucketDiscovery with dynamic membership inside the real stream - the vBuckets requested at "
                           "every (re-)open and the member / range gauges equal the chunk of the information in effect")
