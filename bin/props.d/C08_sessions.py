# C08: "offsets issued from then on carry the new branch's vbUUID": besides the client-level rollback stream, the session stream with
# re-opened vBuckets on a NEW history branch (`flog VB U` + `reopen VB`) is judged on the full offset tuples the stream tracks, reports
# and saves afterwards (vbUUID included)
_c = PROPS["C08"]
_c["streams"] = _c["streams"] + ["sess-base"]
_cp = _c.get("compare_parts")
_cp = dict(_cp) if isinstance(_cp, dict) else {}
_cp["sess-base"] = ["openreq", "track", "pos", "written", "deliver", "failstop"]
_c["compare_parts"] = _cp
_c["spec_streams"] = dict(_c.get("spec_streams") or {}, **{"sess-base": "C06 / C08: tracked, reported and saved offsets are the tuple of one event with the vbUUID of the branch the stream is on"})
_c["rule"] = _c["rule"] + " | sess-base: session histories with transient ends re-opened on a new failover-log head; full offset tuples (vbUUID, seqno, snapshot) of every tracked / saved / requested position"
