# the dcp-level life-cycle stream (real dcp.NewDcp / Start / Close against the simulated node, notifications through the
# dcp's own event bus): makes changes in dcp.go itself visible (bus wiring, close() order, final save)
for _p in ("C11", "C13"):
    PROPS[_p]["streams"] = PROPS[_p]["streams"] + ["life-dcp"]
