# C11: notifications also arrive through the HTTP API (GET /rebalance, guarded by IsOpen; PUT /membership/info → bus). The session stream
# with the real api.NewAPI (sess-api) is judged on its rebalance ops: the close / re-open trace of an API-triggered rebalance must be the
# one of a direct stream.Rebalance() on the newest membership information, and `skipped` while the stream is closed
_c = PROPS["C11"]
_c["streams"] = _c["streams"] + ["sess-api"]
_of = dict(_c.get("op_filter") or {})
_of["sess-api"] = r"^(api-rebalance|rebalance|api-info)( |$)"
_c["op_filter"] = _of
_c["clauses"] = list(_c.get("clauses") or ["C11"]) + ["C16.api-rebalance-skipped-while-open", "C16.api-rebalance-while-closed", "C16.api-info-republished", "C16.api-info-change-not-published"]
_c["rule"] = _c["rule"] + " | sess-api (api-rebalance / rebalance / api-info ops): a rebalance triggered through the real HTTP API inside session histories"
