import GoDcp.Props.C13Run
open GoDcp.Life
#print axioms shutdown_from_A_eq
#print axioms shutdown_from_A_clean
#print axioms reb_timer_after_shutdown_failstops
#print axioms fireDue_C
#print axioms shutdown_on_nil
#print axioms step_from_C
#print axioms after_shutdown_quiet
#print axioms after_shutdown_no_delivery
#print axioms after_shutdown_settled
#print axioms F4_callbacks_accepted
#print axioms shutdown_in_window_failstop
#print axioms window_iff_KF
#print axioms close_terminates_partial
#print axioms close_failstops_iff
#print axioms shutdown_idempotence
#print axioms shutdown_before_open
#print axioms close_terminates_partial_run
#print axioms settled_of_calm_run
#print axioms foldl_set_get?
#print axioms final_save_covers_settled
#print axioms shutdown_store
