import GoDcp.Props.C12Run
open GoDcp.Life
#print axioms endedStep_length
#print axioms activeEq_step
#print axioms active_eq
#print axioms active_eq_from_open
#print axioms filter_ne_length
#print axioms filter_notin_length
#print axioms active_counts_unfinished
#print axioms active_eq_unfinished
#print axioms stop_iff_last_final_end
#print axioms stops_iff_all_final
#print axioms pos_get?_isSome_iff
#print axioms transient_reopens_from_position_A
#print axioms reopen_missing_offset_failstop
#print axioms delivered_seq_succ
#print axioms lastSeqFrom_append
#print axioms lastSeqFrom_quiet
#print axioms lastSeqFrom_openreqs
#print axioms wOf_piOf_cases
#print axioms histOk_step
#print axioms position_is_last_settled
#print axioms transient_reopens_from_settled
