import GoDcp.Props.C10Pause
open GoDcp.Membership
#print axioms view_ids_sub
#print axioms pendLe_run
#print axioms dropped_step
#print axioms dropped_never_completes_round
#print axioms dropped_of_quiescent
#print axioms dropped_failstops
#print axioms dropped_retry
#print axioms step_agree
#print axioms run_agree
#print axioms run_frozen
#print axioms admissible_agree
#print axioms survivors_renumber_during_pause
#print axioms paused_member_failstops
