import GoDcp.Props.C02RO
open GoDcp
#print axioms readonly_step_store
#print axioms readonly_store_unchanged
#print axioms load_ignores_readOnly
#print axioms open_ignores_readOnly
#print axioms readonly_load_identical
#print axioms roCheck_model
