import GoDcp.Props.C07E2E
open GoDcp.RmE2E
#print axioms e2e_safety
#print axioms e2e_vbucket_isolation
#print axioms e2e_liveness_enabled
#print axioms e2e_table_sync
#print axioms e2e_close_releases_without_delivery
#print axioms e2eCheck_model
#print axioms hol_example
#print axioms held_eq_blk
#print axioms dom_covered
#print axioms vinv_report
#print axioms vinv_initV
#print axioms settleConns_quiet
#print axioms closeAll_spec
#print axioms step_viewOf
#print axioms chist_mem
#print axioms run_inv
