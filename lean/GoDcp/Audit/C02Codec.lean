import GoDcp.Props.C02Codec
open GoDcp.Codec
#print axioms offset_doc_roundtrip
#print axioms doc_offset_roundtrip
#print axioms toOffset_fields
#print axioms showNat_digits
#print axioms u64_decimal_roundtrip
#print axioms parseU64_showNat
#print axioms u64_roundtrip
#print axioms showNat_injective
#print axioms fields_roundtrip
#print axioms get?_foldl_set
#print axioms mdWrite_ok_written
#print axioms save_then_load
#print axioms save_then_load_id
#print axioms readonly_never_writes
#print axioms readonly_load_eq
#print axioms load_ignores_readonly
#print axioms file_save_then_load
#print axioms file_missing
#print axioms file_failed_save_reported_ok_refuted
#print axioms file_failed_save_partial
#print axioms resume_exact
#print axioms earliest_zero
#print axioms latest_high
#print axioms end_unbounded_infinite
#print axioms end_sampled_finite
