import GoDcp.Props.C07Epoch
open GoDcp.MinSeqNo
#print axioms isNewer_iff
#print axioms isNewer_irrefl
#print axioms isNewer_trans
#print axioms isNewer_asymm
#print axioms isNewer_trichotomous
#print axioms newer_epoch_wins
#print axioms older_epoch_loses
#print axioms same_epoch_rev
#print axioms reconfigure_entry
#print axioms config_adopted_rebuilds_table
#print axioms config_ignored_keeps_layout
#print axioms config_new_epoch_adopted
#print axioms rmCheckL_model
