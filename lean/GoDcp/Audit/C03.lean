import GoDcp.Props.C03
open GoDcp GoDcp.Obs.C03 GoDcp.C03
#print axioms obs_docs_filter
#print axioms clean_of_WF
#print axioms obs_docs_filter_WF
#print axioms obs_docs_filter_prefix
#print axioms failstop_iff_outside
#print axioms obs_catchup_filter
#print axioms obs_faithful_step
#print axioms obs_faithful
#print axioms obs_counters
#print axioms accepted_iff
#print axioms deliver_eq_filter
#print axioms deliver_faithful
#print axioms step_ctxs_deliveries
#print axioms deliver_indices
#print axioms deliveries_own
#print axioms vbuckets_independent
#print axioms vbuckets_independent'
#print axioms deliveries_own_reopen_refuted
#print axioms skipUntil_subsecond_ceil
