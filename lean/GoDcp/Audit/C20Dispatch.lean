import GoDcp.Props.C20Dispatch
open GoDcp.AsyncOp
#print axioms rejected_never_calls_back
#print axioms rejected_at_dispatch_returns_immediately
#print axioms rejected_never_blocked
#print axioms rejected_table
#print axioms table_returns_on_wait_error
#print axioms immInv_run
#print axioms stuckRB_run
#print axioms reads_channel_before_wait_error_hangs_refuted
