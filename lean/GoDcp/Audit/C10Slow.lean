import GoDcp.Props.C10Slow
open GoDcp.Membership
#print axioms slow_read_never_shrinks_group
#print axioms failstop_leaves_stable
#print axioms failstop_then_only_A_dropped
#print axioms expired_share_as_not_found_refuted
