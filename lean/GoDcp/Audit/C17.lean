import GoDcp.Props.C17
open GoDcp.Config GoDcp.Units GoDcp.EnvSubst GoDcp.Spec.C17
-- generic in the defaults table
#print axioms get_applyTable
#print axioms fills_unset
#print axioms preserves_set
#print axioms idempotent
#print axioms env_precedence
-- the concrete ApplyDefaults
#print axioms table_nodup
#print axioms table_nonzero
#print axioms sizeDefaults
#print axioms applyDefaults_get
#print axioms C17_fills_unset
#print axioms C17_preserves_set
#print axioms C17_env_precedence
#print axioms C17_panic_iff
#print axioms C17_idempotent
#print axioms holdsDefaults_model
-- README tie
#print axioms readme_agrees
#print axioms readme_disagrees
#print axioms readme_covers_table
#print axioms defaulted_keys
-- derived settings
#print axioms derived_inherit_unless_overridden
#print axioms derive_keys
#print axioms derive_panic_iff
#print axioms holdsDerived_model_ok
#print axioms holdsDerived_model_panic
#print axioms metadata_inherits
#print axioms membership_elector_defaults
#print axioms fileMetadata_spec
-- ${VAR}
#print axioms findAll_render
#print axioms substEnv_all_occurrences
-- size units
#print axioms plain_int_identity
#print axioms resolveSize_units
#print axioms unit_B_unreachable
#print axioms size_B_suffix_panics
#print axioms holdsSizeWF_model
#print axioms holdsSizeInt_model
