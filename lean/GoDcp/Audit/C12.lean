import GoDcp.Props.C12
open GoDcp.Life
#print axioms transient_reopens_from_position
#print axioms final_end_decrements
#print axioms final_end_stops_iff
#print axioms end_after_close_ignored
