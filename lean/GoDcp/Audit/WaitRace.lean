import GoDcp.Props.WaitRace
/-! obligations of the micro-step stop-token model (C11/C12, finding F16): one `#print axioms` per theorem -/
open GoDcp.WaitRace
#print axioms prompt_safe
#print axioms prompt_safe_from
#print axioms inv_init
#print axioms inv_step
#print axioms run_inv
#print axioms safe_of_inv
#print axioms stop_at_most_once
#print axioms stop_only_justified
#print axioms one_wait_per_session
#print axioms no_stale_token_at_open
#print axioms sends_never_block
#print axioms spurious_stop_after_rebalance_refuted
#print axioms double_close_refuted
#print axioms stale_token_refuted
#print axioms last_end_does_not_stop_refuted
#print axioms double_close_after_stop_refuted
#print axioms all_ended_during_reopen_never_stops
