import GoDcp.Props.C10Join
open GoDcp.Membership
#print axioms upsert_fresh
#print axioms register_eq
#print axioms doomed_cas
#print axioms doomed_flush
#print axioms round_converged
#print axioms rounds_keep
#print axioms join_between_round_halves_admitted
#print axioms join_between_round_halves_single
#print axioms stale_rewrite_erases_joiner_refuted
