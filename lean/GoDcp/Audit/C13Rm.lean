import GoDcp.Props.C13Rm
open GoDcp.RmStop
#print axioms inv_init
#print axioms inv_step
#print axioms inv_reach
#print axioms answers_le_one
#print axioms stop_answered_exactly_once
#print axioms exited_iff_answered
#print axioms no_round_after_stop
#print axioms goroutine_silent_after_stop
#print axioms stop_statement_enabled
#print axioms ticker_off_while_waiting
#print axioms step_decreases_rank
#print axioms rank_le
#print axioms timerOff_step
#print axioms run_bounded
#print axioms progress
#print axioms stuck_only_when_returned
#print axioms reach_run
#print axioms stop_returns
#print axioms hoisted_return_deadlocks
#print axioms slowRound_reachable
#print axioms slow_round_scenario
#print axioms slow_round_scenario_hoisted
