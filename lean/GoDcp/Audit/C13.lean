import GoDcp.Props.C13
open GoDcp.Life
#print axioms doClose_none_iff
#print axioms doClose_clean
#print axioms close_terminates_full_refuted
