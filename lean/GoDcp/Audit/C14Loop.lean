import GoDcp.Props.C14Loop
open GoDcp GoDcp.C14Loop
#print axioms reserved_never_delivered
#print axioms reserved_never_delivered_but_advance
#print axioms loop_step
#print axioms closed_loop_quiesces
#print axioms closed_loop_still_advances
#print axioms user_event_delivered
#print axioms ack_raises_flag
#print axioms dirty_save_calls_store
#print axioms fedBack_reserved
#print axioms exLoop_loopOps
