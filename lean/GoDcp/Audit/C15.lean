import GoDcp.Props.C15
open GoDcp.Startup
#print axioms load_eq
#print axioms load_keys
#print axioms load_ok_implies_reachable_start
#print axioms checkpoint_ahead_failstop
#print axioms unknown_metadata_failstop
#print axioms unknown_membership_failstop
#print axioms unknown_type_failstop
#print axioms running_inv
#print axioms load_error_failstop
#print axioms seqno_error_failstop
#print axioms seqno_error_failstop_refuted
#print axioms seqno_error_failstop_partial
#print axioms failover_error_failstop
#print axioms session_complete_or_dead
#print axioms openAll_any_error_failstop
#print axioms running_start_reachable
#print axioms refusal_without_delivery_refuted
#print axioms refusal_without_delivery_partial
#print axioms refusal_before_open_delivers_nothing
