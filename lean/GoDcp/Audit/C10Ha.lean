import GoDcp.Props.C10Ha
import GoDcp.Props.C10HaRefute
import GoDcp.Props.C10HaOrphan
open GoDcp.HaMembership
#print axioms wf_init
#print axioms wf_step
#print axioms wf_run
#print axioms quiescentB_iff
#print axioms fresh_inv
#print axioms ha_quiescent_numbering
#print axioms ha_convergence_bounded
#print axioms ha_convergence_after_election
#print axioms ha_orphan_exleader_refuted
#print axioms observe_stopped
#print axioms ha_orphan_follower_refuted
#print axioms ha_orphan_follower_fixed
#print axioms hbFollow_noleader
#print axioms ha_remove_by_name_refuted
#print axioms ha_handover_totals_refuted
#print axioms ha_release_panics_refuted
#print axioms lead_keeps_services
#print axioms orphan_stays
#print axioms hbFollow_keeps_leader
#print axioms ha_partition_heals
