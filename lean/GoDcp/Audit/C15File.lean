import GoDcp.Props.C15File
open GoDcp.Startup
#print axioms get?_isSome_iff_mem_keys
#print axioms has_iff_mem_keys
#print axioms get?_map_key
#print axioms seenHigh_eq_highOf
#print axioms loadFile_has
#print axioms loadFile_get?
#print axioms loadFile_isSome_iff
#print axioms loadFile_ahead_none
#print axioms startFile_running_inv
#print axioms fileExists_known
#print axioms startAny_file
#print axioms startAny_nofile
#print axioms file_partial_basis_failstop
#print axioms file_partial_basis_class
#print axioms file_running_covers_assignment
#print axioms file_unassigned_ahead_failstop
#print axioms file_unassigned_ahead_class
#print axioms load_not_latest
#print axioms load_empty
#print axioms mdLoad_docs
#print axioms startFile_eq_start
#print axioms startAny_session_complete_or_dead
#print axioms startAny_running_start_reachable
#print axioms startAny_openAll_any_error_failstop
#print axioms file_unassigned_zero_invisible
#print axioms file_offsets_name_every_stored_vbucket
