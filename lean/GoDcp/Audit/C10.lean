import GoDcp.Props.C10
open GoDcp.Membership
#print axioms rank_numbering
#print axioms rank_numbering_order_free
#print axioms rank_numbering_join_order
#print axioms same_live_set_agree
#print axioms rank_numbering_tie_refuted
#print axioms rank_numbering_tie_fixed
#print axioms rankNumberingPreFix_eq_of_distinct
#print axioms sortJTId_eq_of_perm
#print axioms sortJT_eq_of_perm
#print axioms preFix_eq_of_distinct
#print axioms view_stable
#print axioms step_inv
#print axioms converges
#print axioms join_race_refuted
#print axioms isChanged_true_iff
#print axioms announce_only_on_change
#print axioms setInfo_publish_iff
#print axioms setInfoRun_noRepeat
#print axioms leader_assigns_distinct
#print axioms exactly_one_owner
#print axioms holds_rank
#print axioms static_identity
#print axioms statefulSet_numbers
#print axioms sortFix_eq_of_perm
