import GoDcp.Props.C01
open GoDcp GoDcp.C01
#print axioms step_announced
#print axioms announced_run
#print axioms C01a
#print axioms mem_ghostRun
#print axioms C01a_explicit
#print axioms C01a_trace
#print axioms track_only_from_settle
#print axioms GoDcp.KF.C01_overtake_iff
#print axioms C01b_full_refuted
#print axioms C01b_full_refuted_short
#print axioms step_inv
#print axioms run_inv
#print axioms C01b_partial
#print axioms C01b_partial_claim
#print axioms unsettled_of_no_ack
