import GoDcp.Props.C11
open GoDcp.Life
#print axioms notify_in_window_debounces
#print axioms one_cycle_per_burst_full_refuted
