import GoDcp.Props.C09
open GoDcp.Chunk GoDcp.Spec.C09
#print axioms C09_partition_exact
#print axioms start_last
#print axioms size_pos
#print axioms size_diff_le_one
#print axioms disjoint
#print axioms memberRange_spec
#print axioms holds_bounds
#print axioms balanced_spec
#print axioms boundsFast_eq
#print axioms memberRangeFast_eq
