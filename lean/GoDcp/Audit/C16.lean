import GoDcp.Props.C16
open GoDcp
#print axioms lag_no_wrap
#print axioms lagOf_eq_max
#print axioms lagOf_uint64
#print axioms total_lag_is_sum
#print axioms gauges_equal_state
#print axioms rows_from_offsets
#print axioms closed_scrape_is_empty_and_total
