import GoDcp.Model.Version
/-!
C18 as decidable monitors over what the REAL code returned.

* `lexLt` / `lexLe`: the lexicographic order on (major, minor, patch, build) –
  the reference the comparison methods are measured against (written here
  independently of the model's `higher`).
* `cmpClause`, `pairClause`, `triClause`: checks on the real booleans
  `(Higher, Equal, Lower)` returned for one ordered pair, both orders of a
  pair, all six ordered pairs of a triple.
* `gateClause`: checks on the real gate decisions for two versions.
* `renderClause`: check on the real parse result of a rendered version string.

Each returns `none` (= holds) or `some clause-name`.  `Props/C18` proves that
the model's answers pass every one of them for all inputs.
-/
namespace GoDcp.Spec.C18
open GoDcp.Version

/-- strict lexicographic order on the 4-tuple -/
def lexLt (a b : Version) : Prop :=
  a.major < b.major ∨ (a.major = b.major ∧
    (a.minor < b.minor ∨ (a.minor = b.minor ∧
      (a.patch < b.patch ∨ (a.patch = b.patch ∧ a.build < b.build)))))

instance (a b : Version) : Decidable (lexLt a b) := by unfold lexLt; infer_instance

/-- `a ≤ b` lexicographically -/
def lexLe (a b : Version) : Prop := lexLt a b ∨ a = b

instance (a b : Version) : Decidable (lexLe a b) := by unfold lexLe; infer_instance

/-- the three answers for one ordered pair `(v, w)`:
    `v.Higher(w)`, `v.Equal(w)`, `v.Lower(w)` -/
structure Tri where
  h : Bool
  e : Bool
  l : Bool
  deriving DecidableEq, Repr

/-- exactly one of the three is true -/
def Tri.exactlyOne (t : Tri) : Bool :=
  (t.h && !t.e && !t.l) || (!t.h && t.e && !t.l) || (!t.h && !t.e && t.l)

/-- one ordered pair: trichotomy; Equal ⇔ tuple equality; Higher ⇔ `w <lex v`;
    Lower ⇔ `v <lex w` -/
def cmpClause (v w : Version) (t : Tri) : Option String :=
  if !t.exactlyOne then some "C18.trichotomy"
  else if t.e != decide (v = w) then some "C18.equal-is-tuple-equality"
  else if t.h != decide (lexLt w v) then some "C18.higher-is-lex-gt"
  else if t.l != decide (lexLt v w) then some "C18.lower-is-lex-lt"
  else none

/-- both orders of a pair: each passes `cmpClause`; `Lower v w ⇔ Higher w v`
    (antisymmetry: never both Higher), Equal symmetric -/
def pairClause (v w : Version) (vw wv : Tri) : Option String :=
  match cmpClause v w vw with
  | some c => some c
  | none => match cmpClause w v wv with
    | some c => some c
    | none =>
      if vw.h && wv.h then some "C18.antisymmetric"
      else if vw.l != wv.h || vw.h != wv.l then some "C18.lower-is-higher-swapped"
      else if vw.e != wv.e then some "C18.equal-symmetric"
      else none

/-- transitivity of one chain `x → y → z` on the real answers -/
def chainOk (xy yz xz : Tri) : Bool :=
  (!(xy.h && yz.h) || xz.h) && (!(xy.l && yz.l) || xz.l) && (!(xy.e && yz.e) || xz.e) &&
  -- mixed chains: equal then higher / higher then equal
  (!(xy.e && yz.h) || xz.h) && (!(xy.h && yz.e) || xz.h)

/-- all six ordered pairs of a triple `(a, b, c)`: every pair passes `pairClause`
    and every one of the six chains is transitive -/
def triClause (a b c : Version) (ab ba ac ca bc cb : Tri) : Option String :=
  match pairClause a b ab ba with
  | some x => some x
  | none => match pairClause a c ac ca with
    | some x => some x
    | none => match pairClause b c bc cb with
      | some x => some x
      | none =>
        if chainOk ab bc ac && chainOk ac cb ab && chainOk ba ac bc &&
           chainOk bc ca ba && chainOk ca ab cb && chainOk cb ba ca then none
        else some "C18.transitive"

/-- the three gate decisions taken for one version -/
structure Gates where
  expiry : Bool          -- useExpiryOpcode
  changeStreams : Bool   -- useChangeStreams
  serialClose : Bool     -- streamEndNotSupportedData allocated
  deriving DecidableEq, Repr

/-- the gates as the property states them: expiry opcode from 6.5.0, change
    streams from 7.2.0 on Magma, serial closing below 5.5.0 -/
def gatesSpecOk (isMagma : Bool) (v : Version) (g : Gates) : Bool :=
  g.expiry == decide (lexLe ⟨6, 5, 0, 0⟩ v) &&
  g.changeStreams == (isMagma && decide (lexLe ⟨7, 2, 0, 0⟩ v)) &&
  g.serialClose == decide (lexLt v ⟨5, 5, 0, 0⟩)

/-- monotone in the version: `v ≤ w` → an enabled feature stays enabled
    (serial closing: a disabled one stays disabled) -/
def gatesMonoOk (v w : Version) (gv gw : Gates) : Bool :=
  !decide (lexLe v w) ||
    ((!gv.expiry || gw.expiry) && (!gv.changeStreams || gw.changeStreams) &&
     (!gw.serialClose || gv.serialClose))

def gateClause (isMagma : Bool) (v w : Version) (gv gw : Gates) : Option String :=
  if !gatesSpecOk isMagma v gv || !gatesSpecOk isMagma w gw then some "C18.gate-threshold"
  else if !gatesMonoOk v w gv gw || !gatesMonoOk w v gw gv then some "C18.gates-monotone"
  else none

/-- does the number fit Go's 64-bit `int`? -/
def fits (n : Nat) : Bool := n < intCutoff

/-- a rendered version string (`form` as in `renderForm`) of components that
    fit an `int` parses to the tuple it denotes; no claim otherwise -/
def renderClause (form M m p b : Nat) (real : ParseRes) : Option String :=
  if fits M && fits m && fits p && fits b then
    if real = .ok (formValue form M m p b) then none else some "C18.parse-render"
  else none

/-! ### the model's answers in the shape the monitors take (used by the driver
    and by the `…_model` theorems of `Props/C18`) -/

/-- the model's three answers for an ordered pair -/
def triOf (v w : Version) : Tri := ⟨higher v w, equal v w, lower v w⟩

/-- the model's gate decisions -/
def gatesOf (isMagma : Bool) (v : Version) : Gates :=
  ⟨gateExpiry v, gateChangeStreams isMagma v, gateSerialClose v⟩

end GoDcp.Spec.C18
