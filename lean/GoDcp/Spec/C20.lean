import GoDcp.Model.AsyncOp
/-!
C20 (L0 part) as a decidable monitor over what one call of
`couchbase.NewAsyncOp(ctx).Wait(op, err)` was observed to do under a scripted
completion / cancellation schedule.  Used twice: `Props/C20.holds_of_run`
proves that every run of the model satisfies it (for all schedules, no bound);
the driver evaluates it on what the REAL `asyncOp` did.

Reading of the property sentence at this level:

 * "returns by its deadline"                      → `time ≠ late`
 * "exactly the server's outcome or an error",
   "success is never reported for an operation
    the server did not confirm"                   → `Wait` returns nil only if the callback ran (`nil-confirmed`);
                                                    the issuing call's error is handed back unchanged (`imm`)
 * "when the server stays silent the pending
    operation is cancelled and an error returned" → `silent-cancelled`, `cancel-once`, `cancel-error`
 * "a completion that arrives after the deadline
    neither blocks nor panics"                    → `no-panic-or-hang`, `no-block`
 * the error is the right one                     → `deadline-time`, `canceled-cause`
-/
namespace GoDcp.Spec.C20
open GoDcp.AsyncOp

/-- three-valued script fact -/
inductive Tri | yes | no | maybe
  deriving DecidableEq, Repr

/-- observed return value of `Wait` -/
inductive Res
  | nil_ | deadline | canceled | imm
  | other        -- anything else: another error value, a panic, no return at all
  deriving DecidableEq, Repr

/-- when `Wait` returned, relative to the ctx deadline `D`:
    `before` < D, `ontime` ∈ [D, D + margin], `late` > D + margin -/
inductive TimeClass | before | ontime | late
  deriving DecidableEq, Repr

/-- what happened to the `Resolve()` calls of the script -/
inductive RObs
  | na           -- the script never calls Resolve
  | ok           -- every Resolve returned
  | blocked      -- a Resolve did not return
  | panic
  deriving DecidableEq, Repr

structure Obs where
  /-- script: `Wait` is handed a non-nil error of the issuing call -/
  imm : Bool
  /-- script: is `Resolve` called before `Wait` returns? -/
  completes : Tri
  /-- script: the ctx is cancelled by its owner before `Wait` returns -/
  ctxCancel : Bool
  res : Res
  /-- number of `PendingOp.Cancel()` calls seen by the fake -/
  cancel : Nat
  time : TimeClass
  resolve : RObs
  deriving DecidableEq, Repr

def Res.isCtxErr : Res → Bool
  | .deadline | .canceled => true
  | _ => false

/-- first violated clause, if any -/
def check (o : Obs) : Option String :=
  if o.res == .other || o.resolve == .panic then some "no-panic-or-hang"
  else if o.resolve == .blocked then some "no-block"
  else if o.time == .late then some "by-deadline"
  else if o.imm && !(o.res == .imm && o.cancel == 0) then some "imm"
  else if !o.imm && o.res == .imm then some "imm"
  else if o.res == .nil_ && !(o.completes != .no && o.cancel == 0) then some "nil-confirmed"
  else if 1 < o.cancel then some "cancel-once"
  else if o.cancel == 1 && !o.res.isCtxErr then some "cancel-error"
  else if !o.imm && o.completes == .no && !(o.res.isCtxErr && o.cancel == 1) then some "silent-cancelled"
  else if o.res == .deadline && o.time == .before then some "deadline-time"
  else if o.res == .canceled && !o.ctxCancel then some "canceled-cause"
  else none

def holds (o : Obs) : Bool := (check o).isNone

/-! ### the model's observation of one run (used by the driver and by `Props/C20.holds_of_run`) -/

def resOf : WaitRes → Res
  | .nil_ => .nil_
  | .ctx .deadlineExceeded => .deadline
  | .ctx .canceled => .canceled
  | .imm _ => .imm

/-- model time class: has the clock reached the ctx deadline? (`late` cannot be expressed:
    model time has no margin; real time is classified by the harness) -/
def timeOf (s : State) : TimeClass :=
  match s.deadline with
  | some d => if d ≤ s.now then .ontime else .before
  | none => .before

def obsOf (c : Cfg) (s : State) (r : WaitRes) (completes : Tri) (resolve : RObs) : Obs :=
  { imm := c.imm.isSome, completes := completes, ctxCancel := s.cancelled, res := resOf r,
    cancel := s.cancelCalls, time := timeOf s, resolve := resolve }

/-- the `double` script (two `Resolve()` with nobody waiting) is outside gocbcore's
    contract; it is run only to document the buffer size.  Accepted: anything but a panic. -/
def holdsDouble (r : RObs) : Bool := r != .panic

/-! ### the scripts of the L0 harness stream `c20a` and their expansion into model actions

One model tick = one millisecond of the harness.  `D` = ctx time-out, `a` = the script's delay.
The L0 harness uses `NewAsyncOp` alone (no result channel): shape `l0Shape`. -/

def l0Shape : Shape := { resultChan := false, propagatesErr := false }

inductive Script
  | imm        -- `Wait(nil, err)` with err != nil
  | pre        -- `Resolve()` before `Wait`
  | mid        -- `Resolve()` `a` ms after `Wait` started, `a` ≪ `D`
  | silent     -- no `Resolve()` at all
  | late       -- no `Resolve()` until `Wait` returned, then one `a` ms later
  | precancel  -- ctx cancelled before `Wait`, no `Resolve()`
  deriving DecidableEq, Repr

structure Expansion where
  cfg : Cfg
  pre : List Action        -- until `Wait` has returned
  post : List Action       -- afterwards
  completes : Tri
  deriving Repr

def l0Cfg (D : Nat) : Cfg := { shape := l0Shape, deadline := some D }

def silentActs (D : Nat) : List Action :=
  [.waiterStep false] ++ List.replicate D .tick ++ [.waiterStep true, .waiterStep false]

def expand (sc : Script) (D a : Nat) : Expansion :=
  match sc with
  | .imm => ⟨{ shape := l0Shape, imm := some 1, deadline := some D }, [.waiterStep false], [], .no⟩
  | .pre => ⟨l0Cfg D, [.srvResolve (.ok 0), .waiterStep false, .waiterStep false, .waiterStep false], [], .yes⟩
  | .mid => ⟨l0Cfg D, [.waiterStep false] ++ List.replicate a .tick ++
      [.srvResolve (.ok 0), .waiterStep false, .waiterStep false], [], .yes⟩
  | .silent => ⟨l0Cfg D, silentActs D, [], .no⟩
  | .late => ⟨l0Cfg D, silentActs D, List.replicate a .tick ++ [.srvResolve (.ok 0)], .no⟩
  | .precancel => ⟨l0Cfg D, [.ctxCancel, .waiterStep false, .waiterStep true, .waiterStep false], [], .no⟩

/-- did every `Resolve()` of the action list go through? -/
def resolveObs : State → List Action → RObs
  | _, [] => .na
  | s, a :: rest =>
    if a.isResolve then
      match step s a with
      | none => .blocked
      | some s' => match resolveObs s' rest with
        | .na => .ok
        | x => x
    else resolveObs (stepD s a) rest

/-- the model's observation of a deterministic script (taken when `Wait` returns, like the harness) -/
def modelObs (sc : Script) (D a : Nat) : Option Obs :=
  let x := expand sc D a
  let s1 := run (init x.cfg) x.pre
  match s1.wpc with
  | .returned r => some (obsOf x.cfg s1 r x.completes (resolveObs (init x.cfg) (x.pre ++ x.post)))
  | _ => none

/-- racy scripts: all schedules the harness cannot tell apart -/
inductive RacyScript
  | race          -- `Resolve()` at the very moment the deadline fires
  | precancelpre  -- `Resolve()` and ctx cancel both before `Wait`: both `select` cases ready
  deriving DecidableEq, Repr

def raceSchedules (rs : RacyScript) (D : Nat) : List (List Action) :=
  match rs with
  | .race => [
      -- completion just before the deadline, waiter prompt
      [.waiterStep false] ++ List.replicate (D - 1) .tick ++ [.srvResolve (.ok 0), .waiterStep false, .waiterStep false],
      -- signal taken, deadline fires before `ctx.Err()` is read
      [.waiterStep false] ++ List.replicate (D - 1) .tick ++ [.srvResolve (.ok 0), .waiterStep false, .tick, .waiterStep false],
      -- both ready, select picks ctx / picks signal
      [.waiterStep false] ++ List.replicate D .tick ++ [.srvResolve (.ok 0), .waiterStep true, .waiterStep false],
      [.waiterStep false] ++ List.replicate D .tick ++ [.srvResolve (.ok 0), .waiterStep false, .waiterStep false],
      -- time-out first, completion late
      silentActs D ++ [.srvResolve (.ok 0)] ]
  | .precancelpre => [
      [.srvResolve (.ok 0), .ctxCancel, .waiterStep false, .waiterStep true, .waiterStep false],
      [.srvResolve (.ok 0), .ctxCancel, .waiterStep false, .waiterStep false, .waiterStep false] ]

/-- (result, number of Cancel calls) of every schedule -/
def raceSet (rs : RacyScript) (D : Nat) : List (Res × Nat) :=
  (raceSchedules rs D).filterMap fun acts =>
    let s := run (init (l0Cfg D)) acts
    match s.wpc with
    | .returned r => some (resOf r, s.cancelCalls)
    | _ => none

/-! ### a call that issues several requests (stream `c20w`, lines `w-seqnos-multi <n> <b0>,<b1>,…`)

`GetVBucketSeqNos` against a cluster of `n` KV nodes: one GET_ALL_VB_SEQNOS request per node, every
node with a scripted behaviour.  Reading of the property sentence for the whole call:

 * "returns by its deadline"                        → `by-deadline`: not `hang`, not `late` (> 60 s + 3 s)
 * "a completion after the deadline neither blocks" → `no-block`: no goroutine of the call is left 2 s after it returned
 * "success is never reported for an operation the
    server did not confirm"                         → `success-unconfirmed`: success only if EVERY node answered with success
 * "exactly the server's outcome"                   → `outcome-exact`: success carries the union of all nodes' vBuckets -/

/-- what one node does with its request -/
inductive NodeBeh
  | prompt     -- answers at once, success
  | err        -- answers at once with an error status
  | silent     -- never answers
  | late       -- answers after the deadline
  deriving DecidableEq, Repr

/-- result class of the harness, as far as the monitor cares -/
inductive MClass
  | ok | okBad | serverError | timeout | otherError | hang | panic
  deriving DecidableEq, Repr

inductive MTime | before | byDeadline | late
  deriving DecidableEq, Repr

structure MultiObs where
  behs : List NodeBeh
  cls : MClass
  time : MTime
  blocked : Nat
  deriving DecidableEq, Repr

def MClass.isOk : MClass → Bool
  | .ok | .okBad => true
  | _ => false

/-- first violated clause, if any -/
def checkMulti (o : MultiObs) : Option String :=
  if o.cls == .hang || o.time == .late then some "by-deadline"
  else if o.cls == .panic then some "no-panic-or-hang"
  else if o.blocked != 0 then some "no-block"
  else if o.cls.isOk && !(o.behs.all (· == .prompt)) then some "success-unconfirmed"
  else if o.cls == .okBad then some "outcome-exact"
  else none

def holdsMulti (o : MultiObs) : Bool := (checkMulti o).isNone

/-! the model's prediction: the per-request LTS (`MState`) on the canonical schedule of the behaviours.
    One tick = 20 s; every request has its own ctx with deadline `multiD`. -/

def multiD : Nat := 3

/-- the GetVBucketSeqNos row of the wrapper table (after the F7 repair) -/
def multiCfg : Cfg := { shape := { resultChan := true, propagatesErr := true }, deadline := some multiD }

/-- gocbcore's cancellation error, handed to the callback that `op.Cancel()` runs -/
def codeCancelled : Nat := 6

def withIdx {α : Type} : Nat → List α → List (Nat × α)
  | _, [] => []
  | i, x :: xs => (i, x) :: withIdx (i + 1) xs

/-- node `i` answers: callback (stores, `Resolve()`, `ch <- err`), then its worker runs to its return -/
def answerActs (i : Nat) (o : Outcome) : List MAction :=
  [.req i (.srvResolve o), .req i .srvPush, .req i (.waiterStep false), .req i (.waiterStep false),
   .req i (.waiterStep false)]

/-- worker `i` at its deadline: `ctx.Done()`, `op.Cancel()` – gocbcore runs the callback with the
    cancellation error on the spot –, `return ctx.Err()` -/
def timeoutActs (i : Nat) : List MAction :=
  [.req i (.waiterStep true), .req i (.srvResolve (.err codeCancelled)), .req i .srvPush,
   .req i (.waiterStep false), .req i (.waiterStep false)]

/-- until just before the deadline: all workers enter `Wait`, the prompt / error answers arrive -/
def multiPre (behs : List NodeBeh) : List MAction :=
  (withIdx 0 behs).map (fun p => MAction.req p.1 (.waiterStep false)) ++
  (withIdx 0 behs).flatMap fun p => match p.2 with
    | .prompt => answerActs p.1 (.ok 1)
    | .err => answerActs p.1 (.err 1)
    | _ => []

/-- from the deadline on; the answer of a `late` node finds its operation cancelled and is dropped by
    gocbcore (callback at most once), so all it adds is time -/
def multiPost (behs : List NodeBeh) : List MAction :=
  List.replicate multiD .tick ++
  ((withIdx 0 behs).flatMap fun p => match p.2 with
    | .silent | .late => timeoutActs p.1
    | _ => []) ++
  (if behs.any (· == .late) then [.tick] else [])

def isCallbackAct : Action → Bool
  | .srvResolve _ | .srvPush => true
  | _ => false

/-- `mrun` that also counts the callback steps of the schedule that were NOT enabled (a send that blocks) -/
def mrunB (s : MState) (acts : List MAction) : MState × Nat :=
  acts.foldl (fun (p : MState × Nat) a =>
    let blocked := match a with
      | .req i x => isCallbackAct x && (match p.1.ops[i]? with
          | some o => (step o x).isNone
          | none => false)
      | .tick => false
    (mstep p.1 a, if blocked then p.2 + 1 else p.2)) (s, 0)

def classOfCall : Option CallRes → MClass
  | none => .hang
  | some (.ok _) => .ok
  | some (.err (.srvErr _)) => .serverError
  | some (.err (.ctxErr .deadlineExceeded)) => .timeout
  | some (.err (.okEmpty)) | some (.err (.ok _)) => .okBad
  | some (.err _) => .otherError

def multiModelObs (behs : List NodeBeh) : MultiObs :=
  let p1 := mrunB (minit (behs.map fun _ => multiCfg)) (multiPre behs)
  match callResult p1.1 with
  | some r => { behs, cls := classOfCall (some r), time := .before, blocked := p1.2 + blockedCallbacks p1.1 }
  | none =>
    let p2 := mrunB p1.1 (multiPost behs)
    { behs, cls := classOfCall (callResult p2.1),
      time := if (callResult p2.1).isSome then .byDeadline else .late,
      blocked := p1.2 + p2.2 + blockedCallbacks p2.1 }

end GoDcp.Spec.C20
